(* HistoryIndep.v — property C04: after any edit history followed by the documented cache reset, every
   read-only query answers as on a tree freshly parsed from the current Newick text; read-only queries
   never change the answer of a later query.

   Part A: purity / cache coherence of the cache-touching queries of Queries.v
           (coherent, run_norm, run_coherent, query_cache_irrelevant, queries_commute, queries_any_history,
            run_all_cache_irrelevant, pure_queries_unaffected, reset_fresh).
   Part B: invariance of the answers under arena isomorphism: t represents the labelled tree [decorate t sk],
           t' represents the same labelled tree on the renumbered skeleton [rmap phi sk]
           (iso_* theorems, bundled in the record [same_answers] / theorem [iso_same_answers];
            [iso_exists]: such a phi always exists, it is "same preorder position").
   Part C: the re-parsed arena: [skel_preorder], [C04_reparse], [C04_reparse_WF], [C04_removed_unobservable],
           [C04_cached] (A and B combined).
   Not covered: the DEPTH stored with a bipartition (second component of get_partitions_with_lengths /
   compare_branch_lengths entries) is the depth of the LAST inducing node in arena order and is genuinely
   history dependent when a unary internal node and its internal child induce the same split; it is not part
   of any answer compared here.  compare_branch_lengths is covered by Part A only. *)
From Coq Require Import List Arith NArith Lia Bool Permutation Sorted.
From PT Require Import Arena Spec Queries Newick RepLib Splits RF.
From PT Require Traversals Paths Stats RoundTrip DistMatrix Formats Tril.
Import ListNotations.

Local Arguments ids : simpl never.

(* destruct the scrutinee of the outermost-possible [bind] until the goal closes *)
Ltac dbind :=
  repeat (cbn [bind omap_out fst snd];
          try reflexivity;
          match goal with
          | |- context [if ?c then _ else _] =>
              lazymatch type of c with bool => destruct c end
          | |- context [bind ?o _] =>
              lazymatch o with
              | bind _ _ => fail
              | Ok _ => fail
              | Err _ => fail
              | Panic _ => fail
              | OutOfFuel => fail
              | _ => destruct o
              end
          end).

Lemma omap_bind_fst {A S} (o : outcome A) (s : S) :
  omap_out fst (a <- o ;; Ok (a, s)) = o.
Proof. destruct o; reflexivity. Qed.

(* ================================================================================================ *)
(* Part A. cache coherence                                                                          *)
(* ================================================================================================ *)
Section PartA.
Context {L : Type}.
Variable O : LenOps L.
Notation arena := (@arena L).
Notation tree := (@tree L).
Notation dmat := (@dmat L).

(* ---- one arena ------------------------------------------------------------------------------- *)
Section OneArena.
Variables (t : arena) (root : nat) (r : rtree).
Hypothesis G : Good t root r.

(* each cache is empty or holds exactly what the code computes from the arena *)
Definition coherent (tc : tree) : Prop :=
  nodes tc = t /\
  (leaf_index tc = None \/ leaf_index tc = Some (leaf_idx t)) /\
  (partitions tc = None \/ partitions tc = Some (pm O t r)).

(* the tree after the leaf index has been filled *)
Definition norm (tc : tree) : tree := mkTree t (Some (leaf_idx t)) (partitions tc).

Lemma coherent_fresh : coherent (tree_of t).
Proof. unfold coherent, tree_of; simpl; auto. Qed.

Lemma coherent_T1 : coherent (T1 t).
Proof. unfold coherent, T1; simpl; auto. Qed.

Lemma coherent_TC : coherent (TC O t r).
Proof. unfold coherent, TC; simpl; auto. Qed.

Lemma coherent_norm tc : coherent tc -> coherent (norm tc).
Proof. intros (H1 & H2 & H3). unfold coherent, norm; simpl; auto. Qed.

Lemma coherent_reset tc : coherent tc -> coherent (reset_bipartition_cache tc).
Proof. intros (H1 & H2 & H3). unfold coherent, reset_bipartition_cache; simpl; auto. Qed.

Lemma reset_is_fresh tc : nodes tc = t -> reset_bipartition_cache tc = tree_of t.
Proof. intros H. unfold reset_bipartition_cache, tree_of. rewrite H. reflexivity. Qed.

Lemma norm_idem tc : norm (norm tc) = norm tc.
Proof. reflexivity. Qed.

Lemma init_leaf_index_coh tc : coherent tc -> init_leaf_index tc = Ok (norm tc).
Proof.
  destruct tc as [a li pc]. unfold coherent, norm. simpl. intros (-> & [->| ->] & _).
  - apply (init_leaf_index_fresh t root r G).
  - apply (init_leaf_index_cached t root r G).
Qed.

Lemma init_leaf_index_norm tc : init_leaf_index (norm tc) = Ok (norm tc).
Proof. apply (init_leaf_index_cached t root r G). Qed.

(* get_partition: the reported bitset is a function of the arena and the index only *)
Definition gp_ans (i : nat) : outcome bits := omap_out fst (get_partition (T1 t) i).

Lemma get_partition_norm tc i :
  get_partition (norm tc) i = b <- gp_ans i ;; Ok (b, norm tc).
Proof.
  unfold gp_ans, get_partition, T1, norm.
  rewrite !(init_leaf_index_cached t root r G). cbn [bind nodes leaf_index].
  dbind.
Qed.

Lemma get_partition_coh tc i : coherent tc ->
  get_partition tc i = b <- gp_ans i ;; Ok (b, norm tc).
Proof.
  intros H. rewrite <- get_partition_norm. unfold get_partition.
  rewrite (init_leaf_index_coh tc H), init_leaf_index_norm. reflexivity.
Qed.

Lemma partition_to_leaves_coh tc b : coherent tc ->
  partition_to_leaves tc b = s <- leaves_of_bits (leaf_idx t) b ;; Ok (s, norm tc).
Proof.
  intros H. unfold partition_to_leaves. rewrite (init_leaf_index_coh tc H). reflexivity.
Qed.

Lemma init_partitions_coh tc : coherent tc -> init_partitions O tc = Ok (TC O t r).
Proof.
  intros H. pose proof H as (H1 & H2 & H3).
  assert (E : init_partitions O tc = init_partitions O (norm tc)).
  { unfold init_partitions. rewrite (init_leaf_index_coh tc H), init_leaf_index_norm. reflexivity. }
  rewrite E. unfold norm. destruct H3 as [-> | ->].
  - apply (init_partitions_pm O t root r G).
  - unfold init_partitions. rewrite (init_leaf_index_cached t root r G). reflexivity.
Qed.

Lemma get_partitions_coh tc : coherent tc ->
  get_partitions O tc = Ok (part_keys t r, TC O t r).
Proof.
  intros H. unfold get_partitions. rewrite (init_leaf_index_coh tc H). cbn [bind].
  rewrite (init_partitions_coh _ (coherent_norm _ H)). cbn [bind TC partitions].
  rewrite (pm_keys O t r). reflexivity.
Qed.

Lemma gpwl_coh tc : coherent tc ->
  get_partitions_with_lengths O tc =
  if all_lens (pm O t r) then Ok (lens_of (pm O t r), TC O t r) else Err MissingBranchLengths.
Proof.
  intros H. unfold get_partitions_with_lengths. rewrite (init_leaf_index_coh tc H). cbn [bind].
  rewrite (init_partitions_coh _ (coherent_norm _ H)). cbn [bind TC partitions].
  rewrite mapM_lens. destruct (all_lens (pm O t r)); reflexivity.
Qed.

Definition dmr_ans : outcome dmat := omap_out fst (distance_matrix_recursive O (tree_of t)).

Lemma dmr_coh tc : coherent tc ->
  distance_matrix_recursive O tc = m <- dmr_ans ;; Ok (m, norm tc).
Proof.
  intros H. unfold dmr_ans, distance_matrix_recursive.
  rewrite (init_leaf_index_coh tc H). destruct H as (H1 & _). rewrite H1.
  unfold tree_of. cbn [nodes]. rewrite (init_leaf_index_fresh t root r G).
  cbn [bind nodes leaf_index norm].
  destruct (negb _); [reflexivity|].
  dbind.
Qed.

(* ---- the unary queries, uniformly -------------------------------------------------------------- *)
Inductive uquery :=
| UInitLeafIndex | UGetPartition (i : nat) | UInitPartitions | UGetPartitions
| UGetPartitionsWithLengths | UPartitionToLeaves (b : bits) | UDistMatrixRec.

Inductive answer :=
| AUnit | ABits (b : bits) | ABitsList (l : list bits) | ALens (l : list (bits * (nat * L)))
| AStr (s : str) | ADmat (m : dmat) | ANat (n : nat) | ANat2 (a b : nat) | ALen (x : L)
| ACmp (c : @comparison L) | AEdges (e : @edge_cmp L).

Definition run_u (u : uquery) (tc : tree) : outcome (answer * tree) :=
  match u with
  | UInitLeafIndex => t' <- init_leaf_index tc ;; Ok (AUnit, t')
  | UGetPartition i => x <- get_partition tc i ;; Ok (ABits (fst x), snd x)
  | UInitPartitions => t' <- init_partitions O tc ;; Ok (AUnit, t')
  | UGetPartitions => x <- get_partitions O tc ;; Ok (ABitsList (fst x), snd x)
  | UGetPartitionsWithLengths => x <- get_partitions_with_lengths O tc ;; Ok (ALens (fst x), snd x)
  | UPartitionToLeaves b => x <- partition_to_leaves tc b ;; Ok (AStr (fst x), snd x)
  | UDistMatrixRec => x <- distance_matrix_recursive O tc ;; Ok (ADmat (fst x), snd x)
  end.

(* the answer, as a function of the arena alone *)
Definition u_ans (u : uquery) : outcome answer :=
  match u with
  | UInitLeafIndex => Ok AUnit
  | UGetPartition i => b <- gp_ans i ;; Ok (ABits b)
  | UInitPartitions => Ok AUnit
  | UGetPartitions => Ok (ABitsList (part_keys t r))
  | UGetPartitionsWithLengths =>
      if all_lens (pm O t r) then Ok (ALens (lens_of (pm O t r))) else Err MissingBranchLengths
  | UPartitionToLeaves b => s <- leaves_of_bits (leaf_idx t) b ;; Ok (AStr s)
  | UDistMatrixRec => m <- dmr_ans ;; Ok (ADmat m)
  end.

(* the caches after the query *)
Definition u_next (u : uquery) (tc : tree) : tree :=
  match u with
  | UInitLeafIndex | UGetPartition _ | UPartitionToLeaves _ | UDistMatrixRec => norm tc
  | UInitPartitions | UGetPartitions | UGetPartitionsWithLengths => TC O t r
  end.

Lemma run_u_norm u tc : coherent tc -> run_u u tc = a <- u_ans u ;; Ok (a, u_next u tc).
Proof.
  intros H. destruct u; cbn [run_u u_ans u_next].
  - rewrite (init_leaf_index_coh tc H). reflexivity.
  - rewrite (get_partition_coh tc i H). destruct (gp_ans i); reflexivity.
  - rewrite (init_partitions_coh tc H). reflexivity.
  - rewrite (get_partitions_coh tc H). reflexivity.
  - rewrite (gpwl_coh tc H). destruct (all_lens _); reflexivity.
  - rewrite (partition_to_leaves_coh tc b H). destruct (leaves_of_bits _ _); reflexivity.
  - rewrite (dmr_coh tc H). destruct dmr_ans; reflexivity.
Qed.

Lemma u_next_coherent u tc : coherent tc -> coherent (u_next u tc).
Proof. intros H. destruct u; cbn [u_next]; auto using coherent_norm, coherent_TC. Qed.

End OneArena.

(* ---- two arenas: the comparison queries fill the caches of both trees ---------------------------- *)
Section TwoArenas.
Variables (t1 t2 : arena) (root1 root2 : nat) (r1 r2 : rtree).
Hypothesis G1 : Good t1 root1 r1.
Hypothesis G2 : Good t2 root2 r2.

Notation coh1 := (coherent t1 r1).
Notation coh2 := (coherent t2 r2).
Notation TC1 := (TC O t1 r1).
Notation TC2 := (TC O t2 r2).

Lemma rf_coh s o : coh1 s -> coh2 o ->
  robinson_foulds O s o = robinson_foulds O (tree_of t1) (tree_of t2).
Proof.
  intros Hs Ho. unfold robinson_foulds.
  rewrite (get_partitions_coh t1 root1 r1 G1 s Hs), (get_partitions_coh t2 root2 r2 G2 o Ho).
  rewrite (get_partitions_pm O t1 root1 r1 G1), (get_partitions_pm O t2 root2 r2 G2). reflexivity.
Qed.

Lemma rf_state v s' o' :
  robinson_foulds O (tree_of t1) (tree_of t2) = Ok (v, s', o') -> s' = TC1 /\ o' = TC2.
Proof.
  rewrite (rf_unfold O t1 t2 root1 root2 r1 r2 G1 G2). destruct (negb _); [discriminate|].
  intros E. injection E as _ <- <-. auto.
Qed.

Lemma rf_norm_form :
  robinson_foulds O (tree_of t1) (tree_of t2) =
  v <- omap_out (fun x => fst (fst x)) (robinson_foulds O (tree_of t1) (tree_of t2)) ;; Ok (v, TC1, TC2).
Proof.
  rewrite (rf_unfold O t1 t2 root1 root2 r1 r2 G1 G2). destruct (negb _); reflexivity.
Qed.

Lemma rfn_coh s o : coh1 s -> coh2 o ->
  robinson_foulds_norm O s o = robinson_foulds_norm O (tree_of t1) (tree_of t2).
Proof. intros Hs Ho. unfold robinson_foulds_norm. rewrite (rf_coh s o Hs Ho). reflexivity. Qed.

Lemma rfn_norm_form :
  robinson_foulds_norm O (tree_of t1) (tree_of t2) =
  v <- omap_out (fun x => fst (fst x)) (robinson_foulds_norm O (tree_of t1) (tree_of t2)) ;; Ok (v, TC1, TC2).
Proof.
  unfold robinson_foulds_norm. rewrite (rf_unfold O t1 t2 root1 root2 r1 r2 G1 G2).
  destruct (negb _); [reflexivity|]. cbn [bind].
  rewrite (get_partitions_TC O t1 root1 r1 G1). cbn [bind].
  rewrite (get_partitions_TC O t2 root2 r2 G2). reflexivity.
Qed.

Lemma wrf_coh sq s o : coh1 s -> coh2 o ->
  weighted_rf O sq s o = weighted_rf O sq (tree_of t1) (tree_of t2).
Proof.
  intros Hs Ho. unfold weighted_rf.
  rewrite (gpwl_coh t1 root1 r1 G1 s Hs), (gpwl_coh t2 root2 r2 G2 o Ho).
  rewrite (gpwl_fresh O t1 root1 r1 G1), (gpwl_fresh O t2 root2 r2 G2). reflexivity.
Qed.

Lemma wrf_norm_form sq :
  weighted_rf O sq (tree_of t1) (tree_of t2) =
  v <- omap_out (fun x => fst (fst x)) (weighted_rf O sq (tree_of t1) (tree_of t2)) ;; Ok (v, TC1, TC2).
Proof.
  rewrite (wrf_unfold O sq t1 t2 root1 root2 r1 r2 G1 G2). destruct (_ && _); reflexivity.
Qed.

Lemma cmp_coh s o : coh1 s -> coh2 o ->
  compare_topologies O s o = compare_topologies O (tree_of t1) (tree_of t2).
Proof.
  intros Hs Ho. unfold compare_topologies.
  rewrite (gpwl_coh t1 root1 r1 G1 s Hs), (gpwl_coh t2 root2 r2 G2 o Ho).
  rewrite (gpwl_fresh O t1 root1 r1 G1), (gpwl_fresh O t2 root2 r2 G2). reflexivity.
Qed.

Lemma cmp_norm_form :
  compare_topologies O (tree_of t1) (tree_of t2) =
  v <- omap_out (fun x => fst (fst x)) (compare_topologies O (tree_of t1) (tree_of t2)) ;; Ok (v, TC1, TC2).
Proof.
  rewrite (compare_topologies_unfold O t1 t2 root1 root2 r1 r2 G1 G2). destruct (_ && _); reflexivity.
Qed.

Lemma cbl_coh tips s o : coh1 s -> coh2 o ->
  compare_branch_lengths O s o tips = compare_branch_lengths O (tree_of t1) (tree_of t2) tips.
Proof.
  intros Hs Ho. unfold compare_branch_lengths.
  rewrite (gpwl_coh t1 root1 r1 G1 s Hs), (gpwl_coh t2 root2 r2 G2 o Ho).
  rewrite (gpwl_fresh O t1 root1 r1 G1), (gpwl_fresh O t2 root2 r2 G2). reflexivity.
Qed.

Lemma cbl_norm_form tips :
  compare_branch_lengths O (tree_of t1) (tree_of t2) tips =
  v <- omap_out (fun x => fst (fst x)) (compare_branch_lengths O (tree_of t1) (tree_of t2) tips) ;;
  Ok (v, TC1, TC2).
Proof.
  unfold compare_branch_lengths.
  rewrite (gpwl_fresh O t1 root1 r1 G1). destruct (all_lens (pm O t1 r1)); [|reflexivity]. cbn [bind].
  rewrite (gpwl_fresh O t2 root2 r2 G2). destruct (all_lens (pm O t2 r2)); [|reflexivity]. cbn [bind].
  destruct (negb tips); [reflexivity|]. dbind.
Qed.

(* ---- all cache-touching queries, uniformly ------------------------------------------------------ *)
Inductive query :=
| QL (u : uquery)            (* a unary query on the first tree *)
| QR (u : uquery)            (* a unary query on the second tree *)
| QRF | QRFNorm | QWRF (sq : bool) | QCmp | QCmpBL (tips : bool).

Definition state := (tree * tree)%type.
Definition fresh : state := (tree_of t1, tree_of t2).
Definition coherent2 (st : state) : Prop := coh1 (fst st) /\ coh2 (snd st).

Definition run (q : query) (st : state) : outcome (answer * state) :=
  match q with
  | QL u => x <- run_u u (fst st) ;; Ok (fst x, (snd x, snd st))
  | QR u => x <- run_u u (snd st) ;; Ok (fst x, (fst st, snd x))
  | QRF => x <- robinson_foulds O (fst st) (snd st) ;; Ok (ANat (fst (fst x)), (snd (fst x), snd x))
  | QRFNorm => x <- robinson_foulds_norm O (fst st) (snd st) ;;
               Ok (ANat2 (fst (fst (fst x))) (snd (fst (fst x))), (snd (fst x), snd x))
  | QWRF sq => x <- weighted_rf O sq (fst st) (snd st) ;; Ok (ALen (fst (fst x)), (snd (fst x), snd x))
  | QCmp => x <- compare_topologies O (fst st) (snd st) ;; Ok (ACmp (fst (fst x)), (snd (fst x), snd x))
  | QCmpBL tips => x <- compare_branch_lengths O (fst st) (snd st) tips ;;
                   Ok (AEdges (fst (fst x)), (snd (fst x), snd x))
  end.

(* the answer as a function of the two arenas alone *)
Definition q_ans (q : query) : outcome answer := omap_out fst (run q fresh).

Definition q_next (q : query) (st : state) : state :=
  match q with
  | QL u => (u_next t1 r1 u (fst st), snd st)
  | QR u => (fst st, u_next t2 r2 u (snd st))
  | _ => (TC1, TC2)
  end.

Lemma q_next_coherent q st : coherent2 st -> coherent2 (q_next q st).
Proof.
  intros [H1 H2]. destruct q; cbn [q_next]; split; cbn [fst snd];
    auto using u_next_coherent, coherent_TC.
Qed.

Lemma coherent2_fresh : coherent2 fresh.
Proof. split; apply coherent_fresh. Qed.

Lemma run_norm q st : coherent2 st -> run q st = a <- q_ans q ;; Ok (a, q_next q st).
Proof.
  intros [H1 H2]. unfold q_ans. destruct q; cbn [run q_next fresh fst snd].
  - rewrite (run_u_norm t1 root1 r1 G1 u _ H1), (run_u_norm t1 root1 r1 G1 u _ (coherent_fresh t1 r1)).
    destruct (u_ans t1 r1 u); reflexivity.
  - rewrite (run_u_norm t2 root2 r2 G2 u _ H2), (run_u_norm t2 root2 r2 G2 u _ (coherent_fresh t2 r2)).
    destruct (u_ans t2 r2 u); reflexivity.
  - rewrite (rf_coh _ _ H1 H2), rf_norm_form.
    destruct (robinson_foulds O (tree_of t1) (tree_of t2)) as [[[v a] b]| | |]; reflexivity.
  - rewrite (rfn_coh _ _ H1 H2), rfn_norm_form.
    destruct (robinson_foulds_norm O (tree_of t1) (tree_of t2)) as [[[[v w] a] b]| | |]; reflexivity.
  - rewrite (wrf_coh sq _ _ H1 H2), wrf_norm_form.
    destruct (weighted_rf O sq (tree_of t1) (tree_of t2)) as [[[v a] b]| | |]; reflexivity.
  - rewrite (cmp_coh _ _ H1 H2), cmp_norm_form.
    destruct (compare_topologies O (tree_of t1) (tree_of t2)) as [[[v a] b]| | |]; reflexivity.
  - rewrite (cbl_coh tips _ _ H1 H2), cbl_norm_form.
    destruct (compare_branch_lengths O (tree_of t1) (tree_of t2) tips) as [[[v a] b]| | |]; reflexivity.
Qed.

(* A1. a query never touches the arenas and leaves coherent caches *)
Theorem run_coherent q st a st' :
  coherent2 st -> run q st = Ok (a, st') ->
  coherent2 st' /\ nodes (fst st') = t1 /\ nodes (snd st') = t2.
Proof.
  intros H E. rewrite (run_norm q st H) in E. destruct (q_ans q); try discriminate.
  cbn [bind] in E. injection E as _ <-.
  pose proof (q_next_coherent q st H) as H'. split; auto.
  destruct H' as [(A & _) (B & _)]. auto.
Qed.

(* A2. the answer of a query on coherent caches is its answer on fresh caches *)
Theorem query_cache_irrelevant q st :
  coherent2 st -> omap_out fst (run q st) = omap_out fst (run q fresh).
Proof.
  intros H. rewrite (run_norm q st H). fold (q_ans q). apply omap_bind_fst.
Qed.

(* A3. a query never changes the answer of a later query *)
Corollary queries_commute q1 q2 st a1 st1 :
  coherent2 st -> run q1 st = Ok (a1, st1) ->
  omap_out fst (run q2 st1) = omap_out fst (run q2 st).
Proof.
  intros H E. destruct (run_coherent q1 st a1 st1 H E) as (H' & _).
  rewrite (query_cache_irrelevant q2 st1 H'), (query_cache_irrelevant q2 st H). reflexivity.
Qed.

(* any number of queries, in any order *)
Fixpoint run_all (qs : list query) (st : state) : outcome (list answer * state) :=
  match qs with
  | [] => Ok ([], st)
  | q :: rest => x <- run q st ;; y <- run_all rest (snd x) ;; Ok (fst x :: fst y, snd y)
  end.

Theorem run_all_coherent qs : forall st ans st',
  coherent2 st -> run_all qs st = Ok (ans, st') ->
  coherent2 st' /\ nodes (fst st') = t1 /\ nodes (snd st') = t2.
Proof.
  induction qs as [|q qs IH]; intros st ans st' H E; cbn [run_all] in E.
  - injection E as _ <-. pose proof H as [(A & _) (B & _)]. auto.
  - destruct (run q st) as [[a st1]| | |] eqn:E1; try discriminate. cbn [bind snd fst] in E.
    destruct (run_all qs st1) as [[as' st2]| | |] eqn:E2; try discriminate. cbn [bind snd fst] in E.
    injection E as _ <-. destruct (run_coherent q st a st1 H E1) as (H1 & _). eapply IH; eauto.
Qed.

Theorem queries_any_history qs q st ans st' :
  coherent2 st -> run_all qs st = Ok (ans, st') ->
  omap_out fst (run q st') = omap_out fst (run q fresh).
Proof.
  intros H E. destruct (run_all_coherent qs st ans st' H E) as (H' & _).
  apply query_cache_irrelevant; auto.
Qed.

(* the answers of a whole sequence do not depend on the caches it starts from *)
Theorem run_all_cache_irrelevant qs : forall st,
  coherent2 st -> omap_out fst (run_all qs st) = omap_out fst (run_all qs fresh).
Proof.
  induction qs as [|q qs IH]; intros st H; [reflexivity|]. cbn [run_all].
  rewrite (run_norm q st H), (run_norm q fresh coherent2_fresh).
  destruct (q_ans q) as [a| | |]; try reflexivity. cbn [bind snd fst].
  pose proof (IH _ (q_next_coherent q st H)) as I1.
  pose proof (IH _ (q_next_coherent q fresh coherent2_fresh)) as I2.
  destruct (run_all qs (q_next q st)) as [[x1 y1]| | |], (run_all qs (q_next q fresh)) as [[x2 y2]| | |],
    (run_all qs fresh) as [[x3 y3]| | |]; cbn in *; try congruence.
Qed.

(* the other queries take the bare arena (they are functions [arena -> _]): whatever has been asked
   before, they are evaluated on the same arena *)
Theorem pure_queries_unaffected {A} (f : arena -> A) qs st ans st' :
  coherent2 st -> run_all qs st = Ok (ans, st') ->
  f (nodes (fst st')) = f t1 /\ f (nodes (snd st')) = f t2.
Proof.
  intros H E. destruct (run_all_coherent qs st ans st' H E) as (_ & -> & ->). auto.
Qed.

(* the documented reset leads to the fresh state *)
Theorem reset_fresh st :
  nodes (fst st) = t1 -> nodes (snd st) = t2 ->
  (reset_bipartition_cache (fst st), reset_bipartition_cache (snd st)) = fresh.
Proof. intros H1 H2. unfold reset_bipartition_cache, fresh, tree_of. rewrite H1, H2. reflexivity. Qed.

End TwoArenas.
End PartA.

(* ================================================================================================ *)
(* Part B. isomorphism invariance                                                                   *)
(* ================================================================================================ *)

(* ---- B0. renumbering a rose tree ----------------------------------------------------------------- *)
Section RMap.
Variable f : nat -> nat.

Fixpoint rmap (r : rtree) : rtree :=
  match r with RT i cs => RT (f i) (map rmap cs) end.

Lemma rmap_RT i cs : rmap (RT i cs) = RT (f i) (map rmap cs).
Proof. reflexivity. Qed.
Lemma rid_rmap r : rid (rmap r) = f (rid r).
Proof. destruct r; reflexivity. Qed.
Lemma rch_rmap r : Spec.rch (rmap r) = map rmap (Spec.rch r).
Proof. destruct r; reflexivity. Qed.
Lemma rch_rmap_length r : length (Spec.rch (rmap r)) = length (Spec.rch r).
Proof. rewrite rch_rmap, map_length. reflexivity. Qed.

Lemma flat_map_rmap {B C} (g : rtree -> list B) (g' : rtree -> list C) (h : B -> C) cs :
  Forall (fun c => g' (rmap c) = map h (g c)) cs ->
  flat_map g' (map rmap cs) = map h (flat_map g cs).
Proof. induction 1; simpl; auto. rewrite map_app. congruence. Qed.

Lemma map_rmap_inv {B} (g g' : rtree -> B) cs :
  Forall (fun c => g' (rmap c) = g c) cs -> map g' (map rmap cs) = map g cs.
Proof. induction 1; simpl; congruence. Qed.

Lemma forallb_rmap (g g' : rtree -> bool) cs :
  Forall (fun c => g' (rmap c) = g c) cs -> forallb g' (map rmap cs) = forallb g cs.
Proof. induction 1; simpl; congruence. Qed.

Lemma pre_rmap : forall r, pre (rmap r) = map f (pre r).
Proof.
  induction r as [i cs IH] using rtree_ind'. simpl. f_equal. apply flat_map_rmap; auto.
Qed.
Lemma ids_rmap r : ids (rmap r) = map f (ids r).
Proof. apply pre_rmap. Qed.
Lemma post_rmap : forall r, post (rmap r) = map f (post r).
Proof.
  induction r as [i cs IH] using rtree_ind'. simpl. rewrite map_app. f_equal. apply flat_map_rmap; auto.
Qed.
Lemma rleaves_rmap : forall r, rleaves (rmap r) = map f (rleaves r).
Proof.
  induction r as [i cs IH] using rtree_ind'. destruct cs as [|c cs']; [reflexivity|].
  change (rleaves (rmap (RT i (c :: cs')))) with (flat_map rleaves (map rmap (c :: cs'))).
  change (rleaves (RT i (c :: cs'))) with (flat_map rleaves (c :: cs')).
  apply flat_map_rmap; auto.
Qed.
Lemma rsize_rmap : forall r, rsize (rmap r) = rsize r.
Proof.
  induction r as [i cs IH] using rtree_ind'. simpl. f_equal.
  induction IH; simpl; congruence.
Qed.
Lemma rheight_rmap : forall r, rheight (rmap r) = rheight r.
Proof.
  induction r as [i cs IH] using rtree_ind'. simpl. f_equal.
  induction IH; simpl; congruence.
Qed.
Lemma max_arity_rmap : forall r, max_arity (rmap r) = max_arity r.
Proof.
  induction r as [i cs IH] using rtree_ind'. simpl. rewrite map_length. generalize (length cs).
  induction IH; simpl; intros; congruence.
Qed.

Lemma level_forest_S n x fs :
  level_forest (S n) (x :: fs) = map rid (x :: fs) ++ level_forest n (flat_map Spec.rch (x :: fs)).
Proof. reflexivity. Qed.

Lemma level_forest_rmap : forall n fs, level_forest n (map rmap fs) = map f (level_forest n fs).
Proof.
  induction n as [|n IH]; intros fs; [reflexivity|]. destruct fs as [|x fs]; [reflexivity|].
  change (map rmap (x :: fs)) with (rmap x :: map rmap fs). rewrite !level_forest_S.
  change (rmap x :: map rmap fs) with (map rmap (x :: fs)).
  generalize (x :: fs) as l. intros l. rewrite map_app. f_equal.
  - rewrite !map_map. apply map_ext. intros; apply rid_rmap.
  - rewrite <- IH. f_equal. induction l as [|a l IHl]; simpl; auto.
    rewrite map_app, rch_rmap. congruence.
Qed.
Lemma level_rmap r : level (rmap r) = map f (level r).
Proof. unfold level. rewrite rheight_rmap. apply (level_forest_rmap _ [r]). Qed.

Lemma ino_rmap : forall r, ino (rmap r) = map f (ino r).
Proof.
  induction r as [i cs IH] using rtree_ind'.
  destruct cs as [|a [|b [|c cs]]]; try reflexivity.
  - inversion IH; subst. simpl. rewrite map_app. simpl. congruence.
  - inversion IH as [|? ? Ha IH']; subst. inversion IH'; subst. simpl. rewrite map_app. simpl. congruence.
Qed.

(* shape statistics *)
Lemma arity_le_rmap k : forall r, Stats.arity_le k (rmap r) = Stats.arity_le k r.
Proof.
  induction r as [i cs IH] using rtree_ind'. simpl. rewrite map_length. f_equal. apply forallb_rmap; auto.
Qed.
Lemma binary_spec_rmap r : Stats.binary_spec (rmap r) = Stats.binary_spec r.
Proof.
  unfold Stats.binary_spec. rewrite rch_rmap_length, arity_le_rmap, rch_rmap.
  rewrite (forallb_rmap (Stats.arity_le 2) (Stats.arity_le 2)); auto.
  apply Forall_forall. intros; apply arity_le_rmap.
Qed.
Lemma strict_binary_rmap : forall r, Stats.strict_binary (rmap r) = Stats.strict_binary r.
Proof.
  induction r as [i cs IH] using rtree_ind'. simpl. rewrite map_length. f_equal. apply forallb_rmap; auto.
Qed.
Lemma is_leaf_rmap r : Stats.is_leaf (rmap r) = Stats.is_leaf r.
Proof. destruct r as [i [|c cs]]; reflexivity. Qed.
Lemma is_cherry_rmap r : Stats.is_cherry (rmap r) = Stats.is_cherry r.
Proof.
  destruct r as [i [|a [|b [|c cs]]]]; try reflexivity.
  unfold Stats.is_cherry. simpl. rewrite !is_leaf_rmap. reflexivity.
Qed.
Lemma cherries_spec_rmap : forall r, Stats.cherries_spec (rmap r) = Stats.cherries_spec r.
Proof.
  induction r as [i cs IH] using rtree_ind'.
  change (Stats.cherries_spec (rmap (RT i cs))) with
    ((if Stats.is_cherry (rmap (RT i cs)) then 1 else 0) + sum_nat (map Stats.cherries_spec (map rmap cs))).
  rewrite is_cherry_rmap, (map_rmap_inv Stats.cherries_spec Stats.cherries_spec); auto.
Qed.
Lemma nleaves_rmap r : Stats.nleaves (rmap r) = Stats.nleaves r.
Proof. unfold Stats.nleaves. rewrite rleaves_rmap, map_length. reflexivity. Qed.
Lemma colless_node_rmap cs : Stats.colless_node (map rmap cs) = Stats.colless_node cs.
Proof.
  destruct cs as [|a [|b cs]]; simpl; rewrite ?nleaves_rmap; reflexivity.
Qed.
Lemma colless_gen_rmap : forall r, Stats.colless_gen (rmap r) = Stats.colless_gen r.
Proof.
  induction r as [i cs IH] using rtree_ind'. simpl.
  rewrite colless_node_rmap, (map_rmap_inv Stats.colless_gen Stats.colless_gen); auto.
Qed.
Lemma leaf_depths_rmap : forall r d, Stats.leaf_depths d (rmap r) = Stats.leaf_depths d r.
Proof.
  induction r as [i cs IH] using rtree_ind'. intros d. destruct cs as [|c cs']; [reflexivity|].
  change (Stats.leaf_depths d (rmap (RT i (c :: cs')))) with
    (flat_map (Stats.leaf_depths (S d)) (map rmap (c :: cs'))).
  change (Stats.leaf_depths d (RT i (c :: cs'))) with (flat_map (Stats.leaf_depths (S d)) (c :: cs')).
  induction IH as [|x l Hx _ IHl]; simpl; auto. rewrite Hx, IHl. reflexivity.
Qed.
Lemma sackin_spec_rmap r : Stats.sackin_spec (rmap r) = Stats.sackin_spec r.
Proof. unfold Stats.sackin_spec. rewrite leaf_depths_rmap. reflexivity. Qed.

(* subtrees, clades, splits *)
Lemma subtrees_rmap : forall r, subtrees (rmap r) = map rmap (subtrees r).
Proof.
  induction r as [i cs IH] using rtree_ind'. simpl. f_equal. apply flat_map_rmap; auto.
Qed.
Lemma proper_subtrees_rmap r : proper_subtrees (rmap r) = map rmap (proper_subtrees r).
Proof.
  unfold proper_subtrees. rewrite rch_rmap. apply flat_map_rmap.
  apply Forall_forall. intros; apply subtrees_rmap.
Qed.
Lemma internal_rmap r : internal (rmap r) = internal r.
Proof. destruct r as [i [|c cs]]; reflexivity. Qed.

Lemma filter_map_comm' {A B} (g : A -> B) (p : B -> bool) l :
  filter p (map g l) = map g (filter (fun x => p (g x)) l).
Proof. induction l as [|x l IH]; simpl; auto. destruct (p (g x)); simpl; congruence. Qed.

Lemma split_nodes_rmap r : split_nodes (rmap r) = map rmap (split_nodes r).
Proof.
  unfold split_nodes. rewrite proper_subtrees_rmap, filter_map_comm'. f_equal.
  apply filter_ext. intros s. rewrite internal_rmap, !rleaves_rmap, !map_length. reflexivity.
Qed.

Lemma rsplits_rmap (nm nm' : nat -> str) r :
  (forall i, In i (rleaves r) -> nm' (f i) = nm i) -> rsplits nm' (rmap r) = rsplits nm r.
Proof.
  intros H. unfold rsplits. rewrite split_nodes_rmap, map_map. apply map_ext_in.
  intros s Hs. unfold clade. rewrite rleaves_rmap, map_map. apply map_ext_in. intros i Hi. apply H.
  apply in_split_nodes in Hs as (Hs & _). eapply subtrees_leaves_incl; eauto. apply subtrees_cases; auto.
Qed.

(* root paths, when f is injective where it matters *)
Lemma rpath_first_rmap x cs :
  Forall (fun c => rpath (f x) (rmap c) = option_map (map f) (rpath x c)) cs ->
  Paths.rpath_first (f x) (map rmap cs) = option_map (map f) (Paths.rpath_first x cs).
Proof. induction 1 as [|c l Hc _ IH]; simpl; auto. rewrite Hc. destruct (rpath x c); simpl; auto. Qed.

Lemma rpath_rmap x : forall r, (forall y, In y (ids r) -> f y = f x -> y = x) ->
  rpath (f x) (rmap r) = option_map (map f) (rpath x r).
Proof.
  induction r as [i cs IH] using rtree_ind'. intros Hinj. rewrite rmap_RT, !Paths.rpath_RT.
  destruct (Nat.eqb_spec i x) as [->|Hne].
  - rewrite Nat.eqb_refl. reflexivity.
  - destruct (Nat.eqb_spec (f i) (f x)) as [E|_].
    + exfalso. apply Hne, Hinj; auto. rewrite ids_RT. left; auto.
    + rewrite rpath_first_rmap; [destruct (Paths.rpath_first x cs); reflexivity|].
      rewrite Forall_forall in *. intros c Hc. apply IH; auto. intros y Hy. apply Hinj.
      rewrite ids_RT. right. apply in_flat_map; eauto.
Qed.

Lemma cpl_map a : forall b, (forall x y, In x a -> In y b -> f x = f y -> x = y) ->
  Paths.cpl (map f a) (map f b) = Paths.cpl a b.
Proof.
  induction a as [|x a IH]; intros [|y b] H; simpl; auto.
  destruct (Nat.eqb_spec x y) as [->|Hne].
  - rewrite Nat.eqb_refl. f_equal. apply IH. intros; apply H; simpl; auto.
  - destruct (Nat.eqb_spec (f x) (f y)) as [E|_]; auto. exfalso. apply Hne, H; simpl; auto.
Qed.

Lemma lcp_map a : forall b, (forall x y, In x a -> In y b -> f x = f y -> x = y) ->
  Paths.lcp (map f a) (map f b) = map f (Paths.lcp a b).
Proof.
  induction a as [|x a IH]; intros [|y b] H; simpl; auto.
  destruct (Nat.eqb_spec x y) as [->|Hne].
  - rewrite Nat.eqb_refl. simpl. f_equal. apply IH. intros; apply H; simpl; auto.
  - destruct (Nat.eqb_spec (f x) (f y)) as [E|_]; auto. exfalso. apply Hne, H; simpl; auto.
Qed.

End RMap.

(* ---- B0'. small list facts ----------------------------------------------------------------------- *)
Lemma dedup_str_In x l : In x (dedup_str l) <-> In x l.
Proof.
  induction l as [|a l IH]; simpl; [tauto|]. destruct (mem_str a l) eqn:E.
  - rewrite IH. split; auto. intros [<-|H]; auto. apply mem_str_In; auto.
  - simpl. rewrite IH. tauto.
Qed.

Lemma dedup_str_NoDup l : NoDup (dedup_str l).
Proof.
  induction l as [|a l IH]; simpl; [constructor|]. destruct (mem_str a l) eqn:E; auto.
  constructor; auto. rewrite dedup_str_In. apply mem_str_false; auto.
Qed.

Lemma dedup_str_perm_length l l' : Permutation l l' -> length (dedup_str l) = length (dedup_str l').
Proof.
  intros H. apply Permutation_length. apply NoDup_Permutation; auto using dedup_str_NoDup.
  intros x. rewrite !dedup_str_In. split; apply Permutation_in; auto using Permutation_sym.
Qed.

Lemma pairs_perm_sym {A B} (g : A * A -> B) (l l' : list A) :
  (forall a b, g (a, b) = g (b, a)) -> Permutation l l' -> Permutation (map g (pairs l)) (map g (pairs l')).
Proof.
  intros Hsym. induction 1 as [|x l l' Hp IH|x y l|l1 l2 l3 _ IH1 _ IH2].
  - constructor.
  - simpl. rewrite !map_app, !map_map. apply Permutation_app; auto. apply Permutation_map; auto.
  - simpl. rewrite !map_app, !map_map. rewrite Hsym. constructor.
    rewrite !app_assoc. apply Permutation_app_tail. apply Permutation_app_comm.
  - eapply Permutation_trans; eauto.
Qed.

(* the maximum picked by Iterator::max_by does not depend on the order, when < is a strict total order *)
Section LMax.
Context {L : Type}.
Variable O : LenOps L.
Hypothesis lt_irrefl : forall x, lltb O x x = false.
Hypothesis lt_trans : forall x y z, lltb O x y = true -> lltb O y z = true -> lltb O x z = true.
Hypothesis lt_total : forall x y, lltb O x y = false -> lltb O y x = false -> x = y.

Definition is_lmax (l : list L) (m : L) : Prop := In m l /\ forall y, In y l -> lltb O m y = false.

Lemma lt_asym x y : lltb O x y = true -> lltb O y x = false.
Proof.
  intros H. destruct (lltb O y x) eqn:E; auto. rewrite <- (lt_irrefl x). symmetry. eapply lt_trans; eauto.
Qed.

Lemma lmax_fold l : forall acc seen,
  is_lmax (acc :: seen) acc ->
  is_lmax (acc :: seen ++ l) (fold_left (fun a y => if lltb O y a then a else y) l acc).
Proof.
  induction l as [|y l IH]; intros acc seen H; simpl.
  - rewrite app_nil_r. auto.
  - destruct (lltb O y acc) eqn:E.
    + specialize (IH acc (seen ++ [y])). rewrite <- app_assoc in IH. simpl in IH. apply IH.
      destruct H as [_ H]. split; [left; auto|]. intros z [<-|Hz]; [apply lt_irrefl|].
      apply in_app_or in Hz as [Hz|[<-|[]]]; [apply H; right; auto|apply lt_asym; auto].
    + specialize (IH y (acc :: seen)).
      assert (Hy : is_lmax (y :: acc :: seen) y).
      { destruct H as [_ H]. split; [left; auto|]. intros z [<-|Hz]; [apply lt_irrefl|].
        destruct (lltb O y z) eqn:E2; auto. exfalso.
        assert (Hz' : lltb O acc z = false) by (apply H; auto).
        destruct (lltb O z acc) eqn:E3.
        - rewrite (lt_trans _ _ _ E2 E3) in E. discriminate.
        - rewrite (lt_total _ _ Hz' E3) in E. congruence. }
      specialize (IH Hy). destruct IH as [I1 I2]. split.
      * destruct I1 as [<-|I1]; [right; apply in_or_app; right; left; auto|].
        simpl in I1. destruct I1 as [<-|I1]; [left; auto|]. right. apply in_app_or in I1 as [?|?]; apply in_or_app; simpl; auto.
      * intros z Hz. apply I2. simpl in Hz. destruct Hz as [<-|Hz]; [right; left; auto|].
        apply in_app_or in Hz as [Hz|[<-|Hz]]; [right; right; apply in_or_app; auto|left; auto|].
        right; right; apply in_or_app; auto.
Qed.

Lemma lmax_list_spec l : match lmax_list O l with Some m => is_lmax l m | None => l = [] end.
Proof.
  destruct l as [|x l]; simpl; auto.
  apply (lmax_fold l x []). split; [left; auto|]. intros y [<-|[]]. apply lt_irrefl.
Qed.

Lemma is_lmax_unique l m m' : is_lmax l m -> is_lmax l m' -> m = m'.
Proof. intros [A B] [C D]. apply lt_total; auto. Qed.

Lemma lmax_list_perm l l' : Permutation l l' -> lmax_list O l = lmax_list O l'.
Proof.
  intros H. pose proof (lmax_list_spec l) as A. pose proof (lmax_list_spec l') as B.
  destruct (lmax_list O l) as [m|], (lmax_list O l') as [m'|]; auto.
  - f_equal. apply (is_lmax_unique l); auto. destruct B as [B1 B2]. split.
    + eapply Permutation_in; [apply Permutation_sym|]; eauto.
    + intros y Hy. apply B2. eapply Permutation_in; eauto.
  - subst l'. apply Permutation_sym, Permutation_nil in H. subst. destruct A as [[] _].
  - subst l. apply Permutation_nil in H. subst. destruct B as [[] _].
Qed.
End LMax.

Lemma In_skipn' {A} n (l : list A) x : In x (skipn n l) -> In x l.
Proof. intros H. rewrite <- (firstn_skipn n l). apply in_or_app; auto. Qed.

Lemma existsb_perm {A} (p : A -> bool) l l' : Permutation l l' -> existsb p l = existsb p l'.
Proof.
  induction 1; simpl; auto; try congruence.
  destruct (p x), (p y); reflexivity.
Qed.

(* ---- B0''. erasing the fields a format omits, on labelled trees -------------------------------------- *)
Section LErase.
Context {L : Type}.
Notation arena := (@arena L).

Fixpoint lerase (f : nformat) (r : RoundTrip.ltree L) : RoundTrip.ltree L :=
  match r with
  | RoundTrip.LT nm ln cm cs =>
      let tip := match cs with [] => true | _ => false end in
      RoundTrip.LT (if Formats.keeps_name f tip then nm else None)
                   (if Formats.keeps_length f tip then ln else None)
                   (if Formats.keeps_comment f then cm else None)
                   (map (lerase f) cs)
  end.

Lemma LRep_erase f : forall r (a : arena) p d i,
  RoundTrip.LRep a p d i r -> RoundTrip.LRep (map (Formats.erase f) a) p d i (lerase f r).
Proof.
  induction r as [nm ln cm cs IH] using RoundTrip.ltree_ind'. intros a p d i H.
  inversion H as [p1 d1 i1 n nm1 ln1 cm1 cs1 Hn Hdel Hid Hp Hd Hnm Hln Hcm HF]; subst.
  assert (Htip : is_tip n = match cs with [] => true | _ => false end).
  { unfold is_tip. inversion HF; reflexivity. }
  cbn [lerase]. rewrite <- Htip.
  apply RoundTrip.LRep_node with (n := Formats.erase f n); try reflexivity; auto.
  - rewrite nth_error_map, Hn. reflexivity.
  - cbn [Formats.erase nchildren nid]. clear Htip Hn H. induction HF as [|x c l cs' Hx _ IHF]; cbn [map]; constructor.
    + inversion IH; subst. auto.
    + inversion IH; subst. auto.
Qed.
End LErase.

Lemma Permutation_filter' {A} (p : A -> bool) l l' : Permutation l l' -> Permutation (filter p l) (filter p l').
Proof.
  induction 1 as [|x l l' _ IH|x y l|l1 l2 l3 _ IH1 _ IH2]; simpl; auto.
  - destruct (p x); auto.
  - destruct (p x), (p y); auto. constructor.
  - eapply Permutation_trans; eauto.
Qed.

Lemma fold_left_perm_rc {A B} (f : A -> B -> A) l l' :
  (forall a x y, f (f a x) y = f (f a y) x) -> Permutation l l' ->
  forall a, fold_left f l a = fold_left f l' a.
Proof.
  intros Hf. induction 1 as [|x l l' _ IH|x y l|l1 l2 l3 _ IH1 _ IH2]; intros a; simpl; auto.
  - rewrite Hf. reflexivity.
  - rewrite IH1. auto.
Qed.

Lemma find_hd_filter {A} (q : A -> bool) l : find q l = hd_error (filter q l).
Proof. induction l as [|x l IH]; simpl; auto. destruct (q x); auto. Qed.

Lemma NoDup_all_same {A} (l : list A) : NoDup l -> (forall x y, In x l -> In y l -> x = y) ->
  l = [] \/ exists x, l = [x].
Proof.
  intros Hnd H. destruct l as [|x [|y l]]; auto; [right; eauto|].
  exfalso. apply NoDup_cons_iff in Hnd as [Hx _]. apply Hx. rewrite (H x y); simpl; auto.
Qed.

(* ---- B1. two arenas representing the same labelled tree ------------------------------------------ *)
Section Iso.
Context {L : Type}.
Notation arena := (@arena L).
Notation tree := (@tree L).

Definition lcomment (t : arena) (i : nat) : option str :=
  match nth_error t i with Some n => ncomment n | None => None end.

Lemma decorate_RT (t : arena) i cs :
  RoundTrip.decorate t (RT i cs) =
  RoundTrip.LT (lname t i) (Paths.edge_of t i) (lcomment t i) (map (RoundTrip.decorate t) cs).
Proof. unfold lname, Paths.edge_of, lcomment. simpl. destruct (nth_error t i); reflexivity. Qed.

(* t represents the labelled tree [decorate t sk]; t' represents the same labelled tree on the skeleton
   [rmap phi sk]: phi is the correspondence between the node ids of the two arenas *)
Variables (t t' : arena) (root root' : nat) (sk : rtree) (phi : nat -> nat).
Notation sk' := (rmap phi sk).
Hypothesis HR : Rep t None 0 root sk.
Hypothesis HN : NoDup (ids sk).
Hypothesis HL : forall i, live t i -> In i (ids sk).
Hypothesis HR' : Rep t' None 0 root' sk'.
Hypothesis HN' : NoDup (ids sk').
Hypothesis HL' : forall i, live t' i -> In i (ids sk').
Hypothesis Hdec : RoundTrip.decorate t sk = RoundTrip.decorate t' sk'.

Lemma phi_inj x y : In x (ids sk) -> In y (ids sk) -> phi x = phi y -> x = y.
Proof. intros Hx Hy E. rewrite ids_rmap in HN'. eapply DistMatrix.NoDup_map_inj; eauto. Qed.

Lemma labels_sub : forall s, RoundTrip.decorate t s = RoundTrip.decorate t' (rmap phi s) ->
  forall x, In x (ids s) ->
    lname t' (phi x) = lname t x /\ Paths.edge_of t' (phi x) = Paths.edge_of t x /\
    lcomment t' (phi x) = lcomment t x.
Proof.
  induction s as [i cs IH] using rtree_ind'. intros E x Hx.
  rewrite rmap_RT, !decorate_RT in E. injection E as E1 E2 E3 E4.
  rewrite ids_RT in Hx. destruct Hx as [<-|Hx]; [auto|].
  apply in_flat_map in Hx as (c & Hc & Hx). rewrite Forall_forall in IH. apply (IH c Hc); auto.
  rewrite map_map in E4. apply (ext_in_map E4); auto.
Qed.

Lemma iso_lname x : In x (ids sk) -> lname t' (phi x) = lname t x.
Proof. intros H. apply (labels_sub sk Hdec x H). Qed.
Lemma iso_edge x : In x (ids sk) -> Paths.edge_of t' (phi x) = Paths.edge_of t x.
Proof. intros H. apply (labels_sub sk Hdec x H). Qed.
Lemma iso_comment x : In x (ids sk) -> lcomment t' (phi x) = lcomment t x.
Proof. intros H. apply (labels_sub sk Hdec x H). Qed.
Lemma iso_lab x : In x (ids sk) -> lab t' (phi x) = lab t x.
Proof. intros H. unfold lab. rewrite iso_lname; auto. Qed.

Lemma iso_root : root' = phi root.
Proof.
  rewrite <- (Rep_rid _ _ _ _ _ HR'), <- (Rep_rid _ _ _ _ _ HR). apply rid_rmap.
Qed.

Lemma iso_map_edge l : incl l (ids sk) -> map (Paths.edge_of t') (map phi l) = map (Paths.edge_of t) l.
Proof. intros H. rewrite map_map. apply map_ext_in. intros x Hx. apply iso_edge; auto. Qed.

(* the leaves of the two arenas, through phi *)
Lemma iso_leaves_perm : Permutation (get_leaves t') (map phi (get_leaves t)).
Proof.
  eapply Permutation_trans; [apply (Stats.get_leaves_perm t' root' sk' HR' HN' HL')|].
  rewrite rleaves_rmap. apply Permutation_map, Permutation_sym.
  apply (Stats.get_leaves_perm t root sk HR HN HL).
Qed.

Lemma leaves_in_ids x : In x (get_leaves t) -> In x (ids sk).
Proof.
  intros H. apply rleaves_incl_ids. eapply Permutation_in; [apply (Stats.get_leaves_perm t root sk HR HN HL)|auto].
Qed.

(* ---- exactly equal answers ----------------------------------------------------------------------- *)
Theorem iso_n_leaves : n_leaves t' = n_leaves t.
Proof.
  rewrite (Stats.n_leaves_refines t root sk HR HN HL), (Stats.n_leaves_refines t' root' sk' HR' HN' HL').
  rewrite rleaves_rmap, map_length. reflexivity.
Qed.

Theorem iso_is_rooted : is_rooted t' = is_rooted t.
Proof.
  rewrite (Stats.is_rooted_refines t root sk HR HN HL), (Stats.is_rooted_refines t' root' sk' HR' HN' HL').
  rewrite rch_rmap_length. reflexivity.
Qed.

Section Blank.
Hypothesis HB : Stats.Blank t.
Hypothesis HB' : Stats.Blank t'.

Theorem iso_is_binary : is_binary t' = is_binary t.
Proof.
  rewrite (Stats.is_binary_refines t root sk HR HN HL HB), (Stats.is_binary_refines t' root' sk' HR' HN' HL' HB').
  rewrite binary_spec_rmap. reflexivity.
Qed.

Theorem iso_cherries : cherries t' = cherries t.
Proof.
  destruct (Stats.binary_spec sk) eqn:E.
  - rewrite (Stats.cherries_refines t root sk HR HN HL HB E).
    rewrite (Stats.cherries_refines t' root' sk' HR' HN' HL' HB') by (rewrite binary_spec_rmap; auto).
    rewrite cherries_spec_rmap. reflexivity.
  - rewrite (Stats.cherries_refuse t root sk HR HN HL HB E).
    rewrite (Stats.cherries_refuse t' root' sk' HR' HN' HL' HB') by (rewrite binary_spec_rmap; auto).
    reflexivity.
Qed.

Theorem iso_colless_sackin : colless t' = colless t /\ sackin t' = sackin t.
Proof.
  destruct (Nat.eq_dec (length (Spec.rch sk)) 2) as [H2|H2].
  - assert (H2' : length (Spec.rch sk') = 2) by (rewrite rch_rmap_length; auto).
    destruct (Stats.arity_le 2 sk) eqn:A.
    + assert (A' : Stats.arity_le 2 sk' = true) by (rewrite arity_le_rmap; auto).
      rewrite (Stats.colless_refines_gen t root sk HR HN HL HB H2 A).
      rewrite (Stats.colless_refines_gen t' root' sk' HR' HN' HL' HB' H2' A').
      rewrite (Stats.sackin_refines t root sk HR HN HL HB H2 A).
      rewrite (Stats.sackin_refines t' root' sk' HR' HN' HL' HB' H2' A').
      rewrite colless_gen_rmap, sackin_spec_rmap. auto.
    + rewrite Stats.arity_le_max in A. apply Nat.leb_gt in A.
      assert (A' : 2 < max_arity sk') by (rewrite max_arity_rmap; auto).
      destruct (Stats.indices_refuse_nonbinary t root sk HR HN HL HB H2 A) as (-> & -> & _).
      destruct (Stats.indices_refuse_nonbinary t' root' sk' HR' HN' HL' HB' H2' A') as (-> & -> & _). auto.
  - assert (H2' : length (Spec.rch sk') <> 2) by (rewrite rch_rmap_length; auto).
    destruct (Stats.indices_refuse_unrooted t root sk HR HN HL H2) as (-> & ->).
    destruct (Stats.indices_refuse_unrooted t' root' sk' HR' HN' HL' H2') as (-> & ->). auto.
Qed.

Corollary iso_colless : colless t' = colless t.
Proof. apply iso_colless_sackin. Qed.
Corollary iso_sackin : sackin t' = sackin t.
Proof. apply iso_colless_sackin. Qed.
End Blank.

(* leaf names: the same multiset (the arena order of the leaves differs) *)
Lemma iso_leaf_names_perm :
  Permutation (map (lname t') (get_leaves t')) (map (lname t) (get_leaves t)).
Proof.
  eapply Permutation_trans; [apply Permutation_map, iso_leaves_perm|].
  rewrite map_map. erewrite map_ext_in; [apply Permutation_refl|].
  intros x Hx. apply iso_lname, leaves_in_ids; auto.
Qed.

Theorem iso_get_leaf_names :
  exists l l', get_leaf_names t = Ok l /\ get_leaf_names t' = Ok l' /\ Permutation l' l.
Proof.
  exists (map (lname t) (get_leaves t)), (map (lname t') (get_leaves t')).
  split; [apply (rep_get_leaf_names t root sk HR HL)|].
  split; [apply (rep_get_leaf_names t' root' sk' HR' HL')|]. apply iso_leaf_names_perm.
Qed.

Theorem iso_has_unique_tip_names : has_unique_tip_names t' = has_unique_tip_names t.
Proof.
  unfold has_unique_tip_names.
  rewrite (rep_get_leaf_names t root sk HR HL), (rep_get_leaf_names t' root' sk' HR' HL'). cbn [bind].
  rewrite (existsb_perm _ _ _ iso_leaf_names_perm).
  destruct (existsb _ _); [reflexivity|]. rewrite iso_n_leaves. do 2 f_equal.
  apply dedup_str_perm_length. apply Permutation_flat_map. apply iso_leaf_names_perm.
Qed.

(* the Newick text *)
Theorem iso_to_newick : to_newick t' = to_newick t.
Proof.
  rewrite (RoundTrip.write_correct L t root 0 _ (RoundTrip.Rep_LRep L t sk None 0 root HR)
             (RoundTrip.get_root_Rep L t root 0 sk HR HL)).
  rewrite (RoundTrip.write_correct L t' root' 0 _ (RoundTrip.Rep_LRep L t' sk' None 0 root' HR')
             (RoundTrip.get_root_Rep L t' root' 0 sk' HR' HL')).
  rewrite Hdec. reflexivity.
Qed.

Theorem iso_to_formatted_newick f : to_formatted_newick t' f = to_formatted_newick t f.
Proof.
  rewrite !Formats.formatted_is_erased.
  rewrite (RoundTrip.write_correct L _ root 0 _
             (LRep_erase f _ _ _ _ _ (RoundTrip.Rep_LRep L t sk None 0 root HR))).
  2:{ rewrite Formats.get_root_map_erase. apply (RoundTrip.get_root_Rep L t root 0 sk HR HL). }
  rewrite (RoundTrip.write_correct L _ root' 0 _
             (LRep_erase f _ _ _ _ _ (RoundTrip.Rep_LRep L t' sk' None 0 root' HR'))).
  2:{ rewrite Formats.get_root_map_erase. apply (RoundTrip.get_root_Rep L t' root' 0 sk' HR' HL'). }
  rewrite Hdec. reflexivity.
Qed.

(* ---- height and diameter ------------------------------------------------------------------------- *)
Section Metric.
Variable O : LenOps L.

Lemma iso_rpath x : In x (ids sk) -> rpath (phi x) sk' = option_map (map phi) (rpath x sk).
Proof. intros Hx. apply rpath_rmap. intros y Hy E. apply phi_inj; auto. Qed.

Lemma iso_root_dist x : In x (ids sk) -> Stats.root_dist t' sk' O (phi x) = Stats.root_dist t sk O x.
Proof.
  intros Hx. unfold Stats.root_dist. rewrite (iso_rpath x Hx).
  destruct (rpath x sk) as [p|] eqn:E; cbn [option_map]; auto.
  assert (Hm : map (Paths.edge_of t') (tl (map phi p)) = map (Paths.edge_of t) (tl p)).
  { replace (tl (map phi p)) with (map phi (tl p)) by (destruct p; reflexivity).
    apply iso_map_edge. intros y Hy. apply (Paths.rpath_incl _ _ _ E). destruct p; simpl in *; auto. }
  rewrite Hm. reflexivity.
Qed.

Lemma iso_tree_dist a b : In a (ids sk) -> In b (ids sk) ->
  Stats.tree_dist t' sk' O (phi a) (phi b) = Stats.tree_dist t sk O a b.
Proof.
  intros Ha Hb. unfold Stats.tree_dist. rewrite (iso_rpath a Ha), (iso_rpath b Hb).
  destruct (rpath a sk) as [pa|] eqn:Ea, (rpath b sk) as [pb|] eqn:Eb; cbn [option_map]; auto.
  pose proof (Paths.rpath_incl _ _ _ Ea) as Ia. pose proof (Paths.rpath_incl _ _ _ Eb) as Ib.
  rewrite cpl_map by (intros x y Hx Hy; apply phi_inj; auto).
  rewrite !skipn_map, <- map_app.
  rewrite iso_map_edge; [reflexivity|].
  intros x Hx. apply in_app_or in Hx as [Hx|Hx]; [apply Ia|apply Ib]; eapply In_skipn'; eauto.
Qed.

Section Order.
Hypothesis lt_irrefl : forall x, lltb O x x = false.
Hypothesis lt_trans : forall x y z, lltb O x y = true -> lltb O y z = true -> lltb O x z = true.
Hypothesis lt_total : forall x y, lltb O x y = false -> lltb O y x = false -> x = y.

Theorem iso_height : height O t' = height O t.
Proof.
  destruct (Nat.eq_dec (length (Spec.rch sk)) 2) as [H2|H2].
  - assert (H2' : length (Spec.rch sk') = 2) by (rewrite rch_rmap_length; auto).
    rewrite (Stats.height_refines t root sk HR HN HL O H2), (Stats.height_refines t' root' sk' HR' HN' HL' O H2').
    rewrite (lmax_list_perm O lt_irrefl lt_trans lt_total _ (map (Stats.root_dist t sk O) (get_leaves t))); auto.
    eapply Permutation_trans; [apply Permutation_map, iso_leaves_perm|].
    rewrite map_map. erewrite map_ext_in; [apply Permutation_refl|].
    intros x Hx. apply iso_root_dist, leaves_in_ids; auto.
  - assert (H2' : length (Spec.rch sk') <> 2) by (rewrite rch_rmap_length; auto).
    rewrite (Stats.height_refuses t root sk HR HN HL O H2), (Stats.height_refuses t' root' sk' HR' HN' HL' O H2').
    reflexivity.
Qed.

Hypothesis ladd_assoc : forall x y z, ladd O x (ladd O y z) = ladd O (ladd O x y) z.
Hypothesis ladd_comm : forall x y, ladd O x y = ladd O y x.
Hypothesis ladd_0_l : forall x, ladd O (l0 O) x = x.

Lemma tree_dist_sym (a : arena) (r : rtree) x y : Stats.tree_dist a r O x y = Stats.tree_dist a r O y x.
Proof.
  unfold Stats.tree_dist. destruct (rpath x r) as [px|], (rpath y r) as [py|]; auto. cbv zeta.
  rewrite (Paths.cpl_sym py px), !map_app, !app_length.
  rewrite (Paths.path_len_app_comm O ladd_assoc ladd_comm ladd_0_l).
  rewrite (Nat.add_comm (length (map _ (skipn _ px)))). reflexivity.
Qed.

Theorem iso_diameter : diameter O t' = diameter O t.
Proof.
  rewrite (Stats.diameter_refines t root sk HR HN HL O), (Stats.diameter_refines t' root' sk' HR' HN' HL' O).
  rewrite (lmax_list_perm O lt_irrefl lt_trans lt_total _
             (map (fun p => Stats.tree_dist t sk O (fst p) (snd p)) (pairs (get_leaves t)))); auto.
  eapply Permutation_trans.
  { apply (pairs_perm_sym (fun p => Stats.tree_dist t' sk' O (fst p) (snd p)) _ _
             (fun a b => tree_dist_sym t' sk' a b) iso_leaves_perm). }
  rewrite DistMatrix.pairs_map, map_map. erewrite map_ext_in; [apply Permutation_refl|].
  intros [a b] Hp. cbn [fst snd]. apply Stats.in_pairs in Hp as [Ha Hb].
  apply iso_tree_dist; apply leaves_in_ids; auto.
Qed.
End Order.
End Metric.

(* ---- answers up to phi: traversals and paths from corresponding nodes ------------------------------ *)
Lemma phi_ids x : In x (ids sk) -> In (phi x) (ids sk').
Proof. intros H. rewrite ids_rmap. apply in_map; auto. Qed.

Lemma sub_of x : In x (ids sk) -> exists s, In s (subtrees sk) /\ rid s = x.
Proof.
  intros H. unfold ids in H. rewrite <- map_rid_subtrees in H.
  apply in_map_iff in H as (s & E & Hs). eauto.
Qed.

Lemma sub_reps s : In s (subtrees sk) ->
  (exists p d, Rep t p d (rid s) s) /\ NoDup (ids s) /\
  (exists p d, Rep t' p d (phi (rid s)) (rmap phi s)) /\ NoDup (ids (rmap phi s)).
Proof.
  intros Hs. split; [apply (DistMatrix.sub_rep t root sk HR s Hs)|].
  split; [eapply subtrees_NoDup; eauto|].
  assert (Hs' : In (rmap phi s) (subtrees sk')) by (rewrite subtrees_rmap; apply in_map; auto).
  split; [|eapply subtrees_NoDup; eauto].
  destruct (DistMatrix.sub_rep t' root' sk' HR' _ Hs') as (p & d & H). rewrite rid_rmap in H. eauto.
Qed.

Lemma sub_ids s : In s (subtrees sk) -> incl (ids s) (ids sk).
Proof. apply subtrees_ids_incl. Qed.

Theorem iso_preorder x : In x (ids sk) ->
  preorder t' (phi x) = omap_out (map phi) (preorder t x).
Proof.
  intros Hx. destruct (sub_of x Hx) as (s & Hs & <-).
  destruct (sub_reps s Hs) as ((p & d & H1) & N1 & (p' & d' & H2) & N2).
  rewrite (Traversals.preorder_refines _ _ _ _ _ H1 N1), (Traversals.preorder_refines _ _ _ _ _ H2 N2).
  cbn. rewrite pre_rmap. reflexivity.
Qed.

Theorem iso_postorder x : In x (ids sk) ->
  postorder t' (phi x) = omap_out (map phi) (postorder t x).
Proof.
  intros Hx. destruct (sub_of x Hx) as (s & Hs & <-).
  destruct (sub_reps s Hs) as ((p & d & H1) & N1 & (p' & d' & H2) & N2).
  rewrite (Traversals.postorder_refines _ _ _ _ _ H1 N1), (Traversals.postorder_refines _ _ _ _ _ H2 N2).
  cbn. rewrite post_rmap. reflexivity.
Qed.

Theorem iso_levelorder x : In x (ids sk) ->
  levelorder t' (phi x) = omap_out (map phi) (levelorder t x).
Proof.
  intros Hx. destruct (sub_of x Hx) as (s & Hs & <-).
  destruct (sub_reps s Hs) as ((p & d & H1) & N1 & (p' & d' & H2) & N2).
  rewrite (Traversals.levelorder_refines _ _ _ _ _ H1 N1), (Traversals.levelorder_refines _ _ _ _ _ H2 N2).
  cbn. rewrite level_rmap. reflexivity.
Qed.

Theorem iso_inorder x : In x (ids sk) ->
  inorder t' (phi x) = omap_out (map phi) (inorder t x).
Proof.
  intros Hx. destruct (sub_of x Hx) as (s & Hs & <-).
  destruct (sub_reps s Hs) as ((p & d & H1) & N1 & (p' & d' & H2) & N2).
  destruct (le_lt_dec (max_arity s) 2) as [A|A].
  - rewrite (Traversals.inorder_refines_binary _ _ _ _ _ H1 N1 A).
    rewrite (Traversals.inorder_refines_binary _ _ _ _ _ H2 N2) by (rewrite max_arity_rmap; auto).
    cbn. rewrite ino_rmap. reflexivity.
  - rewrite (Traversals.inorder_refuses _ _ _ _ _ H1 N1 A).
    rewrite (Traversals.inorder_refuses _ _ _ _ _ H2 N2) by (rewrite max_arity_rmap; auto).
    reflexivity.
Qed.

Theorem iso_get_subtree x : In x (ids sk) ->
  get_subtree t' (phi x) = omap_out (map phi) (get_subtree t x).
Proof. apply iso_preorder. Qed.

Theorem iso_get_descendants x : In x (ids sk) ->
  get_descendants t' (phi x) = omap_out (map phi) (get_descendants t x).
Proof.
  intros Hx. destruct (sub_of x Hx) as (s & Hs & <-).
  destruct (sub_reps s Hs) as ((p & d & H1) & N1 & (p' & d' & H2) & N2).
  rewrite (Traversals.get_descendants_refines _ _ _ _ _ H1 N1), (Traversals.get_descendants_refines _ _ _ _ _ H2 N2).
  cbn. rewrite pre_rmap. destruct (pre s); reflexivity.
Qed.

Theorem iso_get_subtree_leaves x : In x (ids sk) ->
  get_subtree_leaves t' (phi x) = omap_out (map phi) (get_subtree_leaves t x).
Proof.
  intros Hx. destruct (sub_of x Hx) as (s & Hs & <-).
  destruct (sub_reps s Hs) as ((p & d & H1) & N1 & (p' & d' & H2) & N2).
  rewrite (Traversals.get_subtree_leaves_refines _ _ _ _ _ H1 N1),
          (Traversals.get_subtree_leaves_refines _ _ _ _ _ H2 N2).
  cbn. rewrite rleaves_rmap. reflexivity.
Qed.

Theorem iso_path x : In x (ids sk) ->
  get_path_from_root t' (phi x) = omap_out (map phi) (get_path_from_root t x).
Proof.
  intros Hx. destruct (Paths.path_refines t root sk x HR HN Hx) as (p & -> & Hp).
  destruct (Paths.path_refines t' root' sk' (phi x) HR' HN' (phi_ids x Hx)) as (p' & -> & Hp').
  rewrite (iso_rpath x Hx), Hp in Hp'. injection Hp' as <-. reflexivity.
Qed.

Theorem iso_lca a b : In a (ids sk) -> In b (ids sk) ->
  get_common_ancestor t' (phi a) (phi b) = omap_out phi (get_common_ancestor t a b).
Proof.
  intros Ha Hb.
  destruct (proj1 (Paths.rpath_total a sk) Ha) as (pa & Hpa).
  destruct (proj1 (Paths.rpath_total b sk) Hb) as (pb & Hpb).
  destruct (Paths.lca_is_lcp t root sk a b pa pb HR HN Hpa Hpb) as (c & -> & Hc).
  assert (Hpa' : rpath (phi a) sk' = Some (map phi pa)) by (rewrite (iso_rpath a Ha), Hpa; reflexivity).
  assert (Hpb' : rpath (phi b) sk' = Some (map phi pb)) by (rewrite (iso_rpath b Hb), Hpb; reflexivity).
  destruct (Paths.lca_is_lcp t' root' sk' _ _ _ _ HR' HN' Hpa' Hpb') as (c' & -> & Hc').
  cbn. f_equal.
  rewrite lcp_map in Hc'.
  2:{ intros x y Hx Hy. apply phi_inj; [apply (Paths.rpath_incl _ _ _ Hpa)|apply (Paths.rpath_incl _ _ _ Hpb)]; auto. }
  destruct (Paths.rpath_last _ _ _ Hc) as (q & Eq). destruct (Paths.rpath_last _ _ _ Hc') as (q' & Eq').
  rewrite Eq, map_app in Eq'. simpl in Eq'. apply Paths.app_last_inj in Eq' as [_ E]. auto.
Qed.

Section Dist.
Variable O : LenOps L.

(* node-to-node distance: the same sum of the same lengths in the same order, and the same edge count *)
Theorem iso_distance a b : In a (ids sk) -> In b (ids sk) ->
  get_distance O t' (phi a) (phi b) = get_distance O t a b.
Proof.
  intros Ha Hb.
  destruct (Paths.dist_refines O t root sk a b HR HN Ha Hb) as (pa & pb & Hpa & Hpb & ->).
  destruct (Paths.dist_refines O t' root' sk' _ _ HR' HN' (phi_ids a Ha) (phi_ids b Hb))
    as (pa' & pb' & Hpa' & Hpb' & ->).
  rewrite (iso_rpath a Ha), Hpa in Hpa'. rewrite (iso_rpath b Hb), Hpb in Hpb'.
  injection Hpa' as <-. injection Hpb' as <-.
  pose proof (Paths.rpath_incl _ _ _ Hpa) as Ia. pose proof (Paths.rpath_incl _ _ _ Hpb) as Ib.
  rewrite cpl_map by (intros x y Hx Hy; apply phi_inj; auto).
  rewrite !skipn_map, <- map_app, !map_length. rewrite iso_map_edge; [reflexivity|].
  intros x Hx. apply in_app_or in Hx as [Hx|Hx]; [apply Ia|apply Ib]; eapply In_skipn'; eauto.
Qed.

(* total branch length (the summation order follows the arena: commutative-monoid laws needed) *)
Theorem iso_length :
  (forall x y z, ladd O x (ladd O y z) = ladd O (ladd O x y) z) ->
  (forall x y, ladd O x y = ladd O y x) ->
  Stats.Blank t -> Stats.Blank t' -> length_ O t' = length_ O t.
Proof.
  intros Hassoc Hcomm HB HB'.
  assert (Hm : map (Paths.edge_of t') (tl (ids sk')) = map (Paths.edge_of t) (tl (ids sk))).
  { rewrite ids_rmap. replace (tl (map phi (ids sk))) with (map phi (tl (ids sk))) by (destruct (ids sk); reflexivity).
    apply iso_map_edge. intros y Hy. destruct (ids sk); simpl in *; auto. }
  destruct (existsb (fun o : option L => match o with None => true | Some _ => false end)
              (map (Paths.edge_of t) (tl (ids sk)))) eqn:E.
  - apply existsb_exists in E as (o & Ho & Hn). destruct o; [discriminate|].
    assert (E1 : exists i, In i (tl (ids sk)) /\ Paths.edge_of t i = None).
    { apply in_map_iff in Ho as (i & E1 & Hi). eauto. }
    assert (E2 : exists i, In i (tl (ids sk')) /\ Paths.edge_of t' i = None).
    { rewrite <- Hm in Ho. apply in_map_iff in Ho as (i & E2 & Hi). eauto. }
    rewrite (Stats.length_refuses t root sk HR HN HL O HB E1).
    rewrite (Stats.length_refuses t' root' sk' HR' HN' HL' O HB' E2). reflexivity.
  - assert (A : forall o, In o (map (Paths.edge_of t) (tl (ids sk))) -> o <> None).
    { intros o Ho ->. assert (X : existsb (fun o : option L => match o with None => true | Some _ => false end)
              (map (Paths.edge_of t) (tl (ids sk))) = true); [|congruence].
      apply existsb_exists. exists None. auto. }
    rewrite (Stats.length_refines_tree t root sk HR HN HL O Hassoc Hcomm HB).
    2:{ intros i Hi. apply A. apply in_map; auto. }
    rewrite (Stats.length_refines_tree t' root' sk' HR' HN' HL' O Hassoc Hcomm HB').
    2:{ intros i Hi. apply A. rewrite <- Hm. apply in_map; auto. }
    rewrite Hm. reflexivity.
Qed.
End Dist.

(* ---- corresponding nodes carry the same record, up to the renumbering of the ids it mentions --------- *)
Definition node_sim (n n' : @node L) : Prop :=
  nid n' = phi (nid n) /\ nname n' = nname n /\ npedge n' = npedge n /\ ncomment n' = ncomment n /\
  ndepth n' = ndepth n /\ ndeleted n' = ndeleted n /\
  nchildren n' = map phi (nchildren n) /\ nparent n' = option_map phi (nparent n).

Lemma Rep_pair : forall s p d,
  Rep t p d (rid s) s -> Rep t' (option_map phi p) d (phi (rid s)) (rmap phi s) ->
  forall u, In u (subtrees s) ->
    exists q e, Rep t q e (rid u) u /\ Rep t' (option_map phi q) e (phi (rid u)) (rmap phi u).
Proof.
  induction s as [i cs IH] using rtree_ind'. intros p d H1 H2 u Hu.
  rewrite subtrees_RT in Hu. destruct Hu as [<-|Hu]; [eauto|].
  apply in_flat_map in Hu as (c & Hc & Hu). cbn [rid] in *.
  destruct (Rep_inv _ _ _ _ _ H1) as (n & cs1 & Heq & _ & _ & _ & _ & _ & HF & _). injection Heq as <-.
  destruct (Rep_inv _ _ _ _ _ H2) as (n' & cs2 & Heq' & _ & _ & _ & _ & _ & HF' & _).
  rewrite rmap_RT in Heq'. injection Heq' as <-.
  destruct (Forall2_In_r _ _ _ _ HF Hc) as (kc & _ & HRc).
  destruct (Forall2_In_r _ _ _ _ HF' (in_map (rmap phi) _ _ Hc)) as (kc' & _ & HRc').
  pose proof (Rep_rid _ _ _ _ _ HRc) as E1. pose proof (Rep_rid _ _ _ _ _ HRc') as E2.
  rewrite rid_rmap in E2. subst kc kc'.
  rewrite Forall_forall in IH. apply (IH c Hc (Some i) (S d)); auto.
Qed.

Theorem iso_node x : In x (ids sk) ->
  exists n n', nth_error t x = Some n /\ nth_error t' (phi x) = Some n' /\ node_sim n n'.
Proof.
  intros Hx. destruct (sub_of x Hx) as (s & Hs & <-).
  assert (H1 : Rep t None 0 (rid sk) sk) by (rewrite (Rep_rid _ _ _ _ _ HR); exact HR).
  assert (H2 : Rep t' (option_map phi None) 0 (phi (rid sk)) sk').
  { rewrite (Rep_rid _ _ _ _ _ HR), <- iso_root. exact HR'. }
  destruct (Rep_pair sk None 0 H1 H2 s Hs) as (q & e & R1 & R2).
  clear Hs. destruct s as [i cs]. cbn [rid] in *.
  destruct (Rep_inv _ _ _ _ _ R1) as (n & cs1 & Heq & Hn & Hdel & Hid & Hp & Hd & HF & _).
  destruct (Rep_inv _ _ _ _ _ R2) as (n' & cs2 & Heq' & Hn' & Hdel' & Hid' & Hp' & Hd' & HF' & _).
  exists n, n'. split; auto. split; auto.
  pose proof (iso_lname _ Hx) as E1. pose proof (iso_edge _ Hx) as E2. pose proof (iso_comment _ Hx) as E3.
  unfold lname, Paths.edge_of, lcomment in *. rewrite Hn, Hn' in *.
  unfold node_sim. repeat split; try congruence.
  rewrite (Forall2_Rep_rid _ _ _ _ _ HF), (Forall2_Rep_rid _ _ _ _ _ HF').
  injection Heq as <-. rewrite rmap_RT in Heq'. injection Heq' as <-.
  rewrite !map_map. apply map_ext. intros; apply rid_rmap.
Qed.

Lemma iso_slot x : In x (ids sk) -> node_sim (Stats.slot t x) (Stats.slot t' (phi x)).
Proof.
  intros Hx. destruct (iso_node x Hx) as (n & n' & Hn & Hn' & H).
  rewrite (Stats.slot_nth_error _ _ _ Hn), (Stats.slot_nth_error _ _ _ Hn'). exact H.
Qed.

(* the root *)
Theorem iso_get_root : get_root t = Ok root /\ get_root t' = Ok (phi root).
Proof.
  split; [apply (Stats.get_root_refines t root sk HR HL)|].
  rewrite <- iso_root. apply (Stats.get_root_refines t' root' sk' HR' HL').
Qed.

(* node searches, for predicates that do not depend on the numbering *)
Lemma search_nodes_ids (a : arena) ra r0 (p : node -> bool) :
  Rep a None 0 ra r0 -> NoDup (ids r0) -> (forall i, live a i -> In i (ids r0)) ->
  Permutation (search_nodes a p) (filter (fun i => p (Stats.slot a i)) (ids r0)).
Proof.
  intros Ra Na La. unfold search_nodes. rewrite Stats.scan_live, map_map.
  erewrite map_ext_in.
  - rewrite map_id. apply Permutation_filter'. apply (Stats.live_idx_perm a ra r0 Ra Na La).
  - intros i Hi. apply filter_In in Hi as [Hi _]. apply (Stats.live_idx_nid a ra r0 Ra La); auto.
Qed.

Theorem iso_search_nodes (p : node -> bool) :
  (forall n n', node_sim n n' -> p n' = p n) ->
  Permutation (search_nodes t' p) (map phi (search_nodes t p)).
Proof.
  intros Hp.
  eapply Permutation_trans; [apply (search_nodes_ids t' root' sk' p HR' HN' HL')|].
  eapply Permutation_trans; [|apply Permutation_map, Permutation_sym, (search_nodes_ids t root sk p HR HN HL)].
  rewrite ids_rmap, filter_map_comm'. erewrite filter_ext_in; [apply Permutation_refl|].
  intros i Hi. apply Hp, iso_slot; auto.
Qed.

(* get_by_name: found in one arena iff found in the other; the corresponding node when the name is unique *)
Definition has_name (name : str) (n : @node L) : bool :=
  match nname n with Some x => str_eqb x name | None => false end.

Lemma get_by_name_scan (a : arena) name : Stats.Blank a ->
  get_by_name a name =
  option_map (Stats.slot a) (hd_error (filter (fun i => has_name name (Stats.slot a i)) (Stats.live_idx a))).
Proof.
  intros HB. unfold get_by_name. fold (has_name name). rewrite find_hd_filter.
  rewrite (Stats.scan_blank a (has_name name) HB eq_refl).
  destruct (filter _ (Stats.live_idx a)); reflexivity.
Qed.

Lemma has_name_sim name n n' : node_sim n n' -> has_name name n' = has_name name n.
Proof. intros (_ & E & _). unfold has_name. rewrite E. reflexivity. Qed.

Lemma named_perm name :
  Permutation (filter (fun i => has_name name (Stats.slot t' i)) (Stats.live_idx t'))
              (map phi (filter (fun i => has_name name (Stats.slot t i)) (Stats.live_idx t))).
Proof.
  eapply Permutation_trans; [apply Permutation_filter', (Stats.live_idx_perm t' root' sk' HR' HN' HL')|].
  eapply Permutation_trans;
    [|apply Permutation_map, Permutation_filter', Permutation_sym, (Stats.live_idx_perm t root sk HR HN HL)].
  rewrite ids_rmap, filter_map_comm'. erewrite filter_ext_in; [apply Permutation_refl|].
  intros i Hi. apply has_name_sim, iso_slot; auto.
Qed.

Theorem iso_get_by_name_none name : Stats.Blank t -> Stats.Blank t' ->
  (get_by_name t' name = None <-> get_by_name t name = None).
Proof.
  intros HB HB'. rewrite (get_by_name_scan t name HB), (get_by_name_scan t' name HB').
  pose proof (Permutation_length (named_perm name)) as E. rewrite map_length in E.
  destruct (filter _ (Stats.live_idx t)), (filter _ (Stats.live_idx t')); simpl in *; try discriminate; split; auto; discriminate.
Qed.

Theorem iso_get_by_name name : Stats.Blank t -> Stats.Blank t' ->
  (forall x y, In x (ids sk) -> In y (ids sk) -> lname t x = Some name -> lname t y = Some name -> x = y) ->
  option_map nid (get_by_name t' name) = option_map (fun n => phi (nid n)) (get_by_name t name).
Proof.
  intros HB HB' Huniq. rewrite (get_by_name_scan t name HB), (get_by_name_scan t' name HB').
  pose proof (named_perm name) as P.
  set (F := filter (fun i => has_name name (Stats.slot t i)) (Stats.live_idx t)) in *.
  assert (HF : forall x, In x F -> In x (ids sk) /\ lname t x = Some name).
  { intros x Hx. apply filter_In in Hx as [Hx Hq]. apply Stats.In_live_idx in Hx.
    split; [apply HL; auto|]. destruct Hx as (n & Hn & _).
    rewrite (Stats.slot_nth_error _ _ _ Hn) in Hq. unfold lname. rewrite Hn. unfold has_name in Hq.
    destruct (nname n) as [y|]; [|discriminate]. apply str_eqb_iff in Hq. congruence. }
  destruct (NoDup_all_same F) as [E|(x & E)].
  - apply NoDup_filter, Stats.NoDup_live_idx.
  - intros x y Hx Hy. destruct (HF x Hx), (HF y Hy). apply Huniq; auto.
  - rewrite E in *. apply Permutation_sym, Permutation_nil in P. rewrite P. reflexivity.
  - rewrite E in *. simpl in P. apply Permutation_sym, Permutation_length_1_inv in P. rewrite P. cbn.
    destruct (HF x) as [Hx _]; [left; auto|].
    rewrite (Stats.ids_nid t root sk HR x Hx), (Stats.ids_nid t' root' sk' HR' _ (phi_ids x Hx)). reflexivity.
Qed.

(* ---- bipartitions, Robinson-Foulds, distance matrices: leaves named, names pairwise distinct -------- *)
Section Named.
Hypothesis HG : Good t root sk.

Lemma iso_Good : Good t' root' sk'.
Proof.
  constructor; auto.
  - intros i Hi. rewrite rleaves_rmap in Hi. apply in_map_iff in Hi as (j & <- & Hj).
    rewrite iso_lname by (apply rleaves_incl_ids; auto). apply (g_named _ _ _ HG); auto.
  - rewrite rleaves_rmap, map_map. erewrite map_ext_in; [apply (g_uniq _ _ _ HG)|].
    intros i Hi. apply iso_lab, rleaves_incl_ids; auto.
Qed.

(* the sorted list of taxa *)
Theorem iso_leaf_idx : leaf_idx t' = leaf_idx t.
Proof.
  unfold leaf_idx. apply stable_sort_perm_eq.
  eapply Permutation_trans; [apply Permutation_map, iso_leaves_perm|].
  rewrite map_map. erewrite map_ext_in; [apply Permutation_refl|].
  intros x Hx. apply iso_lab, leaves_in_ids; auto.
Qed.

(* the same set of splits of the leaf NAMES *)
Lemma iso_rsplits : rsplits (lab t') sk' = rsplits (lab t) sk.
Proof. apply rsplits_rmap. intros i Hi. apply iso_lab, rleaves_incl_ids; auto. Qed.

Lemma iso_part_of s : In s (subtrees sk) -> part_of t' (rmap phi s) = part_of t s.
Proof.
  intros Hs. unfold part_of, clade. rewrite iso_leaf_idx, rleaves_rmap, map_map. do 2 f_equal.
  apply map_ext_in. intros i Hi. apply iso_lab. apply (sub_ids s Hs), rleaves_incl_ids; auto.
Qed.

Lemma iso_root_bits : root_bits t' sk' = root_bits t sk.
Proof.
  unfold root_bits. rewrite rch_rmap, map_map. apply map_ext_in. intros c Hc.
  apply iso_part_of. apply DistMatrix.rch_subtrees; auto.
Qed.

Section Parts.
Variable O : LenOps L.

Theorem iso_part_keys b : In b (part_keys t' sk') <-> In b (part_keys t sk).
Proof.
  rewrite (partitions_spec O t root sk HG _ _ (get_partitions_pm O t root sk HG)).
  rewrite (partitions_spec O t' root' sk' iso_Good _ _ (get_partitions_pm O t' root' sk' iso_Good)).
  rewrite iso_rsplits, iso_leaf_idx. reflexivity.
Qed.

Lemma iso_part_keys_perm : Permutation (part_keys t' sk') (part_keys t sk).
Proof.
  apply NoDup_Permutation; auto using iso_part_keys.
  - apply (part_keys_NoDup O t' root' sk' iso_Good).
  - apply (part_keys_NoDup O t root sk HG).
Qed.

(* bipartitions: both arenas report bitsets over the same sorted taxa, denoting the same splits *)
Theorem iso_get_partitions :
  exists ps ps',
    get_partitions O (tree_of t) = Ok (ps, TC O t sk) /\
    get_partitions O (tree_of t') = Ok (ps', TC O t' sk') /\
    leaf_idx t' = leaf_idx t /\ Permutation ps' ps /\
    (forall b, In b ps' <-> In b ps) /\
    (forall b, In b ps <-> exists S, In S (rsplits (lab t) sk) /\ b = canon (clade_bits (leaf_idx t) S)).
Proof.
  exists (part_keys t sk), (part_keys t' sk').
  split; [apply (get_partitions_pm O t root sk HG)|].
  split; [apply (get_partitions_pm O t' root' sk' iso_Good)|].
  split; [apply iso_leaf_idx|]. split; [apply iso_part_keys_perm|]. split; [apply iso_part_keys|].
  apply (partitions_spec O t root sk HG _ _ (get_partitions_pm O t root sk HG)).
Qed.

(* the bipartition of the branch above corresponding nodes *)
Theorem iso_get_partition x : In x (ids sk) ->
  omap_out fst (get_partition (tree_of t') (phi x)) = omap_out fst (get_partition (tree_of t) x).
Proof.
  intros Hx. destruct (sub_of x Hx) as (s & Hs & <-).
  rewrite (get_partition_fresh t root sk HG s Hs).
  assert (Hs' : In (rmap phi s) (subtrees sk')) by (rewrite subtrees_rmap; apply in_map; auto).
  pose proof (get_partition_fresh t' root' sk' iso_Good _ Hs') as E. rewrite rid_rmap in E. rewrite E.
  cbn. rewrite iso_part_of; auto.
Qed.

(* Robinson-Foulds against any third tree *)
Section Other.
Variables (x : arena) (rootx : nat) (rx : rtree).
Hypothesis GX : Good x rootx rx.

Lemma iso_rf_value_l : rf_value t' x sk' rx = rf_value t x sk rx.
Proof.
  unfold rf_value, rf_split, rf_corr, two_rooted. rewrite iso_root_bits, rch_rmap_length.
  rewrite (diff_count_perm _ _ (part_keys x rx) iso_part_keys_perm).
  rewrite (diff_count_ext (part_keys x rx) _ _ iso_part_keys). reflexivity.
Qed.

Lemma iso_rf_value_r : rf_value x t' rx sk' = rf_value x t rx sk.
Proof.
  unfold rf_value, rf_split, rf_corr, two_rooted. rewrite iso_root_bits, rch_rmap_length.
  rewrite (diff_count_perm _ _ (part_keys x rx) iso_part_keys_perm).
  rewrite (diff_count_ext (part_keys x rx) _ _ iso_part_keys). reflexivity.
Qed.

Theorem iso_rf_l :
  omap_out (fun r => fst (fst r)) (robinson_foulds O (tree_of t') (tree_of x)) =
  omap_out (fun r => fst (fst r)) (robinson_foulds O (tree_of t) (tree_of x)).
Proof.
  rewrite (rf_unfold O t x root rootx sk rx HG GX), (rf_unfold O t' x root' rootx sk' rx iso_Good GX).
  rewrite iso_leaf_idx. destruct (negb _); [reflexivity|]. cbn. rewrite iso_rf_value_l. reflexivity.
Qed.

Theorem iso_rf_r :
  omap_out (fun r => fst (fst r)) (robinson_foulds O (tree_of x) (tree_of t')) =
  omap_out (fun r => fst (fst r)) (robinson_foulds O (tree_of x) (tree_of t)).
Proof.
  rewrite (rf_unfold O x t rootx root rx sk GX HG), (rf_unfold O x t' rootx root' rx sk' GX iso_Good).
  rewrite iso_leaf_idx. destruct (negb _); [reflexivity|]. cbn. rewrite iso_rf_value_r. reflexivity.
Qed.
End Other.

(* the two arenas are at Robinson-Foulds distance 0 from each other *)
Theorem iso_rf_self : robinson_foulds O (tree_of t) (tree_of t') = Ok (0, TC O t sk, TC O t' sk').
Proof.
  apply (rf_same_sets O t t' root root' sk sk' HG iso_Good); [symmetry; apply iso_leaf_idx|].
  intros b. symmetry. apply iso_part_keys.
Qed.

(* ---- distance matrices ---------------------------------------------------------------------------- *)
Lemma find_rk (a : arena) ra r0 y :
  Good a ra r0 -> In y (rleaves r0) -> find_str (lab a y) (leaf_idx a) = Some (DistMatrix.rk a y).
Proof.
  intros Ga Hy.
  rewrite (DistMatrix.leaf_idx_order a ra r0 (g_rep _ _ _ Ga) (g_live _ _ _ Ga) (g_named _ _ _ Ga)).
  apply (DistMatrix.rank_name a ra r0 (g_rep _ _ _ Ga) (g_nd _ _ _ Ga) (g_live _ _ _ Ga) (g_uniq _ _ _ Ga)); auto.
Qed.

Lemma iso_rk a : In a (rleaves sk) -> DistMatrix.rk t' (phi a) = DistMatrix.rk t a.
Proof.
  intros Ha. pose proof (find_rk t root sk a HG Ha) as E1.
  assert (Ha' : In (phi a) (rleaves sk')) by (rewrite rleaves_rmap; apply in_map; auto).
  pose proof (find_rk t' root' sk' (phi a) iso_Good Ha') as E2.
  rewrite iso_leaf_idx, iso_lab in E2 by (apply rleaves_incl_ids; auto). congruence.
Qed.

Lemma iso_D : forall s, incl (ids s) (ids sk) -> forall y, In y (ids sk) ->
  DistMatrix.D O t' (rmap phi s) (phi y) = DistMatrix.D O t s y.
Proof.
  induction s as [i cs IH] using rtree_ind'. intros Hincl y Hy.
  rewrite rmap_RT, !DistMatrix.D_RT.
  assert (Hcs : forall c, In c cs -> incl (ids c) (ids sk)).
  { intros c Hc z Hz. apply Hincl. rewrite ids_RT. right. apply in_flat_map; eauto. }
  clear Hincl. induction IH as [|c l Hc _ IHl]; [reflexivity|].
  cbn [map DistMatrix.Dfirst].
  assert (Em : mem_nat (phi y) (ids (rmap phi c)) = mem_nat y (ids c)).
  { rewrite ids_rmap. apply eq_true_iff_eq. rewrite !Stats.mem_nat_In, in_map_iff. split.
    - intros (z & E & Hz). rewrite <- (phi_inj z y); auto. apply (Hcs c); simpl; auto.
    - intros Hz. eauto. }
  rewrite Em. destruct (mem_nat y (ids c)).
  - rewrite Hc by (auto; apply Hcs; simpl; auto). f_equal.
    unfold DistMatrix.elen. rewrite rid_rmap, iso_edge; auto. apply (Hcs c); simpl; auto. apply In_rid_ids.
  - apply IHl. intros c' Hc'. apply Hcs. simpl; auto.
Qed.

Lemma iso_branch s c1 c2 a b : DistMatrix.branch s c1 c2 a b ->
  DistMatrix.branch (rmap phi s) (rmap phi c1) (rmap phi c2) (phi a) (phi b).
Proof.
  intros (Hp & Ha & Hb). unfold DistMatrix.branch. rewrite rch_rmap, DistMatrix.pairs_map, !rleaves_rmap.
  split; [|split; apply in_map; auto]. apply in_map_iff. exists (c1, c2). auto.
Qed.

(* the fast distance matrix: the very same record *)
Theorem iso_distance_matrix : distance_matrix O t' = distance_matrix O t.
Proof.
  pose proof iso_Good as HG'.
  destruct (DistMatrix.dm_result O t root sk HR HN HL (g_named _ _ _ HG)) as (m & Hm & Tx & Sz & Ln & Cells).
  destruct (DistMatrix.dm_result O t' root' sk' HR' HN' HL' (g_named _ _ _ HG')) as (m' & Hm' & Tx' & Sz' & Ln' & Cells').
  rewrite Hm, Hm'. f_equal. destruct m as [sz tx cl], m' as [sz' tx' cl']. cbn [msize mtaxa mcells] in *.
  fold (leaf_idx t) in Tx. fold (leaf_idx t') in Tx'.
  f_equal; [rewrite Sz, Sz'; apply iso_n_leaves|rewrite Tx, Tx'; apply iso_leaf_idx|].
  apply Tril.nth_error_ext_eq. intros k.
  destruct (lt_dec k (n_leaves t * (n_leaves t - 1) / 2)) as [Hk|Hk].
  - pose proof (Tril.tril_surj _ _ Hk) as Hs. destruct (Matrix.tril_inv k) as [i j]. destruct Hs as (Hji & Hin & <-).
    pose proof (DistMatrix.leaf_order_length t root sk HR HN HL) as Hlen.
    pose proof (DistMatrix.leaf_order_perm t root sk HR HN HL) as Hperm.
    assert (Hnd : NoDup (DistMatrix.leaf_order t)).
    { eapply Permutation_NoDup; [apply Permutation_sym, Hperm|]. apply rleaves_NoDup; auto. }
    destruct (nth_error (DistMatrix.leaf_order t) i) as [a|] eqn:Ea; [|apply nth_error_None in Ea; lia].
    destruct (nth_error (DistMatrix.leaf_order t) j) as [b|] eqn:Eb; [|apply nth_error_None in Eb; lia].
    assert (Ha : In a (rleaves sk)) by (eapply Permutation_in; [exact Hperm|eapply nth_error_In; eauto]).
    assert (Hb : In b (rleaves sk)) by (eapply Permutation_in; [exact Hperm|eapply nth_error_In; eauto]).
    assert (Ra : DistMatrix.rk t a = i).
    { destruct (DistMatrix.rk_spec t root sk HR HN HL a Ha) as [E _].
      rewrite (DistMatrix.index_of_nth_NoDup _ Hnd _ _ Ea) in E. congruence. }
    assert (Rb : DistMatrix.rk t b = j).
    { destruct (DistMatrix.rk_spec t root sk HR HN HL b Hb) as [E _].
      rewrite (DistMatrix.index_of_nth_NoDup _ Hnd _ _ Eb) in E. congruence. }
    assert (Hab : a <> b) by (intros ->; lia).
    assert (Ia : In a (ids sk)) by (apply rleaves_incl_ids; auto).
    assert (Ib : In b (ids sk)) by (apply rleaves_incl_ids; auto).
    destruct (DistMatrix.branch_exists sk a b Ha Hb Hab) as (s & c1 & c2 & Hs & [B|B]).
    + pose proof (Cells s c1 c2 a b Hs B) as E1. rewrite Ra, Rb in E1.
      assert (Hs' : In (rmap phi s) (subtrees sk')) by (rewrite subtrees_rmap; apply in_map; auto).
      pose proof (Cells' _ _ _ _ _ Hs' (iso_branch _ _ _ _ _ B)) as E2.
      rewrite !iso_rk, Ra, Rb, !iso_D in E2 by auto using sub_ids. congruence.
    + pose proof (Cells s c1 c2 b a Hs B) as E1. rewrite Ra, Rb in E1.
      assert (Hs' : In (rmap phi s) (subtrees sk')) by (rewrite subtrees_rmap; apply in_map; auto).
      pose proof (Cells' _ _ _ _ _ Hs' (iso_branch _ _ _ _ _ B)) as E2.
      rewrite !iso_rk, Ra, Rb, !iso_D in E2 by auto using sub_ids.
      rewrite (Tril.tril_sym i j). congruence.
  - assert (E1 : nth_error cl k = None) by (apply nth_error_None; lia).
    assert (E2 : nth_error cl' k = None) by (apply nth_error_None; rewrite Ln', iso_n_leaves; lia).
    congruence.
Qed.

(* the recursive variant, when every branch has a length (commutative-monoid laws on the addition) *)
Theorem iso_distance_matrix_recursive :
  (forall x y z, ladd O x (ladd O y z) = ladd O (ladd O x y) z) ->
  (forall x y, ladd O x y = ladd O y x) ->
  (forall x, ladd O (l0 O) x = x) ->
  (forall x, In x (ids sk) -> x <> root -> Paths.edge_of t x <> None) ->
  exists m, distance_matrix O t = Ok m /\ distance_matrix O t' = Ok m /\
            omap_out fst (distance_matrix_recursive O (tree_of t)) = Ok m /\
            omap_out fst (distance_matrix_recursive O (tree_of t')) = Ok m.
Proof.
  intros Hassoc Hcomm H0 Hlens. pose proof iso_Good as HG'.
  assert (Hlens' : forall x, In x (ids sk') -> x <> root' -> Paths.edge_of t' x <> None).
  { intros x Hx Hne. rewrite ids_rmap in Hx. apply in_map_iff in Hx as (y & <- & Hy).
    rewrite iso_edge by auto. apply Hlens; auto. intros ->. apply Hne. symmetry. apply iso_root. }
  destruct (DistMatrix.dm_result O t root sk HR HN HL (g_named _ _ _ HG)) as (m & Hm & _).
  pose proof Hm as Hm'. rewrite <- iso_distance_matrix in Hm'.
  exists m. split; auto. split; auto. split.
  - destruct (DistMatrix.dmr_cell O t root sk HR HN HL (g_named _ _ _ HG) (g_uniq _ _ _ HG) Hassoc Hcomm Hlens)
      as (m1 & tc & E & _).
    rewrite (DistMatrix.dm_agree O t root sk HR HN HL (g_named _ _ _ HG) (g_uniq _ _ _ HG) Hassoc Hcomm H0 Hlens m m1 tc Hm E) in E.
    rewrite E. reflexivity.
  - destruct (DistMatrix.dmr_cell O t' root' sk' HR' HN' HL' (g_named _ _ _ HG') (g_uniq _ _ _ HG') Hassoc Hcomm Hlens')
      as (m1 & tc & E & _).
    rewrite (DistMatrix.dm_agree O t' root' sk' HR' HN' HL' (g_named _ _ _ HG') (g_uniq _ _ _ HG') Hassoc Hcomm H0 Hlens' m m1 tc Hm' E) in E.
    rewrite E. reflexivity.
Qed.

(* ---- weighted Robinson-Foulds and the combined report (the stored length of a split is summed in arena
        order: associativity and commutativity of the addition are needed) -------------------------------- *)
Section Weighted.
Hypothesis ladd_assoc : forall x y z, ladd O x (ladd O y z) = ladd O (ladd O x y) z.
Hypothesis ladd_comm : forall x y, ladd O x y = ladd O y x.

Lemma oadd_rc a x y : oadd O (oadd O a x) y = oadd O (oadd O a y) x.
Proof.
  destruct a, x, y; simpl; auto. f_equal. rewrite <- !ladd_assoc. f_equal. apply ladd_comm.
Qed.

Lemma oadd_comm x y : oadd O x y = oadd O y x.
Proof. destruct x, y; simpl; auto. f_equal. apply ladd_comm. Qed.

Lemma osum_perm os os' : Permutation os os' -> osum O os = osum O os'.
Proof.
  induction 1 as [|x l l' Hp IH|x y l|l1 l2 l3 _ IH1 _ IH2].
  - reflexivity.
  - simpl. unfold osum_from. apply fold_left_perm_rc; auto using oadd_rc.
  - simpl. unfold osum_from. simpl. rewrite oadd_comm. reflexivity.
  - congruence.
Qed.

Definition qind (a : arena) (r0 : rtree) (b : bits) (n : node) : bool :=
  negb (is_root n) && negb (is_tip n) && (nontriv (pb a r0 n) && bits_eqb (pb a r0 n) b).

Lemma inducing_scan (a : arena) r0 b :
  inducing a r0 b = map (Stats.slot a) (filter (fun i => qind a r0 b (Stats.slot a i)) (Stats.live_idx a)).
Proof.
  unfold inducing, cands. rewrite filter_filter, <- Stats.scan_live. apply filter_ext. intros n.
  unfold cand, qind. destruct (ndeleted n), (is_root n), (is_tip n); reflexivity.
Qed.

Lemma iso_qind b i : In i (ids sk) ->
  qind t' sk' b (Stats.slot t' (phi i)) = qind t sk b (Stats.slot t i).
Proof.
  intros Hi. destruct (iso_slot i Hi) as (Hid & _ & _ & _ & _ & _ & Hch & Hpar).
  assert (Epb : pb t' sk' (Stats.slot t' (phi i)) = pb t sk (Stats.slot t i)).
  { unfold pb. rewrite Hid, (Stats.ids_nid t root sk HR i Hi).
    destruct (sub_of i Hi) as (s & Hs & <-).
    rewrite (sub_at_spec t root sk HG s Hs).
    assert (Hs' : In (rmap phi s) (subtrees sk')) by (rewrite subtrees_rmap; apply in_map; auto).
    pose proof (sub_at_spec t' root' sk' iso_Good _ Hs') as E. rewrite rid_rmap in E. rewrite E.
    apply iso_part_of; auto. }
  unfold qind, is_root, is_tip. rewrite Epb, Hch, Hpar.
  destruct (nparent (Stats.slot t i)), (nchildren (Stats.slot t i)); reflexivity.
Qed.

Lemma iso_inducing_perm b :
  Permutation (map (@npedge L) (inducing t' sk' b)) (map (@npedge L) (inducing t sk b)).
Proof.
  rewrite !inducing_scan, !map_map.
  eapply Permutation_trans;
    [apply Permutation_map, Permutation_filter', (Stats.live_idx_perm t' root' sk' HR' HN' HL')|].
  eapply Permutation_trans;
    [|apply Permutation_map, Permutation_filter', Permutation_sym, (Stats.live_idx_perm t root sk HR HN HL)].
  rewrite ids_rmap, filter_map_comm', map_map.
  erewrite filter_ext_in by (intros i Hi; apply iso_qind; auto).
  erewrite map_ext_in; [apply Permutation_refl|].
  intros i Hi. apply filter_In in Hi as [Hi _]. destruct (iso_slot i Hi) as (_ & _ & E & _). exact E.
Qed.

Lemma iso_split_len b : split_len O t' sk' b = split_len O t sk b.
Proof. rewrite !split_len_sum. apply osum_perm, iso_inducing_perm. Qed.

Lemma iso_all_lens : all_lens (pm O t' sk') = all_lens (pm O t sk).
Proof.
  apply eq_true_iff_eq. rewrite (all_lens_spec O t root sk HG), (all_lens_spec O t' root' sk' iso_Good).
  split; intros H b Hb.
  - rewrite <- iso_split_len. apply H, iso_part_keys; auto.
  - rewrite iso_split_len. apply H, iso_part_keys; auto.
Qed.

Lemma iso_plen_get k : all_lens (pm O t sk) = true ->
  match plen_get (lens_of (pm O t' sk')) k, plen_get (lens_of (pm O t sk)) k with
  | Some (_, l'), Some (_, l) => l' = l
  | None, None => True
  | _, _ => False
  end.
Proof.
  intros A. pose proof A as A'. rewrite <- iso_all_lens in A'.
  rewrite (gpwl_entry O t sk k A), (gpwl_entry O t' sk' k A'), iso_split_len.
  unfold split_depth. rewrite !pm_get.
  pose proof (Permutation_length (iso_inducing_perm k)) as E. rewrite !map_length in E.
  destruct (inducing t' sk' k), (inducing t sk k); simpl in E; try discriminate; auto.
  destruct (split_len O t sk k); auto.
Qed.

Lemma lens_NoDup (a : arena) ra r0 : Good a ra r0 -> all_lens (pm O a r0) = true ->
  NoDup (map fst (lens_of (pm O a r0))).
Proof.
  intros Ga A. rewrite (lens_of_keys _ A), pm_keys. apply (part_keys_NoDup O a ra r0 Ga).
Qed.

Section OtherW.
Variables (x : arena) (rootx : nat) (rx : rtree).
Hypothesis GX : Good x rootx rx.

Lemma iso_wrf_sum_l sq : all_lens (pm O t sk) = true -> all_lens (pm O x rx) = true ->
  wrf_sum O sq (lens_of (pm O t' sk')) (lens_of (pm O x rx)) =
  wrf_sum O sq (lens_of (pm O t sk)) (lens_of (pm O x rx)).
Proof.
  intros A AX. pose proof A as A'. rewrite <- iso_all_lens in A'.
  pose proof (lens_NoDup t root sk HG A) as N. pose proof (lens_NoDup t' root' sk' iso_Good A') as N'.
  pose proof (lens_NoDup x rootx rx GX AX) as NX.
  rewrite (wrf_sum_keys O sq (lens_of (pm O t sk)) _ N NX).
  rewrite (wrf_sum_any_order O sq ladd_assoc ladd_comm (lens_of (pm O t' sk')) _
             (ukeys (lens_of (pm O t sk)) (lens_of (pm O x rx))) N' NX (ukeys_NoDup _ _ N NX)).
  - f_equal. apply map_ext. intros k. unfold kterm. pose proof (iso_plen_get k A) as H.
    destruct (plen_get (lens_of (pm O t' sk')) k) as [[d' l']|], (plen_get (lens_of (pm O t sk)) k) as [[d l]|];
      try contradiction; subst; reflexivity.
  - intros k. rewrite ukeys_In, (lens_of_keys _ A), (lens_of_keys _ A'), !pm_keys, iso_part_keys. reflexivity.
Qed.

Lemma iso_wrf_sum_r sq : all_lens (pm O t sk) = true -> all_lens (pm O x rx) = true ->
  wrf_sum O sq (lens_of (pm O x rx)) (lens_of (pm O t' sk')) =
  wrf_sum O sq (lens_of (pm O x rx)) (lens_of (pm O t sk)).
Proof.
  intros A AX. pose proof A as A'. rewrite <- iso_all_lens in A'.
  pose proof (lens_NoDup t root sk HG A) as N. pose proof (lens_NoDup t' root' sk' iso_Good A') as N'.
  pose proof (lens_NoDup x rootx rx GX AX) as NX.
  rewrite (wrf_sum_keys O sq _ (lens_of (pm O t sk)) NX N).
  rewrite (wrf_sum_any_order O sq ladd_assoc ladd_comm _ (lens_of (pm O t' sk'))
             (ukeys (lens_of (pm O x rx)) (lens_of (pm O t sk))) NX N' (ukeys_NoDup _ _ NX N)).
  - f_equal. apply map_ext. intros k. unfold kterm. pose proof (iso_plen_get k A) as H.
    destruct (plen_get (lens_of (pm O x rx)) k) as [[dx lx]|];
    destruct (plen_get (lens_of (pm O t' sk')) k) as [[d' l']|], (plen_get (lens_of (pm O t sk)) k) as [[d l]|];
      try contradiction; subst; reflexivity.
  - intros k. rewrite ukeys_In, (lens_of_keys _ A), (lens_of_keys _ A'), !pm_keys, iso_part_keys. reflexivity.
Qed.

Theorem iso_wrf sq :
  omap_out (fun r => fst (fst r)) (weighted_rf O sq (tree_of t') (tree_of x)) =
  omap_out (fun r => fst (fst r)) (weighted_rf O sq (tree_of t) (tree_of x)) /\
  omap_out (fun r => fst (fst r)) (weighted_rf O sq (tree_of x) (tree_of t')) =
  omap_out (fun r => fst (fst r)) (weighted_rf O sq (tree_of x) (tree_of t)).
Proof.
  rewrite (wrf_unfold O sq t x root rootx sk rx HG GX), (wrf_unfold O sq t' x root' rootx sk' rx iso_Good GX).
  rewrite (wrf_unfold O sq x t rootx root rx sk GX HG), (wrf_unfold O sq x t' rootx root' rx sk' GX iso_Good).
  rewrite iso_all_lens.
  destruct (all_lens (pm O t sk)) eqn:A, (all_lens (pm O x rx)) eqn:AX; cbn; auto.
  rewrite iso_wrf_sum_l, iso_wrf_sum_r; auto.
Qed.

Theorem iso_compare_topologies :
  omap_out (fun r => fst (fst r)) (compare_topologies O (tree_of t') (tree_of x)) =
  omap_out (fun r => fst (fst r)) (compare_topologies O (tree_of t) (tree_of x)) /\
  omap_out (fun r => fst (fst r)) (compare_topologies O (tree_of x) (tree_of t')) =
  omap_out (fun r => fst (fst r)) (compare_topologies O (tree_of x) (tree_of t)).
Proof.
  rewrite (compare_topologies_unfold O t x root rootx sk rx HG GX),
          (compare_topologies_unfold O t' x root' rootx sk' rx iso_Good GX).
  rewrite (compare_topologies_unfold O x t rootx root rx sk GX HG),
          (compare_topologies_unfold O x t' rootx root' rx sk' GX iso_Good).
  rewrite iso_all_lens.
  destruct (all_lens (pm O t sk)) eqn:A, (all_lens (pm O x rx)) eqn:AX; cbn; auto.
  rewrite !iso_wrf_sum_l, !iso_wrf_sum_r, (iso_rf_value_l x rx), (iso_rf_value_r x rx) by auto.
  rewrite (Permutation_length iso_part_keys_perm). auto.
Qed.
End OtherW.
End Weighted.

End Parts.
End Named.

(* ---- B2. everything at once ------------------------------------------------------------------------ *)
Definition order_laws (O : LenOps L) : Prop :=
  (forall x, lltb O x x = false) /\
  (forall x y z, lltb O x y = true -> lltb O y z = true -> lltb O x z = true) /\
  (forall x y, lltb O x y = false -> lltb O y x = false -> x = y).
Definition monoid_laws (O : LenOps L) : Prop :=
  (forall x y z, ladd O x (ladd O y z) = ladd O (ladd O x y) z) /\
  (forall x y, ladd O x y = ladd O y x) /\
  (forall x, ladd O (l0 O) x = x).

Record same_answers (O : LenOps L) : Prop := {
  (* answers without node ids: equal *)
  sa_n_leaves : n_leaves t' = n_leaves t;
  sa_is_rooted : is_rooted t' = is_rooted t;
  sa_leaf_names : exists l l', get_leaf_names t = Ok l /\ get_leaf_names t' = Ok l' /\ Permutation l' l;
  sa_unique_names : has_unique_tip_names t' = has_unique_tip_names t;
  sa_newick : to_newick t' = to_newick t;
  sa_formatted : forall f, to_formatted_newick t' f = to_formatted_newick t f;
  sa_shape : Stats.Blank t -> Stats.Blank t' ->
    is_binary t' = is_binary t /\ cherries t' = cherries t /\ colless t' = colless t /\ sackin t' = sackin t;
  sa_height : order_laws O -> height O t' = height O t;
  sa_diameter : order_laws O -> monoid_laws O -> diameter O t' = diameter O t;
  sa_length : monoid_laws O -> Stats.Blank t -> Stats.Blank t' -> length_ O t' = length_ O t;
  (* answers made of node ids: equal through phi *)
  sa_root : get_root t = Ok root /\ get_root t' = Ok (phi root);
  sa_leaves : Permutation (get_leaves t') (map phi (get_leaves t));
  sa_node : forall x, In x (ids sk) ->
    exists n n', nth_error t x = Some n /\ nth_error t' (phi x) = Some n' /\ node_sim n n';
  sa_traversals : forall x, In x (ids sk) ->
    preorder t' (phi x) = omap_out (map phi) (preorder t x) /\
    postorder t' (phi x) = omap_out (map phi) (postorder t x) /\
    levelorder t' (phi x) = omap_out (map phi) (levelorder t x) /\
    inorder t' (phi x) = omap_out (map phi) (inorder t x) /\
    get_subtree t' (phi x) = omap_out (map phi) (get_subtree t x) /\
    get_descendants t' (phi x) = omap_out (map phi) (get_descendants t x) /\
    get_subtree_leaves t' (phi x) = omap_out (map phi) (get_subtree_leaves t x) /\
    get_path_from_root t' (phi x) = omap_out (map phi) (get_path_from_root t x);
  sa_pairs : forall a b, In a (ids sk) -> In b (ids sk) ->
    get_common_ancestor t' (phi a) (phi b) = omap_out phi (get_common_ancestor t a b) /\
    get_distance O t' (phi a) (phi b) = get_distance O t a b;
  sa_search : forall p : node -> bool, (forall n n', node_sim n n' -> p n' = p n) ->
    Permutation (search_nodes t' p) (map phi (search_nodes t p));
  sa_by_name : forall name, Stats.Blank t -> Stats.Blank t' ->
    (get_by_name t' name = None <-> get_by_name t name = None) /\
    ((forall x y, In x (ids sk) -> In y (ids sk) -> lname t x = Some name -> lname t y = Some name -> x = y) ->
     option_map nid (get_by_name t' name) = option_map (fun n => phi (nid n)) (get_by_name t name));
  (* bipartitions, Robinson-Foulds, distance matrices (leaves named, names pairwise distinct) *)
  sa_named : Good t root sk ->
    Good t' (phi root) sk' /\
    leaf_idx t' = leaf_idx t /\
    (exists ps ps',
       get_partitions O (tree_of t) = Ok (ps, TC O t sk) /\
       get_partitions O (tree_of t') = Ok (ps', TC O t' sk') /\
       Permutation ps' ps /\ (forall b, In b ps' <-> In b ps) /\
       (forall b, In b ps <-> exists S, In S (rsplits (lab t) sk) /\ b = canon (clade_bits (leaf_idx t) S))) /\
    (forall x, In x (ids sk) ->
       omap_out fst (get_partition (tree_of t') (phi x)) = omap_out fst (get_partition (tree_of t) x)) /\
    (forall (x : arena) rootx rx, Good x rootx rx ->
       omap_out (fun r => fst (fst r)) (robinson_foulds O (tree_of t') (tree_of x)) =
       omap_out (fun r => fst (fst r)) (robinson_foulds O (tree_of t) (tree_of x)) /\
       omap_out (fun r => fst (fst r)) (robinson_foulds O (tree_of x) (tree_of t')) =
       omap_out (fun r => fst (fst r)) (robinson_foulds O (tree_of x) (tree_of t))) /\
    robinson_foulds O (tree_of t) (tree_of t') = Ok (0, TC O t sk, TC O t' sk') /\
    distance_matrix O t' = distance_matrix O t /\
    (monoid_laws O -> (forall x, In x (ids sk) -> x <> root -> Paths.edge_of t x <> None) ->
     exists m, distance_matrix O t = Ok m /\ distance_matrix O t' = Ok m /\
               omap_out fst (distance_matrix_recursive O (tree_of t)) = Ok m /\
               omap_out fst (distance_matrix_recursive O (tree_of t')) = Ok m);
  sa_weighted : Good t root sk -> monoid_laws O ->
    forall (x : arena) rootx rx, Good x rootx rx ->
      (forall sq,
         omap_out (fun r => fst (fst r)) (weighted_rf O sq (tree_of t') (tree_of x)) =
         omap_out (fun r => fst (fst r)) (weighted_rf O sq (tree_of t) (tree_of x)) /\
         omap_out (fun r => fst (fst r)) (weighted_rf O sq (tree_of x) (tree_of t')) =
         omap_out (fun r => fst (fst r)) (weighted_rf O sq (tree_of x) (tree_of t))) /\
      omap_out (fun r => fst (fst r)) (compare_topologies O (tree_of t') (tree_of x)) =
      omap_out (fun r => fst (fst r)) (compare_topologies O (tree_of t) (tree_of x)) /\
      omap_out (fun r => fst (fst r)) (compare_topologies O (tree_of x) (tree_of t')) =
      omap_out (fun r => fst (fst r)) (compare_topologies O (tree_of x) (tree_of t))
}.

Theorem iso_same_answers O : same_answers O.
Proof.
  constructor.
  - apply iso_n_leaves.
  - apply iso_is_rooted.
  - apply iso_get_leaf_names.
  - apply iso_has_unique_tip_names.
  - apply iso_to_newick.
  - apply iso_to_formatted_newick.
  - intros HB HB'. repeat split;
      [apply iso_is_binary|apply iso_cherries|apply iso_colless|apply iso_sackin]; auto.
  - intros (A & B & C). apply iso_height; auto.
  - intros (A & B & C) (D & E & F). apply iso_diameter; auto.
  - intros (D & E & F) HB HB'. apply iso_length; auto.
  - apply iso_get_root.
  - apply iso_leaves_perm.
  - apply iso_node.
  - intros x Hx. repeat split;
      [apply iso_preorder|apply iso_postorder|apply iso_levelorder|apply iso_inorder|apply iso_get_subtree
      |apply iso_get_descendants|apply iso_get_subtree_leaves|apply iso_path]; auto.
  - intros a b Ha Hb. split; [apply iso_lca|apply iso_distance]; auto.
  - apply iso_search_nodes.
  - intros name HB HB'. split; [apply iso_get_by_name_none|apply iso_get_by_name]; auto.
  - intros HG. split; [rewrite <- iso_root; apply iso_Good; auto|].
    split; [apply iso_leaf_idx; auto|].
    split.
    { destruct (iso_get_partitions HG O) as (ps & ps' & A & B & _ & C & D & E). exists ps, ps'. auto. }
    split; [intros x Hx; apply iso_get_partition; auto|].
    split; [intros x rootx rx GX; split; [eapply iso_rf_l|eapply iso_rf_r]; eauto|].
    split; [apply iso_rf_self; auto|].
    split; [apply iso_distance_matrix; auto|].
    intros (D & E & F) Hlens. apply iso_distance_matrix_recursive; auto.
  - intros HG (D & E & F) x rootx rx GX. split.
    + intros sq. eapply iso_wrf; eauto.
    + eapply iso_compare_topologies; eauto.
Qed.

End Iso.

(* ================================================================================================ *)
(* Part C. the freshly parsed arena                                                                 *)
(* ================================================================================================ *)
Section Reparse.
Context {L : Type}.
Notation arena := (@arena L).

(* position of x in the list l (preorder position, for l = ids sk) *)
Definition pos (l : list nat) (x : nat) : nat := match index_of x l with Some k => k | None => 0 end.

Lemma index_of_app_mid l1 x l2 : ~ In x l1 -> index_of x (l1 ++ x :: l2) = Some (length l1).
Proof.
  induction l1 as [|a l1 IH]; simpl; intros H.
  - rewrite Nat.eqb_refl. reflexivity.
  - destruct (Nat.eqb_spec x a) as [->|_]; [tauto|]. rewrite IH; auto.
Qed.

Lemma pos_nth l k x : NoDup l -> nth_error l k = Some x -> pos l x = k.
Proof. intros Hnd H. unfold pos. rewrite (DistMatrix.index_of_nth_NoDup l Hnd k x H). reflexivity. Qed.

Lemma lsize_decorate (t : arena) : forall s, RoundTrip.lsize (RoundTrip.decorate t s) = length (ids s).
Proof.
  induction s as [i cs IH] using rtree_ind'. rewrite decorate_RT, <- rsize_ids. simpl. f_equal.
  induction IH as [|c l Hc _ IHl]; simpl; auto. rewrite Hc, IHl, rsize_ids. reflexivity.
Qed.

Lemma skel_list_pos (t : arena) (A : list nat) : NoDup A -> forall cs,
  Forall (fun s => forall l1 l2, A = l1 ++ ids s ++ l2 ->
            RoundTrip.skel (length l1) (RoundTrip.decorate t s) = rmap (pos A) s) cs ->
  forall pre suf, A = pre ++ flat_map ids cs ++ suf ->
  RoundTrip.skel_list L (length pre) (map (RoundTrip.decorate t) cs) = map (rmap (pos A)) cs.
Proof.
  intros Hnd cs HF. induction HF as [|c l Hc _ IHl]; intros pre suf HA; [reflexivity|].
  cbn [map RoundTrip.skel_list flat_map] in *. f_equal.
  - apply (Hc pre (flat_map ids l ++ suf)). rewrite HA, <- app_assoc. reflexivity.
  - rewrite lsize_decorate, <- app_length. apply (IHl (pre ++ ids c) suf).
    rewrite HA, <- !app_assoc. reflexivity.
Qed.

Lemma skel_pos (t : arena) (A : list nat) : NoDup A -> forall s l1 l2,
  A = l1 ++ ids s ++ l2 -> RoundTrip.skel (length l1) (RoundTrip.decorate t s) = rmap (pos A) s.
Proof.
  intros Hnd. induction s as [i cs IH] using rtree_ind'. intros l1 l2 HA.
  rewrite decorate_RT, RoundTrip.skel_eq, rmap_RT. f_equal.
  - unfold pos. rewrite HA, ids_RT. cbn [app]. rewrite index_of_app_mid; auto.
    rewrite HA, ids_RT in Hnd. cbn [app] in Hnd. apply NoDup_remove_2 in Hnd.
    intros Hin. apply Hnd. apply in_or_app; auto.
  - replace (S (length l1)) with (length (l1 ++ [i])) by (rewrite app_length; simpl; lia).
    apply (skel_list_pos t A Hnd cs IH (l1 ++ [i]) l2).
    rewrite HA, ids_RT, <- app_assoc. reflexivity.
Qed.

(* the skeleton of the re-parsed arena is the skeleton of the original one, renumbered in preorder *)
Corollary skel_preorder (t : arena) sk : NoDup (ids sk) ->
  RoundTrip.skel 0 (RoundTrip.decorate t sk) = rmap (pos (ids sk)) sk.
Proof.
  intros Hnd. apply (skel_pos t (ids sk) Hnd sk [] []). rewrite app_nil_r. reflexivity.
Qed.

(* ---- any two arenas representing the same labelled tree: phi = same preorder position ------------------ *)
Lemma rmap_rmap f g : forall r, rmap g (rmap f r) = rmap (fun x => g (f x)) r.
Proof.
  induction r as [i cs IH] using rtree_ind'. rewrite !rmap_RT. f_equal. rewrite map_map.
  apply map_ext_in. rewrite Forall_forall in IH. auto.
Qed.

Lemma rmap_ext_in f g : forall r, (forall x, In x (ids r) -> f x = g x) -> rmap f r = rmap g r.
Proof.
  induction r as [i cs IH] using rtree_ind'. intros H. rewrite !rmap_RT. f_equal.
  - apply H. rewrite ids_RT. left; auto.
  - apply map_ext_in. intros c Hc. rewrite Forall_forall in IH. apply IH; auto.
    intros x Hx. apply H. rewrite ids_RT. right. apply in_flat_map; eauto.
Qed.

Lemma rmap_id : forall r, rmap (fun x => x) r = r.
Proof.
  induction r as [i cs IH] using rtree_ind'. rewrite rmap_RT. f_equal.
  rewrite <- (map_id cs) at 2. apply map_ext_in. rewrite Forall_forall in IH. auto.
Qed.

Lemma nth_pos l x : In x l -> nth (pos l x) l 0 = x.
Proof.
  intros H. unfold pos. destruct (index_of_In x l H) as (k & E). rewrite E.
  apply DistMatrix.index_of_nth in E. apply nth_error_nth; auto.
Qed.

(* the correspondence: the node of sk' at the preorder position of x in sk *)
Definition corr (sk sk' : rtree) (x : nat) : nat := nth (pos (ids sk) x) (ids sk') 0.

Theorem iso_exists (t t' : arena) (sk sk' : rtree) :
  NoDup (ids sk) -> NoDup (ids sk') ->
  RoundTrip.decorate t sk = RoundTrip.decorate t' sk' ->
  sk' = rmap (corr sk sk') sk.
Proof.
  intros HN HN' Hdec.
  pose proof (skel_preorder t sk HN) as E1. pose proof (skel_preorder t' sk' HN') as E2.
  rewrite Hdec, E2 in E1.
  assert (E3 : rmap (fun k => nth k (ids sk') 0) (rmap (pos (ids sk')) sk') = sk').
  { rewrite rmap_rmap. rewrite <- (rmap_id sk') at 2. apply rmap_ext_in. intros x Hx. apply nth_pos; auto. }
  rewrite E1, rmap_rmap in E3. symmetry. exact E3.
Qed.

(* B, in its general form: two arenas representing the same labelled tree answer alike *)
Theorem same_labelled_tree_same_answers (O : LenOps L) (t t' : arena) (root root' : nat) (sk sk' : rtree) :
  Rep t None 0 root sk -> NoDup (ids sk) -> (forall i, live t i -> In i (ids sk)) ->
  Rep t' None 0 root' sk' -> NoDup (ids sk') -> (forall i, live t' i -> In i (ids sk')) ->
  RoundTrip.decorate t sk = RoundTrip.decorate t' sk' ->
  sk' = rmap (corr sk sk') sk /\ same_answers t t' root sk (corr sk sk') O.
Proof.
  intros HR HN HL HR' HN' HL' Hdec. pose proof (iso_exists t t' sk sk' HN HN' Hdec) as E.
  split; auto. rewrite E in HR', HN', HL', Hdec.
  apply (iso_same_answers t t' root root' sk (corr sk sk') HR HN HL HR' HN' HL' Hdec O).
Qed.

(* ---- removed slots are never observable ------------------------------------------------------------ *)
Section Observable.
Variables (t : arena) (root : nat) (sk : rtree).
Hypothesis HR : Rep t None 0 root sk.
Hypothesis HN : NoDup (ids sk).
Hypothesis HL : forall i, live t i -> In i (ids sk).

Definition removed (x : nat) : Prop := forall n, nth_error t x = Some n -> ndeleted n = true.

Lemma not_in_removed x : ~ In x (ids sk) -> removed x.
Proof.
  intros H n Hn. destruct (ndeleted n) eqn:E; auto. exfalso. apply H, HL. exists n. auto.
Qed.

Lemma in_not_removed x : In x (ids sk) -> ~ removed x.
Proof.
  intros H Hr. destruct (Rep_ids_live _ _ _ _ _ _ HR H) as (n & Hn & Hd). rewrite (Hr n Hn) in Hd. discriminate.
Qed.

(* a removed slot cannot be queried *)
Theorem removed_refused x : removed x ->
  preorder t x = Err NodeNotFound /\ postorder t x = Err NodeNotFound /\
  inorder t x = Err NodeNotFound /\ levelorder t x = Err NodeNotFound /\
  get_path_from_root t x = Err NodeNotFound /\ get t x = Err NodeNotFound /\
  (forall y, y <> x -> get_common_ancestor t x y = Err NodeNotFound) /\
  (forall O y, y <> x -> get_distance O t x y = Err NodeNotFound).
Proof.
  intros Hr. destruct (Traversals.traversal_dead_start t x Hr) as (A & B & C & D).
  repeat split; auto.
  - apply Paths.path_dead; auto.
  - unfold get. destruct (nth_error t x) as [n|] eqn:E; auto. rewrite (Hr n E). reflexivity.
  - intros y Hy. apply Paths.lca_dead_l; auto.
  - intros O y Hy. apply Paths.dist_dead_l; auto.
Qed.

(* no answer mentions a removed slot *)
Theorem answers_live :
  (forall x, In x (get_leaves t) -> In x (ids sk)) /\
  (forall p x, In x (search_nodes t p) -> In x (ids sk)) /\
  get_root t = Ok root /\ In root (ids sk) /\
  (forall x l, In x (ids sk) ->
     (preorder t x = Ok l \/ postorder t x = Ok l \/ levelorder t x = Ok l \/ inorder t x = Ok l \/
      get_descendants t x = Ok l \/ get_subtree_leaves t x = Ok l \/ get_path_from_root t x = Ok l) ->
     incl l (ids sk)) /\
  (forall a b c, In a (ids sk) -> In b (ids sk) -> get_common_ancestor t a b = Ok c -> In c (ids sk)).
Proof.
  assert (Hroot : In root (ids sk)) by (rewrite <- (Rep_rid _ _ _ _ _ HR); apply In_rid_ids).
  split; [|split; [|split; [|split; [|split]]]]; auto.
  - intros x Hx. apply rleaves_incl_ids. eapply Permutation_in; [apply (Stats.get_leaves_perm t root sk HR HN HL)|auto].
  - intros p x Hx. eapply Permutation_in in Hx; [|apply (search_nodes_ids t root sk p HR HN HL)].
    apply filter_In in Hx as [Hx _]. auto.
  - apply (Stats.get_root_refines t root sk HR HL).
  - intros x l Hx H.
    assert (Hsub : exists s, In s (subtrees sk) /\ rid s = x).
    { unfold ids in Hx. rewrite <- map_rid_subtrees in Hx. apply in_map_iff in Hx as (s & E & Hs). eauto. }
    destruct Hsub as (s & Hs & <-).
    destruct (DistMatrix.sub_rep t root sk HR s Hs) as (p & d & H1).
    pose proof (subtrees_NoDup _ _ Hs HN) as N1. pose proof (subtrees_ids_incl _ _ Hs) as Hincl.
    destruct H as [H|[H|[H|[H|[H|[H|H]]]]]].
    + rewrite (Traversals.preorder_refines _ _ _ _ _ H1 N1) in H. injection H as <-. exact Hincl.
    + rewrite (Traversals.postorder_refines _ _ _ _ _ H1 N1) in H. injection H as <-.
      intros y Hy. apply Hincl. eapply Permutation_in; [apply Permutation_sym, Traversals.pre_post_perm|auto].
    + rewrite (Traversals.levelorder_refines _ _ _ _ _ H1 N1) in H. injection H as <-.
      intros y Hy. apply Hincl. eapply Permutation_in; [apply Permutation_sym, Traversals.pre_level_perm|auto].
    + destruct (le_lt_dec (max_arity s) 2) as [A|A].
      * rewrite (Traversals.inorder_refines_binary _ _ _ _ _ H1 N1 A) in H. injection H as <-.
        intros y Hy. apply Hincl. revert y Hy. clear. induction s as [i cs IH] using rtree_ind'.
        intros y Hy. rewrite ids_RT. destruct cs as [|a [|b [|c cs]]]; simpl in Hy.
        -- destruct Hy as [<-|[]]. left; auto.
        -- inversion IH; subst. apply in_app_or in Hy as [Hy|[<-|[]]]; [right|left; auto].
           simpl. rewrite app_nil_r. auto.
        -- inversion IH as [|? ? Ha IH']; subst. inversion IH' as [|? ? Hb _]; subst.
           apply in_app_or in Hy as [Hy|[<-|Hy]]; [right|left; auto|right]; simpl; rewrite app_nil_r;
             apply in_or_app; auto.
        -- destruct Hy.
      * rewrite (Traversals.inorder_refuses _ _ _ _ _ H1 N1 A) in H. discriminate.
    + rewrite (Traversals.get_descendants_refines _ _ _ _ _ H1 N1) in H. injection H as <-.
      intros y Hy. apply Hincl. unfold ids. destruct (pre s); simpl in *; auto.
    + rewrite (Traversals.get_subtree_leaves_refines _ _ _ _ _ H1 N1) in H. injection H as <-.
      intros y Hy. apply Hincl, rleaves_incl_ids; auto.
    + destruct (Paths.path_refines t root sk (rid s) HR HN Hx) as (q & E & Hq). rewrite E in H. injection H as <-.
      apply (Paths.rpath_incl _ _ _ Hq).
  - intros a b c Ha Hb H.
    destruct (proj1 (Paths.rpath_total a sk) Ha) as (pa & Hpa).
    destruct (proj1 (Paths.rpath_total b sk) Hb) as (pb & Hpb).
    destruct (Paths.lca_is_lcp t root sk a b pa pb HR HN Hpa Hpb) as (c' & E & Hc). rewrite E in H. injection H as <-.
    apply Paths.rpath_total. eauto.
Qed.

End Observable.
End Reparse.

(* ---- C04: the arena obtained by re-parsing the current Newick text ---------------------------------- *)
Section C04.
Variable L : Type.
Variable print_len : L -> str.               (* Rust `{v}` (Display for f64) *)
Variable parse_len : str -> option L.        (* str::parse::<f64>() *)
Variable ok_len : L -> Prop.                 (* "not NaN" *)
Hypothesis H1 : forall l, ok_len l -> parse_len (print_len l) = Some l.
Hypothesis H2 : forall l, print_len l <> [] /\ Forall RoundTrip.safe_char (print_len l).
Variable O : LenOps L.
Notation arena := (@arena L).

(* t : any arena whose live slots form one tree sk (this is what every edit history produces: WFOps);
   t' : the arena parsed from the text printed for t.  phi sends a live id of t to its preorder position,
   which is its id in t'.  Every read-only query gives the same answer on both, ids being read through phi. *)
Theorem C04_reparse (t : arena) (root : nat) (sk : rtree) (txt : rstr) :
  Rep t None 0 root sk -> NoDup (ids sk) -> (forall i, live t i -> In i (ids sk)) ->
  RoundTrip.labels_ok ok_len (RoundTrip.decorate t sk) ->
  to_newick t = Ok txt ->
  exists t' : arena,
    from_newick parse_len (RoundTrip.flatten print_len txt) = Ok t' /\
    WF t' /\ Stats.Blank t' /\ (forall i, i < length t' -> live t' i) /\
    let phi := pos (ids sk) in
    map phi (ids sk) = seq 0 (length t') /\
    Rep t' None 0 0 (rmap phi sk) /\
    RoundTrip.decorate t' (rmap phi sk) = RoundTrip.decorate t sk /\
    same_answers t t' root sk phi O.
Proof.
  intros HR HN HL Hok Hw.
  destruct (RoundTrip.round_trip_WF L print_len parse_len ok_len H1 H2 t root sk txt HR HL Hok Hw)
    as (t' & Hp & HLR & HR' & Hids & HWF & Hw').
  rewrite (skel_preorder t sk HN) in HR', Hids.
  exists t'. split; auto. split; auto.
  set (phi := pos (ids sk)) in *.
  assert (HN' : NoDup (ids (rmap phi sk))) by (rewrite Hids; apply seq_NoDup).
  assert (HL' : forall i, live t' i -> In i (ids (rmap phi sk))).
  { intros i Hi. rewrite Hids. apply in_seq. pose proof (live_lt _ _ Hi). lia. }
  assert (Hall : forall i, i < length t' -> live t' i).
  { intros i Hi. eapply Rep_ids_live; [exact HR'|]. rewrite Hids. apply in_seq. lia. }
  assert (Hdec : RoundTrip.decorate t sk = RoundTrip.decorate t' (rmap phi sk)).
  { eapply RoundTrip.LRep_det; [exact HLR|]. apply RoundTrip.Rep_LRep. exact HR'. }
  split.
  { intros i n Hn Hd. destruct (Hall i) as (n' & Hn' & Hd'); [eapply nth_error_Some_lt; eauto|]. congruence. }
  split; auto. cbv zeta.
  split; [rewrite <- ids_rmap; exact Hids|]. split; auto. split; auto.
  apply (iso_same_answers t t' root 0 sk phi HR HN HL HR' HN' HL' Hdec O).
Qed.

(* the same from the invariant kept by every edit history (WF: the live slots form one tree) *)
Corollary C04_reparse_WF (t : arena) (txt : rstr) :
  WF t -> (exists i, live t i) ->
  (forall root sk, Rep t None 0 root sk -> RoundTrip.labels_ok ok_len (RoundTrip.decorate t sk)) ->
  to_newick t = Ok txt ->
  exists (root : nat) (sk : rtree) (t' : arena),
    Rep t None 0 root sk /\ NoDup (ids sk) /\ (forall i, live t i <-> In i (ids sk)) /\
    from_newick parse_len (RoundTrip.flatten print_len txt) = Ok t' /\
    WF t' /\ Stats.Blank t' /\ (forall i, i < length t' -> live t' i) /\
    map (pos (ids sk)) (ids sk) = seq 0 (length t') /\
    same_answers t t' root sk (pos (ids sk)) O.
Proof.
  intros [Hno|(root & sk & HR & HN & HL)] (i & Hi) Hok Hw; [exfalso; eapply Hno; eauto|].
  destruct (C04_reparse t root sk txt HR HN HL (Hok root sk HR) Hw) as (t' & A & B & C & D & E & _ & _ & F).
  exists root, sk, t'. split; [exact HR|]. split; [exact HN|].
  split; [intros j; split; [apply HL|intros H; eapply Rep_ids_live; eauto]|].
  do 5 (split; [assumption|]). exact F.
Qed.

(* removed slots of the edited arena are invisible: they cannot be queried, no answer mentions them, and
   they have no counterpart in the re-parsed arena (phi is a bijection from the live ids onto all ids) *)
Theorem C04_removed_unobservable (t : arena) (root : nat) (sk : rtree) :
  Rep t None 0 root sk -> NoDup (ids sk) -> (forall i, live t i -> In i (ids sk)) ->
  (forall x, removed t x <-> ~ In x (ids sk)) /\
  (forall x, removed t x ->
     preorder t x = Err NodeNotFound /\ postorder t x = Err NodeNotFound /\
     inorder t x = Err NodeNotFound /\ levelorder t x = Err NodeNotFound /\
     get_path_from_root t x = Err NodeNotFound /\ get t x = Err NodeNotFound /\
     (forall y, y <> x -> get_common_ancestor t x y = Err NodeNotFound) /\
     (forall O y, y <> x -> get_distance O t x y = Err NodeNotFound)) /\
  (forall x, In x (get_leaves t) -> In x (ids sk)) /\
  (forall p x, In x (search_nodes t p) -> In x (ids sk)) /\
  (forall x l, In x (ids sk) ->
     (preorder t x = Ok l \/ postorder t x = Ok l \/ levelorder t x = Ok l \/ inorder t x = Ok l \/
      get_descendants t x = Ok l \/ get_subtree_leaves t x = Ok l \/ get_path_from_root t x = Ok l) ->
     incl l (ids sk)) /\
  (forall a b c, In a (ids sk) -> In b (ids sk) -> get_common_ancestor t a b = Ok c -> In c (ids sk)).
Proof.
  intros HR HN HL.
  destruct (answers_live t root sk HR HN HL) as (A & B & _ & _ & C & D).
  split.
  { intros x. split.
    - intros Hr Hin. apply (in_not_removed t root sk HR x Hin Hr).
    - apply (not_in_removed t sk HL). }
  split; [intros x Hx; apply (removed_refused t x Hx)|]. auto.
Qed.

(* Part A and Part B together: whatever the (coherent) cache states of the two trees, the cache-touching
   queries agree as well *)
Theorem C04_cached (t t' : arena) (root root' : nat) (sk : rtree) (phi : nat -> nat) (tc tc' : @tree L) :
  Rep t None 0 root sk -> NoDup (ids sk) -> (forall i, live t i -> In i (ids sk)) ->
  Rep t' None 0 root' (rmap phi sk) -> NoDup (ids (rmap phi sk)) ->
  (forall i, live t' i -> In i (ids (rmap phi sk))) ->
  RoundTrip.decorate t sk = RoundTrip.decorate t' (rmap phi sk) ->
  Good t root sk ->
  coherent O t sk tc -> coherent O t' (rmap phi sk) tc' ->
  exists ps ps' tc1 tc1',
    get_partitions O tc = Ok (ps, tc1) /\ get_partitions O tc' = Ok (ps', tc1') /\
    coherent O t sk tc1 /\ coherent O t' (rmap phi sk) tc1' /\
    leaf_index tc1' = leaf_index tc1 /\ Permutation ps' ps /\
    (forall (x : arena) rootx rx (tx : @tree L), Good x rootx rx -> coherent O x rx tx ->
       omap_out (fun r => fst (fst r)) (robinson_foulds O tc' tx) =
       omap_out (fun r => fst (fst r)) (robinson_foulds O tc tx)).
Proof.
  intros HR HN HL HR' HN' HL' Hdec HG Hc Hc'.
  assert (HG' : Good t' root' (rmap phi sk)) by (eapply iso_Good; eauto).
  exists (part_keys t sk), (part_keys t' (rmap phi sk)), (TC O t sk), (TC O t' (rmap phi sk)).
  split; [apply (get_partitions_coh O t root sk HG tc Hc)|].
  split; [apply (get_partitions_coh O t' root' _ HG' tc' Hc')|].
  split; [apply coherent_TC|]. split; [apply coherent_TC|].
  split; [cbn; f_equal; eapply iso_leaf_idx; eauto|].
  split; [eapply iso_part_keys_perm; eauto|].
  intros x rootx rx tx GX Hx.
  rewrite (rf_coh O t' x root' rootx _ rx HG' GX tc' tx Hc' Hx).
  rewrite (rf_coh O t x root rootx sk rx HG GX tc tx Hc Hx).
  eapply iso_rf_l; eauto.
Qed.

End C04.

Print Assumptions query_cache_irrelevant.
Print Assumptions queries_commute.
Print Assumptions queries_any_history.
Print Assumptions run_all_cache_irrelevant.
Print Assumptions iso_same_answers.
Print Assumptions same_labelled_tree_same_answers.
Print Assumptions C04_reparse.
Print Assumptions C04_reparse_WF.
Print Assumptions C04_removed_unobservable.
Print Assumptions C04_cached.
