(* TrilN.v — the binary-natural index functions of Script.v (tril_idxN / tril_invN, used to compare
   indices up to 2^50 with the crate) agree with the nat versions, and the bijection theorems of
   Tril.v hold for them.  PROOF FILE. *)
From PT Require Import Script Tril.
From Coq Require Import Lia ZArith NArith List Arith Bool.
Import ListNotations.

Lemma N_of_nat_div : forall a b, N.of_nat (a / b) = (N.of_nat a / N.of_nat b)%N.
Proof.
  intros a b. destruct b as [|b].
  - simpl. destruct (N.of_nat a); reflexivity.
  - apply Nat2N.inj_div.
Qed.

Theorem tril_idxN_spec : forall i j,
  tril_idxN (N.of_nat i) (N.of_nat j) = N.of_nat (tril_idx i j).
Proof.
  intros i j. unfold tril_idxN, tril_idx.
  assert (E : (N.of_nat j <? N.of_nat i)%N = (j <? i)).
  { destruct (Nat.ltb_spec j i); [apply N.ltb_lt | apply N.ltb_ge]; lia. }
  rewrite E. destruct (j <? i).
  - rewrite Nat2N.inj_add, N_of_nat_div, Nat2N.inj_mul, Nat2N.inj_sub. reflexivity.
  - rewrite Nat2N.inj_add, N_of_nat_div, Nat2N.inj_mul, Nat2N.inj_sub. reflexivity.
Qed.

Theorem tril_invN_spec : forall k,
  tril_invN (N.of_nat k) = (N.of_nat (fst (tril_inv k)), N.of_nat (snd (tril_inv k))).
Proof.
  intros k. unfold tril_invN, tril_inv. cbn [fst snd].
  set (q := N.sqrt (1 + 8 * N.of_nat k)).
  assert (Ep : N.of_nat ((N.to_nat q - 1) / 2) = ((q - 1) / 2)%N).
  { rewrite N_of_nat_div, Nat2N.inj_sub, N2Nat.id. reflexivity. }
  f_equal.
  - rewrite Nat2N.inj_add, Ep. reflexivity.
  - rewrite Nat2N.inj_sub, N_of_nat_div, Nat2N.inj_mul, Nat2N.inj_add, Ep. reflexivity.
Qed.

(* ---- the same statements for arbitrary binary naturals ------------------------------------------ *)
Corollary tril_idxN_to_nat : forall i j, tril_idxN i j = N.of_nat (tril_idx (N.to_nat i) (N.to_nat j)).
Proof. intros i j. rewrite <- tril_idxN_spec, !N2Nat.id. reflexivity. Qed.

Corollary tril_invN_to_nat : forall k,
  tril_invN k = (N.of_nat (fst (tril_inv (N.to_nat k))), N.of_nat (snd (tril_inv (N.to_nat k)))).
Proof. intros k. rewrite <- tril_invN_spec, N2Nat.id. reflexivity. Qed.

Theorem tril_symN : forall i j, tril_idxN i j = tril_idxN j i.
Proof. intros i j. rewrite !tril_idxN_to_nat, tril_sym. reflexivity. Qed.

Theorem tril_invN_l : forall i j, (j < i)%N -> tril_invN (tril_idxN i j) = (i, j).
Proof.
  intros i j H. rewrite tril_idxN_to_nat, tril_invN_spec, tril_inv_l by lia.
  cbn [fst snd]. rewrite !N2Nat.id. reflexivity.
Qed.

Theorem tril_invN_r : forall k, let '(i, j) := tril_invN k in (j < i)%N /\ tril_idxN i j = k.
Proof.
  intros k. rewrite tril_invN_to_nat. pose proof (tril_inv_r (N.to_nat k)) as H.
  destruct (tril_inv (N.to_nat k)) as [i j]. cbn [fst snd]. destruct H as [H1 H2]. split.
  - lia.
  - rewrite tril_idxN_spec, H2. apply N2Nat.id.
Qed.

Theorem tril_injN : forall i j i' j', (j < i)%N -> (j' < i')%N ->
  tril_idxN i j = tril_idxN i' j' -> i = i' /\ j = j'.
Proof.
  intros i j i' j' H H' E. rewrite !tril_idxN_to_nat in E. apply Nat2N.inj in E.
  apply tril_inj in E; [|lia|lia]. destruct E as [E1 E2].
  apply N2Nat.inj in E1. apply N2Nat.inj in E2. auto.
Qed.

Theorem tril_ltN : forall n i j, (j < i)%N -> (i < n)%N -> (tril_idxN i j < n * (n - 1) / 2)%N.
Proof.
  intros n i j H1 H2. rewrite tril_idxN_to_nat.
  pose proof (tril_lt (N.to_nat n) (N.to_nat i) (N.to_nat j)) as H.
  assert (E : (n * (n - 1) / 2)%N = N.of_nat (N.to_nat n * (N.to_nat n - 1) / 2)).
  { rewrite N_of_nat_div, Nat2N.inj_mul, Nat2N.inj_sub, N2Nat.id. reflexivity. }
  rewrite E. lia.
Qed.

Theorem tril_surjN : forall n k, (k < n * (n - 1) / 2)%N ->
  let '(i, j) := tril_invN k in (j < i)%N /\ (i < n)%N /\ tril_idxN i j = k.
Proof.
  intros n k Hk. pose proof (tril_invN_r k) as H. destruct (tril_invN k) as [i j] eqn:E.
  destruct H as [H1 H2]. split; [assumption|]. split; [|assumption].
  destruct (N.lt_ge_cases i n) as [|Hge]; [assumption|exfalso].
  (* i >= n : then idx i j >= T (n-1) *)
  rewrite tril_idxN_to_nat in H2.
  pose proof (tril_idx_lt (N.to_nat i) (N.to_nat j) ltac:(lia)) as Hi. rewrite Hi in H2.
  assert (Hm : T (N.to_nat n - 1) <= T (N.to_nat i - 1)) by (apply T_mono; lia).
  assert (E2 : (n * (n - 1) / 2)%N = N.of_nat (T (N.to_nat n - 1))).
  { rewrite <- tri_size, N_of_nat_div, Nat2N.inj_mul, Nat2N.inj_sub, N2Nat.id. reflexivity. }
  rewrite E2 in Hk. lia.
Qed.

Print Assumptions tril_idxN_spec.
Print Assumptions tril_invN_spec.
Print Assumptions tril_invN_l.
Print Assumptions tril_invN_r.
Print Assumptions tril_injN.
Print Assumptions tril_surjN.
