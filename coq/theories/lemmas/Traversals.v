(* Traversals.v — the fuelled arena traversals of a represented subtree are the textbook traversals
   of the rose tree it represents. *)
From Coq Require Import List Arith Lia Permutation.
From PT Require Import Arena Spec.
Import ListNotations.

(* ================================================================================================ *)
(* 1. induction principle for rose trees                                                            *)
(* ================================================================================================ *)
Lemma rtree_ind' : forall P : rtree -> Prop,
  (forall i cs, Forall P cs -> P (RT i cs)) -> forall r, P r.
Proof.
  intros P H. fix IH 1. intros [i cs]. apply H.
  induction cs as [|c cs IHcs]; constructor; [apply IH | exact IHcs].
Qed.

(* ================================================================================================ *)
(* generic list / Forall2 helpers                                                                   *)
(* ================================================================================================ *)
Lemma Forall2_nil_r {A B} (R : A -> B -> Prop) l : Forall2 R l [] -> l = [].
Proof. inversion 1; reflexivity. Qed.

Lemma Forall2_nil_l {A B} (R : A -> B -> Prop) l : Forall2 R [] l -> l = [].
Proof. inversion 1; reflexivity. Qed.

Lemma Forall2_cons_r {A B} (R : A -> B -> Prop) l b l' :
  Forall2 R l (b :: l') -> exists a l0, l = a :: l0 /\ R a b /\ Forall2 R l0 l'.
Proof. inversion 1; subst; eauto. Qed.

Lemma Forall2_cons_l {A B} (R : A -> B -> Prop) a l l' :
  Forall2 R (a :: l) l' -> exists b l0, l' = b :: l0 /\ R a b /\ Forall2 R l l0.
Proof. inversion 1; subst; eauto. Qed.

Lemma Forall2_Forall_r {A B} (P : B -> Prop) (R Q : A -> B -> Prop) l l' :
  Forall P l' -> Forall2 R l l' ->
  (forall a b, P b -> R a b -> In b l' -> Q a b) -> Forall2 Q l l'.
Proof.
  intros HP HR. induction HR as [|a b l l' Hab HR IH]; intros HQ; constructor.
  - apply HQ; [exact (Forall_inv HP) | exact Hab | left; reflexivity].
  - apply IH; [exact (Forall_inv_tail HP)|]. intros a0 b0 H1 H2 H3. apply HQ; auto. right; exact H3.
Qed.

Lemma Forall2_Forall_elim_r {A B} (P Q : B -> Prop) (R : A -> B -> Prop) l l' :
  Forall P l' -> Forall2 R l l' -> (forall a b, P b -> R a b -> Q b) -> Forall Q l'.
Proof.
  intros HP HR HQ. induction HR as [|a b l l' Hab HR IH]; constructor.
  - eapply HQ; [exact (Forall_inv HP) | exact Hab].
  - apply IH. exact (Forall_inv_tail HP).
Qed.

Lemma Forall2_impl' {A B} (R Q : A -> B -> Prop) l l' :
  (forall a b, R a b -> Q a b) -> Forall2 R l l' -> Forall2 Q l l'.
Proof. intros H. induction 1; constructor; auto. Qed.

Lemma flat_map_Forall_ext {A B} (f g : A -> list B) l :
  Forall (fun x => f x = g x) l -> flat_map f l = flat_map g l.
Proof. induction 1 as [|x l Hx _ IH]; cbn; [reflexivity|]. rewrite Hx, IH. reflexivity. Qed.

Lemma filter_flat_map {A B} (p : B -> bool) (g : A -> list B) l :
  filter p (flat_map g l) = flat_map (fun x => filter p (g x)) l.
Proof. induction l as [|x l IH]; cbn; [reflexivity|]. rewrite filter_app, IH. reflexivity. Qed.

Lemma flat_map_nil_fun {A B} (l : list A) : flat_map (fun _ => @nil B) l = [].
Proof. induction l; cbn; auto. Qed.

Lemma flat_map_Permutation_ext {A B} (f g : A -> list B) l :
  Forall (fun x => Permutation (f x) (g x)) l -> Permutation (flat_map f l) (flat_map g l).
Proof.
  induction 1 as [|x l Hx _ IH]; cbn; [constructor|]. apply Permutation_app; assumption.
Qed.

(* ================================================================================================ *)
(* outcome helpers                                                                                  *)
(* ================================================================================================ *)
Lemma concat_mapM_ok {A B C} (g : A -> outcome (list B)) (f : C -> list B) cs rs :
  Forall2 (fun c r => g c = Ok (f r)) cs rs -> concat_mapM g cs = Ok (flat_map f rs).
Proof.
  induction 1 as [|c r cs rs Hc _ IH]; cbn [concat_mapM flat_map]; [reflexivity|].
  rewrite Hc. cbn [bind]. rewrite IH. reflexivity.
Qed.

(* ================================================================================================ *)
(* forest measures                                                                                  *)
(* ================================================================================================ *)
Definition fsize (fs : list rtree) : nat := fold_right (fun c acc => rsize c + acc) 0 fs.
Definition fheight (fs : list rtree) : nat := fold_right (fun c acc => Nat.max (rheight c) acc) 0 fs.

Lemma rsize_RT i cs : rsize (RT i cs) = S (fsize cs).
Proof. reflexivity. Qed.
Lemma rheight_RT i cs : rheight (RT i cs) = S (fheight cs).
Proof. reflexivity. Qed.
Lemma fsize_cons r fs : fsize (r :: fs) = rsize r + fsize fs.
Proof. reflexivity. Qed.
Lemma fheight_cons r fs : fheight (r :: fs) = Nat.max (rheight r) (fheight fs).
Proof. reflexivity. Qed.

Lemma fsize_app a b : fsize (a ++ b) = fsize a + fsize b.
Proof. induction a as [|x a IH]; [reflexivity|]. rewrite <- app_comm_cons, !fsize_cons, IH. lia. Qed.

Lemma rsize_pos r : 1 <= rsize r.
Proof. destruct r. rewrite rsize_RT. lia. Qed.
Lemma rheight_pos r : 1 <= rheight r.
Proof. destruct r. rewrite rheight_RT. lia. Qed.

Lemma fheight_in c cs : In c cs -> rheight c <= fheight cs.
Proof.
  induction cs as [|x cs IH]; [intros []|]. rewrite fheight_cons. intros [->|Hin]; [lia|].
  specialize (IH Hin). lia.
Qed.

Lemma fheight_0 fs : fheight fs = 0 -> fs = [].
Proof.
  destruct fs as [|r fs]; [reflexivity|]. rewrite fheight_cons. pose proof (rheight_pos r). lia.
Qed.
Lemma fsize_0 fs : fsize fs = 0 -> fs = [].
Proof.
  destruct fs as [|r fs]; [reflexivity|]. rewrite fsize_cons. pose proof (rsize_pos r). lia.
Qed.

Lemma rheight_le_rsize : forall r, rheight r <= rsize r.
Proof.
  induction r as [i cs IH] using rtree_ind'. rewrite rheight_RT, rsize_RT. apply le_n_S.
  induction IH as [|c cs Hc _ IH']; [reflexivity|]. rewrite fheight_cons, fsize_cons. lia.
Qed.

Lemma pre_length : forall r, length (pre r) = rsize r.
Proof.
  induction r as [i cs IH] using rtree_ind'. cbn [pre length]. rewrite rsize_RT. f_equal.
  induction IH as [|c cs Hc _ IH']; [reflexivity|]. cbn [flat_map]. rewrite app_length, Hc, IH', fsize_cons.
  reflexivity.
Qed.

Lemma flat_pre_length fs : length (flat_map pre fs) = fsize fs.
Proof.
  induction fs as [|r fs IH]; [reflexivity|]. cbn [flat_map]. rewrite app_length, pre_length, IH, fsize_cons.
  reflexivity.
Qed.

(* ================================================================================================ *)
(* max_arity helpers                                                                                *)
(* ================================================================================================ *)
Lemma max_arity_RT i cs :
  max_arity (RT i cs) = fold_right (fun c acc => Nat.max (max_arity c) acc) (length cs) cs.
Proof. reflexivity. Qed.

Lemma fold_max_ge_init {A} (f : A -> nat) b l :
  b <= fold_right (fun c acc => Nat.max (f c) acc) b l.
Proof. induction l as [|x l IH]; cbn [fold_right]; lia. Qed.

Lemma max_arity_ge_length i cs : length cs <= max_arity (RT i cs).
Proof. rewrite max_arity_RT. apply fold_max_ge_init. Qed.

(* ================================================================================================ *)
(* queue-based breadth-first spec and its equality with level_forest                                *)
(* ================================================================================================ *)
Fixpoint bfs (fuel : nat) (fs : list rtree) : list nat :=
  match fuel with
  | 0 => []
  | S f => match fs with
           | [] => []
           | RT i cs :: q => i :: bfs f (q ++ cs)
           end
  end.

Lemma bfs_nil fuel : bfs fuel [] = [].
Proof. destruct fuel; reflexivity. Qed.

Lemma bfs_level_step : forall fs gs fuel,
  fsize (fs ++ gs) <= fuel ->
  bfs fuel (fs ++ gs) = map rid fs ++ bfs (fuel - length fs) (gs ++ flat_map rch fs).
Proof.
  induction fs as [|[i cs] fs IH]; intros gs fuel Hf.
  - cbn [app map flat_map length]. rewrite Nat.sub_0_r, app_nil_r. reflexivity.
  - rewrite <- app_comm_cons in *. rewrite fsize_cons, rsize_RT in Hf.
    destruct fuel as [|f]; [lia|].
    cbn [bfs map rid flat_map rch length app]. f_equal.
    rewrite <- app_assoc. rewrite IH.
    + rewrite Nat.sub_succ. rewrite <- !app_assoc. reflexivity.
    + rewrite !fsize_app in *. lia.
Qed.

Lemma fsize_flat_rch fs : fsize (flat_map rch fs) + length fs = fsize fs.
Proof.
  induction fs as [|[i cs] fs IH]; [reflexivity|].
  cbn [flat_map rch length]. rewrite fsize_app, fsize_cons, rsize_RT. lia.
Qed.

Lemma fheight_app a b : fheight (a ++ b) = Nat.max (fheight a) (fheight b).
Proof. induction a as [|x a IH]; [reflexivity|]. rewrite <- app_comm_cons, !fheight_cons, IH. lia. Qed.

Lemma fheight_flat_rch fs : fs <> [] -> S (fheight (flat_map rch fs)) <= fheight fs.
Proof.
  induction fs as [|[i cs] fs IH]; [congruence|]. intros _.
  cbn [flat_map rch]. rewrite fheight_app, fheight_cons, rheight_RT.
  destruct fs as [|r fs].
  - cbn [flat_map fheight fold_right]. lia.
  - assert (H : r :: fs <> []) by congruence. specialize (IH H). lia.
Qed.

Lemma bfs_level : forall h fs fuel,
  fheight fs <= h -> fsize fs <= fuel -> bfs fuel fs = level_forest h fs.
Proof.
  induction h as [|h IH]; intros fs fuel Hh Hf.
  - assert (fs = []) as -> by (apply fheight_0; lia). rewrite bfs_nil. reflexivity.
  - destruct fs as [|r fs]; [rewrite bfs_nil; reflexivity|].
    cbn [level_forest]. remember (r :: fs) as gs eqn:Egs.
    rewrite <- (app_nil_r gs) at 1. rewrite bfs_level_step by (rewrite app_nil_r; exact Hf).
    cbn [app]. f_equal. apply IH.
    + assert (Hne : gs <> []) by (subst gs; congruence). pose proof (fheight_flat_rch gs Hne). lia.
    + pose proof (fsize_flat_rch gs). lia.
Qed.

Lemma bfs_level_tree r fuel : rsize r <= fuel -> bfs fuel [r] = level r.
Proof.
  intros H. unfold level. apply bfs_level.
  - rewrite fheight_cons. cbn. lia.
  - rewrite fsize_cons. cbn. lia.
Qed.

(* ================================================================================================ *)
(* 2. refinement theorems                                                                           *)
(* ================================================================================================ *)
Section Trav.
Context {L : Type}.
Notation arena := (@arena L).
Notation node := (@node L).
Implicit Types (t : arena) (n : node).

Lemma get_ok_iff t i n : get t i = Ok n <-> nth_error t i = Some n /\ ndeleted n = false.
Proof.
  unfold get. split.
  - destruct (nth_error t i) as [m|]; [|discriminate].
    destruct (ndeleted m) eqn:E; [discriminate|]. intros [= ->]. auto.
  - intros [-> ->]. reflexivity.
Qed.

Lemma Rep_inv t p d i j cs :
  Rep t p d i (RT j cs) ->
  i = j /\ exists n, get t i = Ok n /\
                     Forall2 (fun c r' => Rep t (Some i) (S d) c r') (nchildren n) cs.
Proof.
  inversion 1; subst. split; [reflexivity|]. eexists. split; [apply get_ok_iff; eauto|assumption].
Qed.

(* every id of a represented tree is a valid slot *)
Lemma Rep_ids_lt t : forall r p d i, Rep t p d i r -> forall x, In x (ids r) -> x < length t.
Proof.
  induction r as [j cs IH] using rtree_ind'. intros p d i HR x Hx.
  apply Rep_inv in HR as [-> (n & Hget & Hch)].
  unfold ids in Hx. cbn [pre] in Hx. destruct Hx as [<-|Hx].
  - apply get_ok_iff in Hget as [Hnth _]. apply nth_error_Some. congruence.
  - apply in_flat_map in Hx as (c & Hc & Hxc).
    assert (HF : Forall (fun r' => forall x, In x (ids r') -> x < length t) cs).
    { eapply Forall2_Forall_elim_r; [exact IH | exact Hch|]. intros a b Hb Hab. eapply Hb; eauto. }
    rewrite Forall_forall in HF. eapply HF; eauto.
Qed.

Lemma rsize_le_length t p d i r : Rep t p d i r -> NoDup (ids r) -> rsize r <= length t.
Proof.
  intros HR HN. rewrite <- pre_length. fold (ids r).
  rewrite <- (seq_length (length t) 0). apply NoDup_incl_length; [exact HN|].
  intros x Hx. apply in_seq. split; [lia|]. cbn. eapply Rep_ids_lt; eauto.
Qed.

Lemma rheight_le_length t p d i r : Rep t p d i r -> NoDup (ids r) -> rheight r <= length t.
Proof. intros HR HN. pose proof (rheight_le_rsize r). pose proof (rsize_le_length _ _ _ _ _ HR HN). lia. Qed.

(* ---- preorder ---------------------------------------------------------------------------------- *)
Lemma preorder_f_ok t : forall r p d i fuel,
  Rep t p d i r -> rheight r <= fuel -> preorder_f fuel t i = Ok (pre r).
Proof.
  induction r as [j cs IH] using rtree_ind'. intros p d i fuel HR Hh.
  apply Rep_inv in HR as [-> (n & Hget & Hch)].
  rewrite rheight_RT in Hh. destruct fuel as [|f]; [lia|].
  cbn [preorder_f]. rewrite Hget. cbn [bind].
  rewrite (concat_mapM_ok _ pre _ cs); [reflexivity|].
  eapply Forall2_Forall_r; [exact IH | exact Hch|].
  intros c r' IHr' HRc Hin. cbn beta in *. eapply IHr'; [exact HRc|].
  pose proof (fheight_in _ _ Hin). lia.
Qed.

Lemma preorder_f_mono t p d i r fuel fuel' :
  Rep t p d i r -> rheight r <= fuel -> fuel <= fuel' -> preorder_f fuel' t i = preorder_f fuel t i.
Proof.
  intros HR H1 H2. rewrite (preorder_f_ok t r p d i fuel), (preorder_f_ok t r p d i fuel'); auto. lia.
Qed.

Theorem preorder_refines : forall t p d i r,
  Rep t p d i r -> NoDup (ids r) -> preorder t i = Ok (pre r).
Proof.
  intros t p d i r HR HN. unfold preorder, fuel_of. eapply preorder_f_ok; [exact HR|].
  pose proof (rheight_le_length _ _ _ _ _ HR HN). lia.
Qed.

(* ---- postorder --------------------------------------------------------------------------------- *)
Lemma postorder_f_ok t : forall r p d i fuel,
  Rep t p d i r -> rheight r <= fuel -> postorder_f fuel t i = Ok (post r).
Proof.
  induction r as [j cs IH] using rtree_ind'. intros p d i fuel HR Hh.
  apply Rep_inv in HR as [-> (n & Hget & Hch)].
  rewrite rheight_RT in Hh. destruct fuel as [|f]; [lia|].
  cbn [postorder_f]. rewrite Hget. cbn [bind].
  rewrite (concat_mapM_ok _ post _ cs); [reflexivity|].
  eapply Forall2_Forall_r; [exact IH | exact Hch|].
  intros c r' IHr' HRc Hin. cbn beta in *. eapply IHr'; [exact HRc|].
  pose proof (fheight_in _ _ Hin). lia.
Qed.

Lemma postorder_f_mono t p d i r fuel fuel' :
  Rep t p d i r -> rheight r <= fuel -> fuel <= fuel' -> postorder_f fuel' t i = postorder_f fuel t i.
Proof.
  intros HR H1 H2. rewrite (postorder_f_ok t r p d i fuel), (postorder_f_ok t r p d i fuel'); auto. lia.
Qed.

Theorem postorder_refines : forall t p d i r,
  Rep t p d i r -> NoDup (ids r) -> postorder t i = Ok (post r).
Proof.
  intros t p d i r HR HN. unfold postorder, fuel_of. eapply postorder_f_ok; [exact HR|].
  pose proof (rheight_le_length _ _ _ _ _ HR HN). lia.
Qed.

(* ---- inorder ----------------------------------------------------------------------------------- *)
Lemma inorder_f_ok t : forall r p d i fuel,
  Rep t p d i r -> rheight r <= fuel -> max_arity r <= 2 -> inorder_f fuel t i = Ok (ino r).
Proof.
  induction r as [j cs IH] using rtree_ind'. intros p d i fuel HR Hh Ha.
  apply Rep_inv in HR as [-> (n & Hget & Hch)].
  rewrite rheight_RT in Hh. rewrite max_arity_RT in Ha. destruct fuel as [|f]; [lia|].
  cbn [inorder_f]. rewrite Hget. cbn [bind].
  destruct cs as [|a [|b [|c cs]]].
  - apply Forall2_nil_r in Hch. rewrite Hch. reflexivity.
  - apply Forall2_cons_r in Hch as (x & l0 & Heq & Hx & Hl0).
    apply Forall2_nil_r in Hl0. subst l0. rewrite Heq.
    cbn in Hh, Ha. pose proof (Forall_inv IH) as IHa. cbn beta in IHa.
    rewrite (IHa _ _ _ f Hx) by lia. reflexivity.
  - apply Forall2_cons_r in Hch as (x & l0 & Heq & Hx & Hl0).
    apply Forall2_cons_r in Hl0 as (y & l1 & Heq1 & Hy & Hl1).
    apply Forall2_nil_r in Hl1. subst l1 l0. rewrite Heq.
    cbn in Hh, Ha. pose proof (Forall_inv IH) as IHa. pose proof (Forall_inv (Forall_inv_tail IH)) as IHb.
    cbn beta in IHa, IHb.
    rewrite (IHa _ _ _ f Hx) by lia. cbn [bind]. rewrite (IHb _ _ _ f Hy) by lia. reflexivity.
  - exfalso. pose proof (fold_max_ge_init max_arity (length (a :: b :: c :: cs)) (a :: b :: c :: cs)) as Hge.
    cbn [length] in Hge, Ha. lia.
Qed.

Lemma inorder_f_err t : forall r p d i fuel,
  Rep t p d i r -> rheight r <= fuel -> 2 < max_arity r -> inorder_f fuel t i = Err IsNotBinary.
Proof.
  induction r as [j cs IH] using rtree_ind'. intros p d i fuel HR Hh Ha.
  apply Rep_inv in HR as [-> (n & Hget & Hch)].
  rewrite rheight_RT in Hh. rewrite max_arity_RT in Ha. destruct fuel as [|f]; [lia|].
  cbn [inorder_f]. rewrite Hget. cbn [bind].
  destruct cs as [|a [|b [|c cs]]].
  - exfalso. cbn in Ha. lia.
  - apply Forall2_cons_r in Hch as (x & l0 & Heq & Hx & Hl0).
    apply Forall2_nil_r in Hl0. subst l0. rewrite Heq.
    cbn in Hh, Ha. pose proof (Forall_inv IH) as IHa. cbn beta in IHa.
    rewrite (IHa _ _ _ f Hx) by lia. reflexivity.
  - apply Forall2_cons_r in Hch as (x & l0 & Heq & Hx & Hl0).
    apply Forall2_cons_r in Hl0 as (y & l1 & Heq1 & Hy & Hl1).
    apply Forall2_nil_r in Hl1. subst l1 l0. rewrite Heq.
    cbn in Hh, Ha. pose proof (Forall_inv IH) as IHa. pose proof (Forall_inv (Forall_inv_tail IH)) as IHb.
    cbn beta in IHa, IHb.
    destruct (le_lt_dec (max_arity a) 2) as [Hle|Hgt].
    + rewrite (inorder_f_ok t a _ _ _ f Hx) by lia. cbn [bind].
      rewrite (IHb _ _ _ f Hy) by lia. reflexivity.
    + rewrite (IHa _ _ _ f Hx) by lia. reflexivity.
  - apply Forall2_cons_r in Hch as (x & l0 & Heq & Hx & Hl0).
    apply Forall2_cons_r in Hl0 as (y & l1 & Heq1 & Hy & Hl1).
    apply Forall2_cons_r in Hl1 as (z & l2 & Heq2 & Hz & Hl2).
    subst l1 l0. rewrite Heq. reflexivity.
Qed.

Theorem inorder_refines_binary : forall t p d i r,
  Rep t p d i r -> NoDup (ids r) -> max_arity r <= 2 -> inorder t i = Ok (ino r).
Proof.
  intros t p d i r HR HN Ha. unfold inorder, fuel_of. eapply inorder_f_ok; [exact HR| |exact Ha].
  pose proof (rheight_le_length _ _ _ _ _ HR HN). lia.
Qed.

Theorem inorder_refuses : forall t p d i r,
  Rep t p d i r -> NoDup (ids r) -> 2 < max_arity r -> inorder t i = Err IsNotBinary.
Proof.
  intros t p d i r HR HN Ha. unfold inorder, fuel_of. eapply inorder_f_err; [exact HR| |exact Ha].
  pose proof (rheight_le_length _ _ _ _ _ HR HN). lia.
Qed.

(* ---- levelorder -------------------------------------------------------------------------------- *)
Definition Rep' t (c : nat) (r : rtree) : Prop := exists p d, Rep t p d c r.

Lemma levelorder_f_bfs t : forall fuel q fs acc,
  Forall2 (Rep' t) q fs -> fsize fs <= fuel ->
  levelorder_f fuel t q acc = Ok (rev acc ++ bfs fuel fs).
Proof.
  induction fuel as [|f IH]; intros q fs acc HQ Hf.
  - assert (fs = []) as -> by (apply fsize_0; lia).
    apply Forall2_nil_r in HQ. subst q. cbn. rewrite app_nil_r. reflexivity.
  - destruct fs as [|[j cs] fs].
    + apply Forall2_nil_r in HQ. subst q. cbn. rewrite app_nil_r. reflexivity.
    + apply Forall2_cons_r in HQ as (c & q0 & -> & (p & d & HR) & HQ0).
      apply Rep_inv in HR as [-> (n & Hget & Hch)].
      cbn [levelorder_f bfs]. rewrite Hget. cbn [bind].
      rewrite (IH _ (fs ++ cs)).
      * cbn [rev]. rewrite <- app_assoc. reflexivity.
      * apply Forall2_app; [exact HQ0|].
        eapply Forall2_impl'; [|exact Hch]. intros a b Hab. do 2 eexists. exact Hab.
      * rewrite fsize_cons, rsize_RT in Hf. rewrite fsize_app. lia.
Qed.

Theorem levelorder_refines : forall t p d i r,
  Rep t p d i r -> NoDup (ids r) -> levelorder t i = Ok (level r).
Proof.
  intros t p d i r HR HN. unfold levelorder.
  pose proof (rsize_le_length _ _ _ _ _ HR HN) as Hs.
  rewrite (levelorder_f_bfs t _ [i] [r] []).
  - cbn [rev app]. rewrite bfs_level_tree by lia. reflexivity.
  - constructor; [|constructor]. do 2 eexists. exact HR.
  - rewrite fsize_cons. cbn [fsize fold_right]. lia.
Qed.

(* ================================================================================================ *)
(* 3. listing corollaries                                                                           *)
(* ================================================================================================ *)
Theorem get_subtree_refines : forall t p d i r,
  Rep t p d i r -> NoDup (ids r) -> get_subtree t i = Ok (pre r).
Proof. exact preorder_refines. Qed.

Theorem get_descendants_refines : forall t p d i r,
  Rep t p d i r -> NoDup (ids r) -> get_descendants t i = Ok (tl (pre r)).
Proof.
  intros t p d i r HR HN. pose proof (rheight_le_length _ _ _ _ _ HR HN) as Hh.
  destruct r as [j cs]. apply Rep_inv in HR as [-> (n & Hget & Hch)].
  unfold get_descendants. rewrite Hget. cbn [bind pre tl].
  apply concat_mapM_ok. eapply Forall2_Forall_r; [apply Forall_forall; intros x _; exact I | exact Hch|].
  intros c r' _ HRc Hin. cbn beta in *. eapply preorder_f_ok; [exact HRc|].
  unfold fuel_of. rewrite rheight_RT in Hh. pose proof (fheight_in _ _ Hin). lia.
Qed.

Definition tipb t (i : nat) : bool := match get t i with Ok n => is_tip n | _ => false end.

Lemma filter_tip_pre t : forall r p d i, Rep t p d i r -> filter (tipb t) (pre r) = rleaves r.
Proof.
  induction r as [j cs IH] using rtree_ind'. intros p d i HR.
  apply Rep_inv in HR as [-> (n & Hget & Hch)].
  assert (HF : Forall (fun c => filter (tipb t) (pre c) = rleaves c) cs).
  { eapply Forall2_Forall_elim_r; [exact IH | exact Hch|]. intros a b Hb Hab. eapply Hb; eauto. }
  cbn [pre filter]. unfold tipb at 1. rewrite Hget. unfold is_tip.
  destruct cs as [|c cs].
  - apply Forall2_nil_r in Hch. rewrite Hch. reflexivity.
  - apply Forall2_cons_r in Hch as (x & l0 & Heq & _ & _). rewrite Heq.
    rewrite filter_flat_map. cbn [rleaves]. apply flat_map_Forall_ext. exact HF.
Qed.

Theorem get_subtree_leaves_refines : forall t p d i r,
  Rep t p d i r -> NoDup (ids r) -> get_subtree_leaves t i = Ok (rleaves r).
Proof.
  intros t p d i r HR HN. unfold get_subtree_leaves.
  rewrite (get_subtree_refines _ _ _ _ _ HR HN). cbn [bind]. f_equal.
  exact (filter_tip_pre t r p d i HR).
Qed.

(* ================================================================================================ *)
(* 5. traversals started at a dead / absent slot                                                    *)
(* ================================================================================================ *)
Lemma get_dead t i :
  (forall n, nth_error t i = Some n -> ndeleted n = true) -> get t i = Err NodeNotFound.
Proof.
  intros H. unfold get. destruct (nth_error t i) as [n|]; [rewrite (H n eq_refl)|]; reflexivity.
Qed.

Theorem traversal_dead_start : forall t i,
  (forall n, nth_error t i = Some n -> ndeleted n = true) ->
  preorder t i = Err NodeNotFound /\ postorder t i = Err NodeNotFound /\
  inorder t i = Err NodeNotFound /\ levelorder t i = Err NodeNotFound.
Proof.
  intros t i H. apply get_dead in H.
  unfold preorder, postorder, inorder, levelorder, fuel_of.
  cbn [preorder_f postorder_f inorder_f levelorder_f]. rewrite H. cbn [bind]. auto.
Qed.

End Trav.

(* ================================================================================================ *)
(* 4. spec-level facts about the textbook traversals                                                *)
(* ================================================================================================ *)
Theorem pre_post_perm : forall r, Permutation (pre r) (post r).
Proof.
  induction r as [i cs IH] using rtree_ind'. cbn [pre post].
  etransitivity; [|apply Permutation_cons_append]. constructor.
  apply flat_map_Permutation_ext. exact IH.
Qed.

Lemma pre_bfs_perm : forall fuel fs, fsize fs <= fuel -> Permutation (flat_map pre fs) (bfs fuel fs).
Proof.
  induction fuel as [|f IH]; intros fs Hf.
  - assert (fs = []) as -> by (apply fsize_0; lia). constructor.
  - destruct fs as [|[i cs] fs]; [constructor|].
    cbn [flat_map pre bfs]. rewrite <- app_comm_cons. constructor.
    etransitivity; [apply Permutation_app_comm|]. rewrite <- flat_map_app. apply IH.
    rewrite fsize_cons, rsize_RT in Hf. rewrite fsize_app. lia.
Qed.

Theorem pre_level_perm : forall r, Permutation (pre r) (level r).
Proof.
  intros r. rewrite <- (bfs_level_tree r (rsize r)) by lia.
  rewrite <- (app_nil_r (pre r)). change (pre r ++ []) with (flat_map pre [r]).
  apply pre_bfs_perm. rewrite fsize_cons. cbn. lia.
Qed.

Theorem post_level_perm : forall r, Permutation (post r) (level r).
Proof. intros r. etransitivity; [symmetry; apply pre_post_perm | apply pre_level_perm]. Qed.

Theorem post_length : forall r, length (post r) = rsize r.
Proof. intros r. rewrite <- (Permutation_length (pre_post_perm r)). apply pre_length. Qed.

Theorem level_length : forall r, length (level r) = rsize r.
Proof. intros r. rewrite <- (Permutation_length (pre_level_perm r)). apply pre_length. Qed.

(* root first in pre-order, last in post-order, first in level-order *)
Theorem pre_root_first : forall r, pre r = rid r :: tl (pre r).
Proof. intros [i cs]. reflexivity. Qed.

Theorem post_root_last : forall r, post r = removelast (post r) ++ [rid r].
Proof. intros [i cs]. cbn [post rid]. rewrite removelast_last. reflexivity. Qed.

Theorem level_root_first : forall r, level r = rid r :: tl (level r).
Proof. intros [i cs]. reflexivity. Qed.

(* the subtree relation; every subtree occupies a contiguous block of pre r and of post r *)
Inductive subtree : rtree -> rtree -> Prop :=
| sub_refl : forall r, subtree r r
| sub_child : forall s i cs c, In c cs -> subtree s c -> subtree s (RT i cs).

Lemma flat_map_in_split {A B} (f : A -> list B) c cs :
  In c cs -> exists l1 l2, flat_map f cs = l1 ++ f c ++ l2.
Proof.
  intros Hin. apply in_split in Hin as (cs1 & cs2 & ->).
  exists (flat_map f cs1), (flat_map f cs2). rewrite flat_map_app. reflexivity.
Qed.

Theorem pre_subtree_block : forall s r, subtree s r -> exists l1 l2, pre r = l1 ++ pre s ++ l2.
Proof.
  induction 1 as [r|s i cs c Hin _ (l1 & l2 & IH)].
  - exists [], []. rewrite app_nil_r. reflexivity.
  - destruct (flat_map_in_split pre c cs Hin) as (m1 & m2 & Hm).
    exists (i :: m1 ++ l1), (l2 ++ m2). cbn [pre]. rewrite Hm, IH.
    rewrite <- !app_comm_cons, <- !app_assoc. reflexivity.
Qed.

Theorem post_subtree_block : forall s r, subtree s r -> exists l1 l2, post r = l1 ++ post s ++ l2.
Proof.
  induction 1 as [r|s i cs c Hin _ (l1 & l2 & IH)].
  - exists [], []. rewrite app_nil_r. reflexivity.
  - destruct (flat_map_in_split post c cs Hin) as (m1 & m2 & Hm).
    exists (m1 ++ l1), (l2 ++ m2 ++ [i]). cbn [post]. rewrite Hm, IH.
    rewrite <- !app_assoc. reflexivity.
Qed.

(* parent before child in pre-order: for every node (RT i cs) occurring in r and every child c of it,
   i occurs strictly before rid c in pre r *)
Theorem pre_parent_before_child : forall r i cs c,
  subtree (RT i cs) r -> In c cs -> exists l1 l2 l3, pre r = l1 ++ i :: l2 ++ rid c :: l3.
Proof.
  intros r i cs c Hs Hin. destruct (pre_subtree_block _ _ Hs) as (l1 & l2 & H).
  destruct (flat_map_in_split pre c cs Hin) as (m1 & m2 & Hm).
  exists l1, m1, (tl (pre c) ++ m2 ++ l2). rewrite H. cbn [pre]. rewrite Hm.
  rewrite (pre_root_first c) at 1.
  repeat (rewrite <- app_assoc || rewrite <- app_comm_cons). reflexivity.
Qed.

(* child before parent in post-order *)
Theorem post_child_before_parent : forall r i cs c,
  subtree (RT i cs) r -> In c cs -> exists l1 l2 l3, post r = l1 ++ rid c :: l2 ++ i :: l3.
Proof.
  intros r i cs c Hs Hin. destruct (post_subtree_block _ _ Hs) as (l1 & l2 & H).
  destruct (flat_map_in_split post c cs Hin) as (m1 & m2 & Hm).
  exists (l1 ++ m1 ++ removelast (post c)), m2, l2. rewrite H. cbn [post]. rewrite Hm.
  rewrite (post_root_last c) at 1.
  repeat (rewrite <- app_assoc || rewrite <- app_comm_cons). reflexivity.
Qed.

(* level order lists the nodes depth by depth: level r is the concatenation, for k = 0 .. height-1,
   of the ids at depth k (each level left to right) *)
Fixpoint nodes_at (k : nat) (r : rtree) {struct k} : list nat :=
  match k with
  | 0 => [rid r]
  | S k' => flat_map (nodes_at k') (rch r)
  end.

Lemma nodes_at_0_forest fs : flat_map (nodes_at 0) fs = map rid fs.
Proof. induction fs as [|r fs IH]; cbn [flat_map map]; [reflexivity|]. rewrite IH. reflexivity. Qed.

Lemma nodes_at_S_forest k fs : flat_map (nodes_at (S k)) fs = flat_map (nodes_at k) (flat_map rch fs).
Proof.
  induction fs as [|r fs IH]; [reflexivity|].
  cbn [flat_map]. rewrite flat_map_app, <- IH. reflexivity.
Qed.

Lemma flat_map_seq_shift {B} (g : nat -> list B) a n :
  flat_map g (seq (S a) n) = flat_map (fun k => g (S k)) (seq a n).
Proof. rewrite <- seq_shift. rewrite flat_map_concat_map, map_map, <- flat_map_concat_map. reflexivity. Qed.

Theorem level_forest_by_depth : forall h fs,
  level_forest h fs = flat_map (fun k => flat_map (nodes_at k) fs) (seq 0 h).
Proof.
  induction h as [|h IH]; intros fs; [reflexivity|].
  destruct fs as [|r fs].
  - cbn [level_forest]. symmetry. apply (flat_map_nil_fun (seq 0 (S h))).
  - remember (r :: fs) as gs. cbn [level_forest seq flat_map]. subst gs.
    rewrite nodes_at_0_forest. f_equal. rewrite IH, flat_map_seq_shift.
    apply flat_map_ext. intros k. symmetry. apply nodes_at_S_forest.
Qed.

Theorem level_by_depth : forall r,
  level r = flat_map (fun k => nodes_at k r) (seq 0 (rheight r)).
Proof.
  intros r. unfold level. rewrite level_forest_by_depth. apply flat_map_ext. intros k.
  cbn [flat_map]. apply app_nil_r.
Qed.

(* depth of (the first occurrence of) a node id *)
Fixpoint rdepth_of (x : nat) (r : rtree) : option nat :=
  match r with
  | RT i cs =>
      if Nat.eqb i x then Some 0
      else (fix first (cs : list rtree) : option nat :=
              match cs with
              | [] => None
              | c :: rest => match rdepth_of x c with
                             | Some k => Some (S k)
                             | None => first rest
                             end
              end) cs
  end.

Fixpoint first_depth (x : nat) (cs : list rtree) : option nat :=
  match cs with
  | [] => None
  | c :: rest => match rdepth_of x c with
                 | Some k => Some (S k)
                 | None => first_depth x rest
                 end
  end.

Lemma rdepth_of_RT x i cs :
  rdepth_of x (RT i cs) = if Nat.eqb i x then Some 0 else first_depth x cs.
Proof.
  cbn [rdepth_of]. destruct (Nat.eqb i x); [reflexivity|].
  induction cs as [|c cs IH]; [reflexivity|]. cbn [first_depth]. rewrite <- IH. reflexivity.
Qed.

Lemma NoDup_app_inv {A} (l1 l2 : list A) :
  NoDup (l1 ++ l2) -> NoDup l1 /\ NoDup l2 /\ (forall x, In x l1 -> In x l2 -> False).
Proof.
  induction l1 as [|a l1 IH]; cbn [app]; intros H.
  - split; [constructor|]. split; [exact H|]. intros x [].
  - inversion H as [|a' l' Hnin Hnd]; subst. destruct (IH Hnd) as (H1 & H2 & H3).
    split; [|split; [exact H2|]].
    + constructor; [|exact H1]. intros Hin. apply Hnin. apply in_or_app. left; exact Hin.
    + intros x [<-|Hx] Hx2; [apply Hnin; apply in_or_app; right; exact Hx2 | eapply H3; eauto].
Qed.

Lemma rdepth_of_notin : forall r x, ~ In x (pre r) -> rdepth_of x r = None.
Proof.
  induction r as [i cs IH] using rtree_ind'. intros x Hnin. rewrite rdepth_of_RT.
  cbn [pre] in Hnin. destruct (Nat.eqb_spec i x) as [->|Hne]; [exfalso; apply Hnin; left; reflexivity|].
  assert (Hcs : ~ In x (flat_map pre cs)) by (intros H; apply Hnin; right; exact H).
  clear Hnin. induction IH as [|c cs Hc _ IH']; [reflexivity|].
  cbn [first_depth]. cbn [flat_map] in Hcs. rewrite Hc.
  - apply IH'. intros H. apply Hcs. apply in_or_app. right; exact H.
  - intros H. apply Hcs. apply in_or_app. left; exact H.
Qed.

Lemma nodes_at_in_pre : forall k r x, In x (nodes_at k r) -> In x (pre r).
Proof.
  induction k as [|k IH]; intros [i cs] x Hx.
  - cbn in Hx. destruct Hx as [<-|[]]. left; reflexivity.
  - cbn [nodes_at rch] in Hx. apply in_flat_map in Hx as (c & Hc & Hx). right.
    apply in_flat_map. exists c. split; [exact Hc | apply IH; exact Hx].
Qed.

Lemma first_depth_found x k : forall cs c,
  NoDup (flat_map pre cs) -> In c cs -> In x (pre c) -> rdepth_of x c = Some k ->
  first_depth x cs = Some (S k).
Proof.
  induction cs as [|c0 cs IH]; intros c HN Hin Hx Hd; [destruct Hin|].
  cbn [flat_map] in HN. apply NoDup_app_inv in HN as (_ & HN2 & Hdisj).
  cbn [first_depth]. destruct Hin as [->|Hin].
  - rewrite Hd. reflexivity.
  - rewrite rdepth_of_notin.
    + eapply IH; eauto.
    + intros Hx0. apply (Hdisj x Hx0). apply in_flat_map. exists c. split; assumption.
Qed.

(* with distinct ids, nodes_at k lists exactly nodes whose depth is k *)
Theorem nodes_at_depth : forall k r x,
  NoDup (ids r) -> In x (nodes_at k r) -> rdepth_of x r = Some k.
Proof.
  unfold ids. induction k as [|k IH]; intros [i cs] x HN Hx.
  - cbn in Hx. destruct Hx as [<-|[]]. rewrite rdepth_of_RT, Nat.eqb_refl. reflexivity.
  - cbn [nodes_at rch] in Hx. apply in_flat_map in Hx as (c & Hc & Hx).
    cbn [pre] in HN. inversion HN as [|i' l' Hnin HNcs]; subst.
    pose proof (nodes_at_in_pre _ _ _ Hx) as Hxc.
    rewrite rdepth_of_RT. destruct (Nat.eqb_spec i x) as [->|Hne].
    + exfalso. apply Hnin. apply in_flat_map. exists c. split; assumption.
    + eapply first_depth_found; eauto. apply IH; [|exact Hx].
      destruct (flat_map_in_split pre c cs Hc) as (m1 & m2 & Hm). rewrite Hm in HNcs.
      apply NoDup_app_inv in HNcs as (_ & HNcs & _). apply NoDup_app_inv in HNcs as (HNc & _ & _).
      exact HNc.
Qed.

Lemma flat_map_seq_order {B} (g : nat -> list B) : forall n a l1 x l2 y l3,
  flat_map g (seq a n) = l1 ++ x :: l2 ++ y :: l3 ->
  exists kx ky, a <= kx /\ kx <= ky /\ ky < a + n /\ In x (g kx) /\ In y (g ky).
Proof.
  induction n as [|n IH]; intros a l1 x l2 y l3 H.
  - cbn in H. apply app_cons_not_nil in H. destruct H.
  - cbn [seq flat_map] in H. apply app_eq_app in H as (l & [(Hga & Hrest)|(Hl1 & Hrest)]).
    + destruct l as [|x' l'].
      * cbn [app] in Hrest. symmetry in Hrest.
        apply (IH (S a) [] x l2 y l3) in Hrest as (kx & ky & H1 & H2 & H3 & H4 & H5).
        exists kx, ky. repeat split; try assumption; lia.
      * cbn [app] in Hrest. injection Hrest as <- Hrest.
        assert (Hxa : In x (g a)) by (rewrite Hga; apply in_or_app; right; left; reflexivity).
        assert (Hy : In y (l' ++ flat_map g (seq (S a) n)))
          by (rewrite <- Hrest; apply in_or_app; right; left; reflexivity).
        apply in_app_or in Hy as [Hy|Hy].
        -- exists a, a. repeat split; try assumption; try lia.
           rewrite Hga. apply in_or_app. right. right. exact Hy.
        -- apply in_flat_map in Hy as (ky & Hky & Hy). apply in_seq in Hky.
           exists a, ky. repeat split; try assumption; lia.
    + apply IH in Hrest as (kx & ky & H1 & H2 & H3 & H4 & H5).
      exists kx, ky. repeat split; try assumption; lia.
Qed.

(* level order never lists a deeper node before a shallower one *)
Theorem level_depth_monotone : forall r l1 x l2 y l3,
  NoDup (ids r) -> level r = l1 ++ x :: l2 ++ y :: l3 ->
  exists dx dy, rdepth_of x r = Some dx /\ rdepth_of y r = Some dy /\ dx <= dy.
Proof.
  intros r l1 x l2 y l3 HN H. rewrite level_by_depth in H.
  apply flat_map_seq_order in H as (kx & ky & _ & Hle & _ & Hx & Hy).
  exists kx, ky. repeat split; [apply nodes_at_depth | apply nodes_at_depth | exact Hle]; assumption.
Qed.

(* the root is the unique node of depth 0 heading each listing; children are one level below *)
Theorem rdepth_of_root : forall r, rdepth_of (rid r) r = Some 0.
Proof. intros [i cs]. rewrite rdepth_of_RT. cbn [rid]. rewrite Nat.eqb_refl. reflexivity. Qed.

Print Assumptions rtree_ind'.
Print Assumptions preorder_refines.
Print Assumptions postorder_refines.
Print Assumptions inorder_refines_binary.
Print Assumptions inorder_refuses.
Print Assumptions levelorder_refines.
Print Assumptions get_subtree_refines.
Print Assumptions get_descendants_refines.
Print Assumptions get_subtree_leaves_refines.
Print Assumptions traversal_dead_start.
Print Assumptions pre_post_perm.
Print Assumptions pre_level_perm.
Print Assumptions pre_length.
Print Assumptions pre_parent_before_child.
Print Assumptions post_child_before_parent.
Print Assumptions level_by_depth.
Print Assumptions level_depth_monotone.
