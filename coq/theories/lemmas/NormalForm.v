(* NormalForm.v — property C02, last clause: a tree returned by the parser, once written, parses back
   to an equal labelled tree and is written identically again.  The only proviso on the input is
   [quotes_ok]: double quotes are met in the Name field only (they are balanced delimiters inside
   a label).  PROOF FILE. *)
From PT Require Import Newick Spec ParserProps RoundTrip.
From Coq Require Import Lia List Arith NArith Bool.
Import ListNotations.

(* ================================================================================================ *)
(* Part 1: the quote discipline of an input                                                          *)
(* ================================================================================================ *)
(* An independent scanner that follows only (field, quote flag) with exactly the tests of the state
   machine, in the same order.  It fails (QBad) when a double quote is processed outside the Name
   field, or when any other character gets past the first three tests while the flag is on (a
   delimiter / whitespace / plain character would be processed with an open quote).  It stops at the
   first ';' read as a delimiter. *)
Inductive qres := QBad | QStop | QGo (f : field) (q : bool).

Definition qstep (f : field) (q : bool) (c : N) : qres :=
  if q && (match f with FName => true | _ => false end) && negb (c =? ch_quote)%N then QGo f q
  else if (match f with FComment => true | _ => false end) && negb (c =? ch_rbr)%N then QGo f q
  else if is_ws c && negb q then QGo f q
  else if (c =? ch_quote)%N then match f with FName => QGo f (negb q) | _ => QBad end
  else if q then QBad
  else if (c =? ch_lbr)%N then QGo FComment q
  else if (c =? ch_rbr)%N then QGo FName q
  else if (c =? ch_lpar)%N then QGo f q
  else if (c =? ch_colon)%N then QGo FLength q
  else if (c =? ch_comma)%N then QGo FName q
  else if (c =? ch_rpar)%N then QGo FName q
  else if (c =? ch_semi)%N then QStop
  else QGo f q.

Fixpoint qrun (f : field) (q : bool) (s : str) : bool :=
  match s with
  | [] => true
  | c :: r =>
      match qstep f q c with
      | QBad => false
      | QStop => true
      | QGo f' q' => qrun f' q' r
      end
  end.

Definition quotes_ok (s : str) : Prop := qrun FName false s = true.

(* an input without any double quote satisfies the discipline *)
Lemma qstep_unquoted f c : c <> ch_quote ->
  qstep f false c = QStop \/ exists f', qstep f false c = QGo f' false.
Proof.
  intros Hc. apply N.eqb_neq in Hc. unfold qstep. rewrite Hc. simpl.
  repeat match goal with |- context [if ?b then _ else _] => destruct b; eauto end.
Qed.

Lemma qrun_unquoted s : ~ In ch_quote s -> forall f, qrun f false s = true.
Proof.
  induction s as [|c r IH]; intros Hn f; [reflexivity|]. simpl.
  destruct (qstep_unquoted f c) as [->|[f' ->]]; auto.
  - intros ->. apply Hn. left; reflexivity.
  - apply IH. intros H. apply Hn. right; auto.
Qed.

Lemma unquoted_quotes_ok s : ~ In ch_quote s -> quotes_ok s.
Proof. intros H. apply qrun_unquoted; auto. Qed.

(* The clause "flag on past the first three tests" is never the one that fires: starting from
   (Name, off) the flag can only be on in the Name field, where the first test catches everything
   but the quote.  So [quotes_ok] says exactly: no double quote is read in the Length field. *)
Definition qstep' (f : field) (q : bool) (c : N) : qres :=
  if q && (match f with FName => true | _ => false end) && negb (c =? ch_quote)%N then QGo f q
  else if (match f with FComment => true | _ => false end) && negb (c =? ch_rbr)%N then QGo f q
  else if is_ws c && negb q then QGo f q
  else if (c =? ch_quote)%N then match f with FName => QGo f (negb q) | _ => QBad end
  else if (c =? ch_lbr)%N then QGo FComment q
  else if (c =? ch_rbr)%N then QGo FName q
  else if (c =? ch_lpar)%N then QGo f q
  else if (c =? ch_colon)%N then QGo FLength q
  else if (c =? ch_comma)%N then QGo FName q
  else if (c =? ch_rpar)%N then QGo FName q
  else if (c =? ch_semi)%N then QStop
  else QGo f q.

Fixpoint qrun' (f : field) (q : bool) (s : str) : bool :=
  match s with
  | [] => true
  | c :: r =>
      match qstep' f q c with
      | QBad => false
      | QStop => true
      | QGo f' q' => qrun' f' q' r
      end
  end.

Lemma qstep_alt f q c : (q = true -> f = FName) ->
  qstep f q c = qstep' f q c /\
  (forall f' q', qstep f q c = QGo f' q' -> q' = true -> f' = FName).
Proof.
  intros Hq. unfold qstep, qstep'.
  destruct q.
  - rewrite (Hq eq_refl). simpl. destruct (c =? ch_quote)%N eqn:E; simpl.
    + rewrite andb_false_r. simpl. split; auto. intros f' q' H; inversion H; subst; auto.
    + split; auto. intros f' q' H; inversion H; subst; auto.
  - simpl. split; auto.
    repeat match goal with
           | |- forall f' q', (if ?b then _ else _) = _ -> _ => destruct b
           | |- forall f' q', (match ?x with FName => _ | _ => _ end) = _ -> _ => destruct x
           end;
    intros f' q' H; inversion H; subst; auto; discriminate.
Qed.

Lemma qrun_alt s : forall f q, (q = true -> f = FName) -> qrun f q s = qrun' f q s.
Proof.
  induction s as [|c r IH]; intros f q Hq; simpl; auto.
  destruct (qstep_alt f q c Hq) as [<- Hnext].
  destruct (qstep f q c) as [| |f' q'] eqn:E; auto.
  apply IH. intros Hq'. apply (Hnext f' q' eq_refl Hq').
Qed.

Lemma quotes_ok_alt s : quotes_ok s <-> qrun' FName false s = true.
Proof. unfold quotes_ok. rewrite qrun_alt; [tauto|discriminate]. Qed.

Section NormalForm.
Variable L : Type.
Variable print_len : L -> str.               (* Rust `{v}` (Display for f64) *)
Variable parse_len : str -> option L.        (* str::parse::<f64>() *)
Variable ok_len : L -> Prop.                 (* "not NaN" *)

Notation node := (@node L).
Notation arena := (@arena L).
Notation pstate := (@pstate L).
Notation pres := (@pres L).
Notation pstep := (pstep parse_len).
Notation prun := (prun parse_len).
Notation commit := (commit parse_len).
Notation with_node := (with_node parse_len).

(* ================================================================================================ *)
(* Part 2: admissible labels, and the scan of a pending name                                         *)
(* ================================================================================================ *)
Definition len_src (ln : option L) : Prop :=
  match ln with None => True | Some l => exists txt, parse_len txt = Some l end.

Definition node_adm (n : node) : Prop :=
  name_ok (nname n) /\ len_src (npedge n) /\ comment_ok (ncomment n).

(* the quote flag reached after scanning a name prefix; None if an unsafe character was met
   outside quotes *)
Fixpoint nscan (q : bool) (s : str) : option bool :=
  match s with
  | [] => Some q
  | c :: s' =>
      if (c =? ch_quote)%N then nscan (negb q) s'
      else if q then nscan q s'
      else if safe_charb c then nscan q s' else None
  end.

Lemma nscan_app q x y :
  nscan q (x ++ y) = match nscan q x with Some q' => nscan q' y | None => None end.
Proof.
  revert q; induction x as [|a x IH]; intros q; simpl; auto.
  destruct (a =? ch_quote)%N; auto. destruct q; auto. destruct (safe_charb a); auto.
Qed.

Lemma name_okb_nscan s : forall q, name_okb q s = true <-> nscan q s = Some false.
Proof.
  induction s as [|c s IH]; intros q; simpl.
  - destruct q; simpl; split; congruence.
  - destruct (c =? ch_quote)%N; [apply IH|]. destruct q; [apply IH|].
    destruct (safe_charb c); simpl; [apply IH|]. split; discriminate.
Qed.

Definition pend_name_ok (nm : option str) (q : bool) : Prop :=
  match nm with
  | None => q = false
  | Some x => x <> [] /\ nscan false x = Some q
  end.

Lemma pend_name_commit nm : pend_name_ok nm false -> name_ok nm.
Proof.
  destruct nm as [x|]; simpl; auto. intros [Hne Hs]. split; auto. apply name_okb_nscan; auto.
Qed.

Lemma push_ne (o : option str) c : forall x, push_opt o c = Some x -> x <> [].
Proof. destruct o as [y|]; simpl; intros x H; inversion H; subst; [destruct y|]; discriminate. Qed.

Lemma pend_push nm q c q' :
  pend_name_ok nm q -> nscan q [c] = Some q' -> pend_name_ok (push_opt nm c) q'.
Proof.
  destruct nm as [x|]; simpl.
  - intros [Hne Hs] Hc. split; [destruct x; discriminate|].
    rewrite nscan_app, Hs. exact Hc.
  - intros -> Hc. split; [discriminate|]. exact Hc.
Qed.

Lemma comment_push cm c : comment_ok cm -> c <> ch_rbr -> comment_ok (push_opt cm c).
Proof.
  destruct cm as [x|]; simpl.
  - intros [Hne Hn] Hc. split; [destruct x; discriminate|].
    intros H. apply in_app_or in H. destruct H as [H|[H|[]]]; auto.
  - intros _ Hc. split; [discriminate|]. intros [H|[]]; auto.
Qed.

(* ================================================================================================ *)
(* Part 3: the arena operations of the parser keep the stored labels admissible                      *)
(* ================================================================================================ *)
Definition adm (t : arena) : Prop := Forall node_adm t.

Lemma adm_replace (t : arena) i n : adm t -> node_adm n -> adm (replace_nth i n t).
Proof.
  unfold adm. intros Ht Hn. revert i. induction Ht as [|m t Hm Ht IH]; intros i; [destruct i; constructor|].
  destruct i as [|i]; simpl; constructor; auto.
Qed.

Lemma adm_nth (t : arena) i n : adm t -> nth_error t i = Some n -> node_adm n.
Proof. intros Ht Hn. eapply Forall_forall; [exact Ht|]. eapply nth_error_In; eauto. Qed.

Lemma adm_app (t : arena) n : adm t -> node_adm n -> adm (t ++ [n]).
Proof. intros Ht Hn. apply Forall_app. split; auto. Qed.

Lemma adm_upd (t t' : arena) i f :
  adm t -> (forall n, node_adm n -> node_adm (f n)) -> upd t i f = Ok t' -> adm t'.
Proof.
  intros Ht Hf. unfold upd. destruct (get t i) as [n| | |] eqn:Hg; simpl; try discriminate.
  intros H; inversion H; subst. apply get_Ok in Hg. destruct Hg as [Hn _].
  apply adm_replace; auto. apply Hf. eapply adm_nth; eauto.
Qed.

Lemma node_adm_set_child_edge (n : node) c e : node_adm n -> node_adm (node_set_child_edge n c e).
Proof. destruct e; simpl; auto. Qed.

Lemma node_adm_add_child (n : node) c e : node_adm n -> node_adm (node_add_child n c e).
Proof. intros H. unfold node_add_child. apply node_adm_set_child_edge. exact H. Qed.

Lemma adm_add_child (t t' : arena) parent id :
  adm t -> add_child t (new_node None None) parent None = Ok (t', id) -> adm t'.
Proof.
  intros Ht. unfold add_child. destruct (Nat.leb (length t) parent); [discriminate|].
  destruct (get t parent) as [p| | |]; simpl; try discriminate.
  match goal with |- context [upd ?a ?i ?f] => destruct (upd a i f) as [t2| | |] eqn:H2 end;
    simpl; try discriminate.
  match goal with |- context [upd ?a ?i ?f] => destruct (upd a i f) as [t3| | |] eqn:H3 end;
    simpl; try discriminate.
  intros H; inversion H; subst.
  eapply adm_upd; [| |exact H3]; [|intros n Hn; exact Hn].
  eapply adm_upd; [| |exact H2]; [|intros n Hn; exact Hn].
  apply adm_app; auto. repeat split; simpl; auto.
Qed.

Lemma foldM_inv {A S} (P : S -> Prop) (g : S -> A -> outcome S) :
  (forall s a s', P s -> g s a = Ok s' -> P s') ->
  forall l s s', P s -> foldM g l s = Ok s' -> P s'.
Proof.
  intros Hg. induction l as [|a l IH]; intros s s' Hs; simpl.
  - intros H; inversion H; subst; auto.
  - destruct (g s a) as [s1| | |] eqn:E; simpl; try discriminate. apply IH. eapply Hg; eauto.
Qed.

Lemma adm_finish (t t' : arena) : adm t -> finish t = Ok t' -> adm t'.
Proof.
  intros Ht. rewrite finish_unfold. apply foldM_inv with (P := adm); auto.
  intros s a s' Hs. unfold fin_step. destruct (get s a) as [n| | |]; simpl; try discriminate.
  destruct (npedge n); [destruct (nparent n)|]; try (intros H; inversion H; subst; exact Hs).
  apply adm_upd; auto.
Qed.

(* the label commit *)
Lemma with_node_adm (s : pstate) k (t : arena) idx :
  adm t -> name_ok (p_name s) -> comment_ok (p_comment s) ->
  is_fail (with_node s k t idx) \/ exists t', adm t' /\ with_node s k t idx = k t'.
Proof.
  intros Ht Hnm Hcm. unfold ParserProps.with_node.
  destruct (get t idx) as [n| | |] eqn:Hg; simpl lift_run; try (left; exact I).
  cbv zeta. apply get_Ok in Hg. destruct Hg as [Hn _].
  pose proof (adm_nth _ _ _ Ht Hn) as (Ha1 & Ha2 & Ha3).
  destruct (match p_len s with Some ls => _ | None => _ end) as [edge|] eqn:He; [|left; exact I].
  right. eexists. split; [|reflexivity]. apply adm_replace; auto.
  assert (Hedge : len_src edge).
  { destruct (p_len s) as [ls|]; [|inversion He; exact I].
    destruct (parse_len ls) as [v|] eqn:Hp; inversion He; subst. simpl. eauto. }
  destruct (p_name s) as [nm|]; simpl; destruct (nparent n); simpl; (split; [|split]); simpl; auto.
Qed.

Lemma commit_adm (s : pstate) k :
  adm (p_tree s) -> name_ok (p_name s) -> comment_ok (p_comment s) ->
  is_fail (commit s k) \/ exists t', adm t' /\ commit s k = k t'.
Proof.
  intros Ht Hnm Hcm. rewrite commit_unfold.
  destruct (p_index s) as [idx|]; [apply with_node_adm; auto|].
  destruct (p_stack s) as [|parent rest]; [left; exact I|].
  destruct (lift_run_cases (add_child (p_tree s) (new_node None None) parent None)
              (fun r => with_node s k (fst r) (snd r))) as [Hf|[[t0 id] [Hadd Heq]]]; [left; auto|].
  rewrite Heq. simpl fst; simpl snd. apply with_node_adm; auto. eapply adm_add_child; eauto.
Qed.

(* ================================================================================================ *)
(* Part 4: the label invariant of the state machine, in step with the quote scanner                  *)
(* ================================================================================================ *)
Definition LInv (s : pstate) : Prop :=
  adm (p_tree s) /\ pend_name_ok (p_name s) (p_quotes s) /\ comment_ok (p_comment s).

Lemma LInv_init : LInv (@p_init L).
Proof. repeat split; simpl; auto. constructor. Qed.

Ltac both_if_as H :=
  match goal with |- (if ?b then _ else _) = _ -> _ => destruct b eqn:H end.
Ltac both_if := let H := fresh "E" in both_if_as H.
Ltac step_if2 :=
  match goal with |- _ -> (if ?b then _ else _) = _ -> _ => destruct b eqn:? end.

Lemma safe_of_tests c :
  (is_ws c) = false -> (c =? ch_quote)%N = false -> (c =? ch_lbr)%N = false ->
  (c =? ch_rbr)%N = false -> (c =? ch_lpar)%N = false -> (c =? ch_colon)%N = false ->
  (c =? ch_comma)%N = false -> (c =? ch_rpar)%N = false -> (c =? ch_semi)%N = false ->
  safe_charb c = true.
Proof. intros. unfold safe_charb. repeat match goal with H : _ = false |- _ => rewrite H; clear H end. reflexivity. Qed.

Lemma pstep_LInv s c s' f' q' :
  LInv s -> qstep (p_field s) (p_quotes s) c = QGo f' q' -> pstep s c = Running s' ->
  LInv s' /\ p_field s' = f' /\ p_quotes s' = q'.
Proof.
  intros (Ht & Hnm & Hcm). unfold qstep, Newick.pstep.
  (* 1: inside quotes in the Name field *)
  both_if_as E1.
  { intros Hq Hs; inversion Hq; inversion Hs; subst; simpl. split; [|auto].
    apply andb_true_iff in E1. destruct E1 as [Hb Hc]. apply andb_true_iff in Hb.
    destruct Hb as [Hqt _]. apply negb_true_iff in Hc.
    repeat split; simpl; auto. eapply pend_push; [exact Hnm|]. simpl. rewrite Hc, Hqt. reflexivity. }
  (* 2: inside a comment *)
  both_if_as E2.
  { intros Hq Hs; inversion Hq; inversion Hs; subst; simpl. split; [|auto].
    apply andb_true_iff in E2. destruct E2 as [_ Hc]. apply negb_true_iff in Hc.
    apply N.eqb_neq in Hc. repeat split; simpl; auto. apply comment_push; auto. }
  (* 3: whitespace *)
  both_if_as E3.
  { intros Hq Hs; inversion Hq; inversion Hs; subst. repeat split; auto. }
  (* 4: the quote *)
  both_if_as E4.
  { destruct (p_field s) eqn:Hf; try discriminate.
    intros Hq Hs; inversion Hq; inversion Hs; subst; simpl. split; [|auto].
    repeat split; simpl; auto. eapply pend_push; [exact Hnm|]. simpl. rewrite E4. reflexivity. }
  (* flag off from here on *)
  both_if_as E5; [discriminate|].
  assert (Hws : is_ws c = false).
  { simpl in E3. rewrite andb_true_r in E3. exact E3. }
  both_if_as E6.
  { intros Hq Hs; inversion Hq; inversion Hs; subst; simpl. repeat split; auto. }
  both_if_as E7.
  { intros Hq Hs; inversion Hq; inversion Hs; subst; simpl. repeat split; auto. }
  both_if_as E8.
  { intros Hq; inversion Hq; subst.
    destruct (p_stack s) as [|parent rest] eqn:Hst.
    - destruct (p_tree s) eqn:Htr; [|discriminate].
      intros Hs; inversion Hs; subst; simpl. repeat split; simpl; auto.
      constructor; [|constructor]. repeat split; simpl; auto.
    - destruct (add_child (p_tree s) (new_node None None) parent None) as [[t0 id]| | |] eqn:Hadd;
        simpl lift_run; try discriminate.
      intros Hs; inversion Hs; subst; simpl. repeat split; simpl; auto.
        eapply adm_add_child; eauto. }
  both_if_as E9.
  { intros Hq Hs; inversion Hq; inversion Hs; subst; simpl. repeat split; auto. }
  assert (Hnm0 : name_ok (p_name s)) by (apply pend_name_commit; exact Hnm).
  both_if_as E10.
  { intros Hq; inversion Hq; subst.
    match goal with |- Newick.commit parse_len ?s0 ?k = _ -> _ =>
      destruct (commit_adm s0 k Ht Hnm0 Hcm) as [Hfl|[t' [Ht' Heq]]] end.
    - intros Hs. rewrite Hs in Hfl. destruct Hfl.
    - rewrite Heq. intros Hs; inversion Hs; subst; simpl. repeat split; simpl; auto. }
  both_if_as E11.
  { intros Hq; inversion Hq; subst.
    match goal with |- Newick.commit parse_len ?s0 ?k = _ -> _ =>
      destruct (commit_adm s0 k Ht Hnm0 Hcm) as [Hfl|[t' [Ht' Heq]]] end.
    - intros Hs. rewrite Hs in Hfl. destruct Hfl.
    - rewrite Heq. destruct (p_stack s) as [|parent rest]; [discriminate|].
      intros Hs; inversion Hs; subst; simpl. repeat split; simpl; auto. }
  both_if_as E12; [discriminate|].
  intros Hq; inversion Hq; subst.
  destruct (p_field s) eqn:Hf; [| |discriminate].
  - intros Hs; inversion Hs; subst; simpl. repeat split; simpl; auto.
    eapply pend_push; [exact Hnm|]. simpl. rewrite E4.
    rewrite safe_of_tests; auto.
  - rewrite Hws. intros Hs; inversion Hs; subst; simpl. repeat split; simpl; auto.
Qed.

Lemma semi_go_adm (s : pstate) (t : arena) idx t' :
  adm t -> name_ok (p_name s) -> comment_ok (p_comment s) ->
  lift_run (get t idx) (fun n : node =>
        let n1 := set_ncomment (set_nname n (p_name s)) (p_comment s) in
        match (match p_len s with
               | Some ls => match parse_len ls with Some v => Some (set_npedge n1 (Some v)) | None => None end
               | None => Some n1
               end) with
        | None => Done (Err FloatError)
        | Some n2 =>
            match finish (replace_nth idx n2 t) with
            | Ok t' => Done (Ok t')
            | Err _ => Done (Err NwTreeError)
            | Panic x => Done (Panic x)
            | OutOfFuel => Done OutOfFuel
            end
        end) = Done (Ok t') ->
  adm t'.
Proof.
  intros Ht Hnm Hcm. destruct (get t idx) as [n| | |] eqn:Hg; simpl lift_run; try discriminate.
  cbv zeta. apply get_Ok in Hg. destruct Hg as [Hn _].
  pose proof (adm_nth _ _ _ Ht Hn) as (Ha1 & Ha2 & Ha3).
  destruct (match p_len s with Some ls => _ | None => _ end) as [n2|] eqn:Hn2; [|discriminate].
  destruct (finish (replace_nth idx n2 t)) as [tf| | |] eqn:Hfin; try discriminate.
  intros H; inversion H; subst tf; clear H.
  eapply adm_finish; [|exact Hfin]. apply adm_replace; auto.
  destruct (p_len s) as [ls|].
  - destruct (parse_len ls) as [v|] eqn:Hp; inversion Hn2; subst. repeat split; simpl; eauto.
  - inversion Hn2; subst. repeat split; simpl; auto.
Qed.

Lemma pstep_done_adm s c t :
  LInv s -> qstep (p_field s) (p_quotes s) c <> QBad -> pstep s c = Done (Ok t) -> adm t.
Proof.
  intros (Ht & Hnm & Hcm) Hq. revert Hq.
  assert (E : forall r, (r <> QBad -> pstep s c = Done (Ok t) -> adm t) <->
                        (forall r', r = r' -> r' <> QBad -> pstep s c = Done (Ok t) -> adm t)).
  { intros r. split; [intros H r' <-; exact H|intros H; apply (H r); reflexivity]. }
  apply E. intros r'. clear E. unfold qstep, Newick.pstep.
  both_if_as E1; [discriminate|].
  both_if_as E2; [discriminate|].
  both_if_as E3; [discriminate|].
  both_if_as E4; [discriminate|].
  both_if_as E5; [intros <- H; contradiction H; reflexivity|].
  both_if_as E6; [discriminate|].
  both_if_as E7; [discriminate|].
  both_if_as E8.
  { intros _ _. destruct (p_stack s).
    - destruct (p_tree s); discriminate.
    - destruct (add_child _ _ _ _); discriminate. }
  both_if_as E9; [discriminate|].
  assert (Hnm0 : name_ok (p_name s)) by (apply pend_name_commit; exact Hnm).
  both_if_as E10.
  { intros _ _.
    match goal with |- Newick.commit parse_len ?s0 ?k = _ -> _ =>
      destruct (commit_adm s0 k Ht Hnm0 Hcm) as [Hfl|[t' [Ht' Heq]]] end.
    - intros Hs. rewrite Hs in Hfl. destruct Hfl.
    - rewrite Heq. discriminate. }
  both_if_as E11.
  { intros _ _.
    match goal with |- Newick.commit parse_len ?s0 ?k = _ -> _ =>
      destruct (commit_adm s0 k Ht Hnm0 Hcm) as [Hfl|[t' [Ht' Heq]]] end.
    - intros Hs. rewrite Hs in Hfl. destruct Hfl.
    - rewrite Heq. destruct (p_stack s); discriminate. }
  both_if_as E12.
  { intros _ _. destruct (negb (Nat.eqb (p_open s) 0)); [discriminate|].
    destruct (p_index s) as [idx|].
    - apply semi_go_adm; auto.
    - destruct (p_tree s) eqn:Htr; [|discriminate].
      change (let '(t1, id) := add [] (@new_node L None None) in ?g t1 id)
        with (g [set_nid (@new_node L None None) 0] 0).
      apply semi_go_adm; auto. constructor; [|constructor]. repeat split; simpl; auto. }
  intros _ _. destruct (p_field s); [discriminate| |discriminate].
  destruct (is_ws c); discriminate.
Qed.

Lemma prun_adm : forall input s t,
  LInv s -> qrun (p_field s) (p_quotes s) input = true -> prun s input = Ok t -> adm t.
Proof.
  induction input as [|c rest IH]; intros s t HI Hq; simpl; [discriminate|].
  simpl in Hq.
  destruct (pstep s c) as [s'|r] eqn:Hs.
  - destruct (qstep (p_field s) (p_quotes s) c) as [| |f' q'] eqn:Hqs; [discriminate| |].
    + (* the scanner stops at a delimiter ';' : the parser is Done there *)
      exfalso. revert Hqs Hs. unfold qstep, Newick.pstep.
      do 3 (both_if; [discriminate|]).
      both_if; [destruct (p_field s); discriminate|].
      do 7 (both_if; [discriminate|]).
      both_if; [|discriminate]. intros _.
      destruct (negb (Nat.eqb (p_open s) 0)); [discriminate|].
      destruct (p_index s).
      * unfold lift_run. destruct (get (p_tree s) n); try discriminate.
        destruct (match p_len s with Some ls => _ | None => _ end); [|discriminate].
        destruct (finish _); discriminate.
      * destruct (p_tree s); [|discriminate]. simpl.
        destruct (match p_len s with Some ls => _ | None => _ end); [|discriminate].
        destruct (finish _); discriminate.
    + destruct (pstep_LInv s c s' f' q' HI Hqs Hs) as (HI' & <- & <-). apply IH; auto.
  - intros ->. eapply pstep_done_adm; eauto. intros E. rewrite E in Hq. discriminate.
Qed.

(* ================================================================================================ *)
(* Part 5: the labels of a parsed tree are admissible                                                *)
(* ================================================================================================ *)
Theorem parse_labels_ok s t :
  from_newick parse_len s = Ok t -> quotes_ok s ->
  forall i n, nth_error t i = Some n ->
    name_ok (nname n) /\
    (forall l, npedge n = Some l -> exists txt, parse_len txt = Some l) /\
    comment_ok (ncomment n).
Proof.
  intros Hp Hq i n Hn.
  assert (Ha : adm t) by (eapply prun_adm; [apply LInv_init|exact Hq|exact Hp]).
  destruct (adm_nth _ _ _ Ha Hn) as (H1 & H2 & H3). repeat split; auto.
  intros l El. rewrite El in H2. exact H2.
Qed.

(* the same, spelled out: names are None or non-empty with [name_okb false], comments are None or
   non-empty without ']' *)
Corollary parse_labels_ok_explicit s t :
  from_newick parse_len s = Ok t -> quotes_ok s ->
  forall i n, nth_error t i = Some n ->
    (forall nm, nname n = Some nm -> nm <> [] /\ name_okb false nm = true) /\
    (forall l, npedge n = Some l -> exists txt, parse_len txt = Some l) /\
    (forall cm, ncomment n = Some cm -> cm <> [] /\ ~ In 93%N cm).
Proof.
  intros Hp Hq i n Hn. destruct (parse_labels_ok s t Hp Hq i n Hn) as (H1 & H2 & H3).
  repeat split; auto.
  - rewrite H in H1. apply H1.
  - rewrite H in H1. apply H1.
  - rewrite H in H3. apply H3.
  - rewrite H in H3. apply H3.
Qed.

Hypothesis Hok : forall txt l, parse_len txt = Some l -> ok_len l.

Lemma labels_ok_decorate (t : arena) :
  (forall i n, nth_error t i = Some n ->
     name_ok (nname n) /\ (forall l, npedge n = Some l -> exists txt, parse_len txt = Some l) /\
     comment_ok (ncomment n)) ->
  forall sk, labels_ok ok_len (decorate t sk).
Proof.
  intros Ha. induction sk as [i cs IH] using rtree_ind'. simpl.
  assert (Hcs : Forall (labels_ok ok_len) (map (decorate t) cs)).
  { apply Forall_forall. intros x Hx. apply in_map_iff in Hx. destruct Hx as [c [<- Hc]].
    rewrite Forall_forall in IH. auto. }
  destruct (nth_error t i) as [n|] eqn:Hn.
  - destruct (Ha i n Hn) as (H1 & H2 & H3). constructor; auto.
    destruct (npedge n) as [l|]; simpl; auto. destruct (H2 l eq_refl) as [txt Htxt]. eauto.
  - constructor; simpl; auto.
Qed.

Theorem parse_labels_ok_tree s t sk :
  from_newick parse_len s = Ok t -> quotes_ok s -> labels_ok ok_len (decorate t sk).
Proof. intros Hp Hq. apply labels_ok_decorate. apply (parse_labels_ok s t Hp Hq). Qed.

(* ================================================================================================ *)
(* Part 6: the normal form                                                                           *)
(* ================================================================================================ *)
Hypothesis H1 : forall l, ok_len l -> parse_len (print_len l) = Some l.
Hypothesis H2 : forall l, print_len l <> [] /\ Forall safe_char (print_len l).

Theorem parse_normal_form s t :
  quotes_ok s -> from_newick parse_len s = Ok t ->
  exists sk, Rep t None 0 0 sk /\ ids sk = seq 0 (length t) /\
  exists txt t',
    to_newick t = Ok txt /\
    from_newick parse_len (flatten print_len txt) = Ok t' /\
    LRep t None 0 0 (decorate t sk) /\
    LRep t' None 0 0 (decorate t sk) /\
    to_newick t' = Ok txt.
Proof.
  intros Hq Hp. destruct (parse_preorder parse_len s Hp) as [sk [HR Hids]].
  exists sk. split; [exact HR|]. split; [exact Hids|].
  assert (Hlive : forall i, live t i -> In i (ids sk)).
  { intros i [n [Hn _]]. rewrite Hids. apply in_seq. apply nth_error_Some_lt in Hn. lia. }
  assert (Hlab : labels_ok ok_len (decorate t sk)) by (eapply parse_labels_ok_tree; eauto).
  (* the writer succeeds on the parsed tree *)
  pose proof (Rep_LRep L t sk None 0 0 HR) as HL.
  pose proof (get_root_Rep L t 0 0 sk HR Hlive) as Hroot.
  pose proof (write_correct L t 0 0 _ HL Hroot) as Hw.
  destruct (round_trip_WF L print_len parse_len ok_len H1 H2 t 0 sk _ HR Hlive Hlab Hw)
    as [t' (Hp' & HL' & _ & _ & _ & Hw')].
  eexists. exists t'. repeat split; eauto.
Qed.

(* the parse of the written form is itself in normal form: a second round gives the same text and
   an equal labelled tree (LRep determines the labelled tree, LRep_det) *)
Corollary parse_normal_form_unquoted s t :
  ~ In 34%N s -> from_newick parse_len s = Ok t ->
  exists sk, Rep t None 0 0 sk /\ ids sk = seq 0 (length t) /\
  exists txt t',
    to_newick t = Ok txt /\
    from_newick parse_len (flatten print_len txt) = Ok t' /\
    LRep t None 0 0 (decorate t sk) /\
    LRep t' None 0 0 (decorate t sk) /\
    to_newick t' = Ok txt.
Proof. intros Hn. apply parse_normal_form. apply unquoted_quotes_ok. exact Hn. Qed.

End NormalForm.

Print Assumptions parse_labels_ok.
Print Assumptions parse_labels_ok_tree.
Print Assumptions parse_normal_form.
Print Assumptions parse_normal_form_unquoted.
