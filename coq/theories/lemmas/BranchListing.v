(* BranchListing.v — property C07, last clause: the listing of shared and unique branches
   (Tree::compare_branch_lengths, optionally with tips) contains exactly the same splits and lengths
   as the two length maps summed by the weighted Robinson-Foulds distance.  PROOF FILE.

   Part 1: lists — the three listings computed from two length maps, keyed form, partition of the keys
   Part 2: the weighted RF / KF sums are sums over the three listings
   Part 3: compare_branch_lengths without tips on two Good arenas
   Part 4: terminal branches and the two tip loops
   Part 5: compare_branch_lengths with tips on two Good arenas; the only error is MissingBranchLengths *)
From Coq Require Import List Arith NArith Lia Bool Permutation Sorted.
From PT Require Import Arena Spec Queries RepLib Splits RF.
Import ListNotations.

Lemma perm_filter_split {A} (p : A -> bool) (l : list A) :
  Permutation l (filter p l ++ filter (fun x => negb (p x)) l).
Proof.
  induction l as [|x l IH]; simpl; [constructor|].
  destruct (p x); simpl.
  - constructor. exact IH.
  - apply Permutation_cons_app. exact IH.
Qed.

Section Listing.
Context {L : Type}.
Variable O : LenOps L.
Notation arena := (@arena L).
Notation node := (@node L).
Notation tree := (@tree L).
Notation plist := (list (bits * (nat * L))).

(* ================================================================================================ *)
(* Part 1: the three listings of two length maps                                                     *)
(* ================================================================================================ *)
(* exactly the three expressions of the model *)
Definition commonb (ps po : plist) : list ((nat * L) * (nat * L)) :=
  flat_map (fun e : bits * (nat * L) =>
              match plen_get po (fst e) with Some v => [(snd e, v)] | None => [] end) ps.
Definition selfb (ps po : plist) : list (nat * L) :=
  flat_map (fun e : bits * (nat * L) =>
              match plen_get po (fst e) with Some _ => [] | None => [snd e] end) ps.

(* keyed form: the keys of [ps] absent from / present in [po], in the order of [ps] *)
Definition only_keys (ps po : plist) : list bits :=
  filter (fun k => negb (mem_bits k (map fst po))) (map fst ps).
Definition common_keys (ps po : plist) : list bits :=
  filter (fun k => mem_bits k (map fst po)) (map fst ps).
(* the stored (depth, length) of key k *)
Definition ent (m : plist) (k : bits) : nat * L :=
  match plen_get m k with Some v => v | None => (0, l0 O) end.

Lemma ent_len_at m k : snd (ent m k) = len_at O m k.
Proof. unfold ent, len_at. destruct (plen_get m k) as [[d l]|]; reflexivity. Qed.

Lemma selfb_filter (ps po : plist) :
  selfb ps po = map snd (filter (fun e => negb (mem_bits (fst e) (map fst po))) ps).
Proof.
  unfold selfb. induction ps as [|e ps IH]; [reflexivity|]. simpl.
  rewrite <- plen_get_mem. destruct (plen_get po (fst e)); simpl; rewrite IH; reflexivity.
Qed.

Theorem selfb_keyed (ps po : plist) : NoDup (map fst ps) ->
  selfb ps po = map (ent ps) (only_keys ps po).
Proof.
  intros N. rewrite selfb_filter. unfold only_keys.
  rewrite (filter_map_comm fst (fun k => negb (mem_bits k (map fst po)))), map_map.
  apply map_ext_in. intros e He. apply filter_In in He as [He _].
  unfold ent. rewrite (plen_get_NoDup ps e N He). reflexivity.
Qed.

Theorem commonb_keyed (ps po : plist) : NoDup (map fst ps) ->
  commonb ps po = map (fun k => (ent ps k, ent po k)) (common_keys ps po).
Proof.
  intros N. unfold commonb, common_keys.
  induction ps as [|e ps IH]; [reflexivity|].
  simpl in N. apply NoDup_cons_iff in N as [Hk N].
  assert (Hext : forall k, In k (map fst ps) -> ent (e :: ps) k = ent ps k).
  { intros k Hin. unfold ent. destruct e as [k0 v0]. simpl.
    destruct (bits_eqb k k0) eqn:E; [|reflexivity].
    apply bits_eqb_iff in E. subst. contradiction. }
  cbn [flat_map map filter]. rewrite <- plen_get_mem.
  destruct (plen_get po (fst e)) as [v|] eqn:E; cbn [is_some app map].
  - f_equal.
    + unfold ent. destruct e as [k0 v0]. cbn [fst snd plen_get]. rewrite bits_eqb_refl.
      cbn [fst] in E. rewrite E. reflexivity.
    + rewrite IH by auto. apply map_ext_in. intros k Hin. apply filter_In in Hin as [Hin _].
      rewrite Hext; auto.
  - rewrite IH by auto. apply map_ext_in. intros k Hin. apply filter_In in Hin as [Hin _].
    rewrite Hext; auto.
Qed.

(* membership, in terms of the entries of the two maps *)
Theorem selfb_In (ps po : plist) x :
  In x (selfb ps po) <-> exists k, In (k, x) ps /\ ~ In k (map fst po).
Proof.
  rewrite selfb_filter, in_map_iff. split.
  - intros ([k v] & <- & He). apply filter_In in He as [He Hn].
    apply negb_true_iff, mem_bits_false in Hn. exists k. auto.
  - intros (k & He & Hn). exists (k, x). split; auto. apply filter_In. split; auto.
    apply negb_true_iff, mem_bits_false. auto.
Qed.

Theorem commonb_In (ps po : plist) x y : NoDup (map fst po) ->
  In (x, y) (commonb ps po) <-> exists k, In (k, x) ps /\ In (k, y) po.
Proof.
  intros N. unfold commonb. rewrite in_flat_map. split.
  - intros ([k v] & He & Hin). cbn [fst snd] in Hin.
    destruct (plen_get po k) as [w|] eqn:E; [|contradiction].
    destruct Hin as [Hin|[]]. injection Hin as <- <-. exists k. split; auto.
    apply plen_get_In; auto.
  - intros (k & He & Ho). exists (k, x). split; auto. cbn [fst snd].
    pose proof (plen_get_NoDup po (k, y) N Ho) as E. cbn [fst snd] in E. rewrite E.
    left; reflexivity.
Qed.

(* the keys: each map's key list is partitioned by its listing and the common one *)
Theorem keys_partition_l (ps po : plist) :
  Permutation (map fst ps) (common_keys ps po ++ only_keys ps po).
Proof. apply perm_filter_split. Qed.

Lemma common_keys_sym (ps po : plist) : NoDup (map fst ps) -> NoDup (map fst po) ->
  Permutation (common_keys ps po) (common_keys po ps).
Proof.
  intros N1 N2. apply NoDup_Permutation; try (apply NoDup_filter; auto).
  intros k. unfold common_keys. rewrite !filter_In, !mem_bits_In. tauto.
Qed.

Theorem keys_partition_r (ps po : plist) : NoDup (map fst ps) -> NoDup (map fst po) ->
  Permutation (map fst po) (common_keys ps po ++ only_keys po ps).
Proof.
  intros N1 N2. rewrite (common_keys_sym ps po N1 N2). apply perm_filter_split.
Qed.

(* ... and together they enumerate the union of the keys exactly once: it is the enumeration used
   by RF.wrf_sum_keys *)
Theorem ukeys_listing (ps po : plist) :
  Permutation (ukeys ps po) (common_keys ps po ++ only_keys ps po ++ only_keys po ps).
Proof.
  unfold ukeys. fold (only_keys po ps). rewrite app_assoc.
  apply Permutation_app_tail. apply keys_partition_l.
Qed.

Theorem listing_lengths (ps po : plist) :
  length (commonb ps po) + length (selfb ps po) = length ps.
Proof.
  unfold commonb, selfb. induction ps as [|e ps IH]; [reflexivity|]. simpl.
  rewrite !app_length. destruct (plen_get po (fst e)); simpl; lia.
Qed.

(* ================================================================================================ *)
(* Part 2: the weighted sums are sums over the three listings                                        *)
(* ================================================================================================ *)
Section Sums.
Variable sq : bool.

Definition cterm (p : (nat * L) * (nat * L)) : L := wf_ O sq (lsub O (snd (fst p)) (snd (snd p))).
Definition uterm (x : nat * L) : L := wg_ O sq (snd x).

Definition listing_terms (ps po : plist) : list L :=
  map cterm (commonb ps po) ++ map uterm (selfb ps po) ++ map uterm (selfb po ps).

Lemma term1_listing (ps po : plist) :
  Permutation (map (term1 O sq po) ps) (map cterm (commonb ps po) ++ map uterm (selfb ps po)).
Proof.
  unfold commonb, selfb. induction ps as [|e ps IH]; [constructor|].
  cbn [map flat_map]. unfold term1 at 1.
  destruct (plen_get po (fst e)) as [[d lo]|]; cbn [app map].
  - constructor. exact IH.
  - apply Permutation_cons_app. exact IH.
Qed.

Lemma only_terms (ps po : plist) :
  map (fun e => wg_ O sq (len_e e)) (filter (fun e => negb (is_some (plen_get ps (fst e)))) po)
  = map uterm (selfb po ps).
Proof.
  unfold selfb. induction po as [|e po IH]; [reflexivity|]. simpl.
  destruct (plen_get ps (fst e)); simpl; rewrite IH; reflexivity.
Qed.

Hypothesis ladd_assoc : forall x y z, ladd O x (ladd O y z) = ladd O (ladd O x y) z.
Hypothesis ladd_comm : forall x y, ladd O x y = ladd O y x.

(* sum over the shared splits of f(l1 - l2), plus the lengths (or squares) listed on either side *)
Theorem wrf_sum_listing (ps po : plist) :
  wrf_sum O sq ps po = fold_left (ladd O) (listing_terms ps po) (l0 O).
Proof.
  rewrite wrf_sum_terms. apply (fold_ladd_perm' O ladd_assoc ladd_comm).
  unfold listing_terms. rewrite app_assoc, only_terms.
  apply Permutation_app_tail. apply term1_listing.
Qed.

End Sums.

(* the weighted Robinson-Foulds value proper *)
Corollary wrf_sum_listing_abs (ps po : plist) :
  (forall x y z, ladd O x (ladd O y z) = ladd O (ladd O x y) z) ->
  (forall x y, ladd O x y = ladd O y x) ->
  wrf_sum O false ps po =
  fold_left (ladd O)
    (map (fun p : (nat * L) * (nat * L) => labs O (lsub O (snd (fst p)) (snd (snd p)))) (commonb ps po)
     ++ map snd (selfb ps po) ++ map snd (selfb po ps)) (l0 O).
Proof. intros Ha Hc. rewrite (wrf_sum_listing false Ha Hc). reflexivity. Qed.

(* ================================================================================================ *)
(* Part 3: compare_branch_lengths without tips                                                       *)
(* ================================================================================================ *)
Section TwoTrees.
Variables (t1 t2 : arena) (root1 root2 : nat) (r1 r2 : rtree).
Hypothesis G1 : Good t1 root1 r1.
Hypothesis G2 : Good t2 root2 r2.

Notation lm1 := (lmap O t1 r1).
Notation lm2 := (lmap O t2 r2).

Theorem cbl_unfold :
  compare_branch_lengths O (tree_of t1) (tree_of t2) false =
  if all_lens (pm O t1 r1) && all_lens (pm O t2 r2)
  then Ok ((selfb lm1 lm2, selfb lm2 lm1, commonb lm1 lm2), TC O t1 r1, TC O t2 r2)
  else Err MissingBranchLengths.
Proof.
  unfold compare_branch_lengths. rewrite (gpwl_fresh O t1 root1 r1 G1).
  destruct (all_lens (pm O t1 r1)); [|reflexivity]. cbn [bind andb].
  rewrite (gpwl_fresh O t2 root2 r2 G2). destruct (all_lens (pm O t2 r2)); reflexivity.
Qed.

(* a missing internal length in either tree: MissingBranchLengths, as for weighted_rf *)
Theorem cbl_missing tips :
  all_lens (pm O t1 r1) && all_lens (pm O t2 r2) = false ->
  compare_branch_lengths O (tree_of t1) (tree_of t2) tips = Err MissingBranchLengths.
Proof.
  intros A. unfold compare_branch_lengths. rewrite (gpwl_fresh O t1 root1 r1 G1).
  destruct (all_lens (pm O t1 r1)); [|reflexivity]. cbn [bind andb] in *.
  rewrite (gpwl_fresh O t2 root2 r2 G2). rewrite A. reflexivity.
Qed.

Hypothesis HP1 : lengths_present t1 r1.
Hypothesis HP2 : lengths_present t2 r2.

(* the splits of one tree absent from / shared with the other, in the order of its partition list *)
Definition splits_only_1 : list bits := filter (fun k => negb (mem_bits k (part_keys t2 r2))) (part_keys t1 r1).
Definition splits_only_2 : list bits := filter (fun k => negb (mem_bits k (part_keys t1 r1))) (part_keys t2 r2).
Definition splits_common : list bits := filter (fun k => mem_bits k (part_keys t2 r2)) (part_keys t1 r1).

Lemma only_keys_1 : only_keys lm1 lm2 = splits_only_1.
Proof. unfold only_keys. rewrite (lmap_keys O t1 root1 r1 G1 HP1), (lmap_keys O t2 root2 r2 G2 HP2). reflexivity. Qed.
Lemma only_keys_2 : only_keys lm2 lm1 = splits_only_2.
Proof. unfold only_keys. rewrite (lmap_keys O t1 root1 r1 G1 HP1), (lmap_keys O t2 root2 r2 G2 HP2). reflexivity. Qed.
Lemma common_keys_12 : common_keys lm1 lm2 = splits_common.
Proof. unfold common_keys. rewrite (lmap_keys O t1 root1 r1 G1 HP1), (lmap_keys O t2 root2 r2 G2 HP2). reflexivity. Qed.

Lemma snd_ent_1 k : snd (ent lm1 k) = slen O t1 r1 k.
Proof. rewrite ent_len_at. apply (lmap_len_at O t1 root1 r1 G1 HP1). Qed.
Lemma snd_ent_2 k : snd (ent lm2 k) = slen O t2 r2 k.
Proof. rewrite ent_len_at. apply (lmap_len_at O t2 root2 r2 G2 HP2). Qed.

(* C07 (listing, no tips): the answer, and what its three components are *)
Theorem cbl_listing :
  exists sb ob cb,
    compare_branch_lengths O (tree_of t1) (tree_of t2) false = Ok ((sb, ob, cb), TC O t1 r1, TC O t2 r2) /\
    sb = selfb lm1 lm2 /\ ob = selfb lm2 lm1 /\ cb = commonb lm1 lm2 /\
    (* lengths: the stored length of every split of one tree absent from the other, in order *)
    map snd sb = map (slen O t1 r1) splits_only_1 /\
    map snd ob = map (slen O t2 r2) splits_only_2 /\
    (* both stored lengths of every shared split *)
    map (fun p : (nat * L) * (nat * L) => (snd (fst p), snd (snd p))) cb
      = map (fun k => (slen O t1 r1 k, slen O t2 r2 k)) splits_common /\
    (* exactly the keys of the two maps: each split of either tree is listed exactly once *)
    Permutation (part_keys t1 r1) (splits_common ++ splits_only_1) /\
    Permutation (part_keys t2 r2) (splits_common ++ splits_only_2) /\
    Permutation (union_keys t1 t2 r1 r2) (splits_common ++ splits_only_1 ++ splits_only_2).
Proof.
  pose proof (lmap_NoDup O t1 root1 r1 G1 HP1) as N1.
  pose proof (lmap_NoDup O t2 root2 r2 G2 HP2) as N2.
  exists (selfb lm1 lm2), (selfb lm2 lm1), (commonb lm1 lm2).
  split.
  { rewrite cbl_unfold.
    rewrite (all_lens_present O t1 root1 r1 G1 HP1), (all_lens_present O t2 root2 r2 G2 HP2). reflexivity. }
  do 3 (split; [reflexivity|]).
  split; [|split; [|split; [|split; [|split]]]].
  - rewrite (selfb_keyed lm1 lm2 N1), only_keys_1, map_map. apply map_ext. apply snd_ent_1.
  - rewrite (selfb_keyed lm2 lm1 N2), only_keys_2, map_map. apply map_ext. apply snd_ent_2.
  - rewrite (commonb_keyed lm1 lm2 N1), common_keys_12, map_map. apply map_ext. intros k.
    cbn [fst snd]. rewrite snd_ent_1, snd_ent_2. reflexivity.
  - rewrite <- (lmap_keys O t1 root1 r1 G1 HP1), <- common_keys_12, <- only_keys_1. apply keys_partition_l.
  - rewrite <- (lmap_keys O t2 root2 r2 G2 HP2), <- common_keys_12, <- only_keys_2.
    apply keys_partition_r; auto.
  - rewrite <- (ukeys_lmap O t1 t2 root1 root2 r1 r2 G1 G2 HP1 HP2),
            <- common_keys_12, <- only_keys_1, <- only_keys_2.
    apply ukeys_listing.
Qed.

(* the listing and the weighted distances carry the same information: weighted_rf (sq = false) and
   the Kuhner-Felsenstein radicand (sq = true) are the sums over the listing *)
Theorem cbl_wrf sq sb ob cb s' o' :
  (forall x y z, ladd O x (ladd O y z) = ladd O (ladd O x y) z) ->
  (forall x y, ladd O x y = ladd O y x) ->
  compare_branch_lengths O (tree_of t1) (tree_of t2) false = Ok ((sb, ob, cb), s', o') ->
  weighted_rf O sq (tree_of t1) (tree_of t2) =
  Ok (fold_left (ladd O) (map (cterm sq) cb ++ map (uterm sq) sb ++ map (uterm sq) ob) (l0 O), s', o').
Proof.
  intros Ha Hc H. rewrite cbl_unfold in H.
  rewrite (wrf_unfold O sq t1 t2 root1 root2 r1 r2 G1 G2).
  destruct (_ && _); [|discriminate]. injection H as <- <- <- <- <-.
  fold lm1. fold lm2. rewrite (wrf_sum_listing sq Ha Hc). reflexivity.
Qed.

Corollary cbl_wrf_abs sb ob cb s' o' :
  (forall x y z, ladd O x (ladd O y z) = ladd O (ladd O x y) z) ->
  (forall x y, ladd O x y = ladd O y x) ->
  compare_branch_lengths O (tree_of t1) (tree_of t2) false = Ok ((sb, ob, cb), s', o') ->
  weighted_rf O false (tree_of t1) (tree_of t2) =
  Ok (fold_left (ladd O)
        (map (fun p : (nat * L) * (nat * L) => labs O (lsub O (snd (fst p)) (snd (snd p)))) cb
         ++ map snd sb ++ map snd ob) (l0 O), s', o').
Proof. intros Ha Hc H. rewrite (cbl_wrf false sb ob cb s' o' Ha Hc H). reflexivity. Qed.

End TwoTrees.

(* ================================================================================================ *)
(* Part 4: terminal branches and the two tip loops                                                   *)
(* ================================================================================================ *)
Notation tlist := (list (str * (nat * option L))).

Lemma assoc_str_In {A} (m : list (str * A)) k v : assoc_str m k = Some v -> In (k, v) m.
Proof.
  induction m as [|[k0 v0] m IH]; simpl; [discriminate|].
  destruct (str_eqb k k0) eqn:E.
  - apply str_eqb_iff in E. subst. intros H. injection H as ->. auto.
  - auto.
Qed.

Lemma assoc_str_None {A} (m : list (str * A)) k : assoc_str m k = None <-> ~ In k (map fst m).
Proof.
  induction m as [|[k0 v0] m IH]; simpl; [tauto|].
  destruct (str_eqb k k0) eqn:E.
  - apply str_eqb_iff in E. subst. split; [discriminate|]. intros H. exfalso. apply H. auto.
  - apply str_eqb_false in E. rewrite IH. split; [intros H [H'|H']; auto|tauto].
Qed.

Lemma assoc_str_NoDup {A} (m : list (str * A)) e :
  NoDup (map fst m) -> In e m -> assoc_str m (fst e) = Some (snd e).
Proof.
  induction m as [|[k0 v0] m IH]; simpl; [tauto|]. intros Hnd [<-|Hin].
  - simpl. rewrite str_eqb_rfl. reflexivity.
  - apply NoDup_cons_iff in Hnd as [Hk Hnd]. destruct (str_eqb (fst e) k0) eqn:E.
    + apply str_eqb_iff in E. subst k0. exfalso. apply Hk. apply in_map. auto.
    + auto.
Qed.

Lemma assoc_str_mem {A} (m : list (str * A)) k : is_some (assoc_str m k) = mem_str k (map fst m).
Proof.
  induction m as [|[k0 v0] m IH]; [reflexivity|]. simpl. destruct (str_eqb k k0); [reflexivity|]. apply IH.
Qed.

Lemma flat_map_ext_in {A B} (f g : A -> list B) l :
  (forall x, In x l -> f x = g x) -> flat_map f l = flat_map g l.
Proof.
  induction l as [|x l IH]; intros H; simpl; [reflexivity|].
  rewrite (H x) by (left; reflexivity). rewrite IH; auto. intros y Hy. apply H. right; auto.
Qed.

Lemma flat_map_filter_map {A B} (p : A -> bool) (h : A -> B) l :
  flat_map (fun e => if p e then [h e] else []) l = map h (filter p l).
Proof. induction l as [|x l IH]; simpl; [reflexivity|]. destruct (p x); simpl; rewrite IH; reflexivity. Qed.

(* the two loops of the model, verbatim *)
Definition loop1_f (ot : tlist) (acc : @edge_cmp L) (e : str * (nat * option L)) : outcome (@edge_cmp L) :=
  let '(sb, ob, cb) := acc in
  match snd (snd e) with
  | None => Err MissingBranchLengths
  | Some ls =>
      match assoc_str ot (fst e) with
      | Some (d2, lo) =>
          match lo with
          | None => Err MissingBranchLengths
          | Some lo' => Ok (sb, ob, cb ++ [((fst (snd e), ls), (d2, lo'))])
          end
      | None => Ok (sb ++ [(fst (snd e), ls)], ob, cb)
      end
  end.
Definition loop2_f (st : tlist) (acc : @edge_cmp L) (e : str * (nat * option L)) : outcome (@edge_cmp L) :=
  let '(sb, ob, cb) := acc in
  match assoc_str st (fst e) with
  | Some _ => Ok acc
  | None => match snd (snd e) with
            | None => Err MissingBranchLengths
            | Some lo => Ok (sb, ob ++ [(fst (snd e), lo)], cb)
            end
  end.

(* tips listed on one side: names absent from the other tree; paired tips: names present in both *)
Definition tip_only (st ot : tlist) : list (nat * L) :=
  flat_map (fun e : str * (nat * option L) =>
              match assoc_str ot (fst e) with
              | Some _ => []
              | None => match snd (snd e) with Some l => [(fst (snd e), l)] | None => [] end
              end) st.
Definition tip_common (st ot : tlist) : list ((nat * L) * (nat * L)) :=
  flat_map (fun e : str * (nat * option L) =>
              match snd (snd e), assoc_str ot (fst e) with
              | Some l, Some (d2, Some l2) => [((fst (snd e), l), (d2, l2))]
              | _, _ => []
              end) st.

Definition has_len (e : str * (nat * option L)) : bool := is_some (snd (snd e)).
Definition ok1 (ot : tlist) (e : str * (nat * option L)) : bool :=
  has_len e && match assoc_str ot (fst e) with Some (_, None) => false | _ => true end.
Definition ok2 (st : tlist) (e : str * (nat * option L)) : bool :=
  match assoc_str st (fst e) with Some _ => true | None => has_len e end.

Lemma loop1_spec (ot : tlist) : forall st sb ob cb,
  foldM (loop1_f ot) st (sb, ob, cb) =
  if forallb (ok1 ot) st then Ok (sb ++ tip_only st ot, ob, cb ++ tip_common st ot)
  else Err MissingBranchLengths.
Proof.
  induction st as [|e st IH]; intros sb ob cb.
  - simpl. rewrite !app_nil_r. reflexivity.
  - cbn [foldM forallb]. unfold loop1_f at 1, ok1 at 1, has_len, tip_only, tip_common.
    cbn [flat_map]. fold (tip_only st ot). fold (tip_common st ot).
    destruct (snd (snd e)) as [ls|]; cbn [is_some andb bind]; [|reflexivity].
    destruct (assoc_str ot (fst e)) as [[d2 [lo|]]|]; cbn [bind andb]; try reflexivity.
    + rewrite IH. destruct (forallb (ok1 ot) st); [|reflexivity]. rewrite <- app_assoc. reflexivity.
    + rewrite IH. destruct (forallb (ok1 ot) st); [|reflexivity]. rewrite <- app_assoc. reflexivity.
Qed.

Lemma loop2_spec (st : tlist) : forall ot sb ob cb,
  foldM (loop2_f st) ot (sb, ob, cb) =
  if forallb (ok2 st) ot then Ok (sb, ob ++ tip_only ot st, cb) else Err MissingBranchLengths.
Proof.
  induction ot as [|e ot IH]; intros sb ob cb.
  - simpl. rewrite !app_nil_r. reflexivity.
  - cbn [foldM forallb]. unfold loop2_f at 1, ok2 at 1, has_len, tip_only.
    cbn [flat_map]. fold (tip_only ot st).
    destruct (assoc_str st (fst e)) as [v|]; cbn [bind andb app].
    + apply IH.
    + destruct (snd (snd e)) as [lo|]; cbn [is_some andb bind]; [|reflexivity].
      rewrite IH. destruct (forallb (ok2 st) ot); [|reflexivity]. rewrite <- app_assoc. reflexivity.
Qed.

(* with unique names in the second list the two loops succeed iff every tip has a length *)
Lemma loops_ok (st ot : tlist) : NoDup (map fst ot) ->
  forallb (ok1 ot) st && forallb (ok2 st) ot = forallb has_len st && forallb has_len ot.
Proof.
  intros N. apply eq_true_iff_eq. rewrite !andb_true_iff, !forallb_forall. split.
  - intros [H1 H2]. split.
    + intros e He. apply H1 in He. unfold ok1 in He. apply andb_true_iff in He. tauto.
    + intros e He. pose proof (H2 e He) as Hk. unfold ok2 in Hk.
      destruct (assoc_str st (fst e)) as [v|] eqn:E; [|exact Hk].
      apply assoc_str_In in E. apply H1 in E. unfold ok1 in E. cbn [fst] in E.
      rewrite (assoc_str_NoDup ot e N He) in E. apply andb_true_iff in E as [_ E].
      unfold has_len. destruct (snd e) as [d [l|]]; [reflexivity|discriminate].
  - intros [H1 H2]. split.
    + intros e He. unfold ok1. rewrite (H1 e He). cbn [andb].
      destruct (assoc_str ot (fst e)) as [[d [l|]]|] eqn:E; try reflexivity.
      apply assoc_str_In in E. apply H2 in E. discriminate.
    + intros e He. unfold ok2. rewrite (H2 e He). destruct (assoc_str st (fst e)); reflexivity.
Qed.

(* membership *)
Theorem tip_only_In (st ot : tlist) d l :
  In (d, l) (tip_only st ot) <-> exists nm, In (nm, (d, Some l)) st /\ ~ In nm (map fst ot).
Proof.
  unfold tip_only. rewrite in_flat_map. split.
  - intros ([nm [d' ol]] & He & Hin). cbn [fst snd] in Hin.
    destruct (assoc_str ot nm) eqn:E; [contradiction|]. apply assoc_str_None in E.
    destruct ol as [l'|]; [|contradiction]. destruct Hin as [Hin|[]]. injection Hin as -> ->. eauto.
  - intros (nm & He & Hn). exists (nm, (d, Some l)). split; auto. cbn [fst snd].
    apply assoc_str_None in Hn. rewrite Hn. left; reflexivity.
Qed.

Theorem tip_common_In (st ot : tlist) d1 l1 d2 l2 : NoDup (map fst ot) ->
  In ((d1, l1), (d2, l2)) (tip_common st ot) <->
  exists nm, In (nm, (d1, Some l1)) st /\ In (nm, (d2, Some l2)) ot.
Proof.
  intros N. unfold tip_common. rewrite in_flat_map. split.
  - intros ([nm [d' ol]] & He & Hin). cbn [fst snd] in Hin.
    destruct ol as [l'|]; [|contradiction].
    destruct (assoc_str ot nm) as [[d2' [l2'|]]|] eqn:E; try contradiction.
    destruct Hin as [Hin|[]]. injection Hin as -> -> -> ->. apply assoc_str_In in E. eauto.
  - intros (nm & He & Ho). exists (nm, (d1, Some l1)). split; auto. cbn [fst snd].
    pose proof (assoc_str_NoDup ot (nm, (d2, Some l2)) N Ho) as E. cbn [fst snd] in E. rewrite E.
    left; reflexivity.
Qed.

(* keyed form: one entry per tip name *)
Definition names_only (st ot : tlist) : list str :=
  filter (fun nm => negb (mem_str nm (map fst ot))) (map fst st).
Definition names_common (st ot : tlist) : list str :=
  filter (fun nm => mem_str nm (map fst ot)) (map fst st).
Definition tent (m : tlist) (nm : str) : nat * L :=
  match assoc_str m nm with Some (d, Some l) => (d, l) | _ => (0, l0 O) end.

Lemma tent_entry (m : tlist) e : NoDup (map fst m) -> In e m -> has_len e = true ->
  tent m (fst e) = (fst (snd e), match snd (snd e) with Some l => l | None => l0 O end).
Proof.
  intros N He Hl. unfold tent. rewrite (assoc_str_NoDup m e N He).
  unfold has_len in Hl. destruct (snd e) as [d [l|]]; [reflexivity|discriminate].
Qed.

Theorem tip_only_keyed (st ot : tlist) : NoDup (map fst st) -> forallb has_len st = true ->
  tip_only st ot = map (tent st) (names_only st ot).
Proof.
  intros N Hl. rewrite forallb_forall in Hl. unfold tip_only, names_only.
  rewrite (filter_map_comm fst (fun nm => negb (mem_str nm (map fst ot)))), map_map.
  rewrite <- (flat_map_filter_map (fun e : str * (nat * option L) => negb (mem_str (fst e) (map fst ot)))).
  apply flat_map_ext_in. intros e He. rewrite <- assoc_str_mem.
  destruct (assoc_str ot (fst e)); cbn [is_some negb]; [reflexivity|].
  rewrite (tent_entry st e N He (Hl e He)). pose proof (Hl e He) as H. unfold has_len in H.
  destruct (snd (snd e)); [reflexivity|discriminate].
Qed.

Theorem tip_common_keyed (st ot : tlist) :
  NoDup (map fst st) -> NoDup (map fst ot) -> forallb has_len st = true -> forallb has_len ot = true ->
  tip_common st ot = map (fun nm => (tent st nm, tent ot nm)) (names_common st ot).
Proof.
  intros N1 N2 Hl1 Hl2. rewrite forallb_forall in Hl1, Hl2. unfold tip_common, names_common.
  rewrite (filter_map_comm fst (fun nm => mem_str nm (map fst ot))), map_map.
  rewrite <- (flat_map_filter_map (fun e : str * (nat * option L) => mem_str (fst e) (map fst ot))).
  apply flat_map_ext_in. intros e He. rewrite <- assoc_str_mem.
  rewrite (tent_entry st e N1 He (Hl1 e He)). pose proof (Hl1 e He) as H. unfold has_len in H.
  destruct (snd (snd e)) as [l|]; [|discriminate].
  unfold tent. destruct (assoc_str ot (fst e)) as [[d2 ol2]|] eqn:E; cbn [is_some]; [|reflexivity].
  apply assoc_str_In in E. apply Hl2 in E. unfold has_len in E. cbn [snd] in E.
  destruct ol2; [reflexivity|discriminate].
Qed.

Theorem names_partition_l (st ot : tlist) :
  Permutation (map fst st) (names_common st ot ++ names_only st ot).
Proof. apply perm_filter_split. Qed.

Lemma names_common_sym (st ot : tlist) : NoDup (map fst st) -> NoDup (map fst ot) ->
  Permutation (names_common st ot) (names_common ot st).
Proof.
  intros N1 N2. apply NoDup_Permutation; try (apply NoDup_filter; auto).
  intros k. unfold names_common. rewrite !filter_In, !mem_str_In. tauto.
Qed.

Theorem names_partition_r (st ot : tlist) : NoDup (map fst st) -> NoDup (map fst ot) ->
  Permutation (map fst ot) (names_common st ot ++ names_only ot st).
Proof. intros N1 N2. rewrite (names_common_sym st ot N1 N2). apply perm_filter_split. Qed.

(* the terminal branches of a Good arena: one entry (name, (depth, length)) per leaf, arena order *)
Definition tip_entry (t : arena) (i : nat) : str * (nat * option L) :=
  (lab t i, match nth_error t i with Some n => (ndepth n, npedge n) | None => (0, None) end).
Definition tb (t : arena) : tlist := map (tip_entry t) (get_leaves t).

Section OneTreeTips.
Variables (t : arena) (root : nat) (r : rtree).
Hypothesis G : Good t root r.

Theorem terminal_branches_good : terminal_branches t = Ok (tb t).
Proof.
  unfold terminal_branches. rewrite (has_unique_good t root r G). cbn [bind negb].
  apply mapM_ok. intros i Hi. apply (in_get_leaves t root r G) in Hi.
  destruct (leaf_get t root r G i Hi) as (n & -> & Hn & ->). unfold tip_entry. rewrite Hn. reflexivity.
Qed.

Lemma tb_names : map fst (tb t) = map (lab t) (get_leaves t).
Proof. unfold tb. rewrite map_map. reflexivity. Qed.

Lemma tb_NoDup : NoDup (map fst (tb t)).
Proof.
  rewrite tb_names. eapply Permutation_NoDup; [|apply (g_uniq _ _ _ G)].
  apply Permutation_map, Permutation_sym, (get_leaves_perm t root r G).
Qed.

(* the tip names are the leaf index of the tree *)
Lemma tb_names_leaf_idx : Permutation (map fst (tb t)) (leaf_idx t).
Proof.
  rewrite tb_names. etransitivity; [|apply Permutation_sym, (leaf_idx_perm t root r G)].
  apply Permutation_map, (get_leaves_perm t root r G).
Qed.

Theorem tb_In nm d ol :
  In (nm, (d, ol)) (tb t) <->
  exists i n, In i (rleaves r) /\ nth_error t i = Some n /\
              nname n = Some nm /\ ndepth n = d /\ npedge n = ol.
Proof.
  unfold tb. rewrite in_map_iff. split.
  - intros (i & E & Hi). apply (in_get_leaves t root r G) in Hi.
    destruct (leaf_get t root r G i Hi) as (n & _ & Hn & Hnm). unfold tip_entry in E. rewrite Hn in E.
    injection E as <- <- <-. exists i, n. auto.
  - intros (i & n & Hi & Hn & Hnm & <- & <-). exists i. split; [|apply (in_get_leaves t root r G); auto].
    destruct (leaf_get t root r G i Hi) as (n' & _ & Hn' & Hnm'). rewrite Hn in Hn'. injection Hn' as <-.
    unfold tip_entry. rewrite Hn. congruence.
Qed.

(* every tip carries a length *)
Definition tips_present : Prop :=
  forall i n, In i (rleaves r) -> nth_error t i = Some n -> npedge n <> None.

Lemma tips_present_iff : forallb has_len (tb t) = true <-> tips_present.
Proof.
  rewrite forallb_forall. split.
  - intros H i n Hi Hn E.
    destruct (leaf_get t root r G i Hi) as (n' & _ & Hn' & Hnm'). rewrite Hn in Hn'. injection Hn' as <-.
    assert (Hin : In (lab t i, (ndepth n, npedge n)) (tb t)) by (apply tb_In; exists i, n; auto).
    apply H in Hin. unfold has_len in Hin. cbn [snd] in Hin. rewrite E in Hin. discriminate.
  - intros H [nm [d ol]] He. apply tb_In in He. destruct He as (i & n & Hi & Hn & _ & _ & <-).
    unfold has_len. cbn [snd]. specialize (H i n Hi Hn). destruct (npedge n); [reflexivity|contradiction].
Qed.

End OneTreeTips.

(* ================================================================================================ *)
(* Part 5: compare_branch_lengths with tips                                                          *)
(* ================================================================================================ *)
Section TwoTreesTips.
Variables (t1 t2 : arena) (root1 root2 : nat) (r1 r2 : rtree).
Hypothesis G1 : Good t1 root1 r1.
Hypothesis G2 : Good t2 root2 r2.

Notation lm1 := (lmap O t1 r1).
Notation lm2 := (lmap O t2 r2).
Notation st := (tb t1).
Notation ot := (tb t2).

Theorem cbl_tips_unfold :
  compare_branch_lengths O (tree_of t1) (tree_of t2) true =
  if all_lens (pm O t1 r1) && all_lens (pm O t2 r2) && (forallb has_len st && forallb has_len ot)
  then Ok ((selfb lm1 lm2 ++ tip_only st ot, selfb lm2 lm1 ++ tip_only ot st,
            commonb lm1 lm2 ++ tip_common st ot), TC O t1 r1, TC O t2 r2)
  else Err MissingBranchLengths.
Proof.
  unfold compare_branch_lengths. rewrite (gpwl_fresh O t1 root1 r1 G1).
  destruct (all_lens (pm O t1 r1)); [|reflexivity]. cbn [bind andb].
  rewrite (gpwl_fresh O t2 root2 r2 G2). destruct (all_lens (pm O t2 r2)); [|reflexivity].
  cbn [bind andb negb TC nodes].
  rewrite (terminal_branches_good t1 root1 r1 G1), (terminal_branches_good t2 root2 r2 G2). cbn [bind].
  fold (selfb lm1 lm2). fold (selfb lm2 lm1). fold (commonb lm1 lm2).
  change (foldM _ st ?a) with (foldM (loop1_f ot) st a).
  rewrite loop1_spec. rewrite <- (loops_ok st ot (tb_NoDup t2 root2 r2 G2)).
  destruct (forallb (ok1 ot) st); [|reflexivity]. cbn [bind andb].
  change (foldM _ ot ?a) with (foldM (loop2_f st) ot a).
  rewrite loop2_spec. destruct (forallb (ok2 st) ot); reflexivity.
Qed.

(* the only possible failure is MissingBranchLengths: in particular DuplicateLeafNames, the other
   error the function can return, never occurs on trees with distinct tip names *)
Theorem cbl_errors tips :
  (exists v, compare_branch_lengths O (tree_of t1) (tree_of t2) tips = Ok (v, TC O t1 r1, TC O t2 r2)) \/
  compare_branch_lengths O (tree_of t1) (tree_of t2) tips = Err MissingBranchLengths.
Proof.
  destruct tips.
  - rewrite cbl_tips_unfold. destruct (_ && _ && _); eauto.
  - rewrite (cbl_unfold t1 t2 root1 root2 r1 r2 G1 G2). destruct (_ && _); eauto.
Qed.

Corollary cbl_no_duplicate_error tips :
  compare_branch_lengths O (tree_of t1) (tree_of t2) tips <> Err DuplicateLeafNames.
Proof. destruct (cbl_errors tips) as [[v ->]| ->]; discriminate. Qed.

(* a tip without length in either tree: MissingBranchLengths *)
Theorem cbl_tip_missing :
  ~ tips_present t1 r1 \/ ~ tips_present t2 r2 ->
  compare_branch_lengths O (tree_of t1) (tree_of t2) true = Err MissingBranchLengths.
Proof.
  intros H. rewrite cbl_tips_unfold.
  assert (E : forallb has_len st && forallb has_len ot = false).
  { apply andb_false_iff. destruct H as [H|H]; [left|right]; apply not_true_iff_false; intros A; apply H.
    - apply (tips_present_iff t1 root1 r1 G1); auto.
    - apply (tips_present_iff t2 root2 r2 G2); auto. }
  rewrite E, andb_false_r. reflexivity.
Qed.

Hypothesis HP1 : lengths_present t1 r1.
Hypothesis HP2 : lengths_present t2 r2.
Hypothesis HT1 : tips_present t1 r1.
Hypothesis HT2 : tips_present t2 r2.

(* C07 (listing with tips): the three lists of the no-tips answer, each followed by the tips *)
Theorem cbl_tips_listing :
  exists sb ob cb,
    compare_branch_lengths O (tree_of t1) (tree_of t2) false = Ok ((sb, ob, cb), TC O t1 r1, TC O t2 r2) /\
    compare_branch_lengths O (tree_of t1) (tree_of t2) true =
      Ok ((sb ++ tip_only st ot, ob ++ tip_only ot st, cb ++ tip_common st ot), TC O t1 r1, TC O t2 r2) /\
    (* one entry per tip name: names in both trees are paired, the others listed on their side *)
    tip_only st ot = map (tent st) (names_only st ot) /\
    tip_only ot st = map (tent ot) (names_only ot st) /\
    tip_common st ot = map (fun nm => (tent st nm, tent ot nm)) (names_common st ot) /\
    Permutation (map fst st) (names_common st ot ++ names_only st ot) /\
    Permutation (map fst ot) (names_common st ot ++ names_only ot st) /\
    Permutation (map fst st) (leaf_idx t1) /\ Permutation (map fst ot) (leaf_idx t2).
Proof.
  pose proof (tb_NoDup t1 root1 r1 G1) as N1. pose proof (tb_NoDup t2 root2 r2 G2) as N2.
  pose proof (proj2 (tips_present_iff t1 root1 r1 G1) HT1) as L1.
  pose proof (proj2 (tips_present_iff t2 root2 r2 G2) HT2) as L2.
  exists (selfb lm1 lm2), (selfb lm2 lm1), (commonb lm1 lm2).
  split; [|split].
  - rewrite (cbl_unfold t1 t2 root1 root2 r1 r2 G1 G2).
    rewrite (all_lens_present O t1 root1 r1 G1 HP1), (all_lens_present O t2 root2 r2 G2 HP2). reflexivity.
  - rewrite cbl_tips_unfold.
    rewrite (all_lens_present O t1 root1 r1 G1 HP1), (all_lens_present O t2 root2 r2 G2 HP2), L1, L2.
    reflexivity.
  - split; [apply tip_only_keyed; auto|]. split; [apply tip_only_keyed; auto|].
    split; [apply tip_common_keyed; auto|]. split; [apply names_partition_l|].
    split; [apply names_partition_r; auto|].
    split; [apply (tb_names_leaf_idx t1 root1 r1 G1)|apply (tb_names_leaf_idx t2 root2 r2 G2)].
Qed.

End TwoTreesTips.

End Listing.

Print Assumptions cbl_listing.
Print Assumptions cbl_wrf.
Print Assumptions cbl_tips_unfold.
Print Assumptions cbl_errors.
Print Assumptions cbl_tip_missing.
Print Assumptions cbl_tips_listing.
