(* NoPanicForest.v — C20 on FORESTS.

   `Tree::add` may be called on a non-empty arena: it creates a second parentless node and the arena then holds
   several rooted trees (a forest).  Such arenas are constructible through the public API but lie outside WF
   (Spec.v), so NoPanic.v says nothing about them.  This file extends the no-panic theorems to them.

     Forest t   : there is a list of rose trees, each represented in [t] from a parentless slot of depth 0,
                  with pairwise disjoint duplicate-free id lists, covering every live slot.
     ForestS t  : Forest t /\ SortedEdges t   (what the editing operations preserve, cf. WFS)

   Contents
     1.  Forest, WF_Forest, a genuine two-component example (ex_arena), component lemmas
     2.  `add` (on ANY forest arena) and rescale preserve Forest
     3.  queries are [safe] on Forest arenas: traversals, listings, paths, common ancestor (nodes of different
         components: Err RootNotFound), distance, balance indices, height / diameter, leaf names, writers, layout
     3b. distance_matrix            3c. leaf index, bipartitions, Robinson-Foulds and the other comparisons
     4.  editing operations: Forest_edit (the forest version of RepLib.WF_edit), then add_child, prune,
         reset_depths, ladderize, merge_children (siblings, and two ROOTS: two components become one),
         compress, resolve: [safe], and a forest again
     4b. distance_matrix_recursive
     5.  summary theorems C20F_*, histories with the unrestricted Tree::add, Print Assumptions *)
From Coq Require Import List Arith NArith Lia Bool Permutation Sorted.
From PT Require Import Arena Spec Queries Newick Matrix Gen RepLib WFOps Stats Paths Invariants NoPanic.
From PT Require Traversals Splits RF DistMatrix LayoutProps Effects.
Import ListNotations.

Local Arguments ids : simpl never.

(* ================================================================================================ *)
(* 1. the invariant                                                                                   *)
(* ================================================================================================ *)
Section ForestDefs.
Context {L : Type}.
Notation arena := (@arena L).
Notation node := (@node L).
Implicit Types (t : arena).

Definition Forest t : Prop :=
  exists rs : list rtree,
    Forall (fun r => Rep t None 0 (rid r) r) rs /\
    NoDup (flat_map ids rs) /\
    (forall i, live t i -> In i (flat_map ids rs)).

Definition ForestS t : Prop := Forest t /\ SortedEdges t.

Lemma ForestS_Forest t : ForestS t -> Forest t.
Proof. intros [H _]; exact H. Qed.

Theorem WF_Forest t : WF t -> Forest t.
Proof.
  intros [Hno|(root & r & HR & HN & HL)].
  - exists []. splits; [constructor|constructor|]. intros i Hi. exfalso; eapply Hno; eauto.
  - exists [r]. splits.
    + constructor; [|constructor]. rewrite (Rep_rid _ _ _ _ _ HR). exact HR.
    + simpl. rewrite app_nil_r. exact HN.
    + intros i Hi. simpl. rewrite app_nil_r. auto.
Qed.

Theorem WFS_ForestS t : WFS t -> ForestS t.
Proof. intros [H1 H2]. split; auto. apply WF_Forest; auto. Qed.

Theorem Inv_ForestS t : Inv t -> ForestS t.
Proof. intros H. apply WFS_ForestS, Inv_WFS; auto. Qed.

(* the component of a live slot *)
Lemma forest_comp t i : Forest t -> live t i ->
  exists r, Rep t None 0 (rid r) r /\ NoDup (ids r) /\ In i (ids r).
Proof.
  intros (rs & HF & HN & HL) Hi. apply HL in Hi. apply in_flat_map in Hi as (r & Hr & Hir).
  exists r. splits; auto.
  - rewrite Forall_forall in HF. auto.
  - eapply NoDup_flat_map_in; eauto.
Qed.

(* two live slots: same component, or components with different roots *)
Lemma forest_comp2 t a b : Forest t -> live t a -> live t b ->
  exists ra rb, Rep t None 0 (rid ra) ra /\ NoDup (ids ra) /\ In a (ids ra) /\
                Rep t None 0 (rid rb) rb /\ NoDup (ids rb) /\ In b (ids rb) /\
                (ra = rb \/ rid ra <> rid rb).
Proof.
  intros (rs & HF & HN & HL) Ha Hb. apply HL in Ha, Hb.
  apply in_flat_map in Ha as (ra & Hra & Hia). apply in_flat_map in Hb as (rb & Hrb & Hib).
  rewrite Forall_forall in HF.
  exists ra, rb. splits; auto; try (eapply NoDup_flat_map_in; eauto).
  destruct (in_dec Nat.eq_dec (rid rb) (ids ra)) as [Hin|Hnin].
  - left. eapply (flat_map_NoDup_inj ids rs ra rb (rid rb)); eauto. apply In_rid_ids.
  - right. intros E. apply Hnin. rewrite <- E. apply In_rid_ids.
Qed.

Lemma forest_nid t i n : Forest t -> nth_error t i = Some n -> ndeleted n = false -> nid n = i.
Proof.
  intros HF Hn Hd. assert (Hl : live t i) by (exists n; auto).
  destruct (forest_comp t i HF Hl) as (r & HR & _ & Hin). eapply Rep_ids_nid; eauto.
Qed.

(* a live parentless slot is the root of its component *)
Lemma forest_root t i n : Forest t -> nth_error t i = Some n -> ndeleted n = false -> nparent n = None ->
  exists r, Rep t None 0 i r /\ NoDup (ids r).
Proof.
  intros HF Hn Hd Hp. assert (Hl : live t i) by (exists n; auto).
  destruct (forest_comp t i HF Hl) as (r & HR & HN & Hin).
  pose proof (Rep_root_unique _ _ _ _ _ _ _ HR Hin Hn Hp) as E. subst i. eauto.
Qed.

(* a start node is either dead or the root of a represented subtree *)
Lemma forest_start_cases t i : Forest t -> dead t i \/ exists p d s, Rep t p d i s /\ NoDup (ids s).
Proof.
  intros HF. destruct (live_or_dead t i) as [Hl|Hd]; auto. right.
  destruct (forest_comp t i HF Hl) as (r & HR & HN & Hin).
  destruct (Rep_sub_nd _ _ _ _ _ _ HR HN Hin) as (p & d & s & H1 & H2 & _). eauto.
Qed.

(* arena scans only meet slots whose id field is their position *)
Lemma forest_scan_live t (q : node -> bool) i :
  Forest t -> In i (map (@nid L) (filter (fun n => negb (ndeleted n) && q n) t)) ->
  exists n, nth_error t i = Some n /\ ndeleted n = false /\ q n = true.
Proof.
  intros HF Hi. apply in_map_iff in Hi as (n & Hid & Hin). apply filter_In in Hin as [Hin Hb].
  apply andb_prop in Hb as [Hb1 Hb2]. apply Bool.negb_true_iff in Hb1.
  apply In_nth_error in Hin as (j & Hj). rewrite (forest_nid t j n HF Hj Hb1) in Hid. subst j. eauto.
Qed.

Lemma forest_leaves_live t i : Forest t -> In i (get_leaves t) -> exists n, get t i = Ok n.
Proof.
  intros HF Hi. unfold get_leaves in Hi. destruct (forest_scan_live t _ i HF Hi) as (n & Hn & Hd & _).
  exists n. apply get_Ok; auto.
Qed.

Lemma forest_get_root t x : Forest t -> get_root t = Ok x ->
  exists n, nth_error t x = Some n /\ ndeleted n = false /\ nparent n = None.
Proof.
  intros HF. unfold get_root.
  destruct (filter (fun n : node => negb (ndeleted n) && is_root n) t) as [|n l] eqn:E; [discriminate|].
  intros [= <-].
  assert (Hin : In (nid n) (map (@nid L) (filter (fun n : node => negb (ndeleted n) && is_root n) t)))
    by (rewrite E; simpl; auto).
  destruct (forest_scan_live t _ _ HF Hin) as (m & Hm & Hd & Hr). exists m. splits; auto.
  unfold is_root in Hr. destruct (nparent m); congruence.
Qed.

Lemma forest_get_root_rep t x : Forest t -> get_root t = Ok x -> exists r, Rep t None 0 x r /\ NoDup (ids r).
Proof.
  intros HF Hx. destruct (forest_get_root t x HF Hx) as (n & Hn & Hd & Hp). eapply forest_root; eauto.
Qed.

End ForestDefs.

(* ---- a genuine two-component arena --------------------------------------------------------------------- *)
(* Tree::new(); add(a); add(b); add_child(.., a, Some 5); add_child(.., b, None) *)
Definition ex_arena : @arena nat :=
  let '(t1, a) := add [] (new_node None None) in
  let '(t2, b) := add t1 (new_node None None) in
  match add_child t2 (new_node None None) a (Some 5) with
  | Ok (t3, _) => match add_child t3 (new_node None None) b None with Ok (t4, _) => t4 | _ => [] end
  | _ => []
  end.

Example ex_arena_value :
  ex_arena = [ mkNode 0 None None [2] None None [(2, 5)] 0 false;
               mkNode 1 None None [3] None None [] 0 false;
               mkNode 2 None (Some 0) [] (Some 5) None [] 1 false;
               mkNode 3 None (Some 1) [] None None [] 1 false ].
Proof. vm_compute. reflexivity. Qed.

Ltac ex_e1 :=
  let c := fresh "c" in let nc := fresh "nc" in let Hc := fresh "Hc" in let Hnc := fresh "Hnc" in
  intros c nc Hc Hnc; simpl in Hc;
  repeat (destruct Hc as [<-|Hc]; [simpl in Hnc; injection Hnc as <-; reflexivity|]); destruct Hc.
Ltac ex_e2 :=
  let c := fresh "c" in let Hc := fresh "Hc" in
  intros c Hc; simpl in *;
  do 4 (destruct c as [|c]; [simpl in *; solve [congruence | auto 10]|]); simpl in *; congruence.

Example ex_forest : ForestS ex_arena.
Proof.
  rewrite ex_arena_value. split.
  - exists [RT 0 [RT 2 []]; RT 1 [RT 3 []]]. splits.
    + repeat constructor; simpl.
      * eapply Rep_node; [reflexivity..| |ex_e1|ex_e2]; simpl.
        repeat constructor. eapply Rep_node; [reflexivity..| |ex_e1|ex_e2]; simpl. constructor.
      * eapply Rep_node; [reflexivity..| |ex_e1|ex_e2]; simpl.
        repeat constructor. eapply Rep_node; [reflexivity..| |ex_e1|ex_e2]; simpl. constructor.
    + vm_compute. repeat constructor; simpl; intuition congruence.
    + intros i (n & Hn & Hd). vm_compute.
      destruct i as [|[|[|[|i]]]]; auto. destruct i; discriminate.
  - intros i n Hn. destruct i as [|[|[|[|i]]]]; simpl in Hn; try (injection Hn as <-); simpl;
      try (repeat constructor; fail). destruct i; discriminate.
Qed.

(* it is not a tree: two live parentless slots *)
Example ex_not_WF : ~ WF ex_arena.
Proof.
  rewrite ex_arena_value. intros [Hno|(root & r & HR & HN & HL)].
  - apply (Hno 0). eexists. split; reflexivity.
  - assert (H0 : 0 = root).
    { eapply Rep_root_unique; [exact HR|apply HL; eexists; split; reflexivity|reflexivity|reflexivity]. }
    assert (H1 : 1 = root).
    { eapply Rep_root_unique; [exact HR|apply HL; eexists; split; reflexivity|reflexivity|reflexivity]. }
    congruence.
Qed.

(* what the queries answer across the two components *)
Example ex_lca_across : get_common_ancestor ex_arena 2 3 = Err RootNotFound.
Proof. vm_compute. reflexivity. Qed.
Example ex_root_first : get_root ex_arena = Ok 0.
Proof. vm_compute. reflexivity. Qed.

(* ================================================================================================ *)
(* 2. `add` and rescale                                                                               *)
(* ================================================================================================ *)
Section ForestAdd.
Context {L : Type}.
Notation arena := (@arena L).
Notation node := (@node L).
Implicit Types (t : arena).

(* Tree::add on ANY forest arena (empty or not): one more singleton component *)
Theorem add_forest t nm cm : Forest t -> Forest (fst (add t (new_node nm cm))).
Proof.
  intros (rs & HF & HN & HL). simpl.
  set (new := length t). set (x := set_nid (new_node nm cm) new).
  assert (Hold : forall j, In j (flat_map ids rs) -> j < new).
  { intros j Hj. apply in_flat_map in Hj as (r & Hr & Hj). rewrite Forall_forall in HF.
    eapply Rep0_ids_lt; [eapply Rep_Rep0; apply HF; eauto|auto]. }
  exists (rs ++ [RT new []]). splits.
  - apply Forall_app. split.
    + rewrite Forall_forall in *. intros r Hr. eapply Rep_frame; [apply HF; auto|].
      intros j Hj. apply nth_error_app_lt. apply Hold. apply in_flat_map; eauto.
    + constructor; [|constructor]. simpl.
      apply Rep_node with (n := x); simpl; auto; [apply nth_error_app_last|tauto].
  - rewrite flat_map_app. simpl. apply NoDup_app_iff. splits; auto.
    + repeat constructor. simpl; tauto.
    + intros j Hj [<-|[]]. apply Hold in Hj. lia.
  - intros i (n & Hn & Hd). rewrite flat_map_app. apply in_or_app.
    destruct (Nat.lt_ge_cases i new) as [Hlt|Hge].
    + left. apply HL. exists n. rewrite nth_error_app_lt in Hn; auto.
    + right. apply nth_error_Some_lt in Hn. rewrite app_length in Hn. simpl in Hn.
      simpl. left. unfold new in *. lia.
Qed.

Theorem add_forestS t nm cm : ForestS t -> ForestS (fst (add t (new_node nm cm))).
Proof.
  intros [HF HS]. split; [apply add_forest; auto|]. simpl. apply SortedEdges_app; auto. constructor.
Qed.

(* the id handed out is the old size, and the new slot is a live parentless leaf *)
Theorem add_new_root t nm cm :
  let '(t', id) := add t (new_node nm cm) in
  id = length t /\ exists n, get t' id = Ok n /\ nparent n = None /\ nchildren n = [] /\ nname n = nm.
Proof.
  simpl. split; auto. eexists. split; [apply get_app_last; reflexivity|]. simpl. auto.
Qed.

Theorem rescale_forest (O : LenOps L) t f : Forest t -> Forest (rescale O t f).
Proof.
  intros (rs & HF & HN & HL). exists rs. splits; auto.
  - rewrite Forall_forall in *. intros r Hr. apply Rep_rescale; auto.
  - intros i Hi. apply (proj1 (live_rescale _ _ _ _)) in Hi. auto.
Qed.

Theorem rescale_forestS (O : LenOps L) t f : ForestS t -> ForestS (rescale O t f).
Proof.
  intros [HF HS]. split; [apply rescale_forest; auto|].
  intros i n Hn. rewrite nth_error_rescale in Hn.
  destruct (nth_error t i) as [n0|] eqn:E; simpl in Hn; [|discriminate]. injection Hn as <-.
  unfold ksorted. simpl. rewrite (keys_map (fun e => lmul O e f)). eapply HS; eauto.
Qed.

End ForestAdd.

(* ================================================================================================ *)
(* 3. queries on forest arenas                                                                        *)
(* ================================================================================================ *)
Section ForestQueries.
Context {L : Type}.
Notation arena := (@arena L).
Notation node := (@node L).
Implicit Types (t : arena).

(* ---- traversals and listings, from any start id ------------------------------------------------------- *)
Theorem preorder_safeF t i : Forest t -> safe (preorder t i).
Proof.
  intros HF. destruct (forest_start_cases t i HF) as [Hd|(p & d & s & HR & HN)].
  - destruct (Traversals.traversal_dead_start t i Hd) as (-> & _). exact I.
  - rewrite (Traversals.preorder_refines _ _ _ _ _ HR HN). exact I.
Qed.

Theorem postorder_safeF t i : Forest t -> safe (postorder t i).
Proof.
  intros HF. destruct (forest_start_cases t i HF) as [Hd|(p & d & s & HR & HN)].
  - destruct (Traversals.traversal_dead_start t i Hd) as (_ & -> & _). exact I.
  - rewrite (Traversals.postorder_refines _ _ _ _ _ HR HN). exact I.
Qed.

Theorem inorder_safeF t i : Forest t -> safe (inorder t i).
Proof.
  intros HF. destruct (forest_start_cases t i HF) as [Hd|(p & d & s & HR & HN)].
  - destruct (Traversals.traversal_dead_start t i Hd) as (_ & _ & -> & _). exact I.
  - destruct (Nat.le_gt_cases (max_arity s) 2) as [Ha|Ha].
    + rewrite (Traversals.inorder_refines_binary _ _ _ _ _ HR HN Ha). exact I.
    + rewrite (Traversals.inorder_refuses _ _ _ _ _ HR HN Ha). exact I.
Qed.

Theorem levelorder_safeF t i : Forest t -> safe (levelorder t i).
Proof.
  intros HF. destruct (forest_start_cases t i HF) as [Hd|(p & d & s & HR & HN)].
  - destruct (Traversals.traversal_dead_start t i Hd) as (_ & _ & _ & ->). exact I.
  - rewrite (Traversals.levelorder_refines _ _ _ _ _ HR HN). exact I.
Qed.

Theorem get_subtree_safeF t i : Forest t -> safe (get_subtree t i).
Proof. apply preorder_safeF. Qed.

Theorem get_descendants_safeF t i : Forest t -> safe (get_descendants t i).
Proof.
  intros HF. destruct (forest_start_cases t i HF) as [Hd|(p & d & s & HR & HN)].
  - unfold get_descendants. rewrite (dead_get _ _ Hd). exact I.
  - rewrite (Traversals.get_descendants_refines _ _ _ _ _ HR HN). exact I.
Qed.

Theorem get_subtree_leaves_safeF t i : Forest t -> safe (get_subtree_leaves t i).
Proof.
  intros HF. unfold get_subtree_leaves. apply safe_bind; [apply get_subtree_safeF; auto|]. intros; exact I.
Qed.

(* ---- paths, common ancestor, distance ------------------------------------------------------------------ *)
Lemma forest_path t i : Forest t -> live t i ->
  exists r p, Rep t None 0 (rid r) r /\ NoDup (ids r) /\ In i (ids r) /\
              get_path_from_root t i = Ok p /\ rpath i r = Some p.
Proof.
  intros HF Hl. destruct (forest_comp t i HF Hl) as (r & HR & HN & Hin).
  destruct (path_refines t _ r i HR HN Hin) as (p & Hp & Hrp). exists r, p. splits; auto.
Qed.

Theorem path_safeF t i : Forest t -> safe (get_path_from_root t i).
Proof.
  intros HF. destruct (live_or_dead t i) as [Hl|Hd].
  - destruct (forest_path t i HF Hl) as (r & p & _ & _ & _ & -> & _). exact I.
  - rewrite (path_dead t i Hd). exact I.
Qed.

(* nodes of different components: the paths start at different roots, the answer is the error value
   RootNotFound (fix F12; before the fix `cursor - 1` underflowed) *)
Theorem lca_different_components t ra rb a b :
  Rep t None 0 (rid ra) ra -> NoDup (ids ra) -> Rep t None 0 (rid rb) rb -> NoDup (ids rb) ->
  In a (ids ra) -> In b (ids rb) -> rid ra <> rid rb ->
  get_common_ancestor t a b = Err RootNotFound.
Proof.
  intros HRa HNa HRb HNb Ha Hb Hne.
  destruct (path_refines t _ ra a HRa HNa Ha) as (pa & Hpa & Hra).
  destruct (path_refines t _ rb b HRb HNb Hb) as (pb & Hpb & Hrb).
  destruct (rpath_head _ _ _ Hra) as (qa & ->). destruct (rpath_head _ _ _ Hrb) as (qb & ->).
  unfold get_common_ancestor. destruct (Nat.eqb_spec a b) as [->|Hab].
  - rewrite Hpa in Hpb. injection Hpb as E _. contradiction.
  - rewrite Hpa, Hpb. cbn [bind first_diff]. apply Nat.eqb_neq in Hne. rewrite Hne. reflexivity.
Qed.

Theorem lca_safeF t a b : Forest t -> safe (get_common_ancestor t a b).
Proof.
  intros HF. destruct (Nat.eq_dec a b) as [->|Hne]; [rewrite lca_self; exact I|].
  destruct (live_or_dead t a) as [Hla|Hda]; [|rewrite (lca_dead_l t a b Hne Hda); exact I].
  destruct (live_or_dead t b) as [Hlb|Hdb].
  - destruct (forest_comp2 t a b HF Hla Hlb) as (ra & rb & HRa & HNa & Ha & HRb & HNb & Hb & [<-|Hdiff]).
    + destruct (lca_refines t _ ra a b HRa HNa Ha Hb) as (c & -> & _). exact I.
    + rewrite (lca_different_components t ra rb a b); auto. exact I.
  - destruct (forest_comp t a HF Hla) as (ra & HRa & HNa & Ha).
    rewrite (lca_dead_r t _ ra a b HRa HNa Ha Hne Hdb). exact I.
Qed.

(* the three possible answers on live nodes *)
Theorem lca_forest_cases t a b : Forest t -> live t a -> live t b ->
  (exists c, get_common_ancestor t a b = Ok c) \/ get_common_ancestor t a b = Err RootNotFound.
Proof.
  intros HF Hla Hlb. destruct (Nat.eq_dec a b) as [->|Hne]; [left; rewrite lca_self; eauto|].
  destruct (forest_comp2 t a b HF Hla Hlb) as (ra & rb & HRa & HNa & Ha & HRb & HNb & Hb & [<-|Hdiff]).
  - destruct (lca_refines t _ ra a b HRa HNa Ha Hb) as (c & -> & _). left. eauto.
  - right. apply (lca_different_components t ra rb a b); auto.
Qed.

Lemma in_skipn {A} (x : A) k l : In x (skipn k l) -> In x l.
Proof. intros H. rewrite <- (firstn_skipn k l). apply in_or_app. auto. Qed.

(* get_distance between live nodes always answers (across components: both root paths are summed) *)
Lemma dist_okF (O : LenOps L) t a b : Forest t -> live t a -> live t b -> exists r, get_distance O t a b = Ok r.
Proof.
  intros HF Hla Hlb. destruct (Nat.eq_dec a b) as [->|Hne]; [rewrite dist_self; eauto|].
  destruct (forest_path t a HF Hla) as (ra & pa & HRa & HNa & Ha & Hpa & Hrpa).
  destruct (forest_path t b HF Hlb) as (rb & pb & HRb & HNb & Hb & Hpb & Hrpb).
  unfold get_distance. apply Nat.eqb_neq in Hne. rewrite Hne, Hpa, Hpb. cbn [bind].
  rewrite dist_fold.
  - cbn [bind]. eauto.
  - intros x Hx. apply in_app_or in Hx as [Hx|Hx]; apply in_skipn in Hx.
    + eapply Rep_ids_live; [exact HRa|]. eapply rpath_incl; eauto.
    + eapply Rep_ids_live; [exact HRb|]. eapply rpath_incl; eauto.
Qed.

Theorem dist_safeF (O : LenOps L) t a b : Forest t -> safe (get_distance O t a b).
Proof.
  intros HF. destruct (Nat.eq_dec a b) as [->|Hne]; [rewrite dist_self; exact I|].
  destruct (live_or_dead t a) as [Hla|Hda]; [|rewrite (dist_dead_l O t a b Hne Hda); exact I].
  destruct (live_or_dead t b) as [Hlb|Hdb].
  - destruct (dist_okF O t a b HF Hla Hlb) as (r & ->). exact I.
  - destruct (forest_comp t a HF Hla) as (ra & HRa & HNa & Ha).
    rewrite (dist_dead_r O t _ ra a b HRa HNa Ha Hne Hdb). exact I.
Qed.

(* ---- balance indices, heights ------------------------------------------------------------------------ *)
Lemma colless_loop_safeF t ns : Forest t -> forall acc, safe (colless_loop t ns acc).
Proof.
  intros HF. induction ns as [|n ns IH]; intros acc; simpl; [exact I|].
  destruct (nchildren n) as [|a more]; auto.
  apply safe_bind; [apply get_subtree_leaves_safeF; auto|]. intros l _.
  apply safe_bind; [|intros; apply IH].
  destruct more as [|b ?]; [exact I|].
  apply safe_bind; [apply get_subtree_leaves_safeF; auto|]. intros; exact I.
Qed.

Theorem colless_safeF t : Forest t -> safe (colless t).
Proof.
  intros HF. unfold colless. apply safe_bind; [apply check_rooted_binary_safe|]. intros _ _.
  apply colless_loop_safeF; auto.
Qed.

Theorem sackin_safeF t : Forest t -> safe (sackin t).
Proof.
  intros HF. unfold sackin. apply safe_bind; [apply check_rooted_binary_safe|]. intros _ _.
  apply safe_bind; [|intros; exact I]. apply safe_mapM. intros i Hi.
  destruct (forest_leaves_live t i HF Hi) as (n & ->). exact I.
Qed.

Lemma dist_or_edges_safeF (O : LenOps L) t a b : Forest t -> live t a -> live t b ->
  safe (dist_or_edges O (get_distance O t a b)).
Proof.
  intros HF Ha Hb. destruct (dist_okF O t a b HF Ha Hb) as ([[h|] k] & ->); exact I.
Qed.

Theorem height_safeF (O : LenOps L) t : Forest t -> safe (height O t).
Proof.
  intros HF. unfold height. apply safe_bind; [apply is_rooted_safe|]. intros r _.
  destruct (negb r); [exact I|]. apply safe_bind; [apply get_root_safe|]. intros root Hroot.
  destruct (forest_get_root t root HF Hroot) as (nr & Hnr & Hdr & _).
  apply safe_bind; [|intros hs _; destruct (lmax_list O hs); exact I].
  apply safe_mapM. intros leaf Hleaf. apply dist_or_edges_safeF; auto.
  - exists nr; auto.
  - apply get_live. apply forest_leaves_live; auto.
Qed.

Theorem diameter_safeF (O : LenOps L) t : Forest t -> safe (diameter O t).
Proof.
  intros HF. unfold diameter.
  apply safe_bind; [|intros hs _; destruct (lmax_list O hs); exact I].
  apply safe_mapM. intros [a b] Hp. apply in_pairs in Hp as [Ha Hb]. simpl.
  apply dist_or_edges_safeF; auto; apply get_live; apply forest_leaves_live; auto.
Qed.

(* ---- leaf names ---------------------------------------------------------------------------------------- *)
Theorem get_leaf_names_safeF t : Forest t -> safe (get_leaf_names t).
Proof.
  intros HF. unfold get_leaf_names. apply safe_mapM. intros i Hi.
  destruct (forest_leaves_live t i HF Hi) as (n & ->). exact I.
Qed.

Theorem has_unique_tip_names_safeF t : Forest t -> safe (has_unique_tip_names t).
Proof.
  intros HF. unfold has_unique_tip_names. apply safe_bind; [apply get_leaf_names_safeF; auto|].
  intros ns _. destruct (existsb _ ns); exact I.
Qed.

(* ---- writers, layout ------------------------------------------------------------------------------------- *)
Theorem to_formatted_newick_safeF t f : Forest t -> safe (to_formatted_newick t f).
Proof.
  intros HF. unfold to_formatted_newick. apply safe_bind; [apply get_root_safe|]. intros root Hroot.
  destruct (forest_get_root_rep t root HF Hroot) as (r & HR & HN).
  destruct (to_newick_impl_ok t f r None 0 root (fuel_of t) HR) as (s & ->); [|exact I].
  pose proof (Traversals.rheight_le_length _ _ _ _ _ HR HN). unfold fuel_of. lia.
Qed.

Theorem to_newick_safeF t : Forest t -> safe (to_newick t).
Proof. apply to_formatted_newick_safeF. Qed.

Theorem to_nexus_safeF t : Forest t -> safe (to_nexus t).
Proof. intros HF. unfold to_nexus. apply safe_bind; [apply to_newick_safeF; auto|]. intros; exact I. Qed.

Theorem radial_layout_safeF (O : LenOps L) t : Forest t -> safe (radial_layout O t).
Proof.
  intros HF. unfold radial_layout. apply safe_bind; [apply get_root_safe|]. intros root _.
  apply safe_bind; [apply postorder_safeF; auto|]. intros post _.
  apply safe_bind.
  { apply safe_foldM. intros l v _. apply safe_bind; [apply get_safe|]. intros n _. destruct (is_tip n); exact I. }
  intros lcount _. apply safe_bind; [apply preorder_safeF; auto|]. intros pre _.
  apply safe_bind; [|intros [[w th] segs] _; exact I].
  apply safe_foldM. intros [[w th] segs] v _.
  apply safe_bind; [apply get_safe|]. intros n _.
  apply safe_bind.
  { destruct (Nat.eqb v root); [exact I|]. destruct (npedge n); [|exact I]. destruct (nparent n); exact I. }
  intros segs' _. destruct (fold_left _ _ _) as [[w' th'] nn]. exact I.
Qed.

End ForestQueries.

(* ================================================================================================ *)
(* 3b. distance_matrix                                                                                *)
(*   The [Panic 16] site (a leaf of a child's cache missing from the merged cache) is unreachable on  *)
(*   every arena: the merged cache is built from exactly those child caches.  [Panic 15] needs the    *)
(*   leaves to be live slots, the level-order walk needs its start to be the root of a subtree.       *)
(* ================================================================================================ *)
Section ForestDM.
Context {L : Type}.
Variable O : LenOps L.
Notation arena := (@arena L).
Notation node := (@node L).
Implicit Types (t : arena).

Lemma edge_insert_keeps (es : list (nat * L)) c v k :
  edge_get es k <> None \/ k = c -> edge_get (edge_insert es c v) k <> None.
Proof.
  intros H. destruct (Nat.eq_dec k c) as [->|Hne].
  - rewrite edge_get_insert_eq. discriminate.
  - rewrite edge_get_insert_neq by auto. destruct H; auto; contradiction.
Qed.

Lemma ins_fold_keeps (h : nat * L -> L) (cc : list (nat * L)) : forall nc k,
  edge_get nc k <> None \/ In k (map fst cc) ->
  edge_get (fold_left (fun acc (kv : nat * L) => edge_insert acc (fst kv) (h kv)) cc nc) k <> None.
Proof.
  induction cc as [|[k0 v0] cc IH]; intros nc k H; simpl.
  - destruct H as [H|[]]; auto.
  - apply IH. simpl in H. destruct H as [H|[H|H]]; auto.
    + left. apply edge_insert_keeps. auto.
    + left. apply edge_insert_keeps. auto.
Qed.

Definition nc_post (caches : list (nat * @cache L)) (l : list nat) (nc nc' : @cache L) : Prop :=
  (forall k, edge_get nc k <> None -> edge_get nc' k <> None) /\
  (forall ch, In ch l -> exists cc, caches_get caches ch = Some cc /\
                                    forall k, In k (map fst cc) -> edge_get nc' k <> None).

Lemma nc_fold_sp t (caches : list (nat * @cache L)) l : forall nc : @cache L,
  sp (nc_post caches l nc)
     (foldM (fun (nc : @cache L) ch =>
               c <- get t ch ;;
               let clen := match npedge c with Some e => e | None => l1 O end in
               match caches_get caches ch with
               | None => Err MissingBranchLengths
               | Some cc => Ok (fold_left (fun acc (kv : nat * L) => edge_insert acc (fst kv) (ladd O clen (snd kv))) cc nc)
               end) l nc).
Proof.
  induction l as [|ch l IH]; intros nc; simpl.
  - split; auto. intros ch [].
  - pose proof (get_safe t ch) as Hs. destruct (get t ch) as [c| | |]; simpl in Hs; try contradiction; simpl; auto.
    destruct (caches_get caches ch) as [cc|] eqn:Hcc; simpl; auto.
    match goal with |- sp _ (foldM _ l ?x) => set (nc1 := x) end.
    eapply sp_mono; [apply (IH nc1)|]. intros nc' [H1 H2]. split.
    + intros k Hk. apply H1. unfold nc1.
      apply (ins_fold_keeps (fun kv => ladd O match npedge c with Some e => e | None => l1 O end (snd kv))). auto.
    + intros ch' [<-|Hin]; auto. exists cc. split; auto. intros k Hk. apply H1. unfold nc1.
      apply (ins_fold_keeps (fun kv => ladd O match npedge c with Some e => e | None => l1 O end (snd kv))). auto.
Qed.

Theorem distance_matrix_safeF t : Forest t -> safe (distance_matrix O t).
Proof.
  intros HF. unfold distance_matrix. cbv zeta.
  destruct (Nat.eqb (n_leaves t) 0); [exact I|].
  apply safe_bind.
  { apply safe_mapM. intros i Hi.
    assert (Hi' : In i (get_leaves t)) by (eapply Permutation_in; [apply stable_sort_perm|exact Hi]).
    destruct (forest_leaves_live t i HF Hi') as (n & ->). destruct (nname n); exact I. }
  intros names _. apply safe_bind; [apply get_root_safe|]. intros root _.
  apply safe_bind; [apply levelorder_safeF; auto|]. intros lo _.
  apply safe_bind; [|intros [vec cs] _; exact I].
  apply safe_foldM. intros [vec caches] cur _.
  apply safe_bind; [apply get_safe|]. intros p _.
  eapply safe_bind_sp; [apply nc_fold_sp|]. intros nc [_ Hnc].
  apply safe_bind; [|intros; exact I].
  apply safe_foldM. intros vec1 pr Hpr.
  destruct pr as [x y]. apply in_pairs in Hpr as [Hx Hy]. cbn [fst snd].
  apply safe_bind; [apply get_safe|]. intros _ _. apply safe_bind; [apply get_safe|]. intros _ _.
  destruct (caches_get caches x) as [c1|] eqn:E1; [|exact I].
  destruct (caches_get caches y) as [c2|] eqn:E2; [|exact I].
  apply safe_foldM. intros vec2 [a b] Hab. apply in_prod_iff in Hab as [Ha Hb]. cbn [fst snd].
  destruct (Hnc x Hx) as (cx & Ecx & Hkx). destruct (Hnc y Hy) as (cy & Ecy & Hky).
  assert (cx = c1) by congruence. assert (cy = c2) by congruence. subst cx cy.
  specialize (Hkx a Ha). specialize (Hky b Hb).
  destruct (edge_get nc a); [|congruence]. destruct (edge_get nc b); [|congruence].
  destruct (index_of a _); [|exact I]. destruct (index_of b _); exact I.
Qed.

End ForestDM.

(* ================================================================================================ *)
(* 3c. leaf index, bipartitions, comparisons                                                          *)
(* ================================================================================================ *)
Section ForestSplits.
Context {L : Type}.
Variable O : LenOps L.
Notation arena := (@arena L).
Notation node := (@node L).
Notation tree := (@tree L).
Implicit Types (t : arena).

Lemma mapM_ok_Forall2 {A B} (g : A -> outcome B) l :
  (forall x, In x l -> exists y, g x = Ok y) ->
  exists ys, mapM g l = Ok ys /\ Forall2 (fun x y => g x = Ok y) l ys.
Proof.
  induction l as [|x l IH]; intros H; simpl; [exists []; auto|].
  destruct (H x) as (y & Hy); [simpl; auto|]. destruct IH as (ys & Hys & HF); [intros; apply H; simpl; auto|].
  exists (y :: ys). rewrite Hy, Hys. simpl. auto.
Qed.

Lemma forest_leaf_names t : Forest t ->
  exists names, get_leaf_names t = Ok names /\ length names = n_leaves t /\
    (forall i n, In i (get_leaves t) -> get t i = Ok n -> In (nname n) names).
Proof.
  intros HF. unfold get_leaf_names.
  match goal with |- exists names, mapM ?g _ = _ /\ _ => destruct (mapM_ok_Forall2 g (get_leaves t)) as (ys & Hys & HF2) end.
  { intros i Hi. destruct (forest_leaves_live t i HF Hi) as (n & ->). eauto. }
  exists ys. splits; auto.
  - rewrite n_leaves_length. symmetry. eapply Forall2_length; eauto.
  - intros i n Hi Hg. destruct (Forall2_In_l _ _ _ _ HF2 Hi) as (y & Hy & E). cbv beta in E. rewrite Hg in E.
    injection E as <-. exact Hy.
Qed.

(* a live tip is listed by get_leaves *)
Lemma forest_tip_in_leaves t i n : Forest t -> get t i = Ok n -> is_tip n = true -> In i (get_leaves t).
Proof.
  intros HF Hg Htip. apply get_Ok in Hg as [Hn Hd]. unfold get_leaves.
  rewrite <- (forest_nid t i n HF Hn Hd) at 1. apply in_map. apply filter_In. split.
  - eapply nth_error_In; eauto.
  - rewrite Hd, Htip. reflexivity.
Qed.

(* what the queries need from a cached leaf index *)
Definition LIok t (li : list str) : Prop :=
  (forall i n nm, get t i = Ok n -> is_tip n = true -> nname n = Some nm -> In nm li) /\
  length li <= n_leaves t.

Lemma somes_length {A} (l : list (option A)) :
  length (flat_map (fun o => match o with Some x => [x] | None => [] end) l) <= length l.
Proof. induction l as [|[x|] l IH]; simpl; lia. Qed.

Lemma init_fresh_spF t pc : Forest t ->
  sp (fun tc => exists li, LIok t li /\ t <> [] /\ tc = mkTree t (Some li) pc) (init_leaf_index (mkTree t None pc)).
Proof.
  intros HF. destruct (match t with [] => true | _ => false end) eqn:Ee.
  { destruct t; [exact I|discriminate]. }
  assert (Hne : t <> []) by (intros ->; discriminate).
  rewrite Splits.init_leaf_index_unfold by exact Hne. cbn [leaf_index nodes partitions].
  destruct (forest_leaf_names t HF) as (names & Hnames & Hlen & Hcov). rewrite Hnames. cbn [bind].
  destruct (negb _); [exact I|].
  unfold has_unique_tip_names. rewrite Hnames. cbn [bind].
  destruct (existsb _ names); [exact I|]. cbn [bind].
  destruct (negb _); [exact I|]. simpl.
  eexists. split; [|split; [exact Hne|reflexivity]]. split.
  - intros i n nm Hg Htip Hnm. eapply Permutation_in; [apply Permutation_sym, stable_sort_perm|].
    apply in_flat_map. exists (Some nm). split; [|simpl; auto]. rewrite <- Hnm. eapply Hcov; eauto.
    eapply forest_tip_in_leaves; eauto.
  - rewrite (Permutation_length (stable_sort_perm _ _)). rewrite <- Hlen. apply somes_length.
Qed.

Theorem init_leaf_index_safeF t : Forest t -> safe (init_leaf_index (tree_of t)).
Proof. intros HF. eapply sp_safe. apply (init_fresh_spF t None HF). Qed.

Lemma get_partition_spF t li pc idx : Forest t -> t <> [] -> LIok t li ->
  sp (fun x => snd x = mkTree t (Some li) pc) (get_partition (mkTree t (Some li) pc) idx).
Proof.
  intros HF Hne [Hin Hlen]. unfold get_partition. rewrite init_cached by auto. cbn [bind nodes leaf_index].
  eapply sp_bind with (Q := fun sl => forall i, In i sl -> exists n, get t i = Ok n /\ is_tip n = true).
  - unfold get_subtree_leaves. eapply sp_bind with (Q := fun _ => True); [apply safe_sp, get_subtree_safeF; auto|].
    intros l _. simpl. intros i Hi. apply filter_In in Hi as [_ Hi].
    destruct (get t i) as [n| | |]; try discriminate. eauto.
  - intros sl Hsl.
    eapply sp_bind with (Q := Forall (fun ks => forall k, In k ks -> k < length li)).
    + apply sp_mapM. intros i Hi. destruct (Hsl i Hi) as (n & Hg & Htip). rewrite Hg.
      destruct (nname n) as [nm|] eqn:En; [|simpl; intros k []].
      destruct (Splits.find_str_In nm li) as (k & -> & Hk); [eapply Hin; eauto|].
      simpl. intros k' [<-|[]]. auto.
    + intros ks Hks.
      destruct (existsb _ (concat ks)) eqn:Eex; [|reflexivity]. exfalso.
      apply existsb_exists in Eex as (k & Hk & Hle). apply Nat.leb_le in Hle.
      apply in_concat in Hk as (l & Hl & Hkl). rewrite Forall_forall in Hks. specialize (Hks l Hl k Hkl). lia.
Qed.

Theorem get_partition_safeF t idx : Forest t -> safe (get_partition (tree_of t) idx).
Proof.
  intros HF. rewrite get_partition_via_init. eapply safe_bind_sp; [apply (init_fresh_spF t None HF)|].
  intros tc (li & HLI & Hne & ->). eapply sp_safe, get_partition_spF; auto.
Qed.

Lemma init_partitions_spF t li : Forest t -> t <> [] -> LIok t li ->
  sp (fun tc => exists m, tc = mkTree t (Some li) (Some m)) (init_partitions O (mkTree t (Some li) None)).
Proof.
  intros HF Hne HLI. unfold init_partitions. rewrite init_cached by auto. cbn [bind partitions nodes].
  eapply sp_bind with (Q := fun st : pmap * tree => snd st = mkTree t (Some li) None).
  - apply sp_foldM; [|reflexivity]. intros [m tc] n Hst _. simpl in Hst. subst tc.
    eapply sp_bind; [apply get_partition_spF; auto|]. intros [part tc'] E. simpl in E. subst tc'.
    destruct (_ || _); simpl; auto.
  - intros [m t2] E. simpl in E. subst t2. simpl. eauto.
Qed.

(* the cache state after get_partitions: index and partitions filled *)
Definition FC2 t (tc : tree) : Prop := t <> [] /\ exists li m, LIok t li /\ tc = mkTree t (Some li) (Some m).

Theorem get_partitions_spF t : Forest t -> sp (fun x => FC2 t (snd x)) (get_partitions O (tree_of t)).
Proof.
  intros HF. unfold get_partitions, tree_of. eapply sp_bind; [apply init_fresh_spF; auto|].
  intros tc (li & HLI & Hne & ->). eapply sp_bind; [apply init_partitions_spF; auto|].
  intros t2 (m & ->). simpl. split; eauto.
Qed.

Theorem get_partitions_safeF t : Forest t -> safe (get_partitions O (tree_of t)).
Proof. intros. eapply sp_safe, get_partitions_spF; auto. Qed.

Theorem get_partitions_with_lengths_spF t :
  Forest t -> sp (fun x => FC2 t (snd x)) (get_partitions_with_lengths O (tree_of t)).
Proof.
  intros HF. unfold get_partitions_with_lengths, tree_of. eapply sp_bind; [apply init_fresh_spF; auto|].
  intros tc (li & HLI & Hne & ->). eapply sp_bind; [apply init_partitions_spF; auto|].
  intros t2 (m & ->). cbn [partitions].
  eapply sp_bind with (Q := fun _ => True); [|intros; simpl; split; eauto].
  apply safe_sp, safe_mapM. intros e _. destruct (snd (snd e)); exact I.
Qed.

Theorem get_partitions_with_lengths_safeF t : Forest t -> safe (get_partitions_with_lengths O (tree_of t)).
Proof. intros. eapply sp_safe, get_partitions_with_lengths_spF; auto. Qed.

Theorem partition_to_leaves_safeF t b : Forest t -> safe (partition_to_leaves (tree_of t) b).
Proof.
  intros HF. unfold partition_to_leaves, tree_of. eapply safe_bind_sp; [apply init_fresh_spF; auto|].
  intros tc (li & _ & _ & ->). cbn [leaf_index]. apply safe_bind; [apply leaves_of_bits_safe|]. intros; exact I.
Qed.

Lemma root_parts_spF t tc : Forest t -> FC2 t tc -> sp (fun x => snd x = tc) (root_parts tc).
Proof.
  intros HF (Hne & li & m & HLI & ->). unfold root_parts. cbn [nodes].
  eapply sp_bind with (Q := fun _ => True); [apply safe_sp, get_root_safe|]. intros r _.
  eapply sp_bind with (Q := fun _ => True); [apply safe_sp, get_safe|]. intros rn _.
  apply (sp_foldM (fun st : list bits * tree => snd st = mkTree t (Some li) (Some m))); [|reflexivity].
  intros [ps tc] c Hst _. simpl in Hst. subst tc. cbn [fst snd].
  eapply sp_bind; [apply get_partition_spF; auto|]. intros [p t'] E. simpl in E. subst t'. reflexivity.
Qed.

(* ---- comparisons between two forest arenas ------------------------------------------------------------- *)
Section Pairs.
Variables (t1 t2 : arena).
Hypothesis F1 : Forest t1.
Hypothesis F2 : Forest t2.

Theorem robinson_foulds_spF :
  sp (fun x => FC2 t1 (snd (fst x)) /\ FC2 t2 (snd x)) (robinson_foulds O (tree_of t1) (tree_of t2)).
Proof.
  unfold robinson_foulds.
  eapply sp_bind; [apply (get_partitions_spF t1 F1)|]. intros [ps s1] Hs1. cbn [snd] in Hs1.
  eapply sp_bind; [apply (get_partitions_spF t2 F2)|]. intros [po o1] Ho1. cbn [snd] in Ho1.
  destruct (negb (ostrs_eqb _ _)); [exact I|].
  eapply sp_bind; [apply (root_parts_spF t1 _ F1 Hs1)|]. intros [rs s2] E1. cbn [snd] in E1. subst s2.
  eapply sp_bind; [apply (root_parts_spF t2 _ F2 Ho1)|]. intros [ro o2] E2. cbn [snd] in E2. subst o2.
  eapply sp_bind; [apply safe_sp, is_rooted_safe|]. intros sr _.
  eapply sp_bind with (Q := fun _ => True); [destruct sr; [apply safe_sp, is_rooted_safe|exact I]|].
  intros or _. destruct (sr && or && _ && _); simpl; auto.
Qed.

Theorem robinson_foulds_safeF : safe (robinson_foulds O (tree_of t1) (tree_of t2)).
Proof. eapply sp_safe, robinson_foulds_spF. Qed.

Theorem robinson_foulds_norm_safeF : safe (robinson_foulds_norm O (tree_of t1) (tree_of t2)).
Proof.
  unfold robinson_foulds_norm. eapply safe_bind_sp; [apply robinson_foulds_spF|].
  intros [[rf s1] o1] [(Hn1 & l1 & m1 & _ & E1) (Hn2 & l2 & m2 & _ & E2)]. cbn [fst snd] in *. subst s1 o1.
  rewrite !get_partitions_cached by auto. exact I.
Qed.

Theorem weighted_rf_safeF sq : safe (weighted_rf O sq (tree_of t1) (tree_of t2)).
Proof.
  unfold weighted_rf.
  eapply safe_bind_sp; [apply (get_partitions_with_lengths_spF t1 F1)|]. intros [ps s1] _.
  eapply safe_bind_sp; [apply (get_partitions_with_lengths_spF t2 F2)|]. intros [po o1] _. exact I.
Qed.

Theorem compare_topologies_safeF : safe (compare_topologies O (tree_of t1) (tree_of t2)).
Proof.
  unfold compare_topologies.
  eapply safe_bind_sp; [apply (get_partitions_with_lengths_spF t1 F1)|]. intros [ps s1] Hs1. cbn [snd] in Hs1.
  eapply safe_bind_sp; [apply (get_partitions_with_lengths_spF t2 F2)|]. intros [po o1] Ho1. cbn [snd] in Ho1.
  cbv zeta.
  eapply safe_bind_sp; [apply (root_parts_spF t1 _ F1 Hs1)|]. intros [rs s2] E1. cbn [snd] in E1. subst s2.
  eapply safe_bind_sp; [apply (root_parts_spF t2 _ F2 Ho1)|]. intros [ro o2] E2. cbn [snd] in E2. subst o2.
  apply safe_bind; [apply is_rooted_safe|]. intros sr _.
  apply safe_bind; [destruct sr; [apply is_rooted_safe|exact I]|]. intros; exact I.
Qed.

End Pairs.

(* terminal_branches: the [Panic 13] / [Panic 14] sites *)
Lemma terminal_branches_safeF t : Forest t -> safe (terminal_branches t).
Proof.
  intros HF. unfold terminal_branches, has_unique_tip_names.
  destruct (forest_leaf_names t HF) as (names & Hnames & Hlen & Hcov). rewrite Hnames. cbn [bind].
  destruct (existsb _ names) eqn:Eex; [exact I|]. cbn [bind].
  destruct (negb _); [exact I|].
  apply safe_mapM. intros i Hi. destruct (forest_leaves_live t i HF Hi) as (n & Hg). rewrite Hg.
  destruct (nname n) eqn:En; [exact I|]. exfalso.
  assert (Hex : existsb (fun o : option str => match o with None => true | Some _ => false end) names = true).
  { apply existsb_exists. exists None. split; auto. rewrite <- En. eapply Hcov; eauto. }
  congruence.
Qed.

Theorem compare_branch_lengths_safeF t1 t2 tips :
  Forest t1 -> Forest t2 -> safe (compare_branch_lengths O (tree_of t1) (tree_of t2) tips).
Proof.
  intros F1 F2. unfold compare_branch_lengths.
  eapply safe_bind_sp; [apply (get_partitions_with_lengths_spF t1 F1)|]. intros [ps s1] Hs1. cbn [snd] in Hs1.
  eapply safe_bind_sp; [apply (get_partitions_with_lengths_spF t2 F2)|]. intros [po o1] Ho1. cbn [snd] in Ho1.
  cbv zeta. destruct (negb tips); [exact I|].
  destruct Hs1 as (_ & l1' & m1 & _ & ->). destruct Ho1 as (_ & l2' & m2 & _ & ->). cbn [nodes].
  apply safe_bind; [apply terminal_branches_safeF; auto|]. intros st _.
  apply safe_bind; [apply terminal_branches_safeF; auto|]. intros ot _.
  apply safe_bind.
  { apply safe_foldM. intros [[sb ob] cb] e _. destruct (snd (snd e)); [|exact I].
    destruct (assoc_str ot (fst e)) as [[d2 [lo|]]|]; exact I. }
  intros r1 _. apply safe_bind; [|intros; exact I].
  apply safe_foldM. intros [[sb ob] cb] e _. destruct (assoc_str st (fst e)); [exact I|].
  destruct (snd (snd e)); exact I.
Qed.

End ForestSplits.

(* ================================================================================================ *)
(* 4. editing operations on forest arenas                                                             *)
(* ================================================================================================ *)
Section ForestEdit.
Context {L : Type}.
Notation arena := (@arena L).
Notation node := (@node L).
Implicit Types (t : arena).

Definition FParts t (rs : list rtree) : Prop :=
  Forall (fun r => Rep t None 0 (rid r) r) rs /\ NoDup (flat_map ids rs) /\
  (forall i, live t i -> In i (flat_map ids rs)).

Lemma FParts_Forest t rs : FParts t rs -> Forest t.
Proof. intros H. exists rs. exact H. Qed.

(* the component of a live slot, and all the other components *)
Lemma forest_pick t i : Forest t -> live t i -> exists r others, FParts t (r :: others) /\ In i (ids r).
Proof.
  intros (rs & HF & HN & HL) Hi. pose proof (HL _ Hi) as Hin. apply in_flat_map in Hin as (r & Hr & Hir).
  apply in_split in Hr as (l1 & l2 & ->). exists r, (l1 ++ l2). split; auto.
  assert (HP : Permutation (flat_map ids (l1 ++ r :: l2)) (flat_map ids (r :: l1 ++ l2))).
  { rewrite !flat_map_app. simpl. rewrite flat_map_app. apply Permutation_app_swap_app. }
  unfold FParts. splits.
  - rewrite Forall_forall in *. intros x Hx. apply HF. eapply Permutation_in; [apply Permutation_middle|exact Hx].
  - eapply Permutation_NoDup; eauto.
  - intros j Hj. eapply Permutation_in; [exact HP|]. auto.
Qed.

Lemma forest_rebuild t t' others news :
  Forall (fun r => Rep t None 0 (rid r) r) others ->
  (forall j, In j (flat_map ids others) -> nth_error t' j = nth_error t j) ->
  NoDup (flat_map ids others) ->
  Forall (fun r => Rep t' None 0 (rid r) r) news ->
  NoDup (flat_map ids news) ->
  (forall j, In j (flat_map ids news) -> ~ In j (flat_map ids others)) ->
  (forall j, live t' j -> In j (flat_map ids news) \/ In j (flat_map ids others)) ->
  Forest t'.
Proof.
  intros HFo Hfr HNo HFn HNn Hdisj Hlive. exists (news ++ others). splits.
  - apply Forall_app. split; auto. rewrite Forall_forall in *. intros r Hr.
    eapply Rep_frame; [apply HFo; auto|]. intros j Hj. apply Hfr. apply in_flat_map; eauto.
  - rewrite flat_map_app. apply NoDup_app_iff. splits; auto.
  - intros j Hj. rewrite flat_map_app. apply in_or_app. auto.
Qed.

(* Forest-level packaging of the surgery lemma (cf. RepLib.WF_edit): editing the subtree rooted at a live
   node P; [rest] = the rest of P's component and all the other components *)
Lemma Forest_edit t P :
  Forest t -> live t P ->
  exists (all : list nat) sx px dx rest,
    NoDup all /\ (forall i, live t i -> In i all) /\
    Rep t px dx P sx /\ Permutation all (ids sx ++ rest) /\
    NoDup (ids sx) /\ NoDup rest /\ (forall j, In j (ids sx) -> ~ In j rest) /\
    (forall j, In j rest -> live t j) /\
    forall (t' : arena) sx',
      (forall j, In j rest -> nth_error t' j = nth_error t j) ->
      Rep t' px dx P sx' ->
      (forall n n', nth_error t P = Some n -> nth_error t' P = Some n' -> npedge n' = npedge n) ->
      NoDup (ids sx') -> (forall j, In j (ids sx') -> ~ In j rest) ->
      (forall j, live t' j -> In j (ids sx') \/ In j rest) ->
      Forest t'.
Proof.
  intros HF HP. destruct (forest_pick t P HF HP) as (r & others & (HFa & HNa & HLa) & HPr).
  apply Forall_cons_iff in HFa as [HR HFo]. simpl in HNa, HLa.
  apply NoDup_app_iff in HNa as (Hnd & HNo & Hdro).
  destruct (Rep_surgery t P r None 0 (rid r) HR HPr Hnd) as (sx & px & dx & restc & HRx & Hperm & _ & _ & Hk).
  destruct (perm_NoDup_split _ _ _ Hperm Hnd) as (Hnd1 & Hnd2 & Hdisj).
  assert (Hrc : forall j, In j restc -> In j (ids r)).
  { intros j Hj. eapply Permutation_in; [apply Permutation_sym; exact Hperm|]. apply in_or_app; auto. }
  assert (Hsxr : forall j, In j (ids sx) -> In j (ids r)).
  { intros j Hj. eapply Permutation_in; [apply Permutation_sym; exact Hperm|]. apply in_or_app; auto. }
  exists (ids r ++ flat_map ids others), sx, px, dx, (restc ++ flat_map ids others). splits; auto.
  - apply NoDup_app_iff. splits; auto.
  - rewrite app_assoc. apply Permutation_app_tail. exact Hperm.
  - apply NoDup_app_iff. splits; auto.
  - intros j Hj Hj'. apply in_app_or in Hj' as [Hj'|Hj']; [eapply Hdisj; eauto|]. apply (Hdro j); auto.
  - intros j Hj. apply in_app_or in Hj as [Hj|Hj].
    + eapply Rep_ids_live; [exact HR|]. auto.
    + apply in_flat_map in Hj as (o & Ho & Hj). rewrite Forall_forall in HFo. eapply Rep_ids_live; [apply HFo; eauto|auto].
  - intros t' sx' Hfr HR' Hpe Hnd' Hdisj' Hlive'.
    destruct (Hk t' sx') as (r' & HRr' & Hperm'); auto.
    { intros j Hj. apply Hfr. apply in_or_app; auto. }
    assert (Hr'in : forall j, In j (ids r') -> In j (ids sx') \/ In j restc).
    { intros j Hj. eapply Permutation_in in Hj; [|exact Hperm']. apply in_app_or in Hj. auto. }
    apply (forest_rebuild t t' others [r']); auto.
    + intros j Hj. apply Hfr. apply in_or_app; auto.
    + constructor; [|constructor]. rewrite (Rep_rid _ _ _ _ _ HRr'). exact HRr'.
    + simpl. rewrite app_nil_r. eapply Permutation_NoDup; [apply Permutation_sym; exact Hperm'|].
      apply NoDup_app_iff. splits; auto. intros j Hj Hj'. eapply Hdisj'; eauto. apply in_or_app; auto.
    + simpl. rewrite app_nil_r. intros j Hj Hjo. destruct (Hr'in _ Hj) as [H|H].
      * eapply Hdisj'; eauto. apply in_or_app; auto.
      * apply (Hdro j); auto.
    + intros j Hj. simpl. rewrite app_nil_r. destruct (Hlive' _ Hj) as [H|H].
      * left. eapply Permutation_in; [apply Permutation_sym; exact Hperm'|]. apply in_or_app; auto.
      * apply in_app_or in H as [H|H]; auto.
        left. eapply Permutation_in; [apply Permutation_sym; exact Hperm'|]. apply in_or_app; auto.
Qed.

Lemma Forest_node_facts t P nP :
  Forest t -> nth_error t P = Some nP -> ndeleted nP = false ->
  NoDup (nchildren nP) /\ (forall c, In c (nchildren nP) -> live t c /\ c <> P) /\
  (forall c, edge_get (nedges nP) c <> None -> In c (nchildren nP)) /\ nid nP = P.
Proof.
  intros Hwf HnP HdP. assert (HlP : live t P) by (exists nP; auto).
  destruct (Forest_edit t P Hwf HlP) as (all & sP & pp & dp & rest & _ & _ & HRP & _ & HndP & _).
  destruct (Rep_inv _ _ _ _ _ HRP) as (nP0 & cs & -> & HnP0 & _ & FidP & _ & _ & HF & He1 & He2).
  assert (nP0 = nP) by congruence. subst nP0.
  rewrite ids_RT in HndP. apply NoDup_cons_iff in HndP as [HPn Hndcs].
  pose proof (Forall2_Rep_rid _ _ _ _ _ HF) as Hch.
  splits; auto.
  - rewrite Hch. apply NoDup_map_rid. auto.
  - intros c Hc. assert (Hcf : In c (flat_map ids cs)) by (apply In_map_rid_flat; congruence).
    split; [|intros ->; auto].
    eapply (Rep_ids_live _ _ _ _ _ _ HRP). apply in_ids_RT. auto.
Qed.

Lemma Forest_parent_of t c n pid :
  Forest t -> get t c = Ok n -> nparent n = Some pid ->
  exists nP, get t pid = Ok nP /\ In c (nchildren nP).
Proof.
  intros Hwf Hg Hp. apply get_Ok in Hg as [Hn Hd]. assert (Hl : live t c) by (exists n; auto).
  destruct (forest_comp t c Hwf Hl) as (r & HR & Hnd & Hcr).
  assert (Hne : c <> rid r).
  { intros ->. destruct (Rep_inv _ _ _ _ _ HR) as (n0 & ? & _ & Hn0 & _ & _ & Hp0 & _). congruence. }
  destruct (Rep_parent _ _ _ _ _ _ HR Hcr Hne) as (P & nP & nx & _ & HnP & HdP & Hnx & Hpx & Hin).
  assert (nx = n) by congruence. subst nx. assert (P = pid) by congruence. subst P.
  exists nP. split; auto. apply get_Ok; auto.
Qed.

End ForestEdit.

(* ---- the proofs below follow WFOps.v / NoPanic.v line by line, with [Forest_edit] in the place of [WF_edit] ---- *)
Section ForestMutators.
Context {L : Type}.
Notation arena := (@arena L).
Notation node := (@node L).
Implicit Types (t : arena).

Local Arguments reset_depth_f : simpl never.

Ltac slot :=
  repeat first [ rewrite nth_error_replace_nth_neq by (auto; congruence)
               | rewrite nth_error_replace_nth_eq by (rewrite ?replace_nth_length; auto; lia) ].

(* ---- add_child ------------------------------------------------------------------------------------------ *)
Lemma add_leaf_forest (t : arena) parent p e nm cm :
  ForestS t -> get t parent = Ok p ->
  ForestS (replace_nth parent (node_add_child p (length t) e)
         (t ++ [leaf_node (length t) nm cm parent e (ndepth p + 1)])).
Proof.
  intros [Hwf Hse] Hg. pose proof (get_lt _ _ _ Hg) as Hlt.
  apply get_Ok in Hg as [Hnp Hdp].
  set (new := length t).
  set (X := node_add_child p new e). set (Y := leaf_node new nm cm parent e (ndepth p + 1)).
  destruct (slots_add_leaf t parent X Y Hlt) as (HsP & Hsnew & Hsfr & Hslen).
  set (t' := replace_nth parent X (t ++ [Y])) in *. fold new in Hsnew, Hsfr.
  destruct (nac_fields p new e) as (Fid & Fpar & Fpe & Fdep & Fdel & Fch). fold X in Fid, Fpar, Fpe, Fdep, Fdel, Fch.
  split.
  2:{ apply SortedEdges_replace; [apply SortedEdges_app; auto; constructor|].
      apply nac_sorted. eauto. }
  assert (HlP : live t parent) by (exists p; auto).
  destruct (Forest_edit t parent Hwf HlP)
    as (all & sx & px & dx & rest & Hnd & Hlive & HRx & Hperm & Hndx & Hndr & Hdisj & Hrl & Hk).
  destruct (Rep_inv _ _ _ _ _ HRx) as (n & cs & -> & Hn & Hdel & Hid & Hp & Hd & HF & He1 & He2).
  assert (n = p) by congruence. subst n.
  assert (Hnew_not : forall j, live t j -> j <> new).
  { intros j Hj. apply live_lt in Hj. unfold new. lia. }
  assert (Hsx_live : forall j, In j (ids (RT parent cs)) -> live t j).
  { intros j Hj. eapply Rep_ids_live; eauto. }
  rewrite ids_RT in Hndx. apply NoDup_cons_iff in Hndx as [HPcs Hndcs].
  assert (Hfr_cs : forall j, In j (flat_map ids cs) -> nth_error t' j = nth_error t j).
  { intros j Hj. apply Hsfr; [intros ->; auto|]. apply Hnew_not. apply Hsx_live. rewrite ids_RT; simpl; auto. }
  pose proof (Forall2_Rep_rid _ _ _ _ _ HF) as Hch.
  assert (Hnone : edge_get (nedges p) new = None).
  { destruct (edge_get (nedges p) new) eqn:E; auto. exfalso.
    assert (Hin : In new (nchildren p)) by (apply He2; congruence).
    eapply (Hnew_not new); auto. apply Hsx_live. rewrite ids_RT. right.
    apply In_map_rid_flat. congruence. }
  apply (Hk t' (RT parent (cs ++ [RT new []]))).
  - intros j Hj. apply Hsfr.
    + intros ->. eapply Hdisj; eauto. rewrite ids_RT; simpl; auto.
    + apply Hnew_not; auto.
  - apply Rep_node with (n := X); auto; try congruence.
    + rewrite Fch. apply Forall2_app.
      * eapply Forall2_Rep_frame; eauto.
      * constructor; [|constructor].
        apply Rep_node with (n := Y); simpl; auto; try tauto; try congruence.
        lia.
    + intros c nc Hc Hnc. rewrite Fch in Hc. apply in_app_or in Hc as [Hc|[<-|[]]].
      * assert (Hcf : In c (flat_map ids cs)) by (apply In_map_rid_flat; congruence).
        rewrite Hfr_cs in Hnc by auto.
        unfold X. rewrite nac_edge_neq; eauto.
        apply Hnew_not. apply Hsx_live. rewrite ids_RT; simpl; auto.
      * rewrite Hsnew in Hnc. injection Hnc as <-. simpl. unfold X. apply nac_edge_eq; auto.
    + intros c Hc. rewrite Fch. apply in_or_app.
      destruct (Nat.eq_dec c new) as [->|Hne]; [right; simpl; auto|left].
      unfold X in Hc. rewrite nac_edge_neq in Hc; auto.
  - intros n n' Hn1 Hn2. assert (n = p) by congruence. assert (n' = X) by congruence. subst. auto.
  - rewrite ids_RT, flat_map_app. simpl.
    apply NoDup_cons_iff. split.
    + intros Hin. apply in_app_or in Hin as [Hin|[Hin|[]]]; auto.
      eapply (Hnew_not parent); eauto.
    + apply NoDup_app_iff. splits; auto.
      * repeat constructor. simpl; tauto.
      * intros j Hj [<-|[]]. eapply (Hnew_not new); auto. apply Hsx_live. rewrite ids_RT; simpl; auto.
  - intros j Hj Hjr. rewrite ids_RT, flat_map_app in Hj. simpl in Hj.
    destruct Hj as [<-|Hj]; [eapply Hdisj; eauto; rewrite ids_RT; simpl; auto|].
    apply in_app_or in Hj as [Hj|[<-|[]]].
    + eapply Hdisj; eauto. rewrite ids_RT; simpl; auto.
    + eapply (Hnew_not new); auto.
  - intros j Hj. rewrite ids_RT, flat_map_app. simpl.
    destruct (Nat.eq_dec j parent) as [->|Hne1]; [left; left; auto|].
    destruct (Nat.eq_dec j new) as [->|Hne2].
    { left. right. apply in_or_app. right. simpl; auto. }
    assert (Hlj : live t j).
    { destruct Hj as (nj & Hnj & Hdj). rewrite Hsfr in Hnj by auto. exists nj; auto. }
    apply Hlive in Hlj. eapply Permutation_in in Hlj; [|exact Hperm].
    apply in_app_or in Hlj as [Hlj|Hlj]; auto.
    rewrite ids_RT in Hlj. destruct Hlj as [?|Hlj]; [congruence|].
    left. right. apply in_or_app; auto.
Qed.

Theorem add_child_spF t nm cm parent e :
  ForestS t -> sp (fun r => ForestS (fst r)) (add_child t (new_node nm cm) parent e).
Proof.
  intros HF. pose proof (get_safe t parent) as Hs.
  destruct (get t parent) as [pn|err| |] eqn:Hg; simpl in Hs; try contradiction.
  - rewrite (add_child_Ok _ _ _ _ _ _ Hg). simpl. apply add_leaf_forest; auto.
  - unfold add_child. destruct (Nat.leb _ _); [exact I|]. rewrite Hg. exact I.
Qed.

Theorem add_child_forest t t' nm cm parent e id :
  ForestS t -> add_child t (new_node nm cm) parent e = Ok (t', id) -> ForestS t'.
Proof. intros HF H. pose proof (add_child_spF t nm cm parent e HF) as Hsp. rewrite H in Hsp. exact Hsp. Qed.

(* ---- prune -------------------------------------------------------------------------------------------------- *)
Theorem prune_spF t x : ForestS t -> sp ForestS (prune t x).
Proof.
  intros [Hwf Hse]. unfold prune.
  destruct (live_or_dead t x) as [Hlx|Hd].
  2:{ unfold fuel_of. cbn [prune_f]. rewrite (dead_get t x Hd). exact I. }
  destruct (forest_pick t x Hwf Hlx) as (r & others & (HFa & HNa & HLa) & Hxr).
  apply Forall_cons_iff in HFa as [HR HFo]. simpl in HNa, HLa.
  apply NoDup_app_iff in HNa as (Hnd & HNo & Hdro).
  destruct (Nat.eq_dec x (rid r)) as [->|Hne].
  - (* pruning the root of a component: the component disappears *)
    destruct (prune_f_spec r (fuel_of t) t None 0 (rid r) HR Hnd
                (Rep0_height_fuel _ _ _ _ (Rep_Rep0 _ _ _ _ _ HR) Hnd) Hse I)
      as (t2 & Hr2 & Hlen2 & Htomb2 & Hfr2 & _ & Hse2).
    rewrite Hr2. simpl. split; auto.
    apply (forest_rebuild t t2 others []); auto.
    + intros j Hj. apply Hfr2; [|congruence]. intros Hjr. apply (Hdro j); auto.
    + constructor.
    + intros j (nj & Hnj & Hdj). right. destruct (in_dec Nat.eq_dec j (ids r)) as [Hin|Hnin].
      * rewrite Htomb2 in Hnj by auto. injection Hnj as <-. discriminate.
      * rewrite Hfr2 in Hnj by (auto; congruence).
        assert (Hlj : live t j) by (exists nj; auto). apply HLa in Hlj. apply in_app_or in Hlj as [?|?]; tauto.
  - destruct (Rep_parent _ _ _ _ _ _ HR Hxr Hne) as (P & nP & nx & HPr & HnP & HdP & Hnx & Hpx & HxP).
    assert (HlP : live t P) by (exists nP; auto).
    destruct (Forest_edit t P Hwf HlP)
      as (all & sP & pp & dp & rest & Hnd' & Hlive' & HRP & Hperm & HndP & Hndr & Hdisj & Hrl & Hk).
    destruct (Rep_inv _ _ _ _ _ HRP) as (n & cs & -> & Hn & Hdel & Hid & Hp & Hd & HF & He1 & He2).
    assert (n = nP) by congruence. subst n.
    destruct (nrc_Some nP x HxP) as (nP' & k1 & k2 & Hrm & Hch & Hnk1 & Hch' & Hed' & Fid & Fpar & Fpe & Fdep & Fdel).
    rewrite Hch in HF. apply Forall2_app_inv_l in HF as (l1 & l2' & HF1 & HF2 & ->).
    inversion HF2 as [|? sx ? l2 HRx HF2' Hk2e Hcl]. clear HF2 Hk2e. subst l2'.
    rewrite ids_RT, flat_map_app in HndP. simpl in HndP.
    apply NoDup_cons_iff in HndP as [HPn HndP].
    apply NoDup_app_iff in HndP as (Hnd1 & Hnd23 & Hd1).
    apply NoDup_app_iff in Hnd23 as (Hndx & Hnd2 & Hd2).
    assert (HPx : ~ In P (ids sx)). { intros Hin. apply HPn. apply in_or_app. right. apply in_or_app; auto. }
    assert (Hpre : prune_pre t (Some P) x sx).
    { split; auto. exists nP. split; auto. apply get_Ok; auto. }
    destruct (prune_f_spec sx (fuel_of t) t (Some P) (S dp) x HRx Hndx
                (Rep0_height_fuel _ _ _ _ (Rep_Rep0 _ _ _ _ _ HRx) Hndx) Hse Hpre)
      as (t2 & Hr2 & Hlen2 & Htomb2 & Hfr2 & Hpost2 & Hse2).
    rewrite Hr2. simpl. split; auto.
    destruct (Hpost2 nP HnP) as (nP'' & Hrm' & HnP''). rewrite Hrm in Hrm'. injection Hrm' as <-.
    pose proof (Forall2_Rep_rid _ _ _ _ _ HF1) as Hk1.
    pose proof (Forall2_Rep_rid _ _ _ _ _ HF2') as Hk2.
    assert (Hxsx : In x (ids sx)). { rewrite <- (Rep_rid _ _ _ _ _ HRx). apply In_rid_ids. }
    assert (Hfr12 : forall j, In j (flat_map ids l1 ++ flat_map ids l2) -> nth_error t2 j = nth_error t j).
    { intros j Hj. apply Hfr2.
      - intros Hjx. apply in_app_or in Hj as [Hj|Hj]; [eapply Hd1; eauto; apply in_or_app; auto|eapply Hd2; eauto].
      - intros [= ->]. apply HPn. apply in_app_or in Hj as [Hj|Hj]; apply in_or_app; auto.
        right. apply in_or_app; auto. }
    assert (Hk12 : forall c, In c (k1 ++ k2) -> In c (flat_map ids l1 ++ flat_map ids l2)).
    { intros c Hc. apply in_app_or in Hc as [Hc|Hc]; apply in_or_app; [left|right];
        apply In_map_rid_flat; congruence. }
    apply (Hk t2 (RT P (l1 ++ l2))).
    + intros j Hj. apply Hfr2.
      * intros Hjx. eapply Hdisj; eauto. rewrite ids_RT, flat_map_app. simpl. right.
        apply in_or_app. right. apply in_or_app; auto.
      * intros [= ->]. eapply Hdisj; eauto. rewrite ids_RT; simpl; auto.
    + apply Rep_node with (n := nP'); auto; try congruence.
      * rewrite Hch'. apply Forall2_app.
        -- eapply Forall2_Rep_frame; eauto. intros j Hj. apply Hfr12. apply in_or_app; auto.
        -- eapply Forall2_Rep_frame; eauto. intros j Hj. apply Hfr12. apply in_or_app; auto.
      * intros c nc Hc Hnc. rewrite Hch' in Hc. pose proof (Hk12 _ Hc) as Hc'.
        rewrite Hfr12 in Hnc by auto. rewrite Hed'.
        rewrite edge_get_remove_neq.
        -- apply He1; auto. rewrite Hch. apply in_app_or in Hc as [Hc|Hc]; apply in_or_app; simpl; auto.
        -- intros ->. apply in_app_or in Hc' as [Hc'|Hc']; [eapply Hd1; eauto; apply in_or_app; auto|eapply Hd2; eauto].
      * intros c Hc. rewrite Hed' in Hc. rewrite Hch'.
        destruct (Nat.eq_dec c x) as [->|Hnex].
        -- rewrite edge_get_remove_eq in Hc; [congruence|]. eapply Hse; eauto.
        -- rewrite edge_get_remove_neq in Hc by auto. apply He2 in Hc. rewrite Hch in Hc.
           apply in_app_or in Hc as [Hc|[Hc|Hc]]; try congruence; apply in_or_app; auto.
    + intros n n' Hn1 Hn2. assert (n = nP) by congruence. assert (n' = nP') by congruence. subst. auto.
    + rewrite ids_RT, flat_map_app. apply NoDup_cons_iff. split.
      * intros Hin. apply HPn. apply in_app_or in Hin as [Hin|Hin]; apply in_or_app; auto.
        right. apply in_or_app; auto.
      * apply NoDup_app_iff. splits; auto. intros j Hj1 Hj2. eapply Hd1; eauto. apply in_or_app; auto.
    + intros j Hj. apply Hdisj. rewrite ids_RT, flat_map_app in *. simpl.
      destruct Hj as [->|Hj]; [left; auto|right].
      apply in_app_or in Hj as [Hj|Hj]; apply in_or_app; auto. right. apply in_or_app; auto.
    + intros j (nj & Hnj & Hdj).
      destruct (in_dec Nat.eq_dec j (ids sx)) as [Hin|Hnin].
      { rewrite Htomb2 in Hnj by auto. injection Hnj as <-. discriminate. }
      rewrite ids_RT, flat_map_app.
      destruct (Nat.eq_dec j P) as [->|HneP]; [left; left; auto|].
      rewrite Hfr2 in Hnj by (auto; congruence).
      assert (Hlj : live t j) by (exists nj; auto).
      apply Hlive' in Hlj. eapply Permutation_in in Hlj; [|exact Hperm].
      apply in_app_or in Hlj as [Hlj|Hlj]; auto.
      rewrite ids_RT, flat_map_app in Hlj. simpl in Hlj. destruct Hlj as [?|Hlj]; [congruence|].
      left. right. apply in_app_or in Hlj as [Hlj|Hlj]; [apply in_or_app; auto|].
      apply in_app_or in Hlj as [Hlj|Hlj]; [contradiction|apply in_or_app; auto].
Qed.

Theorem prune_safeF t x : ForestS t -> safe (prune t x).
Proof. intros HF. eapply sp_safe, prune_spF; auto. Qed.

Theorem prune_forest t t' x : ForestS t -> prune t x = Ok t' -> ForestS t'.
Proof. intros HF H. pose proof (prune_spF t x HF) as Hsp. rewrite H in Hsp. exact Hsp. Qed.

(* ---- reset_depths ------------------------------------------------------------------------------------------- *)
(* get_root answers the first live parentless slot: the depths of THAT component are recomputed *)
Theorem reset_depths_spF t : ForestS t -> sp ForestS (reset_depths t).
Proof.
  intros [Hwf Hse]. unfold reset_depths.
  pose proof (get_root_safe t) as Hs.
  destruct (get_root t) as [x| | |] eqn:Hroot; simpl in Hs; try contradiction; [|exact I]. cbn [bind].
  destruct (forest_get_root t x Hwf Hroot) as (n & Hn & Hd & Hp).
  assert (Hlx : live t x) by (exists n; auto).
  destruct (forest_pick t x Hwf Hlx) as (r & others & (HFa & HNa & HLa) & Hxr).
  apply Forall_cons_iff in HFa as [HR HFo]. simpl in HNa, HLa.
  apply NoDup_app_iff in HNa as (Hnd & HNo & Hdro).
  pose proof (Rep_root_unique _ _ _ _ _ _ _ HR Hxr Hn Hp) as E. subst x.
  pose proof (Rep_Rep0 _ _ _ _ _ HR) as HR0.
  destruct (reset_depth_f_spec r (fuel_of t) t None (rid r) 0 HR0 Hnd (Rep0_height_fuel _ _ _ _ HR0 Hnd))
    as (t2 & Hr & HR2 & Hlen & Hfr & Hdo).
  rewrite Hr. simpl. split; [|eapply SortedEdges_depth_only; eauto].
  apply (forest_rebuild t t2 others [r]); auto.
  - intros j Hj. apply Hfr. intros Hjr. apply (Hdro j); auto.
  - simpl. rewrite app_nil_r. auto.
  - simpl. rewrite app_nil_r. auto.
  - intros j Hj. simpl. rewrite app_nil_r. apply in_app_or. apply HLa. eapply depth_only_live_inv; eauto.
Qed.

Theorem reset_depths_safeF t : ForestS t -> safe (reset_depths t).
Proof. intros HF. eapply sp_safe, reset_depths_spF; auto. Qed.

(* ---- ladderize ---------------------------------------------------------------------------------------------- *)
Lemma permute_children_forest (t : arena) id n ch' :
  ForestS t -> get t id = Ok n -> Permutation ch' (nchildren n) ->
  ForestS (replace_nth id (set_nchildren n ch') t).
Proof.
  intros [Hwf Hse] Hg Hp. apply get_Ok in Hg as [Hn Hdel].
  set (t' := replace_nth id (set_nchildren n ch') t).
  assert (Hs1 : nth_error t' id = Some (set_nchildren n ch')) by (eapply nth_error_replace_nth_eq'; eauto).
  assert (Hs2 : forall j, j <> id -> nth_error t' j = nth_error t j)
    by (intros; apply nth_error_replace_nth_neq; auto).
  split.
  2:{ apply SortedEdges_replace; auto. simpl. eauto. }
  assert (Hl : live t id) by (exists n; auto).
  destruct (Forest_edit t id Hwf Hl)
    as (all & sx & px & dx & rest & Hnd & Hlive & HRx & Hperm & Hndx & Hndr & Hdisj & Hrl & Hk).
  destruct (Rep_inv _ _ _ _ _ HRx) as (n0 & cs & -> & Hn0 & _ & Hid & Hpx & Hd & HF & He1 & He2).
  assert (n0 = n) by congruence. subst n0.
  destruct (Forall2_perm _ _ _ _ HF Hp) as (cs' & HF' & Hpc).
  assert (Hpf : Permutation (flat_map ids cs') (flat_map ids cs)) by (apply Permutation_flat_map; auto).
  rewrite ids_RT in Hndx. apply NoDup_cons_iff in Hndx as [Hidn Hndcs].
  assert (Hfr : forall j, In j (flat_map ids cs) -> nth_error t' j = nth_error t j).
  { intros j Hj. apply Hs2. intros ->. auto. }
  pose proof (Forall2_Rep_rid _ _ _ _ _ HF) as Hch.
  apply (Hk t' (RT id cs')).
  - intros j Hj. apply Hs2. intros ->. eapply Hdisj; eauto. rewrite ids_RT; simpl; auto.
  - apply Rep_node with (n := set_nchildren n ch'); simpl; auto.
    + eapply Forall2_Rep_frame; eauto. intros j Hj. apply Hfr. eapply Permutation_in; eauto.
    + intros c nc Hc Hnc. assert (Hc' : In c (nchildren n)) by (eapply Permutation_in; eauto).
      rewrite Hfr in Hnc; auto. apply In_map_rid_flat. congruence.
    + intros c Hc. eapply Permutation_in; [apply Permutation_sym; eauto|]. auto.
  - intros m m' Hm Hm'. assert (m = n) by congruence. assert (m' = set_nchildren n ch') by congruence.
    subst. reflexivity.
  - rewrite ids_RT. apply NoDup_cons_iff. split.
    + intros Hin. apply Hidn. eapply Permutation_in; eauto.
    + eapply Permutation_NoDup; [apply Permutation_sym; eauto|]. auto.
  - intros j Hj. apply Hdisj. rewrite ids_RT in *. destruct Hj as [->|Hj]; simpl; auto.
    right. eapply Permutation_in; eauto.
  - intros j Hj.
    assert (Hlj : live t j).
    { destruct (Nat.eq_dec j id) as [->|Hne]; auto.
      destruct Hj as (nj & Hnj & Hdj). rewrite Hs2 in Hnj by auto. exists nj; auto. }
    apply Hlive in Hlj. eapply Permutation_in in Hlj; [|exact Hperm].
    apply in_app_or in Hlj as [Hlj|Hlj]; auto. left.
    rewrite ids_RT in *. destruct Hlj as [->|Hlj]; simpl; auto.
    right. eapply Permutation_in; [apply Permutation_sym; eauto|]. auto.
Qed.

Theorem ladderize_spF t : ForestS t -> sp ForestS (ladderize t).
Proof.
  intros HF. unfold ladderize.
  eapply sp_bind with (Q := fun _ => True); [apply safe_sp, get_root_safe|]. intros r _.
  eapply sp_bind with (Q := fun _ => True); [apply safe_sp, levelorder_safeF; apply HF|]. intros lo _.
  eapply sp_bind with (Q := fun st : arena * list nat => ForestS (fst st)).
  - apply sp_foldM; [|exact HF]. intros [s cnt] id Hs _. simpl in Hs.
    pose proof (get_safe s id) as Hg. destruct (get s id) as [n| | |] eqn:E; simpl in Hg; try contradiction; simpl; auto.
    apply permute_children_forest; auto. apply stable_sort_perm.
  - intros [t' c] H. exact H.
Qed.

Theorem ladderize_safeF t : ForestS t -> safe (ladderize t).
Proof. intros HF. eapply sp_safe, ladderize_spF; auto. Qed.

(* ---- regrouping under a node P: keep some children, append one re-rooted child, recompute depths ---------- *)
Lemma regroupF (t t4 : arena) P pp dp rest nP nP4 ks' cs_keep a sa :
  (forall (t' : arena) sx',
      (forall j, In j rest -> nth_error t' j = nth_error t j) ->
      Rep t' pp dp P sx' ->
      (forall n n', nth_error t P = Some n -> nth_error t' P = Some n' -> npedge n' = npedge n) ->
      NoDup (ids sx') -> (forall j, In j (ids sx') -> ~ In j rest) ->
      (forall j, live t' j -> In j (ids sx') \/ In j rest) -> Forest t') ->
  nth_error t P = Some nP ->
  Forall2 (fun c r => Rep t (Some P) (S dp) c r) ks' cs_keep ->
  (forall c nc, In c ks' -> nth_error t c = Some nc -> edge_get (nedges nP4) c = npedge nc) ->
  NoDup (P :: flat_map ids cs_keep) ->
  (forall j, In j (P :: flat_map ids cs_keep) -> ~ In j rest) ->
  (forall j, In j rest -> nth_error t4 j = nth_error t j) ->
  (forall j, In j (flat_map ids cs_keep) -> nth_error t4 j = nth_error t j) ->
  nth_error t4 P = Some nP4 -> ndeleted nP4 = false -> nid nP4 = P -> nparent nP4 = pp -> ndepth nP4 = dp ->
  npedge nP4 = npedge nP ->
  nchildren nP4 = ks' ++ [a] ->
  (forall na, nth_error t4 a = Some na -> edge_get (nedges nP4) a = npedge na) ->
  (forall c, edge_get (nedges nP4) c <> None -> In c (nchildren nP4)) ->
  Rep0 t4 (Some P) a sa -> NoDup (ids sa) ->
  (forall j, In j (ids sa) -> j <> P /\ ~ In j (flat_map ids cs_keep) /\ ~ In j rest) ->
  SortedEdges t4 ->
  (forall j, live t4 j -> j = P \/ In j (flat_map ids cs_keep) \/ In j (ids sa) \/ In j rest) ->
  exists t5, reset_depth_f (fuel_of t4) t4 a (dp + 1) = Ok t5 /\ ForestS t5.
Proof.
  intros Hk HnP HF He1 Hnd Hdisj Hfr4r Hfr4k HnP4 Fdel Fid Fpar Fdep Fpe Fch Hea He2 HR0 Hndsa Hsa Hse4 Hlive4.
  destruct (reset_depth_f_spec sa (fuel_of t4) t4 (Some P) a (dp + 1) HR0 Hndsa (Rep0_height_fuel _ _ _ _ HR0 Hndsa))
    as (t5 & Hr & HR5 & Hlen & Hfr5 & Hdo).
  exists t5. split; auto. split; [|eapply SortedEdges_depth_only; eauto].
  apply NoDup_cons_iff in Hnd as [HPk Hndk].
  assert (HP5 : nth_error t5 P = Some nP4).
  { rewrite Hfr5; auto. intros Hin. apply Hsa in Hin. tauto. }
  assert (Hfr5k : forall j, In j (flat_map ids cs_keep) -> nth_error t5 j = nth_error t j).
  { intros j Hj. rewrite Hfr5; auto. intros Hin. apply Hsa in Hin. tauto. }
  pose proof (Forall2_Rep_rid _ _ _ _ _ HF) as Hks.
  apply (Hk t5 (RT P (cs_keep ++ [sa]))).
  - intros j Hj. rewrite Hfr5; auto. intros Hin. apply Hsa in Hin. tauto.
  - apply Rep_node with (n := nP4); auto.
    + rewrite Fch. apply Forall2_app.
      * eapply Forall2_Rep_frame; eauto.
      * constructor; [|constructor]. replace (S dp) with (dp + 1) by lia. auto.
    + intros c nc Hc Hnc. rewrite Fch in Hc. apply in_app_or in Hc as [Hc|[<-|[]]].
      * rewrite Hfr5k in Hnc; eauto. apply In_map_rid_flat. congruence.
      * destruct (Rep0_inv _ _ _ _ HR0) as (na & ? & _ & Hna & _).
        destruct (Hdo _ _ Hna) as (d' & Hd'). rewrite Hd' in Hnc. injection Hnc as <-. simpl. auto.
  - intros n n' Hn Hn'. assert (n = nP) by congruence. assert (n' = nP4) by congruence. subst. auto.
  - rewrite ids_RT, flat_map_app. simpl. rewrite app_nil_r. apply NoDup_cons_iff. split.
    + intros Hin. apply in_app_or in Hin as [Hin|Hin]; auto. apply Hsa in Hin. tauto.
    + apply NoDup_app_iff. splits; auto. intros j Hj1 Hj2. apply Hsa in Hj2. tauto.
  - intros j Hj. rewrite ids_RT, flat_map_app in Hj. simpl in Hj. rewrite app_nil_r in Hj.
    destruct Hj as [<-|Hj]; [apply Hdisj; simpl; auto|].
    apply in_app_or in Hj as [Hj|Hj]; [apply Hdisj; simpl; auto|]. apply Hsa in Hj. tauto.
  - intros j Hj. eapply depth_only_live_inv in Hj; eauto.
    rewrite ids_RT, flat_map_app. simpl. rewrite app_nil_r.
    destruct (Hlive4 _ Hj) as [->|[H|[H|H]]]; auto.
    + left. right. apply in_or_app; auto.
    + left. right. apply in_or_app; auto.
Qed.

(* ---- grouping two children c1, c2 of P under a fresh node (shared by merge_children and resolve) ---------- *)
Lemma group2_forest (t t7 : arena) P nP c1 c2 n1 n2 pe e1 e2 nP7 nN :
  ForestS t ->
  nth_error t P = Some nP -> ndeleted nP = false ->
  In c1 (nchildren nP) -> In c2 (nchildren nP) -> c1 <> c2 ->
  nth_error t c1 = Some n1 -> nth_error t c2 = Some n2 ->
  nth_error t7 P = Some nP7 -> nth_error t7 (length t) = Some nN ->
  nth_error t7 c1 = Some (node_set_parent n1 (length t) e1) ->
  nth_error t7 c2 = Some (node_set_parent n2 (length t) e2) ->
  (forall j, j <> P -> j <> length t -> j <> c1 -> j <> c2 -> nth_error t7 j = nth_error t j) ->
  nid nP7 = nid nP -> nparent nP7 = nparent nP -> npedge nP7 = npedge nP -> ndepth nP7 = ndepth nP ->
  ndeleted nP7 = false ->
  nchildren nP7 = filter (fun k => negb (Nat.eqb k c1) && negb (Nat.eqb k c2)) (nchildren nP) ++ [length t] ->
  (forall c, c <> c1 -> c <> c2 -> c <> length t -> edge_get (nedges nP7) c = edge_get (nedges nP) c) ->
  edge_get (nedges nP7) (length t) = pe -> edge_get (nedges nP7) c1 = None -> edge_get (nedges nP7) c2 = None ->
  nid nN = length t -> nparent nN = Some P -> npedge nN = pe -> ndeleted nN = false -> nchildren nN = [c1; c2] ->
  edge_get (nedges nN) c1 = e1 -> edge_get (nedges nN) c2 = e2 ->
  (forall c, edge_get (nedges nN) c <> None -> c = c1 \/ c = c2) ->
  SortedEdges t7 ->
  exists t8, reset_depth_f (fuel_of t7) t7 (length t) (ndepth nP + 1) = Ok t8 /\ ForestS t8.
Proof.
  intros [Hwf Hse] HnP HdP Hc1 Hc2 Hc12 Hn1 Hn2 S_P S_new S_c1 S_c2 S_o
         Fid Fpar Fpe Fdep Fdel Fch Feo Fenew Fec1 Fec2 Nid Npar Npe Ndel Nch Ne1 Ne2 Neo Hse7.
  set (new := length t) in *.
  assert (HlP : live t P) by (exists nP; auto).
  destruct (Forest_edit t P Hwf HlP)
    as (all & sP & pp & dp & rest & _ & Hlive & HRP & Hperm & HndP & Hndr & Hdisj & Hrl & Hk).
  destruct (Rep_inv _ _ _ _ _ HRP) as (nP0 & cs & -> & HnP0 & _ & FidP & FparP & FdepP & HF & He1 & He2).
  assert (nP0 = nP) by congruence. subst nP0.
  destruct (Forall2_In_l _ _ _ _ HF Hc1) as (s1 & Hs1 & HR1).
  destruct (Forall2_In_l _ _ _ _ HF Hc2) as (s2 & Hs2 & HR2).
  rewrite ids_RT in HndP. apply NoDup_cons_iff in HndP as [HPn Hndcs].
  pose proof (Forall2_Rep_rid _ _ _ _ _ HF) as Hch.
  pose proof (Rep_rid _ _ _ _ _ HR1) as Hrid1. pose proof (Rep_rid _ _ _ _ _ HR2) as Hrid2.
  assert (Hc1s1 : In c1 (ids s1)) by (rewrite <- Hrid1; apply In_rid_ids).
  assert (Hc2s2 : In c2 (ids s2)) by (rewrite <- Hrid2; apply In_rid_ids).
  assert (Hs12 : s1 <> s2) by (intros ->; congruence).
  assert (Hd12 : forall j, In j (ids s1) -> ~ In j (ids s2)).
  { intros j Hj1 Hj2. apply Hs12. apply (flat_map_NoDup_inj ids cs s1 s2 j); auto. }
  assert (Hs1cs : forall j, In j (ids s1) -> In j (flat_map ids cs)) by (intros; apply in_flat_map; eauto).
  assert (Hs2cs : forall j, In j (ids s2) -> In j (flat_map ids cs)) by (intros; apply in_flat_map; eauto).
  assert (HsP_live : forall j, In j (ids (RT P cs)) -> live t j)
    by (intros j Hj; apply (Rep_ids_live _ _ _ _ _ _ HRP Hj)).
  assert (Hnew : forall j, live t j -> j <> new). { intros j Hj. apply live_lt in Hj. unfold new. lia. }
  assert (Hcs_new : forall j, In j (flat_map ids cs) -> j <> new).
  { intros j Hj. apply Hnew. apply HsP_live. apply in_ids_RT. auto. }
  set (keep := fun k => negb (Nat.eqb k c1) && negb (Nat.eqb k c2)) in *.
  set (cs_keep := filter (fun s => keep (rid s)) cs).
  set (ks' := filter keep (nchildren nP)) in *.
  assert (Hkeep_s : forall s j, In s cs_keep -> In j (ids s) -> ~ In j (ids s1) /\ ~ In j (ids s2)).
  { intros s j Hs Hj. apply filter_In in Hs as [Hs Hks]. unfold keep in Hks.
    apply andb_prop in Hks as [Hk1 Hk2]. apply Bool.negb_true_iff, Nat.eqb_neq in Hk1, Hk2.
    split; intros Hj'.
    - assert (s = s1) by (apply (flat_map_NoDup_inj ids cs s s1 j); auto). congruence.
    - assert (s = s2) by (apply (flat_map_NoDup_inj ids cs s s2 j); auto). congruence. }
  assert (Hks'_in : forall c, In c ks' -> In c (nchildren nP) /\ c <> c1 /\ c <> c2).
  { intros c Hc. apply filter_In in Hc as [Hc Hkc]. unfold keep in Hkc.
    apply andb_prop in Hkc as [Hk1 Hk2]. apply Bool.negb_true_iff, Nat.eqb_neq in Hk1, Hk2. auto. }
  assert (Hkeep_cs : forall j, In j (flat_map ids cs_keep) -> In j (flat_map ids cs))
    by (intros j; apply flat_map_filter_incl).
  assert (Hkeep_ne : forall j, In j (flat_map ids cs_keep) -> j <> c1 /\ j <> c2 /\ j <> P /\ j <> new).
  { intros j Hj. pose proof (Hkeep_cs _ Hj) as Hj'. apply in_flat_map in Hj as (s & Hs & Hjs).
    destruct (Hkeep_s _ _ Hs Hjs) as [Hx1 Hx2].
    splits; [intros ->; auto | intros ->; auto | intros ->; auto | apply Hcs_new; auto]. }
  assert (Hnd1 : NoDup (ids s1)) by (eapply NoDup_flat_map_in; eauto).
  assert (Hnd2 : NoDup (ids s2)) by (eapply NoDup_flat_map_in; eauto).
  assert (HPnew : P <> new) by (apply Hnew; auto).
  assert (Hc1P : c1 <> P) by (intros ->; auto).
  assert (Hc2P : c2 <> P) by (intros ->; auto).
  assert (Hc1new : c1 <> new) by (apply Hcs_new; auto).
  assert (Hc2new : c2 <> new) by (apply Hcs_new; auto).
  replace (ndepth nP) with dp by congruence.
  apply (regroupF t t7 P pp dp rest nP nP7 ks' cs_keep new (RT new [s1; s2])); auto; try congruence.
  - eapply Forall2_filter; eauto. intros a b Hab. simpl. rewrite (Rep_rid _ _ _ _ _ Hab). auto.
  - intros c nc0 Hc Hnc0. apply Hks'_in in Hc as (Hc & ? & ?).
    rewrite Feo; auto. apply Hcs_new. apply In_map_rid_flat. congruence.
  - apply NoDup_cons_iff. split.
    + intros Hin. apply HPn. auto.
    + apply NoDup_flat_map_filter. auto.
  - intros j Hj. apply Hdisj. apply in_ids_RT. destruct Hj as [->|Hj]; auto.
  - intros j Hj. assert (Hlj := Hrl _ Hj). apply S_o.
    + intros ->. eapply Hdisj; eauto. apply in_ids_RT; auto.
    + apply Hnew; auto.
    + intros ->. eapply Hdisj; eauto. apply in_ids_RT; auto.
    + intros ->. eapply Hdisj; eauto. apply in_ids_RT; auto.
  - intros j Hj. apply Hkeep_ne in Hj as (? & ? & ? & ?). apply S_o; auto.
  - intros c Hc. rewrite Fch. apply in_or_app.
    destruct (Nat.eq_dec c new) as [->|Hcn]; [right; simpl; auto|left].
    destruct (Nat.eq_dec c c1) as [->|Hcc1]; [congruence|].
    destruct (Nat.eq_dec c c2) as [->|Hcc2]; [congruence|].
    rewrite Feo in Hc by auto. apply filter_In. split; auto.
    unfold keep. apply Nat.eqb_neq in Hcc1, Hcc2. rewrite Hcc1, Hcc2. reflexivity.
  - apply Rep0_node with (n := nN); auto.
    + rewrite Nch. constructor; [|constructor; [|constructor]].
      * eapply Rep0_reparent; eauto. intros j Hj Hjc. apply S_o; auto.
        -- intros ->; auto.
        -- intros ->. eapply Hd12; eauto.
      * eapply Rep0_reparent; eauto. intros j Hj Hjc. apply S_o; auto.
        -- intros ->; auto.
        -- intros ->. eapply Hd12; eauto.
    + intros c nc Hc Hnc. rewrite Nch in Hc. destruct Hc as [<-|[<-|[]]].
      * assert (nc = node_set_parent n1 new e1) by congruence. subst nc. simpl. auto.
      * assert (nc = node_set_parent n2 new e2) by congruence. subst nc. simpl. auto.
    + intros c Hc. rewrite Nch. apply Neo in Hc as [->| ->]; simpl; auto.
  - rewrite ids_RT. simpl. rewrite app_nil_r. apply NoDup_cons_iff. split.
    + intros Hin. apply in_app_or in Hin as [Hin|Hin]; eapply (Hcs_new new); auto.
    + apply NoDup_app_iff. splits; auto.
  - intros j Hj. apply in_ids_RT in Hj. simpl in Hj. rewrite app_nil_r in Hj.
    destruct Hj as [<-|Hj].
    + splits; auto.
      * intros Hin. apply Hkeep_ne in Hin. tauto.
      * intros Hin. eapply (Hnew new); auto.
    + assert (Hjcs : In j (flat_map ids cs)) by (apply in_app_or in Hj as [Hj|Hj]; auto).
      splits.
      * intros ->; auto.
      * intros Hin. apply in_flat_map in Hin as (s & Hs & Hjs). destruct (Hkeep_s _ _ Hs Hjs).
        apply in_app_or in Hj as [Hj|Hj]; auto.
      * apply Hdisj. apply in_ids_RT. auto.
  - intros j Hj. rewrite ids_RT. simpl. rewrite app_nil_r.
    destruct (Nat.eq_dec j P) as [->|HjP]; auto.
    destruct (Nat.eq_dec j new) as [->|Hjn]; [right; right; left; left; auto|].
    destruct (Nat.eq_dec j c1) as [->|Hj1]; [right; right; left; right; apply in_or_app; auto|].
    destruct (Nat.eq_dec j c2) as [->|Hj2]; [right; right; left; right; apply in_or_app; auto|].
    assert (Hlj : live t j).
    { destruct Hj as (nj & Hnj & Hdj). rewrite S_o in Hnj by auto. exists nj; auto. }
    apply Hlive in Hlj. eapply Permutation_in in Hlj; [|exact Hperm].
    apply in_app_or in Hlj as [Hlj|Hlj]; auto.
    apply in_ids_RT in Hlj as [?|Hlj]; [congruence|].
    apply in_flat_map in Hlj as (s & Hs & Hjs).
    destruct (keep (rid s)) eqn:Hks.
    + right. left. apply in_flat_map. exists s. split; auto. apply filter_In. auto.
    + right. right. left. right. apply in_or_app. unfold keep in Hks.
      apply Bool.andb_false_iff in Hks as [Hks|Hks]; apply Bool.negb_false_iff, Nat.eqb_eq in Hks.
      * left. assert (s = s1) by (eapply rid_inj_in; eauto; congruence). subst s. auto.
      * right. assert (s = s2) by (eapply rid_inj_in; eauto; congruence). subst s. auto.
Qed.

(* ---- merge_children ---------------------------------------------------------------------------------------- *)
Lemma merge_chain_forest (t : arena) pid nP c1 c2 n1 n2 e1 e2 pe nm pn1 pn2 :
  ForestS t -> get t pid = Ok nP -> get t c1 = Ok n1 -> get t c2 = Ok n2 ->
  In c1 (nchildren nP) -> In c2 (nchildren nP) -> c1 <> c2 ->
  node_remove_child nP c1 = Some pn1 -> node_remove_child pn1 c2 = Some pn2 ->
  exists t8,
    merge_chain (replace_nth pid (node_add_child pn2 (length t) pe)
                   (replace_nth pid pn2 t ++ [leaf_node (length t) None None pid pe (ndepth pn2 + 1)]))
                (length t) c1 c2 e1 e2 nm = Ok t8 /\ ForestS t8.
Proof.
  intros Hwfs HgP Hg1 Hg2 Hc1 Hc2 Hc12 Hrm1 Hrm2. pose proof Hwfs as [Hwf Hse].
  apply get_Ok in HgP as [HnP HdP]. apply get_Ok in Hg1 as [Hn1 Hd1]. apply get_Ok in Hg2 as [Hn2 Hd2].
  destruct (Forest_node_facts t pid nP Hwf HnP HdP) as (Hndch & Hchl & He2 & FidP).
  destruct (nrc2_facts nP c1 c2 pn1 pn2 Hndch (Hse _ _ HnP) Hc12 Hrm1 Hrm2)
    as (F1 & F2 & F3 & F4 & F5 & Fch & Feo & Fe1 & Fe2 & Fks).
  set (new := length t) in *.
  assert (HltP : pid < length t) by (eapply nth_error_Some_lt; eauto).
  assert (Hlt1 : c1 < length t) by (eapply nth_error_Some_lt; eauto).
  assert (Hlt2 : c2 < length t) by (eapply nth_error_Some_lt; eauto).
  destruct (Hchl _ Hc1) as [_ Hc1P]. destruct (Hchl _ Hc2) as [_ Hc2P].
  assert (Hc1n : c1 <> new) by (unfold new; lia). assert (Hc2n : c2 <> new) by (unfold new; lia).
  assert (HPn : pid <> new) by (unfold new; lia).
  set (T := replace_nth pid pn2 t).
  assert (HlenT : length T = length t) by apply replace_nth_length.
  set (Y := leaf_node new None None pid pe (ndepth pn2 + 1)).
  set (XP := node_add_child pn2 new pe).
  assert (HltPT : pid < length T) by lia.
  destruct (slots_add_leaf T pid XP Y HltPT) as (HsP & Hsnew & Hsfr & Hslen).
  set (T1 := replace_nth pid XP (T ++ [Y])) in *. rewrite HlenT in Hsnew, Hsfr, Hslen. fold new in Hsnew, Hsfr.
  set (XN := set_nname (node_add_child (node_add_child Y c1 e1) c2 e2) nm).
  set (A := node_set_parent n1 new e1). set (B := node_set_parent n2 new e2).
  set (t4 := replace_nth c2 B (replace_nth c1 A (replace_nth new XN T1))).
  assert (Hg_new : get T1 new = Ok Y) by (apply get_Ok; auto).
  assert (Hg_c1 : get (replace_nth new XN T1) c1 = Ok n1).
  { apply get_Ok. split; auto. slot. rewrite Hsfr by auto. unfold T. slot. auto. }
  assert (Hg_c2 : get (replace_nth c1 A (replace_nth new XN T1)) c2 = Ok n2).
  { apply get_Ok. split; auto. slot. rewrite Hsfr by auto. unfold T. slot. auto. }
  assert (S_new : nth_error t4 new = Some XN) by (unfold t4; slot; auto).
  assert (S_P : nth_error t4 pid = Some XP) by (unfold t4; slot; auto).
  assert (S_c1 : nth_error t4 c1 = Some A) by (unfold t4; slot; auto).
  assert (S_c2 : nth_error t4 c2 = Some B) by (unfold t4; slot; auto).
  assert (S_o : forall j, j <> pid -> j <> new -> j <> c1 -> j <> c2 -> nth_error t4 j = nth_error t j).
  { intros. unfold t4. slot. rewrite Hsfr by auto. unfold T. slot. auto. }
  assert (Hg_new4 : get t4 new = Ok XN)
    by (apply get_Ok; split; auto; unfold XN, Y; destruct e1, e2; reflexivity).
  unfold merge_chain.
  rewrite (upd_Ok _ _ _ _ Hg_new), bind_ret.
  rewrite (upd_Ok _ _ _ _ Hg_c1), bind_ret.
  rewrite (upd_Ok _ _ _ _ Hg_c2), bind_ret.
  fold XN A B t4. rewrite Hg_new4, bind_ret.
  destruct (nac_fields pn2 new pe) as (Gid & Gpar & Gpe & Gdep & Gdel & Gch). fold XP in Gid, Gpar, Gpe, Gdep, Gdel, Gch.
  assert (Hnew_none : edge_get (nedges nP) new = None).
  { destruct (edge_get (nedges nP) new) eqn:E; auto. exfalso.
    assert (Hin : In new (nchildren nP)) by (apply He2; congruence).
    apply Hchl in Hin as [Hl _]. apply live_lt in Hl. unfold new in Hl. lia. }
  assert (HXNd : ndepth XN = ndepth nP + 1).
  { unfold XN. simpl. destruct (nac_fields (node_add_child Y c1 e1) c2 e2) as (_ & _ & _ & -> & _).
    destruct (nac_fields Y c1 e1) as (_ & _ & _ & -> & _). simpl. congruence. }
  rewrite HXNd.
  destruct (nac_fields Y c1 e1) as (Y1 & Y2 & Y3 & Y4 & Y5 & Y6).
  destruct (nac_fields (node_add_child Y c1 e1) c2 e2) as (Z1 & Z2 & Z3 & Z4 & Z5 & Z6).
  assert (nid XN = new /\ nparent XN = Some pid /\ npedge XN = pe /\ ndeleted XN = false /\
          nchildren XN = [c1; c2]) as (W1 & W2 & W3 & W4 & W5)
    by (unfold XN, Y; destruct e1, e2; simpl; auto 10).
  apply (group2_forest t t4 pid nP c1 c2 n1 n2 pe e1 e2 XP XN); auto; try congruence.
  - rewrite Gch, Fch. reflexivity.
  - intros c Hq1 Hq2 Hq3. unfold XP. rewrite nac_edge_neq by auto. auto.
  - unfold XP. apply nac_edge_eq. rewrite Feo; auto; unfold new; lia.
  - unfold XP. rewrite nac_edge_neq; auto.
  - unfold XP. rewrite nac_edge_neq; auto.
  - unfold XN. simpl. rewrite nac_edge_neq by auto. apply nac_edge_eq. reflexivity.
  - unfold XN. simpl. apply nac_edge_eq. rewrite nac_edge_neq by auto. reflexivity.
  - unfold XN. simpl. intros c Hc.
    destruct (Nat.eq_dec c c2) as [->|Hcc2]; auto. rewrite nac_edge_neq in Hc by auto.
    destruct (Nat.eq_dec c c1) as [->|Hcc1]; auto. rewrite nac_edge_neq in Hc by auto.
    simpl in Hc. congruence.
  - unfold t4. repeat apply SortedEdges_replace.
    + apply SortedEdges_app; [|constructor]. unfold T. apply SortedEdges_replace; auto.
    + unfold XP. apply nac_sorted. auto.
    + unfold XN. simpl. apply nac_sorted, nac_sorted. constructor.
    + unfold A. simpl. eauto.
    + unfold B. simpl. eauto.
Qed.

(* two live slots: one common component, or two different ones (and all the others) *)
Lemma forest_pick2 t a b : Forest t -> live t a -> live t b ->
  (exists r others, FParts t (r :: others) /\ In a (ids r) /\ In b (ids r)) \/
  (exists ra rb others, FParts t (ra :: rb :: others) /\ In a (ids ra) /\ In b (ids rb)).
Proof.
  intros HF Ha Hb. destruct (forest_pick t a HF Ha) as (r & others1 & (HFa & HNa & HLa) & Har).
  pose proof (HLa _ Hb) as Hb'. simpl in Hb'. apply in_app_or in Hb' as [Hb'|Hb'].
  { left. exists r, others1. unfold FParts. auto. }
  right. apply in_flat_map in Hb' as (rb & Hrb & Hbr). apply in_split in Hrb as (l1 & l2 & ->).
  exists r, rb, (l1 ++ l2). split; [|auto].
  assert (HP : Permutation (flat_map ids (r :: l1 ++ rb :: l2)) (flat_map ids (r :: rb :: l1 ++ l2))).
  { simpl. apply Permutation_app_head. rewrite !flat_map_app. simpl. apply Permutation_app_swap_app. }
  unfold FParts. splits.
  - rewrite Forall_forall in *. intros x Hx. apply HFa.
    eapply Permutation_in; [apply perm_skip, Permutation_middle|exact Hx].
  - eapply Permutation_NoDup; eauto.
  - intros j Hj. eapply Permutation_in; [exact HP|]. auto.
Qed.

(* merging two ROOTS (two components) under a fresh root: possible on forests only *)
Lemma merge_roots_forest t c1 c2 n1 n2 e1 e2 nm :
  ForestS t -> get t c1 = Ok n1 -> get t c2 = Ok n2 -> nparent n1 = None -> nparent n2 = None -> c1 <> c2 ->
  exists t8, merge_chain (t ++ [set_nid (new_node None None) (length t)]) (length t) c1 c2 e1 e2 nm = Ok t8 /\
             ForestS t8.
Proof.
  intros [Hwf Hse] Hg1 Hg2 Hp1 Hp2 Hc12.
  apply get_Ok in Hg1 as [Hn1 Hd1]. apply get_Ok in Hg2 as [Hn2 Hd2].
  assert (Hl1 : live t c1) by (exists n1; auto). assert (Hl2 : live t c2) by (exists n2; auto).
  destruct (forest_pick2 t c1 c2 Hwf Hl1 Hl2)
    as [(r & others & (HFa & _ & _) & Ha & Hb)|(r1 & r2 & others & (HFa & HNa & HLa) & Ha & Hb)].
  { exfalso. apply Forall_cons_iff in HFa as [HR _]. apply Hc12.
    rewrite (Rep_root_unique _ _ _ _ _ _ _ HR Ha Hn1 Hp1), (Rep_root_unique _ _ _ _ _ _ _ HR Hb Hn2 Hp2). reflexivity. }
  apply Forall_cons_iff in HFa as [HR1 HFa]. apply Forall_cons_iff in HFa as [HR2 HFo].
  simpl in HNa, HLa. apply NoDup_app_iff in HNa as (Hnd1 & HNa & Hd1o).
  apply NoDup_app_iff in HNa as (Hnd2 & HNo & Hd2o).
  pose proof (Rep_root_unique _ _ _ _ _ _ _ HR1 Ha Hn1 Hp1) as E1.
  pose proof (Rep_root_unique _ _ _ _ _ _ _ HR2 Hb Hn2 Hp2) as E2.
  rewrite <- E1 in HR1. rewrite <- E2 in HR2.
  set (new := length t).
  assert (Hnew : forall j, live t j -> j <> new). { intros j Hj. apply live_lt in Hj. unfold new. lia. }
  assert (Hr1l : forall j, In j (ids r1) -> live t j) by (intros j Hj; exact (Rep_ids_live _ _ _ _ _ _ HR1 Hj)).
  assert (Hr2l : forall j, In j (ids r2) -> live t j) by (intros j Hj; exact (Rep_ids_live _ _ _ _ _ _ HR2 Hj)).
  assert (Hol : forall j, In j (flat_map ids others) -> live t j).
  { intros j Hj. apply in_flat_map in Hj as (o & Ho & Hj). rewrite Forall_forall in HFo.
    eapply Rep_ids_live; [apply HFo; eauto|auto]. }
  assert (H12 : forall j, In j (ids r1) -> ~ In j (ids r2)).
  { intros j Hj Hj'. apply (Hd1o j); auto. apply in_or_app; auto. }
  assert (H1o : forall j, In j (ids r1) -> ~ In j (flat_map ids others)).
  { intros j Hj Hj'. apply (Hd1o j); auto. apply in_or_app; auto. }
  assert (Hc1n : c1 <> new) by (apply Hnew; auto). assert (Hc2n : c2 <> new) by (apply Hnew; auto).
  assert (Hc21 : c2 <> c1) by congruence.
  assert (Hlt1 : c1 < length t) by (apply live_lt; auto).
  assert (Hlt2 : c2 < length t) by (apply live_lt; auto).
  set (Y0 := set_nid (new_node None None) new : node).
  set (XN := set_nname (node_add_child (node_add_child Y0 c1 e1) c2 e2) nm).
  set (A := node_set_parent n1 new e1). set (B := node_set_parent n2 new e2).
  set (T1 := t ++ [Y0]).
  set (t4 := replace_nth c2 B (replace_nth c1 A (replace_nth new XN T1))).
  assert (HlenT1 : length T1 = S new) by (unfold T1; rewrite app_length; simpl; unfold new; lia).
  assert (Hg_new : get T1 new = Ok Y0) by (apply get_app_last; reflexivity).
  assert (Hg_c1 : get (replace_nth new XN T1) c1 = Ok n1).
  { apply get_Ok. split; auto. slot. unfold T1. rewrite nth_error_app_lt; auto. }
  assert (Hg_c2 : get (replace_nth c1 A (replace_nth new XN T1)) c2 = Ok n2).
  { apply get_Ok. split; auto. slot. unfold T1. rewrite nth_error_app_lt; auto. }
  assert (S_new : nth_error t4 new = Some XN) by (unfold t4; slot; auto).
  assert (S_c1 : nth_error t4 c1 = Some A) by (unfold t4; slot; auto).
  assert (S_c2 : nth_error t4 c2 = Some B) by (unfold t4; slot; auto).
  assert (S_o : forall j, j <> new -> j <> c1 -> j <> c2 -> nth_error t4 j = nth_error t j).
  { intros j H1 H2 H3. unfold t4. slot. unfold T1. destruct (Nat.lt_ge_cases j (length t)).
    - apply nth_error_app_lt; auto.
    - rewrite (proj2 (nth_error_None t j)) by auto. apply nth_error_None. rewrite app_length. simpl.
      unfold new in H1. lia. }
  assert (Hg_new4 : get t4 new = Ok XN)
    by (apply get_Ok; split; auto; unfold XN, Y0; destruct e1, e2; reflexivity).
  unfold merge_chain. fold new. fold Y0. fold T1.
  rewrite (upd_Ok _ _ _ _ Hg_new), bind_ret.
  rewrite (upd_Ok _ _ _ _ Hg_c1), bind_ret.
  rewrite (upd_Ok _ _ _ _ Hg_c2), bind_ret.
  fold XN A B t4. rewrite Hg_new4, bind_ret.
  assert (nid XN = new /\ nparent XN = None /\ ndeleted XN = false /\ nchildren XN = [c1; c2] /\ ndepth XN = 0)
    as (W1 & W2 & W4 & W5 & W6) by (unfold XN, Y0; destruct e1, e2; simpl; auto 10).
  rewrite W6.
  set (R := RT new [r1; r2]).
  assert (HinR : forall j, In j (ids R) <-> j = new \/ In j (ids r1) \/ In j (ids r2)).
  { intros j. unfold R. rewrite ids_RT. simpl. rewrite app_nil_r, in_app_iff. intuition. }
  assert (HR0 : Rep0 t4 None new R).
  { apply Rep0_node with (n := XN); auto.
    - rewrite W5. constructor; [|constructor; [|constructor]].
      + eapply Rep0_reparent; eauto. intros j Hj Hjc. apply S_o; auto.
        intros ->. apply (H12 c2); auto.
      + eapply Rep0_reparent; eauto. intros j Hj Hjc. apply S_o; auto.
        intros ->. apply (H12 c1); auto.
    - intros c nc Hc Hnc. rewrite W5 in Hc. destruct Hc as [<-|[<-|[]]].
      + assert (nc = A) by congruence. subst nc. unfold XN. simpl.
        rewrite nac_edge_neq by auto. apply nac_edge_eq. reflexivity.
      + assert (nc = B) by congruence. subst nc. unfold XN. simpl.
        apply nac_edge_eq. rewrite nac_edge_neq by auto. reflexivity.
    - intros c Hc. rewrite W5. unfold XN in Hc. simpl in Hc.
      destruct (Nat.eq_dec c c2) as [->|Hcc2]; [simpl; auto|]. rewrite nac_edge_neq in Hc by auto.
      destruct (Nat.eq_dec c c1) as [->|Hcc1]; [simpl; auto|]. rewrite nac_edge_neq in Hc by auto.
      simpl in Hc. congruence. }
  assert (HndR : NoDup (ids R)).
  { unfold R. rewrite ids_RT. simpl. rewrite app_nil_r. apply NoDup_cons_iff. split.
    - intros Hin. apply in_app_or in Hin as [Hin|Hin]; apply (Hnew new); auto.
    - apply NoDup_app_iff. splits; auto. }
  assert (HoR : forall j, In j (flat_map ids others) -> ~ In j (ids R)).
  { intros j Hj HjR. apply HinR in HjR as [->|[H|H]].
    - apply (Hnew new); auto.
    - apply (H1o j); auto.
    - apply (Hd2o j); auto. }
  destruct (reset_depth_f_spec R (fuel_of t4) t4 None new 0 HR0 HndR (Rep0_height_fuel _ _ _ _ HR0 HndR))
    as (t5 & Hr & HR5 & Hlen & Hfr5 & Hdo).
  exists t5. split; auto. split.
  - apply (forest_rebuild t t5 others [R]); auto.
    + intros j Hj. rewrite Hfr5 by (apply HoR; auto). apply S_o.
      * apply Hnew; auto.
      * intros ->. apply (H1o c1); auto.
      * intros ->. apply (Hd2o c2); auto.
    + cbn [flat_map]. rewrite app_nil_r. exact HndR.
    + cbn [flat_map]. rewrite app_nil_r. intros j HjR Hjo. apply (HoR j); auto.
    + intros j Hj. cbn [flat_map]. rewrite app_nil_r. eapply depth_only_live_inv in Hj; eauto.
      rewrite HinR.
      destruct (Nat.eq_dec j new) as [->|Hjn]; [auto|].
      destruct (Nat.eq_dec j c1) as [->|Hj1]; [auto|].
      destruct (Nat.eq_dec j c2) as [->|Hj2]; [auto|].
      assert (Hlj : live t j). { destruct Hj as (nj & Hnj & Hdj). rewrite S_o in Hnj by auto. exists nj; auto. }
      apply HLa in Hlj. apply in_app_or in Hlj as [H|H]; [auto|]. apply in_app_or in H as [H|H]; auto.
  - eapply SortedEdges_depth_only; eauto. unfold t4. repeat apply SortedEdges_replace.
    + unfold T1. apply SortedEdges_app; auto. constructor.
    + unfold XN. simpl. apply nac_sorted, nac_sorted. constructor.
    + unfold A. simpl. eauto.
    + unfold B. simpl. eauto.
Qed.

Theorem merge_children_spF t c1 c2 e1 e2 pe nm :
  ForestS t ->
  safe (fst (merge_children t c1 c2 e1 e2 pe nm)) /\ ForestS (snd (merge_children t c1 c2 e1 e2 pe nm)).
Proof.
  intros Hwfs. pose proof Hwfs as [Hwf Hse]. unfold merge_children.
  pose proof (get_safe t c1) as Hs1.
  destruct (get t c1) as [n1|err1| |] eqn:Hg1; simpl in Hs1; try contradiction; [|simpl; auto].
  pose proof (get_safe t c2) as Hs2.
  destruct (get t c2) as [n2|err2| |] eqn:Hg2; simpl in Hs2; try contradiction; [|simpl; auto].
  destruct (negb (onat_eqb (nparent n1) (nparent n2))) eqn:Hpar; [simpl; auto|].
  destruct (Nat.eqb c1 c2) eqn:Hc12; [simpl; auto|].
  apply Nat.eqb_neq in Hc12. apply Bool.negb_false_iff in Hpar.
  destruct (nparent n1) as [pid|] eqn:Hp1.
  - destruct (nparent n2) as [pid2|] eqn:Hp2; simpl in Hpar; [|discriminate].
    apply Nat.eqb_eq in Hpar. subst pid2.
    destruct (Forest_parent_of _ _ _ _ Hwf Hg1 Hp1) as (nP & HgP & Hc1).
    destruct (Forest_parent_of _ _ _ _ Hwf Hg2 Hp2) as (nP' & HgP' & Hc2).
    assert (nP' = nP) by congruence. subst nP'.
    destruct (nrc_Some nP c1 Hc1) as (pn1 & l1 & l2 & Hrm1 & Hs1' & _ & Hch1 & _).
    assert (Hc2' : In c2 (nchildren pn1)).
    { rewrite Hch1. rewrite Hs1' in Hc2. apply in_app_or in Hc2 as [?|[?|?]]; try congruence; apply in_or_app; auto. }
    destruct (nrc_Some pn1 c2 Hc2') as (pn2 & m1 & m2 & Hrm2 & _).
    destruct (merge_chain_forest t pid nP c1 c2 n1 n2 e1 e2 pe nm pn1 pn2 Hwfs HgP Hg1 Hg2 Hc1 Hc2 Hc12 Hrm1 Hrm2)
      as (t8 & Hchain & Hwf8).
    rewrite HgP. simpl. rewrite Hrm1, Hrm2.
    assert (HgP2 : get (replace_nth pid pn2 t) pid = Ok pn2).
    { apply get_Ok in HgP as [HnP HdP]. apply get_Ok. split.
      - eapply nth_error_replace_nth_eq'; eauto.
      - destruct (nrc_inv _ _ _ Hrm1) as (? & ? & _ & _ & _ & _ & _ & _ & _ & _ & Q1).
        destruct (nrc_inv _ _ _ Hrm2) as (? & ? & _ & _ & _ & _ & _ & _ & _ & _ & Q2). congruence. }
    rewrite (add_child_Ok _ _ _ _ _ _ HgP2). rewrite replace_nth_length.
    unfold merge_chain in Hchain. cbv iota beta. rewrite Hchain. simpl. auto.
  - destruct (nparent n2) eqn:Hp2; simpl in Hpar; [discriminate|].
    destruct (merge_roots_forest t c1 c2 n1 n2 e1 e2 nm Hwfs Hg1 Hg2 Hp1 Hp2 Hc12) as (t8 & Hchain & HF8).
    unfold add. unfold merge_chain in Hchain. cbv iota beta. rewrite Hchain. simpl. auto.
Qed.

Theorem merge_children_safeF t c1 c2 e1 e2 pe nm :
  ForestS t -> safe (fst (merge_children t c1 c2 e1 e2 pe nm)).
Proof. intros HF. apply merge_children_spF; auto. Qed.

Theorem merge_children_forest t c1 c2 e1 e2 pe nm :
  ForestS t -> ForestS (snd (merge_children t c1 c2 e1 e2 pe nm)).
Proof. intros HF. apply merge_children_spF; auto. Qed.

(* ---- compress ----------------------------------------------------------------------------------------------- *)
Lemma sp_bind_eq {A B} (P : B -> Prop) (o : outcome A) (f : A -> outcome B) :
  safe o -> (forall a, o = Ok a -> sp P (f a)) -> sp P (bind o f).
Proof. destruct o; simpl; auto; contradiction. Qed.

Variable O : LenOps L.

Lemma compress_node_spF t id : ForestS t -> sp ForestS (compress_node O t id).
Proof.
  intros [Hwf Hse]. unfold compress_node.
  apply sp_bind_eq; [apply get_safe|]. intros n Hgn.
  destruct (nparent n) as [P|] eqn:Hpar; [|exact I].
  destruct (nchildren n) as [|child [|]] eqn:Hchn; try exact I.
  match goal with |- sp _ (match ?X with _ => _ end) => destruct X as [new_edge|] eqn:Hne; [|exact I] end.
  clear Hne.
  apply sp_bind_eq; [apply upd_safe|]. intros t1 Ht1.
  apply sp_bind_eq; [apply upd_safe|]. intros t2 Ht2.
  apply sp_bind_eq; [apply get_safe|]. intros pn Hpn.
  apply sp_bind_eq; [destruct (node_remove_child pn id); exact I|]. intros t3 Ht3.
  apply sp_bind_eq; [apply get_safe|]. intros nid3 Hg3.
  apply sp_bind_eq; [apply get_safe|]. intros pn4 Hpn4.
  (* structure of the tree around id *)
  pose proof Hgn as Hgn'. apply get_Ok in Hgn' as [Hn Hdeln].
  assert (Hlid : live t id) by (exists n; auto).
  destruct (forest_comp t id Hwf Hlid) as (r & HR & Hnd & Hidr).
  assert (Hidroot : id <> rid r).
  { intros ->. destruct (Rep_inv _ _ _ _ _ HR) as (n0 & ? & _ & Hn0 & _ & _ & Hp0 & _). congruence. }
  destruct (Rep_parent _ _ _ _ _ _ HR Hidr Hidroot) as (P' & nP & nx & HPr & HnP & HdP & Hnx & Hpx & HidP).
  assert (nx = n) by congruence. subst nx. assert (P' = P) by congruence. subst P'.
  assert (HlP : live t P) by (exists nP; auto).
  destruct (Forest_edit t P Hwf HlP)
    as (all & sP & pp & dp & rest & _ & Hlive' & HRP & Hperm & HndP & Hndr & Hdisj & Hrl & Hk).
  destruct (Rep_inv _ _ _ _ _ HRP) as (nP0 & cs & -> & HnP0 & _ & FidP & FparP & FdepP & HF & He1 & He2).
  assert (nP0 = nP) by congruence. subst nP0.
  destruct (Forall2_In_l _ _ _ _ HF HidP) as (s_id & Hsid & HRid).
  destruct (Rep_inv _ _ _ _ _ HRid) as (n0 & ccs & -> & Hn0 & _ & _ & _ & Fdepn & HFc & He1n & He2n).
  assert (n0 = n) by congruence. subst n0.
  rewrite Hchn in HFc. apply Forall2_singleton_l in HFc as (sc & -> & HRc).
  rewrite ids_RT in HndP. apply NoDup_cons_iff in HndP as [HPn Hndcs].
  pose proof (NoDup_flat_map_in _ _ _ Hndcs Hsid) as Hndsid.
  rewrite ids_RT in Hndsid. simpl in Hndsid. rewrite app_nil_r in Hndsid.
  apply NoDup_cons_iff in Hndsid as [Hidsc Hndsc].
  pose proof (Forall2_Rep_rid _ _ _ _ _ HF) as Hch.
  assert (Hchild_sc : In child (ids sc)). { rewrite <- (Rep_rid _ _ _ _ _ HRc). apply In_rid_ids. }
  assert (Hsc_sid : forall j, In j (ids sc) -> In j (ids (RT id [sc]))).
  { intros j Hj. rewrite ids_RT. simpl. rewrite app_nil_r. auto. }
  assert (Hsid_cs : forall j, In j (ids (RT id [sc])) -> In j (flat_map ids cs)).
  { intros j Hj. apply in_flat_map. eauto. }
  assert (Hid_sid : In id (ids (RT id [sc]))) by (rewrite ids_RT; simpl; auto).
  assert (HidP' : id <> P) by (intros ->; auto).
  assert (HchildP : child <> P) by (intros ->; auto).
  assert (Hchildid : child <> id) by (intros Heq; apply Hidsc; rewrite <- Heq; auto).
  set (keep := fun k => negb (Nat.eqb k id)).
  set (cs_keep := filter (fun s => keep (rid s)) cs).
  set (ks' := filter keep (nchildren nP)).
  assert (Hkeep_sid : forall s j, In s cs_keep -> In j (ids s) -> ~ In j (ids (RT id [sc]))).
  { intros s j Hs Hj Hj'. apply filter_In in Hs as [Hs Hks].
    assert (s = RT id [sc]) by (apply (flat_map_NoDup_inj ids cs s (RT id [sc]) j); auto). subst s.
    unfold keep in Hks. simpl in Hks. rewrite Nat.eqb_refl in Hks. discriminate. }
  assert (Hchild_nP : ~ In child (nchildren nP)).
  { rewrite Hch. intros Hin. apply in_map_iff in Hin as (s & Hrs & Hs).
    assert (s = RT id [sc]).
    { apply (flat_map_NoDup_inj ids cs s (RT id [sc]) child); auto. rewrite <- Hrs. apply In_rid_ids. }
    subst s. simpl in Hrs. congruence. }
  assert (Hnone : edge_get (nedges nP) child = None).
  { destruct (edge_get (nedges nP) child) eqn:E; auto. exfalso. apply Hchild_nP. apply He2. congruence. }
  (* the arenas *)
  apply upd_inv in Ht1 as (nc & Hgc & ->).
  pose proof Hgc as Hgc'. apply get_Ok in Hgc' as [Hnc Hdelc].
  apply upd_inv in Ht2 as (x & Hgx & ->).
  assert (x = nP). { apply get_Ok in Hgx as [Hx _]. revert Hx. slot. congruence. } subst x.
  assert (HltP : P < length t) by (eapply nth_error_Some_lt; eauto).
  assert (Hltid : id < length t) by (eapply nth_error_Some_lt; eauto).
  assert (Hltc : child < length t) by (eapply nth_error_Some_lt; eauto).
  assert (pn = node_add_child nP child new_edge).
  { apply get_Ok in Hpn as [Hx _]. revert Hx. slot. congruence. } subst pn.
  destruct (node_remove_child (node_add_child nP child new_edge) id) as [pn'|] eqn:Hrm; [|discriminate].
  injection Ht3 as <-.
  destruct (nac_fields nP child new_edge) as (Gid & Gpar & Gpe & Gdep & Gdel & Gch).
  destruct (nrc_inv _ _ _ Hrm) as (l1 & l2 & Hsplit & Hnl1 & Hch' & Hed' & Fid & Fpar & Fpe & Fdep & Fdel).
  assert (Hndch : NoDup (nchildren nP ++ [child])).
  { apply NoDup_app_iff. splits.
    - rewrite Hch. apply NoDup_map_rid; auto.
    - repeat constructor. simpl; tauto.
    - intros j Hj [<-|[]]. auto. }
  assert (Hch'' : nchildren pn' = ks' ++ [child]).
  { rewrite Hch'. rewrite <- (filter_remove_first _ l1 l2 id Hndch); [|congruence].
    rewrite filter_app. simpl. replace (Nat.eqb child id) with false by (symmetry; apply Nat.eqb_neq; auto).
    reflexivity. }
  set (t4 := replace_nth id tombstone
               (replace_nth P pn' (replace_nth P (node_add_child nP child new_edge)
                  (replace_nth child (node_set_parent nc P new_edge) t)))) in *.
  assert (S_id : nth_error t4 id = Some tombstone) by (unfold t4; slot; auto).
  assert (S_P : nth_error t4 P = Some pn') by (unfold t4; slot; auto).
  assert (S_c : nth_error t4 child = Some (node_set_parent nc P new_edge)) by (unfold t4; slot; auto).
  assert (S_o : forall j, j <> id -> j <> P -> j <> child -> nth_error t4 j = nth_error t j)
    by (intros; unfold t4; slot; auto).
  assert (pn4 = pn'). { apply get_Ok in Hpn4 as [Hx _]. congruence. } subst pn4.
  assert (Hdp : ndepth pn' = dp) by congruence.
  rewrite Hdp.
  assert (Hks'_in : forall c, In c ks' -> In c (nchildren nP) /\ c <> id).
  { intros c Hc. apply filter_In in Hc as [Hc Hkc]. split; auto. unfold keep in Hkc.
    intros ->. rewrite Nat.eqb_refl in Hkc. discriminate. }
  assert (Hkeep_cs : forall j, In j (flat_map ids cs_keep) -> In j (flat_map ids cs))
    by (intros j; apply flat_map_filter_incl).
  assert (Hkeep_ne : forall j, In j (flat_map ids cs_keep) -> j <> id /\ j <> child /\ j <> P).
  { intros j Hj. pose proof (Hkeep_cs _ Hj) as Hj'. apply in_flat_map in Hj as (s & Hs & Hjs).
    splits; intros ->; auto; eapply Hkeep_sid; eauto. }
  destruct (regroupF t t4 P pp dp rest nP pn' ks' cs_keep child sc) as (t5 & Hr5 & Hwfs5); auto; try congruence.
  - eapply Forall2_filter; eauto. intros a b Hab. simpl. rewrite (Rep_rid _ _ _ _ _ Hab). auto.
  - intros c nc0 Hc Hnc0. apply Hks'_in in Hc as [Hc Hcid].
    rewrite Hed', edge_get_remove_neq by auto. rewrite nac_edge_neq by congruence. eauto.
  - apply NoDup_cons_iff. split.
    + intros Hin. apply HPn. auto.
    + apply NoDup_flat_map_filter. auto.
  - intros j Hj. apply Hdisj. apply in_ids_RT. destruct Hj as [->|Hj]; auto.
  - intros j Hj. apply S_o; intros ->; eapply Hdisj; eauto; apply in_ids_RT; auto.
  - intros j Hj. apply Hkeep_ne in Hj as (? & ? & ?). apply S_o; auto.
  - intros na Hna. assert (na = node_set_parent nc P new_edge) by congruence. subst na. simpl.
    rewrite Hed', edge_get_remove_neq by auto. apply nac_edge_eq. auto.
  - intros c Hc. rewrite Hed' in Hc. rewrite Hch''.
    assert (Hcid : c <> id).
    { intros ->. rewrite edge_get_remove_eq in Hc; [congruence|]. apply nac_sorted. eauto. }
    rewrite edge_get_remove_neq in Hc by auto. apply in_or_app.
    destruct (Nat.eq_dec c child) as [->|Hcc]; [right; simpl; auto|left].
    rewrite nac_edge_neq in Hc by auto. apply filter_In. split; auto.
    unfold keep. apply Nat.eqb_neq in Hcid. rewrite Hcid. reflexivity.
  - eapply Rep0_reparent; eauto. intros j Hj Hjc. apply S_o; auto; intros ->; auto.
  - intros j Hj. splits.
    + intros ->. auto.
    + intros Hj'. apply in_flat_map in Hj' as (s & Hs & Hjs). eapply Hkeep_sid; eauto.
    + apply Hdisj. apply in_ids_RT. auto.
  - unfold t4. repeat apply SortedEdges_replace; auto.
    + simpl. eauto.
    + apply nac_sorted. eauto.
    + rewrite Hed'. apply ksorted_remove. apply nac_sorted. eauto.
    + apply tombstone_sorted.
  - intros j Hj.
    assert (Hjid : j <> id). { intros ->. destruct Hj as (nj & Hnj & Hdj). rewrite S_id in Hnj. injection Hnj as <-. discriminate. }
    destruct (Nat.eq_dec j P) as [->|HjP]; auto.
    assert (Hlj : live t j).
    { destruct (Nat.eq_dec j child) as [->|Hjc]; [exists nc; auto|].
      destruct Hj as (nj & Hnj & Hdj). rewrite S_o in Hnj by auto. exists nj; auto. }
    apply Hlive' in Hlj. eapply Permutation_in in Hlj; [|exact Hperm].
    apply in_app_or in Hlj as [Hlj|Hlj]; auto.
    apply in_ids_RT in Hlj as [?|Hlj]; [congruence|].
    apply in_flat_map in Hlj as (s & Hs & Hjs).
    destruct (keep (rid s)) eqn:Hks.
    + right. left. apply in_flat_map. exists s. split; auto. apply filter_In. auto.
    + right. right. left. unfold keep in Hks. apply Bool.negb_false_iff, Nat.eqb_eq in Hks.
      assert (s = RT id [sc]) by (eapply rid_inj_in; eauto). subst s.
      apply in_ids_RT in Hjs as [?|Hjs]; [congruence|]. simpl in Hjs. rewrite app_nil_r in Hjs. auto.
  - rewrite Hr5. exact Hwfs5.
Qed.

Theorem compress_spF t : ForestS t -> safe (fst (compress O t)) /\ ForestS (snd (compress O t)).
Proof.
  unfold compress. generalize (map (@nid L) (filter (fun n => negb (ndeleted n) && negb (is_root n) && Nat.eqb (length (nchildren n)) 1) t)).
  intros l. revert t. induction l as [|i l IH]; intros t HF; simpl; [split; [exact I|exact HF]|].
  pose proof (compress_node_spF t i HF) as Hs.
  destruct (compress_node O t i) as [t'|err| |] eqn:E; simpl in Hs; try contradiction.
  - apply IH; auto.
  - simpl. split; [exact I|exact HF].
Qed.

Theorem compress_safeF t : ForestS t -> safe (fst (compress O t)).
Proof. intros HF. apply compress_spF; auto. Qed.

Theorem compress_forest t : ForestS t -> ForestS (snd (compress O t)).
Proof. intros HF. apply compress_spF; auto. Qed.

(* ---- resolve ------------------------------------------------------------------------------------------------ *)
(* one grouping step: the final depth recomputation succeeds (after WFOps.resolve_node_wf / group2_wf) *)
Lemma resolve_once_forest t node n c1 c2 n1 t2 t3 pn t4 n2 t5 t6 pn2 t7 pp :
  ForestS t -> get t node = Ok n -> In c1 (nchildren n) -> In c2 (nchildren n) -> c1 <> c2 ->
  let new := length t in
  let T1 := replace_nth node (node_add_child n new (Some (l0 O)))
              (t ++ [leaf_node new None None node (Some (l0 O)) (ndepth n + 1)]) in
  get T1 c1 = Ok n1 ->
  upd T1 new (fun x => node_add_child x c1 (npedge n1)) = Ok t2 ->
  upd t2 c1 (fun x => node_set_parent x new (npedge n1)) = Ok t3 ->
  get t3 node = Ok pn ->
  match node_remove_child pn c1 with Some pn' => Ok (replace_nth node pn' t3) | None => Err NodeError end = Ok t4 ->
  get t4 c2 = Ok n2 ->
  upd t4 new (fun x => node_add_child x c2 (npedge n2)) = Ok t5 ->
  upd t5 c2 (fun x => node_set_parent x new (npedge n2)) = Ok t6 ->
  get t6 node = Ok pn2 ->
  match node_remove_child pn2 c2 with Some pn' => Ok (replace_nth node pn' t6) | None => Err NodeError end = Ok t7 ->
  get t7 new = Ok pp ->
  exists t8, reset_depth_f (fuel_of t7) t7 new (ndepth pp) = Ok t8 /\ ForestS t8 /\
    exists nP', nth_error t8 node = Some nP' /\ S (length (nchildren nP')) = length (nchildren n).
Proof.
  intros Hwfs Hgn Hc1 Hc2 Hc12 new T1 Hg1 Ht2 Ht3 Hgpn Ht4 Hg2 Ht5 Ht6 Hgpn2 Ht7 Hgpp.
  pose proof Hwfs as [Hwf Hse]. pose proof Hgn as Hgn'. apply get_Ok in Hgn' as [Hn Hdn].
  destruct (Forest_node_facts t node n Hwf Hn Hdn) as (Hndch & Hchl & He2 & FidP).
  assert (HltP : node < length t) by (eapply nth_error_Some_lt; eauto).
  destruct (Hchl _ Hc1) as [Hl1 Hc1P]. destruct (Hchl _ Hc2) as [Hl2 Hc2P].
  assert (Hlt1 : c1 < length t) by (apply live_lt; auto).
  assert (Hlt2 : c2 < length t) by (apply live_lt; auto).
  assert (Hc1n : c1 <> new) by (unfold new; lia). assert (Hc2n : c2 <> new) by (unfold new; lia).
  assert (HPn : node <> new) by (unfold new; lia).
  set (pe := Some (l0 O)) in *.
  set (Y := leaf_node new None None node pe (ndepth n + 1)) in *.
  set (XP0 := node_add_child n new pe) in *.
  destruct (slots_add_leaf t node XP0 Y HltP) as (HsP & Hsnew & Hsfr & Hslen).
  fold T1 in HsP, Hsnew, Hsfr, Hslen. fold new in Hsnew, Hsfr.
  apply get_Ok in Hg1 as [Hn1 Hd1]. rewrite Hsfr in Hn1 by auto.
  set (e1 := npedge n1) in *.
  assert (Hg_new : get T1 new = Ok Y) by (apply get_Ok; auto).
  rewrite (upd_Ok _ _ _ _ Hg_new) in Ht2. injection Ht2 as <-.
  assert (Hg_c1 : get (replace_nth new (node_add_child Y c1 e1) T1) c1 = Ok n1).
  { apply get_Ok. split; auto. slot. rewrite Hsfr by auto. auto. }
  rewrite (upd_Ok _ _ _ _ Hg_c1) in Ht3. injection Ht3 as <-.
  set (A := node_set_parent n1 new e1) in *.
  assert (pn = XP0). { apply get_Ok in Hgpn as [Hx _]. revert Hx. slot. congruence. } subst pn.
  destruct (node_remove_child XP0 c1) as [pn'|] eqn:Hrm1; [|discriminate]. injection Ht4 as <-.
  apply get_Ok in Hg2 as [Hn2 Hd2]. revert Hn2. slot. rewrite Hsfr by auto. intros Hn2.
  set (e2 := npedge n2) in *.
  set (t4' := replace_nth node pn' (replace_nth c1 A (replace_nth new (node_add_child Y c1 e1) T1))) in *.
  assert (Hg_new4 : get t4' new = Ok (node_add_child Y c1 e1)).
  { apply get_Ok. split; [unfold t4'; slot; auto|]. unfold Y. destruct e1; reflexivity. }
  rewrite (upd_Ok _ _ _ _ Hg_new4) in Ht5. injection Ht5 as <-.
  set (XN := node_add_child (node_add_child Y c1 e1) c2 e2) in *.
  assert (Hg_c2 : get (replace_nth new XN t4') c2 = Ok n2).
  { apply get_Ok. split; auto. unfold t4'. slot. rewrite Hsfr by auto. auto. }
  rewrite (upd_Ok _ _ _ _ Hg_c2) in Ht6. injection Ht6 as <-.
  set (B := node_set_parent n2 new e2) in *.
  assert (pn2 = pn'). { apply get_Ok in Hgpn2 as [Hx _]. revert Hx. unfold t4'. slot. congruence. } subst pn2.
  destruct (node_remove_child pn' c2) as [pn''|] eqn:Hrm2; [|discriminate]. injection Ht7 as <-.
  set (t7' := replace_nth node pn'' (replace_nth c2 B (replace_nth new XN t4'))) in *.
  assert (S_P : nth_error t7' node = Some pn'') by (unfold t7', t4'; slot; auto).
  assert (S_new : nth_error t7' new = Some XN) by (unfold t7', t4'; slot; auto).
  assert (S_c1 : nth_error t7' c1 = Some A) by (unfold t7', t4'; slot; auto).
  assert (S_c2 : nth_error t7' c2 = Some B) by (unfold t7', t4'; slot; auto).
  assert (S_o : forall j, j <> node -> j <> new -> j <> c1 -> j <> c2 -> nth_error t7' j = nth_error t j).
  { intros. unfold t7', t4'. slot. rewrite Hsfr by auto. auto. }
  assert (pp = XN). { apply get_Ok in Hgpp as [Hx _]. congruence. } subst pp.
  destruct (nac_fields n new pe) as (Gid & Gpar & Gpe & Gdep & Gdel & Gch).
  fold XP0 in Gid, Gpar, Gpe, Gdep, Gdel, Gch.
  assert (Hnew_none : edge_get (nedges n) new = None).
  { destruct (edge_get (nedges n) new) eqn:E; auto. exfalso.
    assert (Hin : In new (nchildren n)) by (apply He2; congruence).
    apply Hchl in Hin as [Hl _]. apply live_lt in Hl. unfold new in Hl. lia. }
  assert (Hnd0 : NoDup (nchildren XP0)).
  { rewrite Gch. apply NoDup_app_iff. splits; auto.
    - repeat constructor. simpl; tauto.
    - intros j Hj [<-|[]]. apply Hchl in Hj as [Hl _]. apply live_lt in Hl. unfold new in Hl. lia. }
  assert (Hks0 : ksorted (nedges XP0)) by (apply nac_sorted; eauto).
  destruct (nrc2_facts XP0 c1 c2 pn' pn'' Hnd0 Hks0 Hc12 Hrm1 Hrm2)
    as (F1 & F2 & F3 & F4 & F5 & Fch & Feo & Fe1 & Fe2 & Fks).
  assert (nid XN = new /\ nparent XN = Some node /\ npedge XN = pe /\ ndeleted XN = false /\
          nchildren XN = [c1; c2] /\ ndepth XN = ndepth n + 1) as (W1 & W2 & W3 & W4 & W5 & W6)
    by (unfold XN, Y; destruct e1, e2; simpl; auto 10).
  rewrite W6.
  destruct (group2_forest t t7' node n c1 c2 n1 n2 pe e1 e2 pn'' XN) as (t8' & Hr8 & Hwfs8); auto; try congruence.
  - rewrite Fch, Gch, filter_app. simpl.
    replace (Nat.eqb new c1) with false by (symmetry; apply Nat.eqb_neq; auto).
    replace (Nat.eqb new c2) with false by (symmetry; apply Nat.eqb_neq; auto). reflexivity.
  - intros c Hq1 Hq2 Hq3. rewrite Feo by auto. unfold XP0. apply nac_edge_neq; auto.
  - rewrite Feo by auto. unfold XP0. apply nac_edge_eq; auto.
  - unfold XN. rewrite nac_edge_neq by auto. apply nac_edge_eq. reflexivity.
  - unfold XN. apply nac_edge_eq. rewrite nac_edge_neq by auto. reflexivity.
  - unfold XN. intros c Hc.
    destruct (Nat.eq_dec c c2) as [->|Hcc2]; auto. rewrite nac_edge_neq in Hc by auto.
    destruct (Nat.eq_dec c c1) as [->|Hcc1]; auto. rewrite nac_edge_neq in Hc by auto.
    simpl in Hc. congruence.
  - unfold t7', t4'. repeat apply SortedEdges_replace.
    + apply SortedEdges_app; auto. constructor.
    + auto.
    + apply nac_sorted. constructor.
    + unfold A. simpl. eauto.
    + destruct (nrc_inv _ _ _ Hrm1) as (? & ? & _ & _ & _ & -> & _). apply ksorted_remove. auto.
    + unfold XN. apply nac_sorted, nac_sorted. constructor.
    + unfold B. simpl. eauto.
    + auto.
  - exists t8'. fold new in Hr8. split; [exact Hr8|]. split; [exact Hwfs8|].
    destruct (Effects.reset_depth_only _ _ _ _ _ Hr8) as [Hdo _].
    destruct (Hdo _ _ S_P) as (d' & Hd'). exists (set_ndepth pn'' d'). split; [exact Hd'|]. simpl.
    rewrite Fch, Gch, filter_app, app_length. simpl.
    replace (Nat.eqb new c1) with false by (symmetry; apply Nat.eqb_neq; auto).
    replace (Nat.eqb new c2) with false by (symmetry; apply Nat.eqb_neq; auto). simpl.
    pose proof (Effects.length_filter_keep2 (nchildren n) c1 c2 Hndch Hc1 Hc2 Hc12) as Hk2.
    unfold Effects.keep2 in Hk2. lia.
Qed.

Lemma resolve_node_spF : forall fuel t id ch,
  ForestS t -> 1 <= fuel -> (forall n, get t id = Ok n -> length (nchildren n) <= fuel + 2) ->
  sp (fun r => match r with Some (t', _) => ForestS t' | None => True end) (resolve_node_f O fuel t id ch).
Proof.
  induction fuel as [|f IH]; intros t id ch Hwfs Hf Hlen; [lia|].
  cbn [resolve_node_f].
  apply sp_bind_eq; [apply get_safe|]. intros n Hgn.
  destruct ch as [|[c1 c2] rest]; [exact I|].
  destruct (negb (mem_nat c1 (nchildren n) && mem_nat c2 (nchildren n) && negb (Nat.eqb c1 c2))) eqn:Hcond; [exact I|].
  apply Bool.negb_false_iff in Hcond. apply andb_prop in Hcond as [Hcond Hc12]. apply andb_prop in Hcond as [Hc1 Hc2].
  apply mem_nat_In in Hc1, Hc2. apply Bool.negb_true_iff, Nat.eqb_neq in Hc12.
  rewrite (add_child_Ok _ _ _ _ _ _ Hgn). rewrite bind_ret.
  apply sp_bind_eq; [apply get_safe|]. intros n1 Hg1.
  apply sp_bind_eq; [apply upd_safe|]. intros t2 Ht2.
  apply sp_bind_eq; [apply upd_safe|]. intros t3 Ht3.
  apply sp_bind_eq; [apply get_safe|]. intros pn Hgpn.
  apply sp_bind_eq; [destruct (node_remove_child pn c1); exact I|]. intros t4 Ht4.
  apply sp_bind_eq; [apply get_safe|]. intros n2 Hg2.
  apply sp_bind_eq; [apply upd_safe|]. intros t5 Ht5.
  apply sp_bind_eq; [apply upd_safe|]. intros t6 Ht6.
  apply sp_bind_eq; [apply get_safe|]. intros pn2 Hgpn2.
  apply sp_bind_eq; [destruct (node_remove_child pn2 c2); exact I|]. intros t7 Ht7.
  apply sp_bind_eq; [apply get_safe|]. intros pp Hgpp.
  destruct (resolve_once_forest t id n c1 c2 n1 t2 t3 pn t4 n2 t5 t6 pn2 t7 pp
              Hwfs Hgn Hc1 Hc2 Hc12 Hg1 Ht2 Ht3 Hgpn Ht4 Hg2 Ht5 Ht6 Hgpn2 Ht7 Hgpp)
    as (t8 & Ht8 & HF8 & nP' & HnP' & Hcnt).
  rewrite Ht8. rewrite bind_ret.
  destruct (Nat.leb (length (nchildren n) - 1) 2) eqn:Hle; [exact HF8|].
  apply Nat.leb_gt in Hle. pose proof (Hlen n Hgn) as Hn.
  apply IH; auto; [lia|].
  intros n' Hg'. apply get_Ok in Hg' as [Hn' _]. assert (n' = nP') by congruence. subst n'. lia.
Qed.

Theorem resolve_spF t ch :
  ForestS t -> sp (fun r => match r with Some t' => ForestS t' | None => True end) (resolve O t ch).
Proof.
  intros Hwfs. unfold resolve.
  eapply sp_bind with (Q := fun st : option (arena * list (nat * nat)) =>
                              match st with Some (t', _) => ForestS t' | None => True end).
  - apply sp_foldM; [|exact Hwfs]. intros [[s c]|] x Hs _; [|exact I].
    apply resolve_node_spF; auto; [unfold fuel_of; lia|].
    intros n Hg. apply get_Ok in Hg as [Hn Hd]. destruct Hs as [Hwf _].
    destruct (Forest_node_facts s x n Hwf Hn Hd) as (Hnd & Hl & _).
    pose proof (NoDup_bounded_length (nchildren n) (length s) Hnd) as Hb.
    unfold fuel_of. assert (length (nchildren n) <= length s); [|lia].
    apply Hb. intros c' Hc'. apply live_lt. apply Hl; auto.
  - intros [[t' [|]]|] H; simpl; auto.
Qed.

Theorem resolve_safeF t ch : ForestS t -> safe (resolve O t ch).
Proof. intros HF. eapply sp_safe, resolve_spF; auto. Qed.

Theorem resolve_forest t ch t' : ForestS t -> resolve O t ch = Ok (Some t') -> ForestS t'.
Proof. intros HF H. pose proof (resolve_spF t ch HF) as Hsp. rewrite H in Hsp. exact Hsp. Qed.

End ForestMutators.

(* ================================================================================================ *)
(* 4b. distance_matrix_recursive on forest arenas                                                     *)
(*   every row is computed by an undirected walk from a tip: it stays inside the tip's component      *)
(*   (DistMatrix.dmr_row needs that component only); the [Panic 19] / [Panic 20] sites need the leaf   *)
(*   index to have been built (all leaves named, pairwise different names)                            *)
(* ================================================================================================ *)
Section ForestDMR.
Context {L : Type}.
Variable O : LenOps L.
Notation arena := (@arena L).
Notation node := (@node L).
Notation tree := (@tree L).
Implicit Types (t : arena).

Lemma tip_in_rleaves t a na : forall r p d i,
  Rep t p d i r -> In a (ids r) -> nth_error t a = Some na -> nchildren na = [] -> In a (rleaves r).
Proof.
  induction r as [j cs IH] using rtree_ind'. intros p d i HR Hin Hna Htip.
  destruct (Rep_inv _ _ _ _ _ HR) as (n & cs' & Heq & Hn & _ & _ & _ & _ & HF & _).
  injection Heq as -> ->.
  apply in_ids_RT in Hin as [->|Hin].
  - assert (n = na) by congruence. subst n. rewrite Htip in HF. inversion HF. simpl. auto.
  - apply in_flat_map in Hin as (c & Hc & Hac).
    destruct (Forall2_In_r _ _ _ _ HF Hc) as (k & _ & HRc).
    rewrite Forall_forall in IH. pose proof (IH c Hc _ _ _ HRc Hac Hna Htip) as Hl.
    destruct cs' as [|c0 cs0]; [destruct Hc|]. cbn [rleaves]. apply in_flat_map. eauto.
Qed.

Definition lnameG t (i : nat) : option str := match get t i with Ok n => nname n | _ => None end.

Lemma mapM_lname t l : (forall x, In x l -> exists n, get t x = Ok n) ->
  mapM (fun i => match get t i with Ok n => Ok (nname n) | _ => Panic 1 end) l = Ok (map (lnameG t) l).
Proof.
  induction l as [|i l IH]; intros Hall; [reflexivity|].
  cbn [mapM map]. destruct (Hall i) as (n & Hg); [simpl; auto|].
  unfold lnameG at 1. rewrite Hg. cbn [bind].
  rewrite IH; [reflexivity|]. intros x Hx. apply Hall. simpl; auto.
Qed.

Lemma forest_leaf_names_eq t : Forest t -> get_leaf_names t = Ok (map (lnameG t) (get_leaves t)).
Proof.
  intros HF. unfold get_leaf_names. apply mapM_lname. intros x Hx. apply forest_leaves_live; auto.
Qed.

Lemma all_some_map {A} (l : list (option A)) :
  existsb (fun o => match o with None => true | Some _ => false end) l = false ->
  l = map Some (flat_map (fun o => match o with Some x => [x] | None => [] end) l).
Proof.
  induction l as [|[x|] l IH]; simpl; intros H; [reflexivity| |discriminate]. f_equal. auto.
Qed.

Lemma pairs_map_neq {A B} (f : A -> B) (l : list A) x y :
  NoDup (map f l) -> In (x, y) (pairs l) -> f x <> f y.
Proof.
  induction l as [|a l IH]; simpl; [tauto|]. intros Hnd Hin. apply NoDup_cons_iff in Hnd as [Ha Hnd].
  apply in_app_or in Hin as [Hin|Hin]; [|auto].
  apply in_map_iff in Hin as (z & [= <- <-] & Hz). intros E. apply Ha. rewrite E. apply in_map. auto.
Qed.

(* what a successful init_leaf_index says about the leaves *)
Lemma init_fresh_named t pc tc : Forest t -> init_leaf_index (mkTree t None pc) = Ok tc ->
  (forall i, In i (get_leaves t) -> lnameG t i <> None) /\ NoDup (map (lnameG t) (get_leaves t)).
Proof.
  intros HF H. destruct t as [|x0 a0] eqn:Et; [discriminate|]. rewrite <- Et in *.
  assert (Hne : t <> []) by (rewrite Et; discriminate). clear Et.
  rewrite Splits.init_leaf_index_unfold in H by exact Hne. cbn [leaf_index nodes partitions] in H.
  unfold has_unique_tip_names in H. rewrite (forest_leaf_names_eq t HF) in H. cbn [bind] in H.
  set (names := map (lnameG t) (get_leaves t)) in *.
  destruct (Nat.eqb (length names) (n_leaves t)) eqn:Elen; simpl in H; [|discriminate].
  destruct (existsb _ names) eqn:Eex; [discriminate|]. cbn [bind] in H.
  set (ns := flat_map (fun o : option str => match o with Some x => [x] | None => [] end) names) in *.
  destruct (Nat.eqb (length (dedup_str ns)) (n_leaves t)) eqn:Eu; simpl in H; [|discriminate]. clear H.
  pose proof (all_some_map names Eex) as Hnames. fold ns in Hnames.
  split.
  - intros i Hi E. assert (Hin : In (lnameG t i) names) by (apply in_map; auto).
    rewrite E, Hnames in Hin. apply in_map_iff in Hin as (z & Hz & _). discriminate.
  - apply Nat.eqb_eq in Eu.
    assert (Hl : length ns = n_leaves t).
    { apply Nat.eqb_eq in Elen. rewrite <- Elen. rewrite Hnames. rewrite map_length. reflexivity. }
    rewrite Hnames. apply FinFun.Injective_map_NoDup; [intros u v E; congruence|].
    apply Splits.dedup_str_length_NoDup. congruence.
Qed.

Theorem distance_matrix_recursive_safeF t : Forest t -> safe (distance_matrix_recursive O (tree_of t)).
Proof.
  intros HF. rewrite dmr_unfold. unfold tree_of. cbn [nodes].
  pose proof (init_fresh_spF t None HF) as Hsp.
  destruct (init_leaf_index (mkTree t None None)) as [c1|e| |] eqn:Ei; simpl in Hsp; try contradiction; [|exact I].
  destruct Hsp as (li & _ & _ & ->). cbn [bind leaf_index].
  destruct (init_fresh_named t None _ HF Ei) as (Hnamed & Hnd).
  apply safe_bind; [|intros; exact I].
  unfold dmr_body. cbv zeta. destruct (negb _); [exact I|].
  apply safe_bind.
  { apply safe_mapM. intros tip Htip. apply safe_bind; [|intros; exact I].
    unfold get_leaves in Htip. destruct (forest_scan_live t _ tip HF Htip) as (n & Hn & Hd & Ht).
    assert (Hl : live t tip) by (exists n; auto).
    destruct (forest_comp t tip HF Hl) as (r & HR & HN & Hin).
    assert (Hlf : In tip (rleaves r)).
    { eapply tip_in_rleaves; eauto. unfold is_tip in Ht. destruct (nchildren n); [reflexivity|discriminate]. }
    pose proof (DistMatrix.dmr_row O t _ r HR HN tip Hlf) as Hrow.
    destruct (dmr_impl O (S (S (length t))) t tip None (repeat (linf O) (length t)) (l0 O)); simpl in Hrow |- *; auto; contradiction. }
  intros rows _. apply safe_bind; [|intros; exact I].
  apply safe_foldM. intros cells [x y] Hp. cbn [fst snd].
  pose proof (pairs_map_neq (lnameG t) _ x y Hnd Hp) as Hneq.
  apply in_pairs in Hp as [Hx Hy].
  pose proof (Hnamed x Hx) as Hnx. pose proof (Hnamed y Hy) as Hny.
  unfold lnameG in Hneq, Hnx, Hny.
  destruct (get t x) as [n1| | |]; try (exfalso; apply Hnx; reflexivity). cbn [bind].
  destruct (get t y) as [n2| | |]; try (exfalso; apply Hny; reflexivity). cbn [bind].
  destruct (nname n1) as [a1|]; [|congruence]. destruct (nname n2) as [a2|]; [|congruence].
  destruct (str_eqb a1 a2) eqn:E; [apply Tril.str_eqb_eq in E; congruence|].
  destruct (find_str a1 li); [|exact I]. destruct (find_str a2 li); exact I.
Qed.

End ForestDMR.

(* ================================================================================================ *)
(* 5. summary                                                                                         *)
(* ================================================================================================ *)
Section C20Forest.
Context {L : Type}.
Variable O : LenOps L.
Notation arena := (@arena L).
Notation node := (@node L).

(* (a) queries on one forest arena: every id / pair of ids / bit list / format *)
Theorem C20F_queries (t : arena) : Forest t ->
  (forall i, safe (preorder t i) /\ safe (postorder t i) /\ safe (inorder t i) /\ safe (levelorder t i) /\
             safe (get_subtree t i) /\ safe (get_descendants t i) /\ safe (get_subtree_leaves t i) /\
             safe (get_path_from_root t i) /\ safe (get_partition (tree_of t) i)) /\
  (forall a b, safe (get_common_ancestor t a b) /\ safe (get_distance O t a b)) /\
  safe (get_root t) /\ safe (is_rooted t) /\ safe (is_binary t) /\
  safe (cherries t) /\ safe (colless t) /\ safe (sackin t) /\
  safe (height O t) /\ safe (diameter O t) /\ safe (length_ O t) /\
  safe (get_leaf_names t) /\ safe (has_unique_tip_names t) /\ safe (init_leaf_index (tree_of t)) /\
  safe (get_partitions O (tree_of t)) /\ safe (get_partitions_with_lengths O (tree_of t)) /\
  (forall b, safe (partition_to_leaves (tree_of t) b)) /\
  safe (distance_matrix O t) /\ safe (distance_matrix_recursive O (tree_of t)) /\
  safe (to_newick t) /\ (forall f, safe (to_formatted_newick t f)) /\ safe (to_nexus t) /\
  safe (radial_layout O t).
Proof.
  intros HF.
  split; [intros i; repeat split|]; [apply preorder_safeF|apply postorder_safeF|apply inorder_safeF|
    apply levelorder_safeF|apply get_subtree_safeF|apply get_descendants_safeF|apply get_subtree_leaves_safeF|
    apply path_safeF|apply get_partition_safeF|]; auto.
  split; [intros a b; split; [apply lca_safeF|apply dist_safeF]; auto|].
  repeat split.
  - apply get_root_safe.
  - apply is_rooted_safe.
  - apply is_binary_safe.
  - apply cherries_safe.
  - apply colless_safeF; auto.
  - apply sackin_safeF; auto.
  - apply height_safeF; auto.
  - apply diameter_safeF; auto.
  - apply length_safe.
  - apply get_leaf_names_safeF; auto.
  - apply has_unique_tip_names_safeF; auto.
  - apply init_leaf_index_safeF; auto.
  - apply get_partitions_safeF; auto.
  - apply get_partitions_with_lengths_safeF; auto.
  - intros b. apply partition_to_leaves_safeF; auto.
  - apply distance_matrix_safeF; auto.
  - apply distance_matrix_recursive_safeF; auto.
  - apply to_newick_safeF; auto.
  - intros f. apply to_formatted_newick_safeF; auto.
  - apply to_nexus_safeF; auto.
  - apply radial_layout_safeF; auto.
Qed.

(* nodes of two different components have no common ancestor: an error value, not a panic *)
Theorem C20F_lca_across (t : arena) a b : Forest t -> live t a -> live t b ->
  (exists c, get_common_ancestor t a b = Ok c) \/ get_common_ancestor t a b = Err RootNotFound.
Proof. apply lca_forest_cases. Qed.

(* (b) comparisons between two forest arenas *)
Theorem C20F_comparisons (t1 t2 : arena) : Forest t1 -> Forest t2 ->
  safe (robinson_foulds O (tree_of t1) (tree_of t2)) /\
  safe (robinson_foulds_norm O (tree_of t1) (tree_of t2)) /\
  (forall sq, safe (weighted_rf O sq (tree_of t1) (tree_of t2))) /\
  safe (compare_topologies O (tree_of t1) (tree_of t2)) /\
  (forall tips, safe (compare_branch_lengths O (tree_of t1) (tree_of t2) tips)).
Proof.
  intros H1 H2. repeat split.
  - apply robinson_foulds_safeF; auto.
  - apply robinson_foulds_norm_safeF; auto.
  - intros sq. apply weighted_rf_safeF; auto.
  - apply compare_topologies_safeF; auto.
  - intros tips. apply compare_branch_lengths_safeF; auto.
Qed.

(* (c) editing operations: the returned outcome is never a panic / a non-termination, for all arguments,
   and the arena left behind is a forest again (with sorted edge maps) *)
Theorem C20F_mutators (t : arena) : ForestS t ->
  (forall nm cm, ForestS (fst (add t (new_node nm cm)))) /\
  (forall nm cm p e, sp (fun r => ForestS (fst r)) (add_child t (new_node nm cm) p e)) /\
  (forall x, sp ForestS (prune t x)) /\
  (safe (fst (compress O t)) /\ ForestS (snd (compress O t))) /\
  (forall ch, sp (fun r => match r with Some t' => ForestS t' | None => True end) (resolve O t ch)) /\
  sp ForestS (ladderize t) /\ sp ForestS (reset_depths t) /\
  (forall f, ForestS (rescale O t f)) /\
  (forall c1 c2 e1 e2 pe nm, safe (fst (merge_children t c1 c2 e1 e2 pe nm)) /\
                             ForestS (snd (merge_children t c1 c2 e1 e2 pe nm))).
Proof.
  intros HF.
  split. { intros; apply add_forestS; auto. }
  split. { intros; apply add_child_spF; auto. }
  split. { intros; apply prune_spF; auto. }
  split. { apply compress_spF; auto. }
  split. { intros; apply resolve_spF; auto. }
  split. { apply ladderize_spF; auto. }
  split. { apply reset_depths_spF; auto. }
  split. { intros; apply rescale_forestS; auto. }
  intros; apply merge_children_spF; auto.
Qed.

Corollary C20F_mutators_safe (t : arena) : ForestS t ->
  (forall nm cm p e, safe (add_child t (new_node nm cm) p e)) /\
  (forall x, safe (prune t x)) /\
  safe (fst (compress O t)) /\
  (forall ch, safe (resolve O t ch)) /\
  safe (ladderize t) /\ safe (reset_depths t) /\
  (forall c1 c2 e1 e2 pe nm, safe (fst (merge_children t c1 c2 e1 e2 pe nm))).
Proof.
  intros HF. repeat split; intros.
  - apply add_child_safe.
  - apply prune_safeF; auto.
  - apply compress_safeF; auto.
  - apply resolve_safeF; auto.
  - apply ladderize_safeF; auto.
  - apply reset_depths_safeF; auto.
  - apply merge_children_safeF; auto.
Qed.

(* (d) histories: the editing operations of WFOps.step plus the UNRESTRICTED Tree::add (a new parentless node
   whatever the arena already holds), starting from the empty arena *)
Inductive fop :=
| FAdd (name comment : option str)
| FOp (o : @op L).

Definition stepF (t : arena) (o : fop) : arena :=
  match o with
  | FAdd nm cm => fst (add t (new_node nm cm))
  | FOp o => step O t o
  end.

Definition InvF (t : arena) : Prop := ForestS t /\ Blank t.

Lemma forestS_nil : ForestS (@nil node).
Proof. apply WFS_ForestS, init_wf. Qed.

Theorem stepF_forestS t o : ForestS t -> ForestS (stepF t o).
Proof.
  intros HF. destruct o as [nm cm|o]; simpl; [apply add_forestS; auto|].
  destruct o; simpl.
  - destruct (existsb _ t); auto. apply add_forestS; auto.
  - pose proof (add_child_spF t name comment parent e HF) as H.
    destruct (add_child t (new_node name comment) parent e) as [[t' id]| | |]; auto.
  - apply rescale_forestS; auto.
  - pose proof (reset_depths_spF t HF) as H. destruct (reset_depths t); auto.
  - pose proof (prune_spF t x HF) as H. destruct (prune t x); auto.
  - apply compress_forest; auto.
  - apply merge_children_forest; auto.
  - pose proof (resolve_spF O t choices HF) as H. destruct (resolve O t choices) as [[t'|]| | |]; auto.
  - pose proof (ladderize_spF t HF) as H. destruct (ladderize t); auto.
Qed.

Theorem stepF_invF t o : InvF t -> InvF (stepF t o).
Proof.
  intros [HF HB]. split; [apply stepF_forestS; auto|].
  destruct o as [nm cm|o]; simpl; [apply Blank_app; auto|]. apply blank_step; auto.
Qed.

Theorem historiesF_invF t0 ops : InvF t0 -> InvF (fold_left stepF ops t0).
Proof. revert t0. induction ops; simpl; auto. intros. apply IHops. apply stepF_invF; auto. Qed.

Corollary forest_reachable ops : InvF (fold_left stepF ops (@nil node)).
Proof. apply historiesF_invF. split; [apply forestS_nil|apply Blank_nil]. Qed.

(* every arena reachable from the empty arena, Tree::add on non-empty arenas included: all the above applies *)
Corollary C20F_reachable (ops : list fop) :
  let t := fold_left stepF ops (@nil node) in
  ForestS t /\
  (forall i, safe (preorder t i) /\ safe (get_path_from_root t i) /\ safe (get_partition (tree_of t) i) /\
             safe (prune t i)) /\
  (forall a b, safe (get_common_ancestor t a b) /\ safe (get_distance O t a b)) /\
  safe (height O t) /\ safe (diameter O t) /\
  safe (get_partitions O (tree_of t)) /\ safe (distance_matrix O t) /\ safe (to_newick t) /\
  safe (radial_layout O t) /\
  safe (fst (compress O t)) /\ (forall ch, safe (resolve O t ch)) /\
  (forall c1 c2 e1 e2 pe nm, safe (fst (merge_children t c1 c2 e1 e2 pe nm))).
Proof.
  intros t. destruct (forest_reachable ops) as [HFS _]. fold t in HFS. pose proof (ForestS_Forest _ HFS) as HF.
  split; auto.
  split. { intros i. repeat split; [apply preorder_safeF|apply path_safeF|apply get_partition_safeF|apply prune_safeF]; auto. }
  split. { intros a b. split; [apply lca_safeF|apply dist_safeF]; auto. }
  repeat split.
  - apply height_safeF; auto.
  - apply diameter_safeF; auto.
  - apply get_partitions_safeF; auto.
  - apply distance_matrix_safeF; auto.
  - apply to_newick_safeF; auto.
  - apply radial_layout_safeF; auto.
  - apply compress_safeF; auto.
  - intros ch. apply resolve_safeF; auto.
  - intros. apply merge_children_safeF; auto.
Qed.

End C20Forest.

(* the two-component example is reachable with the unrestricted add *)
Example ex_arena_reachable :
  ex_arena = fold_left (stepF (Build_LenOps nat 0 1 Nat.add Nat.sub Nat.mul Nat.div (fun x => x) Nat.ltb Nat.eqb (fun x => x) 0))
               [FAdd None None; FAdd None None; FOp (OpAddChild None None 0 (Some 5)); FOp (OpAddChild None None 1 None)] [].
Proof. vm_compute. reflexivity. Qed.

(* across components get_distance does not fail: it walks both complete root paths, roots included (4 "branches"
   for two nodes of depth 1; the length is missing because the roots carry none) *)
Example ex_dist_across :
  get_distance (Build_LenOps nat 0 1 Nat.add Nat.sub Nat.mul Nat.div (fun x => x) Nat.ltb Nat.eqb (fun x => x) 0)
    ex_arena 2 3 = Ok (None, 4).
Proof. vm_compute. reflexivity. Qed.

(* ------------------------------------------------------------------------------------------------
   NOT covered by a theorem of this file:
     - the cached-tree states other than the fresh [tree_of t] (NoPanic.CS): the comparisons are stated
       for fresh trees, and report the cache state they leave ([FC2]);
     - arenas outside Forest (hand-made cycles, live slots whose id field differs from their position,
       dangling child / parent references).
   No `_refuted` example: no modelled operation returns [Panic _] / [OutOfFuel] on a forest arena.
   ------------------------------------------------------------------------------------------------ *)

Print Assumptions WF_Forest.
Print Assumptions ex_forest.
Print Assumptions add_forestS.
Print Assumptions lca_different_components.
Print Assumptions C20F_queries.
Print Assumptions C20F_comparisons.
Print Assumptions C20F_mutators.
Print Assumptions C20F_mutators_safe.
Print Assumptions forest_reachable.
Print Assumptions C20F_reachable.
