(* PhylipProps.v — C14: the Phylip codec of DistanceMatrix.
   (1) the two readers are total (Ok or Err on every text, never a panic);
   (2) basic facts on the writer output and the tokenisers (lines, split_whitespace, usize parsing);
   (3) write-then-read round trips (triangular/square writer x triangular/strict reader);
   (4) what a successful strict read implies about the text (row count, row lengths, diagonal, symmetry).
   Cells are abstract: [print_cell] (Rust `{d}`) / [parse_cell] (str::parse::<T>()). *)
From PT Require Import Arena Queries Newick Matrix Tril.
From Coq Require Import Lia List Arith NArith Bool.
Import ListNotations.

(* ================================================================================================ *)
(* Part 0: outcomes, foldM / mapM                                                                    *)
(* ================================================================================================ *)

Definition np {A} (o : outcome A) : Prop :=
  match o with Panic _ | OutOfFuel => False | _ => True end.

Lemma np_bind {A B} (o : outcome A) (f : A -> outcome B) :
  np o -> (forall a, o = Ok a -> np (f a)) -> np (bind o f).
Proof. destruct o; simpl; auto. Qed.

Lemma np_lift {A} (o : outcome A) : np o -> np (lift_m o).
Proof. destruct o; simpl; auto. Qed.

Lemma np_mapM {A B} (g : A -> outcome B) l : (forall x, np (g x)) -> np (mapM g l).
Proof.
  intros H. induction l as [|x l IH]; simpl; auto.
  apply np_bind; auto. intros y _. apply np_bind; auto. intros ys _. exact I.
Qed.

(* a fold whose steps keep an invariant and never panic under it *)
Lemma np_foldM {A S} (g : S -> A -> outcome S) (P : S -> Prop) :
  (forall s x, P s -> np (g s x) /\ forall s', g s x = Ok s' -> P s') ->
  forall l s, P s -> np (foldM g l s) /\ forall s', foldM g l s = Ok s' -> P s'.
Proof.
  intros Hg. induction l as [|x l IH]; intros s Hs; simpl.
  - split; [exact I|]. intros s' E. inversion E; subst. assumption.
  - destruct (Hg s x Hs) as [Hn Hp]. destruct (g s x) as [s1| | |] eqn:E; simpl in *;
      try contradiction.
    + apply IH. apply Hp. reflexivity.
    + split; [exact I|discriminate].
Qed.

Lemma mapM_map {A B} (g : A -> outcome B) (f : A -> B) l :
  (forall x, In x l -> g x = Ok (f x)) -> mapM g l = Ok (map f l).
Proof.
  induction l as [|x l IH]; intros H; simpl; [reflexivity|].
  rewrite (H x) by (left; reflexivity). simpl. rewrite IH by (intros; apply H; right; assumption).
  reflexivity.
Qed.

Lemma mapM_length {A B} (g : A -> outcome B) l r : mapM g l = Ok r -> length r = length l.
Proof.
  intros H. apply mapM_Forall2 in H. induction H; simpl; auto.
Qed.

Lemma mapM_nth {A B} (g : A -> outcome B) l r : mapM g l = Ok r ->
  forall i x, nth_error l i = Some x -> exists y, nth_error r i = Some y /\ g x = Ok y.
Proof.
  intros H. apply mapM_Forall2 in H. induction H as [|x y l r Hxy _ IH]; intros i a Hi.
  - destruct i; discriminate.
  - destruct i as [|i]; simpl in *.
    + inversion Hi; subst. eauto.
    + apply IH. assumption.
Qed.

(* nested folds are a fold over the flattened list *)
Lemma foldM_app {A S} (g : S -> A -> outcome S) l1 l2 s :
  foldM g (l1 ++ l2) s = (s' <- foldM g l1 s ;; foldM g l2 s').
Proof.
  revert s. induction l1 as [|x l1 IH]; intros s; simpl; [reflexivity|].
  destruct (g s x); simpl; auto.
Qed.

Lemma foldM_nested {A B S} (h : A -> S -> B -> outcome S) (items : A -> list B) l s :
  foldM (fun st p => foldM (h p) (items p) st) l s =
  foldM (fun st t => h (fst t) st (snd t)) (flat_map (fun p => map (pair p) (items p)) l) s.
Proof.
  revert s. induction l as [|p l IH]; intros s; simpl; [reflexivity|].
  rewrite foldM_app.
  assert (E : forall its st, foldM (fun st t => h (fst t) st (snd t)) (map (pair p) its) st = foldM (h p) its st).
  { induction its as [|q its IHi]; intros st; simpl; [reflexivity|].
    destruct (h p st q); simpl; auto. }
  rewrite E. destruct (foldM (h p) (items p) s); simpl; auto.
Qed.

(* an invariant indexed by the processed prefix: success direction *)
Lemma foldM_prefix_ok {A S} (g : S -> A -> outcome S) (I : list A -> S -> Prop) l :
  (forall pre x s, In x l -> I pre s -> exists s', g s x = Ok s' /\ I (pre ++ [x]) s') ->
  forall pre s, I pre s -> exists s', foldM g l s = Ok s' /\ I (pre ++ l) s'.
Proof.
  induction l as [|x l IH]; intros Hg pre s Hs; simpl.
  - rewrite app_nil_r. eauto.
  - destruct (Hg pre x s (or_introl eq_refl) Hs) as (s1 & E1 & H1). rewrite E1. simpl.
    destruct (IH (fun pre x s Hin => Hg pre x s (or_intror Hin)) _ _ H1) as (s' & E & H').
    exists s'. split; [assumption|]. rewrite <- app_assoc in H'. exact H'.
Qed.

(* an invariant indexed by the processed prefix: inversion direction *)
Lemma foldM_prefix_inv {A S} (g : S -> A -> outcome S) (I : list A -> S -> Prop) :
  forall l pre s s',
  (forall p x q s s', pre ++ l = p ++ x :: q -> I p s -> g s x = Ok s' -> I (p ++ [x]) s') ->
  I pre s -> foldM g l s = Ok s' -> I (pre ++ l) s'.
Proof.
  induction l as [|x l IH]; intros pre s s' Hg Hs E; simpl in E.
  - inversion E; subst. rewrite app_nil_r. assumption.
  - destruct (g s x) as [s1| | |] eqn:E1; simpl in E; try discriminate.
    assert (H1 : I (pre ++ [x]) s1) by (eapply Hg; eauto).
    replace (pre ++ x :: l) with ((pre ++ [x]) ++ l) by (rewrite <- app_assoc; reflexivity).
    eapply IH; eauto.
    intros p y q t t' Epq. apply (Hg p y q). rewrite <- Epq, <- app_assoc. reflexivity.
Qed.

(* ================================================================================================ *)
(* Part 1: the readers as mapM pipelines; totality                                                   *)
(* ================================================================================================ *)
Section Readers.
Context {L : Type}.
Variable O : LenOps L.
Variable parse_cell : str -> option L.
Notation dmat := (@dmat L).

Definition tril_row (p : nat * str) : outcome (str * list L) :=
  '(name, ds) <- read_phylip_row parse_cell (snd p) (fst p) true ;;
  if negb (Nat.eqb (length ds) (fst p)) then Err PMissingDistance else Ok (name, ds).

Lemma tril_fold l : forall a b,
  foldM (fun (st : list str * list L) (p : nat * str) =>
           '(name, ds) <- read_phylip_row parse_cell (snd p) (fst p) true ;;
           if negb (Nat.eqb (length ds) (fst p)) then Err PMissingDistance else
           Ok (fst st ++ [name], snd st ++ ds)) l (a, b) =
  (r <- mapM tril_row l ;; Ok (a ++ map fst r, b ++ concat (map snd r))).
Proof.
  induction l as [|p l IH]; intros a b; simpl.
  - rewrite !app_nil_r. reflexivity.
  - unfold tril_row at 1.
    destruct (read_phylip_row parse_cell (snd p) (fst p) true) as [[name ds]| | |]; simpl; auto.
    destruct (negb (Nat.eqb (length ds) (fst p))); simpl; auto.
    rewrite IH. destruct (mapM tril_row l); simpl; auto.
    rewrite <- !app_assoc. reflexivity.
Qed.

Lemma tril_unfold text : from_phylip_tril parse_cell text =
  match lines text with
  | [] => Err EmptyMatrixFile
  | first :: rest =>
      match parse_usize first with
      | None => Err SizeParseError
      | Some size =>
          r <- mapM tril_row (combine (seq 0 (length rest)) rest) ;;
          let taxa := map fst r in
          let cells := concat (map snd r) in
          if negb (Nat.eqb (length taxa) size) then Err SizeAndRowsMismatch else
          let n := length taxa in
          if negb (Nat.eqb (length cells) (n * (n - 1) / 2)) then Err PMatrixError else
          Ok (mkDmat n taxa cells)
      end
  end.
Proof.
  unfold from_phylip_tril. destruct (lines text) as [|first rest]; [reflexivity|].
  destruct (parse_usize first) as [size|]; [|reflexivity].
  rewrite tril_fold. destruct (mapM tril_row _); reflexivity.
Qed.

Definition strict_row (sq : bool) (size : nat) (p : nat * str) : outcome (str * list L) :=
  let i := fst p in
  '(name, ds) <- read_phylip_row parse_cell (snd p) i false ;;
  if (sq && negb (Nat.eqb (length ds) size)) || (negb sq && negb (Nat.eqb (length ds) i))
  then Err PMissingDistance else
  if sq && Nat.leb size i then Err SizeAndRowsMismatch else
  if sq && negb (leqb O (nth i ds (l0 O)) (l0 O)) then Err NonZeroDiagonalValue else
  Ok (name, ds).

Lemma strict_fold sq size l : forall a b,
  foldM (fun (st : list str * list (list L)) (p : nat * str) =>
           let i := fst p in
           '(name, ds) <- read_phylip_row parse_cell (snd p) i false ;;
           if (sq && negb (Nat.eqb (length ds) size)) || (negb sq && negb (Nat.eqb (length ds) i))
           then Err PMissingDistance else
           if sq && Nat.leb size i then Err SizeAndRowsMismatch else
           if sq && negb (leqb O (nth i ds (l0 O)) (l0 O)) then Err NonZeroDiagonalValue else
           Ok (fst st ++ [name], snd st ++ [ds])) l (a, b) =
  (r <- mapM (strict_row sq size) l ;; Ok (a ++ map fst r, b ++ map snd r)).
Proof.
  induction l as [|p l IH]; intros a b; simpl.
  - rewrite !app_nil_r. reflexivity.
  - unfold strict_row at 1.
    destruct (read_phylip_row parse_cell (snd p) (fst p) false) as [[name ds]| | |]; simpl; auto.
    destruct (sq && negb (Nat.eqb (length ds) size) || negb sq && negb (Nat.eqb (length ds) (fst p)));
      simpl; auto.
    destruct (sq && Nat.leb size (fst p)); simpl; auto.
    destruct (sq && negb (leqb O (nth (fst p) ds (l0 O)) (l0 O))); simpl; auto.
    rewrite IH. destruct (mapM (strict_row sq size) l); simpl; auto.
    rewrite <- !app_assoc. reflexivity.
Qed.

(* one (row name, column name, value) step of the strict reader's fill loop *)
Definition sstep (n1 : str) (st : dmat * list (str * str)) (q : str * L)
  : outcome (dmat * list (str * str)) :=
  let '(m, seen) := st in
  let n2 := fst q in
  if mem_pair n2 n1 seen then
    known <- lift_m (dm_get O m n1 n2) ;;
    if negb (leqb O known (snd q)) then Err NonSymmetric else Ok (m, seen)
  else
    m' <- lift_m (dm_set O m n1 n2 (snd q)) ;;
    Ok (m', (n1, n2) :: seen).

Definition fill (names : list str) (rows : list (list L)) (st : dmat * list (str * str)) :=
  foldM (fun (st : dmat * list (str * str)) (p : str * list L) =>
           foldM (sstep (fst p)) (combine names (snd p)) st) (combine names rows) st.

Lemma strict_unfold text sq : from_phylip_strict O parse_cell text sq =
  match lines text with
  | [] => Err EmptyMatrixFile
  | first :: rest =>
      match parse_usize first with
      | None => Err SizeParseError
      | Some size =>
          r <- mapM (strict_row sq size) (combine (seq 0 (length rest)) rest) ;;
          let names := map fst r in
          let rows := map snd r in
          if negb (Nat.eqb (length names) size) then Err SizeAndRowsMismatch else
          m0 <- lift_m (dm_set_taxa (dm_with_size O size) names) ;;
          st <- fill names rows (m0, []) ;;
          Ok (fst st)
      end
  end.
Proof.
  unfold from_phylip_strict. destruct (lines text) as [|first rest]; [reflexivity|].
  destruct (parse_usize first) as [size|]; [|reflexivity].
  rewrite strict_fold. destruct (mapM (strict_row sq size) _) as [r| | |]; simpl; auto.
  destruct (negb (Nat.eqb (length (map fst r)) size)); auto.
  destruct (lift_m (dm_set_taxa (dm_with_size O size) (map fst r))) as [m0| | |]; simpl; auto.
  unfold fill.
  match goal with |- bind ?X _ = bind ?Y _ => change X with Y; destruct Y as [[m s]| | |] end; reflexivity.
Qed.

(* ---- totality ---- *)
Lemma parse_cells_np fs : forall k, np (parse_cells parse_cell fs k).
Proof.
  induction fs as [|f fs IH]; intros k; simpl; [exact I|].
  destruct k as [[|k]|]; simpl; try exact I;
    (destruct (parse_cell f); simpl; [|exact I]; apply np_bind; [apply IH|intros; exact I]).
Qed.

Lemma read_row_np row i t : np (read_phylip_row parse_cell row i t).
Proof.
  unfold read_phylip_row. destruct (split_ws row); simpl; [exact I|].
  apply np_bind; [apply parse_cells_np|intros; exact I].
Qed.

Lemma tril_row_np p : np (tril_row p).
Proof.
  unfold tril_row. apply np_bind; [apply read_row_np|]. intros [name ds] _.
  destruct (negb _); exact I.
Qed.

Lemma strict_row_np sq size p : np (strict_row sq size p).
Proof.
  unfold strict_row. apply np_bind; [apply read_row_np|]. intros [name ds] _.
  repeat match goal with |- np (if ?c then _ else _) => destruct c end; exact I.
Qed.

Theorem tril_no_panic : forall text,
  match from_phylip_tril parse_cell text with Panic _ | OutOfFuel => False | _ => True end.
Proof.
  intros text. change (np (from_phylip_tril parse_cell text)). rewrite tril_unfold.
  destruct (lines text) as [|first rest]; [exact I|].
  destruct (parse_usize first) as [size|]; [|exact I].
  apply np_bind; [apply np_mapM, tril_row_np|]. intros r _. cbv zeta.
  repeat match goal with |- np (if ?c then _ else _) => destruct c end; exact I.
Qed.

Definition full (m : dmat) : Prop := length (mcells m) = msize m * (msize m - 1) / 2.

Lemma sstep_np n1 st q : full (fst st) ->
  np (sstep n1 st q) /\ forall st', sstep n1 st q = Ok st' -> full (fst st').
Proof.
  destruct st as [m seen]. simpl. intros Hf. destruct (mem_pair (fst q) n1 seen).
  - split.
    + apply np_bind.
      * apply np_lift. pose proof (get_no_panic O m n1 (fst q)) as G.
        destruct (dm_get O m n1 (fst q)) as [v|e|s|] eqn:E; simpl; auto.
        -- apply (G s Hf). reflexivity.
        -- unfold dm_get in E. destruct (str_eqb n1 (fst q)); [discriminate|].
           destruct (pair_index_no_panic m n1 (fst q)) as [[x Hx]|[x Hx]]; rewrite Hx in E; simpl in E;
             [destruct (nth_error _ _)|]; discriminate.
      * intros known _. destruct (negb _); exact I.
    + intros st' E. destruct (lift_m (dm_get O m n1 (fst q))); simpl in E; try discriminate.
      destruct (negb _); inversion E; subst. assumption.
  - split.
    + apply np_bind.
      * apply np_lift. pose proof (set_no_panic O m n1 (fst q) (snd q)) as G.
        destruct (dm_set O m n1 (fst q) (snd q)) as [v|e|s|] eqn:E; simpl; auto.
        -- apply (G s Hf). reflexivity.
        -- unfold dm_set in E. destruct (str_eqb n1 (fst q)); [destruct (leqb _ _ _); discriminate|].
           destruct (pair_index_no_panic m n1 (fst q)) as [[x Hx]|[x Hx]]; rewrite Hx in E; simpl in E;
             [destruct (Nat.ltb _ _)|]; discriminate.
      * intros; exact I.
    + intros st' E. destruct (dm_set O m n1 (fst q) (snd q)) as [m'| | |] eqn:Es; simpl in E; try discriminate.
      inversion E; subst. simpl. unfold full in *.
      destruct (set_frame O _ _ _ _ _ Es) as (E1 & _ & E3). rewrite E1, E3. assumption.
Qed.

Lemma fill_np names rows st : full (fst st) -> np (fill names rows st).
Proof.
  intros Hf. unfold fill.
  apply (np_foldM _ (fun st => full (fst st))); [|assumption].
  intros s p Hs. apply (np_foldM _ (fun st => full (fst st))); [|assumption].
  intros s1 q Hs1. apply sstep_np. assumption.
Qed.

Lemma with_size_full size : full (dm_with_size O size).
Proof. unfold full, dm_with_size. simpl. apply repeat_length. Qed.

Theorem strict_no_panic : forall text sq,
  match from_phylip_strict O parse_cell text sq with Panic _ | OutOfFuel => False | _ => True end.
Proof.
  intros text sq. change (np (from_phylip_strict O parse_cell text sq)). rewrite strict_unfold.
  destruct (lines text) as [|first rest]; [exact I|].
  destruct (parse_usize first) as [size|]; [|exact I].
  apply np_bind; [apply np_mapM, strict_row_np|]. intros r _. cbv zeta.
  destruct (negb _); [exact I|].
  unfold dm_set_taxa. destruct (Nat.eqb _ _); simpl; [|exact I].
  apply np_bind; [|intros; exact I].
  apply fill_np. simpl. apply with_size_full.
Qed.

End Readers.

(* ================================================================================================ *)
(* Part 2: tokenisers on well-behaved text                                                           *)
(* ================================================================================================ *)

Definition noeol (c : N) : Prop := c <> 10%N /\ c <> 13%N.
Definition nows (c : N) : Prop := is_ws c = false.

Lemma nows_noeol c : nows c -> noeol c.
Proof. unfold nows, noeol. intros H. split; intros ->; vm_compute in H; discriminate. Qed.

Lemma nows_noeol_all s : Forall nows s -> Forall noeol s.
Proof. intros H. eapply Forall_impl; [|exact H]. apply nows_noeol. Qed.

Lemma noeol_32 : noeol 32%N.
Proof. split; discriminate. Qed.

(* ---- lines ---- *)
Lemma lines_aux_line a : forall cur b, Forall noeol a ->
  match cur with x :: _ => x <> 13%N | [] => True end ->
  lines_aux (a ++ 10%N :: b) cur = (rev cur ++ a) :: lines_aux b [].
Proof.
  induction a as [|c a IH]; intros cur b Ha Hc.
  - simpl. destruct cur as [|x cur'].
    + reflexivity.
    + apply N.eqb_neq in Hc. rewrite Hc. rewrite app_nil_r. reflexivity.
  - inversion Ha as [|? ? [H10 H13] Ha']; subst. simpl app. cbn [lines_aux].
    apply N.eqb_neq in H10. rewrite H10.
    rewrite IH by assumption. simpl. rewrite <- app_assoc. reflexivity.
Qed.

(* general form: a has no '\n'; a trailing '\r' is dropped *)
Definition chomp_cr (a : str) : str :=
  match rev a with x :: r => if (x =? 13)%N then rev r else a | [] => [] end.

Lemma lines_aux_no10 a : forall cur b, Forall (fun c => c <> 10%N) a ->
  lines_aux (a ++ 10%N :: b) cur =
  match rev a ++ cur with
  | x :: cur' => if (x =? 13)%N then rev cur' else rev (x :: cur')
  | [] => []
  end :: lines_aux b [].
Proof.
  induction a as [|c a IH]; intros cur b Ha; [destruct cur; reflexivity|].
  inversion Ha as [|? ? H10 Ha']; subst. cbn [app lines_aux].
  apply N.eqb_neq in H10. rewrite H10. rewrite IH by assumption.
  cbn [rev]. rewrite <- app_assoc. reflexivity.
Qed.

Lemma lines_cons_no10 a b : Forall (fun c => c <> 10%N) a ->
  lines (a ++ [10%N] ++ b) = chomp_cr a :: lines b.
Proof.
  intros Ha. unfold lines. cbn [app]. rewrite lines_aux_no10 by assumption.
  rewrite app_nil_r. unfold chomp_cr. destruct (rev a) as [|x r] eqn:E; [reflexivity|].
  destruct (x =? 13)%N; [reflexivity|]. rewrite <- E, rev_involutive. reflexivity.
Qed.

(* `lines` of `a ++ "\n" ++ b` when a has no line terminator *)
Lemma lines_cons a b : Forall noeol a -> lines (a ++ [10%N] ++ b) = a :: lines b.
Proof. intros Ha. unfold lines. simpl app. rewrite lines_aux_line by auto. reflexivity. Qed.

Lemma lines_cons' a b : Forall noeol a -> lines (a ++ 10%N :: b) = a :: lines b.
Proof. apply lines_cons. Qed.

Lemma lines_concat rows : Forall (Forall noeol) rows ->
  lines (concat (map (fun r => r ++ [10%N]) rows)) = rows.
Proof.
  induction rows as [|r rows IH]; intros H; simpl; [reflexivity|].
  inversion H; subst. rewrite <- app_assoc. rewrite lines_cons by assumption. rewrite IH by assumption.
  reflexivity.
Qed.

(* ---- split_whitespace ---- *)
Lemma split_ws_aux_tok tok : forall cur rest, Forall nows tok ->
  split_ws_aux (tok ++ rest) cur = split_ws_aux rest (rev tok ++ cur).
Proof.
  induction tok as [|c tok IH]; intros cur rest H; [reflexivity|].
  inversion H as [|? ? Hc Ht]; subst. simpl app. cbn [split_ws_aux]. unfold nows in Hc. rewrite Hc.
  rewrite IH by assumption. simpl. rewrite <- app_assoc. reflexivity.
Qed.

Lemma split_ws_aux_sp rest cur :
  split_ws_aux (32%N :: rest) cur =
  match cur with [] => split_ws_aux rest [] | _ => rev cur :: split_ws_aux rest [] end.
Proof. reflexivity. Qed.

Lemma split_ws_aux_sp0 rest : split_ws_aux (32%N :: rest) [] = split_ws_aux rest [].
Proof. reflexivity. Qed.

Lemma split_ws_tok_sp tok rest : tok <> [] -> Forall nows tok ->
  split_ws_aux (tok ++ 32%N :: rest) [] = tok :: split_ws_aux rest [].
Proof.
  intros Hne H. rewrite split_ws_aux_tok by assumption. rewrite split_ws_aux_sp, app_nil_r.
  destruct (rev tok) eqn:E.
  - apply (f_equal (@rev N)) in E. rewrite rev_involutive in E. contradiction.
  - rewrite <- E, rev_involutive. reflexivity.
Qed.

Lemma split_ws_tok_end tok : tok <> [] -> Forall nows tok -> split_ws_aux tok [] = [tok].
Proof.
  intros Hne H. rewrite <- (app_nil_r tok) at 1. rewrite split_ws_aux_tok by assumption.
  simpl. rewrite app_nil_r. destruct (rev tok) eqn:E.
  - apply (f_equal (@rev N)) in E. rewrite rev_involutive in E. contradiction.
  - rewrite <- E, rev_involutive. reflexivity.
Qed.

Fixpoint join_sp (l : list str) : str :=
  match l with
  | [] => []
  | [x] => x
  | x :: t => x ++ [32%N; 32%N] ++ join_sp t
  end.

Definition tok_ok (s : str) : Prop := s <> [] /\ Forall nows s.

Lemma split_ws_join toks : Forall tok_ok toks -> split_ws_aux (join_sp toks) [] = toks.
Proof.
  induction toks as [|x t IH]; intros H; [reflexivity|].
  inversion H as [|? ? [Hx1 Hx2] Ht]; subst. destruct t as [|y t].
  - simpl. apply split_ws_tok_end; assumption.
  - change (join_sp (x :: y :: t)) with (x ++ 32%N :: 32%N :: join_sp (y :: t)).
    rewrite split_ws_tok_sp by assumption. rewrite split_ws_aux_sp0. rewrite IH by assumption.
    reflexivity.
Qed.

(* a data row as text: name, four spaces, cells joined by two spaces *)
Definition srow_s (name : str) (cells : list str) : str :=
  name ++ match cells with [] => [] | _ => [32%N; 32%N; 32%N; 32%N] ++ join_sp cells end.

Lemma split_ws_row name cells : tok_ok name -> Forall tok_ok cells ->
  split_ws (srow_s name cells) = name :: cells.
Proof.
  intros [Hn1 Hn2] Hc. unfold split_ws, srow_s. destruct cells as [|c cells].
  - rewrite app_nil_r. apply split_ws_tok_end; assumption.
  - cbn [app]. rewrite split_ws_tok_sp by assumption. rewrite !split_ws_aux_sp0.
    rewrite split_ws_join by assumption. reflexivity.
Qed.

Lemma join_sp_noeol cells : Forall tok_ok cells -> Forall noeol (join_sp cells).
Proof.
  induction cells as [|x t IH]; intros H; [constructor|].
  inversion H as [|? ? [_ Hx] Ht]; subst. destruct t as [|y t].
  - simpl. apply nows_noeol_all. assumption.
  - change (join_sp (x :: y :: t)) with (x ++ 32%N :: 32%N :: join_sp (y :: t)).
    apply Forall_app. split; [apply nows_noeol_all; assumption|].
    repeat (constructor; [apply noeol_32|]). apply IH. assumption.
Qed.

Lemma srow_noeol name cells : tok_ok name -> Forall tok_ok cells -> Forall noeol (srow_s name cells).
Proof.
  intros [_ Hn] Hc. unfold srow_s. apply Forall_app. split; [apply nows_noeol_all; assumption|].
  destruct cells as [|c cells]; [constructor|].
  cbn [app]. repeat (constructor; [apply noeol_32|]). apply join_sp_noeol. assumption.
Qed.

(* ---- decimal sizes ---- *)
Definition isdig (c : N) : Prop := (48 <= c /\ c <= 57)%N.

Lemma digits_val_dig d r a : (d < 10)%N ->
  digits_val ((48 + d)%N :: r) a = digits_val r (a * 10 + d)%N.
Proof.
  intros Hd. cbn [digits_val].
  assert (Ht : ((48 <=? 48 + d) && (48 + d <=? 57))%N = true)
    by (apply andb_true_iff; split; apply N.leb_le; lia).
  rewrite Ht. f_equal. lia.
Qed.

Lemma dec_digits_val : forall fuel n acc, (n < N.of_nat fuel)%N ->
  exists k, forall a, digits_val (dec_digits fuel n acc) a = digits_val acc (a * 10 ^ k + n)%N.
Proof.
  induction fuel as [|fuel IH]; intros n acc Hlt; [lia|].
  cbn [dec_digits]. cbv zeta.
  assert (Hm : (n mod 10 < 10)%N) by (apply N.mod_lt; discriminate).
  pose proof (N.div_mod' n 10) as Hdm.
  set (q := (n / 10)%N) in *. set (r := (n mod 10)%N) in *.
  destruct (q =? 0)%N eqn:E.
  - apply N.eqb_eq in E. exists 1%N. intros a. rewrite digits_val_dig by assumption.
    f_equal. rewrite N.pow_1_r. lia.
  - apply N.eqb_neq in E.
    assert (Hlt' : (q < N.of_nat fuel)%N) by lia.
    destruct (IH q ((48 + r)%N :: acc) Hlt') as [k Hk].
    exists (k + 1)%N. intros a. rewrite Hk. rewrite digits_val_dig by assumption.
    f_equal. rewrite N.pow_add_r, N.pow_1_r. lia.
Qed.

Lemma dec_digits_isdig : forall fuel n acc, Forall isdig acc -> Forall isdig (dec_digits fuel n acc).
Proof.
  induction fuel as [|fuel IH]; intros n acc H; [assumption|].
  cbn [dec_digits]. cbv zeta.
  assert (Hm : (n mod 10 < 10)%N) by (apply N.mod_lt; discriminate).
  set (r := (n mod 10)%N) in *.
  assert (Forall isdig ((48 + r)%N :: acc)) by (constructor; [unfold isdig; lia|assumption]).
  destruct (n / 10 =? 0)%N; [assumption|]. apply IH. assumption.
Qed.

Lemma dec_digits_len : forall fuel n acc, length acc <= length (dec_digits fuel n acc).
Proof.
  induction fuel as [|fuel IH]; intros n acc; [apply le_n|].
  cbn [dec_digits]. cbv zeta. destruct (n / 10 =? 0)%N; [simpl; lia|].
  eapply Nat.le_trans; [|apply IH]. simpl. lia.
Qed.

Lemma dec_of_nat_isdig n : Forall isdig (dec_of_nat n).
Proof. apply dec_digits_isdig. constructor. Qed.

Lemma dec_of_nat_cons n : exists c r, dec_of_nat n = c :: r /\ isdig c.
Proof.
  pose proof (dec_of_nat_isdig n) as H. unfold dec_of_nat in *.
  destruct (dec_digits (S n) (N.of_nat n) []) as [|c r] eqn:E.
  - exfalso. cbn [dec_digits] in E. cbv zeta in E.
    destruct (N.of_nat n / 10 =? 0)%N; [discriminate|].
    pose proof (dec_digits_len n (N.of_nat n / 10)%N [(48 + N.of_nat n mod 10)%N]) as Hl.
    rewrite E in Hl. simpl in Hl. lia.
  - inversion H; subst. eauto.
Qed.

Lemma dec_of_nat_val n : digits_val (dec_of_nat n) 0 = Some (N.of_nat n).
Proof.
  unfold dec_of_nat. destruct (dec_digits_val (S n) (N.of_nat n) []) as [k Hk]; [lia|].
  rewrite Hk. reflexivity.
Qed.

Lemma isdig_noeol c : isdig c -> noeol c.
Proof. unfold isdig, noeol. lia. Qed.

Lemma dec_of_nat_noeol n : Forall noeol (dec_of_nat n).
Proof. eapply Forall_impl; [|apply dec_of_nat_isdig]. apply isdig_noeol. Qed.

Theorem parse_usize_dec n : (N.of_nat n < 2 ^ 64)%N -> parse_usize (dec_of_nat n) = Some n.
Proof.
  intros Hb. unfold parse_usize. destruct (dec_of_nat_cons n) as (c & r & E & Hc).
  pose proof (dec_of_nat_val n) as Hv. rewrite E in *.
  assert (Hp : (c =? 43)%N = false) by (apply N.eqb_neq; unfold isdig in Hc; lia).
  rewrite Hp, Hv.
  assert (Hlt : (N.of_nat n <? 18446744073709551616)%N = true).
  { apply N.ltb_lt. change 18446744073709551616%N with (2 ^ 64)%N. assumption. }
  rewrite Hlt, Nat2N.id. reflexivity.
Qed.

(* ---- generic list facts used by the round trips ---- *)
Lemma combine_seq_nth {A} (d : A) (l : list A) : forall s,
  combine (seq s (length l)) l = map (fun i => (i, nth (i - s) l d)) (seq s (length l)).
Proof.
  induction l as [|x l IH]; intros s; [reflexivity|].
  cbn [length seq combine map]. rewrite Nat.sub_diag. cbn [nth]. f_equal.
  rewrite IH. apply map_ext_in. intros i Hi. apply in_seq in Hi.
  replace (i - s) with (S (i - S s)) by lia. reflexivity.
Qed.

Lemma combine_map_self {A B} (h : A -> B) (l : list A) :
  combine l (map h l) = map (fun i => (i, h i)) l.
Proof. induction l as [|x l IH]; simpl; [reflexivity|]. f_equal. assumption. Qed.

Lemma map_nth_firstn {A} (d : A) (l : list A) : forall n, n <= length l ->
  map (fun j => nth j l d) (seq 0 n) = firstn n l.
Proof.
  induction l as [|x l IH]; intros n Hn.
  - simpl in Hn. assert (n = 0) by lia. subst. reflexivity.
  - destruct n as [|n]; [reflexivity|]. cbn [seq map firstn nth]. f_equal.
    rewrite <- seq_shift, map_map. cbn [nth]. apply IH. simpl in Hn. lia.
Qed.

Lemma nth_skipn_add {A} (d : A) : forall a (l : list A) j, nth j (skipn a l) d = nth (a + j) l d.
Proof.
  induction a as [|a IH]; intros l j; [reflexivity|].
  destruct l as [|x l]; simpl; [destruct j; reflexivity|]. apply IH.
Qed.

Lemma map_nth_segment {A} (d : A) (l : list A) a n : a + n <= length l ->
  map (fun j => nth (a + j) l d) (seq 0 n) = firstn n (skipn a l).
Proof.
  intros H. rewrite <- map_nth_firstn with (d := d) by (rewrite skipn_length; lia).
  apply map_ext. intros j. rewrite nth_skipn_add. reflexivity.
Qed.

Lemma firstn_add {A} : forall a b (l : list A), firstn (a + b) l = firstn a l ++ firstn b (skipn a l).
Proof.
  induction a as [|a IH]; intros b l; [reflexivity|].
  destruct l as [|x l]; simpl; [destruct b; reflexivity|]. f_equal. apply IH.
Qed.

Lemma firstn_seq0 i n : i <= n -> firstn i (seq 0 n) = seq 0 i.
Proof.
  intros H. replace n with (i + (n - i)) by lia. rewrite seq_app.
  rewrite firstn_app, seq_length, Nat.sub_diag. simpl. rewrite app_nil_r.
  rewrite <- (seq_length i 0) at 1. apply firstn_all.
Qed.

Lemma combine_nth_map {A B} (d : A) (l : list A) : forall k (g : nat -> B), k <= length l ->
  combine l (map g (seq 0 k)) = map (fun j => (nth j l d, g j)) (seq 0 k).
Proof.
  induction l as [|x l IH]; intros k g Hk.
  - simpl in Hk. assert (k = 0) by lia. subst. reflexivity.
  - destruct k as [|k]; [reflexivity|]. cbn [seq map combine nth]. f_equal.
    rewrite <- seq_shift, !map_map. cbn [nth]. apply (IH k (fun j => g (S j))). simpl in Hk. lia.
Qed.

Lemma mem_pair_cons a b x y l :
  mem_pair a b ((x, y) :: l) = (str_eqb a x && str_eqb b y) || mem_pair a b l.
Proof. reflexivity. Qed.

Lemma join_r_sep_concat {A} (sep : list (@rch A)) l : l <> [] ->
  join_r sep l ++ sep = concat (map (fun r => r ++ sep) l).
Proof.
  induction l as [|x l IH]; intros Hne; [contradiction|]. destruct l as [|y l].
  - simpl. rewrite app_nil_r. reflexivity.
  - change (join_r sep (x :: y :: l)) with (x ++ sep ++ join_r sep (y :: l)).
    rewrite <- !app_assoc. rewrite IH by discriminate. cbn [map concat]. rewrite <- !app_assoc. reflexivity.
Qed.

(* ================================================================================================ *)
(* Part 3: round trips                                                                               *)
(* ================================================================================================ *)
Section RoundTrip.
Context {L : Type}.
Variable O : LenOps L.
Variable print_cell : L -> str.
Variable parse_cell : str -> option L.
Variable ok_cell : L -> Prop.
Hypothesis H1 : forall l, ok_cell l -> parse_cell (print_cell l) = Some l.
Hypothesis H2 : forall l, print_cell l <> [] /\ Forall (fun c => is_ws c = false) (print_cell l).
Hypothesis Hz : ok_cell (l0 O).
Hypothesis Heq : forall a b, ok_cell a -> ok_cell b -> (leqb O a b = true <-> a = b).
Notation dmat := (@dmat L).

Definition flatten (s : @rstr L) : str :=
  flat_map (fun x => match x with C c => [c] | Lv l => print_cell l end) s.

Lemma flatten_app a b : flatten (a ++ b) = flatten a ++ flatten b.
Proof. apply flat_map_app. Qed.
Lemma flatten_lit s : flatten (lit s) = s.
Proof. unfold flatten, lit. induction s; simpl; auto. f_equal; auto. Qed.
Lemma flatten_nl s : flatten (nl :: s) = 10%N :: flatten s.
Proof. reflexivity. Qed.
Lemma flatten_concat ls : flatten (concat ls) = concat (map flatten ls).
Proof. induction ls as [|x ls IH]; simpl; [reflexivity|]. rewrite flatten_app, IH. reflexivity. Qed.

Lemma print_tok_ok v : tok_ok (print_cell v).
Proof. apply H2. Qed.

Lemma flatten_join_cells vs :
  flatten (join_r [sp; sp] (map (fun v => [Lv v]) vs)) = join_sp (map print_cell vs).
Proof.
  induction vs as [|v vs IH]; [reflexivity|]. destruct vs as [|w vs].
  - simpl. rewrite app_nil_r. reflexivity.
  - change (join_r [sp; sp] (map (fun v => [Lv v]) (v :: w :: vs)))
      with ([Lv v] ++ [sp; sp] ++ join_r [sp; sp] (map (fun v => [@Lv L v]) (w :: vs))).
    change (join_sp (map print_cell (v :: w :: vs)))
      with (print_cell v ++ [32%N; 32%N] ++ join_sp (map print_cell (w :: vs))).
    rewrite !flatten_app, IH. simpl. rewrite app_nil_r. reflexivity.
Qed.

(* a data row as the writer produces it *)
Definition rrow (name : str) (vs : list L) : @rstr L :=
  lit name ++ match join_r [sp; sp] (map (fun v => [Lv v]) vs) with
              | [] => []
              | _ => [sp; sp; sp; sp] ++ join_r [sp; sp] (map (fun v => [Lv v]) vs)
              end.
Definition srow (name : str) (vs : list L) : str := srow_s name (map print_cell vs).

Lemma flatten_rrow name vs : flatten (rrow name vs) = srow name vs.
Proof.
  unfold rrow, srow, srow_s. rewrite flatten_app, flatten_lit. f_equal.
  destruct vs as [|v vs]; [reflexivity|].
  pose proof (flatten_join_cells (v :: vs)) as E.
  destruct vs as [|w vs].
  - simpl. rewrite app_nil_r. reflexivity.
  - change (join_r [sp; sp] (map (fun v => [Lv v]) (v :: w :: vs)))
      with (@Lv L v :: ([sp; sp] ++ join_r [sp; sp] (map (fun v => [@Lv L v]) (w :: vs)))) in *.
    cbv iota. rewrite flatten_app, E. reflexivity.
Qed.

(* ---- the writer in closed form ---- *)
Definition wcell (cells : list L) (i j : nat) : L :=
  if Nat.eqb i j then l0 O else nth (tril_idx i j) cells (l0 O).
Definition lim (sq : bool) (n i : nat) : nat := if sq then n else i.
Definition wrow (m : dmat) (sq : bool) (i : nat) : list L :=
  map (wcell (mcells m) i) (seq 0 (lim sq (msize m) i)).

Definition wf_m (m : dmat) : Prop :=
  msize m = length (mtaxa m) /\ length (mcells m) = msize m * (msize m - 1) / 2.

Lemma lim_le sq n i : i < n -> lim sq n i <= n.
Proof. destruct sq; simpl; lia. Qed.

Lemma le_lim sq n i : i < n -> i <= lim sq n i.
Proof. destruct sq; simpl; lia. Qed.

Lemma writer_spec m sq : wf_m m ->
  to_phylip O m sq =
  Ok (lit (dec_of_nat (msize m)) ++ [nl] ++
      join_r [nl] (map (fun i => rrow (nth i (mtaxa m) []) (wrow m sq i)) (seq 0 (msize m))) ++ [nl]).
Proof.
  intros [Hs Hc]. unfold to_phylip.
  rewrite (mapM_map _ (fun p => rrow (snd p) (wrow m sq (fst p)))).
  - cbn [bind]. rewrite (combine_seq_nth ([] : str) (mtaxa m) 0), map_map, <- Hs.
    rewrite (map_ext _ (fun i => rrow (nth i (mtaxa m) []) (wrow m sq i))); [reflexivity|].
    intros i. cbn [fst snd]. rewrite Nat.sub_0_r. reflexivity.
  - intros [i name] Hin. apply in_combine_l in Hin. apply in_seq in Hin. cbn [fst snd].
    rewrite <- Hs in Hin.
    rewrite (mapM_map _ (fun j => [Lv (wcell (mcells m) i j)])).
    + simpl. unfold rrow, wrow, lim. rewrite map_map. reflexivity.
    + intros j Hj. apply in_seq in Hj.
      assert (j < msize m).
      { pose proof (lim_le sq (msize m) i). unfold lim in *. destruct sq; lia. }
      unfold wcell. destruct (Nat.eqb i j) eqn:E; [reflexivity|].
      unfold tril_to_vec_index. rewrite E.
      rewrite (proj2 (Nat.leb_gt (msize m) i)) by lia.
      rewrite (proj2 (Nat.leb_gt (msize m) j)) by lia. simpl.
      apply Nat.eqb_neq in E.
      rewrite (nth_error_nth' (mcells m) (l0 O)); [reflexivity|].
      rewrite Hc. apply tril_lt_any; lia.
Qed.

Definition names_ok (taxa : list str) : Prop := Forall tok_ok taxa.

Lemma nth_names_ok taxa i : names_ok taxa -> i < length taxa -> tok_ok (nth i taxa []).
Proof. intros H Hi. eapply Forall_forall; [exact H|]. apply nth_In. assumption. Qed.

Lemma print_all_ok vs : Forall tok_ok (map print_cell vs).
Proof. apply Forall_forall. intros x Hx. apply in_map_iff in Hx. destruct Hx as (v & <- & _). apply print_tok_ok. Qed.

(* lines of the writer output = size line :: data rows *)
Lemma writer_lines m sq txt : wf_m m -> 1 <= msize m -> names_ok (mtaxa m) ->
  to_phylip O m sq = Ok txt ->
  lines (flatten txt) =
  dec_of_nat (msize m) :: map (fun i => srow (nth i (mtaxa m) []) (wrow m sq i)) (seq 0 (msize m)).
Proof.
  intros Hwf Hn Hnames Hw. rewrite (writer_spec m sq Hwf) in Hw. injection Hw as Hw. subst txt.
  rewrite join_r_sep_concat.
  2:{ destruct (msize m); [lia|]. simpl. discriminate. }
  change ([nl] ++ ?x) with (nl :: x).
  rewrite !flatten_app, flatten_lit, flatten_nl, flatten_concat, !map_map.
  rewrite lines_cons' by apply dec_of_nat_noeol. f_equal.
  rewrite (map_ext _ (fun i => srow (nth i (mtaxa m) []) (wrow m sq i) ++ [10%N])).
  2:{ intros i. rewrite flatten_app, flatten_rrow. reflexivity. }
  rewrite <- (map_map (fun i => srow (nth i (mtaxa m) []) (wrow m sq i)) (fun r => r ++ [10%N])).
  apply lines_concat. apply Forall_forall. intros r Hr. apply in_map_iff in Hr.
  destruct Hr as (i & <- & Hi). apply in_seq in Hi. apply srow_noeol.
  - apply nth_names_ok; [assumption|]. destruct Hwf as [Hs _]. lia.
  - apply print_all_ok.
Qed.

(* ---- reading a written row ---- *)
Lemma parse_cells_print vs : Forall ok_cell vs -> forall k,
  parse_cells parse_cell (map print_cell vs) k = Ok (match k with Some k => firstn k vs | None => vs end).
Proof.
  induction 1 as [|v vs Hv Hvs IH]; intros k.
  - destruct k as [[|k]|]; reflexivity.
  - destruct k as [[|k]|]; cbn [map parse_cells]; try reflexivity; rewrite (H1 v Hv); rewrite IH; reflexivity.
Qed.

Lemma read_row_print name vs i t : tok_ok name -> Forall ok_cell vs ->
  read_phylip_row parse_cell (srow name vs) i t = Ok (name, if t then firstn i vs else vs).
Proof.
  intros Hn Hvs. unfold read_phylip_row, srow.
  rewrite split_ws_row by (try assumption; apply print_all_ok).
  rewrite parse_cells_print by assumption. destruct t; reflexivity.
Qed.

Lemma wcell_ok cells i j : Forall ok_cell cells -> ok_cell (wcell cells i j).
Proof.
  intros H. unfold wcell. destruct (Nat.eqb i j); [assumption|].
  destruct (nth_in_or_default (tril_idx i j) cells (l0 O)) as [Hin| ->]; [|assumption].
  eapply Forall_forall; eassumption.
Qed.

Lemma wrow_ok m sq i : Forall ok_cell (mcells m) -> Forall ok_cell (wrow m sq i).
Proof.
  intros H. apply Forall_forall. intros x Hx. apply in_map_iff in Hx. destruct Hx as (j & <- & _).
  apply wcell_ok. assumption.
Qed.

(* the lower triangle, row by row, is the cell vector *)
Lemma tril_concat cells : forall n, T (n - 1) <= length cells ->
  concat (map (fun i => map (wcell cells i) (seq 0 i)) (seq 0 n)) = firstn (T (n - 1)) cells.
Proof.
  induction n as [|n IH]; intros Hn; [reflexivity|].
  rewrite seq_S, map_app, concat_app. cbn [map concat plus]. rewrite app_nil_r.
  assert (E : T (S n - 1) = T (n - 1) + n).
  { destruct n as [|k]; [reflexivity|]. replace (S (S k) - 1) with (S k) by lia.
    replace (S k - 1) with k by lia. apply T_S. }
  rewrite E in *. rewrite IH by lia. rewrite firstn_add. f_equal.
  rewrite <- map_nth_segment with (d := l0 O) by assumption.
  apply map_ext_in. intros j Hj. apply in_seq in Hj. unfold wcell.
  rewrite (proj2 (Nat.eqb_neq n j)) by lia. rewrite tril_idx_lt by lia. reflexivity.
Qed.

Lemma tril_concat_full cells n : length cells = n * (n - 1) / 2 ->
  concat (map (fun i => map (wcell cells i) (seq 0 i)) (seq 0 n)) = cells.
Proof.
  intros H. rewrite tri_size in H. rewrite tril_concat by lia. rewrite <- H. apply firstn_all.
Qed.

Lemma map_nth_all {A} (d : A) (l : list A) : map (fun i => nth i l d) (seq 0 (length l)) = l.
Proof. rewrite map_nth_firstn by apply le_n. apply firstn_all. Qed.

Definition rt_pre (m : dmat) : Prop :=
  wf_m m /\ 1 <= msize m /\ names_ok (mtaxa m) /\ Forall ok_cell (mcells m) /\
  (N.of_nat (msize m) < 2 ^ 64)%N.

(* the triangular reader on either writer output *)
Lemma rt_tril_any m sq txt : rt_pre m ->
  to_phylip O m sq = Ok txt -> from_phylip_tril parse_cell (flatten txt) = Ok m.
Proof.
  intros (Hwf & Hn & Hnames & Hcells & Hb) Hw.
  rewrite tril_unfold. rewrite (writer_lines m sq txt Hwf Hn Hnames Hw).
  rewrite parse_usize_dec by assumption.
  rewrite map_length, seq_length, combine_map_self.
  destruct Hwf as [Hs Hc].
  rewrite (mapM_map _ (fun p => (nth (fst p) (mtaxa m) [], map (wcell (mcells m) (fst p)) (seq 0 (fst p))))).
  - cbn [bind]. rewrite !map_map. cbn [fst snd].
    rewrite Hs in *. rewrite map_nth_all. rewrite Nat.eqb_refl. cbn [negb].
    rewrite tril_concat_full by assumption. rewrite Hc, Nat.eqb_refl. cbn [negb].
    destruct m; simpl in *. subst. reflexivity.
  - intros p Hp. apply in_map_iff in Hp. destruct Hp as (i & <- & Hi). apply in_seq in Hi.
    unfold tril_row. cbn [fst snd].
    rewrite read_row_print by (try (apply nth_names_ok; [assumption|lia]); apply wrow_ok; assumption).
    cbn [bind]. unfold wrow. rewrite firstn_map, firstn_seq0 by (apply le_lim; lia).
    rewrite map_length, seq_length, Nat.eqb_refl. reflexivity.
Qed.


Theorem rt_tril_tril m txt : rt_pre m ->
  to_phylip O m false = Ok txt -> from_phylip_tril parse_cell (flatten txt) = Ok m.
Proof. apply rt_tril_any. Qed.

Theorem rt_tril_square m txt : rt_pre m ->
  to_phylip O m true = Ok txt -> from_phylip_tril parse_cell (flatten txt) = Ok m.
Proof. apply rt_tril_any. Qed.

(* ---- the strict reader on the writer output ---- *)
Lemma leqb_refl_ok v : ok_cell v -> leqb O v v = true.
Proof. intros H. apply Heq; auto. Qed.

Definition trip : Type := (str * list L) * (str * L).
Definition trips_of (names : list str) (rows : list (list L)) : list trip :=
  flat_map (fun p => map (pair p) (combine names (snd p))) (combine names rows).
Definition tstep (st : dmat * list (str * str)) (t : trip) := sstep O (fst (fst t)) st (snd t).

Lemma fill_trips names rows st : fill O names rows st = foldM tstep (trips_of names rows) st.
Proof.
  unfold fill, trips_of, tstep.
  apply (foldM_nested (fun (p : str * list L) => sstep O (fst p)) (fun p => combine names (snd p))).
Qed.

Section FillWriter.
Variable m0 : dmat.
Hypothesis Hwf : wf_m m0.

Definition Good (t : trip) : Prop :=
  In (fst (fst t)) (mtaxa m0) /\ In (fst (snd t)) (mtaxa m0) /\
  dm_get O m0 (fst (fst t)) (fst (snd t)) = Ok (snd (snd t)) /\ ok_cell (snd (snd t)).

Definition Inv1 (pre : list trip) (st : dmat * list (str * str)) : Prop :=
  msize (fst st) = msize m0 /\ mtaxa (fst st) = mtaxa m0 /\
  length (mcells (fst st)) = length (mcells m0) /\
  (forall a b, mem_pair a b (snd st) = true -> dm_get O (fst st) a b = dm_get O m0 a b) /\
  (forall t, In t pre -> mem_pair (fst (fst t)) (fst (snd t)) (snd st) = true \/
                         mem_pair (fst (snd t)) (fst (fst t)) (snd st) = true).

Lemma Inv1_step pre t st : Good t -> Inv1 pre st ->
  exists st', tstep st t = Ok st' /\ Inv1 (pre ++ [t]) st'.
Proof.
  destruct Hwf as [Hs Hc].
  destruct st as [mm seen], t as [[n1 row] [n2 d]]. unfold Good, Inv1, tstep. cbn [fst snd].
  intros (Hi1 & Hi2 & Hg & Hd) (F1 & F2 & F3 & HC & HP). unfold sstep. cbn [fst snd].
  destruct (mem_pair n2 n1 seen) eqn:Em.
  - assert (E : dm_get O mm n1 n2 = Ok d).
    { rewrite get_sym, (HC _ _ Em), get_sym. assumption. }
    rewrite E. cbn [lift_m bind]. rewrite leqb_refl_ok by assumption. cbn [negb].
    eexists. split; [reflexivity|]. cbn [fst snd]. repeat split; try assumption.
    intros t Ht. apply in_app_or in Ht. destruct Ht as [Ht|[<-|[]]]; [auto|]. right. assumption.
  - destruct (str_eqb n1 n2) eqn:En.
    + apply str_eqb_eq in En. subst n2. rewrite get_diag in Hg. injection Hg as <-.
      rewrite set_diag, leqb_refl_ok by assumption. cbn [lift_m bind].
      eexists. split; [reflexivity|]. cbn [fst snd]. repeat split; try assumption.
      * intros a b. rewrite mem_pair_cons. intros H. apply orb_true_iff in H. destruct H as [H|H]; [|auto].
        apply andb_true_iff in H. destruct H as [Ha Hb]. apply str_eqb_eq in Ha, Hb. subst.
        rewrite !get_diag. reflexivity.
      * intros t Ht. apply in_app_or in Ht. rewrite !mem_pair_cons. destruct Ht as [Ht|[<-|[]]].
        -- destruct (HP t Ht) as [H|H]; rewrite H, !orb_true_r; auto.
        -- cbn [fst snd]. rewrite !str_eqb_refl. left. reflexivity.
    + apply str_eqb_neq in En.
      destruct (set_ok O mm n1 n2 d) as [mm' Hset]; try congruence; try (rewrite F2; assumption).
      rewrite Hset. cbn [lift_m bind].
      destruct (set_frame O _ _ _ _ _ Hset) as (G1 & G2 & G3).
      eexists. split; [reflexivity|]. cbn [fst snd]. repeat split; try congruence.
      * intros a b. rewrite mem_pair_cons. intros H.
        destruct (str_eqb a n1 && str_eqb b n2) eqn:Eab.
        -- apply andb_true_iff in Eab. destruct Eab as [Ha Hb]. apply str_eqb_eq in Ha, Hb. subst.
           rewrite Hg. apply (get_set_same O _ _ _ _ _ En Hset).
        -- simpl in H. rewrite <- (HC _ _ H). apply (get_set_other O _ _ _ _ _ _ _ ) with (3 := Hset).
           ++ intros E. injection E as -> ->. rewrite !str_eqb_refl in Eab. discriminate.
           ++ intros E. injection E as -> ->. congruence.
      * intros t Ht. apply in_app_or in Ht. rewrite !mem_pair_cons. destruct Ht as [Ht|[<-|[]]].
        -- destruct (HP t Ht) as [H|H]; rewrite H, !orb_true_r; auto.
        -- cbn [fst snd]. rewrite !str_eqb_refl. left. reflexivity.
Qed.

Lemma Inv1_run l st : Forall Good l -> Inv1 [] st ->
  exists st', foldM tstep l st = Ok st' /\ Inv1 l st'.
Proof.
  intros Hl Hst.
  apply (foldM_prefix_ok tstep Inv1 l) with (pre := []); [|assumption].
  intros pre x s Hin. apply Inv1_step. eapply Forall_forall; eassumption.
Qed.

End FillWriter.


Lemma nth_taxa_neq (m : dmat) i j : NoDup (mtaxa m) -> i < length (mtaxa m) -> j < length (mtaxa m) -> i <> j ->
  nth i (mtaxa m) [] <> nth j (mtaxa m) [].
Proof.
  intros Hnd Hi Hj E Hn. apply E. apply (proj1 (NoDup_nth (mtaxa m) []) Hnd); assumption.
Qed.

Lemma find_nth_taxa (m : dmat) i : NoDup (mtaxa m) -> i < length (mtaxa m) ->
  find_str (nth i (mtaxa m) []) (mtaxa m) = Some i.
Proof. intros Hnd Hi. apply find_str_nodup; [assumption|]. apply nth_error_nth'. assumption. Qed.

Lemma get_wcell m i j : wf_m m -> NoDup (mtaxa m) -> i < msize m -> j < msize m ->
  dm_get O m (nth i (mtaxa m) []) (nth j (mtaxa m) []) = Ok (wcell (mcells m) i j).
Proof.
  intros [Hs Hc] Hnd Hi Hj. unfold wcell. destruct (Nat.eqb i j) eqn:E.
  - apply Nat.eqb_eq in E. subst. apply get_diag.
  - apply Nat.eqb_neq in E.
    rewrite (get_spec O m _ _ i j); try assumption.
    + rewrite (nth_error_nth' (mcells m) (l0 O)); [reflexivity|]. rewrite Hc. apply tril_lt_any; assumption.
    + apply nth_taxa_neq; try assumption; lia.
    + apply find_nth_taxa; [assumption|lia].
    + apply find_nth_taxa; [assumption|lia].
Qed.

Lemma trips_writer_in m sq t : wf_m m ->
  In t (trips_of (mtaxa m) (map (wrow m sq) (seq 0 (msize m)))) <->
  exists i j, i < msize m /\ j < lim sq (msize m) i /\
    t = ((nth i (mtaxa m) [], wrow m sq i), (nth j (mtaxa m) [], wcell (mcells m) i j)).
Proof.
  intros [Hs Hc]. unfold trips_of. rewrite (combine_nth_map ([] : str)) by lia.
  rewrite in_flat_map. split.
  - intros (p & Hp & Ht). apply in_map_iff in Hp. destruct Hp as (i & <- & Hi). apply in_seq in Hi.
    apply in_map_iff in Ht. destruct Ht as (q & <- & Hq). cbn [snd] in Hq. unfold wrow in Hq.
    rewrite (combine_nth_map ([] : str)) in Hq by (pose proof (lim_le sq (msize m) i); lia).
    apply in_map_iff in Hq. destruct Hq as (j & <- & Hj). apply in_seq in Hj.
    exists i, j. repeat split; try lia.
  - intros (i & j & Hi & Hj & ->). exists (nth i (mtaxa m) [], wrow m sq i). split.
    + apply in_map_iff. exists i. split; [reflexivity|]. apply in_seq. lia.
    + apply in_map. cbn [snd]. unfold wrow.
      rewrite (combine_nth_map ([] : str)) by (pose proof (lim_le sq (msize m) i); lia).
      apply in_map_iff. exists j. split; [reflexivity|]. apply in_seq. lia.
Qed.

Lemma lim_lt sq n i j : i < n -> j < lim sq n i -> j < n.
Proof. destruct sq; simpl; lia. Qed.

Lemma inv1_final m sq mm seen : wf_m m -> NoDup (mtaxa m) ->
  Inv1 m (trips_of (mtaxa m) (map (wrow m sq) (seq 0 (msize m)))) (mm, seen) -> mm = m.
Proof.
  intros Hwf Hnd (F1 & F2 & F3 & HC & HP). cbn [fst snd] in *. pose proof Hwf as [Hs Hc].
  assert (E : mcells mm = mcells m).
  { apply nth_error_ext_eq. intros k. destruct (Nat.lt_ge_cases k (length (mcells m))) as [Hk|Hk].
    - pose proof (tril_surj (msize m) k) as Hsj. rewrite <- Hc in Hsj. specialize (Hsj Hk).
      destruct (tril_inv k) as [i j]. destruct Hsj as (Hji & Hin & <-).
      set (a := nth i (mtaxa m) []). set (b := nth j (mtaxa m) []).
      assert (Hg : dm_get O mm a b = dm_get O m a b).
      { destruct (HP ((a, wrow m sq i), (b, wcell (mcells m) i j))) as [H|H].
        - apply trips_writer_in; [assumption|]. exists i, j. repeat split; [assumption|].
          destruct sq; simpl; lia.
        - apply HC. assumption.
        - rewrite get_sym, (get_sym O m). apply HC. assumption. }
      assert (Hab : a <> b) by (apply nth_taxa_neq; try assumption; lia).
      rewrite (get_spec O mm a b i j), (get_spec O m a b i j) in Hg; try assumption; try lia;
        try (rewrite F2); try (apply find_nth_taxa; [assumption|lia]).
      destruct (nth_error (mcells mm) (tril_idx i j)), (nth_error (mcells m) (tril_idx i j)); congruence.
    - rewrite (proj2 (nth_error_None (mcells m) k)) by assumption.
      apply nth_error_None. lia. }
  destruct mm, m; simpl in *; subst; reflexivity.
Qed.

Lemma wrow_length m sq i : length (wrow m sq i) = lim sq (msize m) i.
Proof. unfold wrow. rewrite map_length, seq_length. reflexivity. Qed.

Lemma wrow_diag m i : i < msize m -> nth i (wrow m true i) (l0 O) = l0 O.
Proof.
  intros Hi. unfold wrow, lim.
  rewrite (nth_indep _ (l0 O) (wcell (mcells m) i 0)) by (rewrite map_length, seq_length; assumption).
  rewrite map_nth, seq_nth by assumption. unfold wcell. simpl. rewrite Nat.eqb_refl. reflexivity.
Qed.

(* the strict reader on either writer output (same shape flag) *)
Lemma rt_strict_any m sq txt : rt_pre m -> NoDup (mtaxa m) ->
  to_phylip O m sq = Ok txt -> from_phylip_strict O parse_cell (flatten txt) sq = Ok m.
Proof.
  intros (Hwf & Hn & Hnames & Hcells & Hb) Hnd Hw.
  rewrite strict_unfold. rewrite (writer_lines m sq txt Hwf Hn Hnames Hw).
  rewrite parse_usize_dec by assumption.
  rewrite map_length, seq_length, combine_map_self.
  pose proof Hwf as [Hs Hc].
  rewrite (mapM_map _ (fun p => (nth (fst p) (mtaxa m) [], wrow m sq (fst p)))).
  2:{ intros p Hp. apply in_map_iff in Hp. destruct Hp as (i & <- & Hi). apply in_seq in Hi.
      unfold strict_row. cbn [fst snd].
      rewrite read_row_print by (try (apply nth_names_ok; [assumption|lia]); apply wrow_ok; assumption).
      cbn [bind]. rewrite wrow_length.
      rewrite (proj2 (Nat.leb_gt (msize m) i)) by lia.
      destruct sq; cbn [lim andb negb orb]; rewrite Nat.eqb_refl; cbn [andb negb orb].
      - rewrite wrow_diag by lia. rewrite leqb_refl_ok by assumption. reflexivity.
      - reflexivity. }
  cbn [bind]. cbv zeta. rewrite !map_map. cbn [fst snd].
  assert (Et : map (fun x => nth x (mtaxa m) []) (seq 0 (msize m)) = mtaxa m)
    by (rewrite Hs; apply map_nth_all).
  rewrite Et. rewrite <- Hs, Nat.eqb_refl. cbn [negb].
  unfold dm_set_taxa, dm_with_size. cbn [msize mcells]. rewrite <- Hs, Nat.eqb_refl. cbn [lift_m bind].
  rewrite fill_trips.
  match goal with |- context [foldM tstep ?l ?s] =>
    destruct (Inv1_run m Hwf l s) as ([mm seen] & Hf & Hinv) end.
  - apply Forall_forall. intros t Ht. apply trips_writer_in in Ht; [|assumption].
    destruct Ht as (i & j & Hi & Hj & ->). pose proof (lim_lt _ _ _ _ Hi Hj) as Hj'.
    unfold Good. cbn [fst snd]. repeat split.
    + apply nth_In. lia.
    + apply nth_In. lia.
    + apply get_wcell; assumption.
    + apply wcell_ok. assumption.
  - unfold Inv1. cbn [fst snd msize mtaxa mcells]. repeat split.
    + rewrite repeat_length. symmetry. assumption.
    + intros a b H. discriminate.
    + intros t [].
  - rewrite Hf. cbn [bind fst]. f_equal. eapply inv1_final; eassumption.
Qed.

Theorem rt_strict_tril m txt : rt_pre m -> NoDup (mtaxa m) ->
  to_phylip O m false = Ok txt -> from_phylip_strict O parse_cell (flatten txt) false = Ok m.
Proof. apply rt_strict_any. Qed.

Theorem rt_strict_square m txt : rt_pre m -> NoDup (mtaxa m) ->
  to_phylip O m true = Ok txt -> from_phylip_strict O parse_cell (flatten txt) true = Ok m.
Proof. apply rt_strict_any. Qed.

End RoundTrip.

(* ================================================================================================ *)
(* Part 4: what a successful strict read says about the text                                         *)
(* ================================================================================================ *)

Lemma nodup_app_intro {A} (l l' : list A) :
  NoDup l -> NoDup l' -> (forall x, In x l -> ~ In x l') -> NoDup (l ++ l').
Proof.
  induction l as [|a l IH]; intros H H' Hd; [assumption|].
  inversion H; subst. simpl. constructor.
  - intros Hin. apply in_app_or in Hin. destruct Hin as [Hin|Hin]; [contradiction|].
    apply (Hd a); [left; reflexivity|assumption].
  - apply IH; try assumption. intros x Hx. apply Hd. right. assumption.
Qed.

Lemma nodup_app_l {A} (l l' : list A) : NoDup (l ++ l') -> NoDup l.
Proof.
  induction l as [|a l IH]; intros H; [constructor|].
  simpl in H. inversion H; subst. constructor.
  - intros Hin. apply H2. apply in_or_app. left. assumption.
  - apply IH. assumption.
Qed.

Lemma nodup_snoc_fresh {A} (l : list A) x : NoDup (l ++ [x]) -> ~ In x l.
Proof. intros H. apply NoDup_remove_2 in H. rewrite app_nil_r in H. assumption. Qed.

Lemma nodup_map_inj {A B} (f : A -> B) l :
  (forall x y, f x = f y -> x = y) -> NoDup l -> NoDup (map f l).
Proof.
  intros Hf. induction 1 as [|a l Ha Hl IH]; simpl; constructor; [|assumption].
  intros Hin. apply in_map_iff in Hin. destruct Hin as (y & Hy & Hin). apply Hf in Hy. subst. contradiction.
Qed.

Lemma nodup_combine_fst {A B} (l : list A) : NoDup l -> forall (r : list B), NoDup (map fst (combine l r)).
Proof.
  induction 1 as [|a l Ha Hl IH]; intros r; [constructor|].
  destruct r as [|b r]; [constructor|]. simpl. constructor; [|apply IH].
  intros Hin. apply in_map_iff in Hin. destruct Hin as ([x y] & Hx & Hin). simpl in Hx. subst.
  apply in_combine_l in Hin. contradiction.
Qed.

Lemma snoc_split2 {A} (pre : list A) t p1 t1 p2 t2 p3 :
  pre ++ [t] = p1 ++ t1 :: p2 ++ t2 :: p3 ->
  (p3 = [] /\ t2 = t /\ pre = p1 ++ t1 :: p2) \/
  (exists p3', p3 = p3' ++ [t] /\ pre = p1 ++ t1 :: p2 ++ t2 :: p3').
Proof.
  intros E. assert (Hc : p3 = [] \/ exists p3' x, p3 = p3' ++ [x]).
  { destruct p3 as [|y p3r]; [left; reflexivity|right].
    destruct (@exists_last _ (y :: p3r)) as (p3' & x & E'); [discriminate|]. eauto. }
  destruct Hc as [->|(p3' & x & ->)].
  - left. replace (p1 ++ t1 :: p2 ++ [t2]) with ((p1 ++ t1 :: p2) ++ [t2]) in E
      by (rewrite <- app_assoc; reflexivity).
    apply app_inj_tail in E. destruct E as [-> ->]. auto.
  - right. replace (p1 ++ t1 :: p2 ++ t2 :: p3' ++ [x]) with ((p1 ++ t1 :: p2 ++ t2 :: p3') ++ [x]) in E.
    + apply app_inj_tail in E. destruct E as [-> ->]. eauto.
    + rewrite <- app_assoc. simpl. rewrite <- app_assoc. reflexivity.
Qed.

Lemma combine_fst_snd {A B} (r : list (A * B)) : combine (map fst r) (map snd r) = r.
Proof. induction r as [|[a b] r IH]; simpl; [reflexivity|]. f_equal. assumption. Qed.

Lemma nth_error_combine {A B} (l : list A) (r : list B) : forall i a b,
  nth_error l i = Some a -> nth_error r i = Some b -> nth_error (combine l r) i = Some (a, b).
Proof.
  revert r. induction l as [|x l IH]; intros r i a b Ha Hb; [destruct i; discriminate|].
  destruct r as [|y r]; [destruct i; discriminate|].
  destruct i as [|i]; simpl in *; [congruence|]. apply IH; assumption.
Qed.

Lemma nth_error_split2 {A} (l : list A) i j x y : i < j ->
  nth_error l i = Some x -> nth_error l j = Some y ->
  exists a b c, l = a ++ x :: b ++ y :: c.
Proof.
  intros Hij Hi Hj. apply nth_error_split in Hi. destruct Hi as (a & r & -> & Hlen).
  rewrite nth_error_app2 in Hj by lia. rewrite Hlen in Hj.
  destruct (j - i) as [|k] eqn:E; [lia|]. simpl in Hj.
  apply nth_error_split in Hj. destruct Hj as (b & c & -> & _). eauto.
Qed.

Lemma foldM_pres {A S} (g : S -> A -> outcome S) (P : S -> Prop) :
  (forall s x s', P s -> g s x = Ok s' -> P s') ->
  forall l s s', P s -> foldM g l s = Ok s' -> P s'.
Proof.
  intros Hg. induction l as [|x l IH]; intros s s' Hs E; simpl in E.
  - inversion E; subst. assumption.
  - destruct (g s x) as [s1| | |] eqn:E1; simpl in E; try discriminate.
    apply (IH s1); [eapply Hg; eauto|assumption].
Qed.

Lemma lift_m_ok {A} (o : outcome A) a : lift_m o = Ok a -> o = Ok a.
Proof. destruct o; simpl; intros H; try discriminate. assumption. Qed.

Section StrictOk.
Context {L : Type}.
Variable O : LenOps L.
Variable parse_cell : str -> option L.
Notation dmat := (@dmat L).
Notation trip := (@trip L).

Definition tkey (t : trip) : str * str := (fst (fst t), fst (snd t)).
Definition tval (t : trip) : L := snd (snd t).

Lemma tstep_frame st t st' : tstep O st t = Ok st' ->
  msize (fst st') = msize (fst st) /\ mtaxa (fst st') = mtaxa (fst st).
Proof.
  destruct st as [mm seen], t as [[n1 row] [n2 d]]. unfold tstep, sstep. cbn [fst snd].
  destruct (mem_pair n2 n1 seen).
  - destruct (lift_m (dm_get O mm n1 n2)); simpl; try discriminate.
    destruct (negb _); intros H; inversion H; subst. auto.
  - destruct (dm_set O mm n1 n2 d) as [mm'| | |] eqn:E; simpl; try discriminate.
    intros H; inversion H; subst. cbn [fst]. destruct (set_frame O _ _ _ _ _ E) as (E1 & E2 & _). auto.
Qed.

Lemma fill_frame names rows st st' : fill O names rows st = Ok st' ->
  msize (fst st') = msize (fst st) /\ mtaxa (fst st') = mtaxa (fst st).
Proof.
  rewrite fill_trips. intros H.
  apply (foldM_pres (tstep O)
           (fun s => msize (fst s) = msize (fst st) /\ mtaxa (fst s) = mtaxa (fst st))) in H; auto.
  intros s x s' [P1 P2] E. apply tstep_frame in E. destruct E as [E1 E2]. split; congruence.
Qed.

(* ---- keys of the fill sequence are pairwise distinct when the names are ---- *)
Lemma trips_keys_nodup names (prs : list (str * list L)) :
  NoDup names -> NoDup (map fst prs) ->
  NoDup (map tkey (flat_map (fun p => map (pair p) (combine names (snd p))) prs)).
Proof.
  intros Hn. induction prs as [|p prs IH]; intros Hp; [constructor|].
  simpl in Hp. inversion Hp as [|? ? Hfresh Hp']; subst.
  cbn [flat_map]. rewrite map_app. apply nodup_app_intro.
  - rewrite map_map. unfold tkey. cbn [fst snd].
    rewrite <- (map_map fst (fun b => (fst p, b))).
    apply nodup_map_inj; [intros x y E; congruence|]. apply nodup_combine_fst. assumption.
  - apply IH. assumption.
  - intros k Hk Hk'. apply in_map_iff in Hk. destruct Hk as (t & <- & Ht).
    apply in_map_iff in Ht. destruct Ht as (q & <- & _).
    apply in_map_iff in Hk'. destruct Hk' as (t' & Ek & Ht'). apply in_flat_map in Ht'.
    destruct Ht' as (p' & Hp'in & Ht'). apply in_map_iff in Ht'. destruct Ht' as (q' & <- & _).
    unfold tkey in Ek. cbn [fst snd] in Ek. apply Hfresh. apply in_map_iff. exists p'. split; [congruence|assumption].
Qed.

Lemma trips_of_keys_nodup names rows : NoDup names -> NoDup (map tkey (trips_of names rows)).
Proof.
  intros Hn. unfold trips_of. apply trips_keys_nodup; [assumption|]. apply nodup_combine_fst. assumption.
Qed.

(* ---- the inversion invariant of the fill loop ---- *)
Definition Inv2 (pre : list trip) (st : dmat * list (str * str)) : Prop :=
  (forall a b, mem_pair a b (snd st) = true -> exists t, In t pre /\ tkey t = (a, b)) /\
  (forall t, In t pre -> mem_pair (fst (tkey t)) (snd (tkey t)) (snd st) = true \/
                         mem_pair (snd (tkey t)) (fst (tkey t)) (snd st) = true) /\
  (forall a b t, mem_pair a b (snd st) = true -> a <> b -> In t pre -> tkey t = (a, b) ->
                 dm_get O (fst st) a b = Ok (tval t)) /\
  (forall p1 t1 p2 t2 p3, pre = p1 ++ t1 :: p2 ++ t2 :: p3 ->
     tkey t2 = (snd (tkey t1), fst (tkey t1)) -> fst (tkey t1) <> snd (tkey t1) ->
     leqb O (tval t1) (tval t2) = true).

Lemma mem_pair_cons_true a b x y l : mem_pair a b ((x, y) :: l) = true ->
  (a, b) = (x, y) \/ mem_pair a b l = true.
Proof.
  rewrite mem_pair_cons. intros H. apply orb_true_iff in H. destruct H as [H|H]; [left|right; assumption].
  apply andb_true_iff in H. destruct H as [Ha Hb]. apply str_eqb_eq in Ha, Hb. congruence.
Qed.

Lemma mem_pair_cons_mono a b p l : mem_pair a b l = true -> mem_pair a b (p :: l) = true.
Proof. intros H. unfold mem_pair in *. simpl. rewrite H. apply orb_true_r. Qed.

Lemma mem_pair_cons_hd a b l : mem_pair a b ((a, b) :: l) = true.
Proof. rewrite mem_pair_cons, !str_eqb_refl. reflexivity. Qed.

Lemma Inv2_step pre t st st' : NoDup (map tkey (pre ++ [t])) ->
  Inv2 pre st -> tstep O st t = Ok st' -> Inv2 (pre ++ [t]) st'.
Proof.
  intros Hnd (B1 & B2 & HC & HS) Hstep.
  assert (Hfresh : forall t', In t' pre -> tkey t' = tkey t -> False).
  { intros t' Hin Ek. rewrite map_app in Hnd. apply nodup_snoc_fresh in Hnd. apply Hnd.
    rewrite <- Ek. apply in_map. assumption. }
  destruct st as [mm seen], t as [[n1 row] [n2 d]]. unfold tstep, sstep in Hstep. cbn [fst snd] in *.
  change (tkey (n1, row, (n2, d))) with (n1, n2) in Hfresh.
  destruct (mem_pair n2 n1 seen) eqn:Em.
  - (* the symmetric cell is known: compare *)
    destruct (lift_m (dm_get O mm n1 n2)) as [known| | |] eqn:Eg; simpl in Hstep; try discriminate.
    apply lift_m_ok in Eg.
    destruct (leqb O known d) eqn:El; simpl in Hstep; [|discriminate].
    inversion Hstep; subst st'. clear Hstep. cbn [fst snd]. repeat split.
    + intros a b H. destruct (B1 a b H) as (t & Ht & Ek). exists t. split; [apply in_or_app; auto|assumption].
    + intros t Ht. apply in_app_or in Ht. destruct Ht as [Ht|[<-|[]]]; [auto|]. right. assumption.
    + intros a b t H Hab Ht Ek. apply in_app_or in Ht. destruct Ht as [Ht|[<-|[]]]; [eauto|].
      exfalso. change (tkey (n1, row, (n2, d))) with (n1, n2) in Ek. inversion Ek; subst.
      destruct (B1 _ _ H) as (t' & Ht' & Ek'). eauto.
    + intros p1 t1 p2 t2 p3 E Ek Hne. apply snoc_split2 in E.
      destruct E as [(-> & -> & ->)|(p3' & -> & ->)]; [|eapply HS; eauto].
      change (tkey (n1, row, (n2, d))) with (n1, n2) in Ek. change (tval (n1, row, (n2, d))) with d.
      assert (Hin1 : In t1 (p1 ++ t1 :: p2)) by (apply in_or_app; right; left; reflexivity).
      destruct (tkey t1) as [x y] eqn:Ek1. cbn [fst snd] in *. inversion Ek; subst x y.
      assert (Eg1 : dm_get O mm n2 n1 = Ok (tval t1)).
      { apply HC; try assumption. }
      rewrite get_sym in Eg1. rewrite Eg1 in Eg. inversion Eg; subst. assumption.
  - (* first occurrence: store *)
    destruct (dm_set O mm n1 n2 d) as [mm'| | |] eqn:Es; simpl in Hstep; try discriminate.
    inversion Hstep; subst st'. clear Hstep. cbn [fst snd]. repeat split.
    + intros a b H. apply mem_pair_cons_true in H. destruct H as [H|H].
      * inversion H; subst. exists (n1, row, (n2, d)). split; [apply in_or_app; right; left; reflexivity|reflexivity].
      * destruct (B1 a b H) as (t & Ht & Ek). exists t. split; [apply in_or_app; auto|assumption].
    + intros t Ht. apply in_app_or in Ht. destruct Ht as [Ht|[<-|[]]].
      * destruct (B2 t Ht); [left|right]; apply mem_pair_cons_mono; assumption.
      * left. apply mem_pair_cons_hd.
    + intros a b t H Hab Ht Ek. apply in_app_or in Ht. destruct Ht as [Ht|[<-|[]]].
      * apply mem_pair_cons_true in H. destruct H as [H|H].
        -- exfalso. inversion H; subst. eauto.
        -- rewrite <- (HC a b t H Hab Ht Ek). apply (get_set_other O) with (3 := Es).
           ++ intros E. inversion E; subst. eauto.
           ++ intros E. inversion E; subst. congruence.
      * change (tkey (n1, row, (n2, d))) with (n1, n2) in Ek. inversion Ek; subst.
        apply (get_set_same O _ _ _ _ _ Hab Es).
    + intros p1 t1 p2 t2 p3 E Ek Hne. apply snoc_split2 in E.
      destruct E as [(-> & -> & ->)|(p3' & -> & ->)]; [|eapply HS; eauto].
      exfalso. change (tkey (n1, row, (n2, d))) with (n1, n2) in Ek.
      assert (Hin1 : In t1 (p1 ++ t1 :: p2)) by (apply in_or_app; right; left; reflexivity).
      destruct (tkey t1) as [x y] eqn:Ek1. cbn [fst snd] in *. inversion Ek; subst x y.
      destruct (B2 t1 Hin1) as [H|H]; rewrite Ek1 in H; cbn [fst snd] in H; [congruence|].
      destruct (B1 _ _ H) as (t' & Ht' & Ek'). eauto.
Qed.

Lemma Inv2_run names rows st st' : NoDup names ->
  (forall a b, mem_pair a b (snd st) = false) ->
  foldM (tstep O) (trips_of names rows) st = Ok st' -> Inv2 (trips_of names rows) st'.
Proof.
  intros Hn Hseen H.
  apply (foldM_prefix_inv (tstep O) Inv2 (trips_of names rows) [] st st'); [| |assumption].
  - intros p x q s s' E Hi Hs. apply (Inv2_step p x s s'); try assumption.
    pose proof (trips_of_keys_nodup names rows Hn) as Hnd. simpl in E. rewrite E in Hnd.
    replace (p ++ x :: q) with ((p ++ [x]) ++ q) in Hnd by (rewrite <- app_assoc; reflexivity).
    rewrite map_app in Hnd. apply nodup_app_l in Hnd. assumption.
  - unfold Inv2. repeat split.
    + intros a b H0. rewrite Hseen in H0. discriminate.
    + intros t [].
    + intros a b t H0. rewrite Hseen in H0. discriminate.
    + intros p1 t1 p2 t2 p3 E. destruct p1; discriminate.
Qed.


(* two fill steps in row-major order *)
Lemma trips_split names (rows : list (list L)) i j ni di nj dj vj vi : i < j ->
  nth_error (combine names rows) i = Some (ni, di) ->
  nth_error (combine names rows) j = Some (nj, dj) ->
  In (nj, vj) (combine names di) -> In (ni, vi) (combine names dj) ->
  exists p1 p2 p3,
    trips_of names rows = p1 ++ ((ni, di), (nj, vj)) :: p2 ++ ((nj, dj), (ni, vi)) :: p3.
Proof.
  intros Hij Hi Hj Hin1 Hin2.
  destruct (nth_error_split2 _ _ _ _ _ Hij Hi Hj) as (a & b & c & E).
  apply in_split in Hin1. destruct Hin1 as (x1 & y1 & E1).
  apply in_split in Hin2. destruct Hin2 as (x2 & y2 & E2).
  unfold trips_of. rewrite E. rewrite flat_map_app. cbn [flat_map]. rewrite flat_map_app. cbn [flat_map snd].
  rewrite E1, E2. rewrite !map_app. cbn [map].
  set (F := flat_map (fun p : str * list L => map (pair p) (combine names (snd p)))).
  exists (F a ++ map (pair (ni, di)) x1), (map (pair (ni, di)) y1 ++ F b ++ map (pair (nj, dj)) x2),
         (map (pair (nj, dj)) y2 ++ F c).
  rewrite <- !app_assoc. cbn [app]. rewrite <- ?app_assoc. reflexivity.
Qed.

Lemma strict_row_inv sq size p y : strict_row O parse_cell sq size p = Ok y ->
  read_phylip_row parse_cell (snd p) (fst p) false = Ok y /\
  length (snd y) = (if sq then size else fst p) /\
  (sq = true -> fst p < size /\ leqb O (nth (fst p) (snd y) (l0 O)) (l0 O) = true).
Proof.
  unfold strict_row.
  destruct (read_phylip_row parse_cell (snd p) (fst p) false) as [[name ds]| | |]; simpl; try discriminate.
  destruct sq; simpl.
  - destruct (Nat.eqb (length ds) size) eqn:E1; simpl; try discriminate.
    destruct (Nat.leb size (fst p)) eqn:E2; simpl; try discriminate.
    destruct (leqb O (nth (fst p) ds (l0 O)) (l0 O)) eqn:E3; simpl; try discriminate.
    intros H; inversion H; subst. simpl. split; [reflexivity|]. split; [apply Nat.eqb_eq; assumption|].
    intros _. split; [apply Nat.leb_gt; assumption|assumption].
  - destruct (Nat.eqb (length ds) (fst p)) eqn:E1; simpl; try discriminate.
    intros H; inversion H; subst. simpl. split; [reflexivity|]. split; [apply Nat.eqb_eq; assumption|].
    discriminate.
Qed.

Lemma strict_ok_core text sq m first rest :
  from_phylip_strict O parse_cell text sq = Ok m -> lines text = first :: rest ->
  exists size r st,
    parse_usize first = Some size /\ length rest = size /\ length r = size /\
    (forall i line, nth_error rest i = Some line ->
       exists y, nth_error r i = Some y /\ strict_row O parse_cell sq size (i, line) = Ok y) /\
    fill O (map fst r) (map snd r)
         (mkDmat size (map fst r) (repeat (l0 O) (size * (size - 1) / 2)), []) = Ok st /\
    m = fst st /\ msize m = size /\ mtaxa m = map fst r.
Proof.
  intros H Hl. rewrite strict_unfold, Hl in H.
  destruct (parse_usize first) as [size|]; [|discriminate].
  destruct (mapM (strict_row O parse_cell sq size) (combine (seq 0 (length rest)) rest)) as [r| | |] eqn:Er;
    simpl in H; try discriminate.
  destruct (Nat.eqb (length (map fst r)) size) eqn:El; simpl in H; [|discriminate].
  unfold dm_set_taxa, dm_with_size in H. cbn [msize mcells] in H. rewrite El in H. cbn [lift_m bind] in H.
  destruct (fill O (map fst r) (map snd r) _) as [st| | |] eqn:Ef; simpl in H; try discriminate.
  inversion H; subst m. clear H.
  apply Nat.eqb_eq in El. rewrite map_length in El.
  pose proof (mapM_length _ _ _ Er) as Hlen. rewrite combine_length, seq_length, Nat.min_id in Hlen.
  destruct (fill_frame _ _ _ _ Ef) as [Fm Ft]. cbn [fst msize mtaxa] in Fm, Ft.
  exists size, r, st. repeat split; try assumption; try congruence.
  intros i line Hi. apply (mapM_nth _ _ _ Er).
  rewrite nth_error_combine_seq, Hi. reflexivity.
Qed.

(* the number of data lines equals the declared size *)
Theorem strict_ok_rows text sq m : from_phylip_strict O parse_cell text sq = Ok m ->
  exists first rest size, lines text = first :: rest /\ parse_usize first = Some size /\
    length rest = size /\ msize m = size /\ length (mtaxa m) = size.
Proof.
  intros H. destruct (lines text) as [|first rest] eqn:Hl.
  - rewrite strict_unfold, Hl in H. discriminate.
  - destruct (strict_ok_core _ _ _ _ _ H Hl) as (size & r & st & Hp & Hr & Hlr & _ & _ & _ & Hm & Ht).
    exists first, rest, size. repeat split; try assumption. rewrite Ht, map_length. assumption.
Qed.

(* every data line parses; square rows have exactly `size` cells, triangular row i has exactly i cells;
   the names are the taxa of the result *)
Theorem strict_ok_shape text sq m first rest :
  from_phylip_strict O parse_cell text sq = Ok m -> lines text = first :: rest ->
  forall i line, nth_error rest i = Some line ->
  exists name ds, read_phylip_row parse_cell line i false = Ok (name, ds) /\
                  nth_error (mtaxa m) i = Some name /\
                  length ds = (if sq then msize m else i).
Proof.
  intros H Hl i line Hi.
  destruct (strict_ok_core _ _ _ _ _ H Hl) as (size & r & st & Hp & Hr & Hlr & Hrow & _ & _ & Hm & Ht).
  destruct (Hrow i line Hi) as ([name ds] & Hy & Hs). apply strict_row_inv in Hs.
  destruct Hs as (Hread & Hlen & _). cbn [fst snd] in *.
  exists name, ds. repeat split; [assumption| |rewrite Hm; assumption].
  rewrite Ht, nth_error_map, Hy. reflexivity.
Qed.

(* square form: every diagonal cell compares equal to zero *)
Theorem strict_ok_diag text m first rest :
  from_phylip_strict O parse_cell text true = Ok m -> lines text = first :: rest ->
  forall i line name ds, nth_error rest i = Some line ->
    read_phylip_row parse_cell line i false = Ok (name, ds) ->
    leqb O (nth i ds (l0 O)) (l0 O) = true.
Proof.
  intros H Hl i line name ds Hi Hread.
  destruct (strict_ok_core _ _ _ _ _ H Hl) as (size & r & st & Hp & Hr & Hlr & Hrow & _).
  destruct (Hrow i line Hi) as (y & Hy & Hs). apply strict_row_inv in Hs.
  destruct Hs as (Hread' & _ & Hd). cbn [fst snd] in *. rewrite Hread in Hread'. inversion Hread'; subst y.
  apply Hd. reflexivity.
Qed.

(* square form with pairwise distinct names: cell (i,j) compares equal to cell (j,i) *)
Theorem strict_ok_sym text m first rest :
  from_phylip_strict O parse_cell text true = Ok m -> lines text = first :: rest ->
  NoDup (mtaxa m) ->
  forall i j li lj ni nj di dj, i < j ->
    nth_error rest i = Some li -> nth_error rest j = Some lj ->
    read_phylip_row parse_cell li i false = Ok (ni, di) ->
    read_phylip_row parse_cell lj j false = Ok (nj, dj) ->
    leqb O (nth j di (l0 O)) (nth i dj (l0 O)) = true.
Proof.
  intros H Hl Hnd i j li lj ni nj di dj Hij Hi Hj Hri Hrj.
  destruct (strict_ok_core _ _ _ _ _ H Hl) as (size & r & st & Hp & Hr & Hlr & Hrow & Hf & _ & _ & Ht).
  destruct (Hrow i li Hi) as (yi & Hyi & Hsi). apply strict_row_inv in Hsi.
  destruct (Hrow j lj Hj) as (yj & Hyj & Hsj). apply strict_row_inv in Hsj.
  destruct Hsi as (Hri' & Hli & _). destruct Hsj as (Hrj' & Hlj & _). cbn [fst snd] in *.
  rewrite Hri in Hri'. rewrite Hrj in Hrj'. inversion Hri'; subst yi. inversion Hrj'; subst yj.
  cbn [fst snd] in *. clear Hri' Hrj'.
  assert (Hjs : j < size) by (rewrite <- Hlr; apply nth_error_Some; congruence).
  rewrite Ht in Hnd. set (names := map fst r) in *. set (rows := map snd r) in *.
  assert (Hni : nth_error names i = Some ni) by (unfold names; rewrite nth_error_map, Hyi; reflexivity).
  assert (Hnj : nth_error names j = Some nj) by (unfold names; rewrite nth_error_map, Hyj; reflexivity).
  assert (Hne : ni <> nj).
  { intros ->. assert (i = j); [|lia].
    apply (proj1 (NoDup_nth_error names) Hnd); [|congruence].
    apply nth_error_Some. congruence. }
  rewrite fill_trips in Hf.
  apply (Inv2_run names rows) in Hf; [|assumption|reflexivity].
  destruct Hf as (_ & _ & _ & HS).
  destruct (trips_split names rows i j ni di nj dj (nth j di (l0 O)) (nth i dj (l0 O)) Hij)
    as (p1 & p2 & p3 & E).
  - unfold names, rows. rewrite combine_fst_snd. assumption.
  - unfold names, rows. rewrite combine_fst_snd. assumption.
  - eapply nth_error_In. apply nth_error_combine; [exact Hnj|]. apply nth_error_nth'. lia.
  - eapply nth_error_In. apply nth_error_combine; [exact Hni|]. apply nth_error_nth'. lia.
  - apply (HS _ _ _ _ _ E); [reflexivity|assumption].
Qed.


(* ---- the same facts as rejections ---- *)
Lemma strict_ok_or_err text sq :
  (exists m, from_phylip_strict O parse_cell text sq = Ok m) \/
  (exists e, from_phylip_strict O parse_cell text sq = Err e).
Proof.
  pose proof (strict_no_panic O parse_cell text sq) as H.
  destruct (from_phylip_strict O parse_cell text sq); eauto; contradiction.
Qed.

Definition row_name (line : str) : str := hd [] (split_ws line).

Lemma read_row_name line i t name (ds : list L) :
  read_phylip_row parse_cell line i t = Ok (name, ds) -> row_name line = name.
Proof.
  unfold read_phylip_row, row_name. destruct (split_ws line) as [|nm fs]; [discriminate|].
  destruct (parse_cells parse_cell fs _); simpl; try discriminate. intros H; inversion H; reflexivity.
Qed.

(* the taxa of the result are the first fields of the data lines *)
Theorem strict_ok_taxa text sq m first rest :
  from_phylip_strict O parse_cell text sq = Ok m -> lines text = first :: rest ->
  mtaxa m = map row_name rest.
Proof.
  intros H Hl. apply nth_error_ext_eq. intros i. rewrite nth_error_map.
  destruct (nth_error rest i) as [line|] eqn:E.
  - destruct (strict_ok_shape _ _ _ _ _ H Hl i line E) as (name & ds & Hr & Hn & _).
    rewrite Hn. simpl. f_equal. symmetry. eapply read_row_name; eassumption.
  - simpl. apply nth_error_None. apply nth_error_None in E.
    destruct (strict_ok_core _ _ _ _ _ H Hl) as (size & r & st & _ & Hr & Hlr & _ & _ & _ & _ & Ht).
    rewrite Ht, map_length. lia.
Qed.

Theorem strict_rejects text (sq : bool) first rest size :
  lines text = first :: rest -> parse_usize first = Some size ->
  ( (* row count differs from the declared size *)
    length rest <> size
    \/ (* a row of the wrong length *)
    (exists i line name ds, nth_error rest i = Some line /\
       read_phylip_row parse_cell line i false = Ok (name, ds) /\
       length ds <> (if sq then size else i))
    \/ (* a non-zero diagonal cell *)
    (sq = true /\ exists i line name ds, nth_error rest i = Some line /\
       read_phylip_row parse_cell line i false = Ok (name, ds) /\
       leqb O (nth i ds (l0 O)) (l0 O) = false)
    \/ (* an asymmetric pair *)
    (sq = true /\ NoDup (map row_name rest) /\
     exists i j li lj ni nj di dj, i < j /\
       nth_error rest i = Some li /\ nth_error rest j = Some lj /\
       read_phylip_row parse_cell li i false = Ok (ni, di) /\
       read_phylip_row parse_cell lj j false = Ok (nj, dj) /\
       leqb O (nth j di (l0 O)) (nth i dj (l0 O)) = false) ) ->
  exists e, from_phylip_strict O parse_cell text sq = Err e.
Proof.
  intros Hl Hp Hbad. destruct (strict_ok_or_err text sq) as [[m Hm]|He]; [exfalso|assumption].
  destruct (strict_ok_rows _ _ _ Hm) as (first' & rest' & size' & Hl' & Hp' & Hlen & Hms & _).
  assert (E1 : first' = first) by congruence. assert (E2 : rest' = rest) by congruence.
  subst first' rest'. assert (E3 : size' = size) by congruence. subst size'.
  destruct Hbad as [Hbad|[Hbad|[Hbad|Hbad]]].
  - contradiction.
  - destruct Hbad as (i & line & name & ds & Hi & Hr & Hne).
    destruct (strict_ok_shape _ _ _ _ _ Hm Hl i line Hi) as (name' & ds' & Hr' & _ & Hlen').
    rewrite Hr in Hr'. inversion Hr'; subst. rewrite Hms in Hlen'. contradiction.
  - destruct Hbad as (-> & i & line & name & ds & Hi & Hr & Hne).
    rewrite (strict_ok_diag _ _ _ _ Hm Hl i line name ds Hi Hr) in Hne. discriminate.
  - destruct Hbad as (-> & Hnd & i & j & li & lj & ni & nj & di & dj & Hij & Hi & Hj & Hri & Hrj & Hne).
    rewrite <- (strict_ok_taxa _ _ _ _ _ Hm Hl) in Hnd.
    rewrite (strict_ok_sym _ _ _ _ Hm Hl Hnd i j li lj ni nj di dj Hij Hi Hj Hri Hrj) in Hne. discriminate.
Qed.

End StrictOk.

(* ================================================================================================ *)
(* C14, closed statements                                                                            *)
(* ================================================================================================ *)

(* Round trip: writing a well-formed matrix (whitespace-free non-empty names, admissible cells) in
   either Phylip form and reading it back with either reader reproduces the matrix exactly. *)
Theorem C14_round_trip {L : Type} (O : LenOps L)
    (print_cell : L -> str) (parse_cell : str -> option L) (ok_cell : L -> Prop) :
  (forall l, ok_cell l -> parse_cell (print_cell l) = Some l) ->
  (forall l, print_cell l <> [] /\ Forall (fun c => is_ws c = false) (print_cell l)) ->
  ok_cell (l0 O) ->
  (forall a b, ok_cell a -> ok_cell b -> (leqb O a b = true <-> a = b)) ->
  forall (m : @dmat L) (sq : bool) (txt : @rstr L),
    msize m = length (mtaxa m) ->
    length (mcells m) = msize m * (msize m - 1) / 2 ->
    1 <= msize m ->
    Forall (fun s : str => s <> [] /\ Forall (fun c => is_ws c = false) s) (mtaxa m) ->
    Forall ok_cell (mcells m) ->
    (N.of_nat (msize m) < 2 ^ 64)%N ->
    to_phylip O m sq = Ok txt ->
    from_phylip_tril parse_cell (flatten print_cell txt) = Ok m /\
    (NoDup (mtaxa m) -> from_phylip_strict O parse_cell (flatten print_cell txt) sq = Ok m).
Proof.
  intros H1 H2 Hz Heq m sq txt Hs Hc Hn Hnames Hcells Hb Hw.
  assert (Hpre : rt_pre ok_cell m).
  { unfold rt_pre, wf_m. repeat split; assumption. }
  split.
  - eapply rt_tril_any; eassumption.
  - intros Hnd. eapply rt_strict_any; eassumption.
Qed.

(* Totality of both readers. *)
Theorem C14_no_panic {L : Type} (O : LenOps L) (parse_cell : str -> option L) (text : str) :
  match from_phylip_tril parse_cell text with Panic _ | OutOfFuel => False | _ => True end /\
  forall sq, match from_phylip_strict O parse_cell text sq with Panic _ | OutOfFuel => False | _ => True end.
Proof. split; [apply tril_no_panic|intros sq; apply strict_no_panic]. Qed.

(* The cell hypotheses are satisfiable: unsigned integer cells printed in decimal and parsed by
   usize::from_str (so the round-trip theorem is not vacuous). *)
Definition nat_ops : LenOps nat :=
  {| l0 := 0; l1 := 1; ladd := Nat.add; lsub := Nat.sub; lmul := Nat.mul; ldiv := Nat.div;
     labs := fun x => x; lltb := Nat.ltb; leqb := Nat.eqb; lofnat := fun n => n; linf := 0 |}.

Lemma isdig_nows c : isdig c -> is_ws c = false.
Proof.
  unfold isdig. intros [Hlo Hhi].
  assert (H : (c = 48 \/ c = 49 \/ c = 50 \/ c = 51 \/ c = 52 \/ c = 53 \/ c = 54 \/ c = 55 \/
               c = 56 \/ c = 57)%N) by lia.
  repeat (destruct H as [->|H]; [reflexivity|]). subst. reflexivity.
Qed.

Theorem C14_round_trip_nat (m : @dmat nat) (sq : bool) (txt : @rstr nat) :
  msize m = length (mtaxa m) ->
  length (mcells m) = msize m * (msize m - 1) / 2 ->
  1 <= msize m ->
  Forall (fun s : str => s <> [] /\ Forall (fun c => is_ws c = false) s) (mtaxa m) ->
  Forall (fun n => (N.of_nat n < 2 ^ 64)%N) (mcells m) ->
  (N.of_nat (msize m) < 2 ^ 64)%N ->
  to_phylip nat_ops m sq = Ok txt ->
  from_phylip_tril parse_usize (flatten dec_of_nat txt) = Ok m /\
  (NoDup (mtaxa m) -> from_phylip_strict nat_ops parse_usize (flatten dec_of_nat txt) sq = Ok m).
Proof.
  apply (C14_round_trip nat_ops dec_of_nat parse_usize (fun n => (N.of_nat n < 2 ^ 64)%N)).
  - intros n Hn. apply parse_usize_dec. assumption.
  - intros n. split.
    + destruct (dec_of_nat_cons n) as (c & r & E & _). rewrite E. discriminate.
    + eapply Forall_impl; [|apply dec_of_nat_isdig]. apply isdig_nows.
  - reflexivity.
  - intros a b _ _. apply Nat.eqb_eq.
Qed.

Print Assumptions tril_no_panic.
Print Assumptions strict_no_panic.
Print Assumptions lines_cons.
Print Assumptions parse_usize_dec.
Print Assumptions split_ws_row.
Print Assumptions rt_tril_tril.
Print Assumptions rt_tril_square.
Print Assumptions rt_strict_tril.
Print Assumptions rt_strict_square.
Print Assumptions strict_ok_rows.
Print Assumptions strict_ok_shape.
Print Assumptions strict_ok_diag.
Print Assumptions strict_ok_sym.
Print Assumptions strict_ok_taxa.
Print Assumptions strict_rejects.
Print Assumptions C14_round_trip.
Print Assumptions C14_no_panic.
Print Assumptions C14_round_trip_nat.
