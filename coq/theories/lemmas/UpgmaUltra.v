(* UpgmaUltra.v — C15, last clause: "when the input matrix is ultrametric the tree's leaf-to-leaf path lengths
   reproduce the matrix".

   Model: Matrix.v (upgma), canonical rationals (QcOps B, B = marker of retired cells), as in Part II of UpgmaProps.v.

   The diagonal.  The triangular storage has no diagonal cells: [cell O cs i i] reads slot tril_idx i i
   = (i-1)*i/2 + i = tril_idx (i+1) 0, i.e. an unrelated cell (or the default 0 past the end).  The three-point
   condition is therefore assumed for pairwise DISTINCT indices only (this is the weakest formulation; d(i,i) = 0 is
   implicit in the data structure), and the conclusion is stated for i <> j.  Symmetry is built into [cell]
   (cell_sym).  Non-negativity of the cells is NOT needed.

   Proof: an invariant of the loop (on top of MInvA of UpgmaProps.v): the live clusters are pairwise disjoint and
   "homogeneous" (all members of a cluster are at the same distance from any outsider), hence the average-linkage cell
   between two live clusters equals d(i,j) for ANY i, j in them; the minimal pair keeps this (three-point condition);
   the node created by a merge has the two cluster nodes as its (distinct) children, and all leaves of both at height
   d(i,j)/2.

   Results
     upgma_ultrametric_lca            the witness (lca_wit) for every pair of distinct tips
     upgma_ultrametric_reproduces     the headline statement (with the "different children" conjunct)
     upgma_ultrametric_reproduces_partial   the same without that conjunct
     upgma_ultrametric_get_distance   through the library's get_distance
     ultra_example_*                  non-vacuity; nonultra_*: the hypothesis is needed *)
From PT Require Import Arena Spec Queries Matrix RepLib WFOps Tril UpgmaProps Paths.
From Coq Require Import Permutation Sorted Lia List Arith Bool.
Require Import QArith Qcanon Lqa.
Local Open Scope nat_scope.

(* ================================================================================================== *)
(* the loop invariant                                                                                  *)
(* ================================================================================================== *)
Section UltraInv.
Variable B : Qc.
Notation O := (QcOps B).
Notation arena := (@arena Qc).
Notation ustate := (@ustate Qc).
Variable m0 : list Qc.      (* the input cells *)
Variable n : nat.
Variable taxa : list str.

(* three-point condition on the input cells, distinct indices *)
Definition ultra_cells : Prop :=
  forall i j k, i < n -> j < n -> k < n -> i <> j -> j <> k -> i <> k ->
    (cell O m0 i k <= cell O m0 i j \/ cell O m0 i k <= cell O m0 j k)%Qc.

(* ---- averages of constant families ---------------------------------------------------------------- *)
Lemma nq_0 : nq 0 = 0%Qc.
Proof. reflexivity. Qed.

Lemma nq_S k : nq (S k) = (1 + nq k)%Qc.
Proof. change (S k) with (1 + k). rewrite nq_add. reflexivity. Qed.

Lemma qsum_const (f : nat -> Qc) (c : Qc) (X : list nat) :
  (forall j, In j X -> f j = c) -> qsum (map f X) = (nq (length X) * c)%Qc.
Proof.
  induction X as [|x X IH]; intros H.
  - simpl. rewrite nq_0. ring.
  - cbn [map qsum length]. rewrite nq_S, (H x) by (simpl; auto).
    rewrite IH by (intros; apply H; simpl; auto). ring.
Qed.

Lemma dsum_const (A X : list nat) (c : Qc) :
  (forall i j, In i A -> In j X -> cell O m0 i j = c) ->
  dsum B m0 A X = (nq (length A) * nq (length X) * c)%Qc.
Proof.
  intros H. unfold dsum.
  rewrite (qsum_const _ (nq (length X) * c)%Qc).
  - ring.
  - intros i Hi. apply qsum_const. intros j Hj. apply H; auto.
Qed.

Lemma davg_const (A X : list nat) (c : Qc) :
  A <> [] -> X <> [] ->
  (forall i j, In i A -> In j X -> cell O m0 i j = c) ->
  davg B m0 A X = c.
Proof.
  intros HA HX H. unfold davg. rewrite (dsum_const A X c H).
  assert (0 < length A) by (destruct A; simpl; [congruence|lia]).
  assert (0 < length X) by (destruct X; simpl; [congruence|lia]).
  pose proof (nq_neq _ H0). pose proof (nq_neq _ H1). field. auto.
Qed.

(* ---- the witness: a is the lowest common ancestor of tips i and j --------------------------------- *)
(* the upward paths from the two tips reach two DIFFERENT children ci, cj of a, after hi resp. hj; the edges
   ci -> a, cj -> a have lengths ei, ej; both sums are d(i,j)/2 *)
Definition lca_wit (t : arena) (i j a : nat) : Prop :=
  exists ci cj ni nj ei ej hi hj,
    ci <> cj /\
    nth_error t ci = Some ni /\ nparent ni = Some a /\ npedge ni = Some ei /\
    nth_error t cj = Some nj /\ nparent nj = Some a /\ npedge nj = Some ej /\
    updist O t (S i) ci hi /\ updist O t (S j) cj hj /\
    (hi + ei = cell O m0 i j / (1 + 1))%Qc /\ (hj + ej = cell O m0 i j / (1 + 1))%Qc.

Lemma lca_wit_sym t i j a : lca_wit t i j a -> lca_wit t j i a.
Proof.
  intros (ci & cj & ni & nj & ei & ej & hi & hj & Hc & Hni & Hpi & Hei & Hnj & Hpj & Hej & Ui & Uj & Si & Sj).
  exists cj, ci, nj, ni, ej, ei, hj, hi. rewrite (cell_sym O m0 j i). splits; auto.
Qed.

Lemma lca_frame (t t' : arena) i j a :
  lca_wit t i j a -> a <> 0 ->
  (forall r, nth_error t 0 = Some r -> nparent r = None) ->
  (forall k nd, nth_error t k = Some nd -> k <> 0 -> nparent nd <> Some 0 ->
     exists nd', nth_error t' k = Some nd' /\ nparent nd' = nparent nd /\ npedge nd' = npedge nd) ->
  lca_wit t' i j a.
Proof.
  intros (ci & cj & ni & nj & ei & ej & hi & hj & Hc & Hni & Hpi & Hei & Hnj & Hpj & Hej & Ui & Uj & Si & Sj)
         Ha Hroot Hfr.
  assert (Hci0 : ci <> 0) by (intros ->; rewrite (Hroot _ Hni) in Hpi; discriminate).
  assert (Hcj0 : cj <> 0) by (intros ->; rewrite (Hroot _ Hnj) in Hpj; discriminate).
  destruct (Hfr ci ni Hni Hci0) as (ni' & Hni' & Q1 & Q2). { rewrite Hpi. intros [= E]. auto. }
  destruct (Hfr cj nj Hnj Hcj0) as (nj' & Hnj' & R1 & R2). { rewrite Hpj. intros [= E]. auto. }
  exists ci, cj, ni', nj', ei, ej, hi, hj. splits; auto; try congruence.
  - eapply updist_frame; eauto.
  - eapply updist_frame; eauto.
Qed.

(* ---- invariant U: disjoint homogeneous clusters, LCA witnesses inside each live cluster ----------- *)
Record MInvU (s : ustate) (mem : list (list nat)) : Prop := {
  mu_lt : forall u i, u < n -> nth u (u_merged s) true = false -> In i (nth u mem []) -> i < n;
  mu_disj : forall u x i, u < n -> x < n -> u <> x ->
              nth u (u_merged s) true = false -> nth x (u_merged s) true = false ->
              In i (nth u mem []) -> In i (nth x mem []) -> False;
  mu_hom : forall u i j z, u < n -> nth u (u_merged s) true = false ->
              In i (nth u mem []) -> In j (nth u mem []) -> z < n -> ~ In z (nth u mem []) ->
              cell O m0 i z = cell O m0 j z;
  mu_lca : forall u i j, u < n -> nth u (u_merged s) true = false ->
              In i (nth u mem []) -> In j (nth u mem []) -> i <> j ->
              exists a, a <> 0 /\ lca_wit (u_t s) i j a }.

(* the current cell between two live clusters is the input distance between ANY two of their members *)
Lemma cross_cell s mem u x i j :
  MInvA B m0 n s mem -> MInvU s mem ->
  u < n -> x < n -> u <> x -> nth u (u_merged s) true = false -> nth x (u_merged s) true = false ->
  In i (nth u mem []) -> In j (nth x mem []) ->
  cell O (u_cells s) u x = cell O m0 i j.
Proof.
  intros M U Hu Hx Hux Mu Mx Hi Hj.
  rewrite (ma_avg _ _ _ _ _ M u x Hu Hx Hux Mu Mx).
  apply davg_const.
  - intros E. rewrite E in Hi. destruct Hi.
  - intros E. rewrite E in Hj. destruct Hj.
  - intros i' j' Hi' Hj'.
    transitivity (cell O m0 i j').
    + apply (mu_hom _ _ U u i' i j'); auto.
      * apply (mu_lt _ _ U x j'); auto.
      * intros Hin. apply (mu_disj _ _ U u x j'); auto.
    + rewrite (cell_sym O m0 i j'), (cell_sym O m0 i j).
      apply (mu_hom _ _ U x j' j i); auto.
      * apply (mu_lt _ _ U u i); auto.
      * intros Hin. apply (mu_disj _ _ U u x i); auto.
Qed.

Lemma MInvU_init t1 : MInvU (st_init O n m0 t1) (map (fun i => [i]) (seq 0 n)).
Proof.
  constructor; cbn [st_init u_merged u_t].
  - intros u i Hu _ Hin. rewrite nth_singletons in Hin by auto. destruct Hin as [<-|[]]. auto.
  - intros u x i Hu Hx Hux _ _ Hiu Hix. rewrite nth_singletons in Hiu, Hix by auto.
    destruct Hiu as [<-|[]]. destruct Hix as [<-|[]]. congruence.
  - intros u i j z Hu _ Hi Hj _ _. rewrite nth_singletons in Hi, Hj by auto.
    destruct Hi as [<-|[]]. destruct Hj as [<-|[]]. reflexivity.
  - intros u i j Hu _ Hi Hj Hij. rewrite nth_singletons in Hi, Hj by auto.
    destruct Hi as [<-|[]]. destruct Hj as [<-|[]]. congruence.
Qed.

Lemma MInvU_step s s' mem :
  ultra_cells ->
  SInv O (FinB B) n taxa s -> MInvA B m0 n s mem -> MInvU s mem -> 2 < u_k s -> ustep O n s = Ok s' ->
  exists mem', MInvA B m0 n s' mem' /\ MInvU s' mem'.
Proof.
  intros HU I M U Hk Hst.
  destruct (MInvA_step B m0 n taxa s s' mem I M Hk Hst) as (a & b & Hba & Han & Hma & Hmb & Hmin & M').
  destruct (ustep_full O (FinB B) (QcSep B) n taxa s s' I Hk Hst)
    as (a' & b' & d & n0 & n1 & n2 & t8 & Hmin' & _ & _ & _ & _ & Hd & Hn0 & Hn1 & Hn2 & Hp1 & Hp2 & Hp0 &
        MF & Hs' & Mu & _ & _).
  rewrite Hmin in Hmin'. injection Hmin' as <- <- <-. clear Hd.
  set (A := nth a mem []) in *. set (Bc := nth b mem []) in *.
  set (mem' := replace_nth a (A ++ Bc) mem) in *.
  exists mem'. split; [exact M'|].
  assert (Hbn : b < n) by lia. assert (Hab : a <> b) by lia.
  pose proof (ma_len _ _ _ _ _ M) as Lmem.
  destruct MF as (Hwf8 & Hlen8 & Hc10 & Hc20 & Hfr & _ &
                  (m1 & Hm1 & _ & _ & A3 & _ & A5 & _) & (m2 & Hm2 & _ & _ & B3 & _ & B5 & _) & _).
  set (t := u_t s) in *. set (c1 := nth a (u_ids s) 0) in *. set (c2 := nth b (u_ids s) 0) in *.
  assert (Et : u_t s' = t8) by (rewrite Hs'; reflexivity).
  assert (Ea : nth a mem' [] = A ++ Bc) by (apply nth_replace_nth_eq; lia).
  assert (Eo : forall x, x <> a -> nth x mem' [] = nth x mem []) by (intros; apply nth_replace_nth_neq; auto).
  assert (Hlt0 : 0 < length t) by (eapply nth_error_Some_lt; eauto).
  assert (Hc12 : c1 <> c2).
  { unfold c1, c2. intros E. apply (si_inj _ _ _ _ _ I a b) in E; auto. }
  (* frame for paths *)
  assert (Hroot : forall r, nth_error t 0 = Some r -> nparent r = None) by (intros r Hr; congruence).
  assert (Hframe : forall j nd, nth_error t j = Some nd -> j <> 0 -> nparent nd <> Some 0 ->
            exists nd', nth_error t8 j = Some nd' /\ nparent nd' = nparent nd /\ npedge nd' = npedge nd).
  { intros j nd Hnd Hj0 Hpar.
    assert (j <> c1) by (intros ->; congruence). assert (j <> c2) by (intros ->; congruence).
    destruct (Hfr j nd Hj0 H H0 Hnd) as (nd' & Hnd' & _ & _ & Q3 & _ & Q5 & _). eauto. }
  assert (Hid0 : forall u, u < n -> nth u (u_merged s) true = false -> nth u (u_ids s) 0 <> 0).
  { intros u Hu Hmu E. destruct (si_par _ _ _ _ _ I u Hu Hmu) as (nd & Hnd & Hpd). fold t in Hnd.
    rewrite E in Hnd. congruence. }
  (* minimality of the picked cell *)
  destruct (si_cells _ _ _ _ _ I) as [Hlen _].
  destruct (min_is_minimal O (qlt_irrefl B) (qlt_trans B) _ _ _ _ Hmin) as (k0 & _ & _ & _ & _ & Hminall).
  simpl mcells in Hminall.
  assert (Hdmin : forall u x, u < n -> x < n -> u <> x ->
             (cell O (u_cells s) a b <= cell O (u_cells s) u x)%Qc).
  { intros u x Hu Hx Hux. apply (proj1 (qlt_false B _ _)). apply (Hminall (tril_idx u x)).
    unfold cell. apply nth_error_of_nth. rewrite Hlen. apply tril_lt_any; auto. }
  (* the merged cluster is homogeneous: three-point condition *)
  assert (Hnew : forall i j z, In i A -> In j Bc -> z < n -> ~ In z A -> ~ In z Bc ->
             cell O m0 i z = cell O m0 j z).
  { intros i j z Hi Hj Hz HzA HzB.
    destruct (ma_cover _ _ _ _ _ M z Hz) as (x & Hx & Mx & Hzx).
    assert (Hxa : x <> a) by (intros ->; auto).
    assert (Hxb : x <> b) by (intros ->; auto).
    pose proof (cross_cell s mem a b i j M U Han Hbn Hab Hma Hmb Hi Hj) as E1.
    pose proof (cross_cell s mem a x i z M U Han Hx (not_eq_sym Hxa) Hma Mx Hi Hzx) as E2.
    pose proof (cross_cell s mem b x j z M U Hbn Hx (not_eq_sym Hxb) Hmb Mx Hj Hzx) as E3.
    pose proof (Hdmin a x Han Hx (not_eq_sym Hxa)) as L1.
    pose proof (Hdmin b x Hbn Hx (not_eq_sym Hxb)) as L2.
    rewrite E1 in L1, L2. rewrite E2 in L1. rewrite E3 in L2.
    assert (Hij : i <> j) by (intros ->; apply (mu_disj _ _ U a b j); auto).
    assert (Hiz : i <> z) by (intros ->; auto).
    assert (Hjz : j <> z) by (intros ->; auto).
    assert (Hin : i < n) by (apply (mu_lt _ _ U a i); auto).
    assert (Hjn : j < n) by (apply (mu_lt _ _ U b j); auto).
    apply Qcle_antisym.
    - destruct (HU i j z Hin Hjn Hz Hij Hjz Hiz) as [H|H]; auto. eapply Qcle_trans; eauto.
    - destruct (HU j i z Hjn Hin Hz (not_eq_sym Hij) Hiz Hjz) as [H|H]; auto.
      rewrite (cell_sym O m0 j i) in H. eapply Qcle_trans; eauto. }
  constructor.
  - (* members are taxa *)
    intros u i Hu Mu' Hin. apply Mu in Mu' as [Hub Mu'].
    destruct (Nat.eq_dec u a) as [->|Hua].
    + rewrite Ea in Hin. apply in_app_or in Hin as [Hin|Hin].
      * apply (mu_lt _ _ U a i); auto.
      * apply (mu_lt _ _ U b i); auto.
    + rewrite Eo in Hin by auto. apply (mu_lt _ _ U u i); auto.
  - (* disjoint *)
    intros u x i Hu Hx Hux Mu' Mx' Hiu Hix. apply Mu in Mu' as [Hub Mu']. apply Mu in Mx' as [Hxb Mx'].
    destruct (Nat.eq_dec u a) as [->|Hua]; [|destruct (Nat.eq_dec x a) as [->|Hxa]].
    + rewrite Ea in Hiu. rewrite Eo in Hix by auto.
      apply in_app_or in Hiu as [Hiu|Hiu].
      * apply (mu_disj _ _ U a x i); auto.
      * apply (mu_disj _ _ U b x i); auto.
    + rewrite Ea in Hix. rewrite Eo in Hiu by auto.
      apply in_app_or in Hix as [Hix|Hix].
      * apply (mu_disj _ _ U u a i); auto.
      * apply (mu_disj _ _ U u b i); auto.
    + rewrite Eo in Hiu, Hix by auto. apply (mu_disj _ _ U u x i); auto.
  - (* homogeneous *)
    intros u i j z Hu Mu' Hi Hj Hz Hzn. apply Mu in Mu' as [Hub Mu'].
    destruct (Nat.eq_dec u a) as [->|Hua].
    + rewrite Ea in Hi, Hj, Hzn.
      assert (HzA : ~ In z A) by (intros H; apply Hzn, in_or_app; auto).
      assert (HzB : ~ In z Bc) by (intros H; apply Hzn, in_or_app; auto).
      apply in_app_or in Hi as [Hi|Hi]; apply in_app_or in Hj as [Hj|Hj].
      * apply (mu_hom _ _ U a i j z); auto.
      * apply Hnew; auto.
      * symmetry. apply Hnew; auto.
      * apply (mu_hom _ _ U b i j z); auto.
    + rewrite Eo in Hi, Hj, Hzn by auto. apply (mu_hom _ _ U u i j z); auto.
  - (* LCA witnesses *)
    intros u i j Hu Mu' Hi Hj Hij. apply Mu in Mu' as [Hub Mu']. rewrite Et.
    assert (Hold : forall v, v < n -> nth v (u_merged s) true = false ->
              In i (nth v mem []) -> In j (nth v mem []) -> exists a0, a0 <> 0 /\ lca_wit t8 i j a0).
    { intros v Hv Mv Hiv Hjv. destruct (mu_lca _ _ U v i j Hv Mv Hiv Hjv Hij) as (a0 & Ha0 & W).
      exists a0. split; auto. apply (lca_frame t t8); auto. }
    assert (Hcross : forall i' j', In i' A -> In j' Bc -> lca_wit t8 i' j' (length t)).
    { intros i' j' Hi' Hj'.
      pose proof (ma_ultra _ _ _ _ _ M a i' Han Hma Hi') as Pa. fold t c1 in Pa.
      pose proof (ma_ultra _ _ _ _ _ M b j' Hbn Hmb Hj') as Pb. fold t c2 in Pb.
      apply (updist_frame O t t8) in Pa; auto; try (apply Hid0; auto).
      apply (updist_frame O t t8) in Pb; auto; try (apply Hid0; auto).
      pose proof (cross_cell s mem a b i' j' M U Han Hbn Hab Hma Hmb Hi' Hj') as E.
      exists c1, c2, m1, m2,
        (lsub O (ldiv O (cell O (u_cells s) a b) (two O)) (nth a (u_heights s) (l0 O))),
        (lsub O (ldiv O (cell O (u_cells s) a b) (two O)) (nth b (u_heights s) (l0 O))),
        (nth a (u_heights s) (l0 O)), (nth b (u_heights s) (l0 O)).
      splits; auto.
      - rewrite <- E. unfold two. cbn [ladd lsub ldiv l1 l0 QcOps]. ring.
      - rewrite <- E. unfold two. cbn [ladd lsub ldiv l1 l0 QcOps]. ring. }
    destruct (Nat.eq_dec u a) as [->|Hua].
    + rewrite Ea in Hi, Hj. apply in_app_or in Hi as [Hi|Hi]; apply in_app_or in Hj as [Hj|Hj].
      * apply (Hold a); auto.
      * exists (length t). split; [lia|]. apply Hcross; auto.
      * exists (length t). split; [lia|]. apply lca_wit_sym. apply Hcross; auto.
      * apply (Hold b); auto.
    + rewrite Eo in Hi, Hj by auto. apply (Hold u); auto.
Qed.

(* ---- the last step: the root joins the two remaining clusters --------------------------------------- *)
Lemma final_lca s mem ai bi t5 :
  SInv O (FinB B) n taxa s -> MInvA B m0 n s mem -> MInvU s mem ->
  (forall u, u < n -> nth u (u_merged s) true = false -> u = ai \/ u = bi) ->
  ai < n -> bi < n -> ai <> bi -> nth ai (u_merged s) true = false -> nth bi (u_merged s) true = false ->
  FinalRel O s ai bi t5 ->
  forall i j, i < n -> j < n -> i <> j -> exists a, lca_wit t5 i j a.
Proof.
  intros I M U Honly Hai Hbi Habi Mai Mbi FR i j Hi Hj Hij. unfold FinalRel in FR. cbv zeta in FR.
  set (t := u_t s) in *. set (a := nth ai (u_ids s) 0) in *. set (b := nth bi (u_ids s) 0) in *.
  destruct FR as (Hwf5 & Hlen5 & Ha0 & Hb0 & Hab & Hfr & (r0 & r0' & Hr0 & Hr0' & Fe0 & Hch) &
                  (na & Hna & Hpa & Hna5) & (nb & Hnb & Hpb & Hnb5)).
  destruct (si_slots _ _ _ _ _ I _ _ Hr0) as (_ & R2 & _). destruct (R2 eq_refl) as [R3 _].
  assert (Hroot : forall r, nth_error t 0 = Some r -> nparent r = None) by (intros r Hr; congruence).
  assert (Hframe : forall j nd, nth_error t j = Some nd -> j <> 0 -> nparent nd <> Some 0 ->
            exists nd', nth_error t5 j = Some nd' /\ nparent nd' = nparent nd /\ npedge nd' = npedge nd).
  { intros k nd Hnd Hk0 Hpar.
    assert (k <> a) by (intros ->; congruence). assert (k <> b) by (intros ->; congruence).
    exists nd. rewrite Hfr; auto. }
  assert (Hcross : forall i' j', In i' (nth ai mem []) -> In j' (nth bi mem []) -> lca_wit t5 i' j' 0).
  { intros i' j' Hi' Hj'.
    pose proof (ma_ultra _ _ _ _ _ M ai i' Hai Mai Hi') as Pa. fold t a in Pa.
    pose proof (ma_ultra _ _ _ _ _ M bi j' Hbi Mbi Hj') as Pb. fold t b in Pb.
    apply (updist_frame O t t5) in Pa; auto.
    apply (updist_frame O t t5) in Pb; auto.
    pose proof (cross_cell s mem ai bi i' j' M U Hai Hbi Habi Mai Mbi Hi' Hj') as E.
    exists a, b,
      (set_npedge na (Some (lsub O (ldiv O (cell O (u_cells s) ai bi) (two O)) (nth ai (u_heights s) (l0 O))))),
      (set_npedge nb (Some (lsub O (ldiv O (cell O (u_cells s) ai bi) (two O)) (nth bi (u_heights s) (l0 O))))),
      (lsub O (ldiv O (cell O (u_cells s) ai bi) (two O)) (nth ai (u_heights s) (l0 O))),
      (lsub O (ldiv O (cell O (u_cells s) ai bi) (two O)) (nth bi (u_heights s) (l0 O))),
      (nth ai (u_heights s) (l0 O)), (nth bi (u_heights s) (l0 O)).
    splits; auto.
    - rewrite <- E. unfold two. cbn [ladd lsub ldiv l1 l0 QcOps]. ring.
    - rewrite <- E. unfold two. cbn [ladd lsub ldiv l1 l0 QcOps]. ring. }
  assert (Hold : forall v, v < n -> nth v (u_merged s) true = false ->
            In i (nth v mem []) -> In j (nth v mem []) -> exists a0, lca_wit t5 i j a0).
  { intros v Hv Mv Hiv Hjv. destruct (mu_lca _ _ U v i j Hv Mv Hiv Hjv Hij) as (a0 & Ha0n & W).
    exists a0. apply (lca_frame t t5); auto. }
  destruct (ma_cover _ _ _ _ _ M i Hi) as (u & Hu & Mu & Hiu).
  destruct (ma_cover _ _ _ _ _ M j Hj) as (x & Hx & Mx & Hjx).
  destruct (Honly u Hu Mu) as [->| ->]; destruct (Honly x Hx Mx) as [->| ->].
  - apply (Hold ai); auto.
  - exists 0. apply Hcross; auto.
  - exists 0. apply lca_wit_sym. apply Hcross; auto.
  - apply (Hold bi); auto.
Qed.

End UltraInv.

(* ================================================================================================== *)
(* theorems                                                                                            *)
(* ================================================================================================== *)
Section UltraTheorems.
Variable B : Qc.
Notation O := (QcOps B).
Notation dmat := (@dmat Qc).
Notation arena := (@arena Qc).

(* the input satisfies the three-point condition (strong triangle inequality) on pairwise distinct taxa;
   [cell] is symmetric by construction and there are no diagonal cells *)
Definition ultrametric (m : dmat) : Prop :=
  forall i j k, i < msize m -> j < msize m -> k < msize m -> i <> j -> j <> k -> i <> k ->
    (cell O (mcells m) i k <= cell O (mcells m) i j \/ cell O (mcells m) i k <= cell O (mcells m) j k)%Qc.

(* the same with a maximum instead of the disjunction *)
Definition Qcmax (x y : Qc) : Qc := if Qclt_le_dec x y then y else x.

Lemma ultrametric_max (m : dmat) :
  ultrametric m <->
  forall i j k, i < msize m -> j < msize m -> k < msize m -> i <> j -> j <> k -> i <> k ->
    (cell O (mcells m) i k <= Qcmax (cell O (mcells m) i j) (cell O (mcells m) j k))%Qc.
Proof.
  unfold ultrametric, Qcmax. split; intros H i j k Hi Hj Hk Hij Hjk Hik; specialize (H i j k Hi Hj Hk Hij Hjk Hik);
    destruct (Qclt_le_dec (cell O (mcells m) i j) (cell O (mcells m) j k)) as [Hlt|Hle]; auto.
  - destruct H as [H|H]; auto. eapply Qcle_trans; [exact H|apply Qclt_le_weak; exact Hlt].
  - destruct H as [H|H]; auto. eapply Qcle_trans; [exact H|exact Hle].
Qed.

Theorem upgma_ultra_inv (m : dmat) s :
  upgma_pre (FinB B) m -> ultrametric m -> ureach O m s ->
  exists mem, MInvA B (mcells m) (msize m) s mem /\ MInvU B (mcells m) (msize m) s mem.
Proof.
  intros Hpre HU Hr. induction Hr as [t1 HS|s s' Hr IH Hk Hst].
  - eexists. split.
    + apply MInvA_init with (taxa := mtaxa m). auto.
    + apply MInvU_init.
  - destruct IH as (mem & M & U).
    apply (MInvU_step B (mcells m) (msize m) (mtaxa m) s s' mem); auto.
    apply ureach_SInv; auto. apply QcSep.
Qed.

Theorem upgma_ultrametric_lca (m : dmat) t :
  upgma_pre (FinB B) m -> ultrametric m -> upgma O m = Ok t ->
  forall i j, i < msize m -> j < msize m -> i <> j -> exists a, lca_wit B (mcells m) t i j a.
Proof.
  intros Hpre HU Ht.
  destruct (upgma_run_reach O (FinB B) (QcSep B) m Hpre)
    as (s & ai & bi & t5 & Hr & Is & Hk & Hfil & Hai & Hbi & Hab & Mai & Mbi & Honly & FR & Hrun).
  assert (t5 = t) by congruence. subst t5.
  destruct (upgma_ultra_inv m s Hpre HU Hr) as (mem & M & U).
  apply (final_lca B (mcells m) (msize m) (mtaxa m) s mem ai bi t); auto.
Qed.

(* the upward path from x reaches a through its child c, total length d *)
Definition enters_via (t : arena) (x c a : nat) (d : Qc) : Prop :=
  exists nc e h, nth_error t c = Some nc /\ nparent nc = Some a /\ npedge nc = Some e /\
                 updist O t x c h /\ d = (h + e)%Qc.

(* MAIN THEOREM *)
Theorem upgma_ultrametric_reproduces (m : dmat) t :
  upgma_pre (FinB B) m -> ultrametric m -> upgma O m = Ok t ->
  forall i j, i < msize m -> j < msize m -> i <> j ->
    exists a d1 d2 ci cj,
      updist O t (S i) a d1 /\ updist O t (S j) a d2 /\
      (d1 + d2 = cell O (mcells m) i j)%Qc /\
      d1 = (cell O (mcells m) i j / (1 + 1))%Qc /\ d2 = (cell O (mcells m) i j / (1 + 1))%Qc /\
      ci <> cj /\ enters_via t (S i) ci a d1 /\ enters_via t (S j) cj a d2.
Proof.
  intros Hpre HU Ht i j Hi Hj Hij.
  destruct (upgma_ultrametric_lca m t Hpre HU Ht i j Hi Hj Hij)
    as (a & ci & cj & ni & nj & ei & ej & hi & hj & Hc & Hni & Hpi & Hei & Hnj & Hpj & Hej & Ui & Uj & Si & Sj).
  exists a, (hi + ei)%Qc, (hj + ej)%Qc, ci, cj. splits; auto.
  - eapply updist_snoc; eauto.
  - eapply updist_snoc; eauto.
  - rewrite Si, Sj. apply half_sum.
  - exists ni, ei, hi. splits; auto.
  - exists nj, ej, hj. splits; auto.
Qed.

Theorem upgma_ultrametric_reproduces_partial (m : dmat) t :
  upgma_pre (FinB B) m -> ultrametric m -> upgma O m = Ok t ->
  forall i j, i < msize m -> j < msize m -> i <> j ->
    exists a d1 d2,
      updist O t (S i) a d1 /\ updist O t (S j) a d2 /\ (d1 + d2 = cell O (mcells m) i j)%Qc.
Proof.
  intros Hpre HU Ht i j Hi Hj Hij.
  destruct (upgma_ultrametric_reproduces m t Hpre HU Ht i j Hi Hj Hij)
    as (a & d1 & d2 & ci & cj & H1 & H2 & H3 & _).
  exists a, d1, d2. auto.
Qed.

End UltraTheorems.


(* ================================================================================================== *)
(* through the library's own get_distance (Queries.v), using the path theorems of Paths.v              *)
(* ================================================================================================== *)
Lemma skipn_len_app {A} (l x : list A) : skipn (length l) (l ++ x) = x.
Proof. induction l; simpl; auto. Qed.

Section GetDistance.
Variable B : Qc.
Notation O := (QcOps B).
Notation arena := (@arena Qc).

Lemma fold_qsum (ls : list Qc) : forall a, fold_left (ladd O) ls a = (a + qsum ls)%Qc.
Proof.
  induction ls as [|x ls IH]; intros a; simpl.
  - ring.
  - rewrite IH. cbn [ladd QcOps]. ring.
Qed.

Variable t : arena.
Variable root : nat.
Variable r : rtree.
Hypothesis HR : Rep t None 0 root r.
Hypothesis Hnd : NoDup (ids r).
Hypothesis Hlive : forall j nd, nth_error t j = Some nd -> ndeleted nd = false.

(* an upward path is a suffix of the root path; its length is the sum of the stored edge lengths *)
Lemma updist_rpath y x d :
  updist O t y x d -> In y (ids r) ->
  exists px q es, rpath x r = Some px /\ rpath y r = Some (px ++ q) /\
                  map (edge_of t) q = map Some es /\ qsum es = d.
Proof.
  induction 1 as [x|y p x e d ny Hny Hp He Hd IH]; intros Hin.
  - apply rpath_total in Hin as (q & Hq). exists q, [], []. rewrite app_nil_r. splits; auto.
  - assert (Hg : get t y = Ok ny) by (apply get_Ok; split; eauto).
    destruct (parent_rpath t root r y ny p HR Hnd Hin Hg Hp) as (Hpin & pq & Hpq & Hyq).
    destruct (IH Hpin) as (px & q & es & Hx & Hp' & Hes & Hs).
    rewrite Hpq in Hp'. injection Hp' as ->.
    exists px, (q ++ [y]), (es ++ [e]). splits; auto.
    + rewrite Hyq, app_assoc. reflexivity.
    + rewrite !map_app, Hes. simpl. unfold edge_of. rewrite Hny, He. reflexivity.
    + rewrite qsum_app. simpl. cbn [ladd QcOps]. rewrite Hs. ring.
Qed.

Lemma lca_wit_distance m0 i j a :
  lca_wit B m0 t i j a -> In (S i) (ids r) -> In (S j) (ids r) ->
  exists k, get_distance O t (S i) (S j) = Ok (Some (cell O m0 i j), k).
Proof.
  intros (ci & cj & ni & nj & ei & ej & hi & hj & Hc & Hni & Hpi & Hei & Hnj & Hpj & Hej & Ui & Uj & Si & Sj) Hi Hj.
  destruct (updist_rpath _ _ _ Ui Hi) as (pi & qi & esi & Hci & Hpi' & Hesi & Hsi).
  destruct (updist_rpath _ _ _ Uj Hj) as (pj & qj & esj & Hcj & Hpj' & Hesj & Hsj).
  assert (Hcii : In ci (ids r)) by (eapply rpath_In; eauto).
  assert (Hcji : In cj (ids r)) by (eapply rpath_In; eauto).
  assert (Hgi : get t ci = Ok ni) by (apply get_Ok; split; eauto).
  assert (Hgj : get t cj = Ok nj) by (apply get_Ok; split; eauto).
  destruct (parent_rpath t root r ci ni a HR Hnd Hcii Hgi Hpi) as (Hain & pA & HpA & HciA).
  destruct (parent_rpath t root r cj nj a HR Hnd Hcji Hgj Hpj) as (_ & pA' & HpA' & HcjA).
  rewrite HpA in HpA'. injection HpA' as <-.
  rewrite Hci in HciA. injection HciA as ->. rewrite Hcj in HcjA. injection HcjA as ->.
  destruct (dist_refines O t root r (S i) (S j) HR Hnd Hi Hj) as (pa & pb & Hpa & Hpb & Hgd).
  rewrite Hpi' in Hpa. injection Hpa as <-. rewrite Hpj' in Hpb. injection Hpb as <-.
  cbv zeta in Hgd. rewrite <- !app_assoc in Hgd. rewrite cpl_app in Hgd. cbn [app cpl] in Hgd.
  replace (Nat.eqb ci cj) with false in Hgd by (symmetry; apply Nat.eqb_neq; auto).
  rewrite Nat.add_0_r, !skipn_len_app in Hgd.
  eexists. rewrite Hgd. f_equal. f_equal.
  assert (E : map (edge_of t) ((ci :: qi) ++ cj :: qj) = map Some ((ei :: esi) ++ ej :: esj)).
  { rewrite !map_app. cbn [map]. rewrite Hesi, Hesj. unfold edge_of. rewrite Hni, Hnj, Hei, Hej. reflexivity. }
  rewrite E, path_len_all_present, fold_qsum. f_equal.
  rewrite qsum_app. cbn [qsum l0 QcOps]. rewrite Hsi, Hsj.
  transitivity ((hi + ei) + (hj + ej))%Qc; [ring|]. rewrite Si, Sj. apply half_sum.
Qed.

End GetDistance.

Section UltraDistance.
Variable B : Qc.
Notation O := (QcOps B).
Notation dmat := (@dmat Qc).

(* for ANY input: a witness of the shape above determines what get_distance reports *)
Theorem upgma_lca_distance (m : dmat) t :
  upgma_pre (FinB B) m -> upgma O m = Ok t ->
  forall i j a, i < msize m -> j < msize m -> lca_wit B (mcells m) t i j a ->
    exists k, get_distance O t (S i) (S j) = Ok (Some (cell O (mcells m) i j), k).
Proof.
  intros Hpre Ht i j a Hi Hj W.
  pose proof (upgma_shape O (FinB B) (QcSep B) m t Hpre Ht) as (Hwfs & Hlen & Hsl & _).
  assert (Hn : 2 <= msize m) by (destruct Hpre as (_ & H & _); exact H).
  assert (Hdel : forall k nd, nth_error t k = Some nd -> ndeleted nd = false).
  { intros k nd Hnd. destruct (Hsl k nd Hnd) as ((D & _) & _). exact D. }
  assert (Htip : forall u, u < msize m -> live t (S u)).
  { intros u Hu. destruct (nth_error t (S u)) as [nd|] eqn:E.
    - exists nd. split; auto. eapply Hdel; eauto.
    - apply nth_error_None in E. lia. }
  destruct Hwfs as [[Hno|(root & r & HR & Hnd & Hin)] _].
  - exfalso. apply (Hno (S i)). apply Htip; auto.
  - apply (lca_wit_distance B t root r HR Hnd Hdel (mcells m) i j a W); apply Hin, Htip; auto.
Qed.

(* STRETCH GOAL: the library's node-to-node distance between two tips is the input distance *)
Theorem upgma_ultrametric_get_distance (m : dmat) t :
  upgma_pre (FinB B) m -> ultrametric B m -> upgma O m = Ok t ->
  forall i j, i < msize m -> j < msize m -> i <> j ->
    exists k, get_distance O t (S i) (S j) = Ok (Some (cell O (mcells m) i j), k).
Proof.
  intros Hpre HU Ht i j Hi Hj Hij.
  destruct (upgma_ultrametric_lca B m t Hpre HU Ht i j Hi Hj Hij) as (a & W).
  eapply upgma_lca_distance; eauto.
Qed.

(* the conclusion of the main theorem contains the witness *)
Lemma reproduces_lca_wit (m0 : list Qc) (t : @arena Qc) i j a d1 d2 ci cj :
  d1 = (cell O m0 i j / (1 + 1))%Qc -> d2 = (cell O m0 i j / (1 + 1))%Qc -> ci <> cj ->
  enters_via B t (S i) ci a d1 -> enters_via B t (S j) cj a d2 -> lca_wit B m0 t i j a.
Proof.
  intros E1 E2 Hc (ni & ei & hi & Hni & Hpi & Hei & Ui & Di) (nj & ej & hj & Hnj & Hpj & Hej & Uj & Dj).
  exists ci, cj, ni, nj, ei, ej, hi, hj. splits; auto; congruence.
Qed.

End UltraDistance.

(* ================================================================================================== *)
(* examples                                                                                            *)
(* ================================================================================================== *)
Definition qz (z : Z) : Qc := Q2Qc (inject_Z z).
Definition ex_taxa : list str := [[97%N]; [98%N]; [99%N]; [100%N]].
Lemma Ok_inj {A} (x y : A) : Ok x = Ok y -> x = y.
Proof. intros [= E]. exact E. Qed.
Definition dist_val {A} (o : outcome (option Qc * A)) : option Q :=
  match o with Ok (Some v, _) => Some (this v) | _ => None end.

(* ---- non-vacuity: d(0,1) = 2, d(2,3) = 4, all other distances 6; marker 100 ---------------------- *)
Definition ex_ultra : @dmat Qc := mkDmat 4 ex_taxa [qz 2; qz 6; qz 6; qz 6; qz 6; qz 4].

Example ultra_example_pre : upgma_pre (FinB (qz 100)) ex_ultra.
Proof.
  unfold upgma_pre. splits; try reflexivity.
  - simpl. lia.
  - repeat constructor.
Qed.

Example ultra_example_ultrametric : ultrametric (qz 100) ex_ultra.
Proof.
  intros i j k Hi Hj Hk Hij Hjk Hik. simpl in Hi, Hj, Hk.
  destruct i as [|[|[|[|i]]]]; try lia; destruct j as [|[|[|[|j]]]]; try lia;
  destruct k as [|[|[|[|k]]]]; try lia;
  first [ left; vm_compute; discriminate | right; vm_compute; discriminate ].
Qed.

Example ultra_example_reproduces :
  exists t, upgma (QcOps (qz 100)) ex_ultra = Ok t /\
    forall i j, i < 4 -> j < 4 -> i <> j ->
      exists k, get_distance (QcOps (qz 100)) t (S i) (S j) = Ok (Some (cell (QcOps (qz 100)) (mcells ex_ultra) i j), k).
Proof.
  destruct (upgma_ok (QcOps (qz 100)) (FinB (qz 100)) (QcSep (qz 100)) ex_ultra ultra_example_pre) as (t & Ht).
  exists t. split; auto.
  apply (upgma_ultrametric_get_distance (qz 100) ex_ultra t ultra_example_pre ultra_example_ultrametric Ht).
Qed.

(* the same, by running the model: tip-to-tip distances 2, 6, 6, 6, 6, 4 *)
Definition ultra_tree : @arena Qc :=
  match upgma (QcOps (qz 100)) ex_ultra with Ok t => t | _ => [] end.

Example ultra_example_computed :
  upgma (QcOps (qz 100)) ex_ultra = Ok ultra_tree /\
  map (fun p : nat * nat => dist_val (get_distance (QcOps (qz 100)) ultra_tree (S (fst p)) (S (snd p))))
      [(1, 0); (2, 0); (2, 1); (3, 0); (3, 1); (3, 2)]
  = map (fun z => Some (inject_Z z)) [2; 6; 6; 6; 6; 4]%Z.
Proof. split; vm_compute; reflexivity. Qed.

(* ---- the hypothesis is needed: d = [2;6;8;9;7;5] (d(1,2) = 8 > max (d(0,1), d(0,2)) = 6) --------- *)
Definition ex_bad : @dmat Qc := mkDmat 4 ex_taxa [qz 2; qz 6; qz 8; qz 9; qz 7; qz 5].
Definition bad_tree : @arena Qc :=
  match upgma (QcOps (qz 100)) ex_bad with Ok t => t | _ => [] end.

Example nonultra_pre : upgma_pre (FinB (qz 100)) ex_bad.
Proof.
  unfold upgma_pre. splits; try reflexivity.
  - simpl. lia.
  - repeat constructor.
Qed.

Example nonultra_not_ultrametric : ~ ultrametric (qz 100) ex_bad.
Proof.
  intros H. destruct (H 1 0 2) as [H1|H1]; simpl; try lia; vm_compute in H1; apply H1; reflexivity.
Qed.

Example nonultra_tree : upgma (QcOps (qz 100)) ex_bad = Ok bad_tree.
Proof. vm_compute. reflexivity. Qed.

(* UPGMA joins {0,1} at height 1, {2,3} at 5/2 and the two at 15/4: the tree says 15/2 between tips 0 and 2,
   the matrix says 6 *)
Example nonultra_distance :
  dist_val (get_distance (QcOps (qz 100)) bad_tree 1 3) = Some (15 # 2) /\
  this (cell (QcOps (qz 100)) (mcells ex_bad) 0 2) = (6 # 1).
Proof. split; vm_compute; reflexivity. Qed.

(* ... so the conclusions of the theorems fail for this input *)
Example nonultra_get_distance_refuted :
  forall t, upgma (QcOps (qz 100)) ex_bad = Ok t ->
    ~ exists k, get_distance (QcOps (qz 100)) t 1 3 = Ok (Some (cell (QcOps (qz 100)) (mcells ex_bad) 0 2), k).
Proof.
  intros t Ht (k & Hk). rewrite nonultra_tree in Ht. apply Ok_inj in Ht. subst t.
  destruct nonultra_distance as [E1 E2]. rewrite Hk in E1. unfold dist_val in E1. rewrite E2 in E1. discriminate.
Qed.

Example nonultra_lca_refuted :
  forall t, upgma (QcOps (qz 100)) ex_bad = Ok t ->
    ~ exists a, lca_wit (qz 100) (mcells ex_bad) t 0 2 a.
Proof.
  intros t Ht (a & W).
  apply (nonultra_get_distance_refuted t Ht).
  apply (upgma_lca_distance (qz 100) ex_bad t nonultra_pre Ht 0 2 a); simpl; auto; lia.
Qed.

Example nonultra_reproduces_refuted :
  forall t, upgma (QcOps (qz 100)) ex_bad = Ok t ->
    ~ exists a d1 d2 ci cj,
        updist (QcOps (qz 100)) t 1 a d1 /\ updist (QcOps (qz 100)) t 3 a d2 /\
        (d1 + d2 = cell (QcOps (qz 100)) (mcells ex_bad) 0 2)%Qc /\
        d1 = (cell (QcOps (qz 100)) (mcells ex_bad) 0 2 / (1 + 1))%Qc /\
        d2 = (cell (QcOps (qz 100)) (mcells ex_bad) 0 2 / (1 + 1))%Qc /\
        ci <> cj /\ enters_via (qz 100) t 1 ci a d1 /\ enters_via (qz 100) t 3 cj a d2.
Proof.
  intros t Ht (a & d1 & d2 & ci & cj & _ & _ & _ & E1 & E2 & Hc & V1 & V2).
  apply (nonultra_lca_refuted t Ht). exists a.
  exact (reproduces_lca_wit (qz 100) (mcells ex_bad) t 0 2 a d1 d2 ci cj E1 E2 Hc V1 V2).
Qed.

(* ---- audit ------------------------------------------------------------------------------------------ *)
Print Assumptions upgma_ultrametric_lca.
Print Assumptions upgma_ultrametric_reproduces.
Print Assumptions upgma_ultrametric_reproduces_partial.
Print Assumptions upgma_lca_distance.
Print Assumptions upgma_ultrametric_get_distance.
Print Assumptions ultra_example_reproduces.
Print Assumptions ultra_example_computed.
Print Assumptions nonultra_not_ultrametric.
Print Assumptions nonultra_get_distance_refuted.
Print Assumptions nonultra_reproduces_refuted.
