(* UpgmaProps.v — C15: the UPGMA model (Matrix.v: upgma_loop / upgma).

   Part I   (any LenOps; hypothesis [Separated O Fin]: the values of live cells form a class closed under the
             weighted-average update and compare strictly below the marker [linf O] of retired cells)
     upgma_ok / upgma_no_panic   the run ends with Ok (no Err, no Panic, no OutOfFuel)
     upgma_shape (UShape)        WFS, 2n-1 live slots, slot 0 = root with two children, slots 1..n = the taxa
                                 (leaves, named in input order), slots n+1.. unnamed with two children
     upgma_lengths_present       every non-root slot has a length
     upgma_rooted_binary         the same through the library API (check_rooted_binary, get_leaves, names ...)
     upgma_small                 n < 2: Err IndexError
   Part I'  (no hypothesis at all)
     upgma_total                 the result is Ok with the shape above, or Panic 34 (the minimal cell was retired)
   Part II  (Qc, marker B above all input cells)
     upgma_ultra                 all leaves at the same path distance from the root
     upgma_avg / upgma_trace     every reachable loop state: cells between live clusters = average linkage
     upgma_heights(_mono), upgma_nonneg   merge heights never decrease; branch lengths >= 0 for inputs >= 0
     upgma_linkage(_unique)      the internal nodes are the merges of average linkage run from its definition;
                                 with unambiguous minima that run is unique (clusters as sets, equal heights) *)
From PT Require Import Arena Spec Queries Matrix RepLib WFOps Tril.
From Coq Require Import Permutation Sorted Lia List Arith Bool.

Local Arguments ids : simpl never.
Local Arguments reset_depth_f : simpl never.

Ltac slot :=
  repeat first [ rewrite nth_error_replace_nth_neq by (auto; congruence)
               | rewrite nth_error_replace_nth_eq by (rewrite ?replace_nth_length; auto; lia) ].

(* ---- generic list facts ----------------------------------------------------------------------------- *)
Lemma nth_replace_nth_eq {A} k (x d : A) l : k < length l -> nth k (replace_nth k x l) d = x.
Proof. revert k; induction l; destruct k; simpl; intros; try lia; auto. apply IHl; lia. Qed.

Lemma nth_replace_nth_neq {A} k j (x d : A) l : j <> k -> nth j (replace_nth k x l) d = nth j l d.
Proof. revert k j; induction l; destruct k, j; simpl; intros; try congruence; auto. Qed.

Lemma nth_of_nth_error {A} (l : list A) k x d : nth_error l k = Some x -> nth k l d = x.
Proof. intros H. apply nth_error_nth. auto. Qed.

Lemma nth_error_of_nth {A} (l : list A) k d : k < length l -> nth_error l k = Some (nth k l d).
Proof. intros H. apply nth_error_nth'. auto. Qed.

Lemma nth_repeat_lt {A} (x d : A) n k : k < n -> nth k (repeat x n) d = x.
Proof. revert k; induction n; destruct k; simpl; intros; try lia; auto. apply IHn; lia. Qed.

Lemma NoDup_two_cases (l : list nat) a b :
  NoDup l -> a <> b -> (forall c, In c l <-> c = a \/ c = b) -> l = [a; b] \/ l = [b; a].
Proof.
  intros Hnd Hab Hin.
  destruct l as [|x [|y [|z l]]].
  - exfalso. apply (proj2 (Hin a)); auto.
  - exfalso. assert (In a [x]) by (apply Hin; auto). assert (In b [x]) by (apply Hin; auto).
    simpl in *. intuition congruence.
  - assert (Hx : x = a \/ x = b) by (apply Hin; simpl; auto).
    assert (Hy : y = a \/ y = b) by (apply Hin; simpl; auto).
    inversion Hnd; subst. simpl in H1.
    destruct Hx, Hy; subst; auto; exfalso; apply H1; auto.
  - exfalso.
    assert (Hx : x = a \/ x = b) by (apply Hin; simpl; auto).
    assert (Hy : y = a \/ y = b) by (apply Hin; simpl; auto).
    assert (Hz : z = a \/ z = b) by (apply Hin; simpl; auto).
    inversion Hnd as [|? ? N1 Hnd1]; subst. inversion Hnd1 as [|? ? N2 Hnd2]; subst. simpl in N1, N2.
    destruct Hx, Hy, Hz; subst; intuition congruence.
Qed.

Section Structure.
Context {L : Type}.
Notation arena := (@arena L).
Notation node := (@node L).

(* ---- reset_depth_f only touches cached depths -------------------------------------------------------- *)
Lemma reset_depth_f_do : forall fuel (t : arena) i d t',
  reset_depth_f fuel t i d = Ok t' -> depth_only t t' /\ length t' = length t.
Proof.
  induction fuel as [|f IH]; intros t i d t' H; [discriminate|].
  unfold reset_depth_f in H. fold (@reset_depth_f L) in H.
  apply bind_Ok in H as (n & Hg & H). apply get_Ok in Hg as [Hn Hd].
  revert H. apply (foldM_inv (fun s => depth_only t s /\ length s = length t)).
  - intros s a s' [Hs Hl] Hstep. apply IH in Hstep as [Hdo Hl']. split.
    + eapply depth_only_trans; eauto.
    + congruence.
  - split; [apply depth_only_replace; auto | apply replace_nth_length].
Qed.

(* equality of all fields the structural statements talk about (everything but cached depth, edges, comment) *)
Definition feq (n n' : node) : Prop :=
  nid n' = nid n /\ nname n' = nname n /\ nparent n' = nparent n /\ nchildren n' = nchildren n /\
  npedge n' = npedge n /\ ndeleted n' = ndeleted n.

Lemma feq_refl n : feq n n.
Proof. unfold feq; auto 10. Qed.

Lemma feq_set_ndepth n d : feq n (set_ndepth n d).
Proof. unfold feq; simpl; auto 10. Qed.

Lemma depth_only_slot (t t' : arena) j n :
  depth_only t t' -> nth_error t j = Some n -> exists n', nth_error t' j = Some n' /\ feq n n'.
Proof. intros Hdo Hn. destruct (Hdo _ _ Hn) as (d & Hd). eexists; split; eauto. apply feq_set_ndepth. Qed.

Lemma nrc_name (n : node) c n' : node_remove_child n c = Some n' -> nname n' = nname n.
Proof. unfold node_remove_child. destruct (index_of c (nchildren n)); [|discriminate]. intros [= <-]. reflexivity. Qed.

Lemma nac_name (n : node) c e : nname (node_add_child n c e) = nname n.
Proof. destruct e; reflexivity. Qed.

(* ---- merge_children, precise effect ------------------------------------------------------------------- *)
Definition MergeFacts (t : arena) pid (nP n1 n2 : node) c1 c2 (e1 e2 pe : option L) (nm : option str)
           (t8 : arena) : Prop :=
    WFS t8 /\ length t8 = S (length t) /\
    c1 <> pid /\ c2 <> pid /\
    (forall j n, j <> pid -> j <> c1 -> j <> c2 -> nth_error t j = Some n ->
                 exists n', nth_error t8 j = Some n' /\ feq n n') /\
    (exists P', nth_error t8 pid = Some P' /\ nid P' = nid nP /\ nname P' = nname nP /\
                nparent P' = nparent nP /\ npedge P' = npedge nP /\ ndeleted P' = false /\
                nchildren P' = filter (fun k => negb (Nat.eqb k c1) && negb (Nat.eqb k c2)) (nchildren nP)
                               ++ [length t]) /\
    (exists m1, nth_error t8 c1 = Some m1 /\ nid m1 = nid n1 /\ nname m1 = nname n1 /\
                nparent m1 = Some (length t) /\ nchildren m1 = nchildren n1 /\ npedge m1 = e1 /\
                ndeleted m1 = false) /\
    (exists m2, nth_error t8 c2 = Some m2 /\ nid m2 = nid n2 /\ nname m2 = nname n2 /\
                nparent m2 = Some (length t) /\ nchildren m2 = nchildren n2 /\ npedge m2 = e2 /\
                ndeleted m2 = false) /\
    (exists u, nth_error t8 (length t) = Some u /\ nid u = length t /\ nname u = nm /\
               nparent u = Some pid /\ nchildren u = [c1; c2] /\ npedge u = pe /\ ndeleted u = false).

Lemma merge_spec (t : arena) pid nP c1 c2 n1 n2 e1 e2 pe nm :
  WFS t -> get t pid = Ok nP -> get t c1 = Ok n1 -> get t c2 = Ok n2 ->
  nparent n1 = Some pid -> nparent n2 = Some pid -> c1 <> c2 ->
  exists t8,
    merge_children t c1 c2 e1 e2 pe nm = (Ok (t8, length t), t8) /\
    MergeFacts t pid nP n1 n2 c1 c2 e1 e2 pe nm t8.
Proof.
  intros Hwfs HgP Hg1 Hg2 Hp1 Hp2 Hc12. pose proof Hwfs as [Hwf Hse].
  destruct (WF_parent_of _ _ _ _ Hwf Hg1 Hp1) as (nP' & HgP' & Hc1).
  assert (nP' = nP) by congruence. subst nP'. clear HgP'.
  destruct (WF_parent_of _ _ _ _ Hwf Hg2 Hp2) as (nP' & HgP' & Hc2).
  assert (nP' = nP) by congruence. subst nP'. clear HgP'.
  destruct (nrc_Some nP c1 Hc1) as (pn1 & l1 & l2 & Hrm1 & Hs1 & _ & Hch1 & _).
  assert (Hc2' : In c2 (nchildren pn1)).
  { rewrite Hch1. rewrite Hs1 in Hc2. apply in_app_or in Hc2 as [?|[?|?]]; try congruence; apply in_or_app; auto. }
  destruct (nrc_Some pn1 c2 Hc2') as (pn2 & m1 & m2 & Hrm2 & _).
  destruct (merge_chain_wf t pid nP c1 c2 n1 n2 e1 e2 pe nm pn1 pn2 Hwfs HgP Hg1 Hg2 Hc1 Hc2 Hc12 Hrm1 Hrm2)
    as (t8 & Hchain & Hwf8).
  exists t8.
  assert (Hmc : merge_children t c1 c2 e1 e2 pe nm = (Ok (t8, length t), t8)).
  { unfold merge_children. rewrite Hg1, Hg2, Hp1, Hp2. simpl. rewrite Nat.eqb_refl. simpl.
    destruct (Nat.eqb c1 c2) eqn:E; [apply Nat.eqb_eq in E; congruence|].
    rewrite HgP. simpl. rewrite Hrm1, Hrm2.
    assert (HgP2 : get (replace_nth pid pn2 t) pid = Ok pn2).
    { apply get_Ok in HgP as [HnP HdP]. apply get_Ok. split.
      - eapply nth_error_replace_nth_eq'; eauto.
      - destruct (nrc_inv _ _ _ Hrm1) as (? & ? & _ & _ & _ & _ & _ & _ & _ & _ & Q1).
        destruct (nrc_inv _ _ _ Hrm2) as (? & ? & _ & _ & _ & _ & _ & _ & _ & _ & Q2). congruence. }
    rewrite (add_child_Ok _ _ _ _ _ _ HgP2). rewrite replace_nth_length.
    unfold merge_chain in Hchain. cbv iota beta. rewrite Hchain. reflexivity. }
  (* explicit form of the chain *)
  apply get_Ok in HgP as [HnP HdP]. apply get_Ok in Hg1 as [Hn1 Hd1]. apply get_Ok in Hg2 as [Hn2 Hd2].
  destruct (WF_node_facts t pid nP Hwf HnP HdP) as (Hndch & Hchl & He2 & FidP).
  destruct (nrc2_facts nP c1 c2 pn1 pn2 Hndch (Hse _ _ HnP) Hc12 Hrm1 Hrm2)
    as (F1 & F2 & F3 & F4 & F5 & Fch & Feo & Fe1 & Fe2 & Fks).
  set (new := length t) in *.
  assert (HltP : pid < length t) by (eapply nth_error_Some_lt; eauto).
  assert (Hlt1 : c1 < length t) by (eapply nth_error_Some_lt; eauto).
  assert (Hlt2 : c2 < length t) by (eapply nth_error_Some_lt; eauto).
  destruct (Hchl _ Hc1) as [_ Hc1P]. destruct (Hchl _ Hc2) as [_ Hc2P].
  assert (Hc1n : c1 <> new) by (unfold new; lia). assert (Hc2n : c2 <> new) by (unfold new; lia).
  assert (HPn : pid <> new) by (unfold new; lia).
  set (T := replace_nth pid pn2 t) in *.
  assert (HlenT : length T = length t) by apply replace_nth_length.
  set (Y := leaf_node new None None pid pe (ndepth pn2 + 1)) in *.
  set (XP := node_add_child pn2 new pe) in *.
  assert (HltPT : pid < length T) by lia.
  destruct (slots_add_leaf T pid XP Y HltPT) as (HsP & Hsnew & Hsfr & Hslen).
  set (T1 := replace_nth pid XP (T ++ [Y])) in *. rewrite HlenT in Hsnew, Hsfr, Hslen. fold new in Hsnew, Hsfr.
  set (XN := set_nname (node_add_child (node_add_child Y c1 e1) c2 e2) nm).
  set (A := node_set_parent n1 new e1). set (B := node_set_parent n2 new e2).
  set (t4 := replace_nth c2 B (replace_nth c1 A (replace_nth new XN T1))).
  assert (Hg_new : get T1 new = Ok Y) by (apply get_Ok; auto).
  assert (Hg_c1 : get (replace_nth new XN T1) c1 = Ok n1).
  { apply get_Ok. split; auto. slot. rewrite Hsfr by auto. unfold T. slot. auto. }
  assert (Hg_c2 : get (replace_nth c1 A (replace_nth new XN T1)) c2 = Ok n2).
  { apply get_Ok. split; auto. slot. rewrite Hsfr by auto. unfold T. slot. auto. }
  assert (S_new : nth_error t4 new = Some XN) by (unfold t4; slot; auto).
  assert (S_P : nth_error t4 pid = Some XP) by (unfold t4; slot; auto).
  assert (S_c1 : nth_error t4 c1 = Some A) by (unfold t4; slot; auto).
  assert (S_c2 : nth_error t4 c2 = Some B) by (unfold t4; slot; auto).
  assert (S_o : forall j, j <> pid -> j <> new -> j <> c1 -> j <> c2 -> nth_error t4 j = nth_error t j).
  { intros. unfold t4. slot. rewrite Hsfr by auto. unfold T. slot. auto. }
  assert (Hlen4 : length t4 = S (length t)).
  { unfold t4. rewrite !replace_nth_length. auto. }
  assert (Hg_new4 : get t4 new = Ok XN)
    by (apply get_Ok; split; auto; unfold XN, Y; destruct e1, e2; reflexivity).
  unfold merge_chain in Hchain.
  rewrite (upd_Ok _ _ _ _ Hg_new), bind_ret in Hchain.
  rewrite (upd_Ok _ _ _ _ Hg_c1), bind_ret in Hchain.
  rewrite (upd_Ok _ _ _ _ Hg_c2), bind_ret in Hchain.
  fold XN A B t4 in Hchain. rewrite Hg_new4, bind_ret in Hchain.
  apply reset_depth_f_do in Hchain as [Hdo Hlen8].
  destruct (nac_fields pn2 new pe) as (Gid & Gpar & Gpe & Gdep & Gdel & Gch). fold XP in Gid, Gpar, Gpe, Gdep, Gdel, Gch.
  assert (nid XN = new /\ nparent XN = Some pid /\ npedge XN = pe /\ ndeleted XN = false /\
          nchildren XN = [c1; c2] /\ nname XN = nm) as (W1 & W2 & W3 & W4 & W5 & W6)
    by (unfold XN, Y; destruct e1, e2; simpl; auto 10).
  unfold MergeFacts. subst new. splits; auto; try congruence.
  - intros j n Hj0 Hj1 Hj2 Hn. eapply depth_only_slot; eauto.
    rewrite S_o; auto. apply nth_error_Some_lt in Hn. lia.
  - destruct (depth_only_slot _ _ _ _ Hdo S_P) as (P' & HP' & Q1 & Q2 & Q3 & Q4 & Q5 & Q6).
    exists P'. splits; auto; try congruence.
    + rewrite Q2. unfold XP. rewrite nac_name. rewrite (nrc_name _ _ _ Hrm2). apply (nrc_name _ _ _ Hrm1).
  - destruct (depth_only_slot _ _ _ _ Hdo S_c1) as (m1' & Hm1' & Q1 & Q2 & Q3 & Q4 & Q5 & Q6).
    exists m1'. unfold A in *. simpl in *. splits; auto; congruence.
  - destruct (depth_only_slot _ _ _ _ Hdo S_c2) as (m2' & Hm2' & Q1 & Q2 & Q3 & Q4 & Q5 & Q6).
    exists m2'. unfold B in *. simpl in *. splits; auto; congruence.
  - destruct (depth_only_slot _ _ _ _ Hdo S_new) as (u & Hu & Q1 & Q2 & Q3 & Q4 & Q5 & Q6).
    exists u. splits; auto; congruence.
Qed.

(* ---- giving lengths to the edges between the root and its children (last step of upgma) ---------------- *)
Lemma relabel_root_wf (t t' : arena) n0 n0' :
  WFS t -> nth_error t 0 = Some n0 -> nparent n0 = None -> ndeleted n0 = false ->
  nth_error t' 0 = Some n0' ->
  nid n0' = nid n0 -> nparent n0' = nparent n0 -> nchildren n0' = nchildren n0 -> ndepth n0' = ndepth n0 ->
  ndeleted n0' = false -> ksorted (nedges n0') ->
  (forall c, In c (nchildren n0) -> exists nc e, nth_error t c = Some nc /\
       nth_error t' c = Some (set_npedge nc e) /\ edge_get (nedges n0') c = e) ->
  (forall c, edge_get (nedges n0') c <> None -> In c (nchildren n0)) ->
  (forall j, j <> 0 -> ~ In j (nchildren n0) -> nth_error t' j = nth_error t j) ->
  WFS t'.
Proof.
  intros [Hwf Hse] Hn0 Hp0 Hd0 Hn0' Fid Fpar Fch Fdep Fdel Fks Hrel Hed Hfr.
  assert (Hl0 : live t 0) by (exists n0; auto).
  destruct Hwf as [Hno|(root & r & HR & Hnd & Hlive)]; [exfalso; eapply Hno; eauto|].
  assert (root = 0) by (symmetry; eapply Rep_root_unique; eauto). subst root.
  destruct (Rep_inv _ _ _ _ _ HR) as (n & cs & -> & Hn & Hdel & Hid & Hp & Hd & HF & He1 & He2).
  assert (n = n0) by congruence. subst n.
  rewrite ids_RT in Hnd. apply NoDup_cons_iff in Hnd as [H0cs Hndcs].
  pose proof (Forall2_Rep_rid _ _ _ _ _ HF) as Hch.
  split.
  - right. exists 0, (RT 0 cs). splits.
    + apply Rep_node with (n := n0'); auto; try congruence.
      * rewrite Fch. eapply Forall2_impl_In; [|exact HF]. simpl. intros a b Ha Hb HRa.
        destruct (Rep_inv _ _ _ _ _ HRa) as (na & csa & -> & Hna & Hda & Hida & Hpa & Hdepa & HFa & Ea1 & Ea2).
        destruct (Hrel a Ha) as (nc & e & Hnc & Hnc' & _). assert (nc = na) by congruence. subst nc.
        pose proof (NoDup_flat_map_in _ _ _ Hndcs Hb) as Hndb. rewrite ids_RT in Hndb.
        apply NoDup_cons_iff in Hndb as [Hacsa _].
        assert (Hfra : forall j, In j (flat_map ids csa) -> nth_error t' j = nth_error t j).
        { intros j Hj. assert (Hjb : In j (ids (RT a csa))) by (rewrite ids_RT; right; auto).
          apply Hfr.
          - intros ->. apply H0cs. apply in_flat_map. eauto.
          - intros Hjc. rewrite Hch in Hjc. apply in_map_iff in Hjc as (b' & Hrid & Hb').
            assert (RT a csa = b').
            { eapply flat_map_NoDup_inj with (f := ids); eauto. rewrite <- Hrid. apply In_rid_ids. }
            subst b'. simpl in Hrid. subst j. auto. }
        apply Rep_node with (n := set_npedge na e); simpl; auto.
        -- eapply Forall2_Rep_frame; eauto.
        -- intros c nc Hc Hnc2. rewrite Hfra in Hnc2; eauto.
           apply In_map_rid_flat. rewrite <- (Forall2_Rep_rid _ _ _ _ _ HFa). auto.
      * intros c nc Hc Hnc. rewrite Fch in Hc. destruct (Hrel c Hc) as (nc0 & e & _ & Hnc' & He).
        rewrite Hnc' in Hnc. injection Hnc as <-. simpl. auto.
      * intros c Hc. rewrite Fch. auto.
    + rewrite ids_RT. constructor; auto.
    + intros i (ni & Hni & Hdi). apply Hlive.
      destruct (Nat.eq_dec i 0) as [->|Hi0]; auto.
      destruct (in_dec Nat.eq_dec i (nchildren n0)) as [Hic|Hic].
      * destruct (Hrel i Hic) as (nc & e & Hnc & Hnc' & _). exists nc. split; auto.
        rewrite Hnc' in Hni. injection Hni as <-. auto.
      * rewrite Hfr in Hni by auto. exists ni; auto.
  - intros i ni Hni.
    destruct (Nat.eq_dec i 0) as [->|Hi0]; [congruence|].
    destruct (in_dec Nat.eq_dec i (nchildren n0)) as [Hic|Hic].
    + destruct (Hrel i Hic) as (nc & e & Hnc & Hnc' & _).
      rewrite Hnc' in Hni. injection Hni as <-. simpl. eauto.
    + rewrite Hfr in Hni by auto. eauto.
Qed.

End Structure.

(* ================================================================================================== *)
(* Part I: the loop as a state machine, and the structural invariant                                   *)
(* ================================================================================================== *)
Section Loop.
Context {L : Type}.
Variable O : LenOps L.
Notation arena := (@arena L).
Notation node := (@node L).

(* weighted average used for the distances of a merged cluster *)
Definition avg2 (ca cb : nat) (x y : L) : L :=
  ldiv O (ladd O (lmul O (lofnat O ca) x) (lmul O (lofnat O cb) y)) (ladd O (lofnat O ca) (lofnat O cb)).

(* [Separated Fin]: the values that can occur in live cells (a class [Fin] closed under the update rule)
   are strictly below the marker [linf O] written into retired cells.  This is the only thing the
   structural theorems need from the comparison. *)
Record Separated (Fin : L -> Prop) : Prop := {
  sep_lt : forall x, Fin x -> lltb O x (linf O) = true;
  sep_gt : forall x, Fin x -> lltb O (linf O) x = false;
  sep_avg : forall ca cb x y, 0 < ca -> 0 < cb -> Fin x -> Fin y -> Fin (avg2 ca cb x y) }.

(* ---- cells ------------------------------------------------------------------------------------------ *)
Definition peq (i j p q : nat) : Prop := (i = p /\ j = q) \/ (i = q /\ j = p).

Lemma cell_sym (cs : list L) i j : cell O cs i j = cell O cs j i.
Proof. unfold cell. rewrite tril_sym. reflexivity. Qed.

Lemma cell_replace_eq (cs : list L) n p q v :
  p <> q -> p < n -> q < n -> length cs = n * (n - 1) / 2 ->
  cell O (replace_at cs (tril_idx p q) v) p q = v.
Proof.
  intros Hpq Hp Hq Hlen. unfold cell. apply nth_of_nth_error. apply replace_at_same.
  rewrite Hlen. apply tril_lt_any; auto.
Qed.

Lemma cell_replace_neq (cs : list L) p q i j v :
  i <> j -> p <> q -> ~ peq i j p q ->
  cell O (replace_at cs (tril_idx p q) v) i j = cell O cs i j.
Proof.
  intros Hij Hpq Hne. unfold cell.
  assert (Hk : tril_idx p q <> tril_idx i j).
  { intros E. symmetry in E. apply tril_inj_any in E; auto. }
  pose proof (replace_at_other cs _ _ v Hk) as H.
  destruct (nth_error cs (tril_idx i j)) as [w|] eqn:E.
  - rewrite (nth_of_nth_error _ _ _ _ H). symmetry. apply nth_of_nth_error. auto.
  - apply nth_error_None in E. rewrite !nth_overflow; auto. rewrite replace_at_length. auto.
Qed.

Definition cells_step (a b ca cb : nat) (merged' : list bool) (cs : list L) (x : nat) : list L :=
  if nth x merged' true then cs else
  let cs1 := if negb (Nat.eqb x a) && negb (Nat.eqb b x)
             then replace_at cs (tril_idx a x) (avg2 ca cb (cell O cs x a) (cell O cs x b))
             else cs in
  if negb (Nat.eqb b x) then replace_at cs1 (tril_idx b x) (linf O) else cs1.

Lemma cells_fold_spec n a b ca cb merged' :
  a < n -> b < n -> a <> b -> nth b merged' true = true ->
  forall xs cs, NoDup xs -> (forall x, In x xs -> x < n) -> length cs = n * (n - 1) / 2 ->
  let cs' := fold_left (cells_step a b ca cb merged') xs cs in
  length cs' = length cs /\
  (forall x, In x xs -> nth x merged' true = false ->
     cell O cs' b x = linf O /\
     (x <> a -> cell O cs' a x = avg2 ca cb (cell O cs x a) (cell O cs x b))) /\
  (forall i j, i <> j ->
     (forall x, In x xs -> nth x merged' true = false -> ~ peq i j b x /\ ~ (x <> a /\ peq i j a x)) ->
     cell O cs' i j = cell O cs i j).
Proof.
  intros Ha Hb Hab Hmb xs. induction xs as [|x xs IH] using rev_ind; intros cs Hnd Hlt Hlen; simpl.
  - splits; auto. intros x [].
  - apply NoDup_app_iff in Hnd as (Hnd1 & _ & Hdisj).
    assert (Hx : x < n) by (apply Hlt; apply in_or_app; simpl; auto).
    assert (Hxn : ~ In x xs) by (intros Hin; eapply Hdisj; eauto; simpl; auto).
    assert (Hinx : In x (xs ++ [x])) by (apply in_or_app; simpl; auto).
    destruct (IH cs Hnd1 (fun y Hy => Hlt y (in_or_app _ _ _ (or_introl Hy))) Hlen) as (Il & I1 & I2).
    rewrite fold_left_app. simpl. set (c1 := fold_left (cells_step a b ca cb merged') xs cs) in *.
    unfold cells_step at 1 2 3 4. destruct (nth x merged' true) eqn:Hmx.
    + (* x already merged: nothing happens *)
      splits; auto.
      * intros y Hy Hmy. apply in_app_or in Hy as [Hy|[<-|[]]]; [auto|congruence].
      * intros i j Hij Hno. apply I2; auto. intros y Hy. apply Hno. apply in_or_app; auto.
    + assert (Hxb : x <> b) by (intros ->; congruence).
      assert (Ebx : Nat.eqb b x = false) by (apply Nat.eqb_neq; auto).
      rewrite Ebx. simpl.
      (* the cells read at time x are still the original ones *)
      assert (Rxa : x <> a -> cell O c1 x a = cell O cs x a).
      { intros Hxa. apply I2; auto. intros y Hy Hmy. assert (y <> x) by (intros ->; auto).
        assert (y <> b) by (intros ->; congruence). unfold peq. lia. }
      assert (Rxb : cell O c1 x b = cell O cs x b).
      { apply I2; auto. intros y Hy Hmy. assert (y <> x) by (intros ->; auto).
        assert (y <> b) by (intros ->; congruence). unfold peq. lia. }
      destruct (Nat.eqb x a) eqn:Exa; simpl.
      * apply Nat.eqb_eq in Exa. subst x.
        splits.
        -- rewrite replace_at_length. auto.
        -- intros y Hy Hmy. apply in_app_or in Hy as [Hy|[<-|[]]].
           ++ assert (y <> a) by (intros ->; auto). assert (y <> b) by (intros ->; congruence).
              destruct (I1 y Hy Hmy) as [J1 J2].
              rewrite !cell_replace_neq; auto; unfold peq; try lia; try (split; auto).
           ++ split; [|congruence]. eapply cell_replace_eq; eauto. congruence.
        -- intros i j Hij Hno.
           destruct (Hno a Hinx Hmx) as [N1 _].
           rewrite cell_replace_neq; auto.
           apply I2; auto. intros y Hy. apply Hno. apply in_or_app; auto.
      * apply Nat.eqb_neq in Exa.
        splits.
        -- rewrite !replace_at_length. auto.
        -- intros y Hy Hmy. apply in_app_or in Hy as [Hy|[<-|[]]].
           ++ assert (y <> x) by (intros ->; auto). assert (y <> b) by (intros ->; congruence).
              destruct (I1 y Hy Hmy) as [J1 J2].
              split; [|intros Hya]; rewrite !cell_replace_neq; auto; unfold peq; lia.
           ++ split.
              ** eapply cell_replace_eq; eauto. rewrite replace_at_length. congruence.
              ** intros _. rewrite cell_replace_neq; auto; [|unfold peq; lia].
                 rewrite (cell_replace_eq _ n); auto; try congruence. rewrite Rxa, Rxb; auto.
        -- intros i j Hij Hno.
           destruct (Hno x Hinx Hmx) as [N1 N2].
           rewrite !cell_replace_neq; auto.
           apply I2; auto. intros y Hy. apply Hno. apply in_or_app; auto.
Qed.

(* ---- dm_min under [Separated] ------------------------------------------------------------------------ *)
Section Sep.
Variable Fin : L -> Prop.
Hypothesis HSep : Separated Fin.

Lemma pick_fin {K} (l : list (K * L)) :
  (forall e, In e l -> Fin (snd e) \/ snd e = linf O) ->
  match fold_left (pick (lltb O)) l None with
  | None => l = []
  | Some e => In e l /\ ((exists x, In x l /\ Fin (snd x)) -> Fin (snd e))
  end.
Proof.
  induction l as [|x l IH] using rev_ind; intros Hall; [reflexivity|].
  rewrite fold_left_app. simpl.
  assert (Hall' : forall e, In e l -> Fin (snd e) \/ snd e = linf O)
    by (intros; apply Hall; apply in_or_app; auto).
  specialize (IH Hall').
  assert (Hinx : In x (l ++ [x])) by (apply in_or_app; simpl; auto).
  destruct (fold_left (pick (lltb O)) l None) as [[ek ev]|]; simpl.
  - destruct IH as [Hin Hfin]. simpl in Hfin.
    destruct (lltb O (snd x) ev) eqn:Hx.
    + split; [apply in_or_app; simpl; auto|].
      intros (y & Hy & Fy).
      destruct (Hall x Hinx) as [Fx|Ex]; auto.
      exfalso. rewrite Ex in Hx.
      destruct (Hall' _ Hin) as [Fe|Ee]; simpl in *.
      * rewrite (sep_gt _ HSep _ Fe) in Hx. discriminate.
      * apply in_app_or in Hy as [Hy|[<-|[]]].
        -- assert (Fe : Fin ev) by (apply Hfin; eauto). rewrite (sep_gt _ HSep _ Fe) in Hx. discriminate.
        -- rewrite Ex in Fy. rewrite Ee in Hx. rewrite (sep_gt _ HSep _ Fy) in Hx. discriminate.
    + split; [apply in_or_app; auto|]. simpl.
      intros (y & Hy & Fy). apply in_app_or in Hy as [Hy|[<-|[]]]; [apply Hfin; eauto|].
      destruct (Hall' _ Hin) as [Fe|Ee]; simpl in *; auto.
      rewrite Ee in Hx. rewrite (sep_lt _ HSep _ Fy) in Hx. discriminate.
  - subst l. simpl. split; auto. intros (y & [<-|[]] & Fy). auto.
Qed.

Definition CellsOK (n : nat) (cells : list L) (merged : list bool) : Prop :=
  length cells = n * (n - 1) / 2 /\
  forall i j, i < n -> j < n -> i <> j ->
    (nth i merged true = false -> nth j merged true = false -> Fin (cell O cells i j)) /\
    (nth i merged true = true \/ nth j merged true = true -> cell O cells i j = linf O).

Lemma dm_min_live n cells merged :
  CellsOK n cells merged ->
  (exists i j, i < n /\ j < n /\ i <> j /\ nth i merged true = false /\ nth j merged true = false) ->
  exists a b d, dm_min O (mkDmat n [] cells) = Some (a, b, d) /\ b < a /\ a < n /\
    nth a merged true = false /\ nth b merged true = false /\ d = cell O cells a b /\ Fin d.
Proof.
  intros [Hlen Hc] (i & j & Hi & Hj & Hij & Hmi & Hmj).
  set (m := mkDmat n [] cells).
  assert (Hlenm : length (mcells m) = msize m * (msize m - 1) / 2) by exact Hlen.
  assert (Hel : forall a b v, In (a, b, v) (dm_indexed m) -> b < a /\ a < n /\ v = cell O cells a b).
  { intros a b v Hin. destruct (indexed_agrees m a b v Hin) as [Hba Hnth].
    destruct (indexed_in_range m a b v Hlenm Hin) as [_ Han]. splits; auto.
    symmetry. unfold cell. apply nth_of_nth_error. exact Hnth. }
  assert (Hall : forall e, In e (dm_indexed m) -> Fin (snd e) \/ snd e = linf O).
  { intros [[a b] v] Hin. destruct (Hel a b v Hin) as (Hba & Han & ->). simpl.
    destruct (Hc a b Han ltac:(lia) ltac:(lia)) as [C1 C2].
    destruct (nth a merged true) eqn:Ea; [right; auto|].
    destruct (nth b merged true) eqn:Eb; [right; auto|]. left; auto. }
  assert (Hex : exists x, In x (dm_indexed m) /\ Fin (snd x)).
  { assert (forall i j, j < i -> i < n -> nth i merged true = false -> nth j merged true = false ->
              exists x, In x (dm_indexed m) /\ Fin (snd x)) as W.
    { intros i' j' Hji Hin Hmi' Hmj'.
      destruct (indexed_complete m i' j' Hlenm Hji Hin) as (v & Hv). apply nth_error_In in Hv.
      exists (i', j', v). split; auto. destruct (Hel _ _ _ Hv) as (_ & _ & ->). simpl.
      apply Hc; auto; lia. }
    destruct (Nat.lt_ge_cases j i); [eapply (W i j); eauto|eapply (W j i); eauto; lia]. }
  pose proof (pick_fin (dm_indexed m) Hall) as P. rewrite <- dm_min_pick in P.
  destruct (dm_min O m) as [[[a b] d]|] eqn:Hmin.
  - destruct P as [Hin Hfin]. specialize (Hfin Hex). simpl in Hfin.
    destruct (Hel a b d Hin) as (Hba & Han & Hd).
    exists a, b, d. splits; auto.
    + destruct (nth a merged true) eqn:Ea; auto. exfalso.
      destruct (Hc a b Han ltac:(lia) ltac:(lia)) as [_ C2]. rewrite <- Hd in C2.
      rewrite C2 in Hfin by auto. pose proof (sep_lt _ HSep _ Hfin). pose proof (sep_gt _ HSep _ Hfin). congruence.
    + destruct (nth b merged true) eqn:Eb; auto. exfalso.
      destruct (Hc a b Han ltac:(lia) ltac:(lia)) as [_ C2]. rewrite <- Hd in C2.
      rewrite C2 in Hfin by auto. pose proof (sep_lt _ HSep _ Hfin). pose proof (sep_gt _ HSep _ Hfin). congruence.
  - exfalso. destruct Hex as (x & Hx & _). rewrite P in Hx. destruct Hx.
Qed.

(* ---- the loop as a state machine ----------------------------------------------------------------------- *)
Record ustate := mkU { u_cells : list L; u_card : list nat; u_merged : list bool; u_heights : list L;
                       u_ids : list nat; u_t : arena; u_k : nat }.

Definition two : L := ladd O (l1 O) (l1 O).

(* state after merging clusters a > b at distance d, the arena being t' *)
Definition st_next (n : nat) (s : ustate) (a b : nat) (d : L) (t' : arena) : ustate :=
  let nh := ldiv O d two in
  let ha := nth a (u_heights s) (l0 O) in
  let merged' := replace_nth b true (u_merged s) in
  mkU (fold_left (cells_step a b (nth a (u_card s) 0) (nth b (u_card s) 0) merged') (seq 0 n) (u_cells s))
      (replace_nth a (nth a (u_card s) 0 + nth b (u_card s) 0) (u_card s))
      merged'
      (replace_nth a (ladd O ha (lsub O nh ha)) (u_heights s))
      (replace_nth a (length (u_t s)) (u_ids s)) t' (u_k s - 1).

Definition ustep (n : nat) (s : ustate) : outcome ustate :=
  match dm_min O (mkDmat n [] (u_cells s)) with
  | None => Err IndexError
  | Some (a, b, d_ab) =>
      let nh := ldiv O d_ab two in
      let ha := nth a (u_heights s) (l0 O) in
      let hb := nth b (u_heights s) (l0 O) in
      let d_au := lsub O nh ha in
      let d_bu := lsub O nh hb in
      let merged' := replace_nth b true (u_merged s) in
      match merge_children (u_t s) (nth a (u_ids s) 0) (nth b (u_ids s) 0) (Some d_au) (Some d_bu) None None with
      | (Ok (t', u_node), _) =>
          Ok (mkU (fold_left (cells_step a b (nth a (u_card s) 0) (nth b (u_card s) 0) merged') (seq 0 n) (u_cells s))
                  (replace_nth a (nth a (u_card s) 0 + nth b (u_card s) 0) (u_card s))
                  merged'
                  (replace_nth a (ladd O ha d_au) (u_heights s))
                  (replace_nth a u_node (u_ids s)) t' (u_k s - 1))
      | _ => Panic 34
      end
  end.

Definition uloop (fuel n : nat) (s : ustate) :=
  upgma_loop O fuel n (u_cells s) (u_card s) (u_merged s) (u_heights s) (u_ids s) (u_t s) (u_k s).
Definition uout (s : ustate) := (u_cells s, u_merged s, u_heights s, u_ids s, u_t s).

Lemma uloop_0 n s : uloop 0 n s = if Nat.leb (u_k s) 2 then Ok (uout s) else OutOfFuel.
Proof. reflexivity. Qed.

Lemma uloop_S f n s :
  uloop (S f) n s = if Nat.leb (u_k s) 2 then Ok (uout s) else bind (ustep n s) (uloop f n).
Proof.
  unfold uloop, ustep. cbn [upgma_loop]. destruct (Nat.leb (u_k s) 2); [reflexivity|].
  destruct (dm_min O (mkDmat n [] (u_cells s))) as [[[a b] d]|]; [|reflexivity].
  unfold cells_step, avg2.
  destruct (merge_children (u_t s) (nth a (u_ids s) 0) (nth b (u_ids s) 0)) as [[[t' u]| | |] ?]; reflexivity.
Qed.

Lemma uloop_run (Inv : ustate -> Prop) n :
  (forall s, Inv s -> 2 < u_k s -> exists s', ustep n s = Ok s' /\ Inv s' /\ u_k s' = u_k s - 1) ->
  forall f s, Inv s -> u_k s <= f + 2 ->
    exists s', uloop f n s = Ok (uout s') /\ Inv s' /\ u_k s' = Nat.min (u_k s) 2.
Proof.
  intros Hstep. induction f as [|f IH]; intros s Hs Hk.
  - rewrite uloop_0. destruct (Nat.leb (u_k s) 2) eqn:E; [|apply Nat.leb_gt in E; lia].
    apply Nat.leb_le in E. exists s. splits; auto. lia.
  - rewrite uloop_S. destruct (Nat.leb (u_k s) 2) eqn:E.
    + apply Nat.leb_le in E. exists s. splits; auto. lia.
    + apply Nat.leb_gt in E. destruct (Hstep s Hs E) as (s1 & Hst & Hs1 & Hk1).
      rewrite Hst. simpl. destruct (IH s1 Hs1 ltac:(lia)) as (s' & Hr & Hs' & Hk').
      exists s'. splits; auto. lia.
Qed.

(* ---- counting unmerged clusters ------------------------------------------------------------------------ *)
Definition unmb (merged : list bool) (i : nat) : bool := negb (nth i merged true).

Lemma count_ge2 (p : nat -> bool) n :
  2 <= length (filter p (seq 0 n)) ->
  exists i j, i < n /\ j < n /\ i <> j /\ p i = true /\ p j = true.
Proof.
  intros H. pose proof (NoDup_filter p (seq_NoDup n 0)) as Hnd.
  destruct (filter p (seq 0 n)) as [|i [|j l]] eqn:E; simpl in H; try lia.
  assert (Hi : In i (filter p (seq 0 n))) by (rewrite E; simpl; auto).
  assert (Hj : In j (filter p (seq 0 n))) by (rewrite E; simpl; auto).
  apply filter_In in Hi as [Hi1 Hi2]. apply filter_In in Hj as [Hj1 Hj2].
  apply in_seq in Hi1, Hj1. exists i, j. splits; auto; try lia.
  inversion Hnd; subst. simpl in *. intuition.
Qed.

Lemma count_retire (m : list bool) b (l : list nat) :
  b < length m -> nth b m true = false -> NoDup l ->
  length (filter (unmb (replace_nth b true m)) l) + (if in_dec Nat.eq_dec b l then 1 else 0)
  = length (filter (unmb m) l).
Proof.
  intros Hb Hmb. induction l as [|x l IH]; intros Hnd; [reflexivity|].
  inversion Hnd; subst. specialize (IH H2). simpl filter.
  destruct (Nat.eq_dec x b) as [->|Hne].
  - assert (E1 : unmb (replace_nth b true m) b = false)
      by (unfold unmb; rewrite nth_replace_nth_eq by auto; reflexivity).
    assert (E2 : unmb m b = true) by (unfold unmb; rewrite Hmb; reflexivity).
    rewrite E1, E2. simpl.
    destruct (Nat.eq_dec b b); [|congruence].
    destruct (in_dec Nat.eq_dec b l); [contradiction|]. lia.
  - assert (E1 : unmb (replace_nth b true m) x = unmb m x)
      by (unfold unmb; rewrite nth_replace_nth_neq by auto; reflexivity).
    rewrite E1. simpl. destruct (Nat.eq_dec x b); [congruence|].
    destruct (in_dec Nat.eq_dec b l); destruct (unmb m x); simpl; lia.
Qed.

Lemma count_retire_seq (m : list bool) b n :
  b < n -> length m = n -> nth b m true = false ->
  length (filter (unmb (replace_nth b true m)) (seq 0 n)) = length (filter (unmb m) (seq 0 n)) - 1.
Proof.
  intros Hb Hl Hmb. pose proof (count_retire m b (seq 0 n) ltac:(lia) Hmb (seq_NoDup n 0)) as H.
  destruct (in_dec Nat.eq_dec b (seq 0 n)) as [_|Hn]; [lia|].
  exfalso. apply Hn. apply in_seq. lia.
Qed.

(* ---- the structural invariant --------------------------------------------------------------------------- *)
Definition SlotOK (n : nat) (taxa : list str) (j : nat) (nd : node) : Prop :=
  ndeleted nd = false /\
  (j = 0 -> nparent nd = None /\ nname nd = None) /\
  (1 <= j <= n -> nchildren nd = [] /\ nname nd = Some (nth (j - 1) taxa [])) /\
  (n < j -> nname nd = None /\ exists c1 c2, nchildren nd = [c1; c2]) /\
  (forall p, nparent nd = Some p -> p <> 0 -> npedge nd <> None).

Lemma SlotOK_feq n taxa j nd nd' : feq nd nd' -> SlotOK n taxa j nd -> SlotOK n taxa j nd'.
Proof.
  intros (Q1 & Q2 & Q3 & Q4 & Q5 & Q6) (S1 & S2 & S3 & S4 & S5).
  unfold SlotOK. rewrite Q2, Q3, Q4, Q5, Q6. auto.
Qed.

Record SInv (n : nat) (taxa : list str) (s : ustate) : Prop := {
  si_wfs : WFS (u_t s);
  si_len : length (u_t s) + u_k s = 2 * n + 1;
  si_k : 2 <= u_k s <= n;
  si_lcard : length (u_card s) = n;
  si_lmerged : length (u_merged s) = n;
  si_lheights : length (u_heights s) = n;
  si_lids : length (u_ids s) = n;
  si_count : length (filter (unmb (u_merged s)) (seq 0 n)) = u_k s;
  si_slots : forall j nd, nth_error (u_t s) j = Some nd -> SlotOK n taxa j nd;
  si_root : exists n0, nth_error (u_t s) 0 = Some n0 /\
              forall c, In c (nchildren n0) <->
                        exists u, u < n /\ nth u (u_merged s) true = false /\ nth u (u_ids s) 0 = c;
  si_inj : forall u v, u < n -> v < n -> nth u (u_merged s) true = false -> nth v (u_merged s) true = false ->
              nth u (u_ids s) 0 = nth v (u_ids s) 0 -> u = v;
  si_par : forall u, u < n -> nth u (u_merged s) true = false ->
              exists nd, nth_error (u_t s) (nth u (u_ids s) 0) = Some nd /\ nparent nd = Some 0;
  si_card : forall u, u < n -> nth u (u_merged s) true = false -> 0 < nth u (u_card s) 0;
  si_cells : CellsOK n (u_cells s) (u_merged s) }.

(* what one iteration does, given the invariant, when the minimal cell joins two live clusters a > b *)
Lemma ustep_desc_pick n taxa s a b d :
  SInv n taxa s ->
  dm_min O (mkDmat n [] (u_cells s)) = Some (a, b, d) -> b < a -> a < n ->
  nth a (u_merged s) true = false -> nth b (u_merged s) true = false ->
  exists n0 n1 n2 t8,
    nth_error (u_t s) 0 = Some n0 /\
    nth_error (u_t s) (nth a (u_ids s) 0) = Some n1 /\ nth_error (u_t s) (nth b (u_ids s) 0) = Some n2 /\
    nparent n1 = Some 0 /\ nparent n2 = Some 0 /\ nth a (u_ids s) 0 <> nth b (u_ids s) 0 /\
    MergeFacts (u_t s) 0 n0 n1 n2 (nth a (u_ids s) 0) (nth b (u_ids s) 0)
       (Some (lsub O (ldiv O d two) (nth a (u_heights s) (l0 O))))
       (Some (lsub O (ldiv O d two) (nth b (u_heights s) (l0 O)))) None None t8 /\
    ustep n s = Ok (st_next n s a b d t8).
Proof.
  intros I Hmin Hba Han Hma Hmb.
  destruct (si_root _ _ _ I) as (n0 & Hn0 & Hch0).
  destruct (si_par _ _ _ I a Han Hma) as (n1 & Hn1 & Hp1).
  destruct (si_par _ _ _ I b ltac:(lia) Hmb) as (n2 & Hn2 & Hp2).
  assert (Hc12 : nth a (u_ids s) 0 <> nth b (u_ids s) 0).
  { intros E. apply (si_inj _ _ _ I) in E; auto; lia. }
  pose proof (si_slots _ _ _ I _ _ Hn0) as (D0 & _).
  pose proof (si_slots _ _ _ I _ _ Hn1) as (D1 & _).
  pose proof (si_slots _ _ _ I _ _ Hn2) as (D2 & _).
  destruct (merge_spec (u_t s) 0 n0 (nth a (u_ids s) 0) (nth b (u_ids s) 0) n1 n2
              (Some (lsub O (ldiv O d two) (nth a (u_heights s) (l0 O))))
              (Some (lsub O (ldiv O d two) (nth b (u_heights s) (l0 O)))) None None
              (si_wfs _ _ _ I)) as (t8 & Hmc & MF); auto; try (apply get_Ok; auto).
  exists n0, n1, n2, t8. splits; auto.
  unfold ustep. rewrite Hmin. cbv zeta. rewrite Hmc. reflexivity.
Qed.

(* under [Separated] the minimal cell always joins two live clusters *)
Lemma ustep_desc n taxa s :
  SInv n taxa s -> 2 < u_k s ->
  exists a b d n0 n1 n2 t8,
    dm_min O (mkDmat n [] (u_cells s)) = Some (a, b, d) /\ b < a /\ a < n /\
    nth a (u_merged s) true = false /\ nth b (u_merged s) true = false /\
    d = cell O (u_cells s) a b /\ Fin d /\
    nth_error (u_t s) 0 = Some n0 /\
    nth_error (u_t s) (nth a (u_ids s) 0) = Some n1 /\ nth_error (u_t s) (nth b (u_ids s) 0) = Some n2 /\
    nparent n1 = Some 0 /\ nparent n2 = Some 0 /\ nth a (u_ids s) 0 <> nth b (u_ids s) 0 /\
    MergeFacts (u_t s) 0 n0 n1 n2 (nth a (u_ids s) 0) (nth b (u_ids s) 0)
       (Some (lsub O (ldiv O d two) (nth a (u_heights s) (l0 O))))
       (Some (lsub O (ldiv O d two) (nth b (u_heights s) (l0 O)))) None None t8 /\
    ustep n s = Ok (st_next n s a b d t8).
Proof.
  intros I Hk.
  assert (Hex : exists i j, i < n /\ j < n /\ i <> j /\
                  nth i (u_merged s) true = false /\ nth j (u_merged s) true = false).
  { destruct (count_ge2 (unmb (u_merged s)) n) as (i & j & Hi & Hj & Hij & Pi & Pj).
    - rewrite (si_count _ _ _ I). lia.
    - exists i, j. unfold unmb in *. splits; auto; apply negb_true_iff; auto. }
  destruct (dm_min_live n _ _ (si_cells _ _ _ I) Hex) as (a & b & d & Hmin & Hba & Han & Hma & Hmb & Hd & Fd).
  destruct (ustep_desc_pick n taxa s a b d I Hmin Hba Han Hma Hmb)
    as (n0 & n1 & n2 & t8 & H1 & H2 & H3 & H4 & H5 & H6 & H7 & H8).
  exists a, b, d, n0, n1, n2, t8. splits; auto.
Qed.

Lemma SInv_step_pick n taxa s a b d :
  (forall ca cb x y, 0 < ca -> 0 < cb -> Fin x -> Fin y -> Fin (avg2 ca cb x y)) ->
  SInv n taxa s -> 2 < u_k s ->
  dm_min O (mkDmat n [] (u_cells s)) = Some (a, b, d) -> b < a -> a < n ->
  nth a (u_merged s) true = false -> nth b (u_merged s) true = false ->
  exists t8, ustep n s = Ok (st_next n s a b d t8) /\ SInv n taxa (st_next n s a b d t8) /\
             MergeFacts (u_t s) 0
               (nth 0 (u_t s) tombstone) (nth (nth a (u_ids s) 0) (u_t s) tombstone)
               (nth (nth b (u_ids s) 0) (u_t s) tombstone) (nth a (u_ids s) 0) (nth b (u_ids s) 0)
               (Some (lsub O (ldiv O d two) (nth a (u_heights s) (l0 O))))
               (Some (lsub O (ldiv O d two) (nth b (u_heights s) (l0 O)))) None None t8.
Proof.
  intros HAvg I Hk Hmin Hba Han Hma Hmb.
  destruct (ustep_desc_pick n taxa s a b d I Hmin Hba Han Hma Hmb)
    as (n0 & n1 & n2 & t8 & Hn0 & Hn1 & Hn2 & Hp1 & Hp2 & Hc12 & MF & Hst).
  exists t8. split; [exact Hst|].
  split; [|rewrite (nth_of_nth_error _ _ _ tombstone Hn0), (nth_of_nth_error _ _ _ tombstone Hn1),
                   (nth_of_nth_error _ _ _ tombstone Hn2); exact MF].
  destruct MF as (Hwf8 & Hlen8 & Hc10 & Hc20 & Hfr & (P' & HP' & PQ1 & PQ2 & PQ3 & PQ4 & PQ5 & PQ6) &
                  (m1 & Hm1 & A1 & A2 & A3 & A4 & A5 & A6) & (m2 & Hm2 & B1 & B2 & B3 & B4 & B5 & B6) &
                  (u & Hu & U1 & U2 & U3 & U4 & U5 & U6)).
  set (t := u_t s) in *. set (c1 := nth a (u_ids s) 0) in *. set (c2 := nth b (u_ids s) 0) in *.
  pose proof (si_lmerged _ _ _ I) as Lm. pose proof (si_lids _ _ _ I) as Lids.
  pose proof (si_lcard _ _ _ I) as Lcard. pose proof (si_lheights _ _ _ I) as Lh.
  pose proof (si_k _ _ _ I) as Kb. pose proof (si_len _ _ _ I) as Klen. fold t in Klen.
  assert (Hbn : b < n) by lia. assert (Hab : a <> b) by lia.
  assert (Mb : nth b (replace_nth b true (u_merged s)) true = true) by (apply nth_replace_nth_eq; lia).
  assert (Mo : forall x, x <> b -> nth x (replace_nth b true (u_merged s)) true = nth x (u_merged s) true)
    by (intros; apply nth_replace_nth_neq; auto).
  assert (Mu : forall x, nth x (replace_nth b true (u_merged s)) true = false ->
                         x <> b /\ nth x (u_merged s) true = false).
  { intros x Hx. destruct (Nat.eq_dec x b) as [->|Hne]; [congruence|]. rewrite Mo in Hx; auto. }
  assert (Ia : nth a (replace_nth a (length t) (u_ids s)) 0 = length t) by (apply nth_replace_nth_eq; lia).
  assert (Io : forall x, x <> a -> nth x (replace_nth a (length t) (u_ids s)) 0 = nth x (u_ids s) 0)
    by (intros; apply nth_replace_nth_neq; auto).
  destruct (si_root _ _ _ I) as (n0' & Hn0' & Hch0). fold t in Hn0'.
  assert (n0' = n0) by congruence. subst n0'. clear Hn0'.
  destruct (si_slots _ _ _ I _ _ Hn0) as (R1 & R2 & _). destruct (R2 eq_refl) as [R3 R4].
  assert (Hidlt : forall v, v < n -> nth v (u_merged s) true = false ->
                    nth v (u_ids s) 0 < length t /\ nth v (u_ids s) 0 <> 0).
  { intros v Hv Hmv. destruct (si_par _ _ _ I v Hv Hmv) as (nd & Hnd & Hpd). fold t in Hnd. split.
    - eapply nth_error_Some_lt; eauto.
    - intros E. rewrite E in Hnd. congruence. }
  assert (Hlt0 : 0 < length t) by (eapply nth_error_Some_lt; eauto).
  constructor; simpl; fold t.
  - exact Hwf8.
  - fold t. lia.
  - lia.
  - rewrite replace_nth_length. auto.
  - rewrite replace_nth_length. auto.
  - rewrite replace_nth_length. auto.
  - rewrite replace_nth_length. auto.
  - rewrite count_retire_seq; auto. rewrite (si_count _ _ _ I). reflexivity.
  - (* slots *)
    intros j nd Hnd.
    assert (Hj : j < S (length t)) by (rewrite <- Hlen8; eapply nth_error_Some_lt; eauto).
    destruct (Nat.eq_dec j (length t)) as [->|Hjn].
    + rewrite Hu in Hnd. injection Hnd as <-. unfold SlotOK. splits; auto.
      * intros E. lia.
      * intros [H1 H2]. lia.
      * intros _. split; auto. exists c1, c2. auto.
      * intros p Hp Hp0. rewrite U3 in Hp. congruence.
    + assert (Hjl : j < length t) by lia.
      destruct (nth_error t j) as [nj|] eqn:Hnj; [|apply nth_error_None in Hnj; lia].
      pose proof (si_slots _ _ _ I j nj Hnj) as SO.
      destruct (Nat.eq_dec j 0) as [->|Hj0].
      { rewrite HP' in Hnd. injection Hnd as <-. assert (nj = n0) by congruence. subst nj.
        unfold SlotOK. splits; auto.
        - intros _. split; congruence.
        - intros [? ?]; lia.
        - intros; lia.
        - intros p Hp. congruence. }
      destruct (Nat.eq_dec j c1) as [->|Hj1].
      { rewrite Hm1 in Hnd. injection Hnd as <-. assert (nj = n1) by congruence. subst nj.
        destruct SO as (S1 & S2 & S3 & S4 & S5). unfold SlotOK. rewrite A2, A4, A5. splits; auto.
        - intros E. congruence.
        - intros p Hp Hp0. discriminate. }
      destruct (Nat.eq_dec j c2) as [->|Hj2].
      { rewrite Hm2 in Hnd. injection Hnd as <-. assert (nj = n2) by congruence. subst nj.
        destruct SO as (S1 & S2 & S3 & S4 & S5). unfold SlotOK. rewrite B2, B4, B5. splits; auto.
        - intros E. congruence.
        - intros p Hp Hp0. discriminate. }
      destruct (Hfr j nj Hj0 Hj1 Hj2 Hnj) as (n' & Hn' & Fe). rewrite Hn' in Hnd. injection Hnd as <-.
      eapply SlotOK_feq; eauto.
  - (* root children = live cluster nodes *)
    exists P'. split; auto. intros c. rewrite PQ6, in_app_iff, filter_In. split.
    + intros [[Hc Hne]|[<-|[]]].
      * apply Hch0 in Hc as (u0 & Hu0 & Hmu0 & Hid0). apply andb_true_iff in Hne as [N1 N2].
        apply negb_true_iff, Nat.eqb_neq in N1, N2.
        assert (u0 <> a) by (intros ->; apply N1; auto).
        assert (u0 <> b) by (intros ->; apply N2; auto).
        exists u0. splits; auto. rewrite Mo; auto. rewrite Io; auto.
      * exists a. splits; auto. rewrite Mo; auto.
    + intros (u0 & Hu0 & Hmu0 & Hid0). apply Mu in Hmu0 as [Hub Hmu0].
      destruct (Nat.eq_dec u0 a) as [->|Hua].
      * right. rewrite Ia in Hid0. simpl; auto.
      * left. rewrite Io in Hid0 by auto. split; [apply Hch0; exists u0; auto|].
        apply andb_true_iff; split; apply negb_true_iff, Nat.eqb_neq; intros E.
        -- apply Hua. apply (si_inj _ _ _ I); auto. fold c1. congruence.
        -- apply Hub. apply (si_inj _ _ _ I); auto. fold c2. congruence.
  - (* injectivity *)
    intros u0 v0 Hu0 Hv0 Mu0 Mv0 E. apply Mu in Mu0 as [? Mu0]. apply Mu in Mv0 as [? Mv0].
    destruct (Nat.eq_dec u0 a) as [->|Hua], (Nat.eq_dec v0 a) as [->|Hva]; auto.
    + rewrite Ia, Io in E by auto. destruct (Hidlt v0 Hv0 Mv0). lia.
    + rewrite Ia, Io in E by auto. destruct (Hidlt u0 Hu0 Mu0). lia.
    + rewrite !Io in E by auto. apply (si_inj _ _ _ I); auto.
  - (* cluster nodes hang under the root *)
    intros u0 Hu0 Mu0. apply Mu in Mu0 as [Hub Mu0].
    destruct (Nat.eq_dec u0 a) as [->|Hua].
    + rewrite Ia. exists u. split; auto.
    + rewrite Io by auto. destruct (si_par _ _ _ I u0 Hu0 Mu0) as (nd & Hnd & Hpd). fold t in Hnd.
      destruct (Hidlt u0 Hu0 Mu0) as [_ Hne0].
      assert (N1 : nth u0 (u_ids s) 0 <> c1) by (intros E; apply Hua; apply (si_inj _ _ _ I); auto).
      assert (N2 : nth u0 (u_ids s) 0 <> c2) by (intros E; apply Hub; apply (si_inj _ _ _ I); auto).
      destruct (Hfr _ nd Hne0 N1 N2 Hnd) as (n' & Hn' & Fe). exists n'. split; auto.
      destruct Fe as (_ & _ & -> & _). auto.
  - (* cardinalities *)
    intros u0 Hu0 Mu0. apply Mu in Mu0 as [Hub Mu0].
    destruct (Nat.eq_dec u0 a) as [->|Hua].
    + rewrite nth_replace_nth_eq by lia. pose proof (si_card _ _ _ I a Han Hma). lia.
    + rewrite nth_replace_nth_neq by auto. apply (si_card _ _ _ I); auto.
  - (* cells *)
    destruct (si_cells _ _ _ I) as [Hlen Hc].
    pose proof (si_card _ _ _ I a Han Hma) as Ca. pose proof (si_card _ _ _ I b Hbn Hmb) as Cb.
    destruct (cells_fold_spec n a b (nth a (u_card s) 0) (nth b (u_card s) 0) _ Han Hbn Hab Mb
                (seq 0 n) (u_cells s) (seq_NoDup n 0)) as (Cl & C1 & C2); auto.
    { intros x Hx. apply in_seq in Hx. lia. }
    split; [congruence|]. intros i j Hi Hj Hij.
    assert (Hini : In i (seq 0 n)) by (apply in_seq; lia).
    assert (Hinj : In j (seq 0 n)) by (apply in_seq; lia).
    split.
    + intros Mi Mj. pose proof Mi as Mi'. pose proof Mj as Mj'.
      apply Mu in Mi as [Hib Mi]. apply Mu in Mj as [Hjb Mj].
      destruct (Nat.eq_dec i a) as [->|Hia].
      * destruct (C1 j Hinj Mj') as [_ X]. rewrite X by auto.
        apply HAvg; auto; apply Hc; auto.
      * destruct (Nat.eq_dec j a) as [->|Hja].
        -- rewrite cell_sym. destruct (C1 i Hini Mi') as [_ X]. rewrite X by auto.
           apply HAvg; auto; apply Hc; auto.
        -- rewrite C2; auto. { apply Hc; auto. }
           intros x Hx Mx. apply Mu in Mx. unfold peq. lia.
    + intros Hor.
      destruct (nth i (replace_nth b true (u_merged s)) true) eqn:Ei;
      destruct (nth j (replace_nth b true (u_merged s)) true) eqn:Ej.
      * (* both retired *)
        rewrite C2; auto.
        { apply Hc; auto. destruct (Nat.eq_dec i b) as [->|Hib].
          - right. rewrite Mo in Ej by auto. auto.
          - left. rewrite Mo in Ei by auto. auto. }
        intros x Hx Mx. assert (x <> i) by (intros ->; congruence). assert (x <> j) by (intros ->; congruence).
        unfold peq. lia.
      * destruct (Nat.eq_dec i b) as [->|Hib].
        { destruct (C1 j Hinj Ej) as [X _]. auto. }
        rewrite Mo in Ei by auto.
        assert (i <> a) by (intros ->; congruence).
        apply Mu in Ej as [Hjb Ej].
        rewrite C2; auto. { apply Hc; auto. }
        intros x Hx Mx. apply Mu in Mx as [? Mx]. assert (x <> i) by (intros ->; congruence).
        unfold peq. lia.
      * destruct (Nat.eq_dec j b) as [->|Hjb].
        { rewrite cell_sym. destruct (C1 i Hini Ei) as [X _]. auto. }
        rewrite Mo in Ej by auto.
        assert (j <> a) by (intros ->; congruence).
        apply Mu in Ei as [Hib Ei].
        rewrite C2; auto. { apply Hc; auto. }
        intros x Hx Mx. apply Mu in Mx as [? Mx]. assert (x <> j) by (intros ->; congruence).
        unfold peq. lia.
      * destruct Hor; congruence.
Qed.

Lemma SInv_step n taxa s :
  SInv n taxa s -> 2 < u_k s -> exists s', ustep n s = Ok s' /\ SInv n taxa s' /\ u_k s' = u_k s - 1.
Proof.
  intros I Hk.
  destruct (ustep_desc n taxa s I Hk)
    as (a & b & d & n0 & n1 & n2 & t8 & Hmin & Hba & Han & Hma & Hmb & Hd & Fd & Hn0 & Hn1 & Hn2 & Hp1 & Hp2 &
        Hc12 & MF & Hst).
  destruct (SInv_step_pick n taxa s a b d (sep_avg _ HSep) I Hk Hmin Hba Han Hma Hmb) as (t8' & Hst' & I' & _).
  exists (st_next n s a b d t8'). splits; auto.
Qed.

(* one iteration, everything the metric invariants need to know about it *)
Lemma ustep_full n taxa s s' :
  SInv n taxa s -> 2 < u_k s -> ustep n s = Ok s' ->
  exists a b d n0 n1 n2 t8,
    dm_min O (mkDmat n [] (u_cells s)) = Some (a, b, d) /\ b < a /\ a < n /\
    nth a (u_merged s) true = false /\ nth b (u_merged s) true = false /\
    d = cell O (u_cells s) a b /\
    nth_error (u_t s) 0 = Some n0 /\
    nth_error (u_t s) (nth a (u_ids s) 0) = Some n1 /\ nth_error (u_t s) (nth b (u_ids s) 0) = Some n2 /\
    nparent n1 = Some 0 /\ nparent n2 = Some 0 /\ nparent n0 = None /\
    MergeFacts (u_t s) 0 n0 n1 n2 (nth a (u_ids s) 0) (nth b (u_ids s) 0)
       (Some (lsub O (ldiv O d two) (nth a (u_heights s) (l0 O))))
       (Some (lsub O (ldiv O d two) (nth b (u_heights s) (l0 O)))) None None t8 /\
    s' = st_next n s a b d t8 /\
    (forall x, nth x (u_merged s') true = false <-> x <> b /\ nth x (u_merged s) true = false) /\
    (forall x, x < n -> x <> a -> nth x (u_merged s') true = false ->
       cell O (u_cells s') a x =
       avg2 (nth a (u_card s) 0) (nth b (u_card s) 0) (cell O (u_cells s) x a) (cell O (u_cells s) x b)) /\
    (forall i j, i < n -> j < n -> i <> j -> i <> a -> j <> a ->
       nth i (u_merged s') true = false -> nth j (u_merged s') true = false ->
       cell O (u_cells s') i j = cell O (u_cells s) i j).
Proof.
  intros I Hk Hst'.
  destruct (ustep_desc n taxa s I Hk)
    as (a & b & d & n0 & n1 & n2 & t8 & Hmin & Hba & Han & Hma & Hmb & Hd & Fd & Hn0 & Hn1 & Hn2 & Hp1 & Hp2 &
        Hc12 & MF & Hst).
  rewrite Hst in Hst'. injection Hst' as <-.
  destruct (si_slots _ _ _ I _ _ Hn0) as (_ & R2 & _). destruct (R2 eq_refl) as [R3 _].
  pose proof (si_lmerged _ _ _ I) as Lm.
  assert (Hbn : b < n) by lia. assert (Hab : a <> b) by lia.
  assert (Mb : nth b (replace_nth b true (u_merged s)) true = true) by (apply nth_replace_nth_eq; lia).
  assert (Mo : forall x, x <> b -> nth x (replace_nth b true (u_merged s)) true = nth x (u_merged s) true)
    by (intros; apply nth_replace_nth_neq; auto).
  assert (Mu : forall x, nth x (replace_nth b true (u_merged s)) true = false <->
                         x <> b /\ nth x (u_merged s) true = false).
  { intros x. split.
    - intros Hx. destruct (Nat.eq_dec x b) as [->|Hne]; [congruence|]. rewrite Mo in Hx; auto.
    - intros [Hx1 Hx2]. rewrite Mo; auto. }
  destruct (si_cells _ _ _ I) as [Hlen Hc].
  destruct (cells_fold_spec n a b (nth a (u_card s) 0) (nth b (u_card s) 0) _ Han Hbn Hab Mb
              (seq 0 n) (u_cells s) (seq_NoDup n 0)) as (Cl & C1 & C2); auto.
  { intros x Hx. apply in_seq in Hx. lia. }
  exists a, b, d, n0, n1, n2, t8. splits; auto.
  - intros x Hx Hxa Mx. simpl in Mx. simpl. apply C1; auto. apply in_seq. lia.
  - intros i j Hi Hj Hij Hia Hja Mi Mj. simpl in Mi, Mj. simpl. apply C2; auto.
    apply Mu in Mi. apply Mu in Mj. intros x Hx Mx. apply Mu in Mx. unfold peq. lia.
Qed.

(* ---- the star tree built before the loop ---------------------------------------------------------------- *)
Definition star_step (st : arena * list nat) (nm : str) : outcome (arena * list nat) :=
  match add_child (fst st) (new_node (Some nm) None) 0 None with
  | Ok (t', id) => Ok (t', snd st ++ [id])
  | _ => Panic 35
  end.

Definition StarInv (pre : list str) (t : arena) (ids : list nat) : Prop :=
  WFS t /\ length t = S (length pre) /\ ids = seq 1 (length pre) /\
  (exists n0, nth_error t 0 = Some n0 /\ ndeleted n0 = false /\ nparent n0 = None /\ nname n0 = None /\
              nchildren n0 = seq 1 (length pre) /\ npedge n0 = None) /\
  (forall j, 1 <= j <= length pre ->
     exists nd, nth_error t j = Some nd /\ ndeleted nd = false /\ nparent nd = Some 0 /\ nchildren nd = [] /\
                nname nd = Some (nth (j - 1) pre []) /\ npedge nd = None).

Lemma star_fold : forall l pre t ids,
  StarInv pre t ids ->
  exists t' ids', foldM star_step l (t, ids) = Ok (t', ids') /\ StarInv (pre ++ l) t' ids'.
Proof.
  induction l as [|nm l IH]; intros pre t ids HS.
  - exists t, ids. simpl. rewrite app_nil_r. auto.
  - destruct HS as (Hwf & Hlen & Hids & (n0 & Hn0 & Hd0 & Hp0 & Hnm0 & Hch0 & Hpe0) & Hsl).
    assert (Hg0 : get t 0 = Ok n0) by (apply get_Ok; auto).
    simpl. unfold star_step at 1. simpl fst. simpl snd. rewrite (add_child_Ok _ _ _ _ _ _ Hg0). simpl.
    set (X := node_add_child n0 (length t) None).
    set (Y := leaf_node (length t) (Some nm) None 0 None (ndepth n0 + 1)).
    assert (Hlt0 : 0 < length t) by lia.
    destruct (slots_add_leaf t 0 X Y Hlt0) as (HsP & Hsnew & Hsfr & Hslen).
    set (t' := replace_nth 0 X (t ++ [Y])) in *.
    assert (HS' : StarInv (pre ++ [nm]) t' (ids ++ [length t])).
    { unfold StarInv. rewrite app_length. simpl. replace (length pre + 1) with (S (length pre)) by lia.
      splits.
      - apply add_leaf_wf; auto.
      - lia.
      - rewrite seq_S, Hids, Hlen. reflexivity.
      - exists X. destruct (nac_fields n0 (length t) None) as (G1 & G2 & G3 & G4 & G5 & G6).
        fold X in G1, G2, G3, G4, G5, G6. splits; auto; try congruence.
        + rewrite G6, Hch0, seq_S, Hlen. reflexivity.
      - intros j Hj. destruct (Nat.eq_dec j (S (length pre))) as [->|Hne].
        + exists Y. rewrite <- Hlen. splits; auto. unfold Y. simpl. rewrite Hlen. simpl.
          rewrite Nat.sub_0_r. rewrite app_nth2 by lia. rewrite Nat.sub_diag. reflexivity.
        + destruct (Hsl j ltac:(lia)) as (nd & Hnd & Q1 & Q2 & Q3 & Q4 & Q5).
          exists nd. splits; auto.
          * rewrite Hsfr; auto; lia.
          * rewrite app_nth1 by lia. auto. }
    destruct (IH _ _ _ HS') as (t'' & ids'' & Hf & HS'').
    exists t'', ids''. rewrite <- app_assoc in HS''. simpl in HS''. split; auto.
Qed.

Lemma star_init : StarInv [] [set_nid (new_node None None) 0] [].
Proof.
  unfold StarInv. splits; auto.
  - apply (add_root_wf None None).
  - exists (set_nid (new_node None None) 0). simpl. splits; auto.
  - simpl. intros; lia.
Qed.

(* ---- initial state ----------------------------------------------------------------------------------------- *)
Definition st_init (n : nat) (cells : list L) (t1 : arena) : ustate :=
  mkU cells (repeat 1 n) (repeat false n) (repeat (l0 O) n) (seq 1 n) t1 n.

Lemma SInv_init taxa cells t1 :
  let n := length taxa in
  2 <= n -> length cells = n * (n - 1) / 2 -> Forall Fin cells ->
  StarInv taxa t1 (seq 1 n) -> SInv n taxa (st_init n cells t1).
Proof.
  intros n Hn Hlen HFin (Hwf & Hlt & _ & (n0 & Hn0 & Hd0 & Hp0 & Hnm0 & Hch0 & _) & Hsl). fold n in Hlt, Hch0, Hsl.
  assert (Hun : forall i, i < n -> nth i (repeat false n) true = false) by (intros; apply nth_repeat_lt; auto).
  constructor; simpl; auto.
  - lia.
  - apply repeat_length.
  - apply repeat_length.
  - apply repeat_length.
  - apply seq_length.
  - rewrite filter_id; [apply seq_length|]. intros x Hx. apply in_seq in Hx. unfold unmb. rewrite Hun by lia. auto.
  - intros j nd Hnd. assert (j < S n) by (rewrite <- Hlt; eapply nth_error_Some_lt; eauto).
    destruct (Nat.eq_dec j 0) as [->|Hj0].
    + assert (nd = n0) by congruence. subst nd. unfold SlotOK. splits; auto; try lia. intros; congruence.
    + destruct (Hsl j ltac:(lia)) as (nd' & Hnd' & Q1 & Q2 & Q3 & Q4 & Q5).
      assert (nd' = nd) by congruence. subst nd'. unfold SlotOK. splits; auto; try lia. intros; congruence.
  - exists n0. split; auto. intros c. rewrite Hch0, in_seq. split.
    + intros Hc. exists (c - 1). splits; try lia. { apply Hun. lia. } rewrite seq_nth by lia. lia.
    + intros (u & Hu & _ & Hc). rewrite seq_nth in Hc by lia. lia.
  - intros u v Hu Hv _ _. rewrite !seq_nth by lia. lia.
  - intros u Hu _. rewrite seq_nth by lia. destruct (Hsl (1 + u) ltac:(lia)) as (nd & Hnd & Q1 & Q2 & _).
    exists nd. auto.
  - intros u Hu _. rewrite nth_repeat_lt by auto. lia.
  - split; auto. intros i j Hi Hj Hij. split.
    + intros _ _. rewrite Forall_forall in HFin. apply HFin. unfold cell. apply nth_In.
      rewrite Hlen. apply tril_lt_any; auto.
    + rewrite !Hun by auto. intros [?|?]; discriminate.
Qed.

(* ---- the last step: lengths of the two root edges ------------------------------------------------------------- *)
Definition FinalRel (s : ustate) (ai bi : nat) (t5 : arena) : Prop :=
  let t := u_t s in
  let a := nth ai (u_ids s) 0 in
  let b := nth bi (u_ids s) 0 in
  let th := ldiv O (cell O (u_cells s) ai bi) two in
  WFS t5 /\ length t5 = length t /\ a <> 0 /\ b <> 0 /\ a <> b /\
  (forall j, j <> 0 -> j <> a -> j <> b -> nth_error t5 j = nth_error t j) /\
  (exists n0 n0', nth_error t 0 = Some n0 /\ nth_error t5 0 = Some n0' /\ feq n0 n0' /\
                  (nchildren n0 = [a; b] \/ nchildren n0 = [b; a])) /\
  (exists na, nth_error t a = Some na /\ nparent na = Some 0 /\
              nth_error t5 a = Some (set_npedge na (Some (lsub O th (nth ai (u_heights s) (l0 O)))))) /\
  (exists nb, nth_error t b = Some nb /\ nparent nb = Some 0 /\
              nth_error t5 b = Some (set_npedge nb (Some (lsub O th (nth bi (u_heights s) (l0 O)))))).

Lemma final_step n taxa s :
  SInv n taxa s -> u_k s = 2 ->
  exists ai bi t5,
    filter (unmb (u_merged s)) (seq 0 n) = [ai; bi] /\ ai < n /\ bi < n /\ ai <> bi /\
    nth ai (u_merged s) true = false /\ nth bi (u_merged s) true = false /\
    (forall u, u < n -> nth u (u_merged s) true = false -> u = ai \/ u = bi) /\
    (let a := nth ai (u_ids s) 0 in
     let b := nth bi (u_ids s) 0 in
     let th := ldiv O (cell O (u_cells s) ai bi) two in
     let d_ar := lsub O th (nth ai (u_heights s) (l0 O)) in
     let d_br := lsub O th (nth bi (u_heights s) (l0 O)) in
     (t3 <- upd (u_t s) 0 (fun x => node_set_child_edge (node_set_child_edge x a (Some d_ar)) b (Some d_br)) ;;
      t4 <- upd t3 a (fun x => set_npedge x (Some d_ar)) ;;
      upd t4 b (fun x => set_npedge x (Some d_br))) = Ok t5) /\
    FinalRel s ai bi t5.
Proof.
  intros I Hk2.
  pose proof (si_count _ _ _ I) as Hcnt. rewrite Hk2 in Hcnt.
  pose proof (NoDup_filter (unmb (u_merged s)) (seq_NoDup n 0)) as Hnd.
  destruct (filter (unmb (u_merged s)) (seq 0 n)) as [|ai [|bi [|? ?]]] eqn:Ef; simpl in Hcnt; try lia.
  assert (Hin : forall u, In u [ai; bi] <-> u < n /\ nth u (u_merged s) true = false).
  { intros u. rewrite <- Ef, filter_In, in_seq. unfold unmb. rewrite negb_true_iff. intuition lia. }
  destruct (proj1 (Hin ai) ltac:(simpl; auto)) as [Hai Mai].
  destruct (proj1 (Hin bi) ltac:(simpl; auto)) as [Hbi Mbi].
  assert (Hab : ai <> bi). { inversion Hnd; subst. simpl in *. intuition. }
  assert (Honly : forall u, u < n -> nth u (u_merged s) true = false -> u = ai \/ u = bi).
  { intros u Hu Mu. destruct (proj2 (Hin u) (conj Hu Mu)) as [?|[?|[]]]; auto. }
  set (t := u_t s) in *. set (a := nth ai (u_ids s) 0). set (b := nth bi (u_ids s) 0).
  destruct (si_root _ _ _ I) as (n0 & Hn0 & Hch0). fold t in Hn0.
  destruct (si_par _ _ _ I ai Hai Mai) as (na & Hna & Hpa). fold t a in Hna.
  destruct (si_par _ _ _ I bi Hbi Mbi) as (nb & Hnb & Hpb). fold t b in Hnb.
  destruct (si_slots _ _ _ I _ _ Hn0) as (D0 & R2 & _). destruct (R2 eq_refl) as [R3 R4].
  destruct (si_slots _ _ _ I _ _ Hna) as (Da & _). destruct (si_slots _ _ _ I _ _ Hnb) as (Db & _).
  assert (Ha0 : a <> 0) by (intros E; rewrite E in Hna; congruence).
  assert (Hb0 : b <> 0) by (intros E; rewrite E in Hnb; congruence).
  assert (Hanb : a <> b) by (intros E; apply Hab; apply (si_inj _ _ _ I); auto).
  pose proof (si_wfs _ _ _ I) as Hwfs. fold t in Hwfs. pose proof Hwfs as [Hwf Hse].
  destruct (WF_node_facts t 0 n0 Hwf Hn0 D0) as (Hndch & _ & He2 & _).
  assert (Hchab : forall c, In c (nchildren n0) <-> c = a \/ c = b).
  { intros c. rewrite Hch0. split.
    - intros (u & Hu & Mu & <-). destruct (Honly u Hu Mu) as [->| ->]; auto.
    - intros [->| ->]; [exists ai|exists bi]; auto. }
  pose proof (NoDup_two_cases _ a b Hndch Hanb Hchab) as Hch2.
  set (th := ldiv O (cell O (u_cells s) ai bi) two).
  set (d_ar := lsub O th (nth ai (u_heights s) (l0 O))).
  set (d_br := lsub O th (nth bi (u_heights s) (l0 O))).
  set (n0' := node_set_child_edge (node_set_child_edge n0 a (Some d_ar)) b (Some d_br)).
  set (t3 := replace_nth 0 n0' t).
  set (t4 := replace_nth a (set_npedge na (Some d_ar)) t3).
  set (t5 := replace_nth b (set_npedge nb (Some d_br)) t4).
  assert (Hlt0 : 0 < length t) by (eapply nth_error_Some_lt; eauto).
  assert (Hlta : a < length t) by (eapply nth_error_Some_lt; eauto).
  assert (Hltb : b < length t) by (eapply nth_error_Some_lt; eauto).
  assert (S0 : nth_error t5 0 = Some n0') by (unfold t5, t4, t3; slot; auto).
  assert (Sa : nth_error t5 a = Some (set_npedge na (Some d_ar))) by (unfold t5, t4, t3; slot; auto).
  assert (Sb : nth_error t5 b = Some (set_npedge nb (Some d_br))) by (unfold t5, t4, t3; slot; auto).
  assert (So : forall j, j <> 0 -> j <> a -> j <> b -> nth_error t5 j = nth_error t j)
    by (intros; unfold t5, t4, t3; slot; auto).
  exists ai, bi, t5. splits; auto.
  - cbv zeta. fold t a b th d_ar d_br.
    rewrite (upd_Ok t 0 _ n0) by (apply get_Ok; auto). rewrite bind_ret. fold n0' t3.
    rewrite (upd_Ok t3 a _ na) by (apply get_Ok; split; auto; unfold t3; slot; auto). rewrite bind_ret. fold t4.
    rewrite (upd_Ok t4 b _ nb) by (apply get_Ok; split; auto; unfold t4, t3; slot; auto). reflexivity.
  - unfold FinalRel. cbv zeta. fold t a b th d_ar d_br. splits; auto.
    + apply (relabel_root_wf t t5 n0 n0'); auto.
      * unfold n0'. simpl. apply ksorted_insert, ksorted_insert. eauto.
      * intros c Hc. apply Hchab in Hc as [->| ->].
        -- exists na, (Some d_ar). splits; auto. unfold n0'. simpl.
           rewrite edge_get_insert_neq by auto. apply edge_get_insert_eq.
        -- exists nb, (Some d_br). splits; auto. unfold n0'. simpl. apply edge_get_insert_eq.
      * intros c Hc. destruct (Nat.eq_dec c a) as [->|Hca]; [apply Hchab; auto|].
        destruct (Nat.eq_dec c b) as [->|Hcb]; [apply Hchab; auto|].
        apply He2. unfold n0' in Hc. simpl in Hc. rewrite !edge_get_insert_neq in Hc by auto. auto.
      * intros j Hj0 Hjc. apply So; auto; intros ->; apply Hjc; apply Hchab; auto.
    + unfold t5, t4, t3. rewrite !replace_nth_length. auto.
    + exists n0, n0'. splits; auto. unfold feq, n0'. simpl. auto 10.
    + exists na. auto.
    + exists nb. auto.
Qed.

(* ---- the whole run ------------------------------------------------------------------------------------------ *)
Lemma upgma_run (m : dmat) (J : ustate -> Prop) :
  let n := msize m in
  length (mtaxa m) = n -> 2 <= n -> length (mcells m) = n * (n - 1) / 2 -> Forall Fin (mcells m) ->
  (forall t1, StarInv (mtaxa m) t1 (seq 1 n) -> J (st_init n (mcells m) t1)) ->
  (forall s s', SInv n (mtaxa m) s -> J s -> 2 < u_k s -> ustep n s = Ok s' -> J s') ->
  exists s ai bi t5,
    SInv n (mtaxa m) s /\ J s /\ u_k s = 2 /\
    filter (unmb (u_merged s)) (seq 0 n) = [ai; bi] /\ ai < n /\ bi < n /\ ai <> bi /\
    nth ai (u_merged s) true = false /\ nth bi (u_merged s) true = false /\
    (forall u, u < n -> nth u (u_merged s) true = false -> u = ai \/ u = bi) /\
    FinalRel s ai bi t5 /\ upgma O m = Ok t5.
Proof.
  intros n Htax Hn Hlen HFin HJ0 HJstep.
  destruct (star_fold (mtaxa m) [] _ [] star_init) as (t1 & ids1 & Hf & HS). simpl app in HS.
  assert (Hids1 : ids1 = seq 1 n) by (destruct HS as (_ & _ & -> & _); rewrite Htax; reflexivity). subst ids1.
  assert (I0 : SInv n (mtaxa m) (st_init n (mcells m) t1)).
  { pose proof (SInv_init (mtaxa m) (mcells m) t1) as I0. cbv zeta in I0. rewrite Htax in I0. apply I0; auto. }
  assert (J0 : J (st_init n (mcells m) t1)) by (apply HJ0; auto).
  destruct (uloop_run (fun s => SInv n (mtaxa m) s /\ J s) n) with (f := S n) (s := st_init n (mcells m) t1)
    as (s & Hrun & [Is Js] & Hks); auto.
  { intros s0 [I1 J1] Hk. destruct (SInv_step n (mtaxa m) s0 I1 Hk) as (s1 & Hst & I2 & Hk1).
    exists s1. splits; auto. apply (HJstep s0 s1); auto. }
  { simpl. lia. }
  simpl u_k in Hks. rewrite Nat.min_r in Hks by lia.
  destruct (final_step n (mtaxa m) s Is Hks)
    as (ai & bi & t5 & Hfil & Hai & Hbi & Hab & Mai & Mbi & Honly & Hupd & HFR).
  exists s, ai, bi, t5. splits; auto.
  unfold upgma. fold n. cbn [add app length].
  unfold star_step in Hf.
  rewrite Hf. cbn [bind].
  change (upgma_loop O (S n) n (mcells m) (repeat 1 n) (repeat false n) (repeat (l0 O) n) (seq 1 n) t1 n)
    with (uloop (S n) n (st_init n (mcells m) t1)).
  rewrite Hrun. unfold uout. cbn [bind].
  change (filter (fun i => negb (nth i (u_merged s) true)) (seq 0 n)) with (filter (unmb (u_merged s)) (seq 0 n)).
  rewrite Hfil.
  replace (Nat.eqb ai bi) with false by (symmetry; apply Nat.eqb_neq; auto).
  replace (Nat.leb n ai) with false by (symmetry; apply Nat.leb_gt; auto).
  replace (Nat.leb n bi) with false by (symmetry; apply Nat.leb_gt; auto).
  cbn [orb]. cbv zeta in Hupd. cbv zeta. unfold two in Hupd. rewrite Hupd. reflexivity.
Qed.

(* ---- Part I, headline statements ------------------------------------------------------------------------------ *)
(* shape of the result: 2n-1 live slots, slot 0 the root with two children, slots 1..n the taxa (leaves, named
   in input order), slots n+1.. unnamed with two children, every non-root slot has a parent and a length *)
Definition UShape (n : nat) (taxa : list str) (t : arena) : Prop :=
  WFS t /\ length t = 2 * n - 1 /\
  (forall j nd, nth_error t j = Some nd -> SlotOK n taxa j nd /\ nid nd = j) /\
  (exists n0 c1 c2, nth_error t 0 = Some n0 /\ nchildren n0 = [c1; c2] /\ nparent n0 = None /\ c1 <> c2) /\
  (forall j nd, nth_error t j = Some nd -> j <> 0 -> nparent nd <> None /\ npedge nd <> None).

Lemma SlotOK_set_npedge n taxa j nd e : SlotOK n taxa j nd -> SlotOK n taxa j (set_npedge nd (Some e)).
Proof. intros (S1 & S2 & S3 & S4 & S5). unfold SlotOK. simpl. splits; auto. intros; discriminate. Qed.

Lemma final_shape n taxa s ai bi t5 :
  SInv n taxa s -> u_k s = 2 ->
  (forall u, u < n -> nth u (u_merged s) true = false -> u = ai \/ u = bi) ->
  FinalRel s ai bi t5 -> UShape n taxa t5.
Proof.
  intros I Hk Honly FR. unfold FinalRel in FR. cbv zeta in FR.
  set (t := u_t s) in *. set (a := nth ai (u_ids s) 0) in *. set (b := nth bi (u_ids s) 0) in *.
  destruct FR as (Hwf5 & Hlen5 & Ha0 & Hb0 & Hab & Hfr & (n0 & n0' & Hn0 & Hn0' & Fe0 & Hch) &
                  (na & Hna & Hpa & Hna5) & (nb & Hnb & Hpb & Hnb5)).
  pose proof (si_len _ _ _ I) as Klen. fold t in Klen.
  pose proof (si_wfs _ _ _ I) as Hwfs. fold t in Hwfs.
  assert (Hslot : forall j nd, nth_error t5 j = Some nd -> SlotOK n taxa j nd).
  { intros j nd Hnd.
    destruct (Nat.eq_dec j 0) as [->|Hj0].
    { assert (nd = n0') by congruence. subst nd. eapply SlotOK_feq; eauto. apply (si_slots _ _ _ I); auto. }
    destruct (Nat.eq_dec j a) as [->|Hja].
    { rewrite Hna5 in Hnd. injection Hnd as <-. apply SlotOK_set_npedge. apply (si_slots _ _ _ I); auto. }
    destruct (Nat.eq_dec j b) as [->|Hjb].
    { rewrite Hnb5 in Hnd. injection Hnd as <-. apply SlotOK_set_npedge. apply (si_slots _ _ _ I); auto. }
    rewrite Hfr in Hnd by auto. apply (si_slots _ _ _ I); auto. }
  destruct (si_slots _ _ _ I _ _ Hn0) as (D0 & R2 & _). destruct (R2 eq_refl) as [R3 R4].
  destruct Fe0 as (Q1 & Q2 & Q3 & Q4 & Q5 & Q6).
  unfold UShape. splits; auto.
  - lia.
  - intros j nd Hnd. split; auto. destruct Hwf5 as [Hwf5 _].
    destruct (Hslot j nd Hnd) as (D & _).
    destruct (WF_node_facts t5 j nd Hwf5 Hnd D) as (_ & _ & _ & Hid). auto.
  - destruct Hch as [Hch|Hch]; [exists n0', a, b|exists n0', b, a]; splits; auto; congruence.
  - intros j nd Hnd Hj0. destruct (Hslot j nd Hnd) as (D & S2 & S3 & S4 & S5).
    assert (Hpar : nparent nd <> None).
    { intros Hp. apply Hj0. destruct Hwf5 as [Hwf5 _].
      apply (WF_root_of t5 j nd 0 n0' Hwf5); auto; try (apply get_Ok; split; auto; congruence). congruence. }
    split; auto.
    destruct (Nat.eq_dec j a) as [->|Hja].
    { rewrite Hna5 in Hnd. injection Hnd as <-. simpl. discriminate. }
    destruct (Nat.eq_dec j b) as [->|Hjb].
    { rewrite Hnb5 in Hnd. injection Hnd as <-. simpl. discriminate. }
    destruct (nparent nd) as [p|] eqn:Hp; [|congruence].
    destruct (Nat.eq_dec p 0) as [->|Hp0]; [|eapply S5; eauto].
    exfalso. rewrite Hfr in Hnd by auto. destruct Hwfs as [Hwf _].
    destruct (WF_parent_of t j nd 0 Hwf) as (nP & HgP & Hin); auto; try (apply get_Ok; auto).
    apply get_Ok in HgP as [HnP _]. assert (nP = n0) by congruence. subst nP.
    destruct Hch as [Hch|Hch]; rewrite Hch in Hin; simpl in Hin; intuition.
Qed.

Theorem upgma_ok_shape (m : dmat) :
  length (mtaxa m) = msize m -> 2 <= msize m -> length (mcells m) = msize m * (msize m - 1) / 2 ->
  Forall Fin (mcells m) ->
  exists t, upgma O m = Ok t /\ UShape (msize m) (mtaxa m) t.
Proof.
  intros Htax Hn Hlen HFin.
  destruct (upgma_run m (fun _ => True) Htax Hn Hlen HFin) as
    (s & ai & bi & t5 & Is & _ & Hk & _ & _ & _ & _ & _ & _ & Honly & FR & Hrun); auto.
  exists t5. split; auto. eapply final_shape; eauto.
Qed.


End Sep.
End Loop.

(* ================================================================================================== *)
(* Part I': no hypothesis on the comparison at all: the result is the tree described above, or the     *)
(* unwrap of merge_children fires (Panic 34) because the minimal cell was a retired one                *)
(* ================================================================================================== *)
Section General.
Context {L : Type}.
Variable O : LenOps L.
Notation arena := (@arena L).
Notation node := (@node L).
Notation ustate := (@ustate L).
Notation dmat := (@dmat L).
Let FinT : L -> Prop := fun _ => True.

Lemma pick_in {K} (lt : L -> L -> bool) (l : list (K * L)) e :
  fold_left (pick lt) l None = Some e -> In e l.
Proof.
  revert e. induction l as [|x l IH] using rev_ind; intros e; [discriminate|].
  rewrite fold_left_app. simpl. destruct (fold_left (pick lt) l None) as [[ek ev]|]; simpl.
  - destruct (lt (snd x) ev); intros [= <-]; apply in_or_app; simpl; auto.
  - intros [= <-]. apply in_or_app; simpl; auto.
Qed.

(* retired clusters: their nodes hang under pairwise distinct internal nodes *)
Definition RInv (n : nat) (s : ustate) : Prop :=
  (forall u, u < n -> nth u (u_merged s) true = true ->
     exists nd p, nth_error (u_t s) (nth u (u_ids s) 0) = Some nd /\ ndeleted nd = false /\
                  nparent nd = Some p /\ p <> 0 /\ p < length (u_t s)) /\
  (forall u v nd nd', u < n -> v < n -> u <> v ->
     nth u (u_merged s) true = true -> nth v (u_merged s) true = true ->
     nth_error (u_t s) (nth u (u_ids s) 0) = Some nd -> nth_error (u_t s) (nth v (u_ids s) 0) = Some nd' ->
     nparent nd <> nparent nd').

Lemma gstep n taxa s :
  SInv O FinT n taxa s -> RInv n s -> 2 < u_k s ->
  (exists s', ustep O n s = Ok s' /\ SInv O FinT n taxa s' /\ RInv n s' /\ u_k s' = u_k s - 1) \/
  ustep O n s = Panic 34.
Proof.
  intros I [R1 R2] Hk.
  pose proof (si_k _ _ _ _ _ I) as Kb. destruct (si_cells _ _ _ _ _ I) as [Hlen _].
  pose proof (si_lmerged _ _ _ _ _ I) as Lm. pose proof (si_lids _ _ _ _ _ I) as Lids.
  destruct (dm_min O (mkDmat n [] (u_cells s))) as [[[a b] d]|] eqn:Hmin.
  2:{ exfalso. apply min_none in Hmin. simpl in Hmin. rewrite Hmin in Hlen. cbn [length] in Hlen.
      pose proof (tril_lt n 1 0 ltac:(lia) ltac:(lia)). lia. }
  assert (Hin : In (a, b, d) (dm_indexed (mkDmat n [] (u_cells s)))).
  { rewrite dm_min_pick in Hmin. apply pick_in in Hmin. exact Hmin. }
  destruct (indexed_in_range (mkDmat n [] (u_cells s)) a b d Hlen Hin) as [Hba Han]. simpl in Han.
  assert (Hbn : b < n) by lia. assert (Hab : a <> b) by lia.
  set (t := u_t s) in *. set (c1 := nth a (u_ids s) 0). set (c2 := nth b (u_ids s) 0).
  destruct (si_root _ _ _ _ _ I) as (n0 & Hn0 & _). fold t in Hn0.
  destruct (si_slots _ _ _ _ _ I _ _ Hn0) as (D0 & S2 & _). destruct (S2 eq_refl) as [P0 _].
  (* a retired cluster among the two: the nodes are not siblings *)
  assert (Hnodes : nth a (u_merged s) true = true \/ nth b (u_merged s) true = true ->
            exists na nb pa pb, nth_error t c1 = Some na /\ ndeleted na = false /\ nparent na = Some pa /\
                                nth_error t c2 = Some nb /\ ndeleted nb = false /\ nparent nb = Some pb /\ pa <> pb).
  { intros Hor.
    destruct (nth a (u_merged s) true) eqn:Hma; destruct (nth b (u_merged s) true) eqn:Hmb.
    - destruct (R1 a Han Hma) as (na & pa & Hna & Da & Hpa & Hpa0 & _). fold t c1 in Hna.
      destruct (R1 b Hbn Hmb) as (nb & pb & Hnb & Db & Hpb & Hpb0 & _). fold t c2 in Hnb.
      exists na, nb, pa, pb. splits; auto. intros ->.
      apply (R2 a b na nb Han Hbn Hab Hma Hmb Hna Hnb). congruence.
    - destruct (R1 a Han Hma) as (na & pa & Hna & Da & Hpa & Hpa0 & _). fold t c1 in Hna.
      destruct (si_par _ _ _ _ _ I b Hbn Hmb) as (nb & Hnb & Hpb). fold t c2 in Hnb.
      destruct (si_slots _ _ _ _ _ I _ _ Hnb) as (Db & _).
      exists na, nb, pa, 0. splits; auto.
    - destruct (R1 b Hbn Hmb) as (nb & pb & Hnb & Db & Hpb & Hpb0 & _). fold t c2 in Hnb.
      destruct (si_par _ _ _ _ _ I a Han Hma) as (na & Hna & Hpa). fold t c1 in Hna.
      destruct (si_slots _ _ _ _ _ I _ _ Hna) as (Da & _).
      exists na, nb, 0, pb. splits; auto.
    - destruct Hor; discriminate. }
  destruct (nth a (u_merged s) true) eqn:Hma; [|destruct (nth b (u_merged s) true) eqn:Hmb].
  3:{ (* both live: the regular step *)
    left.
    destruct (SInv_step_pick O FinT n taxa s a b d (fun _ _ _ _ _ _ _ _ => Logic.I) I Hk Hmin Hba Han Hma Hmb)
      as (t8 & Hst & I' & MF).
    exists (st_next O n s a b d t8). splits; auto.
    destruct (si_par _ _ _ _ _ I a Han Hma) as (n1 & Hn1 & Hp1). fold t c1 in Hn1.
    destruct (si_par _ _ _ _ _ I b Hbn Hmb) as (n2 & Hn2 & Hp2). fold t c2 in Hn2.
    destruct MF as (Hwf8 & Hlen8 & Hc10 & Hc20 & Hfr & _ & _ & (m2 & Hm2 & _ & _ & B3 & _ & _ & B6) & _).
    fold t c1 c2 in Hlen8, Hc10, Hc20, Hfr, Hm2, B3.
    assert (Hlt0 : 0 < length t) by (eapply nth_error_Some_lt; eauto).
    assert (Mo : forall x, x <> b -> nth x (replace_nth b true (u_merged s)) true = nth x (u_merged s) true)
      by (intros; apply nth_replace_nth_neq; auto).
    assert (Io : forall x, x <> a -> nth x (replace_nth a (length t) (u_ids s)) 0 = nth x (u_ids s) 0)
      by (intros; apply nth_replace_nth_neq; auto).
    (* old retired clusters keep their node and its parent *)
    assert (Hold : forall v, v < n -> v <> b -> nth v (u_merged s) true = true ->
              exists p, p <> 0 /\ p < length t /\
                forall nd', nth_error t8 (nth v (replace_nth a (length t) (u_ids s)) 0) = Some nd' ->
                            nparent nd' = Some p /\ ndeleted nd' = false /\
                            exists nd0, nth_error t (nth v (u_ids s) 0) = Some nd0 /\ nparent nd0 = Some p).
    { intros v Hv Hvb Mv. destruct (R1 v Hv Mv) as (nd0 & p & Hnd0 & Dd0 & Hp & Hp0 & Hpl). fold t in Hnd0, Hpl.
      assert (v <> a) by (intros ->; congruence). rewrite Io by auto.
      exists p. splits; auto. intros nd' Hnd'.
      assert (N0 : nth v (u_ids s) 0 <> 0) by (intros E; rewrite E in Hnd0; congruence).
      assert (N1 : nth v (u_ids s) 0 <> c1) by (intros E; rewrite E in Hnd0; congruence).
      assert (N2 : nth v (u_ids s) 0 <> c2) by (intros E; rewrite E in Hnd0; congruence).
      destruct (Hfr _ nd0 N0 N1 N2 Hnd0) as (n' & Hn' & _ & _ & Q3 & _ & _ & Q6).
      assert (n' = nd') by congruence. subst n'. splits; try congruence. eauto. }
    split; cbn [st_next u_t u_ids u_merged]; fold t.
    - intros v Hv Mv. destruct (Nat.eq_dec v b) as [->|Hvb].
      + rewrite Io by auto. fold c2. exists m2, (length t). splits; auto; lia.
      + rewrite Mo in Mv by auto. destruct (Hold v Hv Hvb Mv) as (p & Hp0 & Hpl & Hf).
        assert (Hlt : nth v (replace_nth a (length t) (u_ids s)) 0 < length t8).
        { assert (v <> a) by (intros ->; congruence). rewrite Io by auto.
          destruct (R1 v Hv Mv) as (nd0 & ? & Hnd0 & _). apply nth_error_Some_lt in Hnd0. fold t in Hnd0. lia. }
        destruct (nth_error t8 (nth v (replace_nth a (length t) (u_ids s)) 0)) as [nd'|] eqn:E;
          [|apply nth_error_None in E; lia].
        destruct (Hf nd' eq_refl) as (Q1 & Q2 & _). exists nd', p. splits; auto. lia.
    - intros u v nd nd' Hu Hv Huv Mu Mv Hnd Hnd'.
      destruct (Nat.eq_dec u b) as [->|Hub]; [|destruct (Nat.eq_dec v b) as [->|Hvb]].
      + rewrite Io in Hnd by auto. fold c2 in Hnd. assert (nd = m2) by congruence. subst nd.
        rewrite Mo in Mv by auto. destruct (Hold v Hv ltac:(auto) Mv) as (p & Hp0 & Hpl & Hf).
        destruct (Hf nd' Hnd') as (Q1 & _). rewrite B3, Q1. intros [= E]. lia.
      + rewrite Io in Hnd' by auto. fold c2 in Hnd'. assert (nd' = m2) by congruence. subst nd'.
        rewrite Mo in Mu by auto. destruct (Hold u Hu Hub Mu) as (p & Hp0 & Hpl & Hf).
        destruct (Hf nd Hnd) as (Q1 & _). rewrite B3, Q1. intros [= E]. lia.
      + rewrite Mo in Mu, Mv by auto.
        destruct (Hold u Hu Hub Mu) as (p & _ & _ & Hf). destruct (Hf nd Hnd) as (Q1 & _ & nd0 & Hnd0 & Hq0).
        destruct (Hold v Hv Hvb Mv) as (q & _ & _ & Hg). destruct (Hg nd' Hnd') as (Q1' & _ & nd0' & Hnd0' & Hq0').
        rewrite Q1, Q1'. rewrite <- Hq0, <- Hq0'. apply (R2 u v); auto.
  }
  all: right.
  all: destruct Hnodes as (na & nb & pa & pb & Hna & Da & Hpa & Hnb & Db & Hpb & Hne); auto.
  all: unfold ustep; rewrite Hmin; cbv zeta; fold t c1 c2.
  all: unfold merge_children.
  all: rewrite (proj2 (get_Ok t c1 na) (conj Hna Da)), (proj2 (get_Ok t c2 nb) (conj Hnb Db)).
  all: rewrite Hpa, Hpb; simpl onat_eqb.
  all: replace (Nat.eqb pa pb) with false by (symmetry; apply Nat.eqb_neq; auto).
  all: reflexivity.
Qed.

Lemma uloop_run_p (Inv : ustate -> Prop) n :
  (forall s, Inv s -> 2 < u_k s ->
     (exists s', ustep O n s = Ok s' /\ Inv s' /\ u_k s' = u_k s - 1) \/ ustep O n s = Panic 34) ->
  forall f s, Inv s -> u_k s <= f + 2 ->
    (exists s', uloop O f n s = Ok (uout s') /\ Inv s' /\ u_k s' = Nat.min (u_k s) 2) \/
    uloop O f n s = Panic 34.
Proof.
  intros Hstep. induction f as [|f IH]; intros s Hs Hk.
  - left. rewrite uloop_0. destruct (Nat.leb (u_k s) 2) eqn:E; [|apply Nat.leb_gt in E; lia].
    apply Nat.leb_le in E. exists s. splits; auto. lia.
  - rewrite uloop_S. destruct (Nat.leb (u_k s) 2) eqn:E.
    + left. apply Nat.leb_le in E. exists s. splits; auto. lia.
    + apply Nat.leb_gt in E. destruct (Hstep s Hs E) as [(s1 & Hst & Hs1 & Hk1)|Hp].
      * rewrite Hst. simpl. destruct (IH s1 Hs1 ltac:(lia)) as [(s' & Hr & Hs' & Hk')|Hp]; [left|right; auto].
        exists s'. splits; auto. lia.
      * right. rewrite Hp. reflexivity.
Qed.

(* for EVERY LenOps: a well-sized input either yields the tree of [UShape], or hits the unwrap at site 34 *)
Theorem upgma_total (m : dmat) :
  length (mtaxa m) = msize m -> 2 <= msize m -> length (mcells m) = msize m * (msize m - 1) / 2 ->
  (exists t, upgma O m = Ok t /\ UShape (msize m) (mtaxa m) t) \/ upgma O m = Panic 34.
Proof.
  intros Htax Hn Hlen. set (n := msize m) in *.
  destruct (@star_fold L (mtaxa m) [] _ [] star_init) as (t1 & ids1 & Hf & HS). simpl app in HS.
  assert (Hids1 : ids1 = seq 1 n) by (destruct HS as (_ & _ & -> & _); rewrite Htax; reflexivity). subst ids1.
  assert (I0 : SInv O FinT n (mtaxa m) (st_init O n (mcells m) t1)).
  { pose proof (SInv_init O FinT (mtaxa m) (mcells m) t1) as I0. cbv zeta in I0. rewrite Htax in I0.
    apply I0; auto. apply Forall_forall. intros; exact Logic.I. }
  assert (R0 : RInv n (st_init O n (mcells m) t1)).
  { split; cbn [st_init u_merged].
    - intros u Hu Mu. rewrite nth_repeat_lt in Mu by auto. discriminate.
    - intros u v nd nd' Hu Hv _ Mu. rewrite nth_repeat_lt in Mu by auto. discriminate. }
  unfold star_step in Hf.
  destruct (uloop_run_p (fun s => SInv O FinT n (mtaxa m) s /\ RInv n s) n) with (f := S n)
    (s := st_init O n (mcells m) t1) as [(s & Hrun & [Is Rs] & Hks)|Hp]; auto.
  { intros s0 [I1 R1] Hk. destruct (gstep n (mtaxa m) s0 I1 R1 Hk) as [(s1 & Hst & I2 & R2 & Hk1)|Hp]; auto.
    left. exists s1. splits; auto. }
  { simpl. lia. }
  - left. simpl u_k in Hks. rewrite Nat.min_r in Hks by lia.
    destruct (final_step O FinT n (mtaxa m) s Is Hks)
      as (ai & bi & t5 & Hfil & Hai & Hbi & Hab & Mai & Mbi & Honly & Hupd & HFR).
    exists t5. split; [|eapply final_shape; eauto].
    unfold upgma. fold n. cbn [add app length]. rewrite Hf. cbn [bind].
    change (upgma_loop O (S n) n (mcells m) (repeat 1 n) (repeat false n) (repeat (l0 O) n) (seq 1 n) t1 n)
      with (uloop O (S n) n (st_init O n (mcells m) t1)).
    rewrite Hrun. unfold uout. cbn [bind].
    change (filter (fun i => negb (nth i (u_merged s) true)) (seq 0 n)) with (filter (unmb (u_merged s)) (seq 0 n)).
    rewrite Hfil.
    replace (Nat.eqb ai bi) with false by (symmetry; apply Nat.eqb_neq; auto).
    replace (Nat.leb n ai) with false by (symmetry; apply Nat.leb_gt; auto).
    replace (Nat.leb n bi) with false by (symmetry; apply Nat.leb_gt; auto).
    cbn [orb]. cbv zeta in Hupd. cbv zeta. unfold two in Hupd. rewrite Hupd. reflexivity.
  - right. unfold upgma. fold n. cbn [add app length]. rewrite Hf. cbn [bind].
    change (upgma_loop O (S n) n (mcells m) (repeat 1 n) (repeat false n) (repeat (l0 O) n) (seq 1 n) t1 n)
      with (uloop O (S n) n (st_init O n (mcells m) t1)).
    rewrite Hp. reflexivity.
Qed.

End General.

(* ================================================================================================== *)
(* Part I, theorems (any LenOps; the comparison only has to keep live values below the marker)        *)
(* ================================================================================================== *)
Section Headlines.
Context {L : Type}.
Variable O : LenOps L.
Variable Fin : L -> Prop.
Hypothesis HSep : Separated O Fin.
Notation arena := (@arena L).
Notation dmat := (@dmat L).

(* a well-formed input: n >= 2 named taxa, a full triangular cell vector, all cells "finite" *)
Definition upgma_pre (m : dmat) : Prop :=
  length (mtaxa m) = msize m /\ 2 <= msize m /\ length (mcells m) = msize m * (msize m - 1) / 2 /\
  Forall Fin (mcells m).

Theorem upgma_ok (m : dmat) : upgma_pre m -> exists t, upgma O m = Ok t.
Proof.
  intros (H1 & H2 & H3 & H4). destruct (upgma_ok_shape O Fin HSep m H1 H2 H3 H4) as (t & Ht & _). eauto.
Qed.

Theorem upgma_no_panic (m : dmat) :
  upgma_pre m -> (forall k, upgma O m <> Panic k) /\ (forall e, upgma O m <> Err e) /\ upgma O m <> OutOfFuel.
Proof. intros H. destruct (upgma_ok m H) as (t & ->). splits; intros; discriminate. Qed.

Theorem upgma_shape (m : dmat) t :
  upgma_pre m -> upgma O m = Ok t -> UShape (msize m) (mtaxa m) t.
Proof.
  intros (H1 & H2 & H3 & H4) Ht. destruct (upgma_ok_shape O Fin HSep m H1 H2 H3 H4) as (t' & Ht' & Hs).
  congruence.
Qed.

Theorem upgma_lengths_present (m : dmat) t :
  upgma_pre m -> upgma O m = Ok t ->
  forall j nd, nth_error t j = Some nd -> j <> 0 -> npedge nd <> None.
Proof.
  intros Hpre Ht j nd Hnd Hj. destruct (upgma_shape m t Hpre Ht) as (_ & _ & _ & _ & H). eapply H; eauto.
Qed.

(* fewer than two taxa: the code reports IndexError (whatever the names / cells are) *)
Theorem upgma_small (m : dmat) : msize m < 2 -> upgma O m = Err IndexError.
Proof.
  intros Hn. destruct (@star_fold L (mtaxa m) [] _ [] star_init) as (t1 & ids1 & Hf & _).
  unfold star_step in Hf. unfold upgma. cbn [add app length]. rewrite Hf. cbn [bind].
  destruct (msize m) as [|[|k]]; [reflexivity|reflexivity|lia].
Qed.

End Headlines.

(* ---- consequences of the shape for the library's own predicates ---------------------------------------------- *)
Section ShapeCorollaries.
Context {L : Type}.
Notation arena := (@arena L).
Notation node := (@node L).

Lemma map_filter_slots (p : node -> bool) (q : nat -> bool) : forall (t : arena) off,
  (forall j nd, nth_error t j = Some nd -> nid nd = off + j /\ p nd = q (off + j)) ->
  map nid (filter p t) = filter q (seq off (length t)).
Proof.
  induction t as [|nd t IH]; intros off H; [reflexivity|].
  destruct (H 0 nd eq_refl) as [H1 H2]. rewrite Nat.add_0_r in H1, H2.
  simpl. rewrite H2. rewrite <- (IH (S off)).
  - destruct (q off); simpl; congruence.
  - intros j nd' Hj. destruct (H (S j) nd' Hj) as [G1 G2].
    replace (S off + j) with (off + S j) by lia. auto.
Qed.

Lemma filter_none {A} (q : A -> bool) l : (forall x, In x l -> q x = false) -> filter q l = [].
Proof.
  induction l; simpl; auto. intros H. rewrite (H a) by auto. apply IHl. intros; apply H; auto.
Qed.

Lemma filter_mid (q : nat -> bool) n len :
  2 <= n -> len = 2 * n - 1 ->
  (forall j, j < len -> q j = (Nat.leb 1 j && Nat.leb j n)) ->
  filter q (seq 0 len) = seq 1 n.
Proof.
  intros Hn -> Hq. replace (2 * n - 1) with (1 + (n + (n - 2))) in * by lia.
  rewrite seq_app, seq_app, !filter_app. simpl seq at 1. simpl filter at 1.
  rewrite (Hq 0) by lia. simpl.
  rewrite filter_id, filter_none.
  - apply app_nil_r.
  - intros x Hx. apply in_seq in Hx. rewrite Hq by lia.
    replace (Nat.leb x n) with false by (symmetry; apply Nat.leb_gt; lia). apply andb_false_r.
  - intros x Hx. apply in_seq in Hx. rewrite Hq by lia.
    replace (Nat.leb 1 x) with true by (symmetry; apply Nat.leb_le; lia).
    replace (Nat.leb x n) with true by (symmetry; apply Nat.leb_le; lia). reflexivity.
Qed.

Lemma map_names (taxa : list str) : forall off,
  map (fun j => Some (nth (j - off) taxa [])) (seq off (length taxa)) = map Some taxa.
Proof.
  induction taxa as [|x tl IH]; intros off; [reflexivity|].
  simpl length. simpl seq. simpl map. rewrite Nat.sub_diag. f_equal.
  rewrite <- (IH (S off)). apply map_ext_in. intros j Hj. apply in_seq in Hj.
  replace (j - off) with (S (j - S off)) by lia. reflexivity.
Qed.

Lemma mapM_all_ok {A B} (g : A -> outcome B) (f : A -> B) l :
  (forall x, In x l -> g x = Ok (f x)) -> mapM g l = Ok (map f l).
Proof.
  induction l; simpl; auto. intros H. rewrite (H a) by auto. simpl. rewrite IHl; auto.
Qed.

Variable n : nat.
Variable taxa : list str.
Variable t : arena.
Hypothesis Hn : 2 <= n.
Hypothesis Htax : length taxa = n.
Hypothesis HS : UShape n taxa t.

Lemma shape_tip j nd :
  nth_error t j = Some nd ->
  nid nd = 0 + j /\ (negb (ndeleted nd) && is_tip nd) = (Nat.leb 1 j && Nat.leb j n).
Proof.
  intros Hnd. destruct HS as (_ & Hlen & Hsl & (n0 & c1 & c2 & Hn0 & Hch0 & _) & _).
  destruct (Hsl j nd Hnd) as ((D & S2 & S3 & S4 & S5) & Hid). split; [simpl; auto|].
  rewrite D. cbn [negb andb]. unfold is_tip.
  destruct (Nat.eq_dec j 0) as [->|Hj0].
  - assert (nd = n0) by congruence. subst. rewrite Hch0. reflexivity.
  - destruct (Nat.le_gt_cases j n) as [Hle|Hgt].
    + destruct (S3 ltac:(lia)) as [-> _].
      replace (Nat.leb 1 j) with true by (symmetry; apply Nat.leb_le; lia).
      replace (Nat.leb j n) with true by (symmetry; apply Nat.leb_le; lia). reflexivity.
    + destruct (S4 Hgt) as (_ & d1 & d2 & ->).
      replace (Nat.leb j n) with false by (symmetry; apply Nat.leb_gt; lia). rewrite andb_false_r. reflexivity.
Qed.

Theorem shape_WF : WF t.
Proof. destruct HS as ([H _] & _). exact H. Qed.

Theorem shape_get_leaves : get_leaves t = seq 1 n.
Proof.
  unfold get_leaves. rewrite (map_filter_slots _ (fun j => Nat.leb 1 j && Nat.leb j n) t 0).
  - destruct HS as (_ & Hlen & _). apply filter_mid; auto.
  - intros j nd Hnd. apply shape_tip. auto.
Qed.

Theorem shape_n_leaves : n_leaves t = n.
Proof.
  unfold n_leaves. rewrite <- (map_length nid). fold (get_leaves t). rewrite shape_get_leaves. apply seq_length.
Qed.

Theorem shape_leaf_names : get_leaf_names t = Ok (map Some taxa).
Proof.
  unfold get_leaf_names. rewrite shape_get_leaves.
  rewrite (mapM_all_ok _ (fun j => Some (nth (j - 1) taxa []))).
  - rewrite <- Htax. rewrite map_names. reflexivity.
  - intros j Hj. apply in_seq in Hj. destruct HS as (_ & _ & Hsl & _).
    assert (Hlt : j < length t) by (destruct HS as (_ & -> & _); lia).
    destruct (nth_error t j) as [nd|] eqn:Hnd; [|apply nth_error_None in Hnd; lia].
    destruct (Hsl j nd Hnd) as ((D & _ & S3 & _) & _). destruct (S3 ltac:(lia)) as [_ Hnm].
    unfold get. rewrite Hnd, D, Hnm. reflexivity.
Qed.

Theorem shape_get_root : get_root t = Ok 0.
Proof.
  destruct HS as (_ & _ & Hsl & (n0 & c1 & c2 & Hn0 & _ & Hp0 & _) & _).
  destruct (Hsl 0 n0 Hn0) as ((D & _) & Hid).
  unfold get_root. destruct t as [|x t']; [discriminate|]. simpl in Hn0. injection Hn0 as ->.
  simpl. unfold is_root. rewrite D, Hp0. simpl. congruence.
Qed.

Theorem shape_is_rooted : is_rooted t = Ok true.
Proof.
  unfold is_rooted. rewrite shape_get_root. simpl.
  destruct HS as (_ & _ & Hsl & (n0 & c1 & c2 & Hn0 & Hch0 & _) & _).
  destruct (Hsl 0 n0 Hn0) as ((D & _) & _).
  destruct t as [|x t'] eqn:Et; [discriminate|]. rewrite <- Et in *.
  unfold get. rewrite Hn0, D. simpl. rewrite Hch0. reflexivity.
Qed.

Theorem shape_is_binary : is_binary t = Ok true.
Proof.
  unfold is_binary.
  assert (H : forall ns, (forall nd, In nd ns -> length (nchildren nd) <= 2) -> is_binary_loop t ns = Ok true).
  { induction ns as [|nd ns IH]; intros Hall; [reflexivity|].
    assert (Hle : length (nchildren nd) <= 2) by (apply Hall; simpl; auto).
    simpl. rewrite shape_is_rooted. simpl.
    replace (Nat.ltb 2 (length (nchildren nd))) with false by (symmetry; apply Nat.ltb_ge; auto).
    destruct (nparent nd); apply IH; intros; apply Hall; simpl; auto. }
  apply H. intros nd Hin. apply In_nth_error in Hin as (j & Hj).
  destruct HS as (_ & _ & Hsl & (n0 & c1 & c2 & Hn0 & Hch0 & _) & _).
  destruct (Hsl j nd Hj) as ((D & S2 & S3 & S4 & S5) & _).
  destruct (Nat.eq_dec j 0) as [->|Hj0].
  - assert (nd = n0) by congruence. subst. rewrite Hch0. simpl. lia.
  - destruct (Nat.le_gt_cases j n) as [Hle|Hgt].
    + destruct (S3 ltac:(lia)) as [-> _]. simpl. lia.
    + destruct (S4 Hgt) as (_ & d1 & d2 & ->). simpl. lia.
Qed.

Theorem shape_rooted_binary : check_rooted_binary t = Ok tt.
Proof. unfold check_rooted_binary. rewrite shape_is_rooted. simpl. rewrite shape_is_binary. reflexivity. Qed.

End ShapeCorollaries.

(* the result of upgma, seen through the library's own API: a rooted binary tree whose leaves are the taxa *)
Theorem upgma_rooted_binary {L : Type} (O : LenOps L) (Fin : L -> Prop) (m : @dmat L) t :
  Separated O Fin -> upgma_pre Fin m -> upgma O m = Ok t ->
  WF t /\ check_rooted_binary t = Ok tt /\ get_root t = Ok 0 /\
  get_leaves t = seq 1 (msize m) /\ n_leaves t = msize m /\ get_leaf_names t = Ok (map Some (mtaxa m)) /\
  length t = 2 * msize m - 1.
Proof.
  intros HSep Hpre Ht. pose proof (upgma_shape O Fin HSep m t Hpre Ht) as HS.
  destruct Hpre as (H1 & H2 & _).
  splits.
  - eapply shape_WF; eauto.
  - eapply shape_rooted_binary; eauto.
  - eapply shape_get_root; eauto.
  - eapply shape_get_leaves; eauto.
  - eapply shape_n_leaves; eauto.
  - eapply shape_leaf_names; eauto.
  - destruct HS as (_ & Hl & _). exact Hl.
Qed.

(* ================================================================================================== *)
(* Part II: metric properties                                                                          *)
(* ================================================================================================== *)
(* path length from a node up to an ancestor, following parent pointers and adding the stored lengths *)
Section Paths.
Context {L : Type}.
Variable O : LenOps L.
Notation arena := (@arena L).

Inductive updist (t : arena) : nat -> nat -> L -> Prop :=
| ud_refl : forall x, updist t x x (l0 O)
| ud_step : forall y p x e d ny,
    nth_error t y = Some ny -> nparent ny = Some p -> npedge ny = Some e ->
    updist t p x d -> updist t y x (ladd O e d).

(* paths that stay strictly below the children of the root survive every edit that only touches the
   root, its children, and fresh slots *)
Lemma updist_frame (t t' : arena) y x d :
  updist t y x d -> x <> 0 ->
  (forall n0, nth_error t 0 = Some n0 -> nparent n0 = None) ->
  (forall j nd, nth_error t j = Some nd -> j <> 0 -> nparent nd <> Some 0 ->
     exists nd', nth_error t' j = Some nd' /\ nparent nd' = nparent nd /\ npedge nd' = npedge nd) ->
  updist t' y x d.
Proof.
  intros H Hx Hroot Hfr. induction H as [x|y p x e d ny Hny Hp He Hd IH].
  - constructor.
  - assert (Hp0 : p <> 0).
    { intros ->. inversion Hd; subst; [congruence|].
      match goal with H1 : nth_error t 0 = Some ?n, H2 : nparent ?n = Some _ |- _ =>
        rewrite (Hroot _ H1) in H2; discriminate end. }
    assert (Hy0 : y <> 0) by (intros ->; rewrite (Hroot _ Hny) in Hp; discriminate).
    destruct (Hfr y ny Hny Hy0) as (ny' & Hny' & Q1 & Q2); [congruence|].
    apply ud_step with (p := p) (ny := ny'); auto; congruence.
Qed.
End Paths.

(* ---- instance: canonical rationals, the marker for retired cells being a parameter B ------------------- *)
Require Import QArith Qcanon Lqa.
Require Qcabs.
Local Open Scope nat_scope.

Definition nq (n : nat) : Qc := Q2Qc (inject_Z (Z.of_nat n)).

Definition QcOps (B : Qc) : LenOps Qc :=
  Build_LenOps Qc 0%Qc 1%Qc Qcplus Qcminus Qcmult Qcdiv Qcabs.Qcabs
    (fun a b => if Qclt_le_dec a b then true else false) Qc_eq_bool nq B.

Lemma nq_add a b : nq (a + b) = (nq a + nq b)%Qc.
Proof.
  unfold nq. apply Qc_is_canon. unfold Qcplus, Qcmult, Q2Qc; cbn [this]. rewrite !Qred_correct.
  rewrite Nat2Z.inj_add, inject_Z_plus. reflexivity.
Qed.

Lemma nq_mul a b : nq (a * b) = (nq a * nq b)%Qc.
Proof.
  unfold nq. apply Qc_is_canon. unfold Qcplus, Qcmult, Q2Qc; cbn [this]. rewrite !Qred_correct.
  rewrite Nat2Z.inj_mul, inject_Z_mult. reflexivity.
Qed.

Lemma nq_pos a : 0 < a -> (0 < nq a)%Qc.
Proof.
  intros H. unfold nq, Qclt, Q2Qc; cbn [this]. rewrite !Qred_correct.
  unfold Qlt. simpl. lia.
Qed.

Lemma Qc_pos_neq (x : Qc) : (0 < x)%Qc -> x <> 0%Qc.
Proof. intros H E. rewrite E in H. apply (Qclt_not_eq _ _ H). reflexivity. Qed.

Lemma nq_neq a : 0 < a -> nq a <> 0%Qc.
Proof. intros H. apply Qc_pos_neq, nq_pos, H. Qed.

Lemma Qcplus_lt_compat (a b c d : Qc) : (a < b -> c < d -> a + c < b + d)%Qc.
Proof. unfold Qclt, Qcplus, Q2Qc; cbn [this]. rewrite !Qred_correct. intros. lra. Qed.

Lemma Qcplus_pos (p q : Qc) : (0 < p -> 0 < q -> 0 < p + q)%Qc.
Proof. intros. replace 0%Qc with (0 + 0)%Qc by ring. apply Qcplus_lt_compat; auto. Qed.

Lemma avg_ge (z x y p q : Qc) : (z <= x -> z <= y -> 0 < p -> 0 < q -> z <= (p * x + q * y) / (p + q))%Qc.
Proof.
  intros Hx Hy Hp Hq.
  pose proof (Qcplus_pos _ _ Hp Hq) as Hs. pose proof (Qc_pos_neq _ Hs) as Hne.
  apply Qcmult_lt_0_le_reg_r with (z := (p + q)%Qc); auto.
  replace ((p * x + q * y) / (p + q) * (p + q))%Qc with (x * p + y * q)%Qc by (field; auto).
  replace (z * (p + q))%Qc with (z * p + z * q)%Qc by ring.
  apply Qcplus_le_compat; apply Qcmult_le_compat_r; auto; apply Qclt_le_weak; auto.
Qed.

Lemma avg_lt (B x y p q : Qc) : (x < B -> y < B -> 0 < p -> 0 < q -> (p * x + q * y) / (p + q) < B)%Qc.
Proof.
  intros Hx Hy Hp Hq.
  pose proof (Qcplus_pos _ _ Hp Hq) as Hs. pose proof (Qc_pos_neq _ Hs) as Hne.
  apply Qcnot_le_lt. intros Hle.
  apply Qcmult_le_compat_r with (z := (p + q)%Qc) in Hle; [|apply Qclt_le_weak; auto].
  replace ((p * x + q * y) / (p + q) * (p + q))%Qc with (x * p + y * q)%Qc in Hle by (field; auto).
  replace (B * (p + q))%Qc with (B * p + B * q)%Qc in Hle by ring.
  apply (Qcle_not_lt _ _ Hle). apply Qcplus_lt_compat; apply Qcmult_lt_compat_r; auto.
Qed.

Lemma two_neq : (1 + 1)%Qc <> 0%Qc.
Proof. apply Qc_pos_neq. apply Qcplus_pos; reflexivity. Qed.

Ltac qc_lra :=
  unfold Qcle, Qclt, Qcminus, Qcopp, Qcplus, Qcmult, Q2Qc in *; cbn [this] in *;
  rewrite ?Qred_correct in *; lra.

Lemma half_sum (d : Qc) : (d / (1 + 1) + d / (1 + 1) = d)%Qc.
Proof. field. apply two_neq. Qed.

Lemma qc_eq_Q (x y : Qc) : x = y -> (x == y)%Q.
Proof. intros ->. reflexivity. Qed.

(* h <= hl, 2 hl <= d: facts about nh = d/2 *)
Lemma half_facts (h hl d : Qc) :
  (h <= hl -> hl + hl <= d ->
   hl <= d / (1 + 1) /\ 0 <= d / (1 + 1) - h /\ h + (d / (1 + 1) - h) <= d / (1 + 1))%Qc.
Proof.
  intros. pose proof (qc_eq_Q _ _ (half_sum d)) as E. set (nh := (d / (1 + 1))%Qc) in *. clearbody nh.
  splits; qc_lra.
Qed.

Section Metric.
Variable B : Qc.
Notation O := (QcOps B).
Notation arena := (@arena Qc).
Notation ustate := (@ustate Qc).

Definition FinB (x : Qc) : Prop := (x < B)%Qc.

Lemma qlt_true x y : lltb O x y = true <-> (x < y)%Qc.
Proof.
  cbn [lltb QcOps]. destruct (Qclt_le_dec x y) as [H|H]; split; auto; try discriminate.
  intros H'. exfalso. eapply Qcle_not_lt; eauto.
Qed.

Lemma qlt_false x y : lltb O x y = false <-> (y <= x)%Qc.
Proof.
  cbn [lltb QcOps]. destruct (Qclt_le_dec x y) as [H|H]; split; auto; try discriminate.
  intros H'. exfalso. eapply Qcle_not_lt; eauto.
Qed.

Lemma avg2_Qc ca cb x y : avg2 O ca cb x y = ((nq ca * x + nq cb * y) / (nq ca + nq cb))%Qc.
Proof. reflexivity. Qed.

Lemma QcSep : Separated O FinB.
Proof.
  constructor; unfold FinB.
  - intros x Hx. apply qlt_true. auto.
  - intros x Hx. apply qlt_false. apply Qclt_le_weak. auto.
  - intros ca cb x y Ha Hb Hx Hy. rewrite avg2_Qc. apply avg_lt; auto; apply nq_pos; auto.
Qed.

Lemma qlt_irrefl x : lltb O x x = false.
Proof. apply qlt_false. apply Qcle_refl. Qed.

Lemma qlt_trans x y z : lltb O x y = true -> lltb O y z = true -> lltb O x z = true.
Proof. rewrite !qlt_true. apply Qclt_trans. Qed.

(* appending an edge at the top of a path *)
Lemma updist_snoc (t : arena) y x d nx p e :
  updist O t y x d -> nth_error t x = Some nx -> nparent nx = Some p -> npedge nx = Some e ->
  updist O t y p (d + e)%Qc.
Proof.
  intros H Hnx Hp He. induction H as [x|y q x e' d ny Hny Hq He' Hd IH].
  - replace (l0 O + e)%Qc with (ladd O e (l0 O)) by (cbn [ladd l0 QcOps]; ring).
    eapply ud_step; eauto. constructor.
  - replace (ladd O e' d + e)%Qc with (ladd O e' (d + e)%Qc) by (cbn [ladd QcOps]; ring).
    eapply ud_step; eauto.
Qed.

(* ---- average linkage, from its definition ------------------------------------------------------------------ *)
Variable m0 : list Qc.      (* the input cells *)

Fixpoint qsum (l : list Qc) : Qc := match l with [] => 0%Qc | x :: t => (x + qsum t)%Qc end.

Lemma qsum_app l1 l2 : qsum (l1 ++ l2) = (qsum l1 + qsum l2)%Qc.
Proof. induction l1; simpl; [ring|]. rewrite IHl1. ring. Qed.

(* sum of the input distances over all pairs (i in S, j in T) *)
Definition dsum (S T : list nat) : Qc := qsum (map (fun i => qsum (map (fun j => cell O m0 i j) T)) S).
(* average-linkage distance between the clusters S and T *)
Definition davg (S T : list nat) : Qc := (dsum S T / (nq (length S) * nq (length T)))%Qc.

Lemma dsum_app_l S1 S2 T : dsum (S1 ++ S2) T = (dsum S1 T + dsum S2 T)%Qc.
Proof. unfold dsum. rewrite map_app, qsum_app. reflexivity. Qed.

Lemma dsum_app_r S T1 T2 : dsum S (T1 ++ T2) = (dsum S T1 + dsum S T2)%Qc.
Proof.
  unfold dsum. induction S as [|i S IH]; simpl; [ring|].
  rewrite IH, map_app, qsum_app. ring.
Qed.

Lemma davg_merge_l Sa Sb Sx :
  0 < length Sa -> 0 < length Sb -> 0 < length Sx ->
  avg2 O (length Sa) (length Sb) (davg Sa Sx) (davg Sb Sx) = davg (Sa ++ Sb) Sx.
Proof.
  intros Ha Hb Hx. rewrite avg2_Qc. unfold davg. rewrite dsum_app_l, app_length, nq_add.
  pose proof (nq_neq _ Ha). pose proof (nq_neq _ Hb). pose proof (nq_neq _ Hx).
  assert (nq (length Sa) + nq (length Sb) <> 0)%Qc by (apply Qc_pos_neq, Qcplus_pos; apply nq_pos; auto).
  field. auto.
Qed.

Lemma davg_merge_r Sa Sb Sx :
  0 < length Sa -> 0 < length Sb -> 0 < length Sx ->
  avg2 O (length Sa) (length Sb) (davg Sx Sa) (davg Sx Sb) = davg Sx (Sa ++ Sb).
Proof.
  intros Ha Hb Hx. rewrite avg2_Qc. unfold davg. rewrite dsum_app_r, app_length, nq_add.
  pose proof (nq_neq _ Ha). pose proof (nq_neq _ Hb). pose proof (nq_neq _ Hx).
  assert (nq (length Sa) + nq (length Sb) <> 0)%Qc by (apply Qc_pos_neq, Qcplus_pos; apply nq_pos; auto).
  field. auto.
Qed.

(* ---- invariant A: clusters, ultrametricity, average linkage ------------------------------------------------ *)
Variable n : nat.
Variable taxa : list str.

Record MInvA (s : ustate) (mem : list (list nat)) : Prop := {
  ma_len : length mem = n;
  ma_card : forall u, u < n -> nth u (u_merged s) true = false -> nth u (u_card s) 0 = length (nth u mem []);
  ma_cover : forall i, i < n -> exists u, u < n /\ nth u (u_merged s) true = false /\ In i (nth u mem []);
  ma_ultra : forall u i, u < n -> nth u (u_merged s) true = false -> In i (nth u mem []) ->
               updist O (u_t s) (S i) (nth u (u_ids s) 0) (nth u (u_heights s) (l0 O));
  ma_avg : forall u x, u < n -> x < n -> u <> x ->
               nth u (u_merged s) true = false -> nth x (u_merged s) true = false ->
               cell O (u_cells s) u x = davg (nth u mem []) (nth x mem []) }.

Lemma MInvA_step s s' mem :
  SInv O FinB n taxa s -> MInvA s mem -> 2 < u_k s -> ustep O n s = Ok s' ->
  exists a b, b < a /\ a < n /\ nth a (u_merged s) true = false /\ nth b (u_merged s) true = false /\
    dm_min O (mkDmat n [] (u_cells s)) = Some (a, b, cell O (u_cells s) a b) /\
    MInvA s' (replace_nth a (nth a mem [] ++ nth b mem []) mem).
Proof.
  intros I M Hk Hst.
  destruct (ustep_full O FinB QcSep n taxa s s' I Hk Hst)
    as (a & b & d & n0 & n1 & n2 & t8 & Hmin & Hba & Han & Hma & Hmb & Hd & Hn0 & Hn1 & Hn2 & Hp1 & Hp2 & Hp0 &
        MF & Hs' & Mu & C1 & C2).
  exists a, b. splits; auto. { rewrite Hmin, Hd. reflexivity. }
  destruct MF as (Hwf8 & Hlen8 & Hc10 & Hc20 & Hfr & _ &
                  (m1 & Hm1 & _ & _ & A3 & _ & A5 & _) & (m2 & Hm2 & _ & _ & B3 & _ & B5 & _) & _).
  set (t := u_t s) in *. set (c1 := nth a (u_ids s) 0) in *. set (c2 := nth b (u_ids s) 0) in *.
  pose proof (ma_len _ _ M) as Lmem. pose proof (si_lids _ _ _ _ _ I) as Lids.
  pose proof (si_lheights _ _ _ _ _ I) as Lh. pose proof (si_lcard _ _ _ _ _ I) as Lcard.
  assert (Hbn : b < n) by lia. assert (Hab : a <> b) by lia.
  set (mem' := replace_nth a (nth a mem [] ++ nth b mem []) mem).
  assert (Ea : nth a mem' [] = nth a mem [] ++ nth b mem []) by (apply nth_replace_nth_eq; lia).
  assert (Eo : forall x, x <> a -> nth x mem' [] = nth x mem []) by (intros; apply nth_replace_nth_neq; auto).
  assert (Em : u_merged s' = replace_nth b true (u_merged s)) by (rewrite Hs'; reflexivity).
  assert (Ei : u_ids s' = replace_nth a (length t) (u_ids s)) by (rewrite Hs'; reflexivity).
  assert (Eh : u_heights s' = replace_nth a (ladd O (nth a (u_heights s) (l0 O))
                   (lsub O (ldiv O d (two O)) (nth a (u_heights s) (l0 O)))) (u_heights s))
    by (rewrite Hs'; reflexivity).
  assert (Ec : u_card s' = replace_nth a (nth a (u_card s) 0 + nth b (u_card s) 0) (u_card s))
    by (rewrite Hs'; reflexivity).
  assert (Et : u_t s' = t8) by (rewrite Hs'; reflexivity).
  pose proof (ma_card _ _ M a Han Hma) as Ka. pose proof (ma_card _ _ M b Hbn Hmb) as Kb.
  pose proof (si_card _ _ _ _ _ I a Han Hma) as Pa. pose proof (si_card _ _ _ _ _ I b Hbn Hmb) as Pb.
  (* frame for paths *)
  assert (Hroot : forall r, nth_error t 0 = Some r -> nparent r = None) by (intros r Hr; congruence).
  assert (Hframe : forall j nd, nth_error t j = Some nd -> j <> 0 -> nparent nd <> Some 0 ->
            exists nd', nth_error t8 j = Some nd' /\ nparent nd' = nparent nd /\ npedge nd' = npedge nd).
  { intros j nd Hnd Hj0 Hpar.
    assert (j <> c1) by (intros ->; congruence). assert (j <> c2) by (intros ->; congruence).
    destruct (Hfr j nd Hj0 H H0 Hnd) as (nd' & Hnd' & _ & _ & Q3 & _ & Q5 & _). eauto. }
  assert (Hid0 : forall u, u < n -> nth u (u_merged s) true = false -> nth u (u_ids s) 0 <> 0).
  { intros u Hu Hmu E. destruct (si_par _ _ _ _ _ I u Hu Hmu) as (nd & Hnd & Hpd). fold t in Hnd.
    rewrite E in Hnd. congruence. }
  constructor.
  - unfold mem'. rewrite replace_nth_length. auto.
  - intros u Hu Mu'. apply Mu in Mu' as [Hub Mu']. rewrite Ec.
    destruct (Nat.eq_dec u a) as [->|Hua].
    + rewrite nth_replace_nth_eq by lia. rewrite Ea, app_length. lia.
    + rewrite nth_replace_nth_neq by auto. rewrite Eo by auto. apply (ma_card _ _ M); auto.
  - intros i Hi. destruct (ma_cover _ _ M i Hi) as (u & Hu & Hmu & Hin).
    destruct (Nat.eq_dec u a) as [->|Hua]; [|destruct (Nat.eq_dec u b) as [->|Hub]].
    + exists a. splits; auto. { apply Mu. auto. } rewrite Ea. apply in_or_app; auto.
    + exists a. splits; auto. { apply Mu. auto. } rewrite Ea. apply in_or_app; auto.
    + exists u. splits; auto. { apply Mu. auto. } rewrite Eo; auto.
  - intros u i Hu Mu' Hin. apply Mu in Mu' as [Hub Mu']. rewrite Et, Ei, Eh.
    destruct (Nat.eq_dec u a) as [->|Hua].
    + rewrite !nth_replace_nth_eq by lia. rewrite Ea in Hin. apply in_app_or in Hin as [Hin|Hin].
      * pose proof (ma_ultra _ _ M a i Han Hma Hin) as P. fold t c1 in P.
        apply (updist_frame O t t8) in P; auto; try (apply Hid0; auto).
        apply (updist_snoc t8 _ _ _ m1 (length t) _ P); auto.
      * pose proof (ma_ultra _ _ M b i Hbn Hmb Hin) as P. fold t c2 in P.
        apply (updist_frame O t t8) in P; auto; try (apply Hid0; auto).
        pose proof (updist_snoc t8 _ _ _ m2 (length t) _ P Hm2 B3 B5) as P2.
        replace (ladd O (nth a (u_heights s) (l0 O)) (lsub O (ldiv O d (two O)) (nth a (u_heights s) (l0 O))))
          with (nth b (u_heights s) (l0 O) + lsub O (ldiv O d (two O)) (nth b (u_heights s) (l0 O)))%Qc; auto.
        cbn [ladd lsub QcOps]. ring.
    + rewrite !nth_replace_nth_neq by auto. rewrite Eo in Hin by auto.
      pose proof (ma_ultra _ _ M u i Hu Mu' Hin) as P. fold t in P.
      apply (updist_frame O t t8) in P; auto; try (apply Hid0; auto).
  - intros u x Hu Hx Hux Mu' Mx'. pose proof Mu' as Mu2. pose proof Mx' as Mx2.
    apply Mu in Mu' as [Hub Mu']. apply Mu in Mx' as [Hxb Mx'].
    pose proof (ma_card _ _ M x Hx Mx') as Kx. pose proof (si_card _ _ _ _ _ I x Hx Mx') as Px.
    pose proof (ma_card _ _ M u Hu Mu') as Ku. pose proof (si_card _ _ _ _ _ I u Hu Mu') as Pu.
    destruct (Nat.eq_dec u a) as [->|Hua].
    + rewrite Ea, Eo by auto. rewrite C1; auto.
      rewrite (cell_sym O _ x a), (cell_sym O _ x b).
      rewrite (ma_avg _ _ M a x), (ma_avg _ _ M b x); auto.
      rewrite Ka, Kb. apply davg_merge_l; lia.
    + destruct (Nat.eq_dec x a) as [->|Hxa].
      * rewrite Ea, Eo by auto. rewrite cell_sym, C1; auto.
        rewrite (ma_avg _ _ M u a), (ma_avg _ _ M u b); auto.
        rewrite Ka, Kb. apply davg_merge_r; lia.
      * rewrite !Eo by auto. rewrite C2; auto. apply (ma_avg _ _ M); auto.
Qed.


(* ---- invariant B: monotone merge heights, non-negative lengths --------------------------------------------- *)
Record MInvB (s : ustate) (hl : Qc) : Prop := {
  mb_low : forall u, u < n -> nth u (u_merged s) true = false -> (nth u (u_heights s) (l0 O) <= hl)%Qc;
  mb_mono : forall u x, u < n -> x < n -> u <> x ->
              nth u (u_merged s) true = false -> nth x (u_merged s) true = false ->
              (hl + hl <= cell O (u_cells s) u x)%Qc;
  mb_nonneg : forall j nd e, nth_error (u_t s) j = Some nd -> npedge nd = Some e -> (0 <= e)%Qc }.

Lemma MInvB_step s s' hl :
  SInv O FinB n taxa s -> MInvB s hl -> 2 < u_k s -> ustep O n s = Ok s' ->
  exists a b, dm_min O (mkDmat n [] (u_cells s)) = Some (a, b, cell O (u_cells s) a b) /\
    (hl <= cell O (u_cells s) a b / (1 + 1))%Qc /\
    MInvB s' (cell O (u_cells s) a b / (1 + 1))%Qc.
Proof.
  intros I M Hk Hst.
  destruct (ustep_full O FinB QcSep n taxa s s' I Hk Hst)
    as (a & b & d & n0 & n1 & n2 & t8 & Hmin & Hba & Han & Hma & Hmb & Hd & Hn0 & Hn1 & Hn2 & Hp1 & Hp2 & Hp0 &
        MF & Hs' & Mu & C1 & C2).
  exists a, b. rewrite <- Hd. split; auto.
  destruct MF as (Hwf8 & Hlen8 & Hc10 & Hc20 & Hfr & (P' & HP' & _ & _ & _ & PQ4 & _) &
                  (m1 & Hm1 & _ & _ & A3 & _ & A5 & _) & (m2 & Hm2 & _ & _ & B3 & _ & B5 & _) &
                  (nu & Hnu & _ & _ & _ & _ & U5 & _)).
  set (t := u_t s) in *. set (c1 := nth a (u_ids s) 0) in *. set (c2 := nth b (u_ids s) 0) in *.
  pose proof (si_lheights _ _ _ _ _ I) as Lh.
  assert (Hbn : b < n) by lia. assert (Hab : a <> b) by lia.
  destruct (si_cells _ _ _ _ _ I) as [Hlen _].
  destruct (min_is_minimal O qlt_irrefl qlt_trans _ _ _ _ Hmin) as (k & _ & _ & _ & _ & Hminall).
  simpl mcells in Hminall.
  assert (Hdmin : forall u x, u < n -> x < n -> u <> x -> (d <= cell O (u_cells s) u x)%Qc).
  { intros u x Hu Hx Hux. apply qlt_false. apply (Hminall (tril_idx u x)).
    unfold cell. apply nth_error_of_nth. rewrite Hlen. apply tril_lt_any; auto. }
  assert (Eh : u_heights s' = replace_nth a (ladd O (nth a (u_heights s) (l0 O))
                   (lsub O (ldiv O d (two O)) (nth a (u_heights s) (l0 O)))) (u_heights s))
    by (rewrite Hs'; reflexivity).
  assert (Et : u_t s' = t8) by (rewrite Hs'; reflexivity).
  pose proof (mb_mono _ _ M a b Han Hbn Hab Hma Hmb) as Hhl. rewrite <- Hd in Hhl.
  destruct (half_facts _ _ _ (mb_low _ _ M a Han Hma) Hhl) as (F1 & F2 & F3).
  destruct (half_facts _ _ _ (mb_low _ _ M b Hbn Hmb) Hhl) as (_ & G2 & _).
  pose proof (si_card _ _ _ _ _ I a Han Hma) as Pa. pose proof (si_card _ _ _ _ _ I b Hbn Hmb) as Pb.
  split; auto. constructor.
  - intros u Hu Mu'. apply Mu in Mu' as [Hub Mu']. rewrite Eh.
    destruct (Nat.eq_dec u a) as [->|Hua].
    + rewrite nth_replace_nth_eq by lia. exact F3.
    + rewrite nth_replace_nth_neq by auto. eapply Qcle_trans; [apply (mb_low _ _ M); auto|auto].
  - intros u x Hu Hx Hux Mu' Mx'. pose proof Mu' as Mu2. pose proof Mx' as Mx2.
    apply Mu in Mu' as [Hub Mu']. apply Mu in Mx' as [Hxb Mx'].
    rewrite half_sum.
    destruct (Nat.eq_dec u a) as [->|Hua].
    + rewrite C1; auto. rewrite avg2_Qc. apply avg_ge; try (apply nq_pos; auto); apply Hdmin; auto.
    + destruct (Nat.eq_dec x a) as [->|Hxa].
      * rewrite cell_sym, C1; auto. rewrite avg2_Qc. apply avg_ge; try (apply nq_pos; auto); apply Hdmin; auto.
      * rewrite C2; auto.
  - intros j nd e Hnd He. rewrite Et in Hnd.
    assert (Hj : j < S (length t)) by (rewrite <- Hlen8; eapply nth_error_Some_lt; eauto).
    destruct (Nat.eq_dec j (length t)) as [->|Hjn]; [congruence|].
    destruct (Nat.eq_dec j 0) as [->|Hj0].
    { assert (nd = P') by congruence. subst nd. apply (mb_nonneg _ _ M 0 n0); auto. congruence. }
    destruct (Nat.eq_dec j c1) as [->|Hj1].
    { assert (nd = m1) by congruence. subst nd. rewrite A5 in He. injection He as <-. exact F2. }
    destruct (Nat.eq_dec j c2) as [->|Hj2].
    { assert (nd = m2) by congruence. subst nd. rewrite B5 in He. injection He as <-. exact G2. }
    destruct (nth_error t j) as [nj|] eqn:Hnj; [|apply nth_error_None in Hnj; lia].
    destruct (Hfr j nj Hj0 Hj1 Hj2 Hnj) as (n' & Hn' & _ & _ & _ & _ & Q5 & _).
    assert (n' = nd) by congruence. subst n'. apply (mb_nonneg _ _ M j nj); auto. congruence.
Qed.


(* ---- initial state --------------------------------------------------------------------------------------------- *)
Lemma nth_singletons u : u < n -> nth u (map (fun i => [i]) (seq 0 n)) [] = [u].
Proof.
  intros Hu. apply nth_of_nth_error. rewrite nth_error_map.
  rewrite (nth_error_of_nth (seq 0 n) u 0) by (rewrite seq_length; auto). rewrite seq_nth by auto. reflexivity.
Qed.

Lemma davg_singletons u x : davg [u] [x] = cell O m0 u x.
Proof.
  unfold davg, dsum. cbn [map qsum length]. change (nq 1) with 1%Qc. field. discriminate.
Qed.

Lemma MInvA_init t1 :
  StarInv taxa t1 (seq 1 n) -> MInvA (st_init O n m0 t1) (map (fun i => [i]) (seq 0 n)).
Proof.
  intros HS. constructor; cbn [st_init u_card u_merged u_t u_ids u_heights u_cells].
  - rewrite map_length, seq_length. reflexivity.
  - intros u Hu _. rewrite nth_singletons, nth_repeat_lt by auto. reflexivity.
  - intros i Hi. exists i. splits; auto. { apply nth_repeat_lt; auto. } rewrite nth_singletons by auto. simpl; auto.
  - intros u i Hu _ Hin. rewrite nth_singletons in Hin by auto. destruct Hin as [<-|[]].
    rewrite seq_nth by auto. rewrite nth_repeat_lt by auto. constructor.
  - intros u x Hu Hx _ _ _. rewrite !nth_singletons by auto. symmetry. apply davg_singletons.
Qed.

Lemma MInvB_init t1 :
  length taxa = n -> length m0 = n * (n - 1) / 2 -> Forall (fun x => 0 <= x)%Qc m0 ->
  StarInv taxa t1 (seq 1 n) -> MInvB (st_init O n m0 t1) 0%Qc.
Proof.
  intros Htax Hlen Hpos (_ & Hlt & _ & (r0 & Hr0 & _ & _ & _ & _ & Hpe0) & Hsl).
  constructor; cbn [st_init u_card u_merged u_t u_ids u_heights u_cells].
  - intros u Hu _. rewrite nth_repeat_lt by auto. apply Qcle_refl.
  - intros u x Hu Hx Hux _ _. replace (0 + 0)%Qc with 0%Qc by ring.
    rewrite Forall_forall in Hpos. apply Hpos. unfold cell. apply nth_In. rewrite Hlen. apply tril_lt_any; auto.
  - intros j nd e Hnd He. exfalso.
    assert (j < S n) by (rewrite <- Htax, <- Hlt; eapply nth_error_Some_lt; eauto).
    destruct (Nat.eq_dec j 0) as [->|Hj0]; [congruence|].
    destruct (Hsl j ltac:(lia)) as (nd' & Hnd' & _ & _ & _ & _ & Hpe). congruence.
Qed.


(* ---- the definitional algorithm and the trace of merges ------------------------------------------------------- *)
(* Average linkage "from its definition": starting from a list of clusters, repeatedly pick two clusters A, B whose
   average distance [davg A B] is minimal among all pairs of distinct clusters, replace them by their union and
   record (A, B, davg A B / 2).  Cluster lists are taken up to permutation; ties may be broken arbitrarily. *)
Definition mtrace := list (list nat * list nat * Qc).

Inductive al_steps : list (list nat) -> mtrace -> list (list nat) -> Prop :=
| al_nil : forall cl, al_steps cl [] cl
| al_snoc : forall cl tr cl1 A Bc rest cl2,
    al_steps cl tr cl1 ->
    Permutation cl1 (A :: Bc :: rest) ->
    (forall C D rest', Permutation cl1 (C :: D :: rest') -> (davg A Bc <= davg C D)%Qc) ->
    Permutation cl2 ((A ++ Bc) :: rest) ->
    al_steps cl (tr ++ [(A, Bc, (davg A Bc / (1 + 1))%Qc)]) cl2.

Definition singles : list (list nat) := map (fun i => [i]) (seq 0 n).
Definition active (s : ustate) (mem : list (list nat)) : list (list nat) :=
  map (fun u => nth u mem []) (filter (unmb (u_merged s)) (seq 0 n)).

Lemma filter_extract (p : nat -> bool) l a :
  NoDup l -> In a l -> p a = true ->
  Permutation (filter p l) (a :: filter (fun x => p x && negb (Nat.eqb x a)) l).
Proof.
  induction l as [|y l IH]; intros Hnd Hin Hp; [destruct Hin|].
  inversion Hnd; subst. simpl. destruct Hin as [->|Hin].
  - rewrite Hp, Nat.eqb_refl. simpl. constructor.
    rewrite (filter_ext_in (fun x => p x && negb (Nat.eqb x a)) p); auto.
    intros x Hx. destruct (Nat.eqb x a) eqn:E; [apply Nat.eqb_eq in E; subst; contradiction|].
    rewrite andb_true_r. reflexivity.
  - assert (y <> a) by (intros ->; contradiction).
    replace (Nat.eqb y a) with false by (symmetry; apply Nat.eqb_neq; auto). rewrite andb_true_r.
    destruct (p y).
    + eapply perm_trans; [apply perm_skip; apply IH; auto|]. apply perm_swap.
    + apply IH; auto.
Qed.

Record MInvT (s : ustate) (mem : list (list nat)) (tr : mtrace) : Prop := {
  mt_len : length tr + u_k s = n;
  mt_run : al_steps singles tr (active s mem);
  mt_tree : forall k A Bc h, nth_error tr k = Some (A, Bc, h) ->
              forall i, In i (A ++ Bc) -> updist O (u_t s) (S i) (n + 1 + k) h }.

Lemma MInvT_init t1 : MInvT (st_init O n m0 t1) (map (fun i => [i]) (seq 0 n)) [].
Proof.
  constructor; cbn [st_init u_k u_merged u_t length].
  - lia.
  - unfold active. cbn [st_init u_merged].
    rewrite filter_id.
    + replace (map (fun u => nth u (map (fun i => [i]) (seq 0 n)) []) (seq 0 n)) with singles; [constructor|].
      unfold singles. apply map_ext_in. intros u Hu. apply in_seq in Hu. rewrite nth_singletons; auto. lia.
    + intros x Hx. apply in_seq in Hx. unfold unmb. rewrite nth_repeat_lt by lia. reflexivity.
  - intros k A Bc h Hk. destruct k; discriminate.
Qed.

Lemma MInvT_step s s' mem tr :
  SInv O FinB n taxa s -> MInvA s mem -> MInvT s mem tr -> 2 < u_k s -> ustep O n s = Ok s' ->
  exists mem' tr', MInvA s' mem' /\ MInvT s' mem' tr'.
Proof.
  intros I M T Hk Hst.
  destruct (MInvA_step s s' mem I M Hk Hst) as (a & b & Hba & Han & Hma & Hmb & Hmin & M').
  destruct (ustep_full O FinB QcSep n taxa s s' I Hk Hst)
    as (a' & b' & d & n0 & n1 & n2 & t8 & Hmin' & _ & _ & _ & _ & Hd & Hn0 & Hn1 & Hn2 & Hp1 & Hp2 & Hp0 &
        MF & Hs' & Mu & _ & _).
  rewrite Hmin in Hmin'. injection Hmin' as <- <- <-. clear Hd.
  set (d := cell O (u_cells s) a b) in *. assert (Hd : d = cell O (u_cells s) a b) by reflexivity.
  set (mem' := replace_nth a (nth a mem [] ++ nth b mem []) mem) in *.
  set (A := nth a mem []) in *. set (Bc := nth b mem []) in *.
  exists mem', (tr ++ [(A, Bc, (davg A Bc / (1 + 1))%Qc)]). split; auto.
  assert (Hbn : b < n) by lia. assert (Hab : a <> b) by lia.
  pose proof (ma_len _ _ M) as Lmem. pose proof (si_lmerged _ _ _ _ _ I) as Lm.
  destruct MF as (Hwf8 & Hlen8 & Hc10 & Hc20 & Hfr & _ & _ & _ & _).
  set (t := u_t s) in *. set (c1 := nth a (u_ids s) 0) in *. set (c2 := nth b (u_ids s) 0) in *.
  assert (Et : u_t s' = t8) by (rewrite Hs'; reflexivity).
  assert (Ek : u_k s' = u_k s - 1) by (rewrite Hs'; reflexivity).
  assert (Em : u_merged s' = replace_nth b true (u_merged s)) by (rewrite Hs'; reflexivity).
  assert (Ei : u_ids s' = replace_nth a (length t) (u_ids s)) by (rewrite Hs'; reflexivity).
  assert (Eh : u_heights s' = replace_nth a (ladd O (nth a (u_heights s) (l0 O))
                   (lsub O (ldiv O d (two O)) (nth a (u_heights s) (l0 O)))) (u_heights s))
    by (rewrite Hs'; reflexivity).
  pose proof (si_len _ _ _ _ _ I) as Klen. fold t in Klen. pose proof (mt_len _ _ _ T) as Tlen.
  assert (Hdab : d = davg A Bc) by (rewrite Hd; apply (ma_avg _ _ M); auto).
  (* minimality of the picked cell *)
  destruct (si_cells _ _ _ _ _ I) as [Hlen _].
  destruct (min_is_minimal O qlt_irrefl qlt_trans _ _ _ _ Hmin) as (k0 & _ & _ & _ & _ & Hminall).
  simpl mcells in Hminall.
  assert (Hdmin : forall u x, u < n -> x < n -> u <> x -> (d <= cell O (u_cells s) u x)%Qc).
  { intros u x Hu Hx Hux. apply qlt_false. apply (Hminall (tril_idx u x)).
    unfold cell. apply nth_error_of_nth. rewrite Hlen. apply tril_lt_any; auto. }
  set (l := seq 0 n). assert (Hndl : NoDup l) by apply seq_NoDup.
  assert (Hal : In a l) by (apply in_seq; lia). assert (Hbl : In b l) by (apply in_seq; lia).
  set (p := unmb (u_merged s)).
  assert (Hpa : p a = true) by (unfold p, unmb; rewrite Hma; reflexivity).
  assert (Hpb : p b = true) by (unfold p, unmb; rewrite Hmb; reflexivity).
  set (restl := filter (fun x => (p x && negb (Nat.eqb x a)) && negb (Nat.eqb x b)) l).
  assert (P1 : Permutation (filter p l) (a :: b :: restl)).
  { eapply perm_trans; [apply filter_extract with (a := a); auto|]. apply perm_skip.
    apply filter_extract with (p := fun x => p x && negb (Nat.eqb x a)); auto.
    rewrite Hpb. simpl. apply negb_true_iff, Nat.eqb_neq. auto. }
  assert (P2 : Permutation (filter (unmb (u_merged s')) l) (a :: restl)).
  { rewrite (filter_ext (unmb (u_merged s')) (fun x => p x && negb (Nat.eqb x b))).
    - eapply perm_trans; [apply filter_extract with (a := a); auto|].
      + rewrite Hpa. simpl. apply negb_true_iff, Nat.eqb_neq. auto.
      + apply perm_skip. unfold restl. erewrite filter_ext; [reflexivity|].
        intros x. simpl. destruct (p x), (Nat.eqb x a), (Nat.eqb x b); reflexivity.
    - intros x. unfold p, unmb. rewrite Em. destruct (Nat.eq_dec x b) as [->|Hxb].
      + rewrite nth_replace_nth_eq by lia. rewrite Nat.eqb_refl, andb_false_r. reflexivity.
      + rewrite nth_replace_nth_neq by auto.
        replace (Nat.eqb x b) with false by (symmetry; apply Nat.eqb_neq; auto). rewrite andb_true_r. reflexivity. }
  constructor.
  - rewrite app_length. simpl. lia.
  - apply al_snoc with (cl1 := active s mem) (rest := map (fun u => nth u mem []) restl).
    + apply (mt_run _ _ _ T).
    + unfold active. fold l p. apply (Permutation_map (fun u => nth u mem [])) in P1. exact P1.
    + intros C D rest' HP. unfold active in HP. fold l p in HP.
      apply Permutation_sym in HP. apply Permutation_map_inv in HP as (l3 & Heq & HP3).
      destruct l3 as [|u [|x l3]]; try discriminate. injection Heq as -> -> _.
      assert (Hnd3 : NoDup (u :: x :: l3)) by (eapply Permutation_NoDup; [exact HP3|apply NoDup_filter; auto]).
      assert (Hux : u <> x) by (inversion Hnd3; subst; simpl in *; intuition).
      assert (Hu : In u (filter p l)) by (eapply Permutation_in; [apply Permutation_sym; exact HP3|simpl; auto]).
      assert (Hx : In x (filter p l)) by (eapply Permutation_in; [apply Permutation_sym; exact HP3|simpl; auto]).
      apply filter_In in Hu as [Hu1 Hu2]. apply filter_In in Hx as [Hx1 Hx2].
      apply in_seq in Hu1, Hx1. unfold p, unmb in Hu2, Hx2. apply negb_true_iff in Hu2, Hx2.
      rewrite <- Hdab. rewrite <- (ma_avg _ _ M u x); auto; try lia. apply Hdmin; lia.
    + unfold active. fold l. apply (Permutation_map (fun u => nth u mem' [])) in P2.
      eapply perm_trans; [exact P2|]. simpl.
      replace (nth a mem' []) with (A ++ Bc) by (symmetry; apply nth_replace_nth_eq; lia).
      apply perm_skip. erewrite map_ext_in; [reflexivity|].
      intros x Hx. unfold restl in Hx. apply filter_In in Hx as [_ Hx].
      apply andb_true_iff in Hx as [Hx _]. apply andb_true_iff in Hx as [_ Hx].
      apply negb_true_iff, Nat.eqb_neq in Hx. unfold mem'. apply nth_replace_nth_neq; auto.
  - intros k A' B' h Hk' i Hi. rewrite Et.
    destruct (Nat.lt_ge_cases k (length tr)) as [Hlt|Hge].
    + rewrite nth_error_app1 in Hk' by auto.
      pose proof (mt_tree _ _ _ T k A' B' h Hk' i Hi) as P. fold t in P.
      apply (updist_frame O t t8) in P; auto; try lia.
      * intros r Hr. congruence.
      * intros j nd Hnd Hj0 Hpar.
        assert (j <> c1) by (intros ->; congruence). assert (j <> c2) by (intros ->; congruence).
        destruct (Hfr j nd Hj0 H H0 Hnd) as (nd' & Hnd' & _ & _ & Q3 & _ & Q5 & _). eauto.
    + rewrite nth_error_app2 in Hk' by auto.
      destruct (k - length tr) as [|k'] eqn:Ek'; [|destruct k'; discriminate].
      injection Hk' as <- <- <-. assert (k = length tr) by lia. subst k.
      replace (n + 1 + length tr) with (length t) by lia.
      pose proof (ma_ultra _ _ M' a i Han) as P. rewrite Et, Ei, Eh in P.
      rewrite !nth_replace_nth_eq in P by (rewrite ?(si_lids _ _ _ _ _ I), ?(si_lheights _ _ _ _ _ I); lia).
      replace (davg A Bc / (1 + 1))%Qc with
        (ladd O (nth a (u_heights s) (l0 O)) (lsub O (ldiv O d (two O)) (nth a (u_heights s) (l0 O)))).
      * apply P. { apply Mu. auto. } unfold mem'. rewrite nth_replace_nth_eq by lia. exact Hi.
      * rewrite <- Hdab. unfold two. cbn [ladd lsub ldiv l1 QcOps]. ring.
Qed.


(* ---- unambiguous minima: the definitional run is unique (clusters as sets) ------------------------------------ *)
Lemma qsum_perm l l' : Permutation l l' -> qsum l = qsum l'.
Proof. induction 1; simpl; try congruence; ring. Qed.

Lemma dsum_perm S S' T T' : Permutation S S' -> Permutation T T' -> dsum S T = dsum S' T'.
Proof.
  intros HS HT. unfold dsum.
  rewrite (qsum_perm _ _ (Permutation_map (fun i => qsum (map (fun j => cell O m0 i j) T)) HS)).
  f_equal. apply map_ext. intros i. apply qsum_perm. apply Permutation_map. auto.
Qed.

Lemma davg_perm S S' T T' : Permutation S S' -> Permutation T T' -> davg S T = davg S' T'.
Proof.
  intros HS HT. unfold davg. rewrite (dsum_perm _ _ _ _ HS HT).
  rewrite (Permutation_length HS), (Permutation_length HT). reflexivity.
Qed.

Lemma davg_sym S T : davg S T = davg T S.
Proof.
  unfold davg. replace (dsum S T) with (dsum T S); [f_equal; ring|].
  unfold dsum. revert T. induction S as [|i S IH]; intros T; simpl.
  - induction T; simpl; auto. rewrite IHT. ring.
  - rewrite <- IH. clear IH. induction T as [|j T IHT]; simpl; [ring|].
    rewrite IHT. rewrite (cell_sym O m0 j i). ring.
Qed.

(* cluster lists up to reordering the list and the members of each cluster *)
Definition ceq (cl cl' : list (list nat)) : Prop :=
  exists cl'', Permutation cl cl'' /\ Forall2 (@Permutation nat) cl'' cl'.

Lemma Forall2_perm_refl (l : list (list nat)) : Forall2 (@Permutation nat) l l.
Proof. induction l; constructor; auto. Qed.

Lemma Forall2_perm_sym (l l' : list (list nat)) :
  Forall2 (@Permutation nat) l l' -> Forall2 (@Permutation nat) l' l.
Proof. induction 1; constructor; auto. apply Permutation_sym; auto. Qed.

Lemma ceq_refl cl : ceq cl cl.
Proof. exists cl. split; auto. apply Forall2_perm_refl. Qed.

Lemma ceq_perm_l cl0 cl cl' : Permutation cl0 cl -> ceq cl cl' -> ceq cl0 cl'.
Proof. intros HP (c & H1 & H2). exists c. split; auto. eapply perm_trans; eauto. Qed.

Lemma ceq_perm_r cl cl' cl0 : ceq cl cl' -> Permutation cl' cl0 -> ceq cl cl0.
Proof.
  intros (c & H1 & H2) HP.
  destruct (Forall2_perm _ _ _ _ (Forall2_perm_sym _ _ H2) (Permutation_sym HP)) as (c' & H3 & H4).
  exists c'. split; [eapply perm_trans; [exact H1|apply Permutation_sym; exact H4]|]. apply Forall2_perm_sym; auto.
Qed.

Lemma ceq_sym cl cl' : ceq cl cl' -> ceq cl' cl.
Proof.
  intros (c & H1 & H2). eapply ceq_perm_r; [|apply Permutation_sym; exact H1].
  exists cl'. split; auto. apply Forall2_perm_sym; auto.
Qed.

Lemma ceq_cons A A' cl cl' : Permutation A A' -> ceq cl cl' -> ceq (A :: cl) (A' :: cl').
Proof. intros HA (c & H1 & H2). exists (A :: c). split; auto. Qed.

(* pulling a pair of clusters back through the equivalence *)
Lemma ceq_extract2 cl cl' A' B' rest' :
  ceq cl cl' -> Permutation cl' (A' :: B' :: rest') ->
  exists C D rest, Permutation cl (C :: D :: rest) /\ Permutation C A' /\ Permutation D B' /\ ceq rest rest'.
Proof.
  intros Hc HP. pose proof (ceq_perm_r _ _ _ Hc HP) as (c & H1 & H2).
  inversion H2 as [|C ? c1 ? HC H3]; subst. inversion H3 as [|D ? c2 ? HD H4]; subst.
  exists C, D, c2. splits; auto. exists c2. split; auto.
Qed.

(* a step at which the minimum is attained by exactly one pair of clusters *)
Inductive al_strict : list (list nat) -> mtrace -> list (list nat) -> Prop :=
| als_nil : forall cl, al_strict cl [] cl
| als_snoc : forall cl tr cl1 A Bc rest cl2,
    al_strict cl tr cl1 ->
    Permutation cl1 (A :: Bc :: rest) ->
    (forall C D rest', Permutation cl1 (C :: D :: rest') ->
       (davg A Bc < davg C D)%Qc \/ (C = A /\ D = Bc) \/ (C = Bc /\ D = A)) ->
    Permutation cl2 ((A ++ Bc) :: rest) ->
    al_strict cl (tr ++ [(A, Bc, (davg A Bc / (1 + 1))%Qc)]) cl2.

(* same merges: equal heights, equal pairs of clusters as sets *)
Definition meq (e e' : list nat * list nat * Qc) : Prop :=
  let '(A, Bc, h) := e in let '(A', B', h') := e' in
  h = h' /\ ((Permutation A A' /\ Permutation Bc B') \/ (Permutation A B' /\ Permutation Bc A')).

Theorem al_unique : forall cl tr1 cl1,
  al_strict cl tr1 cl1 ->
  forall cl' tr2 cl2, al_steps cl' tr2 cl2 -> ceq cl cl' -> length tr1 = length tr2 ->
  Forall2 meq tr1 tr2 /\ ceq cl1 cl2.
Proof.
  induction 1 as [cl|cl tr cl1 A Bc rest cl2 Hrun IH HP Hstrict HP2]; intros cl' tr2 cl2' Hrun2 Hceq Hlen.
  - destruct tr2; [|discriminate]. inversion Hrun2; subst.
    + split; auto.
    + destruct tr; discriminate.
  - inversion Hrun2 as [|? tr' cl1' A' B' rest' ? Hrun2' HP' Hmin' HP2']; subst.
    { rewrite app_length in Hlen. simpl in Hlen. lia. }
    rewrite !app_length in Hlen. simpl in Hlen.
    destruct (IH _ _ _ Hrun2' Hceq ltac:(lia)) as [Htr Hc1].
    (* the pair chosen by the second run, seen in the first *)
    destruct (ceq_extract2 _ _ _ _ _ Hc1 HP') as (C & D & rest0 & HPc & HC & HD & Hrest).
    (* the pair chosen by the first run, seen in the second *)
    destruct (ceq_extract2 _ _ _ _ _ (ceq_sym _ _ Hc1) HP) as (A0 & B0 & rest1 & HPa & HA0 & HB0 & _).
    pose proof (Hmin' _ _ _ HPa) as Hle. rewrite (davg_perm _ _ _ _ HA0 HB0) in Hle.
    rewrite <- (davg_perm _ _ _ _ HC HD) in Hle.
    destruct (Hstrict _ _ _ HPc) as [Hlt|[[-> ->]|[-> ->]]].
    { exfalso. eapply Qcle_not_lt; eauto. }
    + (* same orientation *)
      assert (Hr : Permutation rest rest0).
      { eapply Permutation_cons_inv, Permutation_cons_inv. eapply perm_trans; [apply Permutation_sym; exact HP|exact HPc]. }
      split.
      * apply Forall2_app; auto. constructor; auto. simpl. split.
        -- rewrite (davg_perm _ _ _ _ HC HD). reflexivity.
        -- left. auto.
      * eapply ceq_perm_l; [exact HP2|]. eapply ceq_perm_r; [|apply Permutation_sym; exact HP2'].
        apply ceq_cons; [apply Permutation_app; auto|]. eapply ceq_perm_l; eauto.
    + (* swapped *)
      assert (Hr : Permutation rest rest0).
      { eapply Permutation_cons_inv, Permutation_cons_inv.
        eapply perm_trans; [apply Permutation_sym; exact HP|]. eapply perm_trans; [exact HPc|apply perm_swap]. }
      split.
      * apply Forall2_app; auto. constructor; auto. simpl. split.
        -- rewrite (davg_sym A Bc). rewrite (davg_perm _ _ _ _ HC HD). reflexivity.
        -- right. auto.
      * eapply ceq_perm_l; [exact HP2|]. eapply ceq_perm_r; [|apply Permutation_sym; exact HP2'].
        apply ceq_cons.
        -- eapply perm_trans; [apply Permutation_app_comm|]. apply Permutation_app; auto.
        -- eapply ceq_perm_l; eauto.
Qed.


(* ---- the last step ------------------------------------------------------------------------------------------------ *)
Lemma final_ultra s mem ai bi t5 :
  SInv O FinB n taxa s -> MInvA s mem ->
  (forall u, u < n -> nth u (u_merged s) true = false -> u = ai \/ u = bi) ->
  ai < n -> bi < n -> nth ai (u_merged s) true = false -> nth bi (u_merged s) true = false ->
  FinalRel O s ai bi t5 ->
  forall j, 1 <= j <= n -> updist O t5 j 0 (cell O (u_cells s) ai bi / (1 + 1))%Qc.
Proof.
  intros I M Honly Hai Hbi Mai Mbi FR j Hj. unfold FinalRel in FR. cbv zeta in FR.
  set (t := u_t s) in *. set (a := nth ai (u_ids s) 0) in *. set (b := nth bi (u_ids s) 0) in *.
  destruct FR as (Hwf5 & Hlen5 & Ha0 & Hb0 & Hab & Hfr & (r0 & r0' & Hr0 & Hr0' & Fe0 & Hch) &
                  (na & Hna & Hpa & Hna5) & (nb & Hnb & Hpb & Hnb5)).
  destruct (si_slots _ _ _ _ _ I _ _ Hr0) as (_ & R2 & _). destruct (R2 eq_refl) as [R3 _].
  assert (Hroot : forall r, nth_error t 0 = Some r -> nparent r = None) by (intros r Hr; congruence).
  assert (Hframe : forall j nd, nth_error t j = Some nd -> j <> 0 -> nparent nd <> Some 0 ->
            exists nd', nth_error t5 j = Some nd' /\ nparent nd' = nparent nd /\ npedge nd' = npedge nd).
  { intros k nd Hnd Hk0 Hpar.
    assert (k <> a) by (intros ->; congruence). assert (k <> b) by (intros ->; congruence).
    exists nd. rewrite Hfr; auto. }
  replace j with (S (j - 1)) by lia.
  destruct (ma_cover _ _ M (j - 1) ltac:(lia)) as (u & Hu & Hmu & Hin).
  destruct (Honly u Hu Hmu) as [->| ->].
  - pose proof (ma_ultra _ _ M ai (j - 1) Hai Mai Hin) as P. fold t a in P.
    apply (updist_frame O t t5) in P; auto.
    pose proof (updist_snoc t5 _ _ _ _ 0 _ P Hna5 Hpa eq_refl) as P2.
    replace (cell O (u_cells s) ai bi / (1 + 1))%Qc with
      (nth ai (u_heights s) (l0 O) +
       lsub O (ldiv O (cell O (u_cells s) ai bi) (two O)) (nth ai (u_heights s) (l0 O)))%Qc; auto.
    unfold two. cbn [ladd lsub ldiv l1 QcOps]. ring.
  - pose proof (ma_ultra _ _ M bi (j - 1) Hbi Mbi Hin) as P. fold t b in P.
    apply (updist_frame O t t5) in P; auto.
    pose proof (updist_snoc t5 _ _ _ _ 0 _ P Hnb5 Hpb eq_refl) as P2.
    replace (cell O (u_cells s) ai bi / (1 + 1))%Qc with
      (nth bi (u_heights s) (l0 O) +
       lsub O (ldiv O (cell O (u_cells s) ai bi) (two O)) (nth bi (u_heights s) (l0 O)))%Qc; auto.
    unfold two. cbn [ladd lsub ldiv l1 QcOps]. ring.
Qed.

Lemma final_nonneg s hl ai bi t5 :
  SInv O FinB n taxa s -> MInvB s hl ->
  ai < n -> bi < n -> ai <> bi -> nth ai (u_merged s) true = false -> nth bi (u_merged s) true = false ->
  FinalRel O s ai bi t5 ->
  (hl <= cell O (u_cells s) ai bi / (1 + 1))%Qc /\
  forall j nd e, nth_error t5 j = Some nd -> npedge nd = Some e -> (0 <= e)%Qc.
Proof.
  intros I M Hai Hbi Habi Mai Mbi FR. unfold FinalRel in FR. cbv zeta in FR.
  set (t := u_t s) in *. set (a := nth ai (u_ids s) 0) in *. set (b := nth bi (u_ids s) 0) in *.
  destruct FR as (Hwf5 & Hlen5 & Ha0 & Hb0 & Hab & Hfr & (r0 & r0' & Hr0 & Hr0' & Fe0 & Hch) &
                  (na & Hna & Hpa & Hna5) & (nb & Hnb & Hpb & Hnb5)).
  pose proof (mb_mono _ _ M ai bi Hai Hbi Habi Mai Mbi) as Hhl.
  destruct (half_facts _ _ _ (mb_low _ _ M ai Hai Mai) Hhl) as (F1 & F2 & _).
  destruct (half_facts _ _ _ (mb_low _ _ M bi Hbi Mbi) Hhl) as (_ & G2 & _).
  split; auto.
  intros j nd e Hnd He.
  destruct (Nat.eq_dec j 0) as [->|Hj0].
  { assert (nd = r0') by congruence. subst nd. destruct Fe0 as (_ & _ & _ & _ & Q5 & _).
    apply (mb_nonneg _ _ M 0 r0); auto. congruence. }
  destruct (Nat.eq_dec j a) as [->|Hja].
  { rewrite Hna5 in Hnd. injection Hnd as <-. simpl in He. injection He as <-. exact F2. }
  destruct (Nat.eq_dec j b) as [->|Hjb].
  { rewrite Hnb5 in Hnd. injection Hnd as <-. simpl in He. injection He as <-. exact G2. }
  rewrite Hfr in Hnd by auto. apply (mb_nonneg _ _ M j nd); auto.
Qed.


Lemma final_linkage s mem tr ai bi t5 :
  SInv O FinB n taxa s -> MInvA s mem -> MInvT s mem tr -> u_k s = 2 ->
  filter (unmb (u_merged s)) (seq 0 n) = [ai; bi] ->
  (forall u, u < n -> nth u (u_merged s) true = false -> u = ai \/ u = bi) ->
  ai < n -> bi < n -> ai <> bi -> nth ai (u_merged s) true = false -> nth bi (u_merged s) true = false ->
  FinalRel O s ai bi t5 ->
  let S := nth ai mem [] in
  let T := nth bi mem [] in
  al_steps singles (tr ++ [(S, T, (davg S T / (1 + 1))%Qc)]) [S ++ T] /\
  length tr = n - 2 /\
  (forall k A Bc h, nth_error tr k = Some (A, Bc, h) ->
     forall i, In i (A ++ Bc) -> updist O t5 (Datatypes.S i) (n + 1 + k) h) /\
  (forall i, i < n -> In i (S ++ T) /\ updist O t5 (Datatypes.S i) 0 (davg S T / (1 + 1))%Qc).
Proof.
  intros I M T Hk Hfil Honly Hai Hbi Hab Mai Mbi FR S0 T0.
  pose proof (ma_avg _ _ M ai bi Hai Hbi Hab Mai Mbi) as Eab. fold S0 T0 in Eab.
  pose proof (ma_avg _ _ M bi ai Hbi Hai ltac:(auto) Mbi Mai) as Eba. fold S0 T0 in Eba.
  assert (Hact : active s mem = [S0; T0]) by (unfold active; rewrite Hfil; reflexivity).
  splits.
  - apply al_snoc with (cl1 := active s mem) (rest := []).
    + apply (mt_run _ _ _ T).
    + rewrite Hact. reflexivity.
    + intros C D rest' HP. rewrite Hact in HP.
      pose proof (Permutation_length HP) as HL. simpl in HL. destruct rest'; [|discriminate].
      apply Permutation_length_2_inv in HP as [HP|HP]; injection HP as -> ->.
      * apply Qcle_refl.
      * rewrite <- Eab, <- Eba, cell_sym. apply Qcle_refl.
    + reflexivity.
  - pose proof (mt_len _ _ _ T). lia.
  - intros k A Bc h Hk' i Hi.
    pose proof (mt_tree _ _ _ T k A Bc h Hk' i Hi) as P.
    unfold FinalRel in FR. cbv zeta in FR.
    destruct FR as (_ & _ & Ha0 & Hb0 & _ & Hfr & (r0 & r0' & Hr0 & _ & _ & _) &
                    (na & Hna & Hpa & _) & (nb & Hnb & Hpb & _)).
    destruct (si_slots _ _ _ _ _ I _ _ Hr0) as (_ & R2 & _). destruct (R2 eq_refl) as [R3 _].
    apply (updist_frame O (u_t s) t5) in P; auto; try lia.
    + intros r Hr. congruence.
    + intros j nd Hnd Hj0 Hpar.
      assert (j <> nth ai (u_ids s) 0) by (intros ->; congruence).
      assert (j <> nth bi (u_ids s) 0) by (intros ->; congruence).
      exists nd. rewrite Hfr; auto.
  - intros i Hi. split.
    + destruct (ma_cover _ _ M i Hi) as (u & Hu & Hmu & Hin). apply in_or_app.
      destruct (Honly u Hu Hmu) as [->| ->]; auto.
    + rewrite <- Eab. apply (final_ultra s mem ai bi t5 I M Honly Hai Hbi Mai Mbi FR). lia.
Qed.


End Metric.

(* ---- reachable loop states ------------------------------------------------------------------------------------ *)
Section Reach.
Context {L : Type}.
Variable O : LenOps L.
Variable Fin : L -> Prop.
Hypothesis HSep : Separated O Fin.
Notation dmat := (@dmat L).

Inductive ureach (m : dmat) : @ustate L -> Prop :=
| ur_init : forall t1, StarInv (mtaxa m) t1 (seq 1 (msize m)) -> ureach m (st_init O (msize m) (mcells m) t1)
| ur_step : forall s s', ureach m s -> 2 < u_k s -> ustep O (msize m) s = Ok s' -> ureach m s'.

Lemma ureach_SInv (m : dmat) s :
  upgma_pre Fin m -> ureach m s -> SInv O Fin (msize m) (mtaxa m) s.
Proof.
  intros (H1 & H2 & H3 & H4) Hr. induction Hr as [t1 HS|s s' Hr IH Hk Hst].
  - pose proof (SInv_init O Fin (mtaxa m) (mcells m) t1) as I0. cbv zeta in I0. rewrite H1 in I0. apply I0; auto.
  - destruct (SInv_step O Fin HSep _ _ s IH Hk) as (s1 & Hst1 & I1 & _). congruence.
Qed.

(* the run of [upgma] goes through reachable states only, and ends in one with two clusters left *)
Lemma upgma_run_reach (m : dmat) :
  upgma_pre Fin m ->
  exists s ai bi t5,
    ureach m s /\ SInv O Fin (msize m) (mtaxa m) s /\ u_k s = 2 /\
    filter (unmb (u_merged s)) (seq 0 (msize m)) = [ai; bi] /\
    ai < msize m /\ bi < msize m /\ ai <> bi /\
    nth ai (u_merged s) true = false /\ nth bi (u_merged s) true = false /\
    (forall u, u < msize m -> nth u (u_merged s) true = false -> u = ai \/ u = bi) /\
    FinalRel O s ai bi t5 /\ upgma O m = Ok t5.
Proof.
  intros (H1 & H2 & H3 & H4).
  destruct (upgma_run O Fin HSep m (ureach m) H1 H2 H3 H4) as
    (s & ai & bi & t5 & Is & Js & Hk & Hfil & Q1 & Q2 & Q3 & Q4 & Q5 & Honly & FR & Hrun).
  - intros t1 HS. constructor; auto.
  - intros s s' _ Hr Hk Hst. eapply ur_step; eauto.
  - exists s, ai, bi, t5. splits; auto.
Qed.

End Reach.

(* ================================================================================================== *)
(* Part II, theorems (Qc; B = the marker written into retired cells, above every input distance)       *)
(* ================================================================================================== *)
Section MetricTheorems.
Variable B : Qc.
Notation O := (QcOps B).
Notation dmat := (@dmat Qc).

(* invariants hold in every reachable state *)
Theorem upgma_avg (m : dmat) s :
  upgma_pre (FinB B) m -> ureach O m s ->
  exists mem, MInvA B (mcells m) (msize m) s mem.
Proof.
  intros Hpre Hr. induction Hr as [t1 HS|s s' Hr IH Hk Hst].
  - eexists. apply MInvA_init with (taxa := mtaxa m). auto.
  - destruct IH as (mem & M).
    destruct (MInvA_step B (mcells m) (msize m) (mtaxa m) s s' mem) as (a & b & _ & _ & _ & _ & _ & M'); auto.
    + apply ureach_SInv; auto. apply QcSep.
    + eauto.
Qed.

Definition nonneg_cells (m : dmat) : Prop := Forall (fun x => 0 <= x)%Qc (mcells m).

Theorem upgma_heights (m : dmat) s :
  upgma_pre (FinB B) m -> nonneg_cells m -> ureach O m s ->
  exists hl, MInvB B (msize m) s hl.
Proof.
  intros Hpre Hnn Hr. induction Hr as [t1 HS|s s' Hr IH Hk Hst].
  - exists 0%Qc. destruct Hpre as (H1 & H2 & H3 & H4). apply MInvB_init with (taxa := mtaxa m); auto.
  - destruct IH as (hl & M).
    destruct (MInvB_step B (msize m) (mtaxa m) s s' hl) as (a & b & _ & _ & M'); auto.
    + apply ureach_SInv; auto. apply QcSep.
    + eauto.
Qed.

(* merge heights never decrease: the height of the next merge (half the minimal cell) is at least the bound
   [hl] on all current cluster heights, and it becomes the new bound *)
Theorem upgma_heights_mono (m : dmat) s s' hl :
  upgma_pre (FinB B) m -> ureach O m s -> MInvB B (msize m) s hl -> 2 < u_k s ->
  ustep O (msize m) s = Ok s' ->
  exists a b, dm_min O (mkDmat (msize m) [] (u_cells s)) = Some (a, b, cell O (u_cells s) a b) /\
    (hl <= cell O (u_cells s) a b / (1 + 1))%Qc /\ MInvB B (msize m) s' (cell O (u_cells s) a b / (1 + 1))%Qc.
Proof.
  intros Hpre Hr M Hk Hst. apply (MInvB_step B (msize m) (mtaxa m) s s' hl); auto.
  apply ureach_SInv; auto. apply QcSep.
Qed.

(* all leaves are at the same distance from the root *)
Theorem upgma_ultra (m : dmat) t :
  upgma_pre (FinB B) m -> upgma O m = Ok t ->
  exists th, forall j, 1 <= j <= msize m -> updist O t j 0 th.
Proof.
  intros Hpre Ht.
  destruct (upgma_run_reach O (FinB B) (QcSep B) m Hpre)
    as (s & ai & bi & t5 & Hr & Is & Hk & Hfil & Hai & Hbi & Hab & Mai & Mbi & Honly & FR & Hrun).
  assert (t5 = t) by congruence. subst t5.
  destruct (upgma_avg m s Hpre Hr) as (mem & M).
  eexists. eapply final_ultra; eauto.
Qed.

(* non-negative input distances give non-negative branch lengths *)
Theorem upgma_nonneg (m : dmat) t :
  upgma_pre (FinB B) m -> nonneg_cells m -> upgma O m = Ok t ->
  forall j nd e, nth_error t j = Some nd -> npedge nd = Some e -> (0 <= e)%Qc.
Proof.
  intros Hpre Hnn Ht.
  destruct (upgma_run_reach O (FinB B) (QcSep B) m Hpre)
    as (s & ai & bi & t5 & Hr & Is & Hk & Hfil & Hai & Hbi & Hab & Mai & Mbi & Honly & FR & Hrun).
  assert (t5 = t) by congruence. subst t5.
  destruct (upgma_heights m s Hpre Hnn Hr) as (hl & M).
  destruct (final_nonneg B (msize m) (mtaxa m) s hl ai bi t Is M Hai Hbi Hab Mai Mbi FR) as [_ H]. exact H.
Qed.

(* the trace of merges is a run of average linkage, in every reachable state *)
Theorem upgma_trace (m : dmat) s :
  upgma_pre (FinB B) m -> ureach O m s ->
  exists mem tr, MInvA B (mcells m) (msize m) s mem /\ MInvT B (mcells m) (msize m) s mem tr.
Proof.
  intros Hpre Hr. induction Hr as [t1 HS|s s' Hr IH Hk Hst].
  - eexists. exists []. split.
    + apply MInvA_init with (taxa := mtaxa m). auto.
    + apply MInvT_init.
  - destruct IH as (mem & tr & M & T).
    apply (MInvT_step B (mcells m) (msize m) (mtaxa m) s s' mem tr); auto.
    apply ureach_SInv; auto. apply QcSep.
Qed.

(* C15, last clause: the internal nodes of the result, in creation order n+1, n+2, ..., 2n-2 and finally the root,
   are exactly the merges of a run of average linkage (computed from its definition on the input matrix):
   node n+1+k joins the clusters A_k and B_k, all leaves of A_k ++ B_k are at distance davg A_k B_k / 2 below it,
   and the root joins the last two clusters S and T at height davg S T / 2. *)
Definition linkage_witness (m : dmat) (t : @arena Qc) (tr : mtrace) (S T : list nat) : Prop :=
  let n := msize m in
  al_steps B (mcells m) (singles n) (tr ++ [(S, T, (davg B (mcells m) S T / (1 + 1))%Qc)]) [S ++ T] /\
  length tr = n - 2 /\
  (forall k A Bc h, nth_error tr k = Some (A, Bc, h) ->
     forall i, In i (A ++ Bc) -> updist O t (Datatypes.S i) (n + 1 + k) h) /\
  (forall i, i < n -> In i (S ++ T) /\
     updist O t (Datatypes.S i) 0 (davg B (mcells m) S T / (1 + 1))%Qc).

Theorem upgma_linkage (m : dmat) t :
  upgma_pre (FinB B) m -> upgma O m = Ok t -> exists tr S T, linkage_witness m t tr S T.
Proof.
  intros Hpre Ht.
  destruct (upgma_run_reach O (FinB B) (QcSep B) m Hpre)
    as (s & ai & bi & t5 & Hr & Is & Hk & Hfil & Hai & Hbi & Hab & Mai & Mbi & Honly & FR & Hrun).
  assert (t5 = t) by congruence. subst t5.
  destruct (upgma_trace m s Hpre Hr) as (mem & tr & M & T).
  exists tr, (nth ai mem []), (nth bi mem []).
  apply (final_linkage B (mcells m) (msize m) (mtaxa m) s mem tr ai bi t); auto.
Qed.

(* ... and when every minimum is attained by a single pair of clusters ([al_strict]: a reference run in which each
   chosen pair is strictly closer than every other pair), that run is the only one: the merges recorded in the tree
   have the same heights and the same clusters (as sets) as the reference run. *)
Theorem upgma_linkage_unique (m : dmat) t tr S T tr_ref cl_ref :
  2 <= msize m -> linkage_witness m t tr S T ->
  al_strict B (mcells m) (singles (msize m)) tr_ref cl_ref -> length tr_ref = msize m - 1 ->
  Forall2 meq tr_ref (tr ++ [(S, T, (davg B (mcells m) S T / (1 + 1))%Qc)]) /\ ceq cl_ref [S ++ T].
Proof.
  intros Hn (Hrun & Hlen & _) Hstrict Hl.
  apply (al_unique B (mcells m) _ _ _ Hstrict _ _ _ Hrun (ceq_refl _)).
  rewrite app_length. simpl. lia.
Qed.

End MetricTheorems.

(* the hypothesis on the marker cannot be dropped: with a marker below the live distances the minimal cell is a
   retired one at the second iteration and the unwrap of merge_children fires (cf. upgma_total) *)
Example marker_must_dominate :
  let q := fun z => Q2Qc (inject_Z z) in
  let m := mkDmat 4 [[97%N]; [98%N]; [99%N]; [100%N]] [q 2%Z; q 6%Z; q 8%Z; q 9%Z; q 7%Z; q 5%Z] in
  upgma (QcOps (q 1%Z)) m = Panic 34 /\ exists t, upgma (QcOps (q 100%Z)) m = Ok t.
Proof. split; [vm_compute; reflexivity|eexists; vm_compute; reflexivity]. Qed.

(* ---- audit ------------------------------------------------------------------------------------------------------ *)
Print Assumptions upgma_ok.
Print Assumptions upgma_no_panic.
Print Assumptions upgma_shape.
Print Assumptions upgma_lengths_present.
Print Assumptions upgma_rooted_binary.
Print Assumptions upgma_small.
Print Assumptions upgma_total.
Print Assumptions upgma_ultra.
Print Assumptions upgma_avg.
Print Assumptions upgma_heights_mono.
Print Assumptions upgma_nonneg.
Print Assumptions upgma_linkage.
Print Assumptions upgma_linkage_unique.
