(* UpgmaProps.v — C15: the UPGMA model (Matrix.v: upgma_loop / upgma).
   Part I   (any LenOps, structure only): no panic, shape of the result, lengths present.
   Part II  (Qc): ultrametricity, average linkage, monotone heights / non-negative lengths. *)
From PT Require Import Arena Spec Queries Matrix RepLib WFOps Tril.
From Coq Require Import Permutation Sorted Lia List Arith Bool.

Local Arguments ids : simpl never.
Local Arguments reset_depth_f : simpl never.

Ltac slot :=
  repeat first [ rewrite nth_error_replace_nth_neq by (auto; congruence)
               | rewrite nth_error_replace_nth_eq by (rewrite ?replace_nth_length; auto; lia) ].

(* ---- generic list facts ----------------------------------------------------------------------------- *)
Lemma nth_replace_nth_eq {A} k (x d : A) l : k < length l -> nth k (replace_nth k x l) d = x.
Proof. revert k; induction l; destruct k; simpl; intros; try lia; auto. apply IHl; lia. Qed.

Lemma nth_replace_nth_neq {A} k j (x d : A) l : j <> k -> nth j (replace_nth k x l) d = nth j l d.
Proof. revert k j; induction l; destruct k, j; simpl; intros; try congruence; auto. Qed.

Lemma nth_of_nth_error {A} (l : list A) k x d : nth_error l k = Some x -> nth k l d = x.
Proof. intros H. apply nth_error_nth. auto. Qed.

Lemma nth_error_of_nth {A} (l : list A) k d : k < length l -> nth_error l k = Some (nth k l d).
Proof. intros H. apply nth_error_nth'. auto. Qed.

Lemma nth_repeat_lt {A} (x d : A) n k : k < n -> nth k (repeat x n) d = x.
Proof. revert k; induction n; destruct k; simpl; intros; try lia; auto. apply IHn; lia. Qed.

Lemma NoDup_two_cases (l : list nat) a b :
  NoDup l -> a <> b -> (forall c, In c l <-> c = a \/ c = b) -> l = [a; b] \/ l = [b; a].
Proof.
  intros Hnd Hab Hin.
  destruct l as [|x [|y [|z l]]].
  - exfalso. apply (proj2 (Hin a)); auto.
  - exfalso. assert (In a [x]) by (apply Hin; auto). assert (In b [x]) by (apply Hin; auto).
    simpl in *. intuition congruence.
  - assert (Hx : x = a \/ x = b) by (apply Hin; simpl; auto).
    assert (Hy : y = a \/ y = b) by (apply Hin; simpl; auto).
    inversion Hnd; subst. simpl in H1.
    destruct Hx, Hy; subst; auto; exfalso; apply H1; auto.
  - exfalso.
    assert (Hx : x = a \/ x = b) by (apply Hin; simpl; auto).
    assert (Hy : y = a \/ y = b) by (apply Hin; simpl; auto).
    assert (Hz : z = a \/ z = b) by (apply Hin; simpl; auto).
    inversion Hnd as [|? ? N1 Hnd1]; subst. inversion Hnd1 as [|? ? N2 Hnd2]; subst. simpl in N1, N2.
    destruct Hx, Hy, Hz; subst; intuition congruence.
Qed.

Section Structure.
Context {L : Type}.
Notation arena := (@arena L).
Notation node := (@node L).

(* ---- reset_depth_f only touches cached depths -------------------------------------------------------- *)
Lemma reset_depth_f_do : forall fuel (t : arena) i d t',
  reset_depth_f fuel t i d = Ok t' -> depth_only t t' /\ length t' = length t.
Proof.
  induction fuel as [|f IH]; intros t i d t' H; [discriminate|].
  unfold reset_depth_f in H. fold (@reset_depth_f L) in H.
  apply bind_Ok in H as (n & Hg & H). apply get_Ok in Hg as [Hn Hd].
  revert H. apply (foldM_inv (fun s => depth_only t s /\ length s = length t)).
  - intros s a s' [Hs Hl] Hstep. apply IH in Hstep as [Hdo Hl']. split.
    + eapply depth_only_trans; eauto.
    + congruence.
  - split; [apply depth_only_replace; auto | apply replace_nth_length].
Qed.

(* equality of all fields the structural statements talk about (everything but cached depth, edges, comment) *)
Definition feq (n n' : node) : Prop :=
  nid n' = nid n /\ nname n' = nname n /\ nparent n' = nparent n /\ nchildren n' = nchildren n /\
  npedge n' = npedge n /\ ndeleted n' = ndeleted n.

Lemma feq_refl n : feq n n.
Proof. unfold feq; auto 10. Qed.

Lemma feq_set_ndepth n d : feq n (set_ndepth n d).
Proof. unfold feq; simpl; auto 10. Qed.

Lemma depth_only_slot (t t' : arena) j n :
  depth_only t t' -> nth_error t j = Some n -> exists n', nth_error t' j = Some n' /\ feq n n'.
Proof. intros Hdo Hn. destruct (Hdo _ _ Hn) as (d & Hd). eexists; split; eauto. apply feq_set_ndepth. Qed.

Lemma nrc_name (n : node) c n' : node_remove_child n c = Some n' -> nname n' = nname n.
Proof. unfold node_remove_child. destruct (index_of c (nchildren n)); [|discriminate]. intros [= <-]. reflexivity. Qed.

Lemma nac_name (n : node) c e : nname (node_add_child n c e) = nname n.
Proof. destruct e; reflexivity. Qed.

(* ---- merge_children, precise effect ------------------------------------------------------------------- *)
Lemma merge_spec (t : arena) pid nP c1 c2 n1 n2 e1 e2 pe nm :
  WFS t -> get t pid = Ok nP -> get t c1 = Ok n1 -> get t c2 = Ok n2 ->
  nparent n1 = Some pid -> nparent n2 = Some pid -> c1 <> c2 ->
  exists t8,
    merge_children t c1 c2 e1 e2 pe nm = (Ok (t8, length t), t8) /\ WFS t8 /\ length t8 = S (length t) /\
    c1 <> pid /\ c2 <> pid /\
    (forall j n, j <> pid -> j <> c1 -> j <> c2 -> nth_error t j = Some n ->
                 exists n', nth_error t8 j = Some n' /\ feq n n') /\
    (exists P', nth_error t8 pid = Some P' /\ nid P' = nid nP /\ nname P' = nname nP /\
                nparent P' = nparent nP /\ npedge P' = npedge nP /\ ndeleted P' = false /\
                nchildren P' = filter (fun k => negb (Nat.eqb k c1) && negb (Nat.eqb k c2)) (nchildren nP)
                               ++ [length t]) /\
    (exists m1, nth_error t8 c1 = Some m1 /\ nid m1 = nid n1 /\ nname m1 = nname n1 /\
                nparent m1 = Some (length t) /\ nchildren m1 = nchildren n1 /\ npedge m1 = e1 /\
                ndeleted m1 = false) /\
    (exists m2, nth_error t8 c2 = Some m2 /\ nid m2 = nid n2 /\ nname m2 = nname n2 /\
                nparent m2 = Some (length t) /\ nchildren m2 = nchildren n2 /\ npedge m2 = e2 /\
                ndeleted m2 = false) /\
    (exists u, nth_error t8 (length t) = Some u /\ nid u = length t /\ nname u = nm /\
               nparent u = Some pid /\ nchildren u = [c1; c2] /\ npedge u = pe /\ ndeleted u = false).
Proof.
  intros Hwfs HgP Hg1 Hg2 Hp1 Hp2 Hc12. pose proof Hwfs as [Hwf Hse].
  destruct (WF_parent_of _ _ _ _ Hwf Hg1 Hp1) as (nP' & HgP' & Hc1).
  assert (nP' = nP) by congruence. subst nP'. clear HgP'.
  destruct (WF_parent_of _ _ _ _ Hwf Hg2 Hp2) as (nP' & HgP' & Hc2).
  assert (nP' = nP) by congruence. subst nP'. clear HgP'.
  destruct (nrc_Some nP c1 Hc1) as (pn1 & l1 & l2 & Hrm1 & Hs1 & _ & Hch1 & _).
  assert (Hc2' : In c2 (nchildren pn1)).
  { rewrite Hch1. rewrite Hs1 in Hc2. apply in_app_or in Hc2 as [?|[?|?]]; try congruence; apply in_or_app; auto. }
  destruct (nrc_Some pn1 c2 Hc2') as (pn2 & m1 & m2 & Hrm2 & _).
  destruct (merge_chain_wf t pid nP c1 c2 n1 n2 e1 e2 pe nm pn1 pn2 Hwfs HgP Hg1 Hg2 Hc1 Hc2 Hc12 Hrm1 Hrm2)
    as (t8 & Hchain & Hwf8).
  exists t8.
  assert (Hmc : merge_children t c1 c2 e1 e2 pe nm = (Ok (t8, length t), t8)).
  { unfold merge_children. rewrite Hg1, Hg2, Hp1, Hp2. simpl. rewrite Nat.eqb_refl. simpl.
    destruct (Nat.eqb c1 c2) eqn:E; [apply Nat.eqb_eq in E; congruence|].
    rewrite HgP. simpl. rewrite Hrm1, Hrm2.
    assert (HgP2 : get (replace_nth pid pn2 t) pid = Ok pn2).
    { apply get_Ok in HgP as [HnP HdP]. apply get_Ok. split.
      - eapply nth_error_replace_nth_eq'; eauto.
      - destruct (nrc_inv _ _ _ Hrm1) as (? & ? & _ & _ & _ & _ & _ & _ & _ & _ & Q1).
        destruct (nrc_inv _ _ _ Hrm2) as (? & ? & _ & _ & _ & _ & _ & _ & _ & _ & Q2). congruence. }
    rewrite (add_child_Ok _ _ _ _ _ _ HgP2). rewrite replace_nth_length.
    unfold merge_chain in Hchain. cbv iota beta. rewrite Hchain. reflexivity. }
  (* explicit form of the chain *)
  apply get_Ok in HgP as [HnP HdP]. apply get_Ok in Hg1 as [Hn1 Hd1]. apply get_Ok in Hg2 as [Hn2 Hd2].
  destruct (WF_node_facts t pid nP Hwf HnP HdP) as (Hndch & Hchl & He2 & FidP).
  destruct (nrc2_facts nP c1 c2 pn1 pn2 Hndch (Hse _ _ HnP) Hc12 Hrm1 Hrm2)
    as (F1 & F2 & F3 & F4 & F5 & Fch & Feo & Fe1 & Fe2 & Fks).
  set (new := length t) in *.
  assert (HltP : pid < length t) by (eapply nth_error_Some_lt; eauto).
  assert (Hlt1 : c1 < length t) by (eapply nth_error_Some_lt; eauto).
  assert (Hlt2 : c2 < length t) by (eapply nth_error_Some_lt; eauto).
  destruct (Hchl _ Hc1) as [_ Hc1P]. destruct (Hchl _ Hc2) as [_ Hc2P].
  assert (Hc1n : c1 <> new) by (unfold new; lia). assert (Hc2n : c2 <> new) by (unfold new; lia).
  assert (HPn : pid <> new) by (unfold new; lia).
  set (T := replace_nth pid pn2 t) in *.
  assert (HlenT : length T = length t) by apply replace_nth_length.
  set (Y := leaf_node new None None pid pe (ndepth pn2 + 1)) in *.
  set (XP := node_add_child pn2 new pe) in *.
  assert (HltPT : pid < length T) by lia.
  destruct (slots_add_leaf T pid XP Y HltPT) as (HsP & Hsnew & Hsfr & Hslen).
  set (T1 := replace_nth pid XP (T ++ [Y])) in *. rewrite HlenT in Hsnew, Hsfr, Hslen. fold new in Hsnew, Hsfr.
  set (XN := set_nname (node_add_child (node_add_child Y c1 e1) c2 e2) nm).
  set (A := node_set_parent n1 new e1). set (B := node_set_parent n2 new e2).
  set (t4 := replace_nth c2 B (replace_nth c1 A (replace_nth new XN T1))).
  assert (Hg_new : get T1 new = Ok Y) by (apply get_Ok; auto).
  assert (Hg_c1 : get (replace_nth new XN T1) c1 = Ok n1).
  { apply get_Ok. split; auto. slot. rewrite Hsfr by auto. unfold T. slot. auto. }
  assert (Hg_c2 : get (replace_nth c1 A (replace_nth new XN T1)) c2 = Ok n2).
  { apply get_Ok. split; auto. slot. rewrite Hsfr by auto. unfold T. slot. auto. }
  assert (S_new : nth_error t4 new = Some XN) by (unfold t4; slot; auto).
  assert (S_P : nth_error t4 pid = Some XP) by (unfold t4; slot; auto).
  assert (S_c1 : nth_error t4 c1 = Some A) by (unfold t4; slot; auto).
  assert (S_c2 : nth_error t4 c2 = Some B) by (unfold t4; slot; auto).
  assert (S_o : forall j, j <> pid -> j <> new -> j <> c1 -> j <> c2 -> nth_error t4 j = nth_error t j).
  { intros. unfold t4. slot. rewrite Hsfr by auto. unfold T. slot. auto. }
  assert (Hlen4 : length t4 = S (length t)).
  { unfold t4. rewrite !replace_nth_length. auto. }
  assert (Hg_new4 : get t4 new = Ok XN)
    by (apply get_Ok; split; auto; unfold XN, Y; destruct e1, e2; reflexivity).
  unfold merge_chain in Hchain.
  rewrite (upd_Ok _ _ _ _ Hg_new), bind_ret in Hchain.
  rewrite (upd_Ok _ _ _ _ Hg_c1), bind_ret in Hchain.
  rewrite (upd_Ok _ _ _ _ Hg_c2), bind_ret in Hchain.
  fold XN A B t4 in Hchain. rewrite Hg_new4, bind_ret in Hchain.
  apply reset_depth_f_do in Hchain as [Hdo Hlen8].
  destruct (nac_fields pn2 new pe) as (Gid & Gpar & Gpe & Gdep & Gdel & Gch). fold XP in Gid, Gpar, Gpe, Gdep, Gdel, Gch.
  assert (nid XN = new /\ nparent XN = Some pid /\ npedge XN = pe /\ ndeleted XN = false /\
          nchildren XN = [c1; c2] /\ nname XN = nm) as (W1 & W2 & W3 & W4 & W5 & W6)
    by (unfold XN, Y; destruct e1, e2; simpl; auto 10).
  splits; auto; try congruence.
  - unfold new. lia.
  - intros j n Hj0 Hj1 Hj2 Hn. eapply depth_only_slot; eauto.
    rewrite S_o; auto. apply nth_error_Some_lt in Hn. unfold new. lia.
  - destruct (depth_only_slot _ _ _ _ Hdo S_P) as (P' & HP' & Q1 & Q2 & Q3 & Q4 & Q5 & Q6).
    exists P'. splits; auto; try congruence.
    + rewrite Q2. unfold XP. rewrite nac_name. rewrite (nrc_name _ _ _ Hrm2). apply (nrc_name _ _ _ Hrm1).
  - destruct (depth_only_slot _ _ _ _ Hdo S_c1) as (m1' & Hm1' & Q1 & Q2 & Q3 & Q4 & Q5 & Q6).
    exists m1'. unfold A in *. simpl in *. splits; auto; congruence.
  - destruct (depth_only_slot _ _ _ _ Hdo S_c2) as (m2' & Hm2' & Q1 & Q2 & Q3 & Q4 & Q5 & Q6).
    exists m2'. unfold B in *. simpl in *. splits; auto; congruence.
  - destruct (depth_only_slot _ _ _ _ Hdo S_new) as (u & Hu & Q1 & Q2 & Q3 & Q4 & Q5 & Q6).
    exists u. splits; auto; congruence.
Qed.

(* ---- giving lengths to the edges between the root and its children (last step of upgma) ---------------- *)
Lemma relabel_root_wf (t t' : arena) n0 n0' :
  WFS t -> nth_error t 0 = Some n0 -> nparent n0 = None -> ndeleted n0 = false ->
  nth_error t' 0 = Some n0' ->
  nid n0' = nid n0 -> nparent n0' = nparent n0 -> nchildren n0' = nchildren n0 -> ndepth n0' = ndepth n0 ->
  ndeleted n0' = false -> ksorted (nedges n0') ->
  (forall c, In c (nchildren n0) -> exists nc e, nth_error t c = Some nc /\
       nth_error t' c = Some (set_npedge nc e) /\ edge_get (nedges n0') c = e) ->
  (forall c, edge_get (nedges n0') c <> None -> In c (nchildren n0)) ->
  (forall j, j <> 0 -> ~ In j (nchildren n0) -> nth_error t' j = nth_error t j) ->
  WFS t'.
Proof.
  intros [Hwf Hse] Hn0 Hp0 Hd0 Hn0' Fid Fpar Fch Fdep Fdel Fks Hrel Hed Hfr.
  assert (Hl0 : live t 0) by (exists n0; auto).
  destruct Hwf as [Hno|(root & r & HR & Hnd & Hlive)]; [exfalso; eapply Hno; eauto|].
  assert (root = 0) by (symmetry; eapply Rep_root_unique; eauto). subst root.
  destruct (Rep_inv _ _ _ _ _ HR) as (n & cs & -> & Hn & Hdel & Hid & Hp & Hd & HF & He1 & He2).
  assert (n = n0) by congruence. subst n.
  rewrite ids_RT in Hnd. apply NoDup_cons_iff in Hnd as [H0cs Hndcs].
  pose proof (Forall2_Rep_rid _ _ _ _ _ HF) as Hch.
  split.
  - right. exists 0, (RT 0 cs). splits.
    + apply Rep_node with (n := n0'); auto; try congruence.
      * rewrite Fch. eapply Forall2_impl_In; [|exact HF]. simpl. intros a b Ha Hb HRa.
        destruct (Rep_inv _ _ _ _ _ HRa) as (na & csa & -> & Hna & Hda & Hida & Hpa & Hdepa & HFa & Ea1 & Ea2).
        destruct (Hrel a Ha) as (nc & e & Hnc & Hnc' & _). assert (nc = na) by congruence. subst nc.
        pose proof (NoDup_flat_map_in _ _ _ Hndcs Hb) as Hndb. rewrite ids_RT in Hndb.
        apply NoDup_cons_iff in Hndb as [Hacsa _].
        assert (Hfra : forall j, In j (flat_map ids csa) -> nth_error t' j = nth_error t j).
        { intros j Hj. assert (Hjb : In j (ids (RT a csa))) by (rewrite ids_RT; right; auto).
          apply Hfr.
          - intros ->. apply H0cs. apply in_flat_map. eauto.
          - intros Hjc. rewrite Hch in Hjc. apply in_map_iff in Hjc as (b' & Hrid & Hb').
            assert (RT a csa = b').
            { eapply flat_map_NoDup_inj with (f := ids); eauto. rewrite <- Hrid. apply In_rid_ids. }
            subst b'. simpl in Hrid. subst j. auto. }
        apply Rep_node with (n := set_npedge na e); simpl; auto.
        -- eapply Forall2_Rep_frame; eauto.
        -- intros c nc Hc Hnc2. rewrite Hfra in Hnc2; eauto.
           apply In_map_rid_flat. rewrite <- (Forall2_Rep_rid _ _ _ _ _ HFa). auto.
      * intros c nc Hc Hnc. rewrite Fch in Hc. destruct (Hrel c Hc) as (nc0 & e & _ & Hnc' & He).
        rewrite Hnc' in Hnc. injection Hnc as <-. simpl. auto.
      * intros c Hc. rewrite Fch. auto.
    + rewrite ids_RT. constructor; auto.
    + intros i (ni & Hni & Hdi). apply Hlive.
      destruct (Nat.eq_dec i 0) as [->|Hi0]; auto.
      destruct (in_dec Nat.eq_dec i (nchildren n0)) as [Hic|Hic].
      * destruct (Hrel i Hic) as (nc & e & Hnc & Hnc' & _). exists nc. split; auto.
        rewrite Hnc' in Hni. injection Hni as <-. auto.
      * rewrite Hfr in Hni by auto. exists ni; auto.
  - intros i ni Hni.
    destruct (Nat.eq_dec i 0) as [->|Hi0]; [congruence|].
    destruct (in_dec Nat.eq_dec i (nchildren n0)) as [Hic|Hic].
    + destruct (Hrel i Hic) as (nc & e & Hnc & Hnc' & _).
      rewrite Hnc' in Hni. injection Hni as <-. simpl. eauto.
    + rewrite Hfr in Hni by auto. eauto.
Qed.

End Structure.

(* ================================================================================================== *)
(* Part I: the loop as a state machine, and the structural invariant                                   *)
(* ================================================================================================== *)
Section Loop.
Context {L : Type}.
Variable O : LenOps L.
Notation arena := (@arena L).
Notation node := (@node L).

(* weighted average used for the distances of a merged cluster *)
Definition avg2 (ca cb : nat) (x y : L) : L :=
  ldiv O (ladd O (lmul O (lofnat O ca) x) (lmul O (lofnat O cb) y)) (ladd O (lofnat O ca) (lofnat O cb)).

(* [Separated Fin]: the values that can occur in live cells (a class [Fin] closed under the update rule)
   are strictly below the marker [linf O] written into retired cells.  This is the only thing the
   structural theorems need from the comparison. *)
Record Separated (Fin : L -> Prop) : Prop := {
  sep_lt : forall x, Fin x -> lltb O x (linf O) = true;
  sep_gt : forall x, Fin x -> lltb O (linf O) x = false;
  sep_avg : forall ca cb x y, 0 < ca -> 0 < cb -> Fin x -> Fin y -> Fin (avg2 ca cb x y) }.

(* ---- cells ------------------------------------------------------------------------------------------ *)
Definition peq (i j p q : nat) : Prop := (i = p /\ j = q) \/ (i = q /\ j = p).

Lemma cell_sym (cs : list L) i j : cell O cs i j = cell O cs j i.
Proof. unfold cell. rewrite tril_sym. reflexivity. Qed.

Lemma cell_replace_eq (cs : list L) n p q v :
  p <> q -> p < n -> q < n -> length cs = n * (n - 1) / 2 ->
  cell O (replace_at cs (tril_idx p q) v) p q = v.
Proof.
  intros Hpq Hp Hq Hlen. unfold cell. apply nth_of_nth_error. apply replace_at_same.
  rewrite Hlen. apply tril_lt_any; auto.
Qed.

Lemma cell_replace_neq (cs : list L) p q i j v :
  i <> j -> p <> q -> ~ peq i j p q ->
  cell O (replace_at cs (tril_idx p q) v) i j = cell O cs i j.
Proof.
  intros Hij Hpq Hne. unfold cell.
  assert (Hk : tril_idx p q <> tril_idx i j).
  { intros E. symmetry in E. apply tril_inj_any in E; auto. }
  pose proof (replace_at_other cs _ _ v Hk) as H.
  destruct (nth_error cs (tril_idx i j)) as [w|] eqn:E.
  - rewrite (nth_of_nth_error _ _ _ _ H). symmetry. apply nth_of_nth_error. auto.
  - apply nth_error_None in E. rewrite !nth_overflow; auto. rewrite replace_at_length. auto.
Qed.

Definition cells_step (a b ca cb : nat) (merged' : list bool) (cs : list L) (x : nat) : list L :=
  if nth x merged' true then cs else
  let cs1 := if negb (Nat.eqb x a) && negb (Nat.eqb b x)
             then replace_at cs (tril_idx a x) (avg2 ca cb (cell O cs x a) (cell O cs x b))
             else cs in
  if negb (Nat.eqb b x) then replace_at cs1 (tril_idx b x) (linf O) else cs1.

Lemma cells_fold_spec n a b ca cb merged' :
  a < n -> b < n -> a <> b -> nth b merged' true = true ->
  forall xs cs, NoDup xs -> (forall x, In x xs -> x < n) -> length cs = n * (n - 1) / 2 ->
  let cs' := fold_left (cells_step a b ca cb merged') xs cs in
  length cs' = length cs /\
  (forall x, In x xs -> nth x merged' true = false ->
     cell O cs' b x = linf O /\
     (x <> a -> cell O cs' a x = avg2 ca cb (cell O cs x a) (cell O cs x b))) /\
  (forall i j, i <> j ->
     (forall x, In x xs -> nth x merged' true = false -> ~ peq i j b x /\ ~ (x <> a /\ peq i j a x)) ->
     cell O cs' i j = cell O cs i j).
Proof.
  intros Ha Hb Hab Hmb xs. induction xs as [|x xs IH] using rev_ind; intros cs Hnd Hlt Hlen; simpl.
  - splits; auto. intros x [].
  - apply NoDup_app_iff in Hnd as (Hnd1 & _ & Hdisj).
    assert (Hx : x < n) by (apply Hlt; apply in_or_app; simpl; auto).
    assert (Hxn : ~ In x xs) by (intros Hin; eapply Hdisj; eauto; simpl; auto).
    assert (Hinx : In x (xs ++ [x])) by (apply in_or_app; simpl; auto).
    destruct (IH cs Hnd1 (fun y Hy => Hlt y (in_or_app _ _ _ (or_introl Hy))) Hlen) as (Il & I1 & I2).
    rewrite fold_left_app. simpl. set (c1 := fold_left (cells_step a b ca cb merged') xs cs) in *.
    unfold cells_step at 1 2 3 4. destruct (nth x merged' true) eqn:Hmx.
    + (* x already merged: nothing happens *)
      splits; auto.
      * intros y Hy Hmy. apply in_app_or in Hy as [Hy|[<-|[]]]; [auto|congruence].
      * intros i j Hij Hno. apply I2; auto. intros y Hy. apply Hno. apply in_or_app; auto.
    + assert (Hxb : x <> b) by (intros ->; congruence).
      assert (Ebx : Nat.eqb b x = false) by (apply Nat.eqb_neq; auto).
      rewrite Ebx. simpl.
      (* the cells read at time x are still the original ones *)
      assert (Rxa : x <> a -> cell O c1 x a = cell O cs x a).
      { intros Hxa. apply I2; auto. intros y Hy Hmy. assert (y <> x) by (intros ->; auto).
        assert (y <> b) by (intros ->; congruence). unfold peq. lia. }
      assert (Rxb : cell O c1 x b = cell O cs x b).
      { apply I2; auto. intros y Hy Hmy. assert (y <> x) by (intros ->; auto).
        assert (y <> b) by (intros ->; congruence). unfold peq. lia. }
      destruct (Nat.eqb x a) eqn:Exa; simpl.
      * apply Nat.eqb_eq in Exa. subst x.
        splits.
        -- rewrite replace_at_length. auto.
        -- intros y Hy Hmy. apply in_app_or in Hy as [Hy|[<-|[]]].
           ++ assert (y <> a) by (intros ->; auto). assert (y <> b) by (intros ->; congruence).
              destruct (I1 y Hy Hmy) as [J1 J2].
              rewrite !cell_replace_neq; auto; unfold peq; try lia; try (split; auto).
           ++ split; [|congruence]. eapply cell_replace_eq; eauto. congruence.
        -- intros i j Hij Hno.
           destruct (Hno a Hinx Hmx) as [N1 _].
           rewrite cell_replace_neq; auto.
           apply I2; auto. intros y Hy. apply Hno. apply in_or_app; auto.
      * apply Nat.eqb_neq in Exa.
        splits.
        -- rewrite !replace_at_length. auto.
        -- intros y Hy Hmy. apply in_app_or in Hy as [Hy|[<-|[]]].
           ++ assert (y <> x) by (intros ->; auto). assert (y <> b) by (intros ->; congruence).
              destruct (I1 y Hy Hmy) as [J1 J2].
              split; [|intros Hya]; rewrite !cell_replace_neq; auto; unfold peq; lia.
           ++ split.
              ** eapply cell_replace_eq; eauto. rewrite replace_at_length. congruence.
              ** intros _. rewrite cell_replace_neq; auto; [|unfold peq; lia].
                 rewrite (cell_replace_eq _ n); auto; try congruence. rewrite Rxa, Rxb; auto.
        -- intros i j Hij Hno.
           destruct (Hno x Hinx Hmx) as [N1 N2].
           rewrite !cell_replace_neq; auto.
           apply I2; auto. intros y Hy. apply Hno. apply in_or_app; auto.
Qed.

(* ---- dm_min under [Separated] ------------------------------------------------------------------------ *)
Section Sep.
Variable Fin : L -> Prop.
Hypothesis HSep : Separated Fin.

Lemma pick_fin {K} (l : list (K * L)) :
  (forall e, In e l -> Fin (snd e) \/ snd e = linf O) ->
  match fold_left (pick (lltb O)) l None with
  | None => l = []
  | Some e => In e l /\ ((exists x, In x l /\ Fin (snd x)) -> Fin (snd e))
  end.
Proof.
  induction l as [|x l IH] using rev_ind; intros Hall; [reflexivity|].
  rewrite fold_left_app. simpl.
  assert (Hall' : forall e, In e l -> Fin (snd e) \/ snd e = linf O)
    by (intros; apply Hall; apply in_or_app; auto).
  specialize (IH Hall').
  assert (Hinx : In x (l ++ [x])) by (apply in_or_app; simpl; auto).
  destruct (fold_left (pick (lltb O)) l None) as [[ek ev]|]; simpl.
  - destruct IH as [Hin Hfin]. simpl in Hfin.
    destruct (lltb O (snd x) ev) eqn:Hx.
    + split; [apply in_or_app; simpl; auto|].
      intros (y & Hy & Fy).
      destruct (Hall x Hinx) as [Fx|Ex]; auto.
      exfalso. rewrite Ex in Hx.
      destruct (Hall' _ Hin) as [Fe|Ee]; simpl in *.
      * rewrite (sep_gt _ HSep _ Fe) in Hx. discriminate.
      * apply in_app_or in Hy as [Hy|[<-|[]]].
        -- assert (Fe : Fin ev) by (apply Hfin; eauto). rewrite (sep_gt _ HSep _ Fe) in Hx. discriminate.
        -- rewrite Ex in Fy. rewrite Ee in Hx. rewrite (sep_gt _ HSep _ Fy) in Hx. discriminate.
    + split; [apply in_or_app; auto|]. simpl.
      intros (y & Hy & Fy). apply in_app_or in Hy as [Hy|[<-|[]]]; [apply Hfin; eauto|].
      destruct (Hall' _ Hin) as [Fe|Ee]; simpl in *; auto.
      rewrite Ee in Hx. rewrite (sep_lt _ HSep _ Fy) in Hx. discriminate.
  - subst l. simpl. split; auto. intros (y & [<-|[]] & Fy). auto.
Qed.

Definition CellsOK (n : nat) (cells : list L) (merged : list bool) : Prop :=
  length cells = n * (n - 1) / 2 /\
  forall i j, i < n -> j < n -> i <> j ->
    (nth i merged true = false -> nth j merged true = false -> Fin (cell O cells i j)) /\
    (nth i merged true = true \/ nth j merged true = true -> cell O cells i j = linf O).

Lemma dm_min_live n cells merged :
  CellsOK n cells merged ->
  (exists i j, i < n /\ j < n /\ i <> j /\ nth i merged true = false /\ nth j merged true = false) ->
  exists a b d, dm_min O (mkDmat n [] cells) = Some (a, b, d) /\ b < a /\ a < n /\
    nth a merged true = false /\ nth b merged true = false /\ d = cell O cells a b /\ Fin d.
Proof.
  intros [Hlen Hc] (i & j & Hi & Hj & Hij & Hmi & Hmj).
  set (m := mkDmat n [] cells).
  assert (Hlenm : length (mcells m) = msize m * (msize m - 1) / 2) by exact Hlen.
  assert (Hel : forall a b v, In (a, b, v) (dm_indexed m) -> b < a /\ a < n /\ v = cell O cells a b).
  { intros a b v Hin. destruct (indexed_agrees m a b v Hin) as [Hba Hnth].
    destruct (indexed_in_range m a b v Hlenm Hin) as [_ Han]. splits; auto.
    symmetry. unfold cell. apply nth_of_nth_error. exact Hnth. }
  assert (Hall : forall e, In e (dm_indexed m) -> Fin (snd e) \/ snd e = linf O).
  { intros [[a b] v] Hin. destruct (Hel a b v Hin) as (Hba & Han & ->). simpl.
    destruct (Hc a b Han ltac:(lia) ltac:(lia)) as [C1 C2].
    destruct (nth a merged true) eqn:Ea; [right; auto|].
    destruct (nth b merged true) eqn:Eb; [right; auto|]. left; auto. }
  assert (Hex : exists x, In x (dm_indexed m) /\ Fin (snd x)).
  { assert (forall i j, j < i -> i < n -> nth i merged true = false -> nth j merged true = false ->
              exists x, In x (dm_indexed m) /\ Fin (snd x)) as W.
    { intros i' j' Hji Hin Hmi' Hmj'.
      destruct (indexed_complete m i' j' Hlenm Hji Hin) as (v & Hv). apply nth_error_In in Hv.
      exists (i', j', v). split; auto. destruct (Hel _ _ _ Hv) as (_ & _ & ->). simpl.
      apply Hc; auto; lia. }
    destruct (Nat.lt_ge_cases j i); [eapply (W i j); eauto|eapply (W j i); eauto; lia]. }
  pose proof (pick_fin (dm_indexed m) Hall) as P. rewrite <- dm_min_pick in P.
  destruct (dm_min O m) as [[[a b] d]|] eqn:Hmin.
  - destruct P as [Hin Hfin]. specialize (Hfin Hex). simpl in Hfin.
    destruct (Hel a b d Hin) as (Hba & Han & Hd).
    exists a, b, d. splits; auto.
    + destruct (nth a merged true) eqn:Ea; auto. exfalso.
      destruct (Hc a b Han ltac:(lia) ltac:(lia)) as [_ C2]. rewrite <- Hd in C2.
      rewrite C2 in Hfin by auto. pose proof (sep_lt _ HSep _ Hfin). pose proof (sep_gt _ HSep _ Hfin). congruence.
    + destruct (nth b merged true) eqn:Eb; auto. exfalso.
      destruct (Hc a b Han ltac:(lia) ltac:(lia)) as [_ C2]. rewrite <- Hd in C2.
      rewrite C2 in Hfin by auto. pose proof (sep_lt _ HSep _ Hfin). pose proof (sep_gt _ HSep _ Hfin). congruence.
  - exfalso. destruct Hex as (x & Hx & _). rewrite P in Hx. destruct Hx.
Qed.

End Sep.
End Loop.
