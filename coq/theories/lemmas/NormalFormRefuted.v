(* NormalFormRefuted.v — C02, last clause WITHOUT the proviso [quotes_ok] is false of the faithful model (and of the crate; the
   quantifier of C02 excludes such texts).  The accepted text  colon quote rbracket quote semicolon  yields a single node whose name is one double-quote character; its written form
   (quote semicolon) opens a quoted label that never closes and is rejected (NoClosingSemicolon).  So [quotes_ok] (or at least "no label with an
   unbalanced double quote") cannot be dropped from parse_normal_form. *)
From PT Require Import Newick Spec ParserProps RoundTrip NormalForm.
From Coq Require Import List NArith.
Import ListNotations.

Definition kf5_text : str := [58; 34; 93; 34; 59]%N.         (* colon, quote, right bracket, quote, semicolon *)

Theorem normal_form_refuted :
  exists (t : @arena bool) (txt : rstr),
    from_newick Example.ps kf5_text = Ok t /\
    to_newick t = Ok txt /\
    flatten Example.pl txt = [34; 59]%N /\
    from_newick Example.ps (flatten Example.pl txt) = Err NoClosingSemicolon /\
    ~ quotes_ok kf5_text.
Proof.
  eexists. eexists. split; [vm_compute; reflexivity|]. split; [vm_compute; reflexivity|].
  split; [vm_compute; reflexivity|]. split; [vm_compute; reflexivity|].
  unfold quotes_ok. vm_compute. discriminate.
Qed.
Print Assumptions normal_form_refuted.
