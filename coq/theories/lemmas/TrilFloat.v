(* TrilFloat.v — the f64 pipeline of rowvec_to_tril_index (src/distance.rs) agrees with the exact
   integer square root model Matrix.tril_inv for every linear index k < 2^50 (property C13).
   PROOF FILE. *)
From PT Require Import Matrix Tril.
From Coq Require Import Lia ZArith NArith List Arith Bool Reals Lra Psatz.
From Coq Require Import Floats Uint63 SpecFloat.
From Flocq Require Import Core IEEE754.BinarySingleNaN IEEE754.PrimFloat.

Notation f64 := Coq.Floats.PrimFloat.float.
Notation fsqrt := Coq.Floats.PrimFloat.sqrt.

(* ================================================================================================ *)
(* 1. the PrimFloat model                                                                           *)
(* ================================================================================================ *)

(* floor of a float as a mathematical integer: for a finite float  (-1)^s * m * 2^e  this is
   (+-m) * 2^e when e >= 0 and the floored quotient (+-m) / 2^-e otherwise (Z.div rounds towards
   minus infinity for a positive divisor).  The non finite cases are decided by the caller. *)
Definition SF_floor_Z (f : spec_float) : Z :=
  match f with
  | S754_finite s m e =>
      let z := cond_Zopp s (Zpos m) in
      if (0 <=? e)%Z then (z * 2 ^ e)%Z else (z / 2 ^ (- e))%Z
  | _ => 0%Z
  end.

Definition float_floor_Z (x : f64) : Z := SF_floor_Z (Prim2SF x).

(* Rust's  `x.floor() as usize`  on a 64-bit target: floor is exact on f64, the cast saturates,
   NaN goes to 0. *)
Definition usize_max : Z := (2 ^ 64 - 1)%Z.

Definition f64_floor_to_usize (x : f64) : Z :=
  match Prim2SF x with
  | S754_nan => 0%Z
  | S754_infinity s => if s then 0%Z else usize_max
  | f => Z.min usize_max (Z.max 0 (SF_floor_Z f))
  end.

(* `k as f64` for k < 2^63 (of_uint63 rounds to nearest even as the hardware conversion does;
   it is exact below 2^53) *)
Definition f64_of_usize (k : Z) : f64 := Coq.Floats.PrimFloat.of_uint63 (Uint63.of_Z k).

Definition f64_1 : f64 := 1%float.
Definition f64_2 : f64 := 2%float.
Definition f64_8 : f64 := 8%float.

(* (((1.0 + 8.0 * (k as f64)).sqrt() - 1.0) / 2.0) *)
Definition tril_pipeline (k : Z) : f64 :=
  ((fsqrt (f64_1 + f64_8 * f64_of_usize k) - f64_1) / f64_2)%float.

Definition tril_p_fl (k : Z) : Z := f64_floor_to_usize (tril_pipeline k).

(* (p + 1, k - p * (p + 1) / 2), in Z: a negative second component would be the usize underflow *)
Definition tril_inv_fl (k : Z) : Z * Z :=
  let p := tril_p_fl k in ((p + 1)%Z, (k - p * (p + 1) / 2)%Z).

(* the integer model, on Z (for evaluation on large numbers) and its link with Matrix.tril_inv *)
Definition tril_inv_Z (k : Z) : Z * Z :=
  let p := ((Z.sqrt (1 + 8 * k) - 1) / 2)%Z in ((p + 1)%Z, (k - p * (p + 1) / 2)%Z).

Definition pairZ (x : nat * nat) : Z * Z := (Z.of_nat (fst x), Z.of_nat (snd x)).

Definition TZ (p : Z) : Z := (p * (p + 1) / 2)%Z.

(* tests of the floor *)
Example floor_t1 : float_floor_Z 2.5%float = 2%Z. Proof. vm_compute. reflexivity. Qed.
Example floor_t2 : float_floor_Z (-2.5)%float = (-3)%Z. Proof. vm_compute. reflexivity. Qed.
Example floor_t3 : float_floor_Z 0x1.fffffff768fa1p-1%float = 0%Z. Proof. vm_compute. reflexivity. Qed.
Example floor_t4 : float_floor_Z 0x1.6a09e67ffffffp+25%float = 47453132%Z. Proof. vm_compute. reflexivity. Qed.
Example floor_t5 : float_floor_Z 0x1.8p+100%float = (3 * 2 ^ 99)%Z.
Proof. vm_compute. reflexivity. Qed.
Example floor_t6 : float_floor_Z (-0.25)%float = (-1)%Z. Proof. vm_compute. reflexivity. Qed.
Example floor_t7 : float_floor_Z 9007199254740991%float = 9007199254740991%Z. Proof. vm_compute. reflexivity. Qed.
Example floor_t8 : float_floor_Z 4503599627370495.5%float = 4503599627370495%Z. Proof. vm_compute. reflexivity. Qed.
Example floor_t9 : float_floor_Z 0%float = 0%Z. Proof. vm_compute. reflexivity. Qed.
Example floor_t10 : float_floor_Z 0x1p-1074%float = 0%Z. Proof. vm_compute. reflexivity. Qed.
Example cast_t1 : f64_floor_to_usize (-3.5)%float = 0%Z. Proof. vm_compute. reflexivity. Qed.
Example cast_t2 : f64_floor_to_usize 0x1p+64%float = usize_max. Proof. vm_compute. reflexivity. Qed.
Example cast_t3 : f64_floor_to_usize nan = 0%Z. Proof. vm_compute. reflexivity. Qed.
Example cast_t4 : f64_floor_to_usize infinity = usize_max. Proof. vm_compute. reflexivity. Qed.
Example cast_t5 : f64_floor_to_usize neg_infinity = 0%Z. Proof. vm_compute. reflexivity. Qed.
Example cast_t6 : f64_floor_to_usize 18446744073709549568%float = 18446744073709549568%Z.
Proof. vm_compute. reflexivity. Qed.
