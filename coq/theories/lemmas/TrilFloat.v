(* TrilFloat.v — the f64 pipeline of rowvec_to_tril_index (src/distance.rs)
     let p = (((1.0 + 8.0 * (k as f64)).sqrt() - 1.0) / 2.0).floor() as usize; (p + 1, k - p * (p + 1) / 2)
   agrees with the exact integer square root model Matrix.tril_inv for every linear index k < 2^50
   (property C13).  PROOF FILE.

   Contents
   1. tril_inv_fl : Z -> Z * Z, the pipeline on Coq's primitive binary64 floats (hardware operations
      in the VM, specified by the FloatAxioms of the standard library); float_floor_Z, tests.
   2. tril_inv_Z (Matrix.tril_inv read on Z, tril_inv_Z_correct) and Examples by vm_compute, among them
      k = T p - 1, T p, T p + 1 for p = 2^25, 2^25 + 12345 and p = P_last = 47453132 (T P_last < 2^50).
   3. fl_inv_sweep, fl_inv_sweep_strided, fl_inv_sweep_top: boundary_ok P — exactness at T P and at
      T P - 1 — by evaluating tril_inv_fl in the VM: all P < 2^18, every 4099-th P up to P_last,
      the last 2^14 values up to P_last + 1.
   4. fl_inv : forall k, k < 2^50 -> tril_inv_fl k = tril_inv k — THE THEOREM, proved analytically with
      Flocq (correct rounding of + - * / sqrt, monotonicity of rounding, binary64 representability
      of the interval ends 2p+1 and 2p+3 - 2^-26).  Also tril_p_fl_mono: the whole float pipeline,
      floor included, is monotone in k (k < 2^53).
   5. fl_inv_sweep_full: boundary_ok P for EVERY P < 2^27 (machine-integer/float-comparison test,
      proved sound, 64 chunks of 2^21); fl_inv_from_boundaries (the monotone squeeze);
      fl_inv_upto: agreement for every k < T (2^27 - 1) = 2^53 - 2^26; fl_inv_by_sweep: fl_inv again,
      from sweep and squeeze only.
   Nothing is assumed beyond the standard library's specification of the primitive floats and
   integers and the classical real numbers (Print Assumptions at the end of the file). *)
From PT Require Import Matrix Tril.
From Coq Require Import Lia ZArith NArith List Arith Bool Reals Lra Psatz.
From Coq Require Import Floats Uint63 SpecFloat.
From Flocq Require Import Core IEEE754.BinarySingleNaN IEEE754.PrimFloat.

Notation f64 := Coq.Floats.PrimFloat.float.
Notation fsqrt := Coq.Floats.PrimFloat.sqrt.

(* ================================================================================================ *)
(* 1. the PrimFloat model                                                                           *)
(* ================================================================================================ *)

(* floor of a float as a mathematical integer: for a finite float  (-1)^s * m * 2^e  this is
   (+-m) * 2^e when e >= 0 and the floored quotient (+-m) / 2^-e otherwise (Z.div rounds towards
   minus infinity for a positive divisor).  The non finite cases are decided by the caller. *)
Definition SF_floor_Z (f : spec_float) : Z :=
  match f with
  | S754_finite s m e =>
      let z := cond_Zopp s (Zpos m) in
      if (0 <=? e)%Z then (z * 2 ^ e)%Z else (z / 2 ^ (- e))%Z
  | _ => 0%Z
  end.

Definition float_floor_Z (x : f64) : Z := SF_floor_Z (Prim2SF x).

(* Rust's  `x.floor() as usize`  on a 64-bit target: floor is exact on f64, the cast saturates,
   NaN goes to 0. *)
Definition usize_max : Z := (2 ^ 64 - 1)%Z.

Definition f64_floor_to_usize (x : f64) : Z :=
  match Prim2SF x with
  | S754_nan => 0%Z
  | S754_infinity s => if s then 0%Z else usize_max
  | f => Z.min usize_max (Z.max 0 (SF_floor_Z f))
  end.

(* `k as f64` for k < 2^63 (of_uint63 rounds to nearest even as the hardware conversion does;
   it is exact below 2^53) *)
Definition f64_of_usize (k : Z) : f64 := Coq.Floats.PrimFloat.of_uint63 (Uint63.of_Z k).

Definition f64_1 : f64 := 1%float.
Definition f64_2 : f64 := 2%float.
Definition f64_8 : f64 := 8%float.

(* (((1.0 + 8.0 * (k as f64)).sqrt() - 1.0) / 2.0) *)
Definition tril_pipeline (k : Z) : f64 :=
  ((fsqrt (f64_1 + f64_8 * f64_of_usize k) - f64_1) / f64_2)%float.

Definition tril_p_fl (k : Z) : Z := f64_floor_to_usize (tril_pipeline k).

(* (p + 1, k - p * (p + 1) / 2), in Z: a negative second component would be the usize underflow *)
Definition tril_inv_fl (k : Z) : Z * Z :=
  let p := tril_p_fl k in ((p + 1)%Z, (k - p * (p + 1) / 2)%Z).

(* the integer model, on Z (for evaluation on large numbers) and its link with Matrix.tril_inv *)
Definition tril_inv_Z (k : Z) : Z * Z :=
  let p := ((Z.sqrt (1 + 8 * k) - 1) / 2)%Z in ((p + 1)%Z, (k - p * (p + 1) / 2)%Z).

Definition pairZ (x : nat * nat) : Z * Z := (Z.of_nat (fst x), Z.of_nat (snd x)).

Definition TZ (p : Z) : Z := (p * (p + 1) / 2)%Z.

(* tests of the floor *)
Example floor_t1 : float_floor_Z 2.5%float = 2%Z. Proof. vm_compute. reflexivity. Qed.
Example floor_t2 : float_floor_Z (-2.5)%float = (-3)%Z. Proof. vm_compute. reflexivity. Qed.
Example floor_t3 : float_floor_Z 0x1.fffffff768fa1p-1%float = 0%Z. Proof. vm_compute. reflexivity. Qed.
Example floor_t4 : float_floor_Z 0x1.6a09e67ffffffp+25%float = 47453132%Z. Proof. vm_compute. reflexivity. Qed.
Example floor_t5 : float_floor_Z 0x1.8p+100%float = (3 * 2 ^ 99)%Z.
Proof. vm_compute. reflexivity. Qed.
Example floor_t6 : float_floor_Z (-0.25)%float = (-1)%Z. Proof. vm_compute. reflexivity. Qed.
Example floor_t7 : float_floor_Z 9007199254740991%float = 9007199254740991%Z. Proof. vm_compute. reflexivity. Qed.
Example floor_t8 : float_floor_Z 4503599627370495.5%float = 4503599627370495%Z. Proof. vm_compute. reflexivity. Qed.
Example floor_t9 : float_floor_Z 0%float = 0%Z. Proof. vm_compute. reflexivity. Qed.
Example floor_t10 : float_floor_Z 0x1p-1074%float = 0%Z. Proof. vm_compute. reflexivity. Qed.
Example cast_t1 : f64_floor_to_usize (-3.5)%float = 0%Z. Proof. vm_compute. reflexivity. Qed.
Example cast_t2 : f64_floor_to_usize 0x1p+64%float = usize_max. Proof. vm_compute. reflexivity. Qed.
Example cast_t3 : f64_floor_to_usize nan = 0%Z. Proof. vm_compute. reflexivity. Qed.
Example cast_t4 : f64_floor_to_usize infinity = usize_max. Proof. vm_compute. reflexivity. Qed.
Example cast_t5 : f64_floor_to_usize neg_infinity = 0%Z. Proof. vm_compute. reflexivity. Qed.
Example cast_t6 : f64_floor_to_usize 18446744073709549568%float = 18446744073709549568%Z.
Proof. vm_compute. reflexivity. Qed.

(* ================================================================================================ *)
(* 2. the integer model on Z, and examples                                                          *)
(* ================================================================================================ *)
Local Open Scope Z_scope.

Lemma row_bounds_Z : forall k p : nat, (T p <= k < T (S p))%nat ->
  let K := Z.of_nat k in let P := Z.of_nat p in
  (2 * P + 1) * (2 * P + 1) <= 1 + 8 * K <= (2 * P + 3) * (2 * P + 3) - 8 /\
  Z.of_nat (T p) = TZ P.
Proof.
  intros k p [H1 H2] K P. pose proof (T_double p) as Hd. rewrite T_S in H2.
  assert (HT : Z.of_nat (T p) = TZ P).
  { unfold TZ. apply Z.div_unique_exact; [lia|]. unfold P. nia. }
  split; [|assumption]. unfold K, P. nia.
Qed.

(* tril_inv_Z is Matrix.tril_inv read on Z (tril_inv itself cannot be evaluated on a unary 2^50) *)
Lemma tril_inv_Z_correct : forall k : nat, tril_inv_Z (Z.of_nat k) = pairZ (tril_inv k).
Proof.
  intros k. rewrite tril_inv_eq. cbv zeta. unfold tril_inv_Z.
  pose proof (sqrt_row k) as Hr. cbv zeta in Hr.
  assert (Hs : Z.sqrt (1 + 8 * Z.of_nat k) = Z.of_nat (N.to_nat (N.sqrt (1 + 8 * N.of_nat k)))).
  { rewrite N_nat_Z. apply Z.sqrt_unique.
    pose proof (N.sqrt_spec (1 + 8 * N.of_nat k) (N.le_0_l _)) as [Hs1 Hs2]. lia. }
  assert (Hs1 : 1 <= Z.sqrt (1 + 8 * Z.of_nat k)).
  { apply Z.sqrt_le_square; lia. }
  set (s := N.to_nat (N.sqrt (1 + 8 * N.of_nat k))) in *.
  assert (Hp : (Z.sqrt (1 + 8 * Z.of_nat k) - 1) / 2 = Z.of_nat ((s - 1) / 2)).
  { rewrite Hs. rewrite Nat2Z.inj_div. f_equal. lia. }
  rewrite Hp.
  set (p := ((s - 1) / 2)%nat) in *.
  destruct (row_bounds_Z k p Hr) as [_ HT]. cbv zeta in HT. unfold TZ in HT.
  unfold pairZ; simpl fst; simpl snd. f_equal; [lia|]. rewrite <- HT. lia.
Qed.

(* T 47453132 < 2^50 < T 47453133 : 47453132 is the last row that starts below 2^50 *)
Definition P_last : Z := 47453132.
Example P_last_ok : TZ P_last < 2 ^ 50 < TZ (P_last + 1). Proof. vm_compute. split; reflexivity. Qed.

Example ex_small : map tril_inv_fl [0; 1; 2; 3; 4; 5; 6; 9; 10; 11] =
                   [(1, 0); (2, 0); (2, 1); (3, 0); (3, 1); (3, 2); (4, 0); (4, 3); (5, 0); (5, 1)].
Proof. vm_compute. reflexivity. Qed.
Example ex_small_agree : map tril_inv_fl (map Z.of_nat (seq 0 200)) = map pairZ (map tril_inv (seq 0 200)).
Proof. vm_compute. reflexivity. Qed.
Example ex_mid : map tril_inv_fl [1000000; 123456789012; 999999999999999] =
                 map tril_inv_Z [1000000; 123456789012; 999999999999999].
Proof. vm_compute. reflexivity. Qed.
(* p near 2^25 (k near 2^49 .. 2^49.99): both sides of the boundary and one past it *)
Example ex_2p25 : let p := 2 ^ 25 in
  map tril_inv_fl [TZ p - 1; TZ p; TZ p + 1] = [(p, p - 1); (p + 1, 0); (p + 1, 1)] /\
  map tril_inv_Z  [TZ p - 1; TZ p; TZ p + 1] = [(p, p - 1); (p + 1, 0); (p + 1, 1)].
Proof. vm_compute. split; reflexivity. Qed.
Example ex_2p25_odd : let p := 2 ^ 25 + 12345 in
  map tril_inv_fl [TZ p - 1; TZ p; TZ p + 1] = [(p, p - 1); (p + 1, 0); (p + 1, 1)] /\
  map tril_inv_Z  [TZ p - 1; TZ p; TZ p + 1] = [(p, p - 1); (p + 1, 0); (p + 1, 1)].
Proof. vm_compute. split; reflexivity. Qed.
Example ex_last : let p := P_last in
  map tril_inv_fl [TZ p - 1; TZ p; TZ p + 1; 2 ^ 50 - 1] = [(p, p - 1); (p + 1, 0); (p + 1, 1); (p + 1, 14811345)] /\
  map tril_inv_Z  [TZ p - 1; TZ p; TZ p + 1; 2 ^ 50 - 1] = [(p, p - 1); (p + 1, 0); (p + 1, 1); (p + 1, 14811345)].
Proof. vm_compute. split; reflexivity. Qed.
Example ex_last_nat : tril_inv_fl (TZ P_last - 1) = pairZ (tril_inv (Z.to_nat (TZ P_last - 1))).
Proof. rewrite <- tril_inv_Z_correct. rewrite Z2Nat.id by (vm_compute; discriminate). vm_compute. reflexivity. Qed.

(* ================================================================================================ *)
(* 3. finite sweeps, evaluating tril_inv_fl itself in the kernel's VM                               *)
(* ================================================================================================ *)

(* the float pipeline is exact on BOTH sides of the triangular boundary that starts row P + 1 *)
Definition boundary_ok (P : Z) : Prop :=
  tril_inv_fl (TZ P) = (P + 1, 0) /\ (1 <= P -> tril_inv_fl (TZ P - 1) = (P, P - 1)).

Definition pair_eqb (x y : Z * Z) : bool := (fst x =? fst y) && (snd x =? snd y).
Lemma pair_eqb_eq : forall x y, pair_eqb x y = true -> x = y.
Proof.
  intros [a b] [c d] H. unfold pair_eqb in H. simpl in H. apply andb_prop in H as [H1 H2].
  apply Z.eqb_eq in H1. apply Z.eqb_eq in H2. subst. reflexivity.
Qed.

Definition boundary_okb (P : Z) : bool :=
  pair_eqb (tril_inv_fl (TZ P)) (P + 1, 0) &&
  ((P <? 1) || pair_eqb (tril_inv_fl (TZ P - 1)) (P, P - 1)).

Lemma boundary_okb_ok : forall P, boundary_okb P = true -> boundary_ok P.
Proof.
  intros P H. unfold boundary_okb in H. apply andb_prop in H as [H1 H2]. split.
  - apply pair_eqb_eq. assumption.
  - intros HP. apply orb_prop in H2 as [H2|H2].
    + apply Z.ltb_lt in H2. lia.
    + apply pair_eqb_eq. assumption.
Qed.

(* n boundaries starting at p, step d *)
Fixpoint sweepZ (n : nat) (p d : Z) : bool :=
  match n with O => true | S n' => if boundary_okb p then sweepZ n' (p + d) d else false end.

Lemma sweepZ_ok : forall n p d, sweepZ n p d = true ->
  forall i, 0 <= i < Z.of_nat n -> boundary_ok (p + i * d).
Proof.
  induction n as [|n IH]; intros p d H i Hi; [lia|].
  simpl in H. destruct (boundary_okb p) eqn:E; [|discriminate].
  destruct (Z.eq_dec i 0) as [->|Hne].
  - replace (p + 0 * d) with p by lia. apply boundary_okb_ok. assumption.
  - replace (p + i * d) with ((p + d) + (i - 1) * d) by lia. apply IH; [assumption|lia].
Qed.

Definition chunk : nat := Nat.pow 2 16.
Lemma chunk_Z : Z.of_nat chunk = 65536. Proof. vm_compute. reflexivity. Qed.
Lemma sweep_dense_0 : sweepZ chunk (0 * 65536) 1 = true. Proof. vm_cast_no_check (eq_refl true). Qed.
Lemma sweep_dense_1 : sweepZ chunk (1 * 65536) 1 = true. Proof. vm_cast_no_check (eq_refl true). Qed.
Lemma sweep_dense_2 : sweepZ chunk (2 * 65536) 1 = true. Proof. vm_cast_no_check (eq_refl true). Qed.
Lemma sweep_dense_3 : sweepZ chunk (3 * 65536) 1 = true. Proof. vm_cast_no_check (eq_refl true). Qed.

(* RANGES COVERED by evaluating tril_inv_fl itself (Prim2SF-based floor and all):
     fl_inv_sweep          every P with 0 <= P < 2^18                       (dense)
     fl_inv_sweep_strided  P = 4099 * i for 0 <= i <= 11576, i.e. up to 47450024 <= P_last
     fl_inv_sweep_top      every P with P_last + 2 - 2^14 <= P <= P_last + 1 = 47453133
   (section 5 sweeps EVERY P < 2^27 with a faster, proved-sound test) *)
Definition P_dense : Z := 2 ^ 18.
Theorem fl_inv_sweep : forall P, 0 <= P < P_dense -> boundary_ok P.
Proof.
  intros P HP. unfold P_dense in HP.
  assert (Hc : forall c, sweepZ chunk (c * 65536) 1 = true -> c * 65536 <= P < (c + 1) * 65536 -> boundary_ok P).
  { intros c Hs Hr. replace P with (c * 65536 + (P - c * 65536) * 1) by lia.
    apply (sweepZ_ok _ _ _ Hs). rewrite chunk_Z. lia. }
  destruct (Z_lt_le_dec P (1 * 65536)); [apply (Hc 0 sweep_dense_0); lia|].
  destruct (Z_lt_le_dec P (2 * 65536)); [apply (Hc 1 sweep_dense_1); lia|].
  destruct (Z_lt_le_dec P (3 * 65536)); [apply (Hc 2 sweep_dense_2); lia|].
  apply (Hc 3 sweep_dense_3); lia.
Qed.

Definition smallchunk : nat := Nat.pow 2 14.
Lemma smallchunk_Z : Z.of_nat smallchunk = 16384. Proof. vm_compute. reflexivity. Qed.

Lemma sweep_strided_0 : sweepZ smallchunk 0 4099 = true. Proof. vm_cast_no_check (eq_refl true). Qed.
Theorem fl_inv_sweep_strided : forall i, 0 <= i <= 11576 -> boundary_ok (4099 * i).
Proof.
  intros i Hi. replace (4099 * i) with (0 + i * 4099) by lia.
  apply (sweepZ_ok _ _ _ sweep_strided_0). rewrite smallchunk_Z. lia.
Qed.

Lemma sweep_top_0 : sweepZ smallchunk (P_last + 2 - 16384) 1 = true. Proof. vm_cast_no_check (eq_refl true). Qed.
Theorem fl_inv_sweep_top : forall P, P_last + 2 - 16384 <= P <= P_last + 1 -> boundary_ok P.
Proof.
  intros P HP. replace P with ((P_last + 2 - 16384) + (P - (P_last + 2 - 16384)) * 1) by lia.
  apply (sweepZ_ok _ _ _ sweep_top_0). rewrite smallchunk_Z. lia.
Qed.
Local Close Scope Z_scope.

(* ================================================================================================ *)
(* 4. the analytic proof: Flocq's IEEE-754 semantics of the PrimFloat operations                    *)
(* ================================================================================================ *)
Local Open Scope R_scope.

Notation fexp64 := (SpecFloat.fexp prec emax).
Notation RND := (round radix2 fexp64 ZnearestE).
Notation rsqrt := R_sqrt.sqrt.
(* the real value and the finiteness of a primitive float, through Flocq's binary_float *)
Definition FR (x : f64) : R := B2R (Prim2B x).
Definition fin (x : f64) : Prop := is_finite (Prim2B x) = true.

(* ---- floor ---- *)
Lemma SF_floor_Z_B2SF : forall b : binary_float prec emax, SF_floor_Z (B2SF b) = Zfloor (B2R b).
Proof.
  intros [s|s| |s m e H]; simpl; try (symmetry; apply (Zfloor_IZR 0)).
  unfold F2R; simpl Fnum; simpl Fexp.
  destruct (Z.leb_spec 0 e) as [He|He].
  - rewrite <- (Zfloor_IZR (cond_Zopp s (Z.pos m) * 2 ^ e)). f_equal.
    rewrite mult_IZR. f_equal. rewrite (IZR_Zpower radix2) by assumption. reflexivity.
  - rewrite <- Zfloor_div.
    + f_equal. unfold Rdiv. f_equal.
      rewrite (IZR_Zpower radix2) by lia. rewrite <- bpow_opp. f_equal. lia.
    + apply Z.pow_nonzero; lia.
Qed.

Lemma float_floor_Z_correct : forall x, float_floor_Z x = Zfloor (FR x).
Proof. intros x. unfold float_floor_Z, FR. rewrite <- B2SF_Prim2B. apply SF_floor_Z_B2SF. Qed.

Lemma to_usize_correct : forall x, fin x -> 0 <= FR x < IZR (2 ^ 64) ->
  f64_floor_to_usize x = Zfloor (FR x).
Proof.
  intros x Hf [H0 H1]. unfold f64_floor_to_usize.
  assert (Hfl : SF_floor_Z (Prim2SF x) = Zfloor (FR x)) by apply float_floor_Z_correct.
  assert (0 <= Zfloor (FR x) <= usize_max)%Z.
  { split.
    - apply Zfloor_lub. simpl. assumption.
    - assert (Zfloor (FR x) < 2 ^ 64)%Z; [|unfold usize_max; lia].
      apply lt_IZR. apply Rle_lt_trans with (FR x); [apply Zfloor_lb | assumption]. }
  unfold fin in Hf. rewrite <- B2SF_Prim2B in *.
  destruct (Prim2B x); simpl in Hf; try discriminate; simpl B2SF in *; cbv iota; rewrite Hfl; lia.
Qed.

(* ---- the operations: value = rounding to nearest-even of the exact result, when no overflow ---- *)
Definition ok (r : R) := Rabs r < bpow radix2 emax.

Lemma Rlt_bool_ok : forall r, ok r -> Rlt_bool (Rabs r) (bpow radix2 emax) = true.
Proof. intros. apply Rlt_bool_true. assumption. Qed.

Lemma fl_add : forall x y, fin x -> fin y -> ok (RND (FR x + FR y)) ->
  FR (x + y) = RND (FR x + FR y) /\ fin (x + y).
Proof.
  intros x y Hx Hy Hok. unfold FR, fin. rewrite add_equiv.
  pose proof (Bplus_correct prec emax Hprec Hmax mode_NE (Prim2B x) (Prim2B y) Hx Hy) as H.
  simpl round_mode in H. fold (FR x) (FR y) in H. rewrite (Rlt_bool_ok _ Hok) in H.
  destruct H as (H1 & H2 & _). split; assumption.
Qed.

Lemma fl_sub : forall x y, fin x -> fin y -> ok (RND (FR x - FR y)) ->
  FR (x - y) = RND (FR x - FR y) /\ fin (x - y).
Proof.
  intros x y Hx Hy Hok. unfold FR, fin. rewrite sub_equiv.
  pose proof (Bminus_correct prec emax Hprec Hmax mode_NE (Prim2B x) (Prim2B y) Hx Hy) as H.
  simpl round_mode in H. fold (FR x) (FR y) in H. rewrite (Rlt_bool_ok _ Hok) in H.
  destruct H as (H1 & H2 & _). split; assumption.
Qed.

Lemma fl_mul : forall x y, fin x -> fin y -> ok (RND (FR x * FR y)) ->
  FR (x * y) = RND (FR x * FR y) /\ fin (x * y).
Proof.
  intros x y Hx Hy Hok. unfold FR, fin. rewrite mul_equiv.
  pose proof (Bmult_correct prec emax Hprec Hmax mode_NE (Prim2B x) (Prim2B y)) as H.
  simpl round_mode in H. fold (FR x) (FR y) in H. rewrite (Rlt_bool_ok _ Hok) in H.
  destruct H as (H1 & H2 & _). split; [assumption|]. rewrite H2, Hx, Hy. reflexivity.
Qed.

Lemma fl_div : forall x y, fin x -> FR y <> 0 -> ok (RND (FR x / FR y)) ->
  FR (x / y) = RND (FR x / FR y) /\ fin (x / y).
Proof.
  intros x y Hx Hy Hok. unfold FR, fin. rewrite div_equiv.
  pose proof (Bdiv_correct prec emax Hprec Hmax mode_NE (Prim2B x) (Prim2B y) Hy) as H.
  simpl round_mode in H. fold (FR x) (FR y) in H. rewrite (Rlt_bool_ok _ Hok) in H.
  destruct H as (H1 & H2 & _). split; [assumption|]. rewrite H2. assumption.
Qed.

Lemma fl_sqrt : forall x, fin x -> 0 < FR x ->
  FR (fsqrt x) = RND (rsqrt (FR x)) /\ fin (fsqrt x).
Proof.
  intros x Hx Hpos. unfold FR, fin in *. rewrite sqrt_equiv.
  pose proof (Bsqrt_correct prec emax Hprec Hmax mode_NE (Prim2B x)) as H.
  simpl round_mode in H. destruct H as (H1 & H2 & _). split; [assumption|]. rewrite H2.
  destruct (Prim2B x) as [s|s| |s m e Hb]; simpl in Hx, Hpos |- *; try discriminate; try lra.
  destruct s; [|reflexivity]. exfalso.
  assert (F2R (Float radix2 (Z.neg m) e) < 0) by (apply F2R_lt_0; simpl; lia).
  simpl in Hpos. lra.
Qed.

(* ---- format and rounding facts ---- *)
Local Instance fexp64_valid : Valid_exp fexp64 := fexp_correct prec emax Hprec.

Lemma fmt : forall m e, (Z.abs m < 2 ^ 53)%Z -> (-1074 <= e)%Z ->
  generic_format radix2 fexp64 (IZR m * bpow radix2 e).
Proof.
  intros m e Hm He.
  change fexp64 with (FLT_exp (-1074) 53).
  apply generic_format_FLT.
  exists (Float radix2 m e); [reflexivity | exact Hm | exact He].
Qed.

Lemma fmt_int : forall m, (Z.abs m < 2 ^ 53)%Z -> generic_format radix2 fexp64 (IZR m).
Proof.
  intros m Hm. replace (IZR m) with (IZR m * bpow radix2 0) by (simpl; lra). apply fmt; [assumption|lia].
Qed.

Lemma RND_le : forall x y, x <= y -> RND x <= RND y.
Proof. intros. apply round_le; try typeclasses eauto. assumption. Qed.

Lemma RND_id : forall x, generic_format radix2 fexp64 x -> RND x = x.
Proof. intros. apply round_generic; [typeclasses eauto | assumption]. Qed.

Lemma RND_bounds : forall a b x, generic_format radix2 fexp64 a -> generic_format radix2 fexp64 b ->
  a <= x <= b -> a <= RND x <= b.
Proof.
  intros a b x Ha Hb [H1 H2]. split.
  - rewrite <- (RND_id a Ha). apply RND_le. assumption.
  - rewrite <- (RND_id b Hb). apply RND_le. assumption.
Qed.

Lemma ok_small : forall r, Rabs r <= IZR (2 ^ 64) -> ok r.
Proof.
  intros r H. unfold ok. apply Rle_lt_trans with (1 := H).
  change (2 ^ 64)%Z with (Zpower radix2 64). rewrite IZR_Zpower by lia. apply bpow_lt. reflexivity.
Qed.

Lemma ok_range : forall r, 0 <= r <= 536870912 -> ok r.
Proof. intros r H. apply ok_small. rewrite Rabs_pos_eq by lra. simpl. lra. Qed.

(* ---- conversion from integers: exact below 2^53 ---- *)
Lemma fl_of_int : forall i : int, (to_Z i < 2 ^ 53)%Z ->
  FR (of_uint63 i) = IZR (to_Z i) /\ fin (of_uint63 i).
Proof.
  intros i Hi. pose proof (to_Z_bounded i) as Hb. unfold FR, fin.
  rewrite of_int63_equiv. set (k := to_Z i) in *.
  pose proof (binary_normalize_correct prec emax Hprec Hmax mode_NE k 0 false) as H.
  cbv zeta in H. simpl round_mode in H.
  assert (Hx : F2R (Float radix2 k 0) = IZR k) by (unfold F2R; simpl; lra).
  rewrite Hx in H.
  assert (Hr : RND (IZR k) = IZR k) by (apply RND_id, fmt_int; lia).
  rewrite Hr in H. rewrite Rlt_bool_true in H.
  - destruct H as (H1 & H2 & _). split; assumption.
  - apply ok_small. rewrite Rabs_pos_eq by (apply IZR_le; lia). apply IZR_le. lia.
Qed.

Lemma to_Z_of_Z : forall k, (0 <= k < 2 ^ 62)%Z -> to_Z (of_Z k) = k.
Proof. intros k Hk. rewrite of_Z_spec. apply Z.mod_small. change wB with (2 ^ 63)%Z. lia. Qed.

Lemma fl_of_usize : forall k, (0 <= k < 2 ^ 53)%Z ->
  FR (f64_of_usize k) = IZR k /\ fin (f64_of_usize k).
Proof.
  intros k Hk. unfold f64_of_usize. rewrite <- (to_Z_of_Z k) at 2 by lia.
  apply fl_of_int. rewrite to_Z_of_Z; lia.
Qed.

(* ---- constants ---- *)
Lemma FR_SF : forall x, FR x = SF2R radix2 (Prim2SF x).
Proof. intros. unfold FR, Prim2B. apply B2R_SF2B. Qed.
Lemma fin_SF : forall x, is_finite_SF (Prim2SF x) = true -> fin x.
Proof. intros. unfold fin, Prim2B. rewrite is_finite_SF2B. assumption. Qed.

Lemma FR_1 : FR f64_1 = 1 /\ fin f64_1.
Proof. split; [rewrite FR_SF|apply fin_SF]; vm_compute Prim2SF; [|reflexivity]. unfold SF2R, F2R; simpl. lra. Qed.
Lemma FR_2 : FR f64_2 = 2 /\ fin f64_2.
Proof. split; [rewrite FR_SF|apply fin_SF]; vm_compute Prim2SF; [|reflexivity]. unfold SF2R, F2R; simpl. lra. Qed.
Lemma FR_8 : FR f64_8 = 8 /\ fin f64_8.
Proof. split; [rewrite FR_SF|apply fin_SF]; vm_compute Prim2SF; [|reflexivity]. unfold SF2R, F2R; simpl. lra. Qed.

(* ---- the value of the pipeline, for every k < 2^53 ---- *)
Lemma sqrt_lo : forall a x, 0 <= a -> a * a <= x -> a <= rsqrt x.
Proof. intros a x Ha H. rewrite <- (sqrt_square a Ha). apply sqrt_le_1_alt. assumption. Qed.
Lemma sqrt_hi : forall b x, 0 <= b -> x <= b * b -> rsqrt x <= b.
Proof. intros b x Hb H. rewrite <- (sqrt_square b Hb). apply sqrt_le_1_alt. assumption. Qed.

Definition pipeR (k : Z) : R := RND (RND (RND (rsqrt (RND (1 + 8 * IZR k))) - 1) / 2).

Lemma fmt_1 : generic_format radix2 fexp64 1. Proof. apply (fmt_int 1). reflexivity. Qed.
Lemma fmt_0 : generic_format radix2 fexp64 0. Proof. apply (fmt_int 0). reflexivity. Qed.
Lemma fmt_2p29 : generic_format radix2 fexp64 536870912. Proof. apply (fmt_int 536870912). reflexivity. Qed.
Lemma fmt_2p57 : generic_format radix2 fexp64 144115188075855872.
Proof.
  replace 144115188075855872 with (IZR 1 * bpow radix2 57) by (simpl; lra). apply fmt; [reflexivity|lia].
Qed.

Lemma pipeR_steps : forall k, (0 <= k < 2 ^ 53)%Z ->
  let n := RND (1 + 8 * IZR k) in let r := RND (rsqrt n) in let a := RND (r - 1) in
  1 <= n <= 144115188075855872 /\ 1 <= r <= 536870912 /\ 0 <= a <= 536870912 /\ 0 <= pipeR k <= 536870912.
Proof.
  intros k Hk n r a.
  assert (Hk0 : 0 <= IZR k) by (apply IZR_le; lia).
  assert (Hk1 : IZR k <= 9007199254740992) by (apply IZR_le; lia).
  assert (Hn : 1 <= n <= 144115188075855872).
  { apply RND_bounds; [apply fmt_1|apply fmt_2p57|lra]. }
  assert (Hr : 1 <= r <= 536870912).
  { apply RND_bounds; [apply fmt_1|apply fmt_2p29|]. split; [apply sqrt_lo|apply sqrt_hi]; lra. }
  assert (Ha : 0 <= a <= 536870912).
  { apply RND_bounds; [apply fmt_0|apply fmt_2p29|lra]. }
  split; [exact Hn|]. split; [exact Hr|]. split; [exact Ha|].
  unfold pipeR; fold n; fold r; fold a.
  apply RND_bounds; [apply fmt_0|apply fmt_2p29|lra].
Qed.

Lemma pipeline_value : forall k, (0 <= k < 2 ^ 53)%Z ->
  fin (tril_pipeline k) /\ FR (tril_pipeline k) = pipeR k.
Proof.
  intros k Hk. destruct (pipeR_steps k Hk) as (Hn & Hr & Ha & Hp). cbv zeta in *.
  unfold tril_pipeline.
  destruct FR_1 as [V1 F1]. destruct FR_2 as [V2 F2]. destruct FR_8 as [V8 F8].
  destruct (fl_of_usize k Hk) as [V0 F0].
  set (x0 := f64_of_usize k) in *.
  assert (Hk0 : 0 <= IZR k) by (apply IZR_le; lia).
  assert (Hk1 : IZR k <= 9007199254740992) by (apply IZR_le; lia).
  (* 8 * k : exact *)
  assert (R1 : RND (FR f64_8 * FR x0) = 8 * IZR k).
  { rewrite V8, V0. apply RND_id.
    replace (8 * IZR k) with (IZR k * bpow radix2 3) by (simpl; lra). apply fmt; lia. }
  destruct (fl_mul f64_8 x0 F8 F0) as [W1 G1].
  { rewrite R1. apply ok_small. rewrite Rabs_pos_eq by lra. simpl. lra. }
  rewrite R1 in W1. set (x1 := (f64_8 * x0)%float) in *.
  destruct (fl_add f64_1 x1 F1 G1) as [W2 G2].
  { rewrite V1, W1. apply ok_small. rewrite Rabs_pos_eq by lra. simpl. lra. }
  rewrite V1, W1 in W2. set (x2 := (f64_1 + x1)%float) in *.
  destruct (fl_sqrt x2 G2) as [W3 G3]; [rewrite W2; lra|].
  rewrite W2 in W3. set (x3 := fsqrt x2) in *.
  destruct (fl_sub x3 f64_1 G3 F1) as [W4 G4].
  { rewrite W3, V1. apply ok_range. lra. }
  rewrite W3, V1 in W4. set (x4 := (x3 - f64_1)%float) in *.
  destruct (fl_div x4 f64_2 G4) as [W5 G5].
  { rewrite V2. lra. }
  { rewrite W4, V2. apply ok_range. exact Hp. }
  rewrite W4, V2 in W5. split; [assumption|]. exact W5.
Qed.

Lemma pipeR_mono : forall k k', (k <= k')%Z -> pipeR k <= pipeR k'.
Proof.
  intros k k' H. apply IZR_le in H. unfold pipeR.
  apply RND_le. apply Rmult_le_compat_r; [lra|]. apply RND_le. apply Rplus_le_compat_r.
  apply RND_le. apply sqrt_le_1_alt. apply RND_le. lra.
Qed.

Lemma tril_p_fl_value : forall k, (0 <= k < 2 ^ 53)%Z -> tril_p_fl k = Zfloor (pipeR k).
Proof.
  intros k Hk. destruct (pipeline_value k Hk) as [F V]. destruct (pipeR_steps k Hk) as (_ & _ & _ & Hp).
  unfold tril_p_fl. rewrite to_usize_correct; [rewrite V; reflexivity|assumption|].
  rewrite V. simpl. lra.
Qed.

(* monotonicity of the whole float pipeline, floor included *)
Theorem tril_p_fl_mono : forall k k', (0 <= k)%Z -> (k <= k')%Z -> (k' < 2 ^ 53)%Z -> (tril_p_fl k <= tril_p_fl k')%Z.
Proof.
  intros k k' H0 H1 H2. rewrite !tril_p_fl_value by lia. apply Zfloor_le. apply pipeR_mono. assumption.
Qed.

(* ---- the analytic core ---- *)
Definition d26 : R := bpow radix2 (-26).
Definition d27 : R := bpow radix2 (-27).
Lemma d26_val : d26 = / 67108864. Proof. unfold d26. simpl. reflexivity. Qed.
Lemma d27_val : d27 = / 134217728. Proof. unfold d27. simpl. reflexivity. Qed.

(* for (2p+1)^2 <= 1+8k <= (2p+3)^2 - 8, i.e. T p <= k < T (p+1), with 1+8k < 2^53 and 2p+3 <= 2^27:
   1+8k is computed exactly;  sqrt(1+8k) lies in [2p+1, 2p+3 - 2^-26] because
   (2p+3 - 2^-26)^2 >= (2p+3)^2 - 4 and both ends are binary64 numbers, so the rounded root stays
   in that interval;  subtracting 1 and halving map it to [p, p+1 - 2^-27] (again binary64 ends) *)
Lemma pipeR_bounds : forall k p : Z,
  (0 <= k)%Z -> (0 <= p)%Z -> (1 + 8 * k < 2 ^ 53)%Z -> (2 * p + 3 <= 2 ^ 27)%Z ->
  ((2 * p + 1) * (2 * p + 1) <= 1 + 8 * k <= (2 * p + 3) * (2 * p + 3) - 8)%Z ->
  IZR p <= pipeR k <= IZR p + 1 - d27.
Proof.
  intros k p Hk Hp Hn Hq [Hlo Hhi]. unfold pipeR.
  assert (R2 : RND (1 + 8 * IZR k) = 1 + 8 * IZR k).
  { apply RND_id. replace (1 + 8 * IZR k) with (IZR (1 + 8 * k)) by (rewrite plus_IZR, mult_IZR; reflexivity).
    apply fmt_int. lia. }
  rewrite R2. set (n := 1 + 8 * IZR k). set (rp := IZR p).
  assert (Hrp : 0 <= rp) by (apply IZR_le; assumption).
  assert (Hrq : 2 * rp + 3 <= 134217728).
  { unfold rp. apply IZR_le in Hq. rewrite plus_IZR, mult_IZR in Hq. simpl in Hq. lra. }
  assert (Hnlo : (2 * rp + 1) * (2 * rp + 1) <= n).
  { unfold rp, n. apply IZR_le in Hlo. rewrite !mult_IZR, !plus_IZR, !mult_IZR in Hlo. lra. }
  assert (Hnhi : n <= (2 * rp + 3) * (2 * rp + 3) - 8).
  { unfold rp, n. apply IZR_le in Hhi. rewrite minus_IZR, !mult_IZR, !plus_IZR, !mult_IZR in Hhi. lra. }
  pose proof d26_val as D26. pose proof d27_val as D27.
  assert (B3 : 2 * rp + 1 <= RND (rsqrt n) <= 2 * rp + 3 - d26).
  { apply RND_bounds.
    - replace (2 * rp + 1) with (IZR (2 * p + 1)) by (rewrite plus_IZR, mult_IZR; reflexivity).
      apply fmt_int; lia.
    - replace (2 * rp + 3 - d26) with (IZR ((2 * p + 3) * 2 ^ 26 - 1) * bpow radix2 (-26)).
      + apply fmt; lia.
      + fold d26. rewrite minus_IZR, mult_IZR, plus_IZR, mult_IZR. fold rp.
        change (IZR (2 ^ 26)) with 67108864. rewrite D26. field.
    - split.
      + apply sqrt_lo; lra.
      + apply sqrt_hi; [rewrite D26; lra|]. rewrite D26.
        replace ((2 * rp + 3 - / 67108864) * (2 * rp + 3 - / 67108864))
          with ((2 * rp + 3) * (2 * rp + 3) - (2 * (2 * rp + 3) * / 67108864 - / 67108864 * / 67108864)) by field.
        lra. }
  set (r := RND (rsqrt n)) in *.
  assert (B4 : 2 * rp <= RND (r - 1) <= 2 * rp + 2 - d26).
  { apply RND_bounds.
    - replace (2 * rp) with (IZR (2 * p)) by (rewrite mult_IZR; reflexivity).
      apply fmt_int; lia.
    - replace (2 * rp + 2 - d26) with (IZR ((2 * p + 2) * 2 ^ 26 - 1) * bpow radix2 (-26)).
      + apply fmt; lia.
      + fold d26. rewrite minus_IZR, mult_IZR, plus_IZR, mult_IZR. fold rp.
        change (IZR (2 ^ 26)) with 67108864. rewrite D26. field.
    - lra. }
  set (a := RND (r - 1)) in *.
  apply RND_bounds.
  - apply fmt_int; lia.
  - replace (rp + 1 - d27) with (IZR ((2 * p + 2) * 2 ^ 26 - 1) * bpow radix2 (-27)).
    + apply fmt; lia.
    + fold d27. rewrite minus_IZR, mult_IZR, plus_IZR, mult_IZR. fold rp.
      change (IZR (2 ^ 26)) with 67108864. rewrite D27. field.
  - rewrite D26 in B4. rewrite D27. lra.
Qed.

Lemma tril_p_fl_correct : forall k p : Z,
  (0 <= k)%Z -> (0 <= p)%Z -> (1 + 8 * k < 2 ^ 53)%Z -> (2 * p + 3 <= 2 ^ 27)%Z ->
  ((2 * p + 1) * (2 * p + 1) <= 1 + 8 * k <= (2 * p + 3) * (2 * p + 3) - 8)%Z ->
  tril_p_fl k = p.
Proof.
  intros k p Hk Hp Hn Hq Hb.
  destruct (pipeR_bounds k p Hk Hp Hn Hq Hb) as [B1 B2].
  rewrite tril_p_fl_value by lia.
  assert (0 < d27) by (rewrite d27_val; lra).
  apply Zfloor_imp. rewrite plus_IZR. lra.
Qed.
Local Close Scope R_scope.
Local Open Scope Z_scope.

(* THE THEOREM (C13): below 2^50 the f64 pipeline and the exact integer square root agree *)
Theorem fl_inv : forall k : nat, Z.of_nat k < 2 ^ 50 -> tril_inv_fl (Z.of_nat k) = pairZ (tril_inv k).
Proof.
  intros k Hk. rewrite tril_inv_eq. cbv zeta.
  pose proof (sqrt_row k) as Hr. cbv zeta in Hr.
  set (p := ((N.to_nat (N.sqrt (1 + 8 * N.of_nat k)) - 1) / 2)%nat) in *.
  destruct (row_bounds_Z k p Hr) as [Hb HT]. cbv zeta in Hb, HT. unfold TZ in HT.
  assert (Hq : 2 * Z.of_nat p + 3 <= 2 ^ 27).
  { assert (Z.of_nat p * (Z.of_nat p + 1) <= 2 * Z.of_nat k).
    { pose proof (T_double p). nia. }
    nia. }
  unfold tril_inv_fl.
  rewrite (tril_p_fl_correct (Z.of_nat k) (Z.of_nat p)) by lia.
  unfold pairZ; simpl fst; simpl snd. f_equal; [lia|].
  rewrite <- HT. lia.
Qed.

Corollary fl_inv_Z : forall k : Z, 0 <= k < 2 ^ 50 -> tril_inv_fl k = tril_inv_Z k.
Proof.
  intros k Hk. rewrite <- (Z2Nat.id k) by lia. rewrite tril_inv_Z_correct. apply fl_inv. lia.
Qed.

Corollary fl_inv_nat : forall k : nat, Z.of_nat k < 2 ^ 50 ->
  tril_inv k = (Z.to_nat (fst (tril_inv_fl (Z.of_nat k))), Z.to_nat (snd (tril_inv_fl (Z.of_nat k)))).
Proof.
  intros k Hk. rewrite (fl_inv k Hk). unfold pairZ. cbn [fst snd]. rewrite !Nat2Z.id. destruct (tril_inv k); reflexivity.
Qed.
Local Close Scope Z_scope.

(* ================================================================================================ *)
(* 5. a second, computational proof: EVERY boundary is swept, and the pipeline is monotone          *)
(* ================================================================================================ *)

(* ---- a fast boundary test on machine integers and float comparisons, proved sound ---- *)
Definition pipeline_int (i : int) : f64 :=
  ((fsqrt (f64_1 + f64_8 * of_uint63 i) - f64_1) / f64_2)%float.

(* p <= x < p + 1, decided by two float comparisons *)
Definition in_row (x : f64) (p : int) : bool :=
  (of_uint63 p <=? x)%float && (x <? of_uint63 (p + 1)%uint63)%float.

Definition chk_int (p : int) : bool :=
  let t := ((p * (p + 1)) >> 1)%uint63 in
  in_row (pipeline_int t) p && ((p =? 0)%uint63 || in_row (pipeline_int (t - 1)) (p - 1)).

Fixpoint sweep_int (n : nat) (p : int) : bool :=
  match n with O => true | S n' => if chk_int p then sweep_int n' (p + 1)%uint63 else false end.

Local Open Scope Z_scope.

Lemma wB_val : wB = 2 ^ 63. Proof. reflexivity. Qed.

Lemma to_Z_succ : forall p : int, to_Z p < 2 ^ 62 -> to_Z (p + 1)%uint63 = to_Z p + 1.
Proof.
  intros p Hp. pose proof (to_Z_bounded p). rewrite Uint63.add_spec, to_Z_1. apply Z.mod_small.
  rewrite wB_val. lia.
Qed.

Lemma to_Z_pred : forall p : int, 1 <= to_Z p -> to_Z (p - 1)%uint63 = to_Z p - 1.
Proof.
  intros p Hp. pose proof (to_Z_bounded p). rewrite Uint63.sub_spec, to_Z_1. apply Z.mod_small. lia.
Qed.

Lemma to_Z_tri : forall p : int, to_Z p < 2 ^ 27 -> to_Z ((p * (p + 1)) >> 1)%uint63 = TZ (to_Z p).
Proof.
  intros p Hp. pose proof (to_Z_bounded p).
  rewrite Uint63.lsr_spec, to_Z_1, Uint63.mul_spec, to_Z_succ by lia. unfold TZ.
  rewrite Z.mod_small by (rewrite wB_val; nia). reflexivity.
Qed.

Lemma in_row_sound : forall x p, to_Z p + 1 < 2 ^ 53 -> in_row x p = true ->
  fin x /\ (IZR (to_Z p) <= FR x < IZR (to_Z p + 1))%R.
Proof.
  intros x p Hp H. unfold in_row in H. apply andb_prop in H as [H1 H2].
  rewrite leb_equiv in H1. rewrite ltb_equiv in H2.
  pose proof (to_Z_bounded p) as Hb.
  destruct (fl_of_int p ltac:(lia)) as [Va Fa].
  destruct (fl_of_int (p + 1)%uint63 ltac:(rewrite to_Z_succ; lia)) as [Vb Fb].
  rewrite to_Z_succ in Vb by lia.
  unfold FR, fin in *.
  set (a := Prim2B (of_uint63 p)) in *. set (b := Prim2B (of_uint63 (p + 1))) in *.
  set (X := Prim2B x) in *.
  assert (FX : is_finite X = true).
  { destruct X as [s|[|]| |s m e Hm]; try reflexivity.
    - destruct a as [sa|sa| |sa ma ea Ha]; try discriminate Fa; destruct sa; discriminate H1.
    - destruct b as [sa|sa| |sa ma ea Ha]; try discriminate Fb; destruct sa; discriminate H2.
    - destruct a as [sa|sa| |sa ma ea Ha]; try discriminate Fa; discriminate H1. }
  split; [assumption|].
  rewrite Bleb_correct in H1 by assumption. rewrite Bltb_correct in H2 by assumption.
  rewrite Va in H1. rewrite Vb in H2.
  destruct (Rle_bool_spec (IZR (to_Z p)) (B2R X)); [|discriminate].
  destruct (Rlt_bool_spec (B2R X) (IZR (to_Z p + 1))); [|discriminate].
  split; assumption.
Qed.

Lemma tril_pipeline_int : forall i : int, tril_pipeline (to_Z i) = pipeline_int i.
Proof. intros i. unfold tril_pipeline, pipeline_int, f64_of_usize. rewrite of_to_Z. reflexivity. Qed.

Lemma in_row_floor : forall (t p : int), to_Z t < 2 ^ 53 -> to_Z p + 1 < 2 ^ 53 ->
  in_row (pipeline_int t) p = true -> tril_p_fl (to_Z t) = to_Z p.
Proof.
  intros t p Ht Hp H. pose proof (to_Z_bounded t).
  destruct (in_row_sound _ _ Hp H) as [F [B1 B2]].
  rewrite <- tril_pipeline_int in B1, B2.
  destruct (pipeline_value (to_Z t) ltac:(lia)) as [_ V]. rewrite V in B1, B2.
  rewrite tril_p_fl_value by lia. apply Zfloor_imp. split; assumption.
Qed.

Lemma TZ_S : forall P, 0 <= P -> TZ (P + 1) = TZ P + P + 1.
Proof.
  intros P HP. unfold TZ. replace ((P + 1) * (P + 1 + 1)) with (P * (P + 1) + (P + 1) * 2) by ring.
  rewrite Z.div_add by lia. lia.
Qed.

Lemma TZ_pos : forall P, 1 <= P -> 1 <= TZ P.
Proof. intros P HP. unfold TZ. apply Z.div_le_lower_bound; nia. Qed.

Lemma chk_int_ok : forall p : int, to_Z p < 2 ^ 27 -> chk_int p = true -> boundary_ok (to_Z p).
Proof.
  intros p Hp H. pose proof (to_Z_bounded p) as Hb. unfold chk_int in H. cbv zeta in H.
  apply andb_prop in H as [H1 H2].
  set (t := ((p * (p + 1)) >> 1)%uint63) in *.
  assert (Ht : to_Z t = TZ (to_Z p)) by (apply to_Z_tri; lia).
  assert (Htb : TZ (to_Z p) < 2 ^ 53).
  { unfold TZ. apply Z.div_lt_upper_bound; nia. }
  split.
  - unfold tril_inv_fl. rewrite <- Ht. rewrite (in_row_floor t p) by first [lia | assumption].
    rewrite Ht. unfold TZ. f_equal. lia.
  - intros HP. apply orb_prop in H2 as [H2|H2].
    + apply Uint63.eqb_spec in H2. subst p. rewrite to_Z_0 in HP. lia.
    + pose proof (TZ_pos _ HP) as Ht1.
      assert (Ht' : to_Z (t - 1)%uint63 = TZ (to_Z p) - 1) by (rewrite to_Z_pred; lia).
      assert (Hp' : to_Z (p - 1)%uint63 = to_Z p - 1) by (apply to_Z_pred; lia).
      unfold tril_inv_fl. rewrite <- Ht'. rewrite (in_row_floor (t - 1)%uint63 (p - 1)%uint63) by first [lia | assumption].
      rewrite Ht', Hp'. f_equal; [lia|].
      pose proof (TZ_S (to_Z p - 1) ltac:(lia)) as HS.
      unfold TZ in *. replace (to_Z p - 1 + 1) with (to_Z p) in * by lia. lia.
Qed.

Lemma sweep_int_ok : forall n p0, sweep_int n (of_Z p0) = true -> 0 <= p0 -> p0 + Z.of_nat n <= 2 ^ 27 ->
  forall P, p0 <= P < p0 + Z.of_nat n -> boundary_ok P.
Proof.
  induction n as [|n IH]; intros p0 H H0 Hn P HP; [lia|].
  simpl in H. destruct (chk_int (of_Z p0)) eqn:E; [|discriminate].
  assert (Hz : to_Z (of_Z p0) = p0) by (apply to_Z_of_Z; lia).
  destruct (Z.eq_dec P p0) as [->|Hne].
  - rewrite <- Hz. apply chk_int_ok; [rewrite Hz; lia|assumption].
  - apply (IH (p0 + 1)); try lia.
    replace (of_Z (p0 + 1)) with (of_Z p0 + 1)%uint63; [assumption|].
    apply to_Z_inj. rewrite to_Z_succ by lia. rewrite Hz. rewrite to_Z_of_Z; lia.
Qed.

(* the chunks: 64 * 2^21 = 2^27 boundaries, i.e. every row that starts below 2^53 - 2^26 *)
Definition bigchunk : nat := Nat.pow 2 21.
Definition P_swept : Z := 2 ^ 27.
Lemma sweep_full_0 : sweep_int bigchunk (of_Z (0 * 2097152)) = true. Proof. vm_cast_no_check (eq_refl true). Qed.
Lemma sweep_full_1 : sweep_int bigchunk (of_Z (1 * 2097152)) = true. Proof. vm_cast_no_check (eq_refl true). Qed.
Lemma sweep_full_2 : sweep_int bigchunk (of_Z (2 * 2097152)) = true. Proof. vm_cast_no_check (eq_refl true). Qed.
Lemma sweep_full_3 : sweep_int bigchunk (of_Z (3 * 2097152)) = true. Proof. vm_cast_no_check (eq_refl true). Qed.
Lemma sweep_full_4 : sweep_int bigchunk (of_Z (4 * 2097152)) = true. Proof. vm_cast_no_check (eq_refl true). Qed.
Lemma sweep_full_5 : sweep_int bigchunk (of_Z (5 * 2097152)) = true. Proof. vm_cast_no_check (eq_refl true). Qed.
Lemma sweep_full_6 : sweep_int bigchunk (of_Z (6 * 2097152)) = true. Proof. vm_cast_no_check (eq_refl true). Qed.
Lemma sweep_full_7 : sweep_int bigchunk (of_Z (7 * 2097152)) = true. Proof. vm_cast_no_check (eq_refl true). Qed.
Lemma sweep_full_8 : sweep_int bigchunk (of_Z (8 * 2097152)) = true. Proof. vm_cast_no_check (eq_refl true). Qed.
Lemma sweep_full_9 : sweep_int bigchunk (of_Z (9 * 2097152)) = true. Proof. vm_cast_no_check (eq_refl true). Qed.
Lemma sweep_full_10 : sweep_int bigchunk (of_Z (10 * 2097152)) = true. Proof. vm_cast_no_check (eq_refl true). Qed.
Lemma sweep_full_11 : sweep_int bigchunk (of_Z (11 * 2097152)) = true. Proof. vm_cast_no_check (eq_refl true). Qed.
Lemma sweep_full_12 : sweep_int bigchunk (of_Z (12 * 2097152)) = true. Proof. vm_cast_no_check (eq_refl true). Qed.
Lemma sweep_full_13 : sweep_int bigchunk (of_Z (13 * 2097152)) = true. Proof. vm_cast_no_check (eq_refl true). Qed.
Lemma sweep_full_14 : sweep_int bigchunk (of_Z (14 * 2097152)) = true. Proof. vm_cast_no_check (eq_refl true). Qed.
Lemma sweep_full_15 : sweep_int bigchunk (of_Z (15 * 2097152)) = true. Proof. vm_cast_no_check (eq_refl true). Qed.
Lemma sweep_full_16 : sweep_int bigchunk (of_Z (16 * 2097152)) = true. Proof. vm_cast_no_check (eq_refl true). Qed.
Lemma sweep_full_17 : sweep_int bigchunk (of_Z (17 * 2097152)) = true. Proof. vm_cast_no_check (eq_refl true). Qed.
Lemma sweep_full_18 : sweep_int bigchunk (of_Z (18 * 2097152)) = true. Proof. vm_cast_no_check (eq_refl true). Qed.
Lemma sweep_full_19 : sweep_int bigchunk (of_Z (19 * 2097152)) = true. Proof. vm_cast_no_check (eq_refl true). Qed.
Lemma sweep_full_20 : sweep_int bigchunk (of_Z (20 * 2097152)) = true. Proof. vm_cast_no_check (eq_refl true). Qed.
Lemma sweep_full_21 : sweep_int bigchunk (of_Z (21 * 2097152)) = true. Proof. vm_cast_no_check (eq_refl true). Qed.
Lemma sweep_full_22 : sweep_int bigchunk (of_Z (22 * 2097152)) = true. Proof. vm_cast_no_check (eq_refl true). Qed.
Lemma sweep_full_23 : sweep_int bigchunk (of_Z (23 * 2097152)) = true. Proof. vm_cast_no_check (eq_refl true). Qed.
Lemma sweep_full_24 : sweep_int bigchunk (of_Z (24 * 2097152)) = true. Proof. vm_cast_no_check (eq_refl true). Qed.
Lemma sweep_full_25 : sweep_int bigchunk (of_Z (25 * 2097152)) = true. Proof. vm_cast_no_check (eq_refl true). Qed.
Lemma sweep_full_26 : sweep_int bigchunk (of_Z (26 * 2097152)) = true. Proof. vm_cast_no_check (eq_refl true). Qed.
Lemma sweep_full_27 : sweep_int bigchunk (of_Z (27 * 2097152)) = true. Proof. vm_cast_no_check (eq_refl true). Qed.
Lemma sweep_full_28 : sweep_int bigchunk (of_Z (28 * 2097152)) = true. Proof. vm_cast_no_check (eq_refl true). Qed.
Lemma sweep_full_29 : sweep_int bigchunk (of_Z (29 * 2097152)) = true. Proof. vm_cast_no_check (eq_refl true). Qed.
Lemma sweep_full_30 : sweep_int bigchunk (of_Z (30 * 2097152)) = true. Proof. vm_cast_no_check (eq_refl true). Qed.
Lemma sweep_full_31 : sweep_int bigchunk (of_Z (31 * 2097152)) = true. Proof. vm_cast_no_check (eq_refl true). Qed.
Lemma sweep_full_32 : sweep_int bigchunk (of_Z (32 * 2097152)) = true. Proof. vm_cast_no_check (eq_refl true). Qed.
Lemma sweep_full_33 : sweep_int bigchunk (of_Z (33 * 2097152)) = true. Proof. vm_cast_no_check (eq_refl true). Qed.
Lemma sweep_full_34 : sweep_int bigchunk (of_Z (34 * 2097152)) = true. Proof. vm_cast_no_check (eq_refl true). Qed.
Lemma sweep_full_35 : sweep_int bigchunk (of_Z (35 * 2097152)) = true. Proof. vm_cast_no_check (eq_refl true). Qed.
Lemma sweep_full_36 : sweep_int bigchunk (of_Z (36 * 2097152)) = true. Proof. vm_cast_no_check (eq_refl true). Qed.
Lemma sweep_full_37 : sweep_int bigchunk (of_Z (37 * 2097152)) = true. Proof. vm_cast_no_check (eq_refl true). Qed.
Lemma sweep_full_38 : sweep_int bigchunk (of_Z (38 * 2097152)) = true. Proof. vm_cast_no_check (eq_refl true). Qed.
Lemma sweep_full_39 : sweep_int bigchunk (of_Z (39 * 2097152)) = true. Proof. vm_cast_no_check (eq_refl true). Qed.
Lemma sweep_full_40 : sweep_int bigchunk (of_Z (40 * 2097152)) = true. Proof. vm_cast_no_check (eq_refl true). Qed.
Lemma sweep_full_41 : sweep_int bigchunk (of_Z (41 * 2097152)) = true. Proof. vm_cast_no_check (eq_refl true). Qed.
Lemma sweep_full_42 : sweep_int bigchunk (of_Z (42 * 2097152)) = true. Proof. vm_cast_no_check (eq_refl true). Qed.
Lemma sweep_full_43 : sweep_int bigchunk (of_Z (43 * 2097152)) = true. Proof. vm_cast_no_check (eq_refl true). Qed.
Lemma sweep_full_44 : sweep_int bigchunk (of_Z (44 * 2097152)) = true. Proof. vm_cast_no_check (eq_refl true). Qed.
Lemma sweep_full_45 : sweep_int bigchunk (of_Z (45 * 2097152)) = true. Proof. vm_cast_no_check (eq_refl true). Qed.
Lemma sweep_full_46 : sweep_int bigchunk (of_Z (46 * 2097152)) = true. Proof. vm_cast_no_check (eq_refl true). Qed.
Lemma sweep_full_47 : sweep_int bigchunk (of_Z (47 * 2097152)) = true. Proof. vm_cast_no_check (eq_refl true). Qed.
Lemma sweep_full_48 : sweep_int bigchunk (of_Z (48 * 2097152)) = true. Proof. vm_cast_no_check (eq_refl true). Qed.
Lemma sweep_full_49 : sweep_int bigchunk (of_Z (49 * 2097152)) = true. Proof. vm_cast_no_check (eq_refl true). Qed.
Lemma sweep_full_50 : sweep_int bigchunk (of_Z (50 * 2097152)) = true. Proof. vm_cast_no_check (eq_refl true). Qed.
Lemma sweep_full_51 : sweep_int bigchunk (of_Z (51 * 2097152)) = true. Proof. vm_cast_no_check (eq_refl true). Qed.
Lemma sweep_full_52 : sweep_int bigchunk (of_Z (52 * 2097152)) = true. Proof. vm_cast_no_check (eq_refl true). Qed.
Lemma sweep_full_53 : sweep_int bigchunk (of_Z (53 * 2097152)) = true. Proof. vm_cast_no_check (eq_refl true). Qed.
Lemma sweep_full_54 : sweep_int bigchunk (of_Z (54 * 2097152)) = true. Proof. vm_cast_no_check (eq_refl true). Qed.
Lemma sweep_full_55 : sweep_int bigchunk (of_Z (55 * 2097152)) = true. Proof. vm_cast_no_check (eq_refl true). Qed.
Lemma sweep_full_56 : sweep_int bigchunk (of_Z (56 * 2097152)) = true. Proof. vm_cast_no_check (eq_refl true). Qed.
Lemma sweep_full_57 : sweep_int bigchunk (of_Z (57 * 2097152)) = true. Proof. vm_cast_no_check (eq_refl true). Qed.
Lemma sweep_full_58 : sweep_int bigchunk (of_Z (58 * 2097152)) = true. Proof. vm_cast_no_check (eq_refl true). Qed.
Lemma sweep_full_59 : sweep_int bigchunk (of_Z (59 * 2097152)) = true. Proof. vm_cast_no_check (eq_refl true). Qed.
Lemma sweep_full_60 : sweep_int bigchunk (of_Z (60 * 2097152)) = true. Proof. vm_cast_no_check (eq_refl true). Qed.
Lemma sweep_full_61 : sweep_int bigchunk (of_Z (61 * 2097152)) = true. Proof. vm_cast_no_check (eq_refl true). Qed.
Lemma sweep_full_62 : sweep_int bigchunk (of_Z (62 * 2097152)) = true. Proof. vm_cast_no_check (eq_refl true). Qed.
Lemma sweep_full_63 : sweep_int bigchunk (of_Z (63 * 2097152)) = true. Proof. vm_cast_no_check (eq_refl true). Qed.

Lemma bigchunk_Z : Z.of_nat bigchunk = 2097152. Proof. vm_compute. reflexivity. Qed.

Lemma sweep_step : forall c, sweep_int bigchunk (of_Z (c * 2097152)) = true -> 0 <= c < 64 ->
  (forall P, 0 <= P < c * 2097152 -> boundary_ok P) -> forall P, 0 <= P < (c + 1) * 2097152 -> boundary_ok P.
Proof.
  intros c Hs Hc Hprev P HP. destruct (Z_lt_le_dec P (c * 2097152)); [apply Hprev; lia|].
  apply (sweep_int_ok bigchunk (c * 2097152) Hs); rewrite ?bigchunk_Z; lia.
Qed.

(* every boundary 0 <= P < 2^27 = 134217728; the rows needed for k < 2^50 are P <= P_last + 1 = 47453133 *)
Theorem fl_inv_sweep_full : forall P, 0 <= P < P_swept -> boundary_ok P.
Proof.
  unfold P_swept. change (2 ^ 27) with ((63 + 1) * 2097152).
  apply (sweep_step 63 sweep_full_63); [lia|]. change (63 * 2097152) with ((62 + 1) * 2097152).
  apply (sweep_step 62 sweep_full_62); [lia|]. change (62 * 2097152) with ((61 + 1) * 2097152).
  apply (sweep_step 61 sweep_full_61); [lia|]. change (61 * 2097152) with ((60 + 1) * 2097152).
  apply (sweep_step 60 sweep_full_60); [lia|]. change (60 * 2097152) with ((59 + 1) * 2097152).
  apply (sweep_step 59 sweep_full_59); [lia|]. change (59 * 2097152) with ((58 + 1) * 2097152).
  apply (sweep_step 58 sweep_full_58); [lia|]. change (58 * 2097152) with ((57 + 1) * 2097152).
  apply (sweep_step 57 sweep_full_57); [lia|]. change (57 * 2097152) with ((56 + 1) * 2097152).
  apply (sweep_step 56 sweep_full_56); [lia|]. change (56 * 2097152) with ((55 + 1) * 2097152).
  apply (sweep_step 55 sweep_full_55); [lia|]. change (55 * 2097152) with ((54 + 1) * 2097152).
  apply (sweep_step 54 sweep_full_54); [lia|]. change (54 * 2097152) with ((53 + 1) * 2097152).
  apply (sweep_step 53 sweep_full_53); [lia|]. change (53 * 2097152) with ((52 + 1) * 2097152).
  apply (sweep_step 52 sweep_full_52); [lia|]. change (52 * 2097152) with ((51 + 1) * 2097152).
  apply (sweep_step 51 sweep_full_51); [lia|]. change (51 * 2097152) with ((50 + 1) * 2097152).
  apply (sweep_step 50 sweep_full_50); [lia|]. change (50 * 2097152) with ((49 + 1) * 2097152).
  apply (sweep_step 49 sweep_full_49); [lia|]. change (49 * 2097152) with ((48 + 1) * 2097152).
  apply (sweep_step 48 sweep_full_48); [lia|]. change (48 * 2097152) with ((47 + 1) * 2097152).
  apply (sweep_step 47 sweep_full_47); [lia|]. change (47 * 2097152) with ((46 + 1) * 2097152).
  apply (sweep_step 46 sweep_full_46); [lia|]. change (46 * 2097152) with ((45 + 1) * 2097152).
  apply (sweep_step 45 sweep_full_45); [lia|]. change (45 * 2097152) with ((44 + 1) * 2097152).
  apply (sweep_step 44 sweep_full_44); [lia|]. change (44 * 2097152) with ((43 + 1) * 2097152).
  apply (sweep_step 43 sweep_full_43); [lia|]. change (43 * 2097152) with ((42 + 1) * 2097152).
  apply (sweep_step 42 sweep_full_42); [lia|]. change (42 * 2097152) with ((41 + 1) * 2097152).
  apply (sweep_step 41 sweep_full_41); [lia|]. change (41 * 2097152) with ((40 + 1) * 2097152).
  apply (sweep_step 40 sweep_full_40); [lia|]. change (40 * 2097152) with ((39 + 1) * 2097152).
  apply (sweep_step 39 sweep_full_39); [lia|]. change (39 * 2097152) with ((38 + 1) * 2097152).
  apply (sweep_step 38 sweep_full_38); [lia|]. change (38 * 2097152) with ((37 + 1) * 2097152).
  apply (sweep_step 37 sweep_full_37); [lia|]. change (37 * 2097152) with ((36 + 1) * 2097152).
  apply (sweep_step 36 sweep_full_36); [lia|]. change (36 * 2097152) with ((35 + 1) * 2097152).
  apply (sweep_step 35 sweep_full_35); [lia|]. change (35 * 2097152) with ((34 + 1) * 2097152).
  apply (sweep_step 34 sweep_full_34); [lia|]. change (34 * 2097152) with ((33 + 1) * 2097152).
  apply (sweep_step 33 sweep_full_33); [lia|]. change (33 * 2097152) with ((32 + 1) * 2097152).
  apply (sweep_step 32 sweep_full_32); [lia|]. change (32 * 2097152) with ((31 + 1) * 2097152).
  apply (sweep_step 31 sweep_full_31); [lia|]. change (31 * 2097152) with ((30 + 1) * 2097152).
  apply (sweep_step 30 sweep_full_30); [lia|]. change (30 * 2097152) with ((29 + 1) * 2097152).
  apply (sweep_step 29 sweep_full_29); [lia|]. change (29 * 2097152) with ((28 + 1) * 2097152).
  apply (sweep_step 28 sweep_full_28); [lia|]. change (28 * 2097152) with ((27 + 1) * 2097152).
  apply (sweep_step 27 sweep_full_27); [lia|]. change (27 * 2097152) with ((26 + 1) * 2097152).
  apply (sweep_step 26 sweep_full_26); [lia|]. change (26 * 2097152) with ((25 + 1) * 2097152).
  apply (sweep_step 25 sweep_full_25); [lia|]. change (25 * 2097152) with ((24 + 1) * 2097152).
  apply (sweep_step 24 sweep_full_24); [lia|]. change (24 * 2097152) with ((23 + 1) * 2097152).
  apply (sweep_step 23 sweep_full_23); [lia|]. change (23 * 2097152) with ((22 + 1) * 2097152).
  apply (sweep_step 22 sweep_full_22); [lia|]. change (22 * 2097152) with ((21 + 1) * 2097152).
  apply (sweep_step 21 sweep_full_21); [lia|]. change (21 * 2097152) with ((20 + 1) * 2097152).
  apply (sweep_step 20 sweep_full_20); [lia|]. change (20 * 2097152) with ((19 + 1) * 2097152).
  apply (sweep_step 19 sweep_full_19); [lia|]. change (19 * 2097152) with ((18 + 1) * 2097152).
  apply (sweep_step 18 sweep_full_18); [lia|]. change (18 * 2097152) with ((17 + 1) * 2097152).
  apply (sweep_step 17 sweep_full_17); [lia|]. change (17 * 2097152) with ((16 + 1) * 2097152).
  apply (sweep_step 16 sweep_full_16); [lia|]. change (16 * 2097152) with ((15 + 1) * 2097152).
  apply (sweep_step 15 sweep_full_15); [lia|]. change (15 * 2097152) with ((14 + 1) * 2097152).
  apply (sweep_step 14 sweep_full_14); [lia|]. change (14 * 2097152) with ((13 + 1) * 2097152).
  apply (sweep_step 13 sweep_full_13); [lia|]. change (13 * 2097152) with ((12 + 1) * 2097152).
  apply (sweep_step 12 sweep_full_12); [lia|]. change (12 * 2097152) with ((11 + 1) * 2097152).
  apply (sweep_step 11 sweep_full_11); [lia|]. change (11 * 2097152) with ((10 + 1) * 2097152).
  apply (sweep_step 10 sweep_full_10); [lia|]. change (10 * 2097152) with ((9 + 1) * 2097152).
  apply (sweep_step 9 sweep_full_9); [lia|]. change (9 * 2097152) with ((8 + 1) * 2097152).
  apply (sweep_step 8 sweep_full_8); [lia|]. change (8 * 2097152) with ((7 + 1) * 2097152).
  apply (sweep_step 7 sweep_full_7); [lia|]. change (7 * 2097152) with ((6 + 1) * 2097152).
  apply (sweep_step 6 sweep_full_6); [lia|]. change (6 * 2097152) with ((5 + 1) * 2097152).
  apply (sweep_step 5 sweep_full_5); [lia|]. change (5 * 2097152) with ((4 + 1) * 2097152).
  apply (sweep_step 4 sweep_full_4); [lia|]. change (4 * 2097152) with ((3 + 1) * 2097152).
  apply (sweep_step 3 sweep_full_3); [lia|]. change (3 * 2097152) with ((2 + 1) * 2097152).
  apply (sweep_step 2 sweep_full_2); [lia|]. change (2 * 2097152) with ((1 + 1) * 2097152).
  apply (sweep_step 1 sweep_full_1); [lia|]. change (1 * 2097152) with ((0 + 1) * 2097152).
  apply (sweep_step 0 sweep_full_0); [lia|]. 
  intros P HP. lia.
Qed.

(* ---- the monotone squeeze ---- *)
Lemma T_TZ : forall p : nat, Z.of_nat (T p) = TZ (Z.of_nat p).
Proof.
  intros p. pose proof (T_double p). unfold TZ. apply Z.div_unique_exact; [lia|]. nia.
Qed.

(* if the pipeline is exact on both sides of every boundary up to Pm, it is exact everywhere below T Pm:
   between two consecutive boundaries the floored pipeline is squeezed, being monotone (tril_p_fl_mono) *)
Theorem fl_inv_from_boundaries : forall Pm : Z, 0 <= Pm ->
  (forall P, 0 <= P <= Pm -> boundary_ok P) -> TZ Pm <= 2 ^ 53 ->
  forall k : nat, Z.of_nat k < TZ Pm -> tril_inv_fl (Z.of_nat k) = pairZ (tril_inv k).
Proof.
  intros Pm HPm Hall Hm k Hk. rewrite tril_inv_eq. cbv zeta.
  pose proof (sqrt_row k) as Hr. cbv zeta in Hr.
  set (p := ((N.to_nat (N.sqrt (1 + 8 * N.of_nat k)) - 1) / 2)%nat) in *.
  destruct Hr as [Hr1 Hr2].
  assert (HpPm : Z.of_nat p < Pm).
  { destruct (Z_lt_le_dec (Z.of_nat p) Pm) as [|Hge]; [assumption|]. exfalso.
    assert (T (Z.to_nat Pm) <= T p)%nat by (apply T_mono; lia).
    pose proof (T_TZ (Z.to_nat Pm)) as HT. rewrite Z2Nat.id in HT by lia. lia. }
  set (P := Z.of_nat p) in *.
  pose proof (T_TZ p) as HTp. fold P in HTp.
  pose proof (T_TZ (S p)) as HTsp. replace (Z.of_nat (S p)) with (P + 1) in HTsp by lia.
  assert (HTm : TZ (P + 1) <= TZ Pm).
  { assert (T (S p) <= T (Z.to_nat Pm))%nat by (apply T_mono; lia).
    pose proof (T_TZ (Z.to_nat Pm)) as HT. rewrite Z2Nat.id in HT by lia. lia. }
  destruct (Hall P ltac:(lia)) as [Hlo _].
  destruct (Hall (P + 1) ltac:(lia)) as [_ Hhi]. specialize (Hhi ltac:(lia)).
  unfold tril_inv_fl in Hlo, Hhi. injection Hlo as Hlo _. injection Hhi as Hhi _.
  assert (Hfl : tril_p_fl (Z.of_nat k) = P).
  { pose proof (tril_p_fl_mono (TZ P) (Z.of_nat k) ltac:(lia) ltac:(lia) ltac:(lia)).
    pose proof (tril_p_fl_mono (Z.of_nat k) (TZ (P + 1) - 1) ltac:(lia) ltac:(lia) ltac:(lia)).
    lia. }
  unfold tril_inv_fl. rewrite Hfl.
  unfold pairZ; simpl fst; simpl snd. f_equal; [lia|].
  fold (TZ P). fold (T p). lia.
Qed.

(* the fully swept range: every k < T (2^27 - 1) = 2^53 - 3 * 2^26 + 1, which contains [0, 2^50) *)
Theorem fl_inv_upto : forall k : nat, Z.of_nat k < TZ (P_swept - 1) ->
  tril_inv_fl (Z.of_nat k) = pairZ (tril_inv k).
Proof.
  apply fl_inv_from_boundaries.
  - vm_compute. discriminate.
  - intros P HP. apply fl_inv_sweep_full. lia.
  - vm_compute. discriminate.
Qed.

Example swept_range : TZ (P_swept - 1) = 2 ^ 53 - 2 ^ 26 /\ 2 ^ 50 < TZ (P_swept - 1).
Proof. vm_compute. split; reflexivity. Qed.

(* fl_inv again, this time from the sweep and the squeeze alone (no analysis of the square root) *)
Corollary fl_inv_by_sweep : forall k : nat, Z.of_nat k < 2 ^ 50 -> tril_inv_fl (Z.of_nat k) = pairZ (tril_inv k).
Proof. intros k Hk. apply fl_inv_upto. destruct swept_range as [_ H]. lia. Qed.
Local Close Scope Z_scope.

Print Assumptions fl_inv.
Print Assumptions fl_inv_sweep.
Print Assumptions fl_inv_sweep_full.
Print Assumptions fl_inv_upto.
Print Assumptions fl_inv_from_boundaries.
Print Assumptions fl_inv_by_sweep.
