(* NexusProps.v — what Tree::to_nexus embeds (C16, last sentence).  The model returns the three pieces the template of
   the crate interpolates: the leaf count after NTAX=, the labels of the TAXLABELS block, the tree text of the TREES block. *)
From PT Require Import Arena Spec Queries Newick.
Require Import List Lia.
Import ListNotations.

Section Nexus.
Context {L : Type}.
Notation node := (@node L).
Notation arena := (@arena L).

Definition live_tip (n : node) : bool := negb (ndeleted n) && is_tip n.
Definition tip_label (n : node) : list str :=
  if live_tip n then match nname n with Some s => [s] | None => [] end else [].

(* the three pieces are: the full-format Newick text, the number of live tips, the names of the live tips in arena order *)
Theorem nexus_pieces (t : arena) k labels nwk :
  to_nexus t = Ok (k, labels, nwk) ->
  to_newick t = Ok nwk /\ to_formatted_newick t AllFields = Ok nwk /\ k = n_leaves t /\ labels = flat_map tip_label t.
Proof.
  unfold to_nexus. destruct (to_newick t) as [nw| | |] eqn:E; cbn; intros H; try discriminate.
  inversion H; subst. repeat split; auto.
Qed.

(* to_nexus succeeds exactly when the writer does *)
Theorem nexus_ok_iff (t : arena) :
  (exists r, to_nexus t = Ok r) <-> (exists nwk, to_newick t = Ok nwk).
Proof.
  unfold to_nexus. split.
  - intros [r H]. destruct (to_newick t) as [nw| | |]; cbn in H; try discriminate. eauto.
  - intros [nwk H]. rewrite H. cbn. eauto.
Qed.

Lemma flat_map_tip_label_length (t : arena) :
  (forall n, In n t -> live_tip n = true -> nname n <> None) ->
  length (flat_map tip_label t) = length (filter live_tip t).
Proof.
  induction t as [|n t IH]; cbn [flat_map filter]; intros H; [reflexivity|].
  rewrite app_length, IH by (intros m Hm; apply H; right; exact Hm).
  unfold tip_label. destruct (live_tip n) eqn:E; cbn [length]; [|reflexivity].
  destruct (nname n) eqn:En; [reflexivity|]. exfalso. apply (H n); [left; reflexivity|exact E|exact En].
Qed.

(* when every live tip is named, the label block has exactly NTAX entries, and they are the leaf names in the order of get_leaves *)
Theorem nexus_label_count (t : arena) k labels nwk :
  to_nexus t = Ok (k, labels, nwk) ->
  (forall n, In n t -> live_tip n = true -> nname n <> None) ->
  length labels = k.
Proof.
  intros H Hn. destruct (nexus_pieces t k labels nwk H) as (_ & _ & -> & ->).
  rewrite flat_map_tip_label_length by exact Hn. reflexivity.
Qed.

Theorem nexus_labels_are_leaf_names (t : arena) k labels nwk :
  to_nexus t = Ok (k, labels, nwk) ->
  map Some labels = filter (fun o => match o with Some _ => true | None => false end)
                           (map (@nname L) (filter live_tip t)).
Proof.
  intros H. destruct (nexus_pieces t k labels nwk H) as (_ & _ & _ & ->). clear H.
  induction t as [|n t IH]; cbn [flat_map filter map]; [reflexivity|].
  rewrite map_app, IH. unfold tip_label. destruct (live_tip n); cbn [map filter app]; [|reflexivity].
  destruct (nname n); reflexivity.
Qed.
End Nexus.

Print Assumptions nexus_pieces.
Print Assumptions nexus_label_count.
Print Assumptions nexus_labels_are_leaf_names.
