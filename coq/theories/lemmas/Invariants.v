(* Invariants.v — the reachable-state invariant of the model:  Inv t := WFS t /\ Blank t.
     WF          : the live slots form exactly one rooted tree (or there is no live slot)
     SortedEdges : every child-edge association list has strictly increasing keys
     Blank       : a removed slot holds exactly the [tombstone] record
   It holds of the empty arena, is preserved by every operation of WFOps.step (whatever the operation
   returns), and holds of every tree returned by the Newick parser, the three generators and UPGMA. *)
From Coq Require Import List Arith Lia Bool Sorted.
From PT Require Import Arena Spec Queries Newick Matrix Gen RepLib WFOps Stats.
From PT Require ParserProps Generators UpgmaProps.
Import ListNotations.

(* ---- a small "partial correctness" combinator -------------------------------------------------------------- *)
Definition okP {A} (P : A -> Prop) (o : outcome A) : Prop :=
  match o with Ok a => P a | _ => True end.

Lemma okP_bind {A B} (P : B -> Prop) (o : outcome A) (f : A -> outcome B) :
  (forall a, o = Ok a -> okP P (f a)) -> okP P (bind o f).
Proof. destruct o; simpl; auto. Qed.

Lemma okP_elim {A} (P : A -> Prop) (o : outcome A) a : okP P o -> o = Ok a -> P a.
Proof. intros H ->. exact H. Qed.

Lemma okP_foldM {A S} (P : S -> Prop) (g : S -> A -> outcome S) l :
  (forall s x, P s -> okP P (g s x)) -> forall s, P s -> okP P (foldM g l s).
Proof.
  intros Hg. induction l as [|x l IH]; simpl; intros s Hs; auto.
  apply okP_bind. intros s' Hs'. apply IH. eapply okP_elim; [apply Hg; eauto|eauto].
Qed.

Section Inv.
Context {L : Type}.
Notation arena := (@arena L).
Notation node := (@node L).
Implicit Types (t : arena) (n : node).

Definition Inv t : Prop := WFS t /\ Blank t.

Lemma Inv_WFS t : Inv t -> WFS t.  Proof. intros [H _]; exact H. Qed.
Lemma Inv_WF t : Inv t -> WF t.    Proof. intros [[H _] _]; exact H. Qed.
Lemma Inv_Blank t : Inv t -> Blank t. Proof. intros [_ H]; exact H. Qed.

(* ---- Blank: closure properties --------------------------------------------------------------------------- *)
Lemma Blank_nil : Blank (@nil node).
Proof. intros [|i] n H; discriminate. Qed.

Lemma Blank_replace t k x :
  Blank t -> (ndeleted x = false \/ x = tombstone) -> Blank (replace_nth k x t).
Proof.
  intros HB Hx i n Hn Hd.
  destruct (Nat.eq_dec i k) as [->|Hne].
  - pose proof (nth_error_Some_lt _ _ _ Hn) as Hlt. rewrite replace_nth_length in Hlt.
    rewrite nth_error_replace_nth_eq in Hn by auto. injection Hn as <-.
    destruct Hx as [Hx|Hx]; auto. congruence.
  - rewrite nth_error_replace_nth_neq in Hn by auto. eapply HB; eauto.
Qed.

Lemma Blank_app t x : Blank t -> ndeleted x = false -> Blank (t ++ [x]).
Proof.
  intros HB Hx i n Hn Hd.
  destruct (Nat.lt_ge_cases i (length t)) as [Hlt|Hge].
  - rewrite nth_error_app_lt in Hn by auto. eapply HB; eauto.
  - pose proof (nth_error_Some_lt _ _ _ Hn) as Hl. rewrite app_length in Hl. simpl in Hl.
    assert (i = length t) by lia. subst i. rewrite nth_error_app_last in Hn. congruence.
Qed.

Lemma Blank_all_live t : (forall i n, nth_error t i = Some n -> ndeleted n = false) -> Blank t.
Proof. intros H i n Hn Hd. rewrite (H _ _ Hn) in Hd. discriminate. Qed.

Lemma get_alive t i n : get t i = Ok n -> ndeleted n = false.
Proof. intros H. apply get_Ok in H. tauto. Qed.

Lemma upd_blank t i f :
  Blank t -> (forall n, ndeleted n = false -> ndeleted (f n) = false) -> okP Blank (upd t i f).
Proof.
  intros HB Hf. unfold upd. apply okP_bind. intros n Hg. simpl.
  apply Blank_replace; auto. left. apply Hf. eapply get_alive; eauto.
Qed.

Lemma upd_blank' t i f t' :
  Blank t -> (forall n, ndeleted n = false -> ndeleted (f n) = false) -> upd t i f = Ok t' -> Blank t'.
Proof. intros HB Hf H. eapply okP_elim; [apply upd_blank; eauto|eauto]. Qed.

Lemma nsce_deleted n c (e : option L) : ndeleted (node_set_child_edge n c e) = ndeleted n.
Proof. destruct e; reflexivity. Qed.
Lemma nac_deleted n c (e : option L) : ndeleted (node_add_child n c e) = ndeleted n.
Proof. destruct e; reflexivity. Qed.
Lemma nrc_deleted n c n' : node_remove_child n c = Some n' -> ndeleted n' = ndeleted n.
Proof.
  unfold node_remove_child. destruct (index_of c (nchildren n)); [|discriminate]. intros [= <-]. reflexivity.
Qed.

Lemma add_child_blank t n p e :
  Blank t -> ndeleted n = false -> okP (fun r => Blank (fst r)) (add_child t n p e).
Proof.
  intros HB Hn. unfold add_child. destruct (Nat.leb (length t) p); simpl; auto.
  apply okP_bind. intros pn Hp. cbn [add].
  apply okP_bind. intros t2 Ht2. apply okP_bind. intros t3 Ht3. simpl.
  eapply upd_blank'; [| |exact Ht3].
  - eapply upd_blank'; [| |exact Ht2].
    + apply Blank_app; auto.
    + intros; simpl; auto.
  - intros x Hx. cbv beta. rewrite nac_deleted. auto.
Qed.

Lemma add_child_blank' t n p e t' id :
  Blank t -> ndeleted n = false -> add_child t n p e = Ok (t', id) -> Blank t'.
Proof. intros HB Hn H. exact (okP_elim _ _ _ (add_child_blank t n p e HB Hn) H). Qed.

(* ---- the fuelled editing functions ------------------------------------------------------------------------ *)
Lemma prune_f_blank fuel : forall t x, Blank t -> okP Blank (prune_f fuel t x).
Proof.
  induction fuel as [|fuel IH]; intros t x HB; simpl; auto.
  apply okP_bind. intros n Hg. apply okP_bind. intros t1 Ht1.
  assert (HB1 : Blank t1).
  { eapply okP_elim; [|exact Ht1]. apply okP_foldM; auto. }
  apply okP_bind. intros n1 Hg1. apply okP_bind. intros t2 Ht2.
  assert (HB2 : Blank t2).
  { destruct (nparent n1) as [p|]; [|injection Ht2 as <-; auto].
    destruct (get t1 p) as [pn| | |] eqn:Hp; simpl in Ht2; try discriminate.
    destruct (node_remove_child pn x) as [pn'|] eqn:Hr; [|discriminate]. injection Ht2 as <-.
    apply Blank_replace; auto. left. rewrite (nrc_deleted _ _ _ Hr). eapply get_alive; eauto. }
  apply okP_bind. intros _ _. simpl. apply Blank_replace; auto.
Qed.

Lemma reset_depth_f_blank fuel : forall t x d, Blank t -> okP Blank (reset_depth_f fuel t x d).
Proof.
  induction fuel as [|fuel IH]; intros t x d HB; simpl; auto.
  apply okP_bind. intros n Hg. apply okP_foldM.
  - intros s c Hs. apply IH; auto.
  - apply Blank_replace; auto. left. simpl. eapply get_alive; eauto.
Qed.

Lemma reset_depth_f_blank' fuel t x d t' : Blank t -> reset_depth_f fuel t x d = Ok t' -> Blank t'.
Proof. intros HB H. exact (okP_elim _ _ _ (reset_depth_f_blank fuel t x d HB) H). Qed.

Lemma reset_depths_blank t : Blank t -> okP Blank (reset_depths t).
Proof. intros HB. unfold reset_depths. apply okP_bind. intros r _. apply reset_depth_f_blank; auto. Qed.

Lemma ladderize_blank t : Blank t -> okP Blank (ladderize t).
Proof.
  intros HB. unfold ladderize. apply okP_bind. intros r _. apply okP_bind. intros lo _.
  apply okP_bind. intros [t' cnt] Hf. simpl.
  refine (okP_elim (fun st : arena * list nat => Blank (fst st)) _ (t', cnt) _ Hf).
  apply okP_foldM; auto.
  intros [s c] x Hs. simpl in Hs. apply okP_bind. intros n Hg. simpl.
  apply Blank_replace; auto. left. simpl. eapply get_alive; eauto.
Qed.

Section WithOps.
Variable O : LenOps L.

Lemma rescale_tombstone f : rescale_node O f (@tombstone L) = tombstone.
Proof. reflexivity. Qed.

Lemma rescale_blank t f : Blank t -> Blank (rescale O t f).
Proof.
  intros HB i n' Hn' Hd. unfold rescale in Hn'. rewrite nth_error_map in Hn'.
  destruct (nth_error t i) as [n|] eqn:Hn; [|discriminate]. injection Hn' as <-.
  simpl in Hd. rewrite (HB _ _ Hn Hd). reflexivity.
Qed.

Lemma compress_node_blank t id : Blank t -> okP Blank (compress_node O t id).
Proof.
  intros HB. unfold compress_node. apply okP_bind. intros n Hg.
  destruct (nparent n) as [parent|]; [|exact I].
  destruct (nchildren n) as [|child [|? ?]]; try exact I.
  destruct (match npedge n with Some p => _ | None => _ end) as [new_edge|]; [|exact I].
  apply okP_bind. intros t1 Ht1. apply okP_bind. intros t2 Ht2.
  apply okP_bind. intros pn Hpn. apply okP_bind. intros t3 Ht3.
  apply okP_bind. intros _ _. apply okP_bind. intros pn4 _.
  apply reset_depth_f_blank. apply Blank_replace; auto.
  assert (HB1 : Blank t1) by (eapply upd_blank'; [exact HB| |exact Ht1]; intros; simpl; auto).
  assert (HB2 : Blank t2).
  { eapply upd_blank'; [exact HB1| |exact Ht2]. intros x Hx. cbv beta. rewrite nac_deleted; auto. }
  destruct (node_remove_child pn id) as [pn'|] eqn:Hr; [|discriminate]. injection Ht3 as <-.
  apply Blank_replace; auto. left. rewrite (nrc_deleted _ _ _ Hr). eapply get_alive; eauto.
Qed.

Lemma compress_blank t : Blank t -> Blank (snd (compress O t)).
Proof.
  unfold compress. generalize (map (@nid L) (filter (fun n => negb (ndeleted n) && negb (is_root n) && Nat.eqb (length (nchildren n)) 1) t)).
  intros ids. revert t. induction ids as [|i ids IH]; intros t HB; simpl; auto.
  pose proof (compress_node_blank t i HB) as H.
  destruct (compress_node O t i) as [t'| | |]; [apply IH; exact H|exact HB..].
Qed.

Lemma resolve_node_f_blank fuel : forall t id ch,
  Blank t ->
  okP (fun r => match r with Some (t', _) => Blank t' | None => True end) (resolve_node_f O fuel t id ch).
Proof.
  induction fuel as [|fuel IH]; intros t id ch HB; [exact I|]. cbn [resolve_node_f].
  apply okP_bind. intros n Hg. destruct ch as [|[c1 c2] rest]; [exact I|].
  destruct (negb _); [exact I|].
  apply okP_bind. intros [t1 parent] Ht1.
  assert (HB1 : Blank t1) by (eapply add_child_blank'; [exact HB| |exact Ht1]; reflexivity).
  apply okP_bind. intros n1 Hn1. apply okP_bind. intros t2 Ht2.
  assert (HB2 : Blank t2).
  { eapply upd_blank'; [exact HB1| |exact Ht2]. intros x Hx. cbv beta. rewrite nac_deleted; auto. }
  apply okP_bind. intros t3 Ht3.
  assert (HB3 : Blank t3) by (eapply upd_blank'; [exact HB2| |exact Ht3]; intros; simpl; auto).
  apply okP_bind. intros pn Hpn. apply okP_bind. intros t4 Ht4.
  assert (HB4 : Blank t4).
  { destruct (node_remove_child pn c1) as [pn'|] eqn:Hr; [|discriminate]. injection Ht4 as <-.
    apply Blank_replace; auto. left. rewrite (nrc_deleted _ _ _ Hr). eapply get_alive; eauto. }
  apply okP_bind. intros n2 Hn2. apply okP_bind. intros t5 Ht5.
  assert (HB5 : Blank t5).
  { eapply upd_blank'; [exact HB4| |exact Ht5]. intros x Hx. cbv beta. rewrite nac_deleted; auto. }
  apply okP_bind. intros t6 Ht6.
  assert (HB6 : Blank t6) by (eapply upd_blank'; [exact HB5| |exact Ht6]; intros; simpl; auto).
  apply okP_bind. intros pn2 Hpn2. apply okP_bind. intros t7 Ht7.
  assert (HB7 : Blank t7).
  { destruct (node_remove_child pn2 c2) as [pn'|] eqn:Hr; [|discriminate]. injection Ht7 as <-.
    apply Blank_replace; auto. left. rewrite (nrc_deleted _ _ _ Hr). eapply get_alive; eauto. }
  apply okP_bind. intros pp Hpp. apply okP_bind. intros t8 Ht8.
  assert (HB8 : Blank t8) by (eapply reset_depth_f_blank'; eauto).
  destruct (Nat.leb _ 2); [exact HB8|]. apply IH; auto.
Qed.

Lemma resolve_blank t ch : Blank t -> okP (fun r => match r with Some t' => Blank t' | None => True end) (resolve O t ch).
Proof.
  intros HB. unfold resolve. apply okP_bind. intros r Hr.
  assert (H : match r with Some (t', _) => Blank t' | None => True end).
  { refine (okP_elim (fun st : option (arena * list (nat * nat)) =>
                        match st with Some (t', _) => Blank t' | None => True end) _ r _ Hr).
    apply okP_foldM; auto.
    intros [[s c]|] x Hs; [|exact I]. apply resolve_node_f_blank; auto. }
  destruct r as [[t' [|? ?]]|]; simpl; auto.
Qed.

End WithOps.

Lemma merge_children_blank t c1 c2 e1 e2 pe nm : Blank t -> Blank (snd (merge_children t c1 c2 e1 e2 pe nm)).
Proof.
  intros HB. unfold merge_children.
  destruct (get t c1) as [n1| | |] eqn:Hg1; auto.
  destruct (get t c2) as [n2| | |] eqn:Hg2; auto.
  destruct (negb (onat_eqb (nparent n1) (nparent n2))); auto.
  destruct (Nat.eqb c1 c2); auto.
  match goal with |- Blank (snd (match ?r with _ => _ end)) => destruct r as [[t1 parent]| | |] eqn:Hr end; auto.
  assert (HB1 : Blank t1).
  { destruct (nparent n1) as [pid|].
    - destruct (get t pid) as [pn| | |] eqn:Hpn; simpl in Hr; try discriminate.
      destruct (node_remove_child pn c1) as [pn1|] eqn:Hr1; [|discriminate].
      destruct (node_remove_child pn1 c2) as [pn2|] eqn:Hr2; [|discriminate].
      eapply add_child_blank'; [| |exact Hr]; auto.
      apply Blank_replace; auto. left.
      rewrite (nrc_deleted _ _ _ Hr2), (nrc_deleted _ _ _ Hr1). eapply get_alive; eauto.
    - injection Hr as <- <-. apply Blank_app; auto. }
  match goal with |- Blank (snd (match ?r with _ => _ end)) => destruct r as [t5| | |] eqn:Hc end; auto.
  cbn [snd]. revert Hc.
  destruct (upd t1 parent _) as [t2| | |] eqn:Ht2; cbn [bind]; try discriminate.
  destruct (upd t2 c1 _) as [t3| | |] eqn:Ht3; cbn [bind]; try discriminate.
  destruct (upd t3 c2 _) as [t4| | |] eqn:Ht4; cbn [bind]; try discriminate.
  destruct (get t4 parent) as [pp| | |] eqn:Hpp; cbn [bind]; try discriminate.
  intros Hc. eapply reset_depth_f_blank'; [|exact Hc].
  eapply upd_blank'; [| |exact Ht4]; [|intros; simpl; auto].
  eapply upd_blank'; [| |exact Ht3]; [|intros; simpl; auto].
  eapply upd_blank'; [| |exact Ht2]; auto.
  intros x Hx. simpl. rewrite !nac_deleted. auto.
Qed.

(* ---- the step function of WFOps ------------------------------------------------------------------------------ *)
Section Histories.
Variable O : LenOps L.

Theorem blank_step t (o : @op L) : Blank t -> Blank (step O t o).
Proof.
  intros HB. destruct o; simpl.
  - destruct (existsb _ t); auto. apply Blank_app; auto.
  - pose proof (add_child_blank t (new_node name comment) parent e HB eq_refl) as H.
    destruct (add_child t (new_node name comment) parent e) as [[t' id]| | |]; auto.
  - apply rescale_blank; auto.
  - pose proof (reset_depths_blank t HB) as H. destruct (reset_depths t); auto.
  - pose proof (prune_f_blank (fuel_of t) t x HB) as H. unfold prune. destruct (prune_f (fuel_of t) t x); auto.
  - apply compress_blank; auto.
  - apply merge_children_blank; auto.
  - pose proof (resolve_blank O t choices HB) as H. destruct (resolve O t choices) as [[t'|]| | |]; auto.
  - pose proof (ladderize_blank t HB) as H. destruct (ladderize t); auto.
Qed.

Theorem inv_step t (o : @op L) : Inv t -> Inv (step O t o).
Proof. intros [H1 H2]. split; [apply step_wf; auto|apply blank_step; auto]. Qed.

Theorem inv_histories t0 (ops : list (@op L)) : Inv t0 -> Inv (fold_left (step O) ops t0).
Proof. revert t0. induction ops; simpl; auto. intros. apply IHops. apply inv_step; auto. Qed.

Theorem inv_nil : Inv (@nil node).
Proof. split; [apply init_wf|apply Blank_nil]. Qed.

Corollary inv_reachable (ops : list (@op L)) : Inv (fold_left (step O) ops (@nil node)).
Proof. apply inv_histories, inv_nil. Qed.

(* successful single operations, for direct use *)
Corollary add_child_inv t nm cm p e t' id :
  Inv t -> add_child t (new_node nm cm) p e = Ok (t', id) -> Inv t'.
Proof. intros HI H. pose proof (inv_step t (OpAddChild nm cm p e) HI) as H'. simpl in H'. rewrite H in H'. exact H'. Qed.
Corollary prune_inv t x t' : Inv t -> prune t x = Ok t' -> Inv t'.
Proof. intros HI H. pose proof (inv_step t (OpPrune x) HI) as H'. simpl in H'. rewrite H in H'. exact H'. Qed.
Corollary reset_depths_inv t t' : Inv t -> reset_depths t = Ok t' -> Inv t'.
Proof. intros HI H. pose proof (inv_step t OpResetDepths HI) as H'. simpl in H'. rewrite H in H'. exact H'. Qed.
Corollary ladderize_inv t t' : Inv t -> ladderize t = Ok t' -> Inv t'.
Proof. intros HI H. pose proof (inv_step t OpLadderize HI) as H'. simpl in H'. rewrite H in H'. exact H'. Qed.
Corollary resolve_inv t ch t' : Inv t -> resolve O t ch = Ok (Some t') -> Inv t'.
Proof. intros HI H. pose proof (inv_step t (OpResolve ch) HI) as H'. simpl in H'. rewrite H in H'. exact H'. Qed.
Corollary compress_inv t : Inv t -> Inv (snd (compress O t)).
Proof. intros HI. exact (inv_step t OpCompress HI). Qed.
Corollary merge_children_inv t c1 c2 e1 e2 pe nm : Inv t -> Inv (snd (merge_children t c1 c2 e1 e2 pe nm)).
Proof. intros HI. exact (inv_step t (OpMergeChildren c1 c2 e1 e2 pe nm) HI). Qed.
Corollary rescale_inv t f : Inv t -> Inv (rescale O t f).
Proof. intros HI. exact (inv_step t (OpRescale f) HI). Qed.

End Histories.

(* ---- arenas without removed slot ------------------------------------------------------------------------------ *)
Lemma inv_of_wfs_live t :
  WFS t -> (forall i n, nth_error t i = Some n -> ndeleted n = false) -> Inv t.
Proof. intros H1 H2. split; auto. apply Blank_all_live; auto. Qed.

(* ---- the Newick parser ------------------------------------------------------------------------------------------ *)
Lemma nsce_sorted n c (e : option L) : ksorted (nedges n) -> ksorted (nedges (node_set_child_edge n c e)).
Proof. destruct e; simpl; auto. apply ksorted_insert. Qed.

Lemma finish_sorted t t' : SortedEdges t -> finish t = Ok t' -> SortedEdges t'.
Proof.
  intros HS. unfold finish. apply foldM_inv; auto. clear. intros s id s' Hs H.
  destruct (get s id) as [n| | |] eqn:Hg; simpl in H; try discriminate.
  destruct (npedge n) as [e|]; [|injection H as <-; auto].
  destruct (nparent n) as [p|]; [|injection H as <-; auto].
  unfold upd in H. destruct (get s p) as [pn| | |] eqn:Hp; simpl in H; try discriminate.
  injection H as <-. apply SortedEdges_replace; auto.
  apply get_Ok in Hp as [Hp _]. apply (nsce_sorted pn id (Some e)). eapply Hs; eauto.
Qed.

Theorem parse_inv (parse_len : str -> option L) (s : str) t :
  from_newick parse_len s = Ok t -> Inv t.
Proof.
  intros H. destruct (ParserProps.parse_wf parse_len s H) as (Hwf & _ & Hlive).
  apply inv_of_wfs_live; auto. split; auto.
  destruct (ParserProps.prun_PInv parse_len s (ParserProps.PInv_init (L:=L)) H) as (t1 & [HG _] & Hf).
  eapply finish_sorted; [|exact Hf].
  intros i n Hn. destruct (HG _ _ Hn) as (_ & _ & -> & _). apply ksorted_nil.
Qed.

(* ---- the generators --------------------------------------------------------------------------------------------- *)
Theorem gen_inv (k : nat) b (lens : list L) t : 2 <= k -> Generators.generated k b lens t -> Inv t.
Proof.
  intros Hn Hg. destruct (Generators.gen_wf k b lens t Hn Hg) as (Hwfs & _ & Hs & _).
  apply inv_of_wfs_live; auto. intros i nd H. apply (Hs _ _ H).
Qed.

(* the degenerate sizes 0 and 1: the result (if any) is a single live node *)
Lemma single_inv nm cm : Inv (fst (add (@nil node) (new_node nm cm))).
Proof.
  apply inv_of_wfs_live; [apply add_root_wf|].
  intros [|[|i]] x H; simpl in H; try discriminate. injection H as <-. reflexivity.
Qed.

Theorem gen_inv_small (k : nat) b (lens : list L) t : k < 2 -> Generators.generated k b lens t -> Inv t.
Proof.
  intros Hk Hg. destruct k as [|[|k]]; [| |lia].
  - destruct Hg as [(ps & H)|[(ps & H)|H]]; try discriminate.
    unfold generate_caterpillar in H. simpl in H. destruct lens; [|discriminate].
    injection H as <-. apply (single_inv None None).
  - destruct Hg as [(ps & H)|[(ps & H)|H]].
    + unfold generate_tree in H. simpl in H. destruct ps; [|discriminate]. destruct lens; [|discriminate].
      simpl in H. injection H as <-. apply (single_inv (Some (tip_name 0)) None).
    + unfold generate_yule in H. simpl in H. destruct ps; [|discriminate]. destruct lens; [|discriminate].
      simpl in H. injection H as <-. apply (single_inv (Some (tip_name 0)) None).
    + unfold generate_caterpillar in H. simpl in H. destruct lens; [|discriminate].
      injection H as <-. apply (single_inv None None).
Qed.

Theorem gen_inv_all (k : nat) b (lens : list L) t : Generators.generated k b lens t -> Inv t.
Proof.
  intros Hg. destruct (Nat.lt_ge_cases k 2); [eapply gen_inv_small|eapply gen_inv]; eauto.
Qed.

(* ---- UPGMA ------------------------------------------------------------------------------------------------------ *)
Theorem upgma_inv (O : LenOps L) (Fin : L -> Prop) (HSep : UpgmaProps.Separated O Fin) (m : @dmat L) t :
  UpgmaProps.upgma_pre Fin m -> upgma O m = Ok t -> Inv t.
Proof.
  intros Hpre Hu. destruct (UpgmaProps.upgma_shape O Fin HSep m t Hpre Hu) as (Hwfs & _ & Hs & _).
  apply inv_of_wfs_live; auto. intros i nd H. destruct (Hs _ _ H) as ((D & _) & _). exact D.
Qed.

End Inv.

Print Assumptions inv_step.
Print Assumptions inv_histories.
Print Assumptions inv_nil.
Print Assumptions parse_inv.
Print Assumptions gen_inv.
Print Assumptions gen_inv_all.
Print Assumptions upgma_inv.
