(* DistMatrix.v — property C08: the two distance-matrix computations (Queries.distance_matrix, the
   bottom-up "fast" algorithm, and Queries.distance_matrix_recursive, one undirected DFS per tip)
   return path lengths, list taxa in sorted order, and agree with pairwise distance queries. *)
From Coq Require Import List Arith Lia Bool Permutation Sorted.
From PT Require Import Arena Spec Queries RepLib Traversals Paths Tril Stats Splits.
Import ListNotations.

(* ================================================================================================ *)
(* 0. generic list facts                                                                             *)
(* ================================================================================================ *)
Lemma NoDup_map_inj_in {A B} (f : A -> B) l :
  NoDup l -> (forall x y, In x l -> In y l -> f x = f y -> x = y) -> NoDup (map f l).
Proof.
  induction l as [|a l IH]; intros Hnd Hinj; simpl; [constructor|].
  apply NoDup_cons_iff in Hnd as [Ha Hnd]. constructor.
  - intros Hin. apply in_map_iff in Hin as (y & Hy & Hyl). apply Ha.
    rewrite <- (Hinj y a); simpl; auto.
  - apply IH; auto. intros x y Hx Hy. apply Hinj; simpl; auto.
Qed.

Lemma NoDup_flat_map_disj {A B} (f : A -> list B) l :
  NoDup l -> (forall x, In x l -> NoDup (f x)) ->
  (forall x y z, In x l -> In y l -> In z (f x) -> In z (f y) -> x = y) ->
  NoDup (flat_map f l).
Proof.
  induction l as [|a l IH]; intros Hnd Hf Hdis; simpl; [constructor|].
  apply NoDup_cons_iff in Hnd as [Ha Hnd]. apply NoDup_app_iff. repeat split.
  - apply Hf. left; auto.
  - apply IH; auto.
    + intros x Hx. apply Hf. right; auto.
    + intros x y z Hx Hy. apply Hdis; right; auto.
  - intros z Hz1 Hz2. apply in_flat_map in Hz2 as (y & Hy & Hz2).
    apply Ha. rewrite (Hdis a y z); simpl; auto.
Qed.

Lemma NoDup_list_prod' {A B} (l1 : list A) (l2 : list B) :
  NoDup l1 -> NoDup l2 -> NoDup (list_prod l1 l2).
Proof.
  intros H1 H2. induction l1 as [|a l1 IH]; simpl; [constructor|].
  apply NoDup_cons_iff in H1 as [Ha H1]. apply NoDup_app_iff. repeat split.
  - apply NoDup_map_inj_in; auto. intros x y _ _ [= ->]. reflexivity.
  - apply IH; auto.
  - intros [x y] Hz1 Hz2. apply in_map_iff in Hz1 as (y' & [= <- <-] & _).
    apply in_prod_iff in Hz2 as [Hz2 _]. auto.
Qed.

(* ---- pairs ------------------------------------------------------------------------------------ *)
Lemma pairs_map {A B} (f : A -> B) l :
  pairs (map f l) = map (fun p => (f (fst p), f (snd p))) (pairs l).
Proof.
  induction l as [|a l IH]; simpl; [reflexivity|].
  rewrite map_app, !map_map, IH. reflexivity.
Qed.

Lemma pairs_NoDup {A} (l : list A) : NoDup l -> NoDup (pairs l).
Proof.
  induction l as [|a l IH]; intros Hnd; simpl; [constructor|].
  apply NoDup_cons_iff in Hnd as [Ha Hnd]. apply NoDup_app_iff. repeat split; auto.
  - apply NoDup_map_inj_in; auto. intros x y _ _ [= ->]. reflexivity.
  - intros [x y] H1 H2. apply in_map_iff in H1 as (y' & [= <- <-] & _).
    apply in_pairs in H2 as [H2 _]. auto.
Qed.

Lemma pairs_neq {A} (l : list A) a b : NoDup l -> In (a, b) (pairs l) -> a <> b.
Proof.
  induction l as [|x l IH]; intros Hnd Hin; simpl in *; [tauto|].
  apply NoDup_cons_iff in Hnd as [Hx Hnd]. apply in_app_or in Hin as [Hin|Hin]; auto.
  apply in_map_iff in Hin as (y & [= <- <-] & Hy). intros ->. auto.
Qed.

Lemma pairs_asym {A} (l : list A) a b : NoDup l -> In (a, b) (pairs l) -> ~ In (b, a) (pairs l).
Proof.
  induction l as [|x l IH]; intros Hnd Hin; simpl in *; [tauto|].
  apply NoDup_cons_iff in Hnd as [Hx Hnd]. intros Hba.
  apply in_app_or in Hin as [Hin|Hin]; apply in_app_or in Hba as [Hba|Hba].
  - apply in_map_iff in Hin as (y & [= <- <-] & Hy). apply in_map_iff in Hba as (y' & [= <- <-] & Hy'). auto.
  - apply in_map_iff in Hin as (y & [= <- <-] & Hy). apply in_pairs in Hba as [_ Hba]. auto.
  - apply in_map_iff in Hba as (y & [= <- <-] & Hy). apply in_pairs in Hin as [_ Hin]. auto.
  - revert Hba. apply IH; auto.
Qed.

Lemma pairs_total {A} (l : list A) a b :
  In a l -> In b l -> a <> b -> In (a, b) (pairs l) \/ In (b, a) (pairs l).
Proof.
  induction l as [|x l IH]; intros Ha Hb Hne; simpl in *; [tauto|].
  destruct Ha as [->|Ha], Hb as [->|Hb]; try congruence.
  - left. apply in_or_app. left. apply in_map; auto.
  - right. apply in_or_app. left. apply in_map; auto.
  - destruct (IH Ha Hb Hne); [left|right]; apply in_or_app; right; auto.
Qed.

(* ---- stable sort -------------------------------------------------------------------------------- *)
Lemma insert_sorted_ext_in {A} (leb leb' : A -> A -> bool) x l :
  (forall y, In y l -> leb x y = leb' x y) -> insert_sorted leb x l = insert_sorted leb' x l.
Proof.
  induction l as [|y l IH]; intros H; simpl; [reflexivity|].
  rewrite <- (H y) by (left; auto). destruct (leb x y); auto. f_equal. apply IH.
  intros z Hz. apply H. right; auto.
Qed.

Lemma stable_sort_ext_in {A} (leb leb' : A -> A -> bool) l :
  (forall x y, In x l -> In y l -> leb x y = leb' x y) -> stable_sort leb l = stable_sort leb' l.
Proof.
  induction l as [|x l IH]; intros H; simpl; [reflexivity|].
  change (fold_right (insert_sorted leb) [] l) with (stable_sort leb l).
  change (fold_right (insert_sorted leb') [] l) with (stable_sort leb' l).
  rewrite <- IH by (intros; apply H; right; auto).
  apply insert_sorted_ext_in. intros y Hy. apply H; [left; auto|right].
  eapply Permutation_in; [apply stable_sort_perm|exact Hy].
Qed.

Lemma map_insert_sorted {A B} (f : A -> B) (leb : B -> B -> bool) x l :
  map f (insert_sorted (fun a b => leb (f a) (f b)) x l) = insert_sorted leb (f x) (map f l).
Proof.
  induction l as [|y l IH]; simpl; [reflexivity|]. destruct (leb (f x) (f y)); simpl; auto. f_equal. auto.
Qed.

Lemma map_stable_sort {A B} (f : A -> B) (leb : B -> B -> bool) l :
  map f (stable_sort (fun a b => leb (f a) (f b)) l) = stable_sort leb (map f l).
Proof.
  induction l as [|x l IH]; simpl; [reflexivity|].
  change (fold_right (insert_sorted (fun a b => leb (f a) (f b))) [] l)
    with (stable_sort (fun a b => leb (f a) (f b)) l).
  rewrite map_insert_sorted, IH. reflexivity.
Qed.

(* ---- index_of ----------------------------------------------------------------------------------- *)
Lemma index_of_nth x l : forall k, index_of x l = Some k -> nth_error l k = Some x.
Proof.
  induction l as [|y l IH]; intros k H; simpl in *; [discriminate|].
  destruct (Nat.eqb_spec x y) as [->|Hne].
  - injection H as <-. reflexivity.
  - destruct (index_of x l) as [k'|]; simpl in H; [|discriminate]. injection H as <-. simpl. auto.
Qed.

Lemma index_of_inj x y l k : index_of x l = Some k -> index_of y l = Some k -> x = y.
Proof. intros Hx Hy. apply index_of_nth in Hx, Hy. congruence. Qed.

(* ---- monadic folds that never fail ---------------------------------------------------------------- *)
Lemma foldM_ok_fold {A S} (g : S -> A -> outcome S) (h : S -> A -> S) l :
  (forall s x, In x l -> g s x = Ok (h s x)) -> forall s, foldM g l s = Ok (fold_left h l s).
Proof.
  induction l as [|x l IH]; intros H s; simpl; [reflexivity|].
  rewrite H by (left; auto). simpl. apply IH. intros s' y Hy. apply H. right; auto.
Qed.

Lemma fold_left_flat_map {A B S} (h : S -> B -> S) (f : A -> list B) l : forall s,
  fold_left h (flat_map f l) s = fold_left (fun s x => fold_left h (f x) s) l s.
Proof.
  induction l as [|x l IH]; intros s; simpl; [reflexivity|]. rewrite fold_left_app. apply IH.
Qed.

(* ================================================================================================ *)
(* 1. the accumulator: add_at                                                                        *)
(* ================================================================================================ *)
Section AddAt.
Context {L : Type}.
Variable O : LenOps L.

Lemma add_at_length (l : list L) k v : length (add_at O l k v) = length l.
Proof. revert k. induction l as [|h l IH]; intros [|k]; simpl; auto. Qed.

Lemma add_at_same (l : list L) k v h :
  nth_error l k = Some h -> nth_error (add_at O l k v) k = Some (ladd O h v).
Proof.
  revert k. induction l as [|x l IH]; intros [|k] H; simpl in *; try discriminate; auto. congruence.
Qed.

Lemma add_at_other (l : list L) k k' v : k <> k' -> nth_error (add_at O l k v) k' = nth_error l k'.
Proof.
  revert k k'. induction l as [|x l IH]; intros [|k] [|k'] H; simpl; auto; try congruence.
Qed.

Definition apply_ups (ups : list (nat * L)) (vec : list L) : list L :=
  fold_left (fun vec u => add_at O vec (fst u) (snd u)) ups vec.

Lemma apply_ups_length ups : forall vec, length (apply_ups ups vec) = length vec.
Proof.
  induction ups as [|u ups IH]; intros vec; simpl; auto.
  unfold apply_ups in *. simpl. rewrite IH. apply add_at_length.
Qed.

Lemma apply_ups_other ups k : forall vec,
  ~ In k (map fst ups) -> nth_error (apply_ups ups vec) k = nth_error vec k.
Proof.
  induction ups as [|u ups IH]; intros vec Hk; simpl in *; auto.
  unfold apply_ups in *. simpl. rewrite IH by tauto. apply add_at_other. tauto.
Qed.

Lemma apply_ups_hit ups k v : forall vec h,
  NoDup (map fst ups) -> In (k, v) ups -> nth_error vec k = Some h ->
  nth_error (apply_ups ups vec) k = Some (ladd O h v).
Proof.
  induction ups as [|u ups IH]; intros vec h Hnd Hin Hh; simpl in *; [tauto|].
  apply NoDup_cons_iff in Hnd as [Hu Hnd]. unfold apply_ups in *. simpl.
  destruct Hin as [->|Hin].
  - simpl in *. fold (apply_ups ups (add_at O vec k v)). rewrite apply_ups_other by auto.
    apply add_at_same; auto.
  - eapply IH; eauto. rewrite add_at_other; auto. intros E. apply Hu. rewrite E.
    change k with (fst (k, v)). apply in_map; auto.
Qed.

End AddAt.

(* ================================================================================================ *)
(* 2. rose-tree combinatorics: branching nodes, processing order                                     *)
(* ================================================================================================ *)
Lemma NoDup_forest_children cs : NoDup (flat_map ids cs) -> NoDup cs.
Proof. intros H. apply NoDup_map_rid in H. eapply NoDup_map_inv; eauto. Qed.

Lemma NoDup_forest_leaves cs : NoDup (flat_map ids cs) -> NoDup (flat_map rleaves cs).
Proof.
  intros H. eapply NoDup_flat_map_sub; [exact H|]. intros c Hc. split; [apply rleaves_incl_ids|].
  apply rleaves_NoDup. eapply NoDup_flat_map_in; eauto.
Qed.

Lemma NoDup_ids_children i cs : NoDup (ids (RT i cs)) -> NoDup (flat_map ids cs) /\ ~ In i (flat_map ids cs).
Proof. rewrite ids_RT. intros H. apply NoDup_cons_iff in H. tauto. Qed.

Lemma rch_ids_incl s c : In c (rch s) -> incl (ids c) (ids s).
Proof.
  destruct s as [i cs]. cbn [rch]. intros Hc x Hx. rewrite ids_RT. right. apply in_flat_map. eauto.
Qed.

Lemma rch_subtrees s c : In c (rch s) -> In c (subtrees s).
Proof.
  destruct s as [i cs]. cbn [rch]. intros Hc. rewrite subtrees_RT. right. apply in_flat_map.
  exists c. split; auto. apply subtrees_self.
Qed.

Lemma rch_NoDup s : NoDup (ids s) -> NoDup (flat_map ids (rch s)).
Proof. destruct s as [i cs]. intros H. apply NoDup_ids_children in H. tauto. Qed.

Lemma child_rid_neq s c : NoDup (ids s) -> In c (rch s) -> rid c <> rid s.
Proof.
  destruct s as [i cs]. cbn [rch rid]. intros H Hc E. apply NoDup_ids_children in H as [_ H]. apply H.
  apply in_flat_map. exists c. split; auto. rewrite <- E. apply In_rid_ids.
Qed.

(* two subtrees sharing a node are nested *)
Lemma subtrees_nested : forall r s s' a, NoDup (ids r) ->
  In s (subtrees r) -> In s' (subtrees r) -> In a (ids s) -> In a (ids s') ->
  In s (subtrees s') \/ In s' (subtrees s).
Proof.
  induction r as [i cs IH] using RepLib.rtree_ind'. intros s s' a Hnd Hs Hs' Ha Ha'.
  rewrite subtrees_RT in Hs, Hs'. destruct Hs as [<-|Hs]; [right; rewrite subtrees_RT; auto|].
  destruct Hs' as [<-|Hs']; [left; rewrite subtrees_RT; right; auto|].
  apply in_flat_map in Hs as (c & Hc & Hs). apply in_flat_map in Hs' as (c' & Hc' & Hs').
  apply NoDup_ids_children in Hnd as [Hnd _].
  assert (c = c').
  { eapply (flat_map_NoDup_inj ids cs c c' a); eauto.
    - eapply subtrees_ids_incl; eauto.
    - eapply subtrees_ids_incl; eauto. }
  subst c'. rewrite Forall_forall in IH. eapply IH; eauto. eapply NoDup_flat_map_in; eauto.
Qed.

(* node s separates a and b: they lie below two different children, in child order *)
Definition branch (s c1 c2 : rtree) (a b : nat) : Prop :=
  In (c1, c2) (pairs (rch s)) /\ In a (rleaves c1) /\ In b (rleaves c2).

Lemma branch_facts s c1 c2 a b : NoDup (ids s) -> branch s c1 c2 a b ->
  In c1 (rch s) /\ In c2 (rch s) /\ c1 <> c2 /\ a <> b /\ In a (ids s) /\ In b (ids s) /\
  In a (rleaves s) /\ In b (rleaves s).
Proof.
  intros Hnd (Hp & Ha & Hb). pose proof (in_pairs _ _ _ Hp) as [H1 H2].
  pose proof (rch_NoDup _ Hnd) as Hcs.
  assert (Hne : c1 <> c2) by (eapply pairs_neq; eauto; apply NoDup_forest_children; auto).
  repeat split; auto.
  - intros E. subst b. apply Hne.
    apply (flat_map_NoDup_inj ids (rch s) c1 c2 a); auto; apply rleaves_incl_ids; auto.
  - apply (rch_ids_incl s c1); auto. apply rleaves_incl_ids; auto.
  - apply (rch_ids_incl s c2); auto. apply rleaves_incl_ids; auto.
  - eapply subtrees_leaves_incl; [apply rch_subtrees; exact H1|auto].
  - eapply subtrees_leaves_incl; [apply rch_subtrees; exact H2|auto].
Qed.

Lemma branch_below s s' c1 c2 c1' c2' a b :
  NoDup (ids s) -> In s' (subtrees s) ->
  branch s c1 c2 a b -> (branch s' c1' c2' a b \/ branch s' c1' c2' b a) -> s' = s.
Proof.
  intros Hnd Hs' Hb Hb'. destruct s as [i cs]. rewrite subtrees_RT in Hs'. destruct Hs' as [<-|Hs']; auto.
  exfalso. apply in_flat_map in Hs' as (c & Hc & Hs').
  destruct (branch_facts _ _ _ _ _ Hnd Hb) as (H1 & H2 & Hne & _ & _). simpl in H1, H2.
  destruct Hb as (_ & Ha & Hb).
  assert (Hnd' : NoDup (ids s')).
  { eapply subtrees_NoDup; [|exact Hnd]. rewrite subtrees_RT. right. apply in_flat_map. eauto. }
  assert (In a (ids c) /\ In b (ids c)) as [Hac Hbc].
  { destruct Hb' as [Hb'|Hb']; destruct (branch_facts _ _ _ _ _ Hnd' Hb') as (_ & _ & _ & _ & X & Y & _);
      split; eapply subtrees_ids_incl; eauto. }
  apply NoDup_ids_children in Hnd as [Hnd _]. apply Hne.
  transitivity c.
  - eapply (flat_map_NoDup_inj ids cs c1 c a); eauto. apply rleaves_incl_ids; auto.
  - eapply (flat_map_NoDup_inj ids cs c c2 b); eauto. apply rleaves_incl_ids; auto.
Qed.

(* the separating node of a pair of leaves is unique *)
Lemma branch_unique r s s' c1 c2 c1' c2' a b :
  NoDup (ids r) -> In s (subtrees r) -> In s' (subtrees r) ->
  branch s c1 c2 a b -> (branch s' c1' c2' a b \/ branch s' c1' c2' b a) -> s' = s.
Proof.
  intros Hnd Hs Hs' Hb Hb'.
  pose proof (subtrees_NoDup _ _ Hs Hnd) as Hn. pose proof (subtrees_NoDup _ _ Hs' Hnd) as Hn'.
  destruct (branch_facts _ _ _ _ _ Hn Hb) as (_ & _ & _ & _ & Ha & _).
  assert (Ha' : In a (ids s')).
  { destruct Hb' as [Hb'|Hb']; destruct (branch_facts _ _ _ _ _ Hn' Hb') as (_ & _ & _ & _ & X & Y & _); auto. }
  destruct (subtrees_nested r s s' a Hnd Hs Hs' Ha Ha') as [H|H].
  - symmetry. destruct Hb' as [Hb'|Hb'].
    + eapply (branch_below s' s); eauto.
    + apply (branch_below s' s c1' c2' c1 c2 b a); auto.
  - eapply branch_below; eauto.
Qed.

Lemma branch_exists : forall r a b, In a (rleaves r) -> In b (rleaves r) -> a <> b ->
  exists s c1 c2, In s (subtrees r) /\ (branch s c1 c2 a b \/ branch s c1 c2 b a).
Proof.
  induction r as [i cs IH] using RepLib.rtree_ind'. intros a b Ha Hb Hne.
  destruct cs as [|c0 cs0]; [simpl in *; intuition congruence|].
  rewrite rleaves_cons in Ha, Hb. remember (c0 :: cs0) as cs.
  apply in_flat_map in Ha as (ca & Hca & Ha). apply in_flat_map in Hb as (cb & Hcb & Hb).
  destruct (in_dec Nat.eq_dec b (rleaves ca)) as [Hb'|Hb'].
  - rewrite Forall_forall in IH. destruct (IH ca Hca a b Ha Hb' Hne) as (s & c1 & c2 & Hs & Hbr).
    exists s, c1, c2. split; auto. rewrite subtrees_RT. right. apply in_flat_map. eauto.
  - assert (Hcc : ca <> cb) by (intros ->; auto).
    destruct (pairs_total cs ca cb Hca Hcb Hcc) as [Hp|Hp].
    + exists (RT i cs), ca, cb. split; [apply subtrees_self|]. left. split; auto.
    + exists (RT i cs), cb, ca. split; [apply subtrees_self|]. right. split; auto.
Qed.

(* ---- reverse level order visits children first --------------------------------------------------- *)
Lemma subtree_levels : forall r s, In s (subtrees r) ->
  exists k, In (rid s) (nodes_at k r) /\ forall c, In c (rch s) -> In (rid c) (nodes_at (S k) r).
Proof.
  induction r as [i cs IH] using RepLib.rtree_ind'. intros s Hs. rewrite subtrees_RT in Hs.
  destruct Hs as [<-|Hs].
  - exists 0. split; [simpl; auto|]. intros c Hc. cbn [nodes_at rch] in *.
    apply in_flat_map. exists c. split; auto. simpl. auto.
  - apply in_flat_map in Hs as (c0 & Hc0 & Hs). rewrite Forall_forall in IH.
    destruct (IH c0 Hc0 s Hs) as (k & Hk & Hch). exists (S k). split.
    + cbn [nodes_at rch]. apply in_flat_map. eauto.
    + intros c Hc. change (nodes_at (S (S k)) (RT i cs)) with (flat_map (nodes_at (S k)) cs).
      apply in_flat_map. eauto.
Qed.

Definition child_first (r : rtree) (l : list nat) : Prop :=
  forall l1 v l2, l = l1 ++ v :: l2 ->
    ~ In v l1 /\ exists s, In s (subtrees r) /\ rid s = v /\ forall c, In c (rch s) -> In (rid c) l1.

Lemma child_first_prefix r l1 l2 : child_first r (l1 ++ l2) -> child_first r l1.
Proof. intros H m1 v m2 E. apply (H m1 v (m2 ++ l2)). rewrite E, <- app_assoc. reflexivity. Qed.

Lemma level_NoDup r : NoDup (ids r) -> NoDup (level r).
Proof. intros H. eapply Permutation_NoDup; [apply pre_level_perm|exact H]. Qed.

Theorem rev_level_child_first r : NoDup (ids r) -> child_first r (rev (level r)).
Proof.
  intros Hnd l1 v l2 E.
  assert (El : level r = rev l2 ++ v :: rev l1).
  { rewrite <- (rev_involutive (level r)), E, rev_app_distr. simpl. rewrite <- app_assoc. reflexivity. }
  pose proof (level_NoDup r Hnd) as HndL. rewrite El in HndL.
  apply NoDup_app_iff in HndL as (_ & HndL & Hdis). apply NoDup_cons_iff in HndL as [Hv1 _].
  split; [rewrite in_rev; exact Hv1|].
  assert (Hv : In v (pre r)).
  { eapply Permutation_in; [apply Permutation_sym, pre_level_perm|]. rewrite El. apply in_or_app. right. left. auto. }
  rewrite <- map_rid_subtrees in Hv. apply in_map_iff in Hv as (s & Hsv & Hs).
  exists s. repeat split; auto. intros c Hc.
  destruct (subtree_levels r s Hs) as (k & Hk & Hch). specialize (Hch c Hc).
  pose proof (nodes_at_depth _ _ _ Hnd Hk) as Dv. pose proof (nodes_at_depth _ _ _ Hnd Hch) as Dc.
  assert (Hcl : In (rid c) (level r)).
  { eapply Permutation_in; [apply pre_level_perm|]. eapply nodes_at_in_pre; eauto. }
  rewrite El in Hcl. apply in_app_or in Hcl as [Hcl|[Hcl|Hcl]].
  - exfalso. apply in_split in Hcl as (A & B & EA). rewrite EA, <- app_assoc in El. simpl in El.
    destruct (level_depth_monotone r _ _ _ _ _ Hnd El) as (dx & dy & Hx & Hy & Hle).
    rewrite Hsv in Dv. rewrite Dc in Hx. rewrite Dv in Hy. injection Hx as <-. injection Hy as <-. lia.
  - exfalso. rewrite <- Hsv in Hcl. symmetry in Hcl. revert Hcl. apply child_rid_neq; auto.
    eapply subtrees_NoDup; eauto.
  - apply in_rev; auto.
Qed.

(* ================================================================================================ *)
(* 3. the fast algorithm: definitions and specification functions                                   *)
(* ================================================================================================ *)
Section DM.
Context {L : Type}.
Variable O : LenOps L.
Notation arena := (@arena L).
Notation node := (@node L).
Notation cache := (@cache L).

(* ---- the loop body of distance_matrix, piece by piece ---------------------------------------------- *)
Section Body.
Variable t : arena.

Definition name_leb (a b : nat) : bool :=
  match get t a, get t b with
  | Ok na, Ok nb => ostr_leb (nname na) (nname nb)
  | _, _ => true
  end.
Definition leaf_order : list nat := stable_sort name_leb (get_leaves t).
Definition rk (a : nat) : nat := match index_of a leaf_order with Some k => k | None => 0 end.
Definition ncells : nat := n_leaves t * (n_leaves t - 1) / 2.
Definition cell (a b : nat) : nat := tril_idx (rk a) (rk b).

Definition nc_step (caches : list (nat * cache)) (nc : cache) (ch : nat) : outcome cache :=
  c <- get t ch ;;
  let clen := match npedge c with Some e => e | None => l1 O end in
  match caches_get caches ch with
  | None => Err MissingBranchLengths
  | Some cc => Ok (fold_left (fun acc (kv : nat * L) => edge_insert acc (fst kv) (ladd O clen (snd kv))) cc nc)
  end.

Definition leaf_step (nc : cache) (vec : list L) (lf : nat * nat) : outcome (list L) :=
  match edge_get nc (fst lf), edge_get nc (snd lf) with
  | Some d1, Some d2 =>
      match index_of (fst lf) leaf_order, index_of (snd lf) leaf_order with
      | Some i, Some j => Ok (add_at O vec (tril_idx i j) (ladd O d1 d2))
      | _, _ => Err NodeNotFound
      end
  | _, _ => Panic 16
  end.

Definition pair_step (caches : list (nat * cache)) (nc : cache) (vec : list L) (pr : nat * nat)
  : outcome (list L) :=
  _ <- get t (fst pr) ;;
  _ <- get t (snd pr) ;;
  match caches_get caches (fst pr), caches_get caches (snd pr) with
  | Some c1, Some c2 => foldM (leaf_step nc) (list_prod (map fst c1) (map fst c2)) vec
  | _, _ => Err MissingBranchLengths
  end.

Definition dm_step (st : list L * list (nat * cache)) (cur : nat) : outcome (list L * list (nat * cache)) :=
  let '(vec, caches) := st in
  p <- get t cur ;;
  let nc0 : cache := if is_tip p then [(cur, l0 O)] else [] in
  nc <- foldM (nc_step caches) (nchildren p) nc0 ;;
  vec' <- foldM (pair_step caches nc) (pairs (nchildren p)) vec ;;
  Ok (vec', (cur, nc) :: caches).

Definition leaf_name (i : nat) : outcome str :=
  match get t i with
  | Ok nd => match nname nd with Some x => Ok x | None => Err UnnamedLeaves end
  | _ => Panic 15
  end.

Lemma dm_unfold :
  distance_matrix O t =
  if Nat.eqb (n_leaves t) 0 then Err IsEmpty else
  names <- mapM leaf_name leaf_order ;;
  root <- get_root t ;;
  lo <- levelorder t root ;;
  '(vec, _) <- foldM dm_step (rev lo) (repeat (l0 O) ncells, []) ;;
  Ok (mkDmat (length names) names vec).
Proof. reflexivity. Qed.

Theorem dm_empty : n_leaves t = 0 -> distance_matrix O t = Err IsEmpty.
Proof. intros H. rewrite dm_unfold, H. reflexivity. Qed.

End Body.

(* ---- the setting: the live slots of t form the tree r ----------------------------------------------- *)
Section Core.
Variables (t : arena) (root : nat) (r : rtree).
Hypothesis HR : Rep t None 0 root r.
Hypothesis HN : NoDup (ids r).
Hypothesis HL : forall i, live t i -> In i (ids r).

(* length used for the branch above node c: its own length, or 1.0 when absent *)
Definition elen (c : nat) : L := match edge_of t c with Some e => e | None => l1 O end.

(* D s x : sum of the branch lengths along the downward path from the root of s to x *)
Fixpoint Dfirst (D : rtree -> nat -> L) (x : nat) (cs : list rtree) : L :=
  match cs with
  | [] => l0 O
  | c :: rest => if mem_nat x (ids c) then ladd O (elen (rid c)) (D c x) else Dfirst D x rest
  end.
Fixpoint D (s : rtree) (x : nat) : L :=
  match s with
  | RT _ cs =>
      (fix first (cs : list rtree) : L :=
         match cs with
         | [] => l0 O
         | c :: rest => if mem_nat x (ids c) then ladd O (elen (rid c)) (D c x) else first rest
         end) cs
  end.

Lemma D_RT i cs x : D (RT i cs) x = Dfirst D x cs.
Proof. cbn [D]. induction cs as [|c cs IH]; cbn [Dfirst]; [reflexivity|]. rewrite <- IH. reflexivity. Qed.

Lemma D_tip i x : D (RT i []) x = l0 O.
Proof. reflexivity. Qed.

Lemma Dfirst_child x cs c :
  NoDup (flat_map ids cs) -> In c cs -> In x (ids c) -> Dfirst D x cs = ladd O (elen (rid c)) (D c x).
Proof.
  induction cs as [|c0 cs IH]; intros Hnd Hc Hx; [destruct Hc|].
  cbn [Dfirst]. destruct (mem_nat x (ids c0)) eqn:E.
  - apply mem_nat_In in E. assert (c0 = c); [|subst; auto].
    eapply (flat_map_NoDup_inj ids (c0 :: cs) c0 c x); simpl; auto.
  - destruct Hc as [->|Hc].
    + apply mem_nat_In in Hx. congruence.
    + apply IH; auto. simpl in Hnd. apply NoDup_app_iff in Hnd. tauto.
Qed.

Lemma D_child s c x :
  NoDup (ids s) -> In c (rch s) -> In x (ids c) -> D s x = ladd O (elen (rid c)) (D c x).
Proof.
  destruct s as [i cs]. cbn [rch]. intros Hnd Hc Hx. rewrite D_RT. apply Dfirst_child; auto.
  apply NoDup_ids_children in Hnd. tauto.
Qed.

(* ---- nodes of the tree in the arena -------------------------------------------------------------------- *)
Lemma sub_rep s : In s (subtrees r) -> exists p d, Rep t p d (rid s) s.
Proof.
  intros Hs. destruct (Rep_subtrees _ _ _ _ _ _ HR Hs) as [->|(_ & q & d' & H)]; eauto.
  rewrite (Rep_rid _ _ _ _ _ HR). eauto.
Qed.

Lemma sub_node s : In s (subtrees r) ->
  exists n, get t (rid s) = Ok n /\ nth_error t (rid s) = Some n /\ nchildren n = map rid (rch s).
Proof.
  intros Hs. destruct (sub_rep s Hs) as (p & d & H).
  destruct (RepLib.Rep_inv _ _ _ _ _ H) as (n & cs & Heq & Hn & Hdel & _ & _ & _ & HF & _).
  exists n. split; [apply get_Ok; auto|]. split; auto. rewrite Heq. cbn [rch].
  eapply Forall2_Rep_rid; eauto.
Qed.

Lemma sub_tip s n : In s (subtrees r) -> get t (rid s) = Ok n ->
  is_tip n = match rch s with [] => true | _ => false end.
Proof.
  intros Hs Hg. destruct (sub_node s Hs) as (n' & Hg' & _ & Hc). rewrite Hg in Hg'. injection Hg' as <-.
  unfold is_tip. rewrite Hc. destruct (rch s); reflexivity.
Qed.

Lemma sub_child s c : In s (subtrees r) -> In c (rch s) -> In c (subtrees r).
Proof. intros Hs Hc. eapply subtrees_trans; eauto. apply rch_subtrees; auto. Qed.

Lemma sub_elen s n : In s (subtrees r) -> get t (rid s) = Ok n ->
  elen (rid s) = match npedge n with Some e => e | None => l1 O end.
Proof.
  intros Hs Hg. apply get_Ok in Hg as [Hn _]. unfold elen, edge_of. rewrite Hn. reflexivity.
Qed.

Lemma sub_nodup s : In s (subtrees r) -> NoDup (ids s).
Proof. intros Hs. eapply subtrees_NoDup; eauto. Qed.

(* ---- ranks ------------------------------------------------------------------------------------------------ *)
Lemma leaf_order_perm : Permutation (leaf_order t) (rleaves r).
Proof.
  unfold leaf_order. eapply Permutation_trans; [apply stable_sort_perm|].
  eapply rep_get_leaves_perm; eauto.
Qed.

Lemma leaf_order_length : length (leaf_order t) = n_leaves t.
Proof.
  rewrite (Permutation_length leaf_order_perm). symmetry. eapply rep_n_leaves_good; eauto.
Qed.

Lemma rk_spec a : In a (rleaves r) -> index_of a (leaf_order t) = Some (rk t a) /\ rk t a < n_leaves t.
Proof.
  intros Ha. assert (Hin : In a (leaf_order t)).
  { eapply Permutation_in; [apply Permutation_sym, leaf_order_perm|auto]. }
  apply index_of_In in Hin as (k & Hk). unfold rk. rewrite Hk. split; auto.
  apply index_of_nth in Hk. apply nth_error_Some_lt in Hk. rewrite <- leaf_order_length. auto.
Qed.

Lemma rk_inj a b : In a (rleaves r) -> In b (rleaves r) -> rk t a = rk t b -> a = b.
Proof.
  intros Ha Hb E. destruct (rk_spec a Ha) as [Ia _]. destruct (rk_spec b Hb) as [Ib _].
  rewrite E in Ia. eapply index_of_inj; eauto.
Qed.

Lemma cell_lt a b : In a (rleaves r) -> In b (rleaves r) -> a <> b -> cell t a b < ncells t.
Proof.
  intros Ha Hb Hne. unfold cell, ncells. apply tril_lt_any.
  - intros E. apply Hne. apply rk_inj; auto.
  - apply rk_spec; auto.
  - apply rk_spec; auto.
Qed.

Lemma cell_inj a b a' b' :
  In a (rleaves r) -> In b (rleaves r) -> In a' (rleaves r) -> In b' (rleaves r) ->
  a <> b -> a' <> b' -> cell t a b = cell t a' b' -> (a = a' /\ b = b') \/ (a = b' /\ b = a').
Proof.
  intros Ha Hb Ha' Hb' Hne Hne' E. unfold cell in E.
  apply tril_inj_any in E as [[E1 E2]|[E1 E2]].
  - left. split; apply rk_inj; auto.
  - right. split; apply rk_inj; auto.
  - intros E'. apply Hne. apply rk_inj; auto.
  - intros E'. apply Hne'. apply rk_inj; auto.
Qed.

(* ---- caches ------------------------------------------------------------------------------------------------ *)
Lemma ksorted_NoDup (es : cache) : ksorted es -> NoDup (map fst es).
Proof.
  unfold ksorted. induction (map fst es) as [|k l IH]; intros H; [constructor|].
  apply StronglySorted_inv in H as [H1 H2]. constructor; auto.
  intros Hin. rewrite Forall_forall in H2. specialize (H2 _ Hin). lia.
Qed.

Lemma edge_get_in_keys (es : cache) k : In k (map fst es) <-> edge_get es k <> None.
Proof.
  split; [|apply edge_get_keys].
  induction es as [|[k0 v] es IH]; simpl; [tauto|]. intros [->|H].
  - rewrite Nat.eqb_refl. discriminate.
  - destruct (Nat.eqb k0 k); [discriminate|auto].
Qed.

Definition ins_all (g : L -> L) (cc nc : cache) : cache :=
  fold_left (fun acc (kv : nat * L) => edge_insert acc (fst kv) (g (snd kv))) cc nc.

Lemma ins_all_sorted g cc : forall nc, ksorted nc -> ksorted (ins_all g cc nc).
Proof.
  induction cc as [|[k v] cc IH]; intros nc H; simpl; auto. apply IH. apply ksorted_insert; auto.
Qed.

Lemma ins_all_get g cc k : NoDup (map fst cc) -> forall nc,
  edge_get (ins_all g cc nc) k =
  match edge_get cc k with Some v => Some (g v) | None => edge_get nc k end.
Proof.
  induction cc as [|[k0 v0] cc IH]; intros Hnd nc; simpl; [reflexivity|].
  simpl in Hnd. apply NoDup_cons_iff in Hnd as [Hk0 Hnd].
  unfold ins_all in *. rewrite IH by auto. destruct (Nat.eqb_spec k0 k) as [->|Hne].
  - destruct (edge_get cc k) eqn:E.
    + exfalso. apply Hk0. apply edge_get_in_keys. congruence.
    + apply edge_get_insert_eq.
  - destruct (edge_get cc k); auto. apply edge_get_insert_neq; auto.
Qed.

(* the cache of subtree s: keys = leaves of s (ascending), values = distance from the root of s *)
Definition cache_ok (s : rtree) (cc : cache) : Prop :=
  ksorted cc /\ forall k, edge_get cc k = if mem_nat k (rleaves s) then Some (D s k) else None.

Lemma cache_ok_keys s cc k : cache_ok s cc -> (In k (map fst cc) <-> In k (rleaves s)).
Proof.
  intros [_ H]. rewrite edge_get_in_keys, H. destruct (mem_nat k (rleaves s)) eqn:E.
  - apply mem_nat_In in E. split; auto. discriminate.
  - split; [congruence|]. intros Hin. apply mem_nat_In in Hin. congruence.
Qed.

Lemma cache_ok_get s cc k : cache_ok s cc -> In k (rleaves s) -> edge_get cc k = Some (D s k).
Proof. intros [_ H] Hk. rewrite H. apply mem_nat_In in Hk. rewrite Hk. reflexivity. Qed.

(* folding the caches of a list of children into the parent's cache *)
Definition merge_children (cf : rtree -> cache) (cs : list rtree) (nc : cache) : cache :=
  fold_left (fun nc c => ins_all (ladd O (elen (rid c))) (cf c) nc) cs nc.

Lemma merge_children_sorted cf cs : forall nc, ksorted nc -> ksorted (merge_children cf cs nc).
Proof.
  induction cs as [|c cs IH]; intros nc H; simpl; auto. apply IH. apply ins_all_sorted; auto.
Qed.

Lemma merge_children_get cf cs k :
  NoDup (flat_map rleaves cs) -> (forall c, In c cs -> cache_ok c (cf c)) -> forall nc,
  edge_get (merge_children cf cs nc) k =
  match find (fun c => mem_nat k (rleaves c)) cs with
  | Some c => Some (ladd O (elen (rid c)) (D c k))
  | None => edge_get nc k
  end.
Proof.
  induction cs as [|c cs IH]; intros Hnd Hok nc; simpl; [reflexivity|].
  simpl in Hnd. apply NoDup_app_iff in Hnd as (_ & Hnd & Hdis).
  unfold merge_children in *. rewrite IH by (auto; intros; apply Hok; right; auto).
  destruct (Hok c) as [Hs Hg]; [left; auto|].
  rewrite ins_all_get by (apply ksorted_NoDup; auto). rewrite Hg.
  destruct (mem_nat k (rleaves c)) eqn:E; auto.
  apply mem_nat_In in E. destruct (find _ cs) as [c'|] eqn:F; auto.
  exfalso. apply find_some in F as [Hc' Hk]. apply mem_nat_In in Hk.
  apply (Hdis k); auto. apply in_flat_map. eauto.
Qed.

Lemma cache_tip i : cache_ok (RT i []) [(i, l0 O)].
Proof.
  split.
  - unfold ksorted. simpl. repeat constructor.
  - intros k. simpl. rewrite (Nat.eqb_sym k i). destruct (Nat.eqb i k); reflexivity.
Qed.

Lemma cache_internal i cs cf :
  cs <> [] -> NoDup (ids (RT i cs)) -> (forall c, In c cs -> cache_ok c (cf c)) ->
  cache_ok (RT i cs) (merge_children cf cs []).
Proof.
  intros Hne Hnd Hok. split.
  - apply merge_children_sorted. unfold ksorted. simpl. constructor.
  - intros k. pose proof (NoDup_ids_children _ _ Hnd) as [Hcs _].
    rewrite merge_children_get; auto; [|apply NoDup_forest_leaves; auto].
    rewrite rleaves_children by auto.
    destruct (find _ cs) as [c|] eqn:F.
    + apply find_some in F as [Hc Hk]. apply mem_nat_In in Hk.
      assert (Hin : In k (flat_map rleaves cs)) by (apply in_flat_map; eauto).
      apply mem_nat_In in Hin. rewrite Hin. f_equal. symmetry.
      apply (D_child (RT i cs) c k); auto. apply rleaves_incl_ids; auto.
    + destruct (mem_nat k (flat_map rleaves cs)) eqn:E; auto.
      apply mem_nat_In in E. apply in_flat_map in E as (c & Hc & Hk).
      apply (find_none _ _ F) in Hc. apply mem_nat_In in Hk. congruence.
Qed.
