(* DistMatrix.v — property C08: the two distance-matrix computations (Queries.distance_matrix, the
   bottom-up "fast" algorithm, and Queries.distance_matrix_recursive, one undirected DFS per tip)
   return path lengths, list taxa in sorted order, and agree with pairwise distance queries. *)
From Coq Require Import List Arith Lia Bool Permutation Sorted.
From PT Require Import Arena Spec Queries RepLib Traversals Paths Tril Stats Splits.
Import ListNotations.

(* ================================================================================================ *)
(* 0. generic list facts                                                                             *)
(* ================================================================================================ *)
Lemma NoDup_map_inj_in {A B} (f : A -> B) l :
  NoDup l -> (forall x y, In x l -> In y l -> f x = f y -> x = y) -> NoDup (map f l).
Proof.
  induction l as [|a l IH]; intros Hnd Hinj; simpl; [constructor|].
  apply NoDup_cons_iff in Hnd as [Ha Hnd]. constructor.
  - intros Hin. apply in_map_iff in Hin as (y & Hy & Hyl). apply Ha.
    rewrite <- (Hinj y a); simpl; auto.
  - apply IH; auto. intros x y Hx Hy. apply Hinj; simpl; auto.
Qed.

Lemma NoDup_flat_map_disj {A B} (f : A -> list B) l :
  NoDup l -> (forall x, In x l -> NoDup (f x)) ->
  (forall x y z, In x l -> In y l -> In z (f x) -> In z (f y) -> x = y) ->
  NoDup (flat_map f l).
Proof.
  induction l as [|a l IH]; intros Hnd Hf Hdis; simpl; [constructor|].
  apply NoDup_cons_iff in Hnd as [Ha Hnd]. apply NoDup_app_iff. repeat split.
  - apply Hf. left; auto.
  - apply IH; auto.
    + intros x Hx. apply Hf. right; auto.
    + intros x y z Hx Hy. apply Hdis; right; auto.
  - intros z Hz1 Hz2. apply in_flat_map in Hz2 as (y & Hy & Hz2).
    apply Ha. rewrite (Hdis a y z); simpl; auto.
Qed.

Lemma NoDup_list_prod' {A B} (l1 : list A) (l2 : list B) :
  NoDup l1 -> NoDup l2 -> NoDup (list_prod l1 l2).
Proof.
  intros H1 H2. induction l1 as [|a l1 IH]; simpl; [constructor|].
  apply NoDup_cons_iff in H1 as [Ha H1]. apply NoDup_app_iff. repeat split.
  - apply NoDup_map_inj_in; auto. intros x y _ _ [= ->]. reflexivity.
  - apply IH; auto.
  - intros [x y] Hz1 Hz2. apply in_map_iff in Hz1 as (y' & [= <- <-] & _).
    apply in_prod_iff in Hz2 as [Hz2 _]. auto.
Qed.

(* ---- pairs ------------------------------------------------------------------------------------ *)
Lemma pairs_map {A B} (f : A -> B) l :
  pairs (map f l) = map (fun p => (f (fst p), f (snd p))) (pairs l).
Proof.
  induction l as [|a l IH]; simpl; [reflexivity|].
  rewrite map_app, !map_map, IH. reflexivity.
Qed.

Lemma pairs_NoDup {A} (l : list A) : NoDup l -> NoDup (pairs l).
Proof.
  induction l as [|a l IH]; intros Hnd; simpl; [constructor|].
  apply NoDup_cons_iff in Hnd as [Ha Hnd]. apply NoDup_app_iff. repeat split; auto.
  - apply NoDup_map_inj_in; auto. intros x y _ _ [= ->]. reflexivity.
  - intros [x y] H1 H2. apply in_map_iff in H1 as (y' & [= <- <-] & _).
    apply in_pairs in H2 as [H2 _]. auto.
Qed.

Lemma pairs_neq {A} (l : list A) a b : NoDup l -> In (a, b) (pairs l) -> a <> b.
Proof.
  induction l as [|x l IH]; intros Hnd Hin; simpl in *; [tauto|].
  apply NoDup_cons_iff in Hnd as [Hx Hnd]. apply in_app_or in Hin as [Hin|Hin]; auto.
  apply in_map_iff in Hin as (y & [= <- <-] & Hy). intros ->. auto.
Qed.

Lemma pairs_asym {A} (l : list A) a b : NoDup l -> In (a, b) (pairs l) -> ~ In (b, a) (pairs l).
Proof.
  induction l as [|x l IH]; intros Hnd Hin; simpl in *; [tauto|].
  apply NoDup_cons_iff in Hnd as [Hx Hnd]. intros Hba.
  apply in_app_or in Hin as [Hin|Hin]; apply in_app_or in Hba as [Hba|Hba].
  - apply in_map_iff in Hin as (y & [= <- <-] & Hy). apply in_map_iff in Hba as (y' & [= <- <-] & Hy'). auto.
  - apply in_map_iff in Hin as (y & [= <- <-] & Hy). apply in_pairs in Hba as [_ Hba]. auto.
  - apply in_map_iff in Hba as (y & [= <- <-] & Hy). apply in_pairs in Hin as [_ Hin]. auto.
  - revert Hba. apply IH; auto.
Qed.

Lemma pairs_total {A} (l : list A) a b :
  In a l -> In b l -> a <> b -> In (a, b) (pairs l) \/ In (b, a) (pairs l).
Proof.
  induction l as [|x l IH]; intros Ha Hb Hne; simpl in *; [tauto|].
  destruct Ha as [->|Ha], Hb as [->|Hb]; try congruence.
  - left. apply in_or_app. left. apply in_map; auto.
  - right. apply in_or_app. left. apply in_map; auto.
  - destruct (IH Ha Hb Hne); [left|right]; apply in_or_app; right; auto.
Qed.

(* ---- stable sort -------------------------------------------------------------------------------- *)
Lemma insert_sorted_ext_in {A} (leb leb' : A -> A -> bool) x l :
  (forall y, In y l -> leb x y = leb' x y) -> insert_sorted leb x l = insert_sorted leb' x l.
Proof.
  induction l as [|y l IH]; intros H; simpl; [reflexivity|].
  rewrite <- (H y) by (left; auto). destruct (leb x y); auto. f_equal. apply IH.
  intros z Hz. apply H. right; auto.
Qed.

Lemma stable_sort_ext_in {A} (leb leb' : A -> A -> bool) l :
  (forall x y, In x l -> In y l -> leb x y = leb' x y) -> stable_sort leb l = stable_sort leb' l.
Proof.
  induction l as [|x l IH]; intros H; simpl; [reflexivity|].
  change (fold_right (insert_sorted leb) [] l) with (stable_sort leb l).
  change (fold_right (insert_sorted leb') [] l) with (stable_sort leb' l).
  rewrite <- IH by (intros; apply H; right; auto).
  apply insert_sorted_ext_in. intros y Hy. apply H; [left; auto|right].
  eapply Permutation_in; [apply stable_sort_perm|exact Hy].
Qed.

Lemma map_insert_sorted {A B} (f : A -> B) (leb : B -> B -> bool) x l :
  map f (insert_sorted (fun a b => leb (f a) (f b)) x l) = insert_sorted leb (f x) (map f l).
Proof.
  induction l as [|y l IH]; simpl; [reflexivity|]. destruct (leb (f x) (f y)); simpl; auto. f_equal. auto.
Qed.

Lemma map_stable_sort {A B} (f : A -> B) (leb : B -> B -> bool) l :
  map f (stable_sort (fun a b => leb (f a) (f b)) l) = stable_sort leb (map f l).
Proof.
  induction l as [|x l IH]; simpl; [reflexivity|].
  change (fold_right (insert_sorted (fun a b => leb (f a) (f b))) [] l)
    with (stable_sort (fun a b => leb (f a) (f b)) l).
  rewrite map_insert_sorted, IH. reflexivity.
Qed.

(* ---- index_of ----------------------------------------------------------------------------------- *)
Lemma index_of_nth x l : forall k, index_of x l = Some k -> nth_error l k = Some x.
Proof.
  induction l as [|y l IH]; intros k H; simpl in *; [discriminate|].
  destruct (Nat.eqb_spec x y) as [->|Hne].
  - injection H as <-. reflexivity.
  - destruct (index_of x l) as [k'|]; simpl in H; [|discriminate]. injection H as <-. simpl. auto.
Qed.

Lemma index_of_inj x y l k : index_of x l = Some k -> index_of y l = Some k -> x = y.
Proof. intros Hx Hy. apply index_of_nth in Hx, Hy. congruence. Qed.

(* ---- monadic folds that never fail ---------------------------------------------------------------- *)
Lemma foldM_ok_fold {A S} (g : S -> A -> outcome S) (h : S -> A -> S) l :
  (forall s x, In x l -> g s x = Ok (h s x)) -> forall s, foldM g l s = Ok (fold_left h l s).
Proof.
  induction l as [|x l IH]; intros H s; simpl; [reflexivity|].
  rewrite H by (left; auto). simpl. apply IH. intros s' y Hy. apply H. right; auto.
Qed.

Lemma fold_left_flat_map {A B S} (h : S -> B -> S) (f : A -> list B) l : forall s,
  fold_left h (flat_map f l) s = fold_left (fun s x => fold_left h (f x) s) l s.
Proof.
  induction l as [|x l IH]; intros s; simpl; [reflexivity|]. rewrite fold_left_app. apply IH.
Qed.
