(* DistMatrix.v — property C08: the two distance-matrix computations (Queries.distance_matrix, the
   bottom-up "fast" algorithm, and Queries.distance_matrix_recursive, one undirected DFS per tip)
   return path lengths, list taxa in sorted order, and agree with pairwise distance queries. *)
From Coq Require Import List Arith Lia Bool Permutation Sorted.
From PT Require Import Arena Spec Queries RepLib Traversals Paths Tril Stats Splits.
From PT Require Matrix.
Import ListNotations.

(* ================================================================================================ *)
(* 0. generic list facts                                                                             *)
(* ================================================================================================ *)
Lemma NoDup_map_inj_in {A B} (f : A -> B) l :
  NoDup l -> (forall x y, In x l -> In y l -> f x = f y -> x = y) -> NoDup (map f l).
Proof.
  induction l as [|a l IH]; intros Hnd Hinj; simpl; [constructor|].
  apply NoDup_cons_iff in Hnd as [Ha Hnd]. constructor.
  - intros Hin. apply in_map_iff in Hin as (y & Hy & Hyl). apply Ha.
    rewrite <- (Hinj y a); simpl; auto.
  - apply IH; auto. intros x y Hx Hy. apply Hinj; simpl; auto.
Qed.

Lemma NoDup_flat_map_disj {A B} (f : A -> list B) l :
  NoDup l -> (forall x, In x l -> NoDup (f x)) ->
  (forall x y z, In x l -> In y l -> In z (f x) -> In z (f y) -> x = y) ->
  NoDup (flat_map f l).
Proof.
  induction l as [|a l IH]; intros Hnd Hf Hdis; simpl; [constructor|].
  apply NoDup_cons_iff in Hnd as [Ha Hnd]. apply NoDup_app_iff. repeat split.
  - apply Hf. left; auto.
  - apply IH; auto.
    + intros x Hx. apply Hf. right; auto.
    + intros x y z Hx Hy. apply Hdis; right; auto.
  - intros z Hz1 Hz2. apply in_flat_map in Hz2 as (y & Hy & Hz2).
    apply Ha. rewrite (Hdis a y z); simpl; auto.
Qed.

Lemma NoDup_list_prod' {A B} (l1 : list A) (l2 : list B) :
  NoDup l1 -> NoDup l2 -> NoDup (list_prod l1 l2).
Proof.
  intros H1 H2. induction l1 as [|a l1 IH]; simpl; [constructor|].
  apply NoDup_cons_iff in H1 as [Ha H1]. apply NoDup_app_iff. repeat split.
  - apply NoDup_map_inj_in; auto. intros x y _ _ [= ->]. reflexivity.
  - apply IH; auto.
  - intros [x y] Hz1 Hz2. apply in_map_iff in Hz1 as (y' & [= <- <-] & _).
    apply in_prod_iff in Hz2 as [Hz2 _]. auto.
Qed.

(* ---- pairs ------------------------------------------------------------------------------------ *)
Lemma pairs_map {A B} (f : A -> B) l :
  pairs (map f l) = map (fun p => (f (fst p), f (snd p))) (pairs l).
Proof.
  induction l as [|a l IH]; simpl; [reflexivity|].
  rewrite map_app, !map_map, IH. reflexivity.
Qed.

Lemma pairs_NoDup {A} (l : list A) : NoDup l -> NoDup (pairs l).
Proof.
  induction l as [|a l IH]; intros Hnd; simpl; [constructor|].
  apply NoDup_cons_iff in Hnd as [Ha Hnd]. apply NoDup_app_iff. repeat split; auto.
  - apply NoDup_map_inj_in; auto. intros x y _ _ [= ->]. reflexivity.
  - intros [x y] H1 H2. apply in_map_iff in H1 as (y' & [= <- <-] & _).
    apply in_pairs in H2 as [H2 _]. auto.
Qed.

Lemma pairs_neq {A} (l : list A) a b : NoDup l -> In (a, b) (pairs l) -> a <> b.
Proof.
  induction l as [|x l IH]; intros Hnd Hin; simpl in *; [tauto|].
  apply NoDup_cons_iff in Hnd as [Hx Hnd]. apply in_app_or in Hin as [Hin|Hin]; auto.
  apply in_map_iff in Hin as (y & [= <- <-] & Hy). intros ->. auto.
Qed.

Lemma pairs_asym {A} (l : list A) a b : NoDup l -> In (a, b) (pairs l) -> ~ In (b, a) (pairs l).
Proof.
  induction l as [|x l IH]; intros Hnd Hin; simpl in *; [tauto|].
  apply NoDup_cons_iff in Hnd as [Hx Hnd]. intros Hba.
  apply in_app_or in Hin as [Hin|Hin]; apply in_app_or in Hba as [Hba|Hba].
  - apply in_map_iff in Hin as (y & [= <- <-] & Hy). apply in_map_iff in Hba as (y' & [= <- <-] & Hy'). auto.
  - apply in_map_iff in Hin as (y & [= <- <-] & Hy). apply in_pairs in Hba as [_ Hba]. auto.
  - apply in_map_iff in Hba as (y & [= <- <-] & Hy). apply in_pairs in Hin as [_ Hin]. auto.
  - revert Hba. apply IH; auto.
Qed.

Lemma pairs_total {A} (l : list A) a b :
  In a l -> In b l -> a <> b -> In (a, b) (pairs l) \/ In (b, a) (pairs l).
Proof.
  induction l as [|x l IH]; intros Ha Hb Hne; simpl in *; [tauto|].
  destruct Ha as [->|Ha], Hb as [->|Hb]; try congruence.
  - left. apply in_or_app. left. apply in_map; auto.
  - right. apply in_or_app. left. apply in_map; auto.
  - destruct (IH Ha Hb Hne); [left|right]; apply in_or_app; right; auto.
Qed.

(* ---- stable sort -------------------------------------------------------------------------------- *)
Lemma insert_sorted_ext_in {A} (leb leb' : A -> A -> bool) x l :
  (forall y, In y l -> leb x y = leb' x y) -> insert_sorted leb x l = insert_sorted leb' x l.
Proof.
  induction l as [|y l IH]; intros H; simpl; [reflexivity|].
  rewrite <- (H y) by (left; auto). destruct (leb x y); auto. f_equal. apply IH.
  intros z Hz. apply H. right; auto.
Qed.

Lemma stable_sort_ext_in {A} (leb leb' : A -> A -> bool) l :
  (forall x y, In x l -> In y l -> leb x y = leb' x y) -> stable_sort leb l = stable_sort leb' l.
Proof.
  induction l as [|x l IH]; intros H; simpl; [reflexivity|].
  change (fold_right (insert_sorted leb) [] l) with (stable_sort leb l).
  change (fold_right (insert_sorted leb') [] l) with (stable_sort leb' l).
  rewrite <- IH by (intros; apply H; right; auto).
  apply insert_sorted_ext_in. intros y Hy. apply H; [left; auto|right].
  eapply Permutation_in; [apply stable_sort_perm|exact Hy].
Qed.

Lemma map_insert_sorted {A B} (f : A -> B) (leb : B -> B -> bool) x l :
  map f (insert_sorted (fun a b => leb (f a) (f b)) x l) = insert_sorted leb (f x) (map f l).
Proof.
  induction l as [|y l IH]; simpl; [reflexivity|]. destruct (leb (f x) (f y)); simpl; auto. f_equal. auto.
Qed.

Lemma map_stable_sort {A B} (f : A -> B) (leb : B -> B -> bool) l :
  map f (stable_sort (fun a b => leb (f a) (f b)) l) = stable_sort leb (map f l).
Proof.
  induction l as [|x l IH]; simpl; [reflexivity|].
  change (fold_right (insert_sorted (fun a b => leb (f a) (f b))) [] l)
    with (stable_sort (fun a b => leb (f a) (f b)) l).
  rewrite map_insert_sorted, IH. reflexivity.
Qed.

(* ---- index_of ----------------------------------------------------------------------------------- *)
Lemma index_of_nth x l : forall k, index_of x l = Some k -> nth_error l k = Some x.
Proof.
  induction l as [|y l IH]; intros k H; simpl in *; [discriminate|].
  destruct (Nat.eqb_spec x y) as [->|Hne].
  - injection H as <-. reflexivity.
  - destruct (index_of x l) as [k'|]; simpl in H; [|discriminate]. injection H as <-. simpl. auto.
Qed.

Lemma index_of_inj x y l k : index_of x l = Some k -> index_of y l = Some k -> x = y.
Proof. intros Hx Hy. apply index_of_nth in Hx, Hy. congruence. Qed.

(* ---- monadic folds that never fail ---------------------------------------------------------------- *)
Lemma foldM_ok_fold {A S} (g : S -> A -> outcome S) (h : S -> A -> S) l :
  (forall s x, In x l -> g s x = Ok (h s x)) -> forall s, foldM g l s = Ok (fold_left h l s).
Proof.
  induction l as [|x l IH]; intros H s; simpl; [reflexivity|].
  rewrite H by (left; auto). simpl. apply IH. intros s' y Hy. apply H. right; auto.
Qed.

Lemma fold_left_flat_map {A B S} (h : S -> B -> S) (f : A -> list B) l : forall s,
  fold_left h (flat_map f l) s = fold_left (fun s x => fold_left h (f x) s) l s.
Proof.
  induction l as [|x l IH]; intros s; simpl; [reflexivity|]. rewrite fold_left_app. apply IH.
Qed.

(* ================================================================================================ *)
(* 1. the accumulator: add_at                                                                        *)
(* ================================================================================================ *)
Section AddAt.
Context {L : Type}.
Variable O : LenOps L.

Lemma add_at_length (l : list L) k v : length (add_at O l k v) = length l.
Proof. revert k. induction l as [|h l IH]; intros [|k]; simpl; auto. Qed.

Lemma add_at_same (l : list L) k v h :
  nth_error l k = Some h -> nth_error (add_at O l k v) k = Some (ladd O h v).
Proof.
  revert k. induction l as [|x l IH]; intros [|k] H; simpl in *; try discriminate; auto. congruence.
Qed.

Lemma add_at_other (l : list L) k k' v : k <> k' -> nth_error (add_at O l k v) k' = nth_error l k'.
Proof.
  revert k k'. induction l as [|x l IH]; intros [|k] [|k'] H; simpl; auto; try congruence.
Qed.

Definition apply_ups (ups : list (nat * L)) (vec : list L) : list L :=
  fold_left (fun vec u => add_at O vec (fst u) (snd u)) ups vec.

Lemma apply_ups_length ups : forall vec, length (apply_ups ups vec) = length vec.
Proof.
  induction ups as [|u ups IH]; intros vec; simpl; auto.
  unfold apply_ups in *. simpl. rewrite IH. apply add_at_length.
Qed.

Lemma apply_ups_other ups k : forall vec,
  ~ In k (map fst ups) -> nth_error (apply_ups ups vec) k = nth_error vec k.
Proof.
  induction ups as [|u ups IH]; intros vec Hk; simpl in *; auto.
  unfold apply_ups in *. simpl. rewrite IH by tauto. apply add_at_other. tauto.
Qed.

Lemma apply_ups_hit ups k v : forall vec h,
  NoDup (map fst ups) -> In (k, v) ups -> nth_error vec k = Some h ->
  nth_error (apply_ups ups vec) k = Some (ladd O h v).
Proof.
  induction ups as [|u ups IH]; intros vec h Hnd Hin Hh; simpl in *; [tauto|].
  apply NoDup_cons_iff in Hnd as [Hu Hnd]. unfold apply_ups in *. simpl.
  destruct Hin as [->|Hin].
  - simpl in *. fold (apply_ups ups (add_at O vec k v)). rewrite apply_ups_other by auto.
    apply add_at_same; auto.
  - eapply IH; eauto. rewrite add_at_other; auto. intros E. apply Hu. rewrite E.
    change k with (fst (k, v)). apply in_map; auto.
Qed.

End AddAt.

(* ================================================================================================ *)
(* 2. rose-tree combinatorics: branching nodes, processing order                                     *)
(* ================================================================================================ *)
Lemma NoDup_forest_children cs : NoDup (flat_map ids cs) -> NoDup cs.
Proof. intros H. apply NoDup_map_rid in H. eapply NoDup_map_inv; eauto. Qed.

Lemma NoDup_forest_leaves cs : NoDup (flat_map ids cs) -> NoDup (flat_map rleaves cs).
Proof.
  intros H. eapply NoDup_flat_map_sub; [exact H|]. intros c Hc. split; [apply rleaves_incl_ids|].
  apply rleaves_NoDup. eapply NoDup_flat_map_in; eauto.
Qed.

Lemma NoDup_ids_children i cs : NoDup (ids (RT i cs)) -> NoDup (flat_map ids cs) /\ ~ In i (flat_map ids cs).
Proof. rewrite ids_RT. intros H. apply NoDup_cons_iff in H. tauto. Qed.

Lemma rch_ids_incl s c : In c (rch s) -> incl (ids c) (ids s).
Proof.
  destruct s as [i cs]. cbn [rch]. intros Hc x Hx. rewrite ids_RT. right. apply in_flat_map. eauto.
Qed.

Lemma rch_subtrees s c : In c (rch s) -> In c (subtrees s).
Proof.
  destruct s as [i cs]. cbn [rch]. intros Hc. rewrite subtrees_RT. right. apply in_flat_map.
  exists c. split; auto. apply subtrees_self.
Qed.

Lemma rch_NoDup s : NoDup (ids s) -> NoDup (flat_map ids (rch s)).
Proof. destruct s as [i cs]. intros H. apply NoDup_ids_children in H. tauto. Qed.

Lemma child_rid_neq s c : NoDup (ids s) -> In c (rch s) -> rid c <> rid s.
Proof.
  destruct s as [i cs]. cbn [rch rid]. intros H Hc E. apply NoDup_ids_children in H as [_ H]. apply H.
  apply in_flat_map. exists c. split; auto. rewrite <- E. apply In_rid_ids.
Qed.

(* two subtrees sharing a node are nested *)
Lemma subtrees_nested : forall r s s' a, NoDup (ids r) ->
  In s (subtrees r) -> In s' (subtrees r) -> In a (ids s) -> In a (ids s') ->
  In s (subtrees s') \/ In s' (subtrees s).
Proof.
  induction r as [i cs IH] using RepLib.rtree_ind'. intros s s' a Hnd Hs Hs' Ha Ha'.
  rewrite subtrees_RT in Hs, Hs'. destruct Hs as [<-|Hs]; [right; rewrite subtrees_RT; auto|].
  destruct Hs' as [<-|Hs']; [left; rewrite subtrees_RT; right; auto|].
  apply in_flat_map in Hs as (c & Hc & Hs). apply in_flat_map in Hs' as (c' & Hc' & Hs').
  apply NoDup_ids_children in Hnd as [Hnd _].
  assert (c = c').
  { eapply (flat_map_NoDup_inj ids cs c c' a); eauto.
    - eapply subtrees_ids_incl; eauto.
    - eapply subtrees_ids_incl; eauto. }
  subst c'. rewrite Forall_forall in IH. eapply IH; eauto. eapply NoDup_flat_map_in; eauto.
Qed.

(* node s separates a and b: they lie below two different children, in child order *)
Definition branch (s c1 c2 : rtree) (a b : nat) : Prop :=
  In (c1, c2) (pairs (rch s)) /\ In a (rleaves c1) /\ In b (rleaves c2).

Lemma branch_facts s c1 c2 a b : NoDup (ids s) -> branch s c1 c2 a b ->
  In c1 (rch s) /\ In c2 (rch s) /\ c1 <> c2 /\ a <> b /\ In a (ids s) /\ In b (ids s) /\
  In a (rleaves s) /\ In b (rleaves s).
Proof.
  intros Hnd (Hp & Ha & Hb). pose proof (in_pairs _ _ _ Hp) as [H1 H2].
  pose proof (rch_NoDup _ Hnd) as Hcs.
  assert (Hne : c1 <> c2) by (eapply pairs_neq; eauto; apply NoDup_forest_children; auto).
  repeat split; auto.
  - intros E. subst b. apply Hne.
    apply (flat_map_NoDup_inj ids (rch s) c1 c2 a); auto; apply rleaves_incl_ids; auto.
  - apply (rch_ids_incl s c1); auto. apply rleaves_incl_ids; auto.
  - apply (rch_ids_incl s c2); auto. apply rleaves_incl_ids; auto.
  - eapply subtrees_leaves_incl; [apply rch_subtrees; exact H1|auto].
  - eapply subtrees_leaves_incl; [apply rch_subtrees; exact H2|auto].
Qed.

Lemma branch_below s s' c1 c2 c1' c2' a b :
  NoDup (ids s) -> In s' (subtrees s) ->
  branch s c1 c2 a b -> (branch s' c1' c2' a b \/ branch s' c1' c2' b a) -> s' = s.
Proof.
  intros Hnd Hs' Hb Hb'. destruct s as [i cs]. rewrite subtrees_RT in Hs'. destruct Hs' as [<-|Hs']; auto.
  exfalso. apply in_flat_map in Hs' as (c & Hc & Hs').
  destruct (branch_facts _ _ _ _ _ Hnd Hb) as (H1 & H2 & Hne & _ & _). simpl in H1, H2.
  destruct Hb as (_ & Ha & Hb).
  assert (Hnd' : NoDup (ids s')).
  { eapply subtrees_NoDup; [|exact Hnd]. rewrite subtrees_RT. right. apply in_flat_map. eauto. }
  assert (In a (ids c) /\ In b (ids c)) as [Hac Hbc].
  { destruct Hb' as [Hb'|Hb']; destruct (branch_facts _ _ _ _ _ Hnd' Hb') as (_ & _ & _ & _ & X & Y & _);
      split; eapply subtrees_ids_incl; eauto. }
  apply NoDup_ids_children in Hnd as [Hnd _]. apply Hne.
  transitivity c.
  - eapply (flat_map_NoDup_inj ids cs c1 c a); eauto. apply rleaves_incl_ids; auto.
  - eapply (flat_map_NoDup_inj ids cs c c2 b); eauto. apply rleaves_incl_ids; auto.
Qed.

(* the separating node of a pair of leaves is unique *)
Lemma branch_unique r s s' c1 c2 c1' c2' a b :
  NoDup (ids r) -> In s (subtrees r) -> In s' (subtrees r) ->
  branch s c1 c2 a b -> (branch s' c1' c2' a b \/ branch s' c1' c2' b a) -> s' = s.
Proof.
  intros Hnd Hs Hs' Hb Hb'.
  pose proof (subtrees_NoDup _ _ Hs Hnd) as Hn. pose proof (subtrees_NoDup _ _ Hs' Hnd) as Hn'.
  destruct (branch_facts _ _ _ _ _ Hn Hb) as (_ & _ & _ & _ & Ha & _).
  assert (Ha' : In a (ids s')).
  { destruct Hb' as [Hb'|Hb']; destruct (branch_facts _ _ _ _ _ Hn' Hb') as (_ & _ & _ & _ & X & Y & _); auto. }
  destruct (subtrees_nested r s s' a Hnd Hs Hs' Ha Ha') as [H|H].
  - symmetry. destruct Hb' as [Hb'|Hb'].
    + eapply (branch_below s' s); eauto.
    + apply (branch_below s' s c1' c2' c1 c2 b a); auto.
  - eapply branch_below; eauto.
Qed.

Lemma branch_exists : forall r a b, In a (rleaves r) -> In b (rleaves r) -> a <> b ->
  exists s c1 c2, In s (subtrees r) /\ (branch s c1 c2 a b \/ branch s c1 c2 b a).
Proof.
  induction r as [i cs IH] using RepLib.rtree_ind'. intros a b Ha Hb Hne.
  destruct cs as [|c0 cs0]; [simpl in *; intuition congruence|].
  rewrite rleaves_cons in Ha, Hb. remember (c0 :: cs0) as cs.
  apply in_flat_map in Ha as (ca & Hca & Ha). apply in_flat_map in Hb as (cb & Hcb & Hb).
  destruct (in_dec Nat.eq_dec b (rleaves ca)) as [Hb'|Hb'].
  - rewrite Forall_forall in IH. destruct (IH ca Hca a b Ha Hb' Hne) as (s & c1 & c2 & Hs & Hbr).
    exists s, c1, c2. split; auto. rewrite subtrees_RT. right. apply in_flat_map. eauto.
  - assert (Hcc : ca <> cb) by (intros ->; auto).
    destruct (pairs_total cs ca cb Hca Hcb Hcc) as [Hp|Hp].
    + exists (RT i cs), ca, cb. split; [apply subtrees_self|]. left. split; auto.
    + exists (RT i cs), cb, ca. split; [apply subtrees_self|]. right. split; auto.
Qed.

(* ---- reverse level order visits children first --------------------------------------------------- *)
Lemma subtree_levels : forall r s, In s (subtrees r) ->
  exists k, In (rid s) (nodes_at k r) /\ forall c, In c (rch s) -> In (rid c) (nodes_at (S k) r).
Proof.
  induction r as [i cs IH] using RepLib.rtree_ind'. intros s Hs. rewrite subtrees_RT in Hs.
  destruct Hs as [<-|Hs].
  - exists 0. split; [simpl; auto|]. intros c Hc. cbn [nodes_at rch] in *.
    apply in_flat_map. exists c. split; auto. simpl. auto.
  - apply in_flat_map in Hs as (c0 & Hc0 & Hs). rewrite Forall_forall in IH.
    destruct (IH c0 Hc0 s Hs) as (k & Hk & Hch). exists (S k). split.
    + cbn [nodes_at rch]. apply in_flat_map. eauto.
    + intros c Hc. change (nodes_at (S (S k)) (RT i cs)) with (flat_map (nodes_at (S k)) cs).
      apply in_flat_map. eauto.
Qed.

Definition child_first (r : rtree) (l : list nat) : Prop :=
  forall l1 v l2, l = l1 ++ v :: l2 ->
    ~ In v l1 /\ exists s, In s (subtrees r) /\ rid s = v /\ forall c, In c (rch s) -> In (rid c) l1.

Lemma child_first_prefix r l1 l2 : child_first r (l1 ++ l2) -> child_first r l1.
Proof. intros H m1 v m2 E. apply (H m1 v (m2 ++ l2)). rewrite E, <- app_assoc. reflexivity. Qed.

Lemma level_NoDup r : NoDup (ids r) -> NoDup (level r).
Proof. intros H. eapply Permutation_NoDup; [apply pre_level_perm|exact H]. Qed.

Theorem rev_level_child_first r : NoDup (ids r) -> child_first r (rev (level r)).
Proof.
  intros Hnd l1 v l2 E.
  assert (El : level r = rev l2 ++ v :: rev l1).
  { rewrite <- (rev_involutive (level r)), E, rev_app_distr. simpl. rewrite <- app_assoc. reflexivity. }
  pose proof (level_NoDup r Hnd) as HndL. rewrite El in HndL.
  apply NoDup_app_iff in HndL as (_ & HndL & Hdis). apply NoDup_cons_iff in HndL as [Hv1 _].
  split; [rewrite in_rev; exact Hv1|].
  assert (Hv : In v (pre r)).
  { eapply Permutation_in; [apply Permutation_sym, pre_level_perm|]. rewrite El. apply in_or_app. right. left. auto. }
  rewrite <- map_rid_subtrees in Hv. apply in_map_iff in Hv as (s & Hsv & Hs).
  exists s. repeat split; auto. intros c Hc.
  destruct (subtree_levels r s Hs) as (k & Hk & Hch). specialize (Hch c Hc).
  pose proof (nodes_at_depth _ _ _ Hnd Hk) as Dv. pose proof (nodes_at_depth _ _ _ Hnd Hch) as Dc.
  assert (Hcl : In (rid c) (level r)).
  { eapply Permutation_in; [apply pre_level_perm|]. eapply nodes_at_in_pre; eauto. }
  rewrite El in Hcl. apply in_app_or in Hcl as [Hcl|[Hcl|Hcl]].
  - exfalso. apply in_split in Hcl as (A & B & EA). rewrite EA, <- app_assoc in El. simpl in El.
    destruct (level_depth_monotone r _ _ _ _ _ Hnd El) as (dx & dy & Hx & Hy & Hle).
    rewrite Hsv in Dv. rewrite Dc in Hx. rewrite Dv in Hy. injection Hx as <-. injection Hy as <-. lia.
  - exfalso. rewrite <- Hsv in Hcl. symmetry in Hcl. revert Hcl. apply child_rid_neq; auto.
    eapply subtrees_NoDup; eauto.
  - apply in_rev; auto.
Qed.

(* ================================================================================================ *)
(* 3. the fast algorithm: definitions and specification functions                                   *)
(* ================================================================================================ *)
Section DM.
Context {L : Type}.
Variable O : LenOps L.
Notation arena := (@arena L).
Notation node := (@node L).
Notation cache := (@cache L).

(* ---- the loop body of distance_matrix, piece by piece ---------------------------------------------- *)
Section Body.
Variable t : arena.

Definition name_leb (a b : nat) : bool :=
  match get t a, get t b with
  | Ok na, Ok nb => ostr_leb (nname na) (nname nb)
  | _, _ => true
  end.
Definition leaf_order : list nat := stable_sort name_leb (get_leaves t).
Definition rk (a : nat) : nat := match index_of a leaf_order with Some k => k | None => 0 end.
Definition ncells : nat := n_leaves t * (n_leaves t - 1) / 2.
Definition cell (a b : nat) : nat := tril_idx (rk a) (rk b).

Definition nc_step (caches : list (nat * cache)) (nc : cache) (ch : nat) : outcome cache :=
  c <- get t ch ;;
  let clen := match npedge c with Some e => e | None => l1 O end in
  match caches_get caches ch with
  | None => Err MissingBranchLengths
  | Some cc => Ok (fold_left (fun acc (kv : nat * L) => edge_insert acc (fst kv) (ladd O clen (snd kv))) cc nc)
  end.

Definition leaf_step (nc : cache) (vec : list L) (lf : nat * nat) : outcome (list L) :=
  match edge_get nc (fst lf), edge_get nc (snd lf) with
  | Some d1, Some d2 =>
      match index_of (fst lf) leaf_order, index_of (snd lf) leaf_order with
      | Some i, Some j => Ok (add_at O vec (tril_idx i j) (ladd O d1 d2))
      | _, _ => Err NodeNotFound
      end
  | _, _ => Panic 16
  end.

Definition pair_step (caches : list (nat * cache)) (nc : cache) (vec : list L) (pr : nat * nat)
  : outcome (list L) :=
  _ <- get t (fst pr) ;;
  _ <- get t (snd pr) ;;
  match caches_get caches (fst pr), caches_get caches (snd pr) with
  | Some c1, Some c2 => foldM (leaf_step nc) (list_prod (map fst c1) (map fst c2)) vec
  | _, _ => Err MissingBranchLengths
  end.

Definition dm_step (st : list L * list (nat * cache)) (cur : nat) : outcome (list L * list (nat * cache)) :=
  let '(vec, caches) := st in
  p <- get t cur ;;
  let nc0 : cache := if is_tip p then [(cur, l0 O)] else [] in
  nc <- foldM (nc_step caches) (nchildren p) nc0 ;;
  vec' <- foldM (pair_step caches nc) (pairs (nchildren p)) vec ;;
  Ok (vec', (cur, nc) :: caches).

Definition leaf_name (i : nat) : outcome str :=
  match get t i with
  | Ok nd => match nname nd with Some x => Ok x | None => Err UnnamedLeaves end
  | _ => Panic 15
  end.

Lemma dm_unfold :
  distance_matrix O t =
  if Nat.eqb (n_leaves t) 0 then Err IsEmpty else
  names <- mapM leaf_name leaf_order ;;
  root <- get_root t ;;
  lo <- levelorder t root ;;
  '(vec, _) <- foldM dm_step (rev lo) (repeat (l0 O) ncells, []) ;;
  Ok (mkDmat (length names) names vec).
Proof. reflexivity. Qed.

Theorem dm_empty : n_leaves t = 0 -> distance_matrix O t = Err IsEmpty.
Proof. intros H. rewrite dm_unfold, H. reflexivity. Qed.

End Body.

(* ---- the setting: the live slots of t form the tree r ----------------------------------------------- *)
Section Core.
Variables (t : arena) (root : nat) (r : rtree).
Hypothesis HR : Rep t None 0 root r.
Hypothesis HN : NoDup (ids r).
Hypothesis HL : forall i, live t i -> In i (ids r).

(* length used for the branch above node c: its own length, or 1.0 when absent *)
Definition elen (c : nat) : L := match edge_of t c with Some e => e | None => l1 O end.

(* D s x : sum of the branch lengths along the downward path from the root of s to x *)
Fixpoint Dfirst (D : rtree -> nat -> L) (x : nat) (cs : list rtree) : L :=
  match cs with
  | [] => l0 O
  | c :: rest => if mem_nat x (ids c) then ladd O (elen (rid c)) (D c x) else Dfirst D x rest
  end.
Fixpoint D (s : rtree) (x : nat) : L :=
  match s with
  | RT _ cs =>
      (fix first (cs : list rtree) : L :=
         match cs with
         | [] => l0 O
         | c :: rest => if mem_nat x (ids c) then ladd O (elen (rid c)) (D c x) else first rest
         end) cs
  end.

Lemma D_RT i cs x : D (RT i cs) x = Dfirst D x cs.
Proof. cbn [D]. induction cs as [|c cs IH]; cbn [Dfirst]; [reflexivity|]. rewrite <- IH. reflexivity. Qed.

Lemma D_tip i x : D (RT i []) x = l0 O.
Proof. reflexivity. Qed.

Lemma Dfirst_child x cs c :
  NoDup (flat_map ids cs) -> In c cs -> In x (ids c) -> Dfirst D x cs = ladd O (elen (rid c)) (D c x).
Proof.
  induction cs as [|c0 cs IH]; intros Hnd Hc Hx; [destruct Hc|].
  cbn [Dfirst]. destruct (mem_nat x (ids c0)) eqn:E.
  - apply mem_nat_In in E. assert (c0 = c); [|subst; auto].
    eapply (flat_map_NoDup_inj ids (c0 :: cs) c0 c x); simpl; auto.
  - destruct Hc as [->|Hc].
    + apply mem_nat_In in Hx. congruence.
    + apply IH; auto. simpl in Hnd. apply NoDup_app_iff in Hnd. tauto.
Qed.

Lemma D_child s c x :
  NoDup (ids s) -> In c (rch s) -> In x (ids c) -> D s x = ladd O (elen (rid c)) (D c x).
Proof.
  destruct s as [i cs]. cbn [rch]. intros Hnd Hc Hx. rewrite D_RT. apply Dfirst_child; auto.
  apply NoDup_ids_children in Hnd. tauto.
Qed.

(* ---- nodes of the tree in the arena -------------------------------------------------------------------- *)
Lemma sub_rep s : In s (subtrees r) -> exists p d, Rep t p d (rid s) s.
Proof.
  intros Hs. destruct (Rep_subtrees _ _ _ _ _ _ HR Hs) as [->|(_ & q & d' & H)]; eauto.
  rewrite (Rep_rid _ _ _ _ _ HR). eauto.
Qed.

Lemma sub_node s : In s (subtrees r) ->
  exists n, get t (rid s) = Ok n /\ nth_error t (rid s) = Some n /\ nchildren n = map rid (rch s).
Proof.
  intros Hs. destruct (sub_rep s Hs) as (p & d & H).
  destruct (RepLib.Rep_inv _ _ _ _ _ H) as (n & cs & Heq & Hn & Hdel & _ & _ & _ & HF & _).
  exists n. split; [apply get_Ok; auto|]. split; auto. rewrite Heq. cbn [rch].
  eapply Forall2_Rep_rid; eauto.
Qed.

Lemma sub_tip s n : In s (subtrees r) -> get t (rid s) = Ok n ->
  is_tip n = match rch s with [] => true | _ => false end.
Proof.
  intros Hs Hg. destruct (sub_node s Hs) as (n' & Hg' & _ & Hc). rewrite Hg in Hg'. injection Hg' as <-.
  unfold is_tip. rewrite Hc. destruct (rch s); reflexivity.
Qed.

Lemma sub_child s c : In s (subtrees r) -> In c (rch s) -> In c (subtrees r).
Proof. intros Hs Hc. eapply subtrees_trans; eauto. apply rch_subtrees; auto. Qed.

Lemma sub_elen s n : In s (subtrees r) -> get t (rid s) = Ok n ->
  elen (rid s) = match npedge n with Some e => e | None => l1 O end.
Proof.
  intros Hs Hg. apply get_Ok in Hg as [Hn _]. unfold elen, edge_of. rewrite Hn. reflexivity.
Qed.

Lemma sub_nodup s : In s (subtrees r) -> NoDup (ids s).
Proof. intros Hs. eapply subtrees_NoDup; eauto. Qed.

(* ---- ranks ------------------------------------------------------------------------------------------------ *)
Lemma leaf_order_perm : Permutation (leaf_order t) (rleaves r).
Proof.
  unfold leaf_order. eapply Permutation_trans; [apply stable_sort_perm|].
  eapply rep_get_leaves_perm; eauto.
Qed.

Lemma leaf_order_length : length (leaf_order t) = n_leaves t.
Proof.
  rewrite (Permutation_length leaf_order_perm). symmetry. eapply rep_n_leaves_good; eauto.
Qed.

Lemma rk_spec a : In a (rleaves r) -> index_of a (leaf_order t) = Some (rk t a) /\ rk t a < n_leaves t.
Proof.
  intros Ha. assert (Hin : In a (leaf_order t)).
  { eapply Permutation_in; [apply Permutation_sym, leaf_order_perm|auto]. }
  apply index_of_In in Hin as (k & Hk). unfold rk. rewrite Hk. split; auto.
  apply index_of_nth in Hk. apply nth_error_Some_lt in Hk. rewrite <- leaf_order_length. auto.
Qed.

Lemma rk_inj a b : In a (rleaves r) -> In b (rleaves r) -> rk t a = rk t b -> a = b.
Proof.
  intros Ha Hb E. destruct (rk_spec a Ha) as [Ia _]. destruct (rk_spec b Hb) as [Ib _].
  rewrite E in Ia. eapply index_of_inj; eauto.
Qed.

Lemma cell_lt a b : In a (rleaves r) -> In b (rleaves r) -> a <> b -> cell t a b < ncells t.
Proof.
  intros Ha Hb Hne. unfold cell, ncells. apply tril_lt_any.
  - intros E. apply Hne. apply rk_inj; auto.
  - apply rk_spec; auto.
  - apply rk_spec; auto.
Qed.

Lemma cell_inj a b a' b' :
  In a (rleaves r) -> In b (rleaves r) -> In a' (rleaves r) -> In b' (rleaves r) ->
  a <> b -> a' <> b' -> cell t a b = cell t a' b' -> (a = a' /\ b = b') \/ (a = b' /\ b = a').
Proof.
  intros Ha Hb Ha' Hb' Hne Hne' E. unfold cell in E.
  apply tril_inj_any in E as [[E1 E2]|[E1 E2]].
  - left. split; apply rk_inj; auto.
  - right. split; apply rk_inj; auto.
  - intros E'. apply Hne. apply rk_inj; auto.
  - intros E'. apply Hne'. apply rk_inj; auto.
Qed.

(* ---- caches ------------------------------------------------------------------------------------------------ *)
Lemma ksorted_NoDup (es : cache) : ksorted es -> NoDup (map fst es).
Proof.
  unfold ksorted. induction (map fst es) as [|k l IH]; intros H; [constructor|].
  apply StronglySorted_inv in H as [H1 H2]. constructor; auto.
  intros Hin. rewrite Forall_forall in H2. specialize (H2 _ Hin). lia.
Qed.

Lemma edge_get_in_keys (es : cache) k : In k (map fst es) <-> edge_get es k <> None.
Proof.
  split; [|apply edge_get_keys].
  induction es as [|[k0 v] es IH]; simpl; [tauto|]. intros [->|H].
  - rewrite Nat.eqb_refl. discriminate.
  - destruct (Nat.eqb k0 k); [discriminate|auto].
Qed.

Definition ins_all (g : L -> L) (cc nc : cache) : cache :=
  fold_left (fun acc (kv : nat * L) => edge_insert acc (fst kv) (g (snd kv))) cc nc.

Lemma ins_all_sorted g cc : forall nc, ksorted nc -> ksorted (ins_all g cc nc).
Proof.
  induction cc as [|[k v] cc IH]; intros nc H; simpl; auto. apply IH. apply ksorted_insert; auto.
Qed.

Lemma ins_all_get g cc k : NoDup (map fst cc) -> forall nc,
  edge_get (ins_all g cc nc) k =
  match edge_get cc k with Some v => Some (g v) | None => edge_get nc k end.
Proof.
  induction cc as [|[k0 v0] cc IH]; intros Hnd nc; simpl; [reflexivity|].
  simpl in Hnd. apply NoDup_cons_iff in Hnd as [Hk0 Hnd].
  unfold ins_all in *. rewrite IH by auto. destruct (Nat.eqb_spec k0 k) as [->|Hne].
  - destruct (edge_get cc k) eqn:E.
    + exfalso. apply Hk0. apply edge_get_in_keys. congruence.
    + apply edge_get_insert_eq.
  - destruct (edge_get cc k); auto. apply edge_get_insert_neq; auto.
Qed.

(* the cache of subtree s: keys = leaves of s (ascending), values = distance from the root of s *)
Definition cache_ok (s : rtree) (cc : cache) : Prop :=
  ksorted cc /\ forall k, edge_get cc k = if mem_nat k (rleaves s) then Some (D s k) else None.

Lemma cache_ok_keys s cc k : cache_ok s cc -> (In k (map fst cc) <-> In k (rleaves s)).
Proof.
  intros [_ H]. rewrite edge_get_in_keys, H. destruct (mem_nat k (rleaves s)) eqn:E.
  - apply mem_nat_In in E. split; auto. discriminate.
  - split; [congruence|]. intros Hin. apply mem_nat_In in Hin. congruence.
Qed.

Lemma cache_ok_get s cc k : cache_ok s cc -> In k (rleaves s) -> edge_get cc k = Some (D s k).
Proof. intros [_ H] Hk. rewrite H. apply mem_nat_In in Hk. rewrite Hk. reflexivity. Qed.

(* folding the caches of a list of children into the parent's cache *)
Definition merge_caches (cf : rtree -> cache) (cs : list rtree) (nc : cache) : cache :=
  fold_left (fun nc c => ins_all (ladd O (elen (rid c))) (cf c) nc) cs nc.

Lemma merge_caches_sorted cf cs : forall nc, ksorted nc -> ksorted (merge_caches cf cs nc).
Proof.
  induction cs as [|c cs IH]; intros nc H; simpl; auto. apply IH. apply ins_all_sorted; auto.
Qed.

Lemma merge_caches_get cf cs k :
  NoDup (flat_map rleaves cs) -> (forall c, In c cs -> cache_ok c (cf c)) -> forall nc,
  edge_get (merge_caches cf cs nc) k =
  match find (fun c => mem_nat k (rleaves c)) cs with
  | Some c => Some (ladd O (elen (rid c)) (D c k))
  | None => edge_get nc k
  end.
Proof.
  induction cs as [|c cs IH]; intros Hnd Hok nc; simpl; [reflexivity|].
  simpl in Hnd. apply NoDup_app_iff in Hnd as (_ & Hnd & Hdis).
  unfold merge_caches in *. rewrite IH by (auto; intros; apply Hok; right; auto).
  destruct (Hok c) as [Hs Hg]; [left; auto|].
  rewrite ins_all_get by (apply ksorted_NoDup; auto). rewrite Hg.
  destruct (mem_nat k (rleaves c)) eqn:E; auto.
  apply mem_nat_In in E. destruct (find _ cs) as [c'|] eqn:F; auto.
  exfalso. apply find_some in F as [Hc' Hk]. apply mem_nat_In in Hk.
  apply (Hdis k); auto. apply in_flat_map. eauto.
Qed.

Lemma cache_tip i : cache_ok (RT i []) [(i, l0 O)].
Proof.
  split.
  - unfold ksorted. simpl. repeat constructor.
  - intros k. simpl. rewrite (Nat.eqb_sym k i). destruct (Nat.eqb i k); reflexivity.
Qed.

Lemma cache_internal i cs cf :
  cs <> [] -> NoDup (ids (RT i cs)) -> (forall c, In c cs -> cache_ok c (cf c)) ->
  cache_ok (RT i cs) (merge_caches cf cs []).
Proof.
  intros Hne Hnd Hok. split.
  - apply merge_caches_sorted. unfold ksorted. simpl. constructor.
  - intros k. pose proof (NoDup_ids_children _ _ Hnd) as [Hcs _].
    rewrite merge_caches_get; auto; [|apply NoDup_forest_leaves; auto].
    rewrite rleaves_children by auto.
    destruct (find _ cs) as [c|] eqn:F.
    + apply find_some in F as [Hc Hk]. apply mem_nat_In in Hk.
      assert (Hin : In k (flat_map rleaves cs)) by (apply in_flat_map; eauto).
      apply mem_nat_In in Hin. rewrite Hin. f_equal. symmetry.
      apply (D_child (RT i cs) c k); auto. apply rleaves_incl_ids; auto.
    + destruct (mem_nat k (flat_map rleaves cs)) eqn:E; auto.
      apply mem_nat_In in E. apply in_flat_map in E as (c & Hc & Hk).
      apply (find_none _ _ F) in Hc. apply mem_nat_In in Hk. congruence.
Qed.

(* ---- one iteration of the main loop ------------------------------------------------------------------------- *)
Definition kc (caches : list (nat * cache)) (ch : nat) : cache :=
  match caches_get caches ch with Some cc => cc | None => [] end.

Definition caches_ok (done : nat -> Prop) (caches : list (nat * cache)) : Prop :=
  forall s, In s (subtrees r) -> done (rid s) ->
    exists cc, caches_get caches (rid s) = Some cc /\ cache_ok s cc.

(* the accumulator: a pair of leaves separated at a processed node holds its two downward distances,
   a pair separated at a node still to come holds 0.0 *)
Definition vec_ok (done : nat -> Prop) (vec : list L) : Prop :=
  length vec = ncells t /\
  (forall s c1 c2 a b, In s (subtrees r) -> done (rid s) -> branch s c1 c2 a b ->
     nth_error vec (cell t a b) = Some (ladd O (l0 O) (ladd O (D s a) (D s b)))) /\
  (forall s c1 c2 a b, In s (subtrees r) -> ~ done (rid s) -> branch s c1 c2 a b ->
     nth_error vec (cell t a b) = Some (l0 O)).

Definition Inv (done : nat -> Prop) (st : list L * list (nat * cache)) : Prop :=
  vec_ok done (fst st) /\ caches_ok done (snd st).

Lemma Inv_ext (P Q : nat -> Prop) st : (forall x, P x <-> Q x) -> Inv P st -> Inv Q st.
Proof.
  intros E [(H1 & H2 & H3) H4]. split; [split; [auto|split]|].
  - intros s c1 c2 a b Hs Hd. apply H2; auto. apply E; auto.
  - intros s c1 c2 a b Hs Hd. apply H3; auto. intros HP. apply Hd, E; auto.
  - intros s Hs Hd. apply H4; auto. apply E; auto.
Qed.

Lemma nc_fold caches s :
  In s (subtrees r) ->
  (forall c, In c (rch s) -> exists cc, caches_get caches (rid c) = Some cc) ->
  forall cs', incl cs' (rch s) -> forall nc,
  foldM (nc_step t caches) (map rid cs') nc = Ok (merge_caches (fun c => kc caches (rid c)) cs' nc).
Proof.
  intros Hs Hc. induction cs' as [|c cs' IH]; intros Hin nc; simpl; [reflexivity|].
  assert (Hcs : In c (rch s)) by (apply Hin; left; auto).
  pose proof (sub_child s c Hs Hcs) as Hcr.
  destruct (sub_node c Hcr) as (n & Hg & _ & _). destruct (Hc c Hcs) as (cc & Hcc).
  unfold nc_step at 1. rewrite Hg. cbn [bind]. rewrite Hcc.
  rewrite <- (sub_elen c n Hcr Hg). cbn [bind].
  unfold merge_caches in *. rewrite IH by (intros x Hx; apply Hin; right; auto).
  unfold kc at 3. rewrite Hcc. reflexivity.
Qed.

Lemma leaf_fold nc (f : nat -> L) l :
  (forall a b, In (a, b) l -> edge_get nc a = Some (f a) /\ edge_get nc b = Some (f b) /\
                              In a (rleaves r) /\ In b (rleaves r)) ->
  forall vec,
  foldM (leaf_step t nc) l vec =
  Ok (apply_ups O (map (fun lf => (cell t (fst lf) (snd lf), ladd O (f (fst lf)) (f (snd lf)))) l) vec).
Proof.
  induction l as [|[a b] l IH]; intros H vec; simpl; [reflexivity|].
  destruct (H a b) as (Ha & Hb & Hla & Hlb); [left; auto|].
  unfold leaf_step at 1. cbn [fst snd]. rewrite Ha, Hb.
  destruct (rk_spec a Hla) as [-> _]. destruct (rk_spec b Hlb) as [-> _]. cbn [bind].
  rewrite IH by (intros; apply H; right; auto). reflexivity.
Qed.

Definition upd (s : rtree) (lf : nat * nat) : nat * L :=
  (cell t (fst lf) (snd lf), ladd O (D s (fst lf)) (D s (snd lf))).

Definition pair_leaves (caches : list (nat * cache)) (pc : rtree * rtree) : list (nat * nat) :=
  list_prod (map fst (kc caches (rid (fst pc)))) (map fst (kc caches (rid (snd pc)))).

Lemma apply_ups_app (u1 u2 : list (nat * L)) vec : apply_ups O (u1 ++ u2) vec = apply_ups O u2 (apply_ups O u1 vec).
Proof. unfold apply_ups. apply fold_left_app. Qed.

Lemma pair_fold caches nc s :
  In s (subtrees r) ->
  (forall c, In c (rch s) -> exists cc, caches_get caches (rid c) = Some cc /\ cache_ok c cc) ->
  cache_ok s nc ->
  forall ps, incl ps (pairs (rch s)) -> forall vec,
  foldM (pair_step t caches nc) (map (fun pc => (rid (fst pc), rid (snd pc))) ps) vec =
  Ok (apply_ups O (map (upd s) (flat_map (pair_leaves caches) ps)) vec).
Proof.
  intros Hs Hc Hnc. induction ps as [|[c1 c2] ps IH]; intros Hin vec; simpl; [reflexivity|].
  assert (Hp : In (c1, c2) (pairs (rch s))) by (apply Hin; left; auto).
  apply in_pairs in Hp as [H1 H2].
  destruct (sub_node c1 (sub_child s c1 Hs H1)) as (n1 & Hg1 & _).
  destruct (sub_node c2 (sub_child s c2 Hs H2)) as (n2 & Hg2 & _).
  destruct (Hc c1 H1) as (cc1 & Hcc1 & Hok1). destruct (Hc c2 H2) as (cc2 & Hcc2 & Hok2).
  unfold pair_step at 1. cbn [fst snd]. rewrite Hg1, Hg2. cbn [bind]. rewrite Hcc1, Hcc2.
  rewrite (leaf_fold nc (D s)).
  - cbn [bind]. rewrite IH by (intros x Hx; apply Hin; right; auto).
    rewrite map_app, apply_ups_app.
    replace (pair_leaves caches (c1, c2)) with (list_prod (map fst cc1) (map fst cc2)); [reflexivity|].
    unfold pair_leaves, kc. cbn [fst snd]. rewrite Hcc1, Hcc2. reflexivity.
  - intros a b Hab. apply in_prod_iff in Hab as [Ha Hb].
    apply (cache_ok_keys c1 cc1 a Hok1) in Ha. apply (cache_ok_keys c2 cc2 b Hok2) in Hb.
    assert (Has : In a (rleaves s)).
    { eapply subtrees_leaves_incl; [apply rch_subtrees; exact H1|auto]. }
    assert (Hbs : In b (rleaves s)).
    { eapply subtrees_leaves_incl; [apply rch_subtrees; exact H2|auto]. }
    repeat split.
    + apply cache_ok_get; auto.
    + apply cache_ok_get; auto.
    + eapply subtrees_leaves_incl; eauto.
    + eapply subtrees_leaves_incl; eauto.
Qed.

Lemma branch_same_children s c1 c2 c1' c2' a b :
  NoDup (ids s) -> branch s c1 c2 a b -> branch s c1' c2' a b -> c1 = c1' /\ c2 = c2'.
Proof.
  intros Hnd H H'. destruct (branch_facts _ _ _ _ _ Hnd H) as (H1 & H2 & _).
  destruct (branch_facts _ _ _ _ _ Hnd H') as (H1' & H2' & _).
  destruct H as (_ & Ha & Hb). destruct H' as (_ & Ha' & Hb'). pose proof (rch_NoDup _ Hnd) as Hcs. split.
  - apply (flat_map_NoDup_inj ids (rch s) c1 c1' a); auto; apply rleaves_incl_ids; auto.
  - apply (flat_map_NoDup_inj ids (rch s) c2 c2' b); auto; apply rleaves_incl_ids; auto.
Qed.

Lemma branch_swap_false s c1 c2 c1' c2' a b :
  NoDup (ids s) -> branch s c1 c2 a b -> branch s c1' c2' b a -> False.
Proof.
  intros Hnd H H'. destruct (branch_facts _ _ _ _ _ Hnd H) as (H1 & H2 & _).
  destruct (branch_facts _ _ _ _ _ Hnd H') as (H1' & H2' & _).
  destruct H as (Hp & Ha & Hb). destruct H' as (Hp' & Hb' & Ha'). pose proof (rch_NoDup _ Hnd) as Hcs.
  assert (c1 = c2') by (apply (flat_map_NoDup_inj ids (rch s) c1 c2' a); auto; apply rleaves_incl_ids; auto).
  assert (c2 = c1') by (apply (flat_map_NoDup_inj ids (rch s) c2 c1' b); auto; apply rleaves_incl_ids; auto).
  subst. revert Hp'. apply pairs_asym; auto. apply NoDup_forest_children; auto.
Qed.

Section Step.
Variables (caches : list (nat * cache)) (s : rtree).
Hypothesis Hs : In s (subtrees r).
Hypothesis Hc : forall c, In c (rch s) -> exists cc, caches_get caches (rid c) = Some cc /\ cache_ok c cc.

Definition ups : list (nat * nat) := flat_map (pair_leaves caches) (pairs (rch s)).

Lemma kc_ok c : In c (rch s) -> cache_ok c (kc caches (rid c)).
Proof. intros H. destruct (Hc c H) as (cc & Hcc & Hok). unfold kc. rewrite Hcc. auto. Qed.

Lemma ups_in a b : In (a, b) ups <-> exists c1 c2, branch s c1 c2 a b.
Proof.
  unfold ups. rewrite in_flat_map. split.
  - intros ([c1 c2] & Hp & Hab). exists c1, c2. unfold pair_leaves in Hab. cbn [fst snd] in Hab.
    apply in_prod_iff in Hab as [Ha Hb]. pose proof (in_pairs _ _ _ Hp) as [H1 H2].
    split; auto. split.
    + apply (cache_ok_keys c1 _ a (kc_ok c1 H1)); auto.
    + apply (cache_ok_keys c2 _ b (kc_ok c2 H2)); auto.
  - intros (c1 & c2 & Hp & Ha & Hb). exists (c1, c2). split; auto.
    pose proof (in_pairs _ _ _ Hp) as [H1 H2]. unfold pair_leaves. cbn [fst snd]. apply in_prod_iff. split.
    + apply (cache_ok_keys c1 _ a (kc_ok c1 H1)); auto.
    + apply (cache_ok_keys c2 _ b (kc_ok c2 H2)); auto.
Qed.

Lemma ups_NoDup : NoDup ups.
Proof.
  pose proof (sub_nodup s Hs) as Hnd. pose proof (rch_NoDup _ Hnd) as Hcs.
  unfold ups. apply NoDup_flat_map_disj.
  - apply pairs_NoDup. apply NoDup_forest_children; auto.
  - intros [c1 c2] Hp. pose proof (in_pairs _ _ _ Hp) as [H1 H2]. unfold pair_leaves. cbn [fst snd].
    apply NoDup_list_prod'; apply ksorted_NoDup; [apply (kc_ok c1 H1)|apply (kc_ok c2 H2)].
  - intros [c1 c2] [c1' c2'] [a b] Hp Hp' Hab Hab'.
    assert (B : branch s c1 c2 a b).
    { pose proof (in_pairs _ _ _ Hp) as [H1 H2]. unfold pair_leaves in Hab. cbn [fst snd] in Hab.
      apply in_prod_iff in Hab as [Ha Hb]. split; auto. split.
      - apply (cache_ok_keys c1 _ a (kc_ok c1 H1)); auto.
      - apply (cache_ok_keys c2 _ b (kc_ok c2 H2)); auto. }
    assert (B' : branch s c1' c2' a b).
    { pose proof (in_pairs _ _ _ Hp') as [H1 H2]. unfold pair_leaves in Hab'. cbn [fst snd] in Hab'.
      apply in_prod_iff in Hab' as [Ha Hb]. split; auto. split.
      - apply (cache_ok_keys c1' _ a (kc_ok c1' H1)); auto.
      - apply (cache_ok_keys c2' _ b (kc_ok c2' H2)); auto. }
    destruct (branch_same_children _ _ _ _ _ _ _ Hnd B B') as [-> ->]. reflexivity.
Qed.

Lemma branch_leaves s' c1 c2 a b : In s' (subtrees r) -> branch s' c1 c2 a b ->
  In a (rleaves r) /\ In b (rleaves r) /\ a <> b.
Proof.
  intros Hs' B. destruct (branch_facts _ _ _ _ _ (sub_nodup s' Hs') B) as (_ & _ & _ & Hne & _ & _ & Ha & Hb).
  repeat split; auto; eapply subtrees_leaves_incl; eauto.
Qed.

Lemma ups_cells_NoDup : NoDup (map fst (map (upd s) ups)).
Proof.
  rewrite map_map. apply NoDup_map_inj_in; [apply ups_NoDup|].
  intros [a b] [a' b'] H H' E. unfold upd in E. cbn [fst snd] in E.
  apply ups_in in H as (c1 & c2 & B). apply ups_in in H' as (c1' & c2' & B').
  destruct (branch_leaves s _ _ _ _ Hs B) as (Ha & Hb & Hne).
  destruct (branch_leaves s _ _ _ _ Hs B') as (Ha' & Hb' & Hne').
  destruct (cell_inj a b a' b' Ha Hb Ha' Hb' Hne Hne' E) as [[-> ->]|[-> ->]]; auto.
  exfalso. eapply (branch_swap_false s); eauto. apply sub_nodup; auto.
Qed.

Lemma ups_hit vec c1 c2 a b h :
  branch s c1 c2 a b -> nth_error vec (cell t a b) = Some h ->
  nth_error (apply_ups O (map (upd s) ups) vec) (cell t a b) = Some (ladd O h (ladd O (D s a) (D s b))).
Proof.
  intros B Hh. apply apply_ups_hit; auto; [apply ups_cells_NoDup|].
  change (cell t a b, ladd O (D s a) (D s b)) with (upd s (a, b)). apply in_map. apply ups_in. eauto.
Qed.

Lemma ups_miss vec s' c1 c2 a b :
  In s' (subtrees r) -> s' <> s -> branch s' c1 c2 a b ->
  nth_error (apply_ups O (map (upd s) ups) vec) (cell t a b) = nth_error vec (cell t a b).
Proof.
  intros Hs' Hne B. apply apply_ups_other. rewrite map_map. intros Hin.
  apply in_map_iff in Hin as ([a' b'] & E & Hin). unfold upd in E. cbn [fst snd] in E.
  apply ups_in in Hin as (c1' & c2' & B').
  destruct (branch_leaves s' _ _ _ _ Hs' B) as (Ha & Hb & Hab).
  destruct (branch_leaves s _ _ _ _ Hs B') as (Ha' & Hb' & Hab').
  apply Hne. destruct (cell_inj a' b' a b Ha' Hb' Ha Hb Hab' Hab E) as [[-> ->]|[-> ->]].
  - eapply (branch_unique r s s'); eauto.
  - eapply (branch_unique r s s'); eauto.
Qed.

End Step.

Lemma dm_step_ok (done : nat -> Prop) st s :
  In s (subtrees r) -> ~ done (rid s) -> (forall c, In c (rch s) -> done (rid c)) ->
  Inv done st ->
  exists st', dm_step t st (rid s) = Ok st' /\ Inv (fun x => x = rid s \/ done x) st'.
Proof.
  intros Hs Hnd Hch [(Hlen & HV2 & HV3) HC]. destruct st as [vec caches]. cbn [fst snd] in *.
  assert (Hc : forall c, In c (rch s) -> exists cc, caches_get caches (rid c) = Some cc /\ cache_ok c cc).
  { intros c Hcs. apply HC; auto. eapply sub_child; eauto. }
  destruct (sub_node s Hs) as (n & Hg & _ & Hcn). pose proof (sub_tip s n Hs Hg) as Htip.
  pose proof (sub_nodup s Hs) as Hsn.
  set (nc0 := if is_tip n then [(rid s, l0 O)] else [] : cache).
  set (nc := merge_caches (fun c => kc caches (rid c)) (rch s) nc0).
  assert (Hnc : cache_ok s nc).
  { subst nc nc0. destruct s as [i cs]. cbn [rch rid] in *. destruct cs as [|c0 cs0].
    - rewrite Htip. simpl. apply cache_tip.
    - rewrite Htip. apply cache_internal; [discriminate|auto|].
      intros c Hcs. apply (kc_ok caches (RT i (c0 :: cs0))); auto. }
  exists (apply_ups O (map (upd s) (ups caches s)) vec, (rid s, nc) :: caches). split.
  - unfold dm_step. rewrite Hg. cbn [bind]. rewrite Hcn. fold nc0.
    rewrite (nc_fold caches s Hs) by (try apply incl_refl; intros c Hcs; destruct (Hc c Hcs) as (cc & ? & _); eauto).
    cbn [bind]. fold nc. rewrite pairs_map.
    rewrite (pair_fold caches nc s Hs Hc Hnc) by apply incl_refl. reflexivity.
  - split; cbn [fst snd].
    + split; [rewrite apply_ups_length; auto|]. split.
      * intros s' c1 c2 a b Hs' Hd B. destruct (Nat.eq_dec (rid s') (rid s)) as [E|Hne].
        -- assert (s' = s) by (apply (subtrees_rid_inj r); auto). subst s'.
           eapply ups_hit; eauto.
        -- rewrite (ups_miss caches s Hs Hc vec s' c1 c2 a b); auto; [|congruence].
           eapply HV2; eauto. destruct Hd as [E|Hd]; auto. congruence.
      * intros s' c1 c2 a b Hs' Hd B.
        assert (Hne : s' <> s) by (intros ->; apply Hd; left; auto).
        rewrite (ups_miss caches s Hs Hc vec s' c1 c2 a b); auto.
        eapply HV3; eauto.
    + intros s' Hs' Hd. cbn [caches_get]. destruct (Nat.eqb_spec (rid s) (rid s')) as [E|Hne].
      * exists nc. split; auto. assert (s' = s) by (apply (subtrees_rid_inj r); auto). subst. auto.
      * apply HC; auto. destruct Hd as [E|Hd]; auto. congruence.
Qed.

(* ---- the whole loop ------------------------------------------------------------------------------------------ *)
Lemma foldM_app {A S} (g : S -> A -> outcome S) l1 l2 : forall s,
  foldM g (l1 ++ l2) s = (s' <- foldM g l1 s ;; foldM g l2 s').
Proof.
  induction l1 as [|x l1 IH]; intros s; simpl; [reflexivity|].
  destruct (g s x); simpl; auto.
Qed.

Lemma Inv_init : Inv (fun _ => False) (repeat (l0 O) (ncells t), []).
Proof.
  split; cbn [fst snd]; [split; [apply repeat_length|split]|].
  - intros s c1 c2 a b _ [].
  - intros s c1 c2 a b Hs _ B. destruct (branch_leaves s c1 c2 a b Hs B) as (Ha & Hb & Hne).
    pose proof (cell_lt a b Ha Hb Hne) as Hlt.
    rewrite (nth_error_nth' _ (l0 O)) by (rewrite repeat_length; auto). f_equal.
    apply nth_repeat.
  - intros s _ [].
Qed.

Lemma dm_fold_ok l : child_first r l ->
  exists st, foldM (dm_step t) l (repeat (l0 O) (ncells t), []) = Ok st /\ Inv (fun x => In x l) st.
Proof.
  induction l as [|v l IH] using rev_ind; intros Hcf.
  - eexists. split; [reflexivity|]. eapply Inv_ext; [|apply Inv_init]. simpl. tauto.
  - destruct (IH (child_first_prefix _ _ _ Hcf)) as (st & Hf & HI).
    destruct (Hcf l v [] eq_refl) as (Hv & s & Hs & Hsv & Hch). subst v.
    destruct (dm_step_ok (fun x => In x l) st s Hs Hv Hch HI) as (st' & Hst & HI').
    exists st'. split.
    + rewrite foldM_app, Hf. cbn [bind foldM]. rewrite Hst. reflexivity.
    + eapply Inv_ext; [|exact HI']. intros x. rewrite in_app_iff. simpl. intuition.
Qed.

(* item 2: the bottom-up invariant at the end of the loop *)
Theorem dm_run :
  exists vec caches,
    foldM (dm_step t) (rev (level r)) (repeat (l0 O) (ncells t), []) = Ok (vec, caches) /\
    length vec = ncells t /\
    (forall s c1 c2 a b, In s (subtrees r) -> branch s c1 c2 a b ->
       nth_error vec (cell t a b) = Some (ladd O (l0 O) (ladd O (D s a) (D s b)))) /\
    (forall s, In s (subtrees r) -> exists cc, caches_get caches (rid s) = Some cc /\ cache_ok s cc).
Proof.
  destruct (dm_fold_ok (rev (level r)) (rev_level_child_first r HN)) as ([vec caches] & Hf & (Hl & HV2 & _) & HC).
  cbn [fst snd] in *. exists vec, caches. split; auto. split; auto.
  assert (Hall : forall s, In s (subtrees r) -> In (rid s) (rev (level r))).
  { intros s Hs. rewrite <- in_rev. eapply Permutation_in; [apply pre_level_perm|].
    rewrite <- map_rid_subtrees. apply in_map; auto. }
  split.
  - intros s c1 c2 a b Hs B. eapply HV2; eauto.
  - intros s Hs. apply HC; auto.
Qed.

(* ---- the result of distance_matrix ----------------------------------------------------------------------------- *)
Lemma mapM_err {A B} (g : A -> outcome B) (f : A -> B) e l :
  (forall x, In x l -> g x = Ok (f x) \/ g x = Err e) -> (exists x, In x l /\ g x = Err e) ->
  mapM g l = Err e.
Proof.
  induction l as [|y l IH]; intros H (x & Hx & Hg); [destruct Hx|]. simpl.
  destruct (H y (or_introl eq_refl)) as [E|E]; rewrite E; cbn [bind]; auto.
  destruct Hx as [->|Hx]; [congruence|].
  rewrite IH; auto. intros z Hz. apply H. right; auto. eauto.
Qed.

Lemma leaf_name_cases i : In i (rleaves r) ->
  match lname t i with Some x => leaf_name t i = Ok x | None => leaf_name t i = Err UnnamedLeaves end.
Proof.
  intros Hi. destruct (rep_leaf_live t root r HR i Hi) as (n & Hg & Hn).
  unfold leaf_name, lname. rewrite Hg, Hn. destruct (nname n); reflexivity.
Qed.

Lemma n_leaves_pos : n_leaves t <> 0.
Proof.
  rewrite (rep_n_leaves_good t root r HR HN HL). pose proof (Splits.rleaves_nonempty r).
  destruct (rleaves r); simpl; congruence.
Qed.

Lemma dm_reduce :
  distance_matrix O t =
  (names <- mapM (leaf_name t) (leaf_order t) ;;
   '(vec, _) <- foldM (dm_step t) (rev (level r)) (repeat (l0 O) (ncells t), []) ;;
   Ok (mkDmat (length names) names vec)).
Proof.
  rewrite dm_unfold. pose proof n_leaves_pos as Hn. apply Nat.eqb_neq in Hn. rewrite Hn.
  destruct (mapM (leaf_name t) (leaf_order t)); cbn [bind]; auto.
  rewrite (Stats.get_root_refines t root r HR HL). cbn [bind].
  rewrite (levelorder_refines t None 0 root r HR HN). reflexivity.
Qed.

(* item 6 *)
Theorem dm_unnamed : (exists i, In i (rleaves r) /\ lname t i = None) ->
  distance_matrix O t = Err UnnamedLeaves.
Proof.
  intros (i & Hi & Hnone). rewrite dm_reduce.
  rewrite (mapM_err (leaf_name t) (lab t) UnnamedLeaves); [reflexivity| |].
  - intros x Hx. apply (Permutation_in _ leaf_order_perm) in Hx.
    pose proof (leaf_name_cases x Hx) as H. unfold lab. destruct (lname t x); auto.
  - exists i. split.
    + eapply Permutation_in; [apply Permutation_sym, leaf_order_perm|auto].
    + pose proof (leaf_name_cases i Hi) as H. rewrite Hnone in H. auto.
Qed.

Section Named.
Hypothesis Hnamed : forall i, In i (rleaves r) -> lname t i <> None.

Lemma leaf_named i : In i (rleaves r) -> exists n, get t i = Ok n /\ nname n = Some (lab t i).
Proof.
  intros Hi. destruct (rep_leaf_live t root r HR i Hi) as (n & Hg & Hn). exists n. split; auto.
  specialize (Hnamed i Hi). unfold lab. unfold lname in *. rewrite Hn in *. destruct (nname n); congruence.
Qed.

Lemma names_ok : mapM (leaf_name t) (leaf_order t) = Ok (map (lab t) (leaf_order t)).
Proof.
  apply Stats.mapM_ok. intros x Hx. apply (Permutation_in _ leaf_order_perm) in Hx.
  pose proof (leaf_name_cases x Hx) as H. specialize (Hnamed x Hx). unfold lab.
  destruct (lname t x); congruence.
Qed.

(* item 1 (taxa): the reported taxa are the sorted leaf names *)
Lemma taxa_sorted : map (lab t) (leaf_order t) = stable_sort str_leb (map (lab t) (get_leaves t)).
Proof.
  unfold leaf_order. rewrite <- map_stable_sort. f_equal. apply stable_sort_ext_in.
  intros a b Ha Hb. apply (rep_in_get_leaves t root r HR HL) in Ha, Hb.
  destruct (leaf_named a Ha) as (na & Hga & Hna). destruct (leaf_named b Hb) as (nb & Hgb & Hnb).
  unfold name_leb. rewrite Hga, Hgb, Hna, Hnb. reflexivity.
Qed.

Theorem dm_result :
  exists m, distance_matrix O t = Ok m /\
    mtaxa m = stable_sort str_leb (map (lab t) (get_leaves t)) /\
    msize m = n_leaves t /\
    length (mcells m) = n_leaves t * (n_leaves t - 1) / 2 /\
    (forall s c1 c2 a b, In s (subtrees r) -> branch s c1 c2 a b ->
       nth_error (mcells m) (tril_idx (rk t a) (rk t b)) = Some (ladd O (l0 O) (ladd O (D s a) (D s b)))).
Proof.
  destruct dm_run as (vec & caches & Hf & Hl & Hcells & _).
  exists (mkDmat (length (map (lab t) (leaf_order t))) (map (lab t) (leaf_order t)) vec).
  split; [rewrite dm_reduce, names_ok; cbn [bind]; rewrite Hf; reflexivity|].
  cbn [mtaxa msize mcells]. split; [apply taxa_sorted|]. split; [rewrite map_length; apply leaf_order_length|].
  split; auto.
Qed.

End Named.

(* item 6: whatever the names and lengths, no panic and no fuel exhaustion *)
Theorem dm_no_panic : (exists m, distance_matrix O t = Ok m) \/ distance_matrix O t = Err UnnamedLeaves.
Proof.
  destruct (existsb (fun i => match lname t i with None => true | Some _ => false end) (rleaves r)) eqn:E.
  - right. apply dm_unnamed. apply existsb_exists in E as (i & Hi & Hn). exists i. split; auto.
    destruct (lname t i); [discriminate|auto].
  - left. destruct dm_result as (m & Hm & _); eauto.
    intros i Hi Hn. assert (existsb (fun i => match lname t i with None => true | Some _ => false end) (rleaves r) = true); [|congruence].
    apply existsb_exists. exists i. split; auto. rewrite Hn. auto.
Qed.

(* ---- D is a path sum; connection with root paths and get_distance ------------------------------------------------ *)
Definition Dpath (q : list nat) : L := fold_right (fun y acc => ladd O (elen y) acc) (l0 O) q.

Lemma Dfirst_notin x cs : (forall c, In c cs -> ~ In x (ids c)) -> Dfirst D x cs = l0 O.
Proof.
  induction cs as [|c cs IH]; intros H; cbn [Dfirst]; [reflexivity|].
  destruct (mem_nat x (ids c)) eqn:E.
  - apply mem_nat_In in E. exfalso. apply (H c); simpl; auto.
  - apply IH. intros c' Hc'. apply H. right; auto.
Qed.

Lemma D_rpath : forall s x q, NoDup (ids s) -> rpath x s = Some q -> D s x = Dpath (tl q).
Proof.
  induction s as [i cs IH] using RepLib.rtree_ind'. intros x q Hnd Hq.
  pose proof (NoDup_ids_children _ _ Hnd) as [Hcs Hi].
  rewrite rpath_RT in Hq. rewrite D_RT. destruct (Nat.eqb_spec i x) as [->|Hne].
  - injection Hq as <-. simpl. apply Dfirst_notin. intros c Hc Hx. apply Hi. apply in_flat_map. eauto.
  - destruct (rpath_first x cs) as [qc|] eqn:E; [|discriminate]. simpl in Hq. injection Hq as <-.
    apply rpath_first_Some in E as (c & Hc & Hqc). cbn [tl].
    rewrite (Dfirst_child x cs c Hcs Hc) by (eapply rpath_In; eauto).
    rewrite Forall_forall in IH. rewrite (IH c Hc x qc) by (auto; eapply NoDup_flat_map_in; eauto).
    destruct (rpath_head _ _ _ Hqc) as (q' & ->). reflexivity.
Qed.

Lemma sub_rpath : forall r0 s, NoDup (ids r0) -> In s (subtrees r0) ->
  exists pc, forall x q, rpath x s = Some q -> rpath x r0 = Some (pc ++ q).
Proof.
  induction r0 as [i cs IH] using RepLib.rtree_ind'. intros s Hnd Hs.
  rewrite subtrees_RT in Hs. destruct Hs as [<-|Hs]; [exists []; auto|].
  apply in_flat_map in Hs as (c & Hc & Hs). pose proof (NoDup_ids_children _ _ Hnd) as [Hcs Hi].
  rewrite Forall_forall in IH. destruct (IH c Hc s) as (pc & Hpc); auto; [eapply NoDup_flat_map_in; eauto|].
  exists (i :: pc). intros x q Hq. specialize (Hpc x q Hq). rewrite rpath_RT.
  destruct (Nat.eqb_spec i x) as [->|Hne].
  - exfalso. apply Hi. apply in_flat_map. exists c. split; auto. eapply rpath_In; eauto.
  - rewrite (rpath_first_unique x cs c _ Hcs Hc Hpc). reflexivity.
Qed.

Lemma cpl_heads x y qa qb : x <> y -> cpl (x :: qa) (y :: qb) = 0.
Proof. intros H. simpl. apply Nat.eqb_neq in H. rewrite H. reflexivity. Qed.

Lemma lcp_heads x y qa qb : x <> y -> lcp (x :: qa) (y :: qb) = [].
Proof. intros H. simpl. apply Nat.eqb_neq in H. rewrite H. reflexivity. Qed.

Lemma skipn_app_exact {A} (l1 l2 : list A) : skipn (length l1) (l1 ++ l2) = l2.
Proof. induction l1; simpl; auto. Qed.

(* at the separating node s of a and b: the two downward paths qa, qb (below s, ending in a and b) carry
   the two cached distances; get_distance walks exactly qa ++ qb; s is the reported common ancestor *)
Lemma branch_paths s c1 c2 a b : In s (subtrees r) -> branch s c1 c2 a b ->
  exists qa qb, D s a = Dpath qa /\ D s b = Dpath qb /\
    qa <> [] /\ qb <> [] /\ (forall x, In x (qa ++ qb) -> In x (ids r) /\ x <> root) /\
    get_distance O t a b = Ok (path_len O (map (edge_of t) (qa ++ qb)), length qa + length qb) /\
    get_common_ancestor t a b = Ok (rid s).
Proof.
  intros Hs B. pose proof (sub_nodup s Hs) as Hnd.
  destruct (branch_facts _ _ _ _ _ Hnd B) as (H1 & H2 & Hne & Hab & Has & Hbs & _).
  destruct B as (_ & Ha & Hb). apply rleaves_incl_ids in Ha, Hb.
  apply rpath_total in Ha as (qa & Hqa). apply rpath_total in Hb as (qb & Hqb).
  destruct s as [i cs]. cbn [rch rid] in *. pose proof (NoDup_ids_children _ _ Hnd) as [Hcs Hi].
  assert (Hsa : rpath a (RT i cs) = Some (i :: qa)).
  { rewrite rpath_RT. destruct (Nat.eqb_spec i a) as [->|_].
    - exfalso. apply Hi. apply in_flat_map. exists c1. split; auto. eapply rpath_In; eauto.
    - rewrite (rpath_first_unique a cs c1 _ Hcs H1 Hqa). reflexivity. }
  assert (Hsb : rpath b (RT i cs) = Some (i :: qb)).
  { rewrite rpath_RT. destruct (Nat.eqb_spec i b) as [->|_].
    - exfalso. apply Hi. apply in_flat_map. exists c2. split; auto. eapply rpath_In; eauto.
    - rewrite (rpath_first_unique b cs c2 _ Hcs H2 Hqb). reflexivity. }
  exists qa, qb.
  split; [rewrite (D_rpath _ _ _ Hnd Hsa); reflexivity|].
  split; [rewrite (D_rpath _ _ _ Hnd Hsb); reflexivity|].
  destruct (rpath_head _ _ _ Hqa) as (qa' & Ea). destruct (rpath_head _ _ _ Hqb) as (qb' & Eb).
  split; [rewrite Ea; discriminate|]. split; [rewrite Eb; discriminate|].
  assert (Hrid : rid c1 <> rid c2) by (intros E; apply Hne; eapply rid_inj_in; eauto).
  destruct (sub_rpath r _ HN Hs) as (pc & Hpc).
  pose proof (Hpc _ _ Hsa) as Hra. pose proof (Hpc _ _ Hsb) as Hrb.
  pose proof (Hpc i [i] (rpath_root (RT i cs))) as Hri.
  assert (Hcpl : cpl (pc ++ i :: qa) (pc ++ i :: qb) = length (pc ++ [i])).
  { rewrite cpl_app. simpl. rewrite Nat.eqb_refl, Ea, Eb, cpl_heads by auto. rewrite app_length. simpl. lia. }
  assert (Hin_r : forall x, In x (qa ++ qb) -> In x (ids r) /\ x <> root).
  { assert (Hroot : forall q x, rpath x r = Some (pc ++ i :: q) -> forall y, In y q -> In y (ids r) /\ y <> root).
    { intros q x Hx y Hy. split.
      - apply (rpath_incl _ _ _ Hx). apply in_or_app. right. right. auto.
      - pose proof (rpath_NoDup _ _ _ HN Hx) as Hn. destruct (rpath_head _ _ _ Hx) as (q' & Eq).
        rewrite (Rep_rid _ _ _ _ _ HR) in Eq. intros ->.
        change (pc ++ i :: q) with (pc ++ [i] ++ q) in *. rewrite app_assoc in *.
        apply NoDup_app_iff in Hn as (_ & _ & Hd). apply (Hd root); auto.
        destruct pc; simpl in *; injection Eq as -> _; auto. }
    intros x Hx. apply in_app_or in Hx as [Hx|Hx]; [eapply (Hroot qa a)|eapply (Hroot qb b)]; eauto. }
  split; auto.
  assert (Hina : In a (ids r)) by (eapply rpath_In; eauto).
  assert (Hinb : In b (ids r)) by (eapply rpath_In; eauto).
  split.
  - destruct (dist_refines O t root r a b HR HN Hina Hinb) as (pa & pb & Hpa & Hpb & Hd).
    rewrite Hra in Hpa. rewrite Hrb in Hpb. injection Hpa as <-. injection Hpb as <-.
    cbv zeta in Hd. rewrite Hcpl in Hd.
    change (pc ++ i :: qa) with (pc ++ [i] ++ qa) in Hd. change (pc ++ i :: qb) with (pc ++ [i] ++ qb) in Hd.
    rewrite !app_assoc, !skipn_app_exact in Hd. exact Hd.
  - destruct (lca_is_lcp t root r a b _ _ HR HN Hra Hrb) as (c & Hc & Hrc). rewrite Hc. f_equal.
    rewrite lcp_app in Hrc. simpl in Hrc. rewrite Nat.eqb_refl, Ea, Eb, lcp_heads in Hrc by auto.
    destruct (rpath_last _ _ _ Hrc) as (q' & Eq). apply app_last_inj in Eq as [_ <-]. reflexivity.
Qed.

(* 1.0 + (1.0 + ... + 0.0), k times: the distance along k branches without lengths *)
Definition lrep (k : nat) : L := Nat.iter k (ladd O (l1 O)) (l0 O).

Lemma Dpath_topo q : (forall x, In x q -> edge_of t x = None) -> Dpath q = lrep (length q).
Proof.
  induction q as [|x q IH]; intros H; simpl; [reflexivity|].
  rewrite IH by (intros; apply H; right; auto). unfold elen. rewrite (H x) by (left; auto). reflexivity.
Qed.

Lemma NoDup_map_inj {A B} (f : A -> B) l x y : NoDup (map f l) -> In x l -> In y l -> f x = f y -> x = y.
Proof.
  induction l as [|z l IH]; intros Hnd Hx Hy E; [destruct Hx|]. simpl in Hnd.
  apply NoDup_cons_iff in Hnd as [Hz Hnd]. destruct Hx as [->|Hx], Hy as [->|Hy]; auto.
  - exfalso. apply Hz. rewrite E. apply in_map; auto.
  - exfalso. apply Hz. rewrite <- E. apply in_map; auto.
Qed.

(* ---- algebra: commutative monoid laws as explicit hypotheses ---------------------------------------------------------- *)
Section Laws.
Hypothesis ladd_assoc : forall x y z, ladd O x (ladd O y z) = ladd O (ladd O x y) z.
Hypothesis ladd_comm : forall x y, ladd O x y = ladd O y x.
Hypothesis ladd_0_l : forall x, ladd O (l0 O) x = x.

Lemma ladd_0_r x : ladd O x (l0 O) = x.
Proof. rewrite ladd_comm. apply ladd_0_l. Qed.

Lemma fold_left_right (l : list L) : forall a,
  fold_left (ladd O) l a = ladd O a (fold_right (ladd O) (l0 O) l).
Proof.
  induction l as [|x l IH]; intros a; simpl; [symmetry; apply ladd_0_r|].
  rewrite IH, ladd_assoc. reflexivity.
Qed.

Lemma fold_right_ladd_app (la lb : list L) :
  fold_right (ladd O) (l0 O) (la ++ lb) = ladd O (fold_right (ladd O) (l0 O) la) (fold_right (ladd O) (l0 O) lb).
Proof.
  induction la as [|x la IH]; simpl; [symmetry; apply ladd_0_l|]. rewrite IH, ladd_assoc. reflexivity.
Qed.

Lemma Dpath_fold q : Dpath q = fold_right (ladd O) (l0 O) (map elen q).
Proof. induction q as [|x q IH]; simpl; [reflexivity|]. rewrite <- IH. reflexivity. Qed.

Lemma present_elen q : (forall x, In x q -> edge_of t x <> None) ->
  present (map (edge_of t) q) = map elen q.
Proof.
  induction q as [|x q IH]; intros H; simpl; [reflexivity|].
  rewrite IH by (intros; apply H; right; auto). unfold elen.
  destruct (edge_of t x) eqn:E; [reflexivity|]. exfalso. apply (H x); simpl; auto.
Qed.

Lemma path_len_Dpath qa qb : (forall x, In x (qa ++ qb) -> edge_of t x <> None) ->
  path_len O (map (edge_of t) (qa ++ qb)) = Some (ladd O (Dpath qa) (Dpath qb)).
Proof.
  intros H. rewrite path_len_Some.
  - rewrite present_elen by auto. rewrite fold_left_right, ladd_0_l, map_app, fold_right_ladd_app.
    rewrite !Dpath_fold. reflexivity.
  - intros Hin. apply in_map_iff in Hin as (x & Hx & Hin). apply (H x); auto.
Qed.

Lemma lrep_add n m : lrep (n + m) = ladd O (lrep n) (lrep m).
Proof.
  induction n as [|n IH]; simpl; [symmetry; apply ladd_0_l|].
  unfold lrep in *. simpl. rewrite IH, ladd_assoc. reflexivity.
Qed.

(* every pair of distinct leaves: separating node, common ancestor, the two downward paths, the query *)
Lemma pair_paths a b : In a (rleaves r) -> In b (rleaves r) -> a <> b ->
  exists s c1 c2 qa qb, In s (subtrees r) /\ (branch s c1 c2 a b \/ branch s c1 c2 b a) /\
    D s a = Dpath qa /\ D s b = Dpath qb /\ qa <> [] /\ qb <> [] /\
    (forall x, In x (qa ++ qb) -> In x (ids r) /\ x <> root) /\
    get_distance O t a b = Ok (path_len O (map (edge_of t) (qa ++ qb)), length qa + length qb) /\
    get_common_ancestor t a b = Ok (rid s).
Proof.
  intros Ha Hb Hne. destruct (branch_exists r a b Ha Hb Hne) as (s & c1 & c2 & Hs & [B|B]).
  - destruct (branch_paths s c1 c2 a b Hs B) as (qa & qb & H1 & H2 & H3 & H4 & H5 & H6 & H7).
    exists s, c1, c2, qa, qb. repeat split; auto; apply H5; auto.
  - destruct (branch_paths s c1 c2 b a Hs B) as (qb & qa & H1 & H2 & H3 & H4 & H5 & H6 & H7).
    exists s, c1, c2, qa, qb.
    assert (Hia : In a (ids r)) by (apply rleaves_incl_ids; auto).
    assert (Hib : In b (ids r)) by (apply rleaves_incl_ids; auto).
    split; auto. split; auto. split; auto. split; auto. split; auto. split; auto. split.
    + intros x Hx. apply H5. apply in_app_or in Hx. apply in_or_app. tauto.
    + split.
      * rewrite (dist_sym O ladd_assoc ladd_comm ladd_0_l t root r a b HR HN Hia Hib), H6.
        rewrite !map_app, (path_len_app_comm O ladd_assoc ladd_comm ladd_0_l). f_equal. f_equal. lia.
      * rewrite (lca_sym t root r a b HR HN Hia Hib). auto.
Qed.

Section Final.
Hypothesis Hnamed : forall i, In i (rleaves r) -> lname t i <> None.
Hypothesis Huniq : NoDup (map (lab t) (rleaves r)).

Lemma rank_name a : In a (rleaves r) ->
  find_str (lab t a) (map (lab t) (leaf_order t)) = Some (rk t a).
Proof.
  intros Ha. apply find_str_nodup.
  - eapply Permutation_NoDup; [apply Permutation_map, Permutation_sym, leaf_order_perm|exact Huniq].
  - apply map_nth_error. apply index_of_nth. apply rk_spec; auto.
Qed.

Lemma lab_inj a b : In a (rleaves r) -> In b (rleaves r) -> lab t a = lab t b -> a = b.
Proof. intros Ha Hb E. eapply (NoDup_map_inj (lab t)); eauto. Qed.

(* cell lookup, by rank and by name *)
Lemma dm_lookup m : distance_matrix O t = Ok m ->
  mtaxa m = stable_sort str_leb (map (lab t) (get_leaves t)) /\
  msize m = n_leaves t /\ length (mcells m) = n_leaves t * (n_leaves t - 1) / 2 /\
  forall a b, In a (rleaves r) -> In b (rleaves r) -> a <> b ->
    exists s, In s (subtrees r) /\ get_common_ancestor t a b = Ok (rid s) /\
      nth_error (mcells m) (tril_idx (rk t a) (rk t b)) = Some (ladd O (D s a) (D s b)) /\
      Matrix.dm_get O m (lab t a) (lab t b) = Ok (ladd O (D s a) (D s b)).
Proof.
  intros Hm. destruct (dm_result Hnamed) as (m' & Hm' & Htaxa & Hsize & Hlen & Hcells).
  rewrite Hm in Hm'. injection Hm' as <-. repeat split; auto.
  intros a b Ha Hb Hne.
  destruct (pair_paths a b Ha Hb Hne) as (s & c1 & c2 & qa & qb & Hs & HB & _ & _ & _ & _ & _ & _ & Hlca).
  exists s. split; auto. split; auto.
  assert (Hcell : nth_error (mcells m) (tril_idx (rk t a) (rk t b)) = Some (ladd O (D s a) (D s b))).
  { destruct HB as [B|B].
    - rewrite (Hcells s c1 c2 a b Hs B), ladd_0_l. reflexivity.
    - rewrite tril_sym, (Hcells s c1 c2 b a Hs B), ladd_0_l, ladd_comm. reflexivity. }
  split; auto.
  rewrite (get_spec O m (lab t a) (lab t b) (rk t a) (rk t b)).
  - rewrite Hcell. reflexivity.
  - intros E. apply Hne. apply lab_inj; auto.
  - rewrite Htaxa, <- (taxa_sorted Hnamed). apply rank_name; auto.
  - rewrite Htaxa, <- (taxa_sorted Hnamed). apply rank_name; auto.
  - rewrite Hsize. apply rk_spec; auto.
  - rewrite Hsize. apply rk_spec; auto.
Qed.

(* item 3: all branch lengths present -> every cell is the path length, as reported by get_distance *)
Theorem dm_cell m :
  (forall x, In x (ids r) -> x <> root -> edge_of t x <> None) ->
  distance_matrix O t = Ok m ->
  forall a b, In a (rleaves r) -> In b (rleaves r) -> a <> b ->
  exists s d cnt, In s (subtrees r) /\ get_common_ancestor t a b = Ok (rid s) /\
    d = ladd O (D s a) (D s b) /\
    get_distance O t a b = Ok (Some d, cnt) /\
    nth_error (mcells m) (tril_idx (rk t a) (rk t b)) = Some d /\
    Matrix.dm_get O m (lab t a) (lab t b) = Ok d.
Proof.
  intros Hlens Hm a b Ha Hb Hne.
  destruct (dm_lookup m Hm) as (_ & _ & _ & Hlk). destruct (Hlk a b Ha Hb Hne) as (s & Hs & Hlca & Hcell & Hget).
  destruct (pair_paths a b Ha Hb Hne) as (s' & c1 & c2 & qa & qb & Hs' & _ & Da & Db & _ & _ & Hq & Hd & Hlca').
  rewrite Hlca in Hlca'. injection Hlca' as E. assert (s' = s) by (apply (subtrees_rid_inj r); auto). subst s'.
  exists s, (ladd O (D s a) (D s b)), (length qa + length qb). repeat split; auto.
  rewrite Hd, path_len_Dpath, Da, Db; auto. intros x Hx. destruct (Hq x Hx). apply Hlens; auto.
Qed.

(* item 4: no branch length at all -> every cell is the number of branches of the path (as a sum of 1.0's) *)
Theorem dm_topo m :
  (forall x, In x (ids r) -> edge_of t x = None) ->
  distance_matrix O t = Ok m ->
  forall a b, In a (rleaves r) -> In b (rleaves r) -> a <> b ->
  exists s ka kb, In s (subtrees r) /\ get_common_ancestor t a b = Ok (rid s) /\
    D s a = lrep ka /\ D s b = lrep kb /\
    get_distance O t a b = Ok (None, ka + kb) /\
    nth_error (mcells m) (tril_idx (rk t a) (rk t b)) = Some (lrep (ka + kb)) /\
    Matrix.dm_get O m (lab t a) (lab t b) = Ok (lrep (ka + kb)).
Proof.
  intros Hnol Hm a b Ha Hb Hne.
  destruct (dm_lookup m Hm) as (_ & _ & _ & Hlk). destruct (Hlk a b Ha Hb Hne) as (s & Hs & Hlca & Hcell & Hget).
  destruct (pair_paths a b Ha Hb Hne) as (s' & c1 & c2 & qa & qb & Hs' & _ & Da & Db & Hqa & _ & Hq & Hd & Hlca').
  rewrite Hlca in Hlca'. injection Hlca' as E. assert (s' = s) by (apply (subtrees_rid_inj r); auto). subst s'.
  assert (Ta : Dpath qa = lrep (length qa)).
  { apply Dpath_topo. intros x Hx. apply Hnol. apply Hq. apply in_or_app; auto. }
  assert (Tb : Dpath qb = lrep (length qb)).
  { apply Dpath_topo. intros x Hx. apply Hnol. apply Hq. apply in_or_app; auto. }
  exists s, (length qa), (length qb). rewrite lrep_add, <- Ta, <- Tb, <- Da, <- Db.
  repeat split; auto; try congruence.
  rewrite Hd. f_equal. f_equal. apply path_len_None. destruct qa as [|x qa]; [congruence|].
  simpl. left. apply Hnol. apply (Hq x). simpl; auto.
Qed.

End Final.
End Laws.

(* item 1 *)
Theorem dm_taxa m : distance_matrix O t = Ok m ->
  mtaxa m = stable_sort str_leb (map (lab t) (get_leaves t)) /\
  msize m = n_leaves t /\
  length (mcells m) = n_leaves t * (n_leaves t - 1) / 2.
Proof.
  intros Hm.
  destruct (existsb (fun i => match lname t i with None => true | Some _ => false end) (rleaves r)) eqn:E.
  - exfalso. apply existsb_exists in E as (i & Hi & Hn).
    rewrite dm_unnamed in Hm; [discriminate|]. exists i. split; auto. destruct (lname t i); [discriminate|auto].
  - assert (Hnamed : forall i, In i (rleaves r) -> lname t i <> None).
    { intros i Hi Hn. assert (existsb (fun i => match lname t i with None => true | Some _ => false end) (rleaves r) = true); [|congruence].
      apply existsb_exists. exists i. split; auto. rewrite Hn. auto. }
    destruct (dm_result Hnamed) as (m' & Hm' & H1 & H2 & H3 & _). rewrite Hm in Hm'. injection Hm' as <-. auto.
Qed.

(* the cache of a processed node is exactly the key-sorted list of (leaf, distance) *)
Lemma edge_get_In (es : cache) k v : NoDup (map fst es) -> In (k, v) es -> edge_get es k = Some v.
Proof.
  induction es as [|[k0 v0] es IH]; intros Hnd Hin; [destruct Hin|]. simpl in *.
  apply NoDup_cons_iff in Hnd as [Hk Hnd]. destruct Hin as [[= -> ->]|Hin].
  - rewrite Nat.eqb_refl. reflexivity.
  - destruct (Nat.eqb_spec k0 k) as [->|_]; auto. exfalso. apply Hk.
    change k with (fst (k, v)). apply in_map; auto.
Qed.

Theorem cache_ok_shape s cc : NoDup (ids s) -> cache_ok s cc ->
  cc = map (fun k => (k, D s k)) (map fst cc) /\ StronglySorted lt (map fst cc) /\
  Permutation (map fst cc) (rleaves s).
Proof.
  intros Hnd Hok. pose proof Hok as [Hs Hg]. pose proof (ksorted_NoDup cc Hs) as Hk. split; [|split; auto].
  - rewrite map_map. rewrite <- (map_id cc) at 1. apply map_ext_in. intros [k v] Hin. cbn [fst]. f_equal.
    pose proof (edge_get_In cc k v Hk Hin) as E.
    assert (Hkl : In k (rleaves s)).
    { apply (cache_ok_keys s cc k Hok). change k with (fst (k, v)). apply in_map; auto. }
    rewrite (cache_ok_get s cc k Hok Hkl) in E. congruence.
  - apply NoDup_Permutation; auto; [apply rleaves_NoDup; auto|]. intros k. apply cache_ok_keys; auto.
Qed.

(* ================================================================================================ *)
(* 4. the recursive variant: one undirected depth-first walk per tip                                 *)
(* ================================================================================================ *)
Lemma foldM_map {A B S} (g : S -> B -> outcome S) (h : A -> B) l : forall s,
  foldM g (map h l) s = foldM (fun s x => g s (h x)) l s.
Proof. induction l as [|x l IH]; intros s; simpl; [reflexivity|]. destruct (g s (h x)); simpl; auto. Qed.

Lemma bind_ret_r {A} (o : outcome A) : (x <- o ;; Ok x) = o.
Proof. destruct o; reflexivity. Qed.

(* a fold whose steps either keep an invariant indexed by the processed prefix, or abort with an
   acceptable error *)
Lemma foldM_inv_err {A S} (g : S -> A -> outcome S) (I : list A -> S -> Prop) (E : err -> Prop) l :
  (forall pre x s, (exists post, l = pre ++ x :: post) -> I pre s ->
     match g s x with Ok s' => I (pre ++ [x]) s' | Err e => E e | _ => False end) ->
  forall s, I [] s ->
  match foldM g l s with Ok s' => I l s' | Err e => E e | _ => False end.
Proof.
  intros Hstep.
  assert (G : forall post pre s, l = pre ++ post -> I pre s ->
    match foldM g post s with Ok s' => I l s' | Err e => E e | _ => False end).
  { induction post as [|x post IH]; intros pre s El HI; simpl.
    - rewrite El, app_nil_r. auto.
    - specialize (Hstep pre x s (ex_intro _ post El) HI). destruct (g s x) as [s'| | |]; simpl; auto.
      apply (IH (pre ++ [x])); auto. rewrite El, <- app_assoc. reflexivity. }
  intros s HI. apply (G l [] s); auto.
Qed.

Definition lsum (cl : L) (q : list nat) : L := fold_left (ladd O) (map elen q) cl.

Lemma lsum_cons cl x q : lsum cl (x :: q) = lsum (ladd O cl (elen x)) q.
Proof. reflexivity. Qed.

Definition nb_step (f cur : nat) (prev : option nat) (cl : L) (lens : list L) (x : nat * option L)
  : outcome (list L) :=
  if onat_eqb (Some (fst x)) prev then Ok lens else
  match snd x with
  | Some bl => dmr_impl O f t (fst x) (Some cur) lens (ladd O cl bl)
  | None => Err MissingBranchLengths
  end.

Lemma dmr_unfold f cur prev lens cl :
  dmr_impl O (S f) t cur prev lens cl =
  (n <- get t cur ;;
   if (match prev with Some _ => true | None => false end) && is_tip n
   then Ok (replace_at lens cur cl)
   else
     nb <- mapM (fun i => match get t i with Ok c => Ok (i, npedge c) | _ => Panic 17 end) (nchildren n) ;;
     foldM (nb_step f cur prev cl) (nb ++ match nparent n with Some p => [(p, npedge n)] | None => [] end) lens).
Proof. reflexivity. Qed.

(* arena facts about a node of the tree and its children *)
Lemma sub_children s : In s (subtrees r) ->
  forall c, In c (rch s) -> exists nc, get t (rid c) = Ok nc /\ nparent nc = Some (rid s) /\ npedge nc = edge_of t (rid c).
Proof.
  intros Hs c Hc. destruct (sub_rep s Hs) as (p & d & H).
  destruct (RepLib.Rep_inv _ _ _ _ _ H) as (n & cs & Heq & Hn & Hdel & _ & _ & _ & HF & _).
  rewrite Heq in Hc. cbn [rch] in Hc. destruct (Forall2_In_r _ _ _ _ HF Hc) as (k & Hk & HRc).
  pose proof (Rep_rid _ _ _ _ _ HRc) as Ek. subst k.
  destruct (RepLib.Rep_inv _ _ _ _ _ HRc) as (nc & cs' & _ & Hnc & Hdelc & _ & Hpc & _).
  exists nc. split; [apply get_Ok; auto|]. split; auto. unfold edge_of. rewrite Hnc. reflexivity.
Qed.

Lemma nb_children s n : In s (subtrees r) -> get t (rid s) = Ok n ->
  mapM (fun i => match get t i with Ok c => Ok (i, npedge c) | _ => Panic 17 end) (nchildren n) =
  Ok (map (fun c => (rid c, edge_of t (rid c))) (rch s)).
Proof.
  intros Hs Hg. destruct (sub_node s Hs) as (n' & Hg' & _ & Hcn). rewrite Hg in Hg'. injection Hg' as <-.
  rewrite Hcn. rewrite <- (map_map rid (fun i => (i, edge_of t i))).
  apply Stats.mapM_ok. intros i Hi. apply in_map_iff in Hi as (c & <- & Hc).
  destruct (sub_children s Hs c Hc) as (nc & -> & _ & ->). reflexivity.
Qed.

Lemma elen_present x e : edge_of t x = Some e -> elen x = e.
Proof. unfold elen. intros ->. reflexivity. Qed.

Lemma rleaves_RT_cases i cs : cs <> [] -> rleaves (RT i cs) = flat_map rleaves cs.
Proof. apply rleaves_children. Qed.

(* entering subtree s from its parent pp *)
Definition down_post (s : rtree) (cl : L) (lens : list L) (out : outcome (list L)) : Prop :=
  match out with
  | Ok lens' => length lens' = length lens /\
      (forall b q, In b (rleaves s) -> rpath b s = Some (rid s :: q) -> nth_error lens' b = Some (lsum cl q)) /\
      (forall j, ~ In j (rleaves s) -> nth_error lens' j = nth_error lens j)
  | Err e => e = MissingBranchLengths /\ exists x, In x (ids s) /\ x <> rid s /\ edge_of t x = None
  | _ => False
  end.

Lemma ids_lt x : In x (ids r) -> x < length t.
Proof. intros H. eapply live_lt. eapply Rep_ids_live; eauto. Qed.

Lemma dmr_down : forall s, In s (subtrees r) -> forall pp fuel lens cl,
  (exists n, get t (rid s) = Ok n /\ nparent n = Some pp) -> ~ In pp (ids s) ->
  rheight s <= fuel -> length lens = length t ->
  down_post s cl lens (dmr_impl O fuel t (rid s) (Some pp) lens cl).
Proof.
  induction s as [i cs IH] using RepLib.rtree_ind'. intros Hs pp fuel lens cl (n & Hg & Hpar) Hpp Hfuel Hlen.
  cbn [rid] in *. rewrite Traversals.rheight_RT in Hfuel. destruct fuel as [|f]; [lia|].
  pose proof (sub_nodup _ Hs) as Hnd. pose proof (NoDup_ids_children _ _ Hnd) as [Hcs Hi].
  rewrite dmr_unfold, Hg. cbn [bind]. rewrite (sub_tip _ n Hs Hg). cbn [rch andb].
  destruct cs as [|c0 cs0].
  - (* a tip: record the accumulated length *)
    cbn [down_post]. split; [apply replace_at_length|]. split.
    + intros b q [<-|[]] Hq. rewrite rpath_RT, Nat.eqb_refl in Hq. injection Hq as <-.
      apply replace_at_same. rewrite Hlen. apply ids_lt. eapply subtrees_ids_incl; eauto. apply (In_rid_ids (RT i [])).
    + intros j Hj. apply replace_at_other. intros ->. apply Hj. simpl. auto.
  - remember (c0 :: cs0) as cs eqn:Ecs.
    assert (Hne : cs <> []) by (subst; discriminate).
    rewrite (nb_children _ n Hs Hg). cbn [bind rch]. rewrite Hpar, foldM_app, foldM_map.
    (* the children, left to right *)
    set (I := fun (done : list rtree) (lens' : list L) =>
      length lens' = length lens /\
      (forall c b q, In c done -> In b (rleaves c) -> rpath b c = Some (rid c :: q) ->
         nth_error lens' b = Some (lsum (ladd O cl (elen (rid c))) q)) /\
      (forall j, ~ In j (flat_map rleaves done) -> nth_error lens' j = nth_error lens j)).
    set (E := fun e : err => e = MissingBranchLengths /\ exists x, In x (ids (RT i cs)) /\ x <> i /\ edge_of t x = None).
    pose proof (foldM_inv_err
      (fun s x => nb_step f i (Some pp) cl s ((fun c => (rid c, edge_of t (rid c))) x)) I E cs) as HF.
    lapply HF; [clear HF; intros HF|].
    + specialize (HF lens). lapply HF; [clear HF; intros HF|].
      * destruct (foldM _ cs lens) as [lens1| e | |]; cbn [bind]; auto.
        -- (* then the parent entry, which is where we came from *)
           cbn [foldM]. unfold nb_step at 1. cbn [fst snd onat_eqb]. rewrite Nat.eqb_refl. cbn [bind].
           destruct HF as (H1 & H2 & H3). cbn [down_post rid]. split; auto. split.
           ++ intros b q Hb Hq. rewrite rleaves_RT_cases in Hb by auto.
              apply in_flat_map in Hb as (c & Hc & Hb).
              rewrite rpath_RT in Hq. destruct (Nat.eqb_spec i b) as [->|_].
              { exfalso. apply Hi. apply in_flat_map. exists c. split; auto. apply rleaves_incl_ids; auto. }
              destruct (rpath_total b c) as [Hex _]. destruct (Hex (rleaves_incl_ids _ _ Hb)) as (qc & Hqc).
              rewrite (rpath_first_unique b cs c _ Hcs Hc Hqc) in Hq. simpl in Hq. injection Hq as <-.
              destruct (rpath_head _ _ _ Hqc) as (q' & ->). rewrite lsum_cons. eapply H2; eauto.
           ++ intros j Hj. apply H3. rewrite rleaves_RT_cases in Hj by auto. exact Hj.
      * (* initial state *)
        unfold I. split; auto. split; [intros c b q []|auto].
    + (* one child *)
      intros pre c lens' (post & Epre) (H1 & H2 & H3).
      assert (Hc : In c cs) by (rewrite Epre; apply in_or_app; right; left; auto).
      assert (Hcr : In c (subtrees r)) by (apply (sub_child (RT i cs) c Hs); auto).
      destruct (sub_children _ Hs c Hc) as (nc & Hgc & Hparc & Hedge). cbn [rid] in Hparc.
      unfold nb_step. cbn [fst snd onat_eqb].
      assert (Hcpp : rid c <> pp).
      { intros <-. apply Hpp. rewrite ids_RT. right. apply in_flat_map. exists c. split; auto. apply In_rid_ids. }
      apply Nat.eqb_neq in Hcpp. rewrite Hcpp.
      destruct (edge_of t (rid c)) as [bl|] eqn:Ebl.
      * rewrite Forall_forall in IH.
        assert (Hci : ~ In i (ids c)) by (intros H; apply Hi; apply in_flat_map; eauto).
        assert (Hhc : rheight c <= f).
        { pose proof (Traversals.fheight_in c cs Hc). lia. }
        pose proof (IH c Hc Hcr i f lens' (ladd O cl bl) (ex_intro _ nc (conj Hgc Hparc)) Hci Hhc) as HD.
        rewrite H1 in HD. specialize (HD Hlen).
        destruct (dmr_impl O f t (rid c) (Some i) lens' (ladd O cl bl)) as [lens2|e| |]; cbn [down_post] in HD; auto.
        -- destruct HD as (D1 & D2 & D3). unfold I. split; [congruence|]. split.
           ++ intros c' b q Hc' Hb Hq. apply in_app_or in Hc' as [Hc'|[<-|[]]].
              ** rewrite D3; [eapply H2; eauto|]. intros Hbc.
                 assert (Hc'cs : In c' cs) by (rewrite Epre; apply in_or_app; auto).
                 assert (c' = c) by (eapply (flat_map_NoDup_inj rleaves cs c' c b); eauto; apply NoDup_forest_leaves; auto).
                 subst c'. pose proof (NoDup_forest_children _ Hcs) as Hndcs. rewrite Epre in Hndcs.
                 apply NoDup_app_iff in Hndcs as (_ & _ & Hd). apply (Hd c); simpl; auto.
              ** rewrite (elen_present _ _ Ebl). eapply D2; eauto.
           ++ intros j Hj. rewrite flat_map_app, in_app_iff in Hj. cbn [flat_map] in Hj. rewrite app_nil_r in Hj.
              rewrite D3 by tauto. apply H3. tauto.
        -- destruct HD as (-> & x & Hx & Hxc & Hnone). unfold E. split; auto. exists x. repeat split; auto.
           ++ rewrite ids_RT. right. apply in_flat_map. eauto.
           ++ intros ->. auto.
      * unfold E. split; auto. exists (rid c). repeat split; auto.
        -- rewrite ids_RT. right. apply in_flat_map. exists c. split; auto. apply In_rid_ids.
        -- intros E'. apply Hi. rewrite <- E'. apply in_flat_map. exists c. split; auto. apply In_rid_ids.
Qed.

(* ---- walking up ---------------------------------------------------------------------------------------------------- *)
Lemma fsize_in c cs : In c cs -> rsize c <= fsize cs.
Proof.
  induction cs as [|x cs IH]; intros H; [destruct H|]. rewrite Traversals.fsize_cons.
  destruct H as [->|H]; [lia|]. specialize (IH H). lia.
Qed.

Lemma fsize_in2 c x cs : In c cs -> In x cs -> c <> x -> rsize c + rsize x <= fsize cs.
Proof.
  induction cs as [|y cs IH]; intros Hc Hx Hne; [destruct Hc|]. rewrite Traversals.fsize_cons.
  destruct Hc as [->|Hc], Hx as [->|Hx]; try congruence.
  - pose proof (fsize_in x cs Hx). lia.
  - pose proof (fsize_in c cs Hc). lia.
  - specialize (IH Hc Hx Hne). lia.
Qed.

Lemma rsize_sub : forall r0 s, In s (subtrees r0) -> rsize s <= rsize r0.
Proof.
  induction r0 as [i cs IH] using RepLib.rtree_ind'. intros s Hs. rewrite subtrees_RT in Hs.
  destruct Hs as [<-|Hs]; [lia|]. apply in_flat_map in Hs as (c & Hc & Hs).
  rewrite Forall_forall in IH. specialize (IH c Hc s Hs). rewrite Traversals.rsize_RT.
  pose proof (fsize_in c cs Hc). lia.
Qed.

Lemma sub_parent_tree : forall r0 s, In s (subtrees r0) ->
  s = r0 \/ exists sp, In sp (subtrees r0) /\ In s (rch sp).
Proof.
  induction r0 as [i cs IH] using RepLib.rtree_ind'. intros s Hs. rewrite subtrees_RT in Hs.
  destruct Hs as [<-|Hs]; auto. right. apply in_flat_map in Hs as (c & Hc & Hs).
  rewrite Forall_forall in IH. destruct (IH c Hc s Hs) as [->|(sp & Hsp & Hch)].
  - exists (RT i cs). split; [apply subtrees_self|auto].
  - exists sp. split; auto. rewrite subtrees_RT. right. apply in_flat_map. eauto.
Qed.

Lemma path_through_sub : forall r0 s b Pb, NoDup (ids r0) -> In s (subtrees r0) ->
  rpath b r0 = Some Pb -> In (rid s) Pb -> In b (ids s).
Proof.
  induction r0 as [i cs IH] using RepLib.rtree_ind'. intros s b Pb Hnd Hs Hb Hin.
  rewrite subtrees_RT in Hs. destruct Hs as [<-|Hs]; [eapply rpath_In; eauto|].
  apply in_flat_map in Hs as (c & Hc & Hs). pose proof (NoDup_ids_children _ _ Hnd) as [Hcs Hi].
  assert (Hsc : In (rid s) (ids c)) by (eapply subtrees_ids_incl; eauto; apply In_rid_ids).
  assert (Hsi : rid s <> i) by (intros E; apply Hi; rewrite <- E; apply in_flat_map; eauto).
  rewrite rpath_RT in Hb. destruct (Nat.eqb i b).
  - injection Hb as <-. destruct Hin as [E|[]]. congruence.
  - destruct (rpath_first b cs) as [qc|] eqn:E; [|discriminate]. simpl in Hb. injection Hb as <-.
    destruct Hin as [E'|Hin]; [congruence|].
    apply rpath_first_Some in E as (c' & Hc' & Hqc).
    assert (c' = c).
    { apply (flat_map_NoDup_inj ids cs c' c (rid s)); auto. apply (rpath_incl _ _ _ Hqc); auto. }
    subst c'. rewrite Forall_forall in IH. eapply (IH c Hc); eauto. eapply NoDup_flat_map_in; eauto.
Qed.

Lemma in_sub_path s b Pb : In s (subtrees r) -> rpath b r = Some Pb -> (In b (ids s) <-> In (rid s) Pb).
Proof.
  intros Hs Hb. split; [|eapply path_through_sub; eauto].
  intros Hin. apply rpath_total in Hin as (q & Hq). destruct (sub_rpath r s HN Hs) as (pc & Hpc).
  rewrite (Hpc _ _ Hq) in Hb. injection Hb as <-. destruct (rpath_head _ _ _ Hq) as (q' & ->).
  apply in_or_app. right. left. reflexivity.
Qed.

Lemma cpl_snoc_notin P p : forall Pb, ~ In p Pb -> cpl (P ++ [p]) Pb = cpl P Pb.
Proof.
  induction P as [|x P IH]; intros [|y Pb] H; simpl; auto.
  - destruct (Nat.eqb_spec p y) as [->|_]; auto. exfalso. apply H. left; auto.
  - destruct (Nat.eqb x y); auto. f_equal. apply IH. intros Hin. apply H. right; auto.
Qed.

Lemma cpl_prefix (P V : list nat) : cpl P (P ++ V) = length P.
Proof.
  rewrite <- (app_nil_r P) at 1. rewrite cpl_app. destruct V; simpl; lia.
Qed.

Lemma leaf_in_sub s b : In s (subtrees r) -> In b (rleaves r) -> In b (ids s) -> In b (rleaves s).
Proof.
  intros Hs Hb Hin. rewrite (rep_good_rleaves t root r HR) in Hb. apply filter_In in Hb as [_ Hb].
  destruct (sub_rep s Hs) as (p & d & H).
  rewrite <- (Traversals.filter_tip_pre t s p d (rid s) H). apply filter_In. split; auto.
Qed.

Lemma sub_parent sp : In sp (subtrees r) ->
  (sp = r /\ exists n, get t (rid sp) = Ok n /\ nparent n = None) \/
  (exists spp n P', In spp (subtrees r) /\ In sp (rch spp) /\ get t (rid sp) = Ok n /\
     nparent n = Some (rid spp) /\ npedge n = edge_of t (rid sp) /\
     rpath (rid spp) r = Some P' /\ rpath (rid sp) r = Some (P' ++ [rid sp]) /\ rid sp <> root).
Proof.
  intros Hs. destruct (sub_parent_tree r sp Hs) as [->|(spp & Hspp & Hch)].
  - left. split; auto. destruct (RepLib.Rep_inv _ _ _ _ _ HR) as (n & cs & Heq & Hn & Hdel & _ & Hp & _).
    exists n. rewrite (Rep_rid _ _ _ _ _ HR). split; auto. apply get_Ok; auto.
  - right. destruct (sub_children spp Hspp sp Hch) as (n & Hg & Hp & He).
    destruct (sub_rpath r spp HN Hspp) as (pc & Hpc).
    pose proof (Hpc _ _ (rpath_root spp)) as H1.
    assert (H2 : rpath (rid sp) spp = Some [rid spp; rid sp]).
    { pose proof (sub_nodup spp Hspp) as Hnd. destruct spp as [j cs]. cbn [rch rid] in *.
      pose proof (NoDup_ids_children _ _ Hnd) as [Hcs Hj]. rewrite rpath_RT.
      destruct (Nat.eqb_spec j (rid sp)) as [E|_].
      - exfalso. apply Hj. rewrite E. apply in_flat_map. exists sp. split; auto. apply In_rid_ids.
      - rewrite (rpath_first_unique (rid sp) cs sp [rid sp] Hcs Hch (rpath_root sp)). reflexivity. }
    apply Hpc in H2. exists spp, n, (pc ++ [rid spp]). repeat split; auto.
    + rewrite H2, <- app_assoc. reflexivity.
    + intros E. pose proof (rpath_NoDup _ _ _ HN H2) as Hnd. destruct (rpath_head _ _ _ H2) as (q' & Eq).
      rewrite (Rep_rid _ _ _ _ _ HR), E in Eq.
      change (pc ++ [rid spp; rid sp]) with (pc ++ [rid spp] ++ [rid sp]) in *. rewrite app_assoc in Hnd.
      apply NoDup_app_iff in Hnd as (_ & _ & Hd). apply (Hd (rid sp)); [|left; auto].
      rewrite E. destruct pc; simpl in *; injection Eq as -> _; auto.
Qed.

(* at node p, reached from its child sx: the other children are explored downwards *)
Lemma up_children p cs sx f cl lens :
  In (RT p cs) (subtrees r) -> In sx cs ->
  (forall c, In c cs -> c <> sx -> rheight c <= f) -> length lens = length t ->
  match foldM (fun s c => nb_step f p (Some (rid sx)) cl s (rid c, edge_of t (rid c))) cs lens with
  | Ok lens1 => length lens1 = length lens /\
      (forall c b q, In c cs -> c <> sx -> In b (rleaves c) -> rpath b c = Some (rid c :: q) ->
         nth_error lens1 b = Some (lsum (ladd O cl (elen (rid c))) q)) /\
      (forall j, (forall c, In c cs -> c <> sx -> ~ In j (rleaves c)) -> nth_error lens1 j = nth_error lens j)
  | Err e => e = MissingBranchLengths /\
      exists x, In x (ids (RT p cs)) /\ x <> p /\ ~ In x (ids sx) /\ edge_of t x = None
  | _ => False
  end.
Proof.
  intros Hs Hsx Hf Hlen.
  pose proof (sub_nodup _ Hs) as Hnd. pose proof (NoDup_ids_children _ _ Hnd) as [Hcs Hp].
  set (I := fun (done : list rtree) (lens' : list L) =>
    length lens' = length lens /\
    (forall c b q, In c done -> c <> sx -> In b (rleaves c) -> rpath b c = Some (rid c :: q) ->
       nth_error lens' b = Some (lsum (ladd O cl (elen (rid c))) q)) /\
    (forall j, (forall c, In c done -> c <> sx -> ~ In j (rleaves c)) -> nth_error lens' j = nth_error lens j)).
  set (E := fun e : err => e = MissingBranchLengths /\
      exists x, In x (ids (RT p cs)) /\ x <> p /\ ~ In x (ids sx) /\ edge_of t x = None).
  apply (foldM_inv_err _ I E cs).
  - intros pre c lens' (post & Epre) (H1 & H2 & H3).
    assert (Hc : In c cs) by (rewrite Epre; apply in_or_app; right; left; auto).
    assert (Hcr : In c (subtrees r)) by (apply (sub_child (RT p cs) c Hs); auto).
    destruct (sub_children _ Hs c Hc) as (nc & Hgc & Hparc & Hedge). cbn [rid] in Hparc.
    unfold nb_step. cbn [fst snd onat_eqb]. destruct (Nat.eqb_spec (rid c) (rid sx)) as [Eq|Hne].
    + (* the child we came from *)
      assert (c = sx) by (eapply rid_inj_in; eauto). subst c. unfold I. split; auto. split.
      * intros c b q Hc' Hcx. apply in_app_or in Hc' as [Hc'|[<-|[]]]; [|congruence]. apply H2; auto.
      * intros j Hj. apply H3. intros c Hc'. apply Hj. apply in_or_app; auto.
    + assert (Hcx : c <> sx) by (intros ->; congruence).
      destruct (edge_of t (rid c)) as [bl|] eqn:Ebl.
      * assert (Hci : ~ In p (ids c)) by (intros H; apply Hp; apply in_flat_map; eauto).
        pose proof (dmr_down c Hcr p f lens' (ladd O cl bl) (ex_intro _ nc (conj Hgc Hparc)) Hci (Hf c Hc Hcx)) as HD.
        rewrite H1 in HD. specialize (HD Hlen).
        destruct (dmr_impl O f t (rid c) (Some p) lens' (ladd O cl bl)) as [lens2|e| |]; cbn [down_post] in HD; auto.
        -- destruct HD as (D1 & D2 & D3). unfold I. split; [congruence|]. split.
           ++ intros c' b q Hc' Hc'x Hb Hq. apply in_app_or in Hc' as [Hc'|[<-|[]]].
              ** rewrite D3; [eapply H2; eauto|]. intros Hbc.
                 assert (Hc'cs : In c' cs) by (rewrite Epre; apply in_or_app; auto).
                 assert (c' = c) by (eapply (flat_map_NoDup_inj rleaves cs c' c b); eauto; apply NoDup_forest_leaves; auto).
                 subst c'. pose proof (NoDup_forest_children _ Hcs) as Hndcs. rewrite Epre in Hndcs.
                 apply NoDup_app_iff in Hndcs as (_ & _ & Hd). apply (Hd c); simpl; auto.
              ** rewrite (elen_present _ _ Ebl). eapply D2; eauto.
           ++ intros j Hj. rewrite D3.
              ** apply H3. intros c' Hc'. apply Hj. apply in_or_app; auto.
              ** apply Hj; auto. apply in_or_app. right. left; auto.
        -- destruct HD as (-> & x & Hx & Hxc & Hnone). unfold E. split; auto. exists x. repeat split; auto.
           ++ rewrite ids_RT. right. apply in_flat_map. eauto.
           ++ intros ->. auto.
           ++ intros Hxs. apply Hcx. eapply (flat_map_NoDup_inj ids cs c sx x); eauto.
      * unfold E. split; auto. exists (rid c). repeat split; auto.
        -- rewrite ids_RT. right. apply in_flat_map. exists c. split; auto. apply In_rid_ids.
        -- intros E'. apply Hp. rewrite <- E'. apply in_flat_map. exists c. split; auto. apply In_rid_ids.
        -- intros Hxs. apply Hcx. eapply (flat_map_NoDup_inj ids cs c sx (rid c)); eauto. apply In_rid_ids.
  - unfold I. split; auto. split; [intros c b q []|auto].
Qed.

Lemma rpath_root_r : rpath root r = Some [root].
Proof. pose proof (rpath_root r) as H. rewrite (Rep_rid _ _ _ _ _ HR) in H. exact H. Qed.

(* arriving at the node of subtree sp from its child sx, with root path P *)
Definition up_post (sx : rtree) (P : list nat) (cl : L) (lens : list L) (out : outcome (list L)) : Prop :=
  match out with
  | Ok lens' => length lens' = length lens /\
      (forall b Pb, In b (rleaves r) -> ~ In b (ids sx) -> rpath b r = Some Pb ->
         nth_error lens' b = Some (lsum cl (rev (skipn (cpl P Pb) P) ++ skipn (cpl P Pb) Pb))) /\
      (forall j, ~ (In j (rleaves r) /\ ~ In j (ids sx)) -> nth_error lens' j = nth_error lens j)
  | Err e => e = MissingBranchLengths /\
      exists x, In x (ids r) /\ x <> root /\ ~ In x (ids sx) /\ edge_of t x = None
  | _ => False
  end.

Lemma dmr_up : forall k P sp sx fuel lens cl, length P <= k ->
  In sp (subtrees r) -> In sx (rch sp) -> rpath (rid sp) r = Some P ->
  rsize r - rsize sx <= fuel -> length lens = length t ->
  up_post sx P cl lens (dmr_impl O fuel t (rid sp) (Some (rid sx)) lens cl).
Proof.
  induction k as [|k IH]; intros P sp sx fuel lens cl Hk Hs Hsx HP Hfuel Hlen.
  { pose proof (rpath_length _ _ _ HP). lia. }
  pose proof (sub_nodup _ Hs) as Hnd. destruct sp as [p cs]. cbn [rid rch] in *.
  pose proof (NoDup_ids_children _ _ Hnd) as [Hcs Hp].
  pose proof (rsize_sub r _ Hs) as Hsz. rewrite Traversals.rsize_RT in Hsz.
  pose proof (fsize_in sx cs Hsx) as Hszx.
  destruct fuel as [|f]; [lia|].
  destruct (sub_node _ Hs) as (n & Hg & _ & Hcn). cbn [rid rch] in *.
  rewrite dmr_unfold, Hg. cbn [bind]. rewrite (sub_tip _ n Hs Hg). cbn [rch].
  destruct cs as [|c0 cs0]; [destruct Hsx|]. remember (c0 :: cs0) as cs eqn:Ecs. cbn [andb].
  rewrite (nb_children _ n Hs Hg). cbn [bind rch]. rewrite foldM_app, foldM_map.
  assert (Hhf : forall c, In c cs -> c <> sx -> rheight c <= f).
  { intros c Hc Hne. pose proof (fsize_in2 c sx cs Hc Hsx Hne). pose proof (Traversals.rheight_le_rsize c). lia. }
  pose proof (up_children p cs sx f cl lens Hs Hsx Hhf Hlen) as HC.
  destruct (foldM _ cs lens) as [lens1|e| |]; cbn [bind]; auto.
  2:{ destruct HC as (-> & x & Hx & Hxp & Hxs & Hnone). cbn [up_post]. split; auto. exists x. repeat split; auto.
      - eapply subtrees_ids_incl; eauto.
      - intros ->. destruct (proj1 (in_sub_path (RT p cs) root [root] Hs rpath_root_r) Hx) as [E|[]].
        cbn [rid] in E. congruence. }
  destruct HC as (C1 & C2 & C3).
  (* facts shared by both cases *)
  assert (Hsib : forall b, In b (rleaves r) -> ~ In b (ids sx) -> In b (ids (RT p cs)) ->
            exists c q, In c cs /\ c <> sx /\ In b (rleaves c) /\ rpath b c = Some (rid c :: q) /\
                        rpath b r = Some (P ++ rid c :: q)).
  { intros b Hb Hbx Hbs. pose proof (leaf_in_sub _ b Hs Hb Hbs) as Hbl.
    rewrite rleaves_RT_cases in Hbl by (subst; discriminate).
    apply in_flat_map in Hbl as (c & Hc & Hbc).
    assert (Hcx : c <> sx) by (intros ->; apply Hbx; apply rleaves_incl_ids; auto).
    destruct (rpath_total b c) as [Hex _]. destruct (Hex (rleaves_incl_ids _ _ Hbc)) as (qc & Hqc).
    destruct (rpath_head _ _ _ Hqc) as (q & ->). exists c, q. repeat split; auto.
    destruct (sub_rpath r _ HN Hs) as (pc & Hpc).
    pose proof (Hpc p [p] (rpath_root (RT p cs))) as HP'. rewrite HP in HP'. injection HP' as ->.
    assert (Hbp : rpath b (RT p cs) = Some (p :: rid c :: q)).
    { rewrite rpath_RT. destruct (Nat.eqb_spec p b) as [->|_].
      - exfalso. apply Hp. apply in_flat_map. exists c. split; auto. apply rleaves_incl_ids; auto.
      - rewrite (rpath_first_unique b cs c _ Hcs Hc Hqc). reflexivity. }
    rewrite (Hpc _ _ Hbp), <- app_assoc. reflexivity. }
  assert (Hval : forall b c q, In c cs -> c <> sx -> In b (rleaves c) -> rpath b c = Some (rid c :: q) ->
            rpath b r = Some (P ++ rid c :: q) ->
            lsum (ladd O cl (elen (rid c))) q =
            lsum cl (rev (skipn (cpl P (P ++ rid c :: q)) P) ++ skipn (cpl P (P ++ rid c :: q)) (P ++ rid c :: q))).
  { intros b c q _ _ _ _ _. rewrite cpl_prefix, skipn_all, skipn_app_exact. reflexivity. }
  destruct (sub_parent _ Hs) as [(Er & n' & Hg' & Hpar)|(spp & n' & P' & Hspp & Hch & Hg' & Hpar & Hedge & HP' & HPp & Hroot)];
    cbn [rid] in *; rewrite Hg in Hg'; injection Hg' as <-; rewrite Hpar.
  - (* p is the root: nothing above *)
    cbn [foldM]. cbn [up_post]. split; auto. split.
    + intros b Pb Hb Hbx HPb. assert (Hbs : In b (ids (RT p cs))) by (rewrite Er; apply rleaves_incl_ids; auto).
      destruct (Hsib b Hb Hbx Hbs) as (c & q & Hc & Hcx & Hbc & Hqc & Hbr).
      rewrite HPb in Hbr. injection Hbr as ->. rewrite (C2 c b q Hc Hcx Hbc Hqc). f_equal. eapply Hval; eauto.
    + intros j Hj. apply C3. intros c Hc Hcx Hjc. apply Hj. split.
      * eapply subtrees_leaves_incl; [|exact Hjc]. apply (sub_child (RT p cs) c Hs); auto.
      * intros Hjx. apply Hcx. apply (flat_map_NoDup_inj ids cs c sx j); auto. apply rleaves_incl_ids; auto.
  - (* continue to the parent of p *)
    cbn [foldM]. unfold nb_step at 1. cbn [fst snd onat_eqb].
    assert (Hppx : rid spp <> rid sx).
    { intros E. pose proof (sub_nodup _ Hspp) as Hn'. destruct spp as [pp cs']. cbn [rid rch] in *.
      apply NoDup_ids_children in Hn' as [_ Hn']. apply Hn'. apply in_flat_map. exists (RT p cs). split; auto.
      rewrite E, ids_RT. right. apply in_flat_map. exists sx. split; auto. apply In_rid_ids. }
    apply Nat.eqb_neq in Hppx. rewrite Hppx, Hedge.
    rewrite HP in HPp. injection HPp as ->.
    destruct (edge_of t p) as [bl|] eqn:Ebl.
    + assert (Hk' : length P' <= k) by (rewrite app_length in Hk; simpl in Hk; lia).
      assert (Hf' : rsize r - rsize (RT p cs) <= f) by (rewrite Traversals.rsize_RT; lia).
      pose proof (IH P' spp (RT p cs) f lens1 (ladd O cl bl) Hk' Hspp Hch HP' Hf') as HU.
      rewrite C1 in HU. specialize (HU Hlen). cbn [rid] in HU. rewrite bind_ret_r.
      destruct (dmr_impl O f t (rid spp) (Some p) lens1 (ladd O cl bl)) as [lens2|e| |]; cbn [up_post] in *; auto.
      * destruct HU as (U1 & U2 & U3). split; [congruence|]. split.
        -- intros b Pb Hb Hbx HPb. destruct (in_dec Nat.eq_dec b (ids (RT p cs))) as [Hbs|Hbs].
           ++ destruct (Hsib b Hb Hbx Hbs) as (c & q & Hc & Hcx & Hbc & Hqc & Hbr).
              rewrite HPb in Hbr. injection Hbr as ->. rewrite U3 by tauto.
              rewrite (C2 c b q Hc Hcx Hbc Hqc). f_equal. eapply Hval; eauto.
           ++ rewrite (U2 b Pb Hb Hbs HPb).
              assert (Hnp : ~ In p Pb).
              { intros Hin. apply Hbs. apply (proj2 (in_sub_path (RT p cs) b Pb Hs HPb)). exact Hin. }
              rewrite (cpl_snoc_notin P' p Pb Hnp).
              pose proof (cpl_le_l P' Pb) as Hle. rewrite skipn_app.
              replace (cpl P' Pb - length P') with 0 by lia. cbn [skipn].
              rewrite rev_app_distr. cbn [rev app]. rewrite lsum_cons, (elen_present _ _ Ebl). reflexivity.
        -- intros j Hj. rewrite U3.
           ++ apply C3. intros c Hc Hcx Hjc. apply Hj. split.
              ** eapply subtrees_leaves_incl; [|exact Hjc]. apply (sub_child (RT p cs) c Hs); auto.
              ** intros Hjx. apply Hcx. apply (flat_map_NoDup_inj ids cs c sx j); auto. apply rleaves_incl_ids; auto.
           ++ intros [Hjl Hjs]. apply Hj. split; auto. intros Hjx. apply Hjs. rewrite ids_RT. right.
              apply in_flat_map. eauto.
      * destruct HU as (-> & x & Hx & Hxr & Hxs & Hnone). split; auto. exists x. repeat split; auto.
        intros Hxx. apply Hxs. rewrite ids_RT. right. apply in_flat_map. eauto.
    + cbn [up_post]. split; auto. exists p. repeat split; auto.
      * apply (subtrees_ids_incl r (RT p cs) Hs). apply (In_rid_ids (RT p cs)).
      * intros Hpx. apply Hp. apply in_flat_map. eauto.
Qed.

(* ---- the row of a tip ------------------------------------------------------------------------------------------------- *)
Lemma leaf_subtree : forall r0 a, In a (rleaves r0) -> In (RT a []) (subtrees r0).
Proof.
  induction r0 as [i cs IH] using RepLib.rtree_ind'. intros a Ha. destruct cs as [|c0 cs0].
  - simpl in Ha. destruct Ha as [<-|[]]. apply subtrees_self.
  - rewrite rleaves_cons in Ha. apply in_flat_map in Ha as (c & Hc & Ha). rewrite Forall_forall in IH.
    rewrite subtrees_RT. right. apply in_flat_map. exists c. split; auto.
Qed.

(* lower endpoints of the branches of the tree path from a to b, in walking order *)
Definition walk (Pa Pb : list nat) : list nat :=
  rev (skipn (cpl Pa Pb) Pa) ++ skipn (cpl Pa Pb) Pb.

Definition row_post (a : nat) (out : outcome (list L)) : Prop :=
  match out with
  | Ok row => length row = length t /\
      (forall b Pa Pb, In b (rleaves r) -> b <> a -> rpath a r = Some Pa -> rpath b r = Some Pb ->
         nth_error row b = Some (lsum (l0 O) (walk Pa Pb)))
  | Err e => e = MissingBranchLengths /\ exists x, In x (ids r) /\ x <> root /\ edge_of t x = None
  | _ => False
  end.

Lemma dmr_row a : In a (rleaves r) ->
  row_post a (dmr_impl O (S (S (length t))) t a None (repeat (linf O) (length t)) (l0 O)).
Proof.
  intros Ha. pose proof (leaf_subtree r a Ha) as Hs.
  rewrite dmr_unfold.
  destruct (sub_parent _ Hs) as [(Er & n & Hg & Hpar)|(spp & n & P' & Hspp & Hch & Hg & Hpar & Hedge & HP' & HPa & Hroot)];
    cbn [rid] in *; rewrite Hg; cbn [bind andb]; rewrite (nb_children _ n Hs Hg); cbn [bind rch map app]; rewrite Hpar.
  - cbn [foldM row_post]. split; [apply repeat_length|].
    intros b Pa Pb Hb Hne. rewrite <- Er in Hb. simpl in Hb. destruct Hb as [<-|[]]. congruence.
  - cbn [foldM]. unfold nb_step at 1. cbn [fst snd onat_eqb]. rewrite Hedge, bind_ret_r.
    destruct (edge_of t a) as [bl|] eqn:Ebl.
    + assert (Hfuel : rsize r - rsize (RT a []) <= S (length t)).
      { pose proof (Traversals.rsize_le_length t None 0 root r HR HN). lia. }
      pose proof (dmr_up (length P') P' spp (RT a []) (S (length t)) (repeat (linf O) (length t)) (ladd O (l0 O) bl)
                    (le_n _) Hspp Hch HP' Hfuel (repeat_length _ _)) as HU.
      cbn [rid] in HU.
      destruct (dmr_impl O (S (length t)) t (rid spp) (Some a) (repeat (linf O) (length t)) (ladd O (l0 O) bl))
        as [row|e| |]; cbn [up_post row_post] in *; auto.
      * destruct HU as (U1 & U2 & _). split; [rewrite U1; apply repeat_length|].
        intros b Pa Pb Hb Hne HPa' HPb. rewrite HPa in HPa'. injection HPa' as <-.
        assert (Hbx : ~ In b (ids (RT a []))) by (simpl; intuition).
        rewrite (U2 b Pb Hb Hbx HPb). f_equal. unfold walk.
        assert (Hna : ~ In a Pb).
        { intros Hin. apply Hbx. apply (proj2 (in_sub_path (RT a []) b Pb Hs HPb)). exact Hin. }
        rewrite (cpl_snoc_notin P' a Pb Hna). pose proof (cpl_le_l P' Pb) as Hle. rewrite skipn_app.
        replace (cpl P' Pb - length P') with 0 by lia. cbn [skipn].
        rewrite rev_app_distr. cbn [rev app]. rewrite lsum_cons, (elen_present _ _ Ebl). reflexivity.
      * destruct HU as (-> & x & Hx & Hxr & _ & Hnone). split; auto. eauto.
    + cbn [row_post]. split; auto. exists a. repeat split; auto. apply rleaves_incl_ids; auto.
Qed.

(* ---- overwriting cells ------------------------------------------------------------------------------------------------ *)
Definition set_ups (ups : list (nat * L)) (vec : list L) : list L :=
  fold_left (fun vec u => replace_at vec (fst u) (snd u)) ups vec.

Lemma set_ups_length ups : forall vec, length (set_ups ups vec) = length vec.
Proof.
  induction ups as [|u ups IH]; intros vec; simpl; auto. unfold set_ups in *. simpl.
  rewrite IH. apply replace_at_length.
Qed.

Lemma set_ups_other ups k : forall vec, ~ In k (map fst ups) -> nth_error (set_ups ups vec) k = nth_error vec k.
Proof.
  induction ups as [|u ups IH]; intros vec Hk; simpl in *; auto. unfold set_ups in *. simpl.
  rewrite IH by tauto. apply replace_at_other. tauto.
Qed.

Lemma set_ups_hit ups k v : forall vec, NoDup (map fst ups) -> In (k, v) ups -> k < length vec ->
  nth_error (set_ups ups vec) k = Some v.
Proof.
  induction ups as [|u ups IH]; intros vec Hnd Hin Hk; simpl in *; [tauto|].
  apply NoDup_cons_iff in Hnd as [Hu Hnd]. unfold set_ups in *. simpl. destruct Hin as [->|Hin].
  - simpl in *. fold (set_ups ups (replace_at vec k v)). rewrite set_ups_other by auto.
    apply replace_at_same; auto.
  - apply IH; auto. rewrite replace_at_length. auto.
Qed.

Lemma rows_get_map (f : nat -> list L) l x : In x l -> rows_get (map (fun tip => (tip, f tip)) l) x = Some (f x).
Proof.
  induction l as [|y l IH]; intros H; [destruct H|]. simpl. destruct (Nat.eqb_spec y x) as [->|Hne]; auto.
  destruct H as [->|H]; [congruence|auto].
Qed.

(* ---- distance_matrix_recursive ----------------------------------------------------------------------------------------- *)
Lemma mapM_cases {A B} (g : A -> outcome B) (f : A -> B) e (Q : Prop) l :
  (forall x, In x l -> g x = Ok (f x) \/ (g x = Err e /\ Q)) ->
  mapM g l = Ok (map f l) \/ (mapM g l = Err e /\ Q).
Proof.
  induction l as [|x l IH]; intros H; simpl; [left; eauto|].
  destruct (H x (or_introl eq_refl)) as [->|[-> HQ]]; cbn [bind]; auto.
  destruct IH as [->|[-> HQ]]; cbn [bind]; auto. intros z Hz. apply H. right; auto.
Qed.

Lemma set_ups_map {A} (F : A -> nat * L) l : forall vec,
  fold_left (fun vec x => replace_at vec (fst (F x)) (snd (F x))) l vec = set_ups (map F l) vec.
Proof. induction l as [|x l IH]; intros vec; simpl; auto. Qed.

Section Recursive.
Hypothesis Hnamed : forall i, In i (rleaves r) -> lname t i <> None.
Hypothesis Huniq : NoDup (map (lab t) (rleaves r)).

Lemma good : Good t root r.
Proof. constructor; auto. Qed.

Lemma leaf_idx_order : leaf_idx t = map (lab t) (leaf_order t).
Proof. unfold leaf_idx. symmetry. apply taxa_sorted; auto. Qed.

Definition tip_row (tip : nat) : outcome (nat * list L) :=
  r <- dmr_impl O (S (S (length t))) t tip None (repeat (linf O) (length t)) (l0 O) ;; Ok (tip, r).

Definition cell_step (taxa : list str) (rows : list (nat * list L)) (cells : list L) (pr : nat * nat)
  : outcome (list L) :=
  let d := match rows_get rows (fst pr) with
           | Some row => nth (snd pr) row (linf O)
           | None => linf O end in
  n1 <- get t (fst pr) ;; n2 <- get t (snd pr) ;;
  match nname n1, nname n2 with
  | Some a1, Some a2 =>
      if str_eqb a1 a2 then Panic 19 else
      match find_str a1 taxa, find_str a2 taxa with
      | Some i, Some j => Ok (replace_at cells (tril_idx i j) d)
      | _, _ => Err TMatrixError
      end
  | _, _ => Panic 20
  end.

Lemma dmr_top :
  distance_matrix_recursive O (tree_of t) =
  (rows <- mapM tip_row (get_leaves t) ;;
   cells <- foldM (cell_step (leaf_idx t) rows) (pairs (get_leaves t)) (repeat (l0 O) (ncells t)) ;;
   Ok (mkDmat (n_leaves t) (leaf_idx t) cells, mkTree t (Some (leaf_idx t)) None)).
Proof.
  unfold distance_matrix_recursive. cbn [nodes tree_of].
  change (mkTree t None None) with (tree_of t). unfold tree_of.
  rewrite (init_leaf_index_fresh t root r good None). cbn [bind leaf_index].
  rewrite (leaf_idx_length t root r good), Nat.eqb_refl. cbn [negb]. reflexivity.
Qed.

Definition dval (rows : list (nat * list L)) (pr : nat * nat) : L :=
  match rows_get rows (fst pr) with
  | Some row => nth (snd pr) row (linf O)
  | None => linf O
  end.

Lemma gl_NoDup : NoDup (get_leaves t).
Proof. eapply rep_get_leaves_NoDup; eauto. Qed.

Lemma gl_in x : In x (get_leaves t) <-> In x (rleaves r).
Proof. eapply rep_in_get_leaves; eauto. Qed.

Lemma find_rank x : In x (rleaves r) -> find_str (lab t x) (leaf_idx t) = Some (rk t x).
Proof. intros Hx. rewrite leaf_idx_order. apply rank_name; auto. Qed.

(* the second loop never fails, whatever the rows *)
Lemma cells_fold rows :
  foldM (cell_step (leaf_idx t) rows) (pairs (get_leaves t)) (repeat (l0 O) (ncells t)) =
  Ok (set_ups (map (fun pr => (cell t (fst pr) (snd pr), dval rows pr)) (pairs (get_leaves t)))
              (repeat (l0 O) (ncells t))).
Proof.
  rewrite <- set_ups_map. apply foldM_ok_fold. intros cells [x y] Hpr.
  pose proof (pairs_neq _ _ _ gl_NoDup Hpr) as Hne. apply in_pairs in Hpr as [Hx Hy].
  apply gl_in in Hx, Hy.
  destruct (leaf_named Hnamed x Hx) as (n1 & Hg1 & Hn1). destruct (leaf_named Hnamed y Hy) as (n2 & Hg2 & Hn2).
  unfold cell_step. cbn [fst snd]. rewrite Hg1, Hg2. cbn [bind]. rewrite Hn1, Hn2.
  assert (Hs : str_eqb (lab t x) (lab t y) = false).
  { apply str_eqb_neq. intros E. apply Hne. apply lab_inj; auto. }
  rewrite Hs, (find_rank x Hx), (find_rank y Hy). reflexivity.
Qed.

Lemma pair_cells_NoDup rows :
  NoDup (map fst (map (fun pr => (cell t (fst pr) (snd pr), dval rows pr)) (pairs (get_leaves t)))).
Proof.
  rewrite map_map. cbn [fst]. apply NoDup_map_inj_in; [apply pairs_NoDup, gl_NoDup|].
  intros [x y] [x' y'] H H' E. cbn [fst snd] in E.
  pose proof (pairs_neq _ _ _ gl_NoDup H) as Hne. pose proof (pairs_neq _ _ _ gl_NoDup H') as Hne'.
  pose proof (in_pairs _ _ _ H) as [Hx Hy]. pose proof (in_pairs _ _ _ H') as [Hx' Hy'].
  apply gl_in in Hx, Hy, Hx', Hy'.
  destruct (cell_inj x y x' y' Hx Hy Hx' Hy' Hne Hne' E) as [[-> ->]|[-> ->]]; auto.
  exfalso. revert H'. apply pairs_asym; auto. apply gl_NoDup.
Qed.


Definition rowf (a : nat) : list L :=
  match dmr_impl O (S (S (length t))) t a None (repeat (linf O) (length t)) (l0 O) with
  | Ok row => row
  | _ => []
  end.

Definition missing : Prop := exists x, In x (ids r) /\ x <> root /\ edge_of t x = None.

Lemma tip_row_cases a : In a (rleaves r) ->
  (tip_row a = Ok (a, rowf a) /\ length (rowf a) = length t /\
     forall b Pa Pb, In b (rleaves r) -> b <> a -> rpath a r = Some Pa -> rpath b r = Some Pb ->
       nth_error (rowf a) b = Some (lsum (l0 O) (walk Pa Pb))) \/
  (tip_row a = Err MissingBranchLengths /\ missing).
Proof.
  intros Ha. pose proof (dmr_row a Ha) as HR'. unfold tip_row, rowf.
  destruct (dmr_impl _ _ _ _ _ _ _) as [row|e| |]; cbn [row_post bind] in *; try tauto.
  destruct HR' as [-> Hm]. right. split; auto.
Qed.

(* items 5/6 for the recursive variant: taxa, sizes, no panic *)
Theorem dmr_outcome :
  (exists cells, distance_matrix_recursive O (tree_of t) =
       Ok (mkDmat (n_leaves t) (leaf_idx t) cells, mkTree t (Some (leaf_idx t)) None) /\
     length cells = ncells t /\
     forall x y, In (x, y) (pairs (get_leaves t)) ->
       nth_error cells (cell t x y) = Some (nth y (rowf x) (linf O))) \/
  (distance_matrix_recursive O (tree_of t) = Err MissingBranchLengths /\ missing).
Proof.
  rewrite dmr_top.
  destruct (mapM_cases tip_row (fun a => (a, rowf a)) MissingBranchLengths missing (get_leaves t)) as [Hrows|[Hrows Hm]].
  - intros x Hx. apply gl_in in Hx. destruct (tip_row_cases x Hx) as [(H & _)|H]; auto.
  - left. rewrite Hrows. cbn [bind]. rewrite cells_fold. cbn [bind]. eexists. split; [reflexivity|].
    split; [rewrite set_ups_length; apply repeat_length|].
    intros x y Hxy.
    replace (nth y (rowf x) (linf O)) with (dval (map (fun a => (a, rowf a)) (get_leaves t)) (x, y)).
    + apply set_ups_hit.
      * apply pair_cells_NoDup.
      * apply (in_map (fun pr => (cell t (fst pr) (snd pr), dval _ pr)) _ (x, y)). auto.
      * rewrite repeat_length. pose proof (pairs_neq _ _ _ gl_NoDup Hxy). apply in_pairs in Hxy as [Hx Hy].
        apply gl_in in Hx, Hy. apply cell_lt; auto.
    + unfold dval. cbn [fst snd]. apply in_pairs in Hxy as [Hx _]. rewrite rows_get_map; auto.
  - right. rewrite Hrows. auto.
Qed.

Theorem dmr_no_panic :
  (exists m tc, distance_matrix_recursive O (tree_of t) = Ok (m, tc)) \/
  distance_matrix_recursive O (tree_of t) = Err MissingBranchLengths.
Proof. destruct dmr_outcome as [(cells & H & _)|[H _]]; eauto. Qed.

Theorem dmr_taxa m tc : distance_matrix_recursive O (tree_of t) = Ok (m, tc) ->
  mtaxa m = stable_sort str_leb (map (lab t) (get_leaves t)) /\ msize m = n_leaves t /\
  length (mcells m) = n_leaves t * (n_leaves t - 1) / 2 /\
  nodes tc = t /\ leaf_index tc = Some (mtaxa m).
Proof.
  destruct dmr_outcome as [(cells & H & Hl & _)|[H _]]; rewrite H; [|discriminate].
  intros [= <- <-]. cbn [mtaxa msize mcells nodes leaf_index]. auto.
Qed.

End Recursive.

(* ---- the recursive variant returns the same path lengths ------------------------------------------------------------------ *)
Lemma index_of_nth_NoDup l : NoDup l -> forall i a, nth_error l i = Some a -> index_of a l = Some i.
Proof.
  induction l as [|x l IH]; intros Hnd [|i] a H; simpl in *; try discriminate.
  - injection H as ->. rewrite Nat.eqb_refl. reflexivity.
  - apply NoDup_cons_iff in Hnd as [Hx Hnd]. destruct (Nat.eqb_spec a x) as [->|_].
    + exfalso. apply Hx. eapply nth_error_In; eauto.
    + rewrite (IH Hnd i a H). reflexivity.
Qed.

Section RecLaws.
Hypothesis Hnamed : forall i, In i (rleaves r) -> lname t i <> None.
Hypothesis Huniq : NoDup (map (lab t) (rleaves r)).
Hypothesis ladd_assoc : forall x y z, ladd O x (ladd O y z) = ladd O (ladd O x y) z.
Hypothesis ladd_comm : forall x y, ladd O x y = ladd O y x.
Hypothesis ladd_0_l : forall x, ladd O (l0 O) x = x.
Hypothesis Hlens : forall x, In x (ids r) -> x <> root -> edge_of t x <> None.

Lemma not_missing : ~ missing.
Proof. intros (x & Hx & Hr & Hn). apply (Hlens x); auto. Qed.

Lemma walk_dist a b Pa Pb : In a (ids r) -> In b (ids r) -> rpath a r = Some Pa -> rpath b r = Some Pb ->
  get_distance O t a b = Ok (Some (lsum (l0 O) (walk Pa Pb)), length (walk Pa Pb)) /\
  lsum (l0 O) (walk Pb Pa) = lsum (l0 O) (walk Pa Pb).
Proof.
  intros Ha Hb HPa HPb.
  destruct (dist_refines O t root r a b HR HN Ha Hb) as (pa & pb & Hpa & Hpb & Hd).
  rewrite HPa in Hpa. rewrite HPb in Hpb. injection Hpa as <-. injection Hpb as <-. cbv zeta in Hd.
  destruct (lca_spec r a b Pa Pb HN HPa HPb) as (pc & c & _ & _ & Hsa & Hsb & Hk & _).
  set (ta := skipn (cpl Pa Pb) Pa) in *. set (tb := skipn (cpl Pa Pb) Pb) in *.
  assert (Hedges : forall x, In x (ta ++ tb) -> edge_of t x <> None).
  { assert (Hone : forall x P tl, rpath x r = Some P -> P = pc ++ c :: tl -> forall y, In y tl -> edge_of t y <> None).
    { intros x P tl HP E y Hy. apply Hlens.
      - apply (rpath_incl _ _ _ HP). rewrite E. apply in_or_app. right. right. auto.
      - pose proof (rpath_NoDup _ _ _ HN HP) as Hnd. destruct (rpath_head _ _ _ HP) as (q' & Eq).
        rewrite (Rep_rid _ _ _ _ _ HR) in Eq. intros ->. rewrite E in Hnd, Eq.
        change (pc ++ c :: tl) with (pc ++ [c] ++ tl) in *. rewrite app_assoc in Hnd.
        apply NoDup_app_iff in Hnd as (_ & _ & Hdis). apply (Hdis root); auto.
        destruct pc; simpl in *; injection Eq as -> _; auto. }
    intros x Hx. apply in_app_or in Hx as [Hx|Hx]; [eapply (Hone a Pa ta)|eapply (Hone b Pb tb)]; eauto. }
  assert (Hsum : forall l, Permutation l (ta ++ tb) -> lsum (l0 O) l = fold_left (ladd O) (map elen (ta ++ tb)) (l0 O)).
  { intros l Hp. unfold lsum. apply (Stats.fold_ladd_perm O ladd_assoc ladd_comm). apply Permutation_map; auto. }
  split.
  - rewrite Hd. f_equal. f_equal.
    + rewrite path_len_Some.
      * rewrite present_elen by auto. f_equal. symmetry. apply Hsum. unfold walk. fold ta tb.
        apply Permutation_app_tail. apply Permutation_sym, Permutation_rev.
      * intros Hin. apply in_map_iff in Hin as (x & Hx & Hin). apply (Hedges x); auto.
    + unfold walk. fold ta tb. rewrite !app_length, rev_length. reflexivity.
  - rewrite (Hsum (walk Pa Pb)).
    + apply Hsum. unfold walk. rewrite (cpl_sym Pb Pa). fold ta tb.
      eapply Permutation_trans; [apply Permutation_app_comm|]. apply Permutation_app_head.
      apply Permutation_sym, Permutation_rev.
    + unfold walk. fold ta tb. apply Permutation_app_tail. apply Permutation_sym, Permutation_rev.
Qed.

(* item 5 *)
Theorem dmr_cell :
  exists m tc, distance_matrix_recursive O (tree_of t) = Ok (m, tc) /\
    mtaxa m = stable_sort str_leb (map (lab t) (get_leaves t)) /\ msize m = n_leaves t /\
    length (mcells m) = n_leaves t * (n_leaves t - 1) / 2 /\
    forall a b, In a (rleaves r) -> In b (rleaves r) -> a <> b ->
      exists d cnt, get_distance O t a b = Ok (Some d, cnt) /\
        nth_error (mcells m) (tril_idx (rk t a) (rk t b)) = Some d /\
        Matrix.dm_get O m (lab t a) (lab t b) = Ok d.
Proof.
  destruct (dmr_outcome Hnamed Huniq) as [(cells & H & Hl & Hcells)|[_ Hm]]; [|destruct (not_missing Hm)].
  do 2 eexists. split; [exact H|]. cbn [mtaxa msize mcells]. split; [reflexivity|]. split; [reflexivity|].
  split; [exact Hl|]. intros a b Ha Hb Hne.
  assert (Hia : In a (ids r)) by (apply rleaves_incl_ids; auto).
  assert (Hib : In b (ids r)) by (apply rleaves_incl_ids; auto).
  destruct (proj1 (rpath_total a r) Hia) as (Pa & HPa). destruct (proj1 (rpath_total b r) Hib) as (Pb & HPb).
  destruct (walk_dist a b Pa Pb Hia Hib HPa HPb) as [Hd Hsym].
  exists (lsum (l0 O) (walk Pa Pb)), (length (walk Pa Pb)). split; auto.
  assert (Hcell : nth_error cells (tril_idx (rk t a) (rk t b)) = Some (lsum (l0 O) (walk Pa Pb))).
  { assert (Hrow : forall x y Px Py, In x (rleaves r) -> In y (rleaves r) -> y <> x ->
              rpath x r = Some Px -> rpath y r = Some Py -> nth y (rowf x) (linf O) = lsum (l0 O) (walk Px Py)).
    { intros x y Px Py Hx Hy Hyx HPx HPy. destruct (tip_row_cases x Hx) as [(_ & _ & Hv)|[_ Hm]]; [|destruct (not_missing Hm)].
      apply nth_error_nth. eapply Hv; eauto. }
    destruct (pairs_total (get_leaves t) a b) as [Hp|Hp]; try (apply (gl_in); auto); auto.
    - change (tril_idx (rk t a) (rk t b)) with (cell t a b). rewrite (Hcells a b Hp). f_equal.
      eapply Hrow; eauto.
    - rewrite tril_sym. change (tril_idx (rk t b) (rk t a)) with (cell t b a). rewrite (Hcells b a Hp). f_equal.
      rewrite <- Hsym. eapply Hrow; eauto. }
  split; auto.
  rewrite (get_spec O _ (lab t a) (lab t b) (rk t a) (rk t b)); cbn [mtaxa msize mcells].
  - rewrite Hcell. reflexivity.
  - intros E. apply Hne. apply (lab_inj Huniq); auto.
  - apply find_rank; auto.
  - apply find_rank; auto.
  - apply rk_spec; auto.
  - apply rk_spec; auto.
Qed.

(* the two computations return the same matrix *)
Theorem dm_agree m m' tc :
  distance_matrix O t = Ok m -> distance_matrix_recursive O (tree_of t) = Ok (m', tc) -> m' = m.
Proof.
  intros Hm Hm'.
  destruct (dm_lookup ladd_assoc ladd_comm ladd_0_l Hnamed Huniq m Hm) as (Htaxa & Hsize & Hlen & _).
  destruct dmr_cell as (m2 & tc2 & H2 & Htaxa' & Hsize' & Hlen' & Hc').
  rewrite Hm' in H2. injection H2 as <- <-.
  assert (Hcells : mcells m' = mcells m).
  { apply nth_error_ext_eq. intros k. destruct (Nat.lt_ge_cases k (n_leaves t * (n_leaves t - 1) / 2)) as [Hk|Hk].
    - pose proof (tril_surj (n_leaves t) k Hk) as Hs. destruct (Matrix.tril_inv k) as [i j]. destruct Hs as (Hji & Hin & <-).
      rewrite <- leaf_order_length in Hin.
      destruct (nth_error (leaf_order t) i) as [a|] eqn:Ea; [|apply nth_error_None in Ea; lia].
      destruct (nth_error (leaf_order t) j) as [b|] eqn:Eb; [|apply nth_error_None in Eb; lia].
      assert (Hnd : NoDup (leaf_order t)).
      { eapply Permutation_NoDup; [apply Permutation_sym, leaf_order_perm|]. apply rleaves_NoDup; auto. }
      assert (Ha : In a (rleaves r)) by (eapply Permutation_in; [apply leaf_order_perm|eapply nth_error_In; eauto]).
      assert (Hb : In b (rleaves r)) by (eapply Permutation_in; [apply leaf_order_perm|eapply nth_error_In; eauto]).
      assert (Hra : rk t a = i) by (unfold rk; rewrite (index_of_nth_NoDup _ Hnd i a Ea); reflexivity).
      assert (Hrb : rk t b = j) by (unfold rk; rewrite (index_of_nth_NoDup _ Hnd j b Eb); reflexivity).
      assert (Hne : a <> b).
      { intros ->. rewrite Hra in Hrb. lia. }
      destruct (Hc' a b Ha Hb Hne) as (d & cnt & Hd & Hcell' & _).
      destruct (dm_cell ladd_assoc ladd_comm ladd_0_l Hnamed Huniq m Hlens Hm a b Ha Hb Hne)
        as (s & d2 & cnt2 & _ & _ & _ & Hd2 & Hcell & _).
      rewrite Hd in Hd2. injection Hd2 as <- _. rewrite Hra, Hrb in *. congruence.
    - rewrite (proj2 (nth_error_None _ _)) by lia. rewrite (proj2 (nth_error_None _ _)) by lia. reflexivity. }
  destruct m as [s1 x1 c1], m' as [s2 x2 c2]. cbn [mtaxa msize mcells] in *. congruence.
Qed.

End RecLaws.


End Core.
End DM.

(* ================================================================================================ *)
(* 5. property C08, stated on the setting record [Good] (one tree, every live slot in it, leaves all  *)
(*    named with pairwise distinct names); the algebra of lengths enters as explicit hypotheses       *)
(* ================================================================================================ *)
Section C08.
Context {L : Type}.
Variable O : LenOps L.
Variables (t : @arena L) (root : nat) (r : rtree).
Hypothesis G : Good t root r.

Let HR := g_rep _ _ _ G.
Let HN := g_nd _ _ _ G.
Let HL := g_live _ _ _ G.
Let Hnamed := g_named _ _ _ G.
Let Huniq := g_uniq _ _ _ G.

(* never a panic, never out of fuel; the fast variant always succeeds (missing lengths count 1.0) *)
Theorem C08_no_panic :
  (exists m, distance_matrix O t = Ok m /\
     mtaxa m = stable_sort str_leb (map (lab t) (get_leaves t)) /\ msize m = n_leaves t /\
     length (mcells m) = n_leaves t * (n_leaves t - 1) / 2) /\
  ((exists m tc, distance_matrix_recursive O (tree_of t) = Ok (m, tc)) \/
   distance_matrix_recursive O (tree_of t) = Err MissingBranchLengths).
Proof.
  split.
  - destruct (dm_result O t root r HR HN HL Hnamed) as (m & Hm & H1 & H2 & H3 & _). eauto.
  - apply (dmr_no_panic O t root r HR HN HL Hnamed Huniq).
Qed.

Section Laws.
Hypothesis ladd_assoc : forall x y z, ladd O x (ladd O y z) = ladd O (ladd O x y) z.
Hypothesis ladd_comm : forall x y, ladd O x y = ladd O y x.
Hypothesis ladd_0_l : forall x, ladd O (l0 O) x = x.

(* all branch lengths present: both computations return the same matrix, whose taxa are the sorted leaf
   names and whose entries are the path lengths reported by get_distance *)
Theorem C08_lengths :
  (forall x, In x (ids r) -> x <> root -> edge_of t x <> None) ->
  exists m tc,
    distance_matrix O t = Ok m /\ distance_matrix_recursive O (tree_of t) = Ok (m, tc) /\
    mtaxa m = stable_sort str_leb (map (lab t) (get_leaves t)) /\ msize m = n_leaves t /\
    length (mcells m) = n_leaves t * (n_leaves t - 1) / 2 /\
    forall a b, In a (rleaves r) -> In b (rleaves r) ->
      exists d cnt, get_distance O t a b = Ok (Some d, cnt) /\ Matrix.dm_get O m (lab t a) (lab t b) = Ok d.
Proof.
  intros Hlens.
  destruct (dm_result O t root r HR HN HL Hnamed) as (m & Hm & H1 & H2 & H3 & _).
  destruct (dmr_cell O t root r HR HN HL Hnamed Huniq ladd_assoc ladd_comm Hlens) as (m' & tc & Hm' & _).
  pose proof (dm_agree O t root r HR HN HL Hnamed Huniq ladd_assoc ladd_comm ladd_0_l Hlens m m' tc Hm Hm') as ->.
  exists m, tc. repeat split; auto. intros a b Ha Hb. destruct (Nat.eq_dec a b) as [->|Hne].
  - exists (l0 O), 0. split; [apply dist_self|apply get_diag].
  - destruct (dm_cell O t root r HR HN HL ladd_assoc ladd_comm ladd_0_l Hnamed Huniq m Hlens Hm a b Ha Hb Hne)
      as (s & d & cnt & _ & _ & _ & Hd & _ & Hg). eauto.
Qed.

(* no branch length at all: the fast computation returns path edge counts (as sums of 1.0) *)
Theorem C08_topology :
  (forall x, In x (ids r) -> edge_of t x = None) ->
  exists m,
    distance_matrix O t = Ok m /\
    mtaxa m = stable_sort str_leb (map (lab t) (get_leaves t)) /\ msize m = n_leaves t /\
    forall a b, In a (rleaves r) -> In b (rleaves r) -> a <> b ->
      exists cnt, get_distance O t a b = Ok (None, cnt) /\
                  Matrix.dm_get O m (lab t a) (lab t b) = Ok (lrep O cnt).
Proof.
  intros Hnol.
  destruct (dm_result O t root r HR HN HL Hnamed) as (m & Hm & H1 & H2 & _).
  exists m. repeat split; auto. intros a b Ha Hb Hne.
  destruct (dm_topo O t root r HR HN HL ladd_assoc ladd_comm ladd_0_l Hnamed Huniq m Hnol Hm a b Ha Hb Hne)
    as (s & ka & kb & _ & _ & _ & _ & Hd & _ & Hg). eauto.
Qed.

End Laws.
End C08.

Print Assumptions dm_empty.
Print Assumptions dm_unnamed.
Print Assumptions dm_no_panic.
Print Assumptions dm_taxa.
Print Assumptions rev_level_child_first.
Print Assumptions dm_run.
Print Assumptions cache_ok_shape.
Print Assumptions dm_result.
Print Assumptions branch_paths.
Print Assumptions dm_lookup.
Print Assumptions dm_cell.
Print Assumptions dm_topo.
Print Assumptions dmr_down.
Print Assumptions dmr_up.
Print Assumptions dmr_row.
Print Assumptions dmr_outcome.
Print Assumptions dmr_no_panic.
Print Assumptions dmr_taxa.
Print Assumptions dmr_cell.
Print Assumptions dm_agree.
Print Assumptions C08_no_panic.
Print Assumptions C08_lengths.
Print Assumptions C08_topology.

(* ================================================================================================ *)
(* 6. a concrete instance: the hypotheses are satisfiable and the model computes what is expected     *)
(* ================================================================================================ *)
Module Example.
Definition ON : LenOps nat :=
  Build_LenOps nat 0 1 Nat.add Nat.sub Nat.mul Nat.div (fun x => x) Nat.ltb Nat.eqb (fun n => n) 1000.
Definition mk (i : nat) (nm : option str) (p : option nat) (ch : list nat) (e : option nat)
              (es : list (nat * nat)) (d : nat) : @node nat :=
  mkNode i nm p ch e None es d false.
Definition A : str := [65%N]. Definition B : str := [66%N]. Definition C : str := [67%N].
(* ((B:1,A:2):3,(C:4):5) *)
Definition ex : @arena nat :=
  [ mk 0 None None [1; 4] None [(1, 3); (4, 5)] 0;
    mk 1 None (Some 0) [2; 3] (Some 3) [(2, 1); (3, 2)] 1;
    mk 2 (Some B) (Some 1) [] (Some 1) [] 2;
    mk 3 (Some A) (Some 1) [] (Some 2) [] 2;
    mk 4 None (Some 0) [5] (Some 5) [(5, 4)] 1;
    mk 5 (Some C) (Some 4) [] (Some 4) [] 2 ].
Definition exr : rtree := RT 0 [RT 1 [RT 2 []; RT 3 []]; RT 4 [RT 5 []]].

Lemma ex_good : Good ex 0 exr.
Proof.
  constructor.
  - unfold exr.
    repeat (econstructor; try reflexivity;
            try (intros c nc Hin Hn; simpl in Hin; intuition; subst c; simpl in Hn; injection Hn as <-; reflexivity);
            try (simpl; intros c Hc; repeat (destruct c as [|c]; simpl in *; try tauto; try congruence))).
  - unfold exr, ids. simpl. repeat constructor; simpl; intuition; try discriminate.
  - intros i (n & Hn & Hd). unfold exr, ids. simpl.
    do 6 (destruct i as [|i]; [tauto|]). destruct i; discriminate.
  - unfold exr. simpl. intros i Hi. intuition; subst; discriminate.
  - unfold exr. simpl. repeat constructor; simpl; intuition; try discriminate.
Qed.

Example ex_fast : distance_matrix ON ex = Ok (mkDmat 3 [A; B; C] [3; 14; 13]).
Proof. vm_compute. reflexivity. Qed.

Example ex_recursive :
  (match distance_matrix_recursive ON (tree_of ex) with Ok (m, _) => Some m | _ => None end) =
  Some (mkDmat 3 [A; B; C] [3; 14; 13]).
Proof. vm_compute. reflexivity. Qed.

Example ex_C08 :
  exists m tc,
    distance_matrix ON ex = Ok m /\ distance_matrix_recursive ON (tree_of ex) = Ok (m, tc) /\
    mtaxa m = stable_sort str_leb (map (lab ex) (get_leaves ex)) /\ msize m = n_leaves ex /\
    length (mcells m) = n_leaves ex * (n_leaves ex - 1) / 2 /\
    forall a b, In a (rleaves exr) -> In b (rleaves exr) ->
      exists d cnt, get_distance ON ex a b = Ok (Some d, cnt) /\ Matrix.dm_get ON m (lab ex a) (lab ex b) = Ok d.
Proof.
  apply (C08_lengths ON ex 0 exr ex_good).
  - intros; simpl; lia.
  - intros; simpl; lia.
  - intros; reflexivity.
  - intros x Hx Hne. unfold exr, ids in Hx. simpl in Hx.
    intuition; subst; try congruence; unfold edge_of; simpl; discriminate.
Qed.
End Example.

Print Assumptions Example.ex_C08.
