(* WFOps.v — C03: every editing operation preserves the structural invariant.
   The invariant is WFS (RepLib.v) = WF (Spec.v) + strictly increasing keys in every child-edge map
   (WF alone is not preserved by prune: edge_remove drops only the first entry for a key). *)
From PT Require Import Arena Spec.
From Coq Require Import Permutation Sorted.
From PT Require Import RepLib.

Local Arguments ids : simpl never.

Section WFOps.
Context {L : Type}.
Notation arena := (@arena L).
Notation node := (@node L).

(* ---- initial states ------------------------------------------------------------------------------------ *)
Lemma init_wf : WFS (@nil node).
Proof.
  split.
  - left. intros i (n & H & _). destruct i; discriminate.
  - intros i n H. destruct i; discriminate.
Qed.

Lemma add_root_wf nm c : WFS (fst (add (@nil node) (new_node nm c))).
Proof.
  simpl. split.
  - right. exists 0, (RT 0 []). splits.
    + eapply Rep_node with (n := set_nid (new_node nm c) 0); simpl; auto; try tauto; congruence.
    + rewrite ids_RT. simpl. repeat constructor. simpl; tauto.
    + intros i (n & H & _). destruct i as [|[|i]]; try discriminate. rewrite ids_RT; simpl; auto.
  - intros i n H. destruct i as [|[|i]]; try discriminate. injection H as <-. constructor.
Qed.

(* ---- add_child ------------------------------------------------------------------------------------------ *)
Lemma replace_nth_app_last {A} (l : list A) x y : replace_nth (length l) y (l ++ [x]) = l ++ [y].
Proof. induction l; simpl; auto. f_equal; auto. Qed.

Definition leaf_node (id : nat) (nm cm : option str) (parent : nat) (e : option L) (d : nat) : node :=
  mkNode id nm (Some parent) [] e cm [] d false.

Lemma get_app_lt (t : arena) x j : j < length t -> get (t ++ [x]) j = get t j.
Proof. intros. unfold get. rewrite nth_error_app_lt; auto. Qed.

Lemma get_app_last (t : arena) x : ndeleted x = false -> get (t ++ [x]) (length t) = Ok x.
Proof. intros H. unfold get. rewrite nth_error_app_last, H. auto. Qed.

Lemma get_lt (t : arena) i n : get t i = Ok n -> i < length t.
Proof. intros H. apply get_Ok in H as [H _]. eapply nth_error_Some_lt; eauto. Qed.

Lemma add_child_Ok (t : arena) nm cm parent e p :
  get t parent = Ok p ->
  add_child t (new_node nm cm) parent e =
    Ok (replace_nth parent (node_add_child p (length t) e)
           (t ++ [leaf_node (length t) nm cm parent e (ndepth p + 1)]), length t).
Proof.
  intros Hg. unfold add_child. pose proof (get_lt _ _ _ Hg) as Hlt.
  destruct (Nat.leb (length t) parent) eqn:E; [apply Nat.leb_le in E; lia|].
  rewrite Hg. simpl. unfold add.
  erewrite upd_Ok by (apply get_app_last; reflexivity). simpl.
  rewrite replace_nth_app_last.
  erewrite upd_Ok by (rewrite get_app_lt; eauto). simpl. reflexivity.
Qed.

Lemma add_child_inv (t : arena) nm cm parent e t' id :
  add_child t (new_node nm cm) parent e = Ok (t', id) ->
  exists p, get t parent = Ok p /\ id = length t /\
    t' = replace_nth parent (node_add_child p (length t) e)
           (t ++ [leaf_node (length t) nm cm parent e (ndepth p + 1)]).
Proof.
  intros H. destruct (get t parent) as [p| | |] eqn:Hg.
  - rewrite (add_child_Ok _ _ _ _ _ _ Hg) in H. injection H as <- <-. eauto.
  - unfold add_child in H. rewrite Hg in H. destruct (Nat.leb (length t) parent); discriminate.
  - unfold add_child in H. rewrite Hg in H. destruct (Nat.leb (length t) parent); discriminate.
  - unfold add_child in H. rewrite Hg in H. destruct (Nat.leb (length t) parent); discriminate.
Qed.

(* node_add_child / node_remove_child: field lemmas *)
Lemma nac_fields (n : node) c e :
  nid (node_add_child n c e) = nid n /\ nparent (node_add_child n c e) = nparent n /\
  npedge (node_add_child n c e) = npedge n /\ ndepth (node_add_child n c e) = ndepth n /\
  ndeleted (node_add_child n c e) = ndeleted n /\ nchildren (node_add_child n c e) = nchildren n ++ [c].
Proof. destruct e; simpl; auto 10. Qed.

Lemma nac_edge_eq (n : node) c e :
  edge_get (nedges n) c = None -> edge_get (nedges (node_add_child n c e)) c = e.
Proof. destruct e; simpl; auto. intros _. apply edge_get_insert_eq. Qed.

Lemma nac_edge_neq (n : node) c e c' :
  c' <> c -> edge_get (nedges (node_add_child n c e)) c' = edge_get (nedges n) c'.
Proof. destruct e; simpl; auto. intros. apply edge_get_insert_neq; auto. Qed.

Lemma nac_sorted (n : node) c e : ksorted (nedges n) -> ksorted (nedges (node_add_child n c e)).
Proof. destruct e; simpl; auto. apply ksorted_insert. Qed.

Lemma nrc_Some (n : node) c :
  In c (nchildren n) ->
  exists n' l1 l2, node_remove_child n c = Some n' /\ nchildren n = l1 ++ c :: l2 /\ ~ In c l1 /\
    nchildren n' = l1 ++ l2 /\ nedges n' = edge_remove (nedges n) c /\
    nid n' = nid n /\ nparent n' = nparent n /\ npedge n' = npedge n /\ ndepth n' = ndepth n /\
    ndeleted n' = ndeleted n.
Proof.
  intros Hin. unfold node_remove_child. destruct (index_of_In _ _ Hin) as (k & Hk). rewrite Hk.
  destruct (remove_at_index_of _ _ _ Hk) as (l1 & l2 & Heq & Hn & Hr).
  eexists _, l1, l2. splits; eauto.
Qed.

Lemma nrc_inv (n : node) c n' :
  node_remove_child n c = Some n' ->
  exists l1 l2, nchildren n = l1 ++ c :: l2 /\ ~ In c l1 /\
    nchildren n' = l1 ++ l2 /\ nedges n' = edge_remove (nedges n) c /\
    nid n' = nid n /\ nparent n' = nparent n /\ npedge n' = npedge n /\ ndepth n' = ndepth n /\
    ndeleted n' = ndeleted n.
Proof.
  unfold node_remove_child. destruct (index_of c (nchildren n)) as [k|] eqn:Hk; [|discriminate].
  intros [= <-]. destruct (remove_at_index_of _ _ _ Hk) as (l1 & l2 & Heq & Hn & Hr).
  exists l1, l2. splits; eauto.
Qed.

Lemma nrc_None (n : node) c : node_remove_child n c = None -> ~ In c (nchildren n).
Proof.
  unfold node_remove_child. destruct (index_of c (nchildren n)) eqn:E; [discriminate|].
  intros _. apply index_of_None; auto.
Qed.

(* slots of [replace_nth parent X (t ++ [Y])] *)
Lemma slots_add_leaf (t : arena) parent X Y :
  parent < length t ->
  let t' := replace_nth parent X (t ++ [Y]) in
  nth_error t' parent = Some X /\ nth_error t' (length t) = Some Y /\
  (forall j, j <> parent -> j <> length t -> nth_error t' j = nth_error t j) /\
  length t' = S (length t).
Proof.
  intros Hlt t'. unfold t'. splits.
  - apply nth_error_replace_nth_eq. rewrite app_length. simpl. lia.
  - rewrite nth_error_replace_nth_neq by lia. apply nth_error_app_last.
  - intros j H1 H2. rewrite nth_error_replace_nth_neq by auto.
    destruct (Nat.lt_ge_cases j (length t)).
    + apply nth_error_app_lt; auto.
    + rewrite (proj2 (nth_error_None t j)) by auto. apply nth_error_None. rewrite app_length. simpl. lia.
  - rewrite replace_nth_length, app_length. simpl. lia.
Qed.

Lemma add_leaf_wf (t : arena) parent p e nm cm :
  WFS t -> get t parent = Ok p ->
  WFS (replace_nth parent (node_add_child p (length t) e)
         (t ++ [leaf_node (length t) nm cm parent e (ndepth p + 1)])).
Proof.
  intros [Hwf Hse] Hg. pose proof (get_lt _ _ _ Hg) as Hlt.
  apply get_Ok in Hg as [Hnp Hdp].
  set (new := length t).
  set (X := node_add_child p new e). set (Y := leaf_node new nm cm parent e (ndepth p + 1)).
  destruct (slots_add_leaf t parent X Y Hlt) as (HsP & Hsnew & Hsfr & Hslen).
  set (t' := replace_nth parent X (t ++ [Y])) in *. fold new in Hsnew, Hsfr.
  destruct (nac_fields p new e) as (Fid & Fpar & Fpe & Fdep & Fdel & Fch). fold X in Fid, Fpar, Fpe, Fdep, Fdel, Fch.
  split.
  2:{ apply SortedEdges_replace; [apply SortedEdges_app; auto; constructor|].
      apply nac_sorted. eauto. }
  assert (HlP : live t parent) by (exists p; auto).
  destruct (WF_edit t parent Hwf HlP)
    as (root & r & sx & px & dx & rest & HR & Hnd & Hlive & HRx & Hperm & Hndx & Hndr & Hdisj & Hrl & _ & Hk).
  destruct (Rep_inv _ _ _ _ _ HRx) as (n & cs & -> & Hn & Hdel & Hid & Hp & Hd & HF & He1 & He2).
  assert (n = p) by congruence. subst n.
  assert (Hnew_not : forall j, live t j -> j <> new).
  { intros j Hj. apply live_lt in Hj. unfold new. lia. }
  assert (Hsx_live : forall j, In j (ids (RT parent cs)) -> live t j).
  { intros j Hj. eapply Rep_ids_live; eauto. }
  rewrite ids_RT in Hndx. apply NoDup_cons_iff in Hndx as [HPcs Hndcs].
  assert (Hfr_cs : forall j, In j (flat_map ids cs) -> nth_error t' j = nth_error t j).
  { intros j Hj. apply Hsfr; [intros ->; auto|]. apply Hnew_not. apply Hsx_live. rewrite ids_RT; simpl; auto. }
  pose proof (Forall2_Rep_rid _ _ _ _ _ HF) as Hch.
  assert (Hnone : edge_get (nedges p) new = None).
  { destruct (edge_get (nedges p) new) eqn:E; auto. exfalso.
    assert (Hin : In new (nchildren p)) by (apply He2; congruence).
    eapply (Hnew_not new); auto. apply Hsx_live. rewrite ids_RT. right.
    apply In_map_rid_flat. congruence. }
  apply (Hk t' (RT parent (cs ++ [RT new []]))).
  - intros j Hj. apply Hsfr.
    + intros ->. eapply Hdisj; eauto. rewrite ids_RT; simpl; auto.
    + apply Hnew_not; auto.
  - apply Rep_node with (n := X); auto; try congruence.
    + rewrite Fch. apply Forall2_app.
      * eapply Forall2_Rep_frame; eauto.
      * constructor; [|constructor].
        apply Rep_node with (n := Y); simpl; auto; try tauto; try congruence.
        lia.
    + intros c nc Hc Hnc. rewrite Fch in Hc. apply in_app_or in Hc as [Hc|[<-|[]]].
      * assert (Hcf : In c (flat_map ids cs)) by (apply In_map_rid_flat; congruence).
        rewrite Hfr_cs in Hnc by auto.
        unfold X. rewrite nac_edge_neq; eauto.
        apply Hnew_not. apply Hsx_live. rewrite ids_RT; simpl; auto.
      * rewrite Hsnew in Hnc. injection Hnc as <-. simpl. unfold X. apply nac_edge_eq; auto.
    + intros c Hc. rewrite Fch. apply in_or_app.
      destruct (Nat.eq_dec c new) as [->|Hne]; [right; simpl; auto|left].
      unfold X in Hc. rewrite nac_edge_neq in Hc; auto.
  - intros n n' Hn1 Hn2. assert (n = p) by congruence. assert (n' = X) by congruence. subst. auto.
  - rewrite ids_RT, flat_map_app. simpl.
    apply NoDup_cons_iff. split.
    + intros Hin. apply in_app_or in Hin as [Hin|[Hin|[]]]; auto.
      eapply (Hnew_not parent); eauto.
    + apply NoDup_app_iff. splits; auto.
      * repeat constructor. simpl; tauto.
      * intros j Hj [<-|[]]. eapply (Hnew_not new); auto. apply Hsx_live. rewrite ids_RT; simpl; auto.
  - intros j Hj Hjr. rewrite ids_RT, flat_map_app in Hj. simpl in Hj.
    destruct Hj as [<-|Hj]; [eapply Hdisj; eauto; rewrite ids_RT; simpl; auto|].
    apply in_app_or in Hj as [Hj|[<-|[]]].
    + eapply Hdisj; eauto. rewrite ids_RT; simpl; auto.
    + eapply (Hnew_not new); auto.
  - intros j Hj. rewrite ids_RT, flat_map_app. simpl.
    destruct (Nat.eq_dec j parent) as [->|Hne1]; [left; left; auto|].
    destruct (Nat.eq_dec j new) as [->|Hne2].
    { left. right. apply in_or_app. right. simpl; auto. }
    assert (Hlj : live t j).
    { destruct Hj as (nj & Hnj & Hdj). rewrite Hsfr in Hnj by auto. exists nj; auto. }
    apply Hlive in Hlj. eapply Permutation_in in Hlj; [|exact Hperm].
    apply in_app_or in Hlj as [Hlj|Hlj]; auto.
    rewrite ids_RT in Hlj. destruct Hlj as [?|Hlj]; [congruence|].
    left. right. apply in_or_app; auto.
Qed.

Theorem add_child_wf (t t' : arena) name comment parent e id :
  WFS t -> add_child t (new_node name comment) parent e = Ok (t', id) -> WFS t'.
Proof.
  intros Hwf H. apply add_child_inv in H as (p & Hg & -> & ->). apply add_leaf_wf; auto.
Qed.

(* ---- rescale --------------------------------------------------------------------------------------------- *)
Section Rescale.
Variable O : LenOps L.

Lemma nth_error_rescale (t : arena) f i :
  nth_error (rescale O t f) i = option_map (rescale_node O f) (nth_error t i).
Proof. unfold rescale. apply nth_error_map. Qed.

Lemma Rep_rescale (t : arena) f : forall r p d i, Rep t p d i r -> Rep (rescale O t f) p d i r.
Proof.
  induction r using rtree_ind'. intros p d j HR.
  destruct (Rep_inv _ _ _ _ _ HR) as (n & cs' & Heq & Hn & Hdel & Hid & Hp & Hd & HF & He1 & He2).
  injection Heq as -> ->.
  apply Rep_node with (n := rescale_node O f n); simpl; auto.
  - rewrite nth_error_rescale, Hn. reflexivity.
  - eapply Forall2_impl_In; [|eassumption]. simpl. intros a b _ Hb HRb.
    rewrite Forall_forall in H. eapply H; eauto.
  - intros c nc Hc Hnc. rewrite nth_error_rescale in Hnc.
    destruct (nth_error t c) as [nc0|] eqn:E; simpl in Hnc; [|discriminate].
    injection Hnc as <-. simpl. rewrite (edge_get_map (fun e => lmul O e f)). f_equal. eauto.
  - intros c Hc. rewrite (edge_get_map (fun e => lmul O e f)) in Hc. apply He2.
    destruct (edge_get (nedges n) c); simpl in *; congruence.
Qed.

Lemma live_rescale (t : arena) f i : live (rescale O t f) i <-> live t i.
Proof.
  unfold live. split.
  - intros (n & Hn & Hd). rewrite nth_error_rescale in Hn.
    destruct (nth_error t i) as [n0|]; simpl in Hn; [|discriminate]. injection Hn as <-. eauto.
  - intros (n & Hn & Hd). exists (rescale_node O f n). rewrite nth_error_rescale, Hn. auto.
Qed.

Theorem rescale_wf (t : arena) f : WFS t -> WFS (rescale O t f).
Proof.
  intros [Hwf Hse]. split.
  - destruct Hwf as [Hno|(root & r & HR & Hnd & Hlive)].
    + left. intros i Hi. apply (proj1 (live_rescale _ _ _)) in Hi. eapply Hno; eauto.
    + right. exists root, r. splits; auto.
      * apply Rep_rescale; auto.
      * intros i Hi. apply (proj1 (live_rescale _ _ _)) in Hi. auto.
  - intros i n Hn. rewrite nth_error_rescale in Hn.
    destruct (nth_error t i) as [n0|] eqn:E; simpl in Hn; [|discriminate]. injection Hn as <-.
    unfold ksorted. simpl. rewrite (keys_map (fun e => lmul O e f)). eapply Hse; eauto.
Qed.
End Rescale.

(* ---- reset_depths ---------------------------------------------------------------------------------------- *)
Lemma get_root_WF (t : arena) root r x :
  Rep t None 0 root r -> (forall i, live t i -> In i (ids r)) -> get_root t = Ok x -> x = root.
Proof.
  intros HR Hlive. unfold get_root.
  destruct (filter (fun n : node => negb (ndeleted n) && is_root n) t) as [|n l] eqn:E; [discriminate|].
  intros [= <-].
  assert (Hin : In n (filter (fun n : node => negb (ndeleted n) && is_root n) t)) by (rewrite E; simpl; auto).
  apply filter_In in Hin as [Hin Hb]. apply andb_prop in Hb as [Hb1 Hb2].
  apply In_nth_error in Hin as (j & Hj).
  assert (Hlj : live t j). { exists n. split; auto. destruct (ndeleted n); simpl in *; congruence. }
  apply Hlive in Hlj.
  rewrite (Rep_ids_nid _ _ _ _ _ _ _ HR Hlj Hj).
  eapply Rep_root_unique; eauto. unfold is_root in Hb2. destruct (nparent n); congruence.
Qed.

Lemma get_root_live (t : arena) x : get_root t = Ok x -> exists j, live t j.
Proof.
  unfold get_root.
  destruct (filter (fun n : node => negb (ndeleted n) && is_root n) t) as [|n l] eqn:E; [discriminate|].
  intros _.
  assert (Hin : In n (filter (fun n : node => negb (ndeleted n) && is_root n) t)) by (rewrite E; simpl; auto).
  apply filter_In in Hin as [Hin Hb]. apply andb_prop in Hb as [Hb1 Hb2].
  apply In_nth_error in Hin as (j & Hj).
  exists j, n. split; auto. destruct (ndeleted n); simpl in *; congruence.
Qed.

Theorem reset_depths_wf (t t' : arena) : WFS t -> reset_depths t = Ok t' -> WFS t'.
Proof.
  intros [Hwf Hse] H. unfold reset_depths in H.
  apply bind_Ok in H as (x & Hroot & H).
  destruct Hwf as [Hno|(root & r & HR & Hnd & Hlive)].
  { destruct (get_root_live _ _ Hroot) as (j & Hj). exfalso. eapply Hno; eauto. }
  pose proof (get_root_WF _ _ _ _ HR Hlive Hroot) as ->.
  pose proof (Rep_Rep0 _ _ _ _ _ HR) as HR0.
  destruct (reset_depth_f_spec r (fuel_of t) t None root 0 HR0 Hnd (Rep0_height_fuel _ _ _ _ HR0 Hnd))
    as (t2 & Hr & HR2 & Hlen & Hfr & Hdo).
  rewrite Hr in H. injection H as <-.
  split.
  - right. exists root, r. splits; auto. intros i Hi. apply Hlive. eapply depth_only_live_inv; eauto.
  - eapply SortedEdges_depth_only; eauto.
Qed.

(* ---- prune ------------------------------------------------------------------------------------------------ *)
Definition prune_pre (t : arena) (px : option nat) (x : nat) (r : rtree) : Prop :=
  match px with
  | Some P => ~ In P (ids r) /\ exists nP, get t P = Ok nP /\ In x (nchildren nP)
  | None => True
  end.

Definition prune_post_parent (t t' : arena) (px : option nat) (x : nat) : Prop :=
  match px with
  | Some P => forall nP, nth_error t P = Some nP ->
                exists nP', node_remove_child nP x = Some nP' /\ nth_error t' P = Some nP'
  | None => True
  end.

Definition prune_spec (r : rtree) : Prop :=
  forall fuel (t : arena) px d x,
    Rep t px d x r -> NoDup (ids r) -> rheight r < fuel -> SortedEdges t -> prune_pre t px x r ->
    exists t', prune_f fuel t x = Ok t' /\ length t' = length t /\
      (forall j, In j (ids r) -> nth_error t' j = Some tombstone) /\
      (forall j, ~ In j (ids r) -> px <> Some j -> nth_error t' j = nth_error t j) /\
      prune_post_parent t t' px x /\ SortedEdges t'.

Lemma tombstone_sorted : ksorted (nedges (@tombstone L)).
Proof. constructor. Qed.

Lemma prune_children_spec f x px d cs :
  Forall prune_spec cs ->
  forall (t1 : arena),
    Rep t1 px d x (RT x cs) -> NoDup (ids (RT x cs)) -> Forall (fun r => rheight r < f) cs ->
    SortedEdges t1 ->
    exists t' n', foldM (fun acc c => prune_f f acc c) (map rid cs) t1 = Ok t' /\ length t' = length t1 /\
      (forall j, In j (flat_map ids cs) -> nth_error t' j = Some tombstone) /\
      (forall j, ~ In j (flat_map ids cs) -> j <> x -> nth_error t' j = nth_error t1 j) /\
      nth_error t' x = Some n' /\ ndeleted n' = false /\ nparent n' = px /\ SortedEdges t'.
Proof.
  induction 1 as [|c cs Hc Hcs IH]; intros t1 HR Hnd Hh Hse.
  - destruct (Rep_inv _ _ _ _ _ HR) as (n & cs' & Heq & Hn & Hdel & Hid & Hp & Hd & HF & He1 & He2).
    exists t1, n. simpl. splits; auto; tauto.
  - destruct (Rep_inv _ _ _ _ _ HR) as (n & cs0 & Heq & Hn & Hdel & Hid & Hp & Hd & HF & He1 & He2).
    injection Heq as <-.
    inversion HF as [|k ? ks' ? HRc HF' Hks Hcl]. clear HF.
    rewrite ids_RT in Hnd. simpl in Hnd. apply NoDup_cons_iff in Hnd as [Hx Hnd].
    apply NoDup_app_iff in Hnd as (Hndc & Hndcs & Hdisj).
    apply Forall_cons_iff in Hh as [Hhc Hhcs].
    pose proof (Rep_rid _ _ _ _ _ HRc) as Hrid.
    assert (Hpre : prune_pre t1 (Some x) k c).
    { split. - intros Hin. apply Hx. apply in_or_app; auto.
      - exists n. split; [apply get_Ok; auto|]. rewrite <- Hks. simpl; auto. }
    destruct (Hc f t1 (Some x) (S d) k HRc Hndc Hhc Hse Hpre)
      as (t2 & Hr2 & Hlen2 & Htomb2 & Hfr2 & Hpost2 & Hse2).
    destruct (Hpost2 n Hn) as (n2 & Hrm & Hn2).
    destruct (nrc_inv _ _ _ Hrm) as (l1 & l2 & Hch & Hnl1 & Hch2 & Hed2 & Fid & Fpar & Fpe & Fdep & Fdel).
    assert (l1 = [] /\ l2 = ks') as [-> ->].
    { rewrite <- Hks in Hch. destruct l1 as [|a l1]; simpl in Hch.
      - injection Hch as <-. auto.
      - injection Hch as -> _. exfalso. apply Hnl1. simpl; auto. }
    simpl in Hch2.
    pose proof (Forall2_Rep_rid _ _ _ _ _ HF') as Hks'.
    assert (Hfr_cs : forall j, In j (flat_map ids cs) -> nth_error t2 j = nth_error t1 j).
    { intros j Hj. apply Hfr2.
      - intros Hjc. eapply Hdisj; eauto.
      - intros [= ->]. apply Hx. apply in_or_app; auto. }
    assert (HR2 : Rep t2 px d x (RT x cs)).
    { apply Rep_node with (n := n2); auto; try congruence.
      - rewrite Hch2. eapply Forall2_Rep_frame; eauto.
      - intros c0 nc Hc0 Hnc. rewrite Hch2 in Hc0.
        assert (Hc0f : In c0 (flat_map ids cs)) by (apply In_map_rid_flat; congruence).
        rewrite Hfr_cs in Hnc by auto. rewrite Hed2.
        rewrite edge_get_remove_neq.
        + apply He1; auto. rewrite <- Hks. simpl; auto.
        + intros ->. eapply Hdisj; eauto. rewrite <- Hrid. apply In_rid_ids.
      - intros c0 Hc0. rewrite Hed2 in Hc0. rewrite Hch2.
        destruct (Nat.eq_dec c0 k) as [->|Hne].
        + rewrite edge_get_remove_eq in Hc0; [congruence|]. eapply Hse; eauto.
        + rewrite edge_get_remove_neq in Hc0 by auto. apply He2 in Hc0. rewrite <- Hks in Hc0.
          destruct Hc0; congruence. }
    assert (Hnd2 : NoDup (ids (RT x cs))).
    { rewrite ids_RT. apply NoDup_cons_iff. split; auto. intros Hin. apply Hx. apply in_or_app; auto. }
    destruct (IH t2 HR2 Hnd2 Hhcs Hse2) as (t3 & n3 & Hr3 & Hlen3 & Htomb3 & Hfr3 & Hn3 & Hdel3 & Hp3 & Hse3).
    exists t3, n3. simpl. rewrite Hrid, Hr2. simpl. splits; auto.
    + congruence.
    + intros j Hj. apply in_app_or in Hj as [Hj|Hj]; auto.
      rewrite Hfr3; [apply Htomb2; auto | intros Hj'; apply (Hdisj j Hj Hj')
                    | intros ->; apply Hx; apply in_or_app; auto].
    + intros j Hj Hjx. rewrite Hfr3, Hfr2; auto.
      * intros Hj'. apply Hj. apply in_or_app; auto.
      * congruence.
      * intros Hj'. apply Hj. apply in_or_app; auto.
Qed.

Lemma prune_f_spec : forall r, prune_spec r.
Proof.
  induction r using rtree_ind'. intros fuel t px d x HR Hnd Hf Hse Hpre.
  destruct (Rep_inv _ _ _ _ _ HR) as (n & cs' & Heq & Hn & Hdel & Hid & Hp & Hd & HF & He1 & He2).
  injection Heq as -> ->.
  destruct fuel as [|f]; [lia|]. simpl prune_f.
  assert (Hg : get t x = Ok n) by (apply get_Ok; auto). rewrite Hg. simpl.
  assert (Hh : Forall (fun r => rheight r < f) cs').
  { apply Forall_forall. intros c Hc. simpl in Hf. pose proof (rheight_child c cs' Hc). lia. }
  destruct (prune_children_spec f x px d cs' H t HR Hnd Hh Hse)
    as (t1 & n1 & Hr1 & Hlen1 & Htomb1 & Hfr1 & Hn1 & Hdel1 & Hp1 & Hse1).
  rewrite (Forall2_Rep_rid _ _ _ _ _ HF), Hr1. simpl.
  assert (Hg1 : get t1 x = Ok n1) by (apply get_Ok; auto). rewrite Hg1. simpl. rewrite Hp1.
  rewrite ids_RT in Hnd. apply NoDup_cons_iff in Hnd as [Hx Hndcs].
  destruct px as [P|].
  - destruct Hpre as (HP & nP & HgP & HxP).
    assert (HPx : P <> x). { intros ->. apply HP. rewrite ids_RT; simpl; auto. }
    assert (HPcs : ~ In P (flat_map ids cs')). { intros Hin. apply HP. rewrite ids_RT; simpl; auto. }
    assert (HgP1 : get t1 P = Ok nP).
    { apply get_Ok in HgP as [HnP HdP]. apply get_Ok. rewrite Hfr1; auto. }
    rewrite HgP1. simpl.
    destruct (nrc_Some nP x HxP) as (nP' & l1 & l2 & Hrm & _ & _ & _ & HedP & _).
    rewrite Hrm. simpl.
    assert (HltP : P < length t1). { rewrite Hlen1. eapply get_lt; eauto. }
    assert (Hg2 : get (replace_nth P nP' t1) x = Ok n1).
    { apply get_Ok. rewrite nth_error_replace_nth_neq by auto. auto. }
    rewrite Hg2. simpl.
    eexists. splits; [reflexivity|..].
    + rewrite !replace_nth_length. auto.
    + intros j Hj. apply (proj1 (in_ids_RT _ _ _)) in Hj. destruct Hj as [<-|Hj].
      * eapply nth_error_replace_nth_eq'. rewrite nth_error_replace_nth_neq by auto. eauto.
      * assert (j <> x) by (intros ->; auto). assert (j <> P) by (intros ->; auto).
        rewrite !nth_error_replace_nth_neq by auto. auto.
    + intros j Hj HjP.
      assert (j <> x /\ ~ In j (flat_map ids cs')) as [? ?]
        by (split; intro Hx'; apply Hj; apply in_ids_RT; [subst; left; reflexivity | right; exact Hx']).
      assert (j <> P) by congruence.
      rewrite !nth_error_replace_nth_neq by auto. auto.
    + intros nP0 HnP0. apply get_Ok in HgP as [HnP HdP]. assert (nP0 = nP) by congruence. subst nP0.
      exists nP'. split; auto. rewrite nth_error_replace_nth_neq by auto.
      apply nth_error_replace_nth_eq; auto.
    + apply SortedEdges_replace; [|apply tombstone_sorted].
      apply SortedEdges_replace; auto. rewrite HedP. apply ksorted_remove.
      apply get_Ok in HgP as [HnP HdP]. eauto.
  - simpl. rewrite Hg1. simpl. eexists. splits; [reflexivity|..]; simpl; auto.
    + rewrite replace_nth_length. auto.
    + intros j Hj. apply (proj1 (in_ids_RT _ _ _)) in Hj. destruct Hj as [<-|Hj].
      * eapply nth_error_replace_nth_eq'; eauto.
      * assert (j <> x) by (intros ->; auto).
        rewrite nth_error_replace_nth_neq by auto. auto.
    + intros j Hj _.
      assert (j <> x /\ ~ In j (flat_map ids cs')) as [? ?]
        by (split; intro Hx'; apply Hj; apply in_ids_RT; [subst; left; reflexivity | right; exact Hx']).
      rewrite nth_error_replace_nth_neq by auto. auto.
    + apply SortedEdges_replace; auto. apply tombstone_sorted.
Qed.

Lemma prune_f_live (fuel : nat) (t t' : arena) x : prune_f fuel t x = Ok t' -> live t x.
Proof.
  destruct fuel; simpl; [discriminate|]. intros H. apply bind_Ok in H as (n & Hg & _).
  apply get_live. eauto.
Qed.

Theorem prune_wf (t t' : arena) x : WFS t -> prune t x = Ok t' -> WFS t'.
Proof.
  intros [Hwf Hse] Hpr. unfold prune in Hpr. pose proof (prune_f_live _ _ _ _ Hpr) as Hlx.
  destruct Hwf as [Hno|(root & r & HR & Hnd & Hlive)]; [exfalso; eapply Hno; eauto|].
  pose proof (Hlive _ Hlx) as Hxr.
  destruct (Nat.eq_dec x root) as [->|Hne].
  - (* pruning the root *)
    destruct (prune_f_spec r (fuel_of t) t None 0 root HR Hnd
                (Rep0_height_fuel _ _ _ _ (Rep_Rep0 _ _ _ _ _ HR) Hnd) Hse I)
      as (t2 & Hr2 & Hlen2 & Htomb2 & Hfr2 & _ & Hse2).
    rewrite Hr2 in Hpr. injection Hpr as <-. split; auto.
    left. intros j (nj & Hnj & Hdj). destruct (in_dec Nat.eq_dec j (ids r)) as [Hin|Hnin].
    + rewrite Htomb2 in Hnj by auto. injection Hnj as <-. discriminate.
    + rewrite Hfr2 in Hnj by (auto; congruence). apply Hnin. apply Hlive. exists nj; auto.
  - destruct (Rep_parent _ _ _ _ _ _ HR Hxr Hne) as (P & nP & nx & HPr & HnP & HdP & Hnx & Hpx & HxP).
    assert (HlP : live t P) by (exists nP; auto).
    destruct (WF_edit t P (or_intror (ex_intro _ root (ex_intro _ r (conj HR (conj Hnd Hlive))))) HlP)
      as (root' & r' & sP & pp & dp & rest & HR' & Hnd' & Hlive' & HRP & Hperm & HndP & Hndr & Hdisj & Hrl & _ & Hk).
    destruct (Rep_inv _ _ _ _ _ HRP) as (n & cs & -> & Hn & Hdel & Hid & Hp & Hd & HF & He1 & He2).
    assert (n = nP) by congruence. subst n.
    destruct (nrc_Some nP x HxP) as (nP' & k1 & k2 & Hrm & Hch & Hnk1 & Hch' & Hed' & Fid & Fpar & Fpe & Fdep & Fdel).
    rewrite Hch in HF. apply Forall2_app_inv_l in HF as (l1 & l2' & HF1 & HF2 & ->).
    inversion HF2 as [|? sx ? l2 HRx HF2' Hk2e Hcl]. clear HF2 Hk2e. subst l2'.
    rewrite ids_RT, flat_map_app in HndP. simpl in HndP.
    apply NoDup_cons_iff in HndP as [HPn HndP].
    apply NoDup_app_iff in HndP as (Hnd1 & Hnd23 & Hd1).
    apply NoDup_app_iff in Hnd23 as (Hndx & Hnd2 & Hd2).
    assert (HPx : ~ In P (ids sx)). { intros Hin. apply HPn. apply in_or_app. right. apply in_or_app; auto. }
    assert (Hpre : prune_pre t (Some P) x sx).
    { split; auto. exists nP. split; auto. apply get_Ok; auto. }
    destruct (prune_f_spec sx (fuel_of t) t (Some P) (S dp) x HRx Hndx
                (Rep0_height_fuel _ _ _ _ (Rep_Rep0 _ _ _ _ _ HRx) Hndx) Hse Hpre)
      as (t2 & Hr2 & Hlen2 & Htomb2 & Hfr2 & Hpost2 & Hse2).
    rewrite Hr2 in Hpr. injection Hpr as <-. split; auto.
    destruct (Hpost2 nP HnP) as (nP'' & Hrm' & HnP''). rewrite Hrm in Hrm'. injection Hrm' as <-.
    pose proof (Forall2_Rep_rid _ _ _ _ _ HF1) as Hk1.
    pose proof (Forall2_Rep_rid _ _ _ _ _ HF2') as Hk2.
    assert (Hxsx : In x (ids sx)). { rewrite <- (Rep_rid _ _ _ _ _ HRx). apply In_rid_ids. }
    assert (Hfr12 : forall j, In j (flat_map ids l1 ++ flat_map ids l2) -> nth_error t2 j = nth_error t j).
    { intros j Hj. apply Hfr2.
      - intros Hjx. apply in_app_or in Hj as [Hj|Hj]; [eapply Hd1; eauto; apply in_or_app; auto|eapply Hd2; eauto].
      - intros [= ->]. apply HPn. apply in_app_or in Hj as [Hj|Hj]; apply in_or_app; auto.
        right. apply in_or_app; auto. }
    assert (Hk12 : forall c, In c (k1 ++ k2) -> In c (flat_map ids l1 ++ flat_map ids l2)).
    { intros c Hc. apply in_app_or in Hc as [Hc|Hc]; apply in_or_app; [left|right];
        apply In_map_rid_flat; congruence. }
    apply (Hk t2 (RT P (l1 ++ l2))).
    + intros j Hj. apply Hfr2.
      * intros Hjx. eapply Hdisj; eauto. rewrite ids_RT, flat_map_app. simpl. right.
        apply in_or_app. right. apply in_or_app; auto.
      * intros [= ->]. eapply Hdisj; eauto. rewrite ids_RT; simpl; auto.
    + apply Rep_node with (n := nP'); auto; try congruence.
      * rewrite Hch'. apply Forall2_app.
        -- eapply Forall2_Rep_frame; eauto. intros j Hj. apply Hfr12. apply in_or_app; auto.
        -- eapply Forall2_Rep_frame; eauto. intros j Hj. apply Hfr12. apply in_or_app; auto.
      * intros c nc Hc Hnc. rewrite Hch' in Hc. pose proof (Hk12 _ Hc) as Hc'.
        rewrite Hfr12 in Hnc by auto. rewrite Hed'.
        rewrite edge_get_remove_neq.
        -- apply He1; auto. rewrite Hch. apply in_app_or in Hc as [Hc|Hc]; apply in_or_app; simpl; auto.
        -- intros ->. apply in_app_or in Hc' as [Hc'|Hc']; [eapply Hd1; eauto; apply in_or_app; auto|eapply Hd2; eauto].
      * intros c Hc. rewrite Hed' in Hc. rewrite Hch'.
        destruct (Nat.eq_dec c x) as [->|Hnex].
        -- rewrite edge_get_remove_eq in Hc; [congruence|]. eapply Hse; eauto.
        -- rewrite edge_get_remove_neq in Hc by auto. apply He2 in Hc. rewrite Hch in Hc.
           apply in_app_or in Hc as [Hc|[Hc|Hc]]; try congruence; apply in_or_app; auto.
    + intros n n' Hn1 Hn2. assert (n = nP) by congruence. assert (n' = nP') by congruence. subst. auto.
    + rewrite ids_RT, flat_map_app. apply NoDup_cons_iff. split.
      * intros Hin. apply HPn. apply in_app_or in Hin as [Hin|Hin]; apply in_or_app; auto.
        right. apply in_or_app; auto.
      * apply NoDup_app_iff. splits; auto. intros j Hj1 Hj2. eapply Hd1; eauto. apply in_or_app; auto.
    + intros j Hj. apply Hdisj. rewrite ids_RT, flat_map_app in *. simpl.
      destruct Hj as [->|Hj]; [left; auto|right].
      apply in_app_or in Hj as [Hj|Hj]; apply in_or_app; auto. right. apply in_or_app; auto.
    + intros j (nj & Hnj & Hdj).
      destruct (in_dec Nat.eq_dec j (ids sx)) as [Hin|Hnin].
      { rewrite Htomb2 in Hnj by auto. injection Hnj as <-. discriminate. }
      rewrite ids_RT, flat_map_app.
      destruct (Nat.eq_dec j P) as [->|HneP]; [left; left; auto|].
      rewrite Hfr2 in Hnj by (auto; congruence).
      assert (Hlj : live t j) by (exists nj; auto).
      apply Hlive' in Hlj. eapply Permutation_in in Hlj; [|exact Hperm].
      apply in_app_or in Hlj as [Hlj|Hlj]; auto.
      rewrite ids_RT, flat_map_app in Hlj. simpl in Hlj. destruct Hlj as [?|Hlj]; [congruence|].
      left. right. apply in_app_or in Hlj as [Hlj|Hlj]; [apply in_or_app; auto|].
      apply in_app_or in Hlj as [Hlj|Hlj]; [contradiction|apply in_or_app; auto].
Qed.

(* ---- ladderize -------------------------------------------------------------------------------------------- *)
Lemma permute_children_wf (t : arena) id n ch' :
  WFS t -> get t id = Ok n -> Permutation ch' (nchildren n) ->
  WFS (replace_nth id (set_nchildren n ch') t).
Proof.
  intros [Hwf Hse] Hg Hp. apply get_Ok in Hg as [Hn Hdel].
  set (t' := replace_nth id (set_nchildren n ch') t).
  assert (Hs1 : nth_error t' id = Some (set_nchildren n ch')) by (eapply nth_error_replace_nth_eq'; eauto).
  assert (Hs2 : forall j, j <> id -> nth_error t' j = nth_error t j)
    by (intros; apply nth_error_replace_nth_neq; auto).
  split.
  2:{ apply SortedEdges_replace; auto. simpl. eauto. }
  assert (Hl : live t id) by (exists n; auto).
  destruct (WF_edit t id Hwf Hl)
    as (root & r & sx & px & dx & rest & HR & Hnd & Hlive & HRx & Hperm & Hndx & Hndr & Hdisj & Hrl & _ & Hk).
  destruct (Rep_inv _ _ _ _ _ HRx) as (n0 & cs & -> & Hn0 & _ & Hid & Hpx & Hd & HF & He1 & He2).
  assert (n0 = n) by congruence. subst n0.
  destruct (Forall2_perm _ _ _ _ HF Hp) as (cs' & HF' & Hpc).
  assert (Hpf : Permutation (flat_map ids cs') (flat_map ids cs)) by (apply Permutation_flat_map; auto).
  rewrite ids_RT in Hndx. apply NoDup_cons_iff in Hndx as [Hidn Hndcs].
  assert (Hfr : forall j, In j (flat_map ids cs) -> nth_error t' j = nth_error t j).
  { intros j Hj. apply Hs2. intros ->. auto. }
  pose proof (Forall2_Rep_rid _ _ _ _ _ HF) as Hch.
  apply (Hk t' (RT id cs')).
  - intros j Hj. apply Hs2. intros ->. eapply Hdisj; eauto. rewrite ids_RT; simpl; auto.
  - apply Rep_node with (n := set_nchildren n ch'); simpl; auto.
    + eapply Forall2_Rep_frame; eauto. intros j Hj. apply Hfr. eapply Permutation_in; eauto.
    + intros c nc Hc Hnc. assert (Hc' : In c (nchildren n)) by (eapply Permutation_in; eauto).
      rewrite Hfr in Hnc; auto. apply In_map_rid_flat. congruence.
    + intros c Hc. eapply Permutation_in; [apply Permutation_sym; eauto|]. auto.
  - intros m m' Hm Hm'. assert (m = n) by congruence. assert (m' = set_nchildren n ch') by congruence.
    subst. reflexivity.
  - rewrite ids_RT. apply NoDup_cons_iff. split.
    + intros Hin. apply Hidn. eapply Permutation_in; eauto.
    + eapply Permutation_NoDup; [apply Permutation_sym; eauto|]. auto.
  - intros j Hj. apply Hdisj. rewrite ids_RT in *. destruct Hj as [->|Hj]; simpl; auto.
    right. eapply Permutation_in; eauto.
  - intros j Hj.
    assert (Hlj : live t j).
    { destruct (Nat.eq_dec j id) as [->|Hne]; auto.
      destruct Hj as (nj & Hnj & Hdj). rewrite Hs2 in Hnj by auto. exists nj; auto. }
    apply Hlive in Hlj. eapply Permutation_in in Hlj; [|exact Hperm].
    apply in_app_or in Hlj as [Hlj|Hlj]; auto. left.
    rewrite ids_RT in *. destruct Hlj as [->|Hlj]; simpl; auto.
    right. eapply Permutation_in; [apply Permutation_sym; eauto|]. auto.
Qed.

Theorem ladderize_wf (t t' : arena) : WFS t -> ladderize t = Ok t' -> WFS t'.
Proof.
  intros Hwf H. unfold ladderize in H.
  apply bind_Ok in H as (root & _ & H). apply bind_Ok in H as (lo & _ & H).
  apply bind_Ok in H as ([t2 cnt] & Hfold & H). injection H as <-.
  change t2 with (fst (t2, cnt)).
  refine (foldM_inv (fun st : arena * list nat => WFS (fst st)) _ _ _ (t, repeat 0 (length t)) (t2, cnt) Hwf Hfold).
  intros [ta ca] id [tb cb] Ha Hstep. simpl in *.
  apply bind_Ok in Hstep as (n & Hg & Hstep). injection Hstep as <- <-.
  apply permute_children_wf; auto. apply stable_sort_perm.
Qed.

(* ---- regrouping under a node P: keep some children, append one re-rooted child, recompute depths ---------- *)
Lemma regroup (t t4 : arena) P pp dp rest nP nP4 ks' cs_keep a sa :
  (forall (t' : arena) sx',
      (forall j, In j rest -> nth_error t' j = nth_error t j) ->
      Rep t' pp dp P sx' ->
      (forall n n', nth_error t P = Some n -> nth_error t' P = Some n' -> npedge n' = npedge n) ->
      NoDup (ids sx') -> (forall j, In j (ids sx') -> ~ In j rest) ->
      (forall j, live t' j -> In j (ids sx') \/ In j rest) -> WF t') ->
  nth_error t P = Some nP ->
  Forall2 (fun c r => Rep t (Some P) (S dp) c r) ks' cs_keep ->
  (forall c nc, In c ks' -> nth_error t c = Some nc -> edge_get (nedges nP4) c = npedge nc) ->
  NoDup (P :: flat_map ids cs_keep) ->
  (forall j, In j (P :: flat_map ids cs_keep) -> ~ In j rest) ->
  (forall j, In j rest -> nth_error t4 j = nth_error t j) ->
  (forall j, In j (flat_map ids cs_keep) -> nth_error t4 j = nth_error t j) ->
  nth_error t4 P = Some nP4 -> ndeleted nP4 = false -> nid nP4 = P -> nparent nP4 = pp -> ndepth nP4 = dp ->
  npedge nP4 = npedge nP ->
  nchildren nP4 = ks' ++ [a] ->
  (forall na, nth_error t4 a = Some na -> edge_get (nedges nP4) a = npedge na) ->
  (forall c, edge_get (nedges nP4) c <> None -> In c (nchildren nP4)) ->
  Rep0 t4 (Some P) a sa -> NoDup (ids sa) ->
  (forall j, In j (ids sa) -> j <> P /\ ~ In j (flat_map ids cs_keep) /\ ~ In j rest) ->
  SortedEdges t4 ->
  (forall j, live t4 j -> j = P \/ In j (flat_map ids cs_keep) \/ In j (ids sa) \/ In j rest) ->
  exists t5, reset_depth_f (fuel_of t4) t4 a (dp + 1) = Ok t5 /\ WFS t5.
Proof.
  intros Hk HnP HF He1 Hnd Hdisj Hfr4r Hfr4k HnP4 Fdel Fid Fpar Fdep Fpe Fch Hea He2 HR0 Hndsa Hsa Hse4 Hlive4.
  destruct (reset_depth_f_spec sa (fuel_of t4) t4 (Some P) a (dp + 1) HR0 Hndsa (Rep0_height_fuel _ _ _ _ HR0 Hndsa))
    as (t5 & Hr & HR5 & Hlen & Hfr5 & Hdo).
  exists t5. split; auto. split; [|eapply SortedEdges_depth_only; eauto].
  apply NoDup_cons_iff in Hnd as [HPk Hndk].
  assert (HP5 : nth_error t5 P = Some nP4).
  { rewrite Hfr5; auto. intros Hin. apply Hsa in Hin. tauto. }
  assert (Hfr5k : forall j, In j (flat_map ids cs_keep) -> nth_error t5 j = nth_error t j).
  { intros j Hj. rewrite Hfr5; auto. intros Hin. apply Hsa in Hin. tauto. }
  pose proof (Forall2_Rep_rid _ _ _ _ _ HF) as Hks.
  apply (Hk t5 (RT P (cs_keep ++ [sa]))).
  - intros j Hj. rewrite Hfr5; auto. intros Hin. apply Hsa in Hin. tauto.
  - apply Rep_node with (n := nP4); auto.
    + rewrite Fch. apply Forall2_app.
      * eapply Forall2_Rep_frame; eauto.
      * constructor; [|constructor]. replace (S dp) with (dp + 1) by lia. auto.
    + intros c nc Hc Hnc. rewrite Fch in Hc. apply in_app_or in Hc as [Hc|[<-|[]]].
      * rewrite Hfr5k in Hnc; eauto. apply In_map_rid_flat. congruence.
      * destruct (Rep0_inv _ _ _ _ HR0) as (na & ? & _ & Hna & _).
        destruct (Hdo _ _ Hna) as (d' & Hd'). rewrite Hd' in Hnc. injection Hnc as <-. simpl. auto.
  - intros n n' Hn Hn'. assert (n = nP) by congruence. assert (n' = nP4) by congruence. subst. auto.
  - rewrite ids_RT, flat_map_app. simpl. rewrite app_nil_r. apply NoDup_cons_iff. split.
    + intros Hin. apply in_app_or in Hin as [Hin|Hin]; auto. apply Hsa in Hin. tauto.
    + apply NoDup_app_iff. splits; auto. intros j Hj1 Hj2. apply Hsa in Hj2. tauto.
  - intros j Hj. rewrite ids_RT, flat_map_app in Hj. simpl in Hj. rewrite app_nil_r in Hj.
    destruct Hj as [<-|Hj]; [apply Hdisj; simpl; auto|].
    apply in_app_or in Hj as [Hj|Hj]; [apply Hdisj; simpl; auto|]. apply Hsa in Hj. tauto.
  - intros j Hj. eapply depth_only_live_inv in Hj; eauto.
    rewrite ids_RT, flat_map_app. simpl. rewrite app_nil_r.
    destruct (Hlive4 _ Hj) as [->|[H|[H|H]]]; auto.
    + left. right. apply in_or_app; auto.
    + left. right. apply in_or_app; auto.
Qed.

Lemma Rep0_reparent (t t4 : arena) p d c s n p' e :
  Rep t p d c s -> NoDup (ids s) -> nth_error t c = Some n ->
  nth_error t4 c = Some (node_set_parent n p' e) ->
  (forall j, In j (ids s) -> j <> c -> nth_error t4 j = nth_error t j) ->
  Rep0 t4 (Some p') c s.
Proof.
  intros HR Hnd Hn Hn4 Hfr.
  destruct (Rep_inv _ _ _ _ _ HR) as (n0 & cs & -> & Hn0 & Hdel & Hid & Hp & Hd & HF & He1 & He2).
  assert (n0 = n) by congruence. subst n0.
  rewrite ids_RT in Hnd. apply NoDup_cons_iff in Hnd as [Hc Hndcs].
  assert (Hfr' : forall j, In j (flat_map ids cs) -> nth_error t4 j = nth_error t j).
  { intros j Hj. apply Hfr; [apply in_ids_RT; auto | intros ->; auto]. }
  apply Rep0_node with (n := node_set_parent n p' e); simpl; auto.
  - eapply Forall2_Rep0_frame; [|exact Hfr']. eapply Forall2_impl_In; [|exact HF].
    intros; eapply Rep_Rep0; eauto.
  - intros c0 nc Hc0 Hnc. rewrite Hfr' in Hnc; eauto. apply In_map_rid_flat.
    rewrite <- (Forall2_Rep_rid _ _ _ _ _ HF). auto.
Qed.

(* ---- compress --------------------------------------------------------------------------------------------- *)
Ltac slot :=
  repeat first [ rewrite nth_error_replace_nth_neq by (auto; congruence)
               | rewrite nth_error_replace_nth_eq by (rewrite ?replace_nth_length; auto; lia) ].

Section Compress.
Variable O : LenOps L.

Lemma compress_node_wf (t t' : arena) id : WFS t -> compress_node O t id = Ok t' -> WFS t'.
Proof.
  intros [Hwf Hse] H. unfold compress_node in H.
  apply bind_Ok in H as (n & Hgn & H).
  destruct (nparent n) as [P|] eqn:Hpar; [|discriminate].
  destruct (nchildren n) as [|child [|]] eqn:Hchn; try discriminate.
  match type of H with match ?X with _ => _ end = _ => destruct X as [new_edge|] eqn:Hne; [|discriminate] end.
  clear Hne.
  apply bind_Ok in H as (t1 & Ht1 & H).
  apply bind_Ok in H as (t2 & Ht2 & H).
  apply bind_Ok in H as (pn & Hpn & H).
  apply bind_Ok in H as (t3 & Ht3 & H).
  apply bind_Ok in H as (nid3 & Hg3 & H).
  apply bind_Ok in H as (pn4 & Hpn4 & H).
  (* structure of the tree around id *)
  pose proof Hgn as Hgn'. apply get_Ok in Hgn' as [Hn Hdeln].
  assert (Hlid : live t id) by (exists n; auto).
  pose proof Hwf as Hwf0.
  destruct Hwf as [Hno|(root & r & HR & Hnd & Hlive)]; [exfalso; eapply Hno; eauto|].
  pose proof (Hlive _ Hlid) as Hidr.
  assert (Hidroot : id <> root).
  { intros ->. destruct (Rep_inv _ _ _ _ _ HR) as (n0 & ? & _ & Hn0 & _ & _ & Hp0 & _). congruence. }
  destruct (Rep_parent _ _ _ _ _ _ HR Hidr Hidroot) as (P' & nP & nx & HPr & HnP & HdP & Hnx & Hpx & HidP).
  assert (nx = n) by congruence. subst nx. assert (P' = P) by congruence. subst P'.
  assert (HlP : live t P) by (exists nP; auto).
  destruct (WF_edit t P Hwf0 HlP)
    as (root' & r' & sP & pp & dp & rest & _ & _ & Hlive' & HRP & Hperm & HndP & Hndr & Hdisj & Hrl & _ & Hk).
  destruct (Rep_inv _ _ _ _ _ HRP) as (nP0 & cs & -> & HnP0 & _ & FidP & FparP & FdepP & HF & He1 & He2).
  assert (nP0 = nP) by congruence. subst nP0.
  destruct (Forall2_In_l _ _ _ _ HF HidP) as (s_id & Hsid & HRid).
  destruct (Rep_inv _ _ _ _ _ HRid) as (n0 & ccs & -> & Hn0 & _ & _ & _ & Fdepn & HFc & He1n & He2n).
  assert (n0 = n) by congruence. subst n0.
  rewrite Hchn in HFc. apply Forall2_singleton_l in HFc as (sc & -> & HRc).
  rewrite ids_RT in HndP. apply NoDup_cons_iff in HndP as [HPn Hndcs].
  pose proof (NoDup_flat_map_in _ _ _ Hndcs Hsid) as Hndsid.
  rewrite ids_RT in Hndsid. simpl in Hndsid. rewrite app_nil_r in Hndsid.
  apply NoDup_cons_iff in Hndsid as [Hidsc Hndsc].
  pose proof (Forall2_Rep_rid _ _ _ _ _ HF) as Hch.
  assert (Hchild_sc : In child (ids sc)). { rewrite <- (Rep_rid _ _ _ _ _ HRc). apply In_rid_ids. }
  assert (Hsc_sid : forall j, In j (ids sc) -> In j (ids (RT id [sc]))).
  { intros j Hj. rewrite ids_RT. simpl. rewrite app_nil_r. auto. }
  assert (Hsid_cs : forall j, In j (ids (RT id [sc])) -> In j (flat_map ids cs)).
  { intros j Hj. apply in_flat_map. eauto. }
  assert (Hid_sid : In id (ids (RT id [sc]))) by (rewrite ids_RT; simpl; auto).
  assert (HidP' : id <> P) by (intros ->; auto).
  assert (HchildP : child <> P) by (intros ->; auto).
  assert (Hchildid : child <> id) by (intros Heq; apply Hidsc; rewrite <- Heq; auto).
  set (keep := fun k => negb (Nat.eqb k id)).
  set (cs_keep := filter (fun s => keep (rid s)) cs).
  set (ks' := filter keep (nchildren nP)).
  assert (Hkeep_sid : forall s j, In s cs_keep -> In j (ids s) -> ~ In j (ids (RT id [sc]))).
  { intros s j Hs Hj Hj'. apply filter_In in Hs as [Hs Hks].
    assert (s = RT id [sc]) by (apply (flat_map_NoDup_inj ids cs s (RT id [sc]) j); auto). subst s.
    unfold keep in Hks. simpl in Hks. rewrite Nat.eqb_refl in Hks. discriminate. }
  assert (Hchild_nP : ~ In child (nchildren nP)).
  { rewrite Hch. intros Hin. apply in_map_iff in Hin as (s & Hrs & Hs).
    assert (s = RT id [sc]).
    { apply (flat_map_NoDup_inj ids cs s (RT id [sc]) child); auto. rewrite <- Hrs. apply In_rid_ids. }
    subst s. simpl in Hrs. congruence. }
  assert (Hnone : edge_get (nedges nP) child = None).
  { destruct (edge_get (nedges nP) child) eqn:E; auto. exfalso. apply Hchild_nP. apply He2. congruence. }
  (* the arenas *)
  apply upd_inv in Ht1 as (nc & Hgc & ->).
  pose proof Hgc as Hgc'. apply get_Ok in Hgc' as [Hnc Hdelc].
  apply upd_inv in Ht2 as (x & Hgx & ->).
  assert (x = nP). { apply get_Ok in Hgx as [Hx _]. revert Hx. slot. congruence. } subst x.
  assert (HltP : P < length t) by (eapply nth_error_Some_lt; eauto).
  assert (Hltid : id < length t) by (eapply nth_error_Some_lt; eauto).
  assert (Hltc : child < length t) by (eapply nth_error_Some_lt; eauto).
  assert (pn = node_add_child nP child new_edge).
  { apply get_Ok in Hpn as [Hx _]. revert Hx. slot. congruence. } subst pn.
  destruct (node_remove_child (node_add_child nP child new_edge) id) as [pn'|] eqn:Hrm; [|discriminate].
  injection Ht3 as <-.
  destruct (nac_fields nP child new_edge) as (Gid & Gpar & Gpe & Gdep & Gdel & Gch).
  destruct (nrc_inv _ _ _ Hrm) as (l1 & l2 & Hsplit & Hnl1 & Hch' & Hed' & Fid & Fpar & Fpe & Fdep & Fdel).
  assert (Hndch : NoDup (nchildren nP ++ [child])).
  { apply NoDup_app_iff. splits.
    - rewrite Hch. apply NoDup_map_rid; auto.
    - repeat constructor. simpl; tauto.
    - intros j Hj [<-|[]]. auto. }
  assert (Hch'' : nchildren pn' = ks' ++ [child]).
  { rewrite Hch'. rewrite <- (filter_remove_first _ l1 l2 id Hndch); [|congruence].
    rewrite filter_app. simpl. replace (Nat.eqb child id) with false by (symmetry; apply Nat.eqb_neq; auto).
    reflexivity. }
  set (t4 := replace_nth id tombstone
               (replace_nth P pn' (replace_nth P (node_add_child nP child new_edge)
                  (replace_nth child (node_set_parent nc P new_edge) t)))) in *.
  assert (S_id : nth_error t4 id = Some tombstone) by (unfold t4; slot; auto).
  assert (S_P : nth_error t4 P = Some pn') by (unfold t4; slot; auto).
  assert (S_c : nth_error t4 child = Some (node_set_parent nc P new_edge)) by (unfold t4; slot; auto).
  assert (S_o : forall j, j <> id -> j <> P -> j <> child -> nth_error t4 j = nth_error t j)
    by (intros; unfold t4; slot; auto).
  assert (pn4 = pn'). { apply get_Ok in Hpn4 as [Hx _]. congruence. } subst pn4.
  assert (Hdp : ndepth pn' = dp) by congruence.
  rewrite Hdp in H.
  assert (Hks'_in : forall c, In c ks' -> In c (nchildren nP) /\ c <> id).
  { intros c Hc. apply filter_In in Hc as [Hc Hkc]. split; auto. unfold keep in Hkc.
    intros ->. rewrite Nat.eqb_refl in Hkc. discriminate. }
  assert (Hkeep_cs : forall j, In j (flat_map ids cs_keep) -> In j (flat_map ids cs))
    by (intros j; apply flat_map_filter_incl).
  assert (Hkeep_ne : forall j, In j (flat_map ids cs_keep) -> j <> id /\ j <> child /\ j <> P).
  { intros j Hj. pose proof (Hkeep_cs _ Hj) as Hj'. apply in_flat_map in Hj as (s & Hs & Hjs).
    splits; intros ->; auto; eapply Hkeep_sid; eauto. }
  destruct (regroup t t4 P pp dp rest nP pn' ks' cs_keep child sc) as (t5 & Hr5 & Hwfs5); auto; try congruence.
  - eapply Forall2_filter; eauto. intros a b Hab. simpl. rewrite (Rep_rid _ _ _ _ _ Hab). auto.
  - intros c nc0 Hc Hnc0. apply Hks'_in in Hc as [Hc Hcid].
    rewrite Hed', edge_get_remove_neq by auto. rewrite nac_edge_neq by congruence. eauto.
  - apply NoDup_cons_iff. split.
    + intros Hin. apply HPn. auto.
    + apply NoDup_flat_map_filter. auto.
  - intros j Hj. apply Hdisj. apply in_ids_RT. destruct Hj as [->|Hj]; auto.
  - intros j Hj. apply S_o; intros ->; eapply Hdisj; eauto; apply in_ids_RT; auto.
  - intros j Hj. apply Hkeep_ne in Hj as (? & ? & ?). apply S_o; auto.
  - intros na Hna. assert (na = node_set_parent nc P new_edge) by congruence. subst na. simpl.
    rewrite Hed', edge_get_remove_neq by auto. apply nac_edge_eq. auto.
  - intros c Hc. rewrite Hed' in Hc. rewrite Hch''.
    assert (Hcid : c <> id).
    { intros ->. rewrite edge_get_remove_eq in Hc; [congruence|]. apply nac_sorted. eauto. }
    rewrite edge_get_remove_neq in Hc by auto. apply in_or_app.
    destruct (Nat.eq_dec c child) as [->|Hcc]; [right; simpl; auto|left].
    rewrite nac_edge_neq in Hc by auto. apply filter_In. split; auto.
    unfold keep. apply Nat.eqb_neq in Hcid. rewrite Hcid. reflexivity.
  - eapply Rep0_reparent; eauto. intros j Hj Hjc. apply S_o; auto; intros ->; auto.
  - intros j Hj. splits.
    + intros ->. auto.
    + intros Hj'. apply in_flat_map in Hj' as (s & Hs & Hjs). eapply Hkeep_sid; eauto.
    + apply Hdisj. apply in_ids_RT. auto.
  - unfold t4. repeat apply SortedEdges_replace; auto.
    + simpl. eauto.
    + apply nac_sorted. eauto.
    + rewrite Hed'. apply ksorted_remove. apply nac_sorted. eauto.
    + apply tombstone_sorted.
  - intros j Hj.
    assert (Hjid : j <> id). { intros ->. destruct Hj as (nj & Hnj & Hdj). rewrite S_id in Hnj. injection Hnj as <-. discriminate. }
    destruct (Nat.eq_dec j P) as [->|HjP]; auto.
    assert (Hlj : live t j).
    { destruct (Nat.eq_dec j child) as [->|Hjc]; [exists nc; auto|].
      destruct Hj as (nj & Hnj & Hdj). rewrite S_o in Hnj by auto. exists nj; auto. }
    apply Hlive' in Hlj. eapply Permutation_in in Hlj; [|exact Hperm].
    apply in_app_or in Hlj as [Hlj|Hlj]; auto.
    apply in_ids_RT in Hlj as [?|Hlj]; [congruence|].
    apply in_flat_map in Hlj as (s & Hs & Hjs).
    destruct (keep (rid s)) eqn:Hks.
    + right. left. apply in_flat_map. exists s. split; auto. apply filter_In. auto.
    + right. right. left. unfold keep in Hks. apply Bool.negb_false_iff, Nat.eqb_eq in Hks.
      assert (s = RT id [sc]) by (eapply rid_inj_in; eauto). subst s.
      apply in_ids_RT in Hjs as [?|Hjs]; [congruence|]. simpl in Hjs. rewrite app_nil_r in Hjs. auto.
Qed.

Theorem compress_wf (t : arena) : WFS t -> WFS (snd (compress O t)).
Proof.
  unfold compress. generalize (map nid (filter (fun n : node => negb (ndeleted n) && negb (is_root n) && Nat.eqb (length (nchildren n)) 1) t)).
  intros l. revert t. induction l as [|i l IH]; intros t Hwf; simpl; auto.
  destruct (compress_node O t i) eqn:E; simpl; auto. apply IH. eapply compress_node_wf; eauto.
Qed.
End Compress.

(* ---- grouping two children c1, c2 of P under a fresh node (shared by merge_children and resolve) ---------- *)
Lemma group2_wf (t t7 : arena) P nP c1 c2 n1 n2 pe e1 e2 nP7 nN :
  WFS t ->
  nth_error t P = Some nP -> ndeleted nP = false ->
  In c1 (nchildren nP) -> In c2 (nchildren nP) -> c1 <> c2 ->
  nth_error t c1 = Some n1 -> nth_error t c2 = Some n2 ->
  nth_error t7 P = Some nP7 -> nth_error t7 (length t) = Some nN ->
  nth_error t7 c1 = Some (node_set_parent n1 (length t) e1) ->
  nth_error t7 c2 = Some (node_set_parent n2 (length t) e2) ->
  (forall j, j <> P -> j <> length t -> j <> c1 -> j <> c2 -> nth_error t7 j = nth_error t j) ->
  nid nP7 = nid nP -> nparent nP7 = nparent nP -> npedge nP7 = npedge nP -> ndepth nP7 = ndepth nP ->
  ndeleted nP7 = false ->
  nchildren nP7 = filter (fun k => negb (Nat.eqb k c1) && negb (Nat.eqb k c2)) (nchildren nP) ++ [length t] ->
  (forall c, c <> c1 -> c <> c2 -> c <> length t -> edge_get (nedges nP7) c = edge_get (nedges nP) c) ->
  edge_get (nedges nP7) (length t) = pe -> edge_get (nedges nP7) c1 = None -> edge_get (nedges nP7) c2 = None ->
  nid nN = length t -> nparent nN = Some P -> npedge nN = pe -> ndeleted nN = false -> nchildren nN = [c1; c2] ->
  edge_get (nedges nN) c1 = e1 -> edge_get (nedges nN) c2 = e2 ->
  (forall c, edge_get (nedges nN) c <> None -> c = c1 \/ c = c2) ->
  SortedEdges t7 ->
  exists t8, reset_depth_f (fuel_of t7) t7 (length t) (ndepth nP + 1) = Ok t8 /\ WFS t8.
Proof.
  intros [Hwf Hse] HnP HdP Hc1 Hc2 Hc12 Hn1 Hn2 S_P S_new S_c1 S_c2 S_o
         Fid Fpar Fpe Fdep Fdel Fch Feo Fenew Fec1 Fec2 Nid Npar Npe Ndel Nch Ne1 Ne2 Neo Hse7.
  set (new := length t) in *.
  assert (HlP : live t P) by (exists nP; auto).
  destruct (WF_edit t P Hwf HlP)
    as (root & r & sP & pp & dp & rest & _ & _ & Hlive & HRP & Hperm & HndP & Hndr & Hdisj & Hrl & _ & Hk).
  destruct (Rep_inv _ _ _ _ _ HRP) as (nP0 & cs & -> & HnP0 & _ & FidP & FparP & FdepP & HF & He1 & He2).
  assert (nP0 = nP) by congruence. subst nP0.
  destruct (Forall2_In_l _ _ _ _ HF Hc1) as (s1 & Hs1 & HR1).
  destruct (Forall2_In_l _ _ _ _ HF Hc2) as (s2 & Hs2 & HR2).
  rewrite ids_RT in HndP. apply NoDup_cons_iff in HndP as [HPn Hndcs].
  pose proof (Forall2_Rep_rid _ _ _ _ _ HF) as Hch.
  pose proof (Rep_rid _ _ _ _ _ HR1) as Hrid1. pose proof (Rep_rid _ _ _ _ _ HR2) as Hrid2.
  assert (Hc1s1 : In c1 (ids s1)) by (rewrite <- Hrid1; apply In_rid_ids).
  assert (Hc2s2 : In c2 (ids s2)) by (rewrite <- Hrid2; apply In_rid_ids).
  assert (Hs12 : s1 <> s2) by (intros ->; congruence).
  assert (Hd12 : forall j, In j (ids s1) -> ~ In j (ids s2)).
  { intros j Hj1 Hj2. apply Hs12. apply (flat_map_NoDup_inj ids cs s1 s2 j); auto. }
  assert (Hs1cs : forall j, In j (ids s1) -> In j (flat_map ids cs)) by (intros; apply in_flat_map; eauto).
  assert (Hs2cs : forall j, In j (ids s2) -> In j (flat_map ids cs)) by (intros; apply in_flat_map; eauto).
  assert (HsP_live : forall j, In j (ids (RT P cs)) -> live t j)
    by (intros j Hj; apply (Rep_ids_live _ _ _ _ _ _ HRP Hj)).
  assert (Hnew : forall j, live t j -> j <> new). { intros j Hj. apply live_lt in Hj. unfold new. lia. }
  assert (Hcs_new : forall j, In j (flat_map ids cs) -> j <> new).
  { intros j Hj. apply Hnew. apply HsP_live. apply in_ids_RT. auto. }
  set (keep := fun k => negb (Nat.eqb k c1) && negb (Nat.eqb k c2)) in *.
  set (cs_keep := filter (fun s => keep (rid s)) cs).
  set (ks' := filter keep (nchildren nP)) in *.
  assert (Hkeep_s : forall s j, In s cs_keep -> In j (ids s) -> ~ In j (ids s1) /\ ~ In j (ids s2)).
  { intros s j Hs Hj. apply filter_In in Hs as [Hs Hks]. unfold keep in Hks.
    apply andb_prop in Hks as [Hk1 Hk2]. apply Bool.negb_true_iff, Nat.eqb_neq in Hk1, Hk2.
    split; intros Hj'.
    - assert (s = s1) by (apply (flat_map_NoDup_inj ids cs s s1 j); auto). congruence.
    - assert (s = s2) by (apply (flat_map_NoDup_inj ids cs s s2 j); auto). congruence. }
  assert (Hks'_in : forall c, In c ks' -> In c (nchildren nP) /\ c <> c1 /\ c <> c2).
  { intros c Hc. apply filter_In in Hc as [Hc Hkc]. unfold keep in Hkc.
    apply andb_prop in Hkc as [Hk1 Hk2]. apply Bool.negb_true_iff, Nat.eqb_neq in Hk1, Hk2. auto. }
  assert (Hkeep_cs : forall j, In j (flat_map ids cs_keep) -> In j (flat_map ids cs))
    by (intros j; apply flat_map_filter_incl).
  assert (Hkeep_ne : forall j, In j (flat_map ids cs_keep) -> j <> c1 /\ j <> c2 /\ j <> P /\ j <> new).
  { intros j Hj. pose proof (Hkeep_cs _ Hj) as Hj'. apply in_flat_map in Hj as (s & Hs & Hjs).
    destruct (Hkeep_s _ _ Hs Hjs) as [Hx1 Hx2].
    splits; [intros ->; auto | intros ->; auto | intros ->; auto | apply Hcs_new; auto]. }
  assert (Hnd1 : NoDup (ids s1)) by (eapply NoDup_flat_map_in; eauto).
  assert (Hnd2 : NoDup (ids s2)) by (eapply NoDup_flat_map_in; eauto).
  assert (HPnew : P <> new) by (apply Hnew; auto).
  assert (Hc1P : c1 <> P) by (intros ->; auto).
  assert (Hc2P : c2 <> P) by (intros ->; auto).
  assert (Hc1new : c1 <> new) by (apply Hcs_new; auto).
  assert (Hc2new : c2 <> new) by (apply Hcs_new; auto).
  replace (ndepth nP) with dp by congruence.
  apply (regroup t t7 P pp dp rest nP nP7 ks' cs_keep new (RT new [s1; s2])); auto; try congruence.
  - eapply Forall2_filter; eauto. intros a b Hab. simpl. rewrite (Rep_rid _ _ _ _ _ Hab). auto.
  - intros c nc0 Hc Hnc0. apply Hks'_in in Hc as (Hc & ? & ?).
    rewrite Feo; auto. apply Hcs_new. apply In_map_rid_flat. congruence.
  - apply NoDup_cons_iff. split.
    + intros Hin. apply HPn. auto.
    + apply NoDup_flat_map_filter. auto.
  - intros j Hj. apply Hdisj. apply in_ids_RT. destruct Hj as [->|Hj]; auto.
  - intros j Hj. assert (Hlj := Hrl _ Hj). apply S_o.
    + intros ->. eapply Hdisj; eauto. apply in_ids_RT; auto.
    + apply Hnew; auto.
    + intros ->. eapply Hdisj; eauto. apply in_ids_RT; auto.
    + intros ->. eapply Hdisj; eauto. apply in_ids_RT; auto.
  - intros j Hj. apply Hkeep_ne in Hj as (? & ? & ? & ?). apply S_o; auto.
  - intros c Hc. rewrite Fch. apply in_or_app.
    destruct (Nat.eq_dec c new) as [->|Hcn]; [right; simpl; auto|left].
    destruct (Nat.eq_dec c c1) as [->|Hcc1]; [congruence|].
    destruct (Nat.eq_dec c c2) as [->|Hcc2]; [congruence|].
    rewrite Feo in Hc by auto. apply filter_In. split; auto.
    unfold keep. apply Nat.eqb_neq in Hcc1, Hcc2. rewrite Hcc1, Hcc2. reflexivity.
  - apply Rep0_node with (n := nN); auto.
    + rewrite Nch. constructor; [|constructor; [|constructor]].
      * eapply Rep0_reparent; eauto. intros j Hj Hjc. apply S_o; auto.
        -- intros ->; auto.
        -- intros ->. eapply Hd12; eauto.
      * eapply Rep0_reparent; eauto. intros j Hj Hjc. apply S_o; auto.
        -- intros ->; auto.
        -- intros ->. eapply Hd12; eauto.
    + intros c nc Hc Hnc. rewrite Nch in Hc. destruct Hc as [<-|[<-|[]]].
      * assert (nc = node_set_parent n1 new e1) by congruence. subst nc. simpl. auto.
      * assert (nc = node_set_parent n2 new e2) by congruence. subst nc. simpl. auto.
    + intros c Hc. rewrite Nch. apply Neo in Hc as [->| ->]; simpl; auto.
  - rewrite ids_RT. simpl. rewrite app_nil_r. apply NoDup_cons_iff. split.
    + intros Hin. apply in_app_or in Hin as [Hin|Hin]; eapply (Hcs_new new); auto.
    + apply NoDup_app_iff. splits; auto.
  - intros j Hj. apply in_ids_RT in Hj. simpl in Hj. rewrite app_nil_r in Hj.
    destruct Hj as [<-|Hj].
    + splits; auto.
      * intros Hin. apply Hkeep_ne in Hin. tauto.
      * intros Hin. eapply (Hnew new); auto.
    + assert (Hjcs : In j (flat_map ids cs)) by (apply in_app_or in Hj as [Hj|Hj]; auto).
      splits.
      * intros ->; auto.
      * intros Hin. apply in_flat_map in Hin as (s & Hs & Hjs). destruct (Hkeep_s _ _ Hs Hjs).
        apply in_app_or in Hj as [Hj|Hj]; auto.
      * apply Hdisj. apply in_ids_RT. auto.
  - intros j Hj. rewrite ids_RT. simpl. rewrite app_nil_r.
    destruct (Nat.eq_dec j P) as [->|HjP]; auto.
    destruct (Nat.eq_dec j new) as [->|Hjn]; [right; right; left; left; auto|].
    destruct (Nat.eq_dec j c1) as [->|Hj1]; [right; right; left; right; apply in_or_app; auto|].
    destruct (Nat.eq_dec j c2) as [->|Hj2]; [right; right; left; right; apply in_or_app; auto|].
    assert (Hlj : live t j).
    { destruct Hj as (nj & Hnj & Hdj). rewrite S_o in Hnj by auto. exists nj; auto. }
    apply Hlive in Hlj. eapply Permutation_in in Hlj; [|exact Hperm].
    apply in_app_or in Hlj as [Hlj|Hlj]; auto.
    apply in_ids_RT in Hlj as [?|Hlj]; [congruence|].
    apply in_flat_map in Hlj as (s & Hs & Hjs).
    destruct (keep (rid s)) eqn:Hks.
    + right. left. apply in_flat_map. exists s. split; auto. apply filter_In. auto.
    + right. right. left. right. apply in_or_app. unfold keep in Hks.
      apply Bool.andb_false_iff in Hks as [Hks|Hks]; apply Bool.negb_false_iff, Nat.eqb_eq in Hks.
      * left. assert (s = s1) by (eapply rid_inj_in; eauto; congruence). subst s. auto.
      * right. assert (s = s2) by (eapply rid_inj_in; eauto; congruence). subst s. auto.
Qed.

Lemma nrc2_facts (nP : node) c1 c2 pn1 pn2 :
  NoDup (nchildren nP) -> ksorted (nedges nP) -> c1 <> c2 ->
  node_remove_child nP c1 = Some pn1 -> node_remove_child pn1 c2 = Some pn2 ->
  nid pn2 = nid nP /\ nparent pn2 = nparent nP /\ npedge pn2 = npedge nP /\ ndepth pn2 = ndepth nP /\
  ndeleted pn2 = ndeleted nP /\
  nchildren pn2 = filter (fun k => negb (Nat.eqb k c1) && negb (Nat.eqb k c2)) (nchildren nP) /\
  (forall c, c <> c1 -> c <> c2 -> edge_get (nedges pn2) c = edge_get (nedges nP) c) /\
  edge_get (nedges pn2) c1 = None /\ edge_get (nedges pn2) c2 = None /\ ksorted (nedges pn2).
Proof.
  intros Hnd Hks Hc12 H1 H2.
  destruct (nrc_inv _ _ _ H1) as (l1 & l2 & Hs1 & _ & Hch1 & Hed1 & F1 & F2 & F3 & F4 & F5).
  destruct (nrc_inv _ _ _ H2) as (m1 & m2 & Hs2 & _ & Hch2 & Hed2 & G1 & G2 & G3 & G4 & G5).
  assert (Hch1' : nchildren pn1 = filter (fun k => negb (Nat.eqb k c1)) (nchildren nP)).
  { rewrite Hch1. symmetry. eapply filter_remove_first; eauto. }
  assert (Hnd1 : NoDup (nchildren pn1)). { rewrite Hch1'. apply NoDup_filter. auto. }
  assert (Hch2' : nchildren pn2 = filter (fun k => negb (Nat.eqb k c2)) (nchildren pn1)).
  { rewrite Hch2. symmetry. eapply filter_remove_first; eauto. }
  splits; try congruence.
  - rewrite Hch2', Hch1'. apply filter_filter.
  - intros c Hn1 Hn2. rewrite Hed2, Hed1. rewrite !edge_get_remove_neq; auto.
  - rewrite Hed2, Hed1. rewrite edge_get_remove_neq by auto. apply edge_get_remove_eq; auto.
  - rewrite Hed2. apply edge_get_remove_eq. rewrite Hed1. apply ksorted_remove; auto.
  - rewrite Hed2, Hed1. apply ksorted_remove, ksorted_remove; auto.
Qed.

(* ---- merge_children ---------------------------------------------------------------------------------------- *)
Definition merge_chain (t1 : arena) (parent c1 c2 : nat) (e1 e2 : option L) (nm : option str) : outcome arena :=
  t2 <- upd t1 parent (fun p => set_nname (node_add_child (node_add_child p c1 e1) c2 e2) nm) ;;
  t3 <- upd t2 c1 (fun x => node_set_parent x parent e1) ;;
  t4 <- upd t3 c2 (fun x => node_set_parent x parent e2) ;;
  pp <- get t4 parent ;;
  reset_depth_f (fuel_of t4) t4 parent (ndepth pp).

Lemma merge_chain_wf (t : arena) pid nP c1 c2 n1 n2 e1 e2 pe nm pn1 pn2 :
  WFS t -> get t pid = Ok nP -> get t c1 = Ok n1 -> get t c2 = Ok n2 ->
  In c1 (nchildren nP) -> In c2 (nchildren nP) -> c1 <> c2 ->
  node_remove_child nP c1 = Some pn1 -> node_remove_child pn1 c2 = Some pn2 ->
  exists t8,
    merge_chain (replace_nth pid (node_add_child pn2 (length t) pe)
                   (replace_nth pid pn2 t ++ [leaf_node (length t) None None pid pe (ndepth pn2 + 1)]))
                (length t) c1 c2 e1 e2 nm = Ok t8 /\ WFS t8.
Proof.
  intros Hwfs HgP Hg1 Hg2 Hc1 Hc2 Hc12 Hrm1 Hrm2. pose proof Hwfs as [Hwf Hse].
  apply get_Ok in HgP as [HnP HdP]. apply get_Ok in Hg1 as [Hn1 Hd1]. apply get_Ok in Hg2 as [Hn2 Hd2].
  destruct (WF_node_facts t pid nP Hwf HnP HdP) as (Hndch & Hchl & He2 & FidP).
  destruct (nrc2_facts nP c1 c2 pn1 pn2 Hndch (Hse _ _ HnP) Hc12 Hrm1 Hrm2)
    as (F1 & F2 & F3 & F4 & F5 & Fch & Feo & Fe1 & Fe2 & Fks).
  set (new := length t) in *.
  assert (HltP : pid < length t) by (eapply nth_error_Some_lt; eauto).
  assert (Hlt1 : c1 < length t) by (eapply nth_error_Some_lt; eauto).
  assert (Hlt2 : c2 < length t) by (eapply nth_error_Some_lt; eauto).
  destruct (Hchl _ Hc1) as [_ Hc1P]. destruct (Hchl _ Hc2) as [_ Hc2P].
  assert (Hc1n : c1 <> new) by (unfold new; lia). assert (Hc2n : c2 <> new) by (unfold new; lia).
  assert (HPn : pid <> new) by (unfold new; lia).
  set (T := replace_nth pid pn2 t).
  assert (HlenT : length T = length t) by apply replace_nth_length.
  set (Y := leaf_node new None None pid pe (ndepth pn2 + 1)).
  set (XP := node_add_child pn2 new pe).
  assert (HltPT : pid < length T) by lia.
  destruct (slots_add_leaf T pid XP Y HltPT) as (HsP & Hsnew & Hsfr & Hslen).
  set (T1 := replace_nth pid XP (T ++ [Y])) in *. rewrite HlenT in Hsnew, Hsfr, Hslen. fold new in Hsnew, Hsfr.
  set (XN := set_nname (node_add_child (node_add_child Y c1 e1) c2 e2) nm).
  set (A := node_set_parent n1 new e1). set (B := node_set_parent n2 new e2).
  set (t4 := replace_nth c2 B (replace_nth c1 A (replace_nth new XN T1))).
  assert (Hg_new : get T1 new = Ok Y) by (apply get_Ok; auto).
  assert (Hg_c1 : get (replace_nth new XN T1) c1 = Ok n1).
  { apply get_Ok. split; auto. slot. rewrite Hsfr by auto. unfold T. slot. auto. }
  assert (Hg_c2 : get (replace_nth c1 A (replace_nth new XN T1)) c2 = Ok n2).
  { apply get_Ok. split; auto. slot. rewrite Hsfr by auto. unfold T. slot. auto. }
  assert (S_new : nth_error t4 new = Some XN) by (unfold t4; slot; auto).
  assert (S_P : nth_error t4 pid = Some XP) by (unfold t4; slot; auto).
  assert (S_c1 : nth_error t4 c1 = Some A) by (unfold t4; slot; auto).
  assert (S_c2 : nth_error t4 c2 = Some B) by (unfold t4; slot; auto).
  assert (S_o : forall j, j <> pid -> j <> new -> j <> c1 -> j <> c2 -> nth_error t4 j = nth_error t j).
  { intros. unfold t4. slot. rewrite Hsfr by auto. unfold T. slot. auto. }
  assert (Hg_new4 : get t4 new = Ok XN)
    by (apply get_Ok; split; auto; unfold XN, Y; destruct e1, e2; reflexivity).
  unfold merge_chain.
  rewrite (upd_Ok _ _ _ _ Hg_new), bind_ret.
  rewrite (upd_Ok _ _ _ _ Hg_c1), bind_ret.
  rewrite (upd_Ok _ _ _ _ Hg_c2), bind_ret.
  fold XN A B t4. rewrite Hg_new4, bind_ret.
  destruct (nac_fields pn2 new pe) as (Gid & Gpar & Gpe & Gdep & Gdel & Gch). fold XP in Gid, Gpar, Gpe, Gdep, Gdel, Gch.
  assert (Hnew_none : edge_get (nedges nP) new = None).
  { destruct (edge_get (nedges nP) new) eqn:E; auto. exfalso.
    assert (Hin : In new (nchildren nP)) by (apply He2; congruence).
    apply Hchl in Hin as [Hl _]. apply live_lt in Hl. unfold new in Hl. lia. }
  assert (HXNd : ndepth XN = ndepth nP + 1).
  { unfold XN. simpl. destruct (nac_fields (node_add_child Y c1 e1) c2 e2) as (_ & _ & _ & -> & _).
    destruct (nac_fields Y c1 e1) as (_ & _ & _ & -> & _). simpl. congruence. }
  rewrite HXNd.
  destruct (nac_fields Y c1 e1) as (Y1 & Y2 & Y3 & Y4 & Y5 & Y6).
  destruct (nac_fields (node_add_child Y c1 e1) c2 e2) as (Z1 & Z2 & Z3 & Z4 & Z5 & Z6).
  assert (nid XN = new /\ nparent XN = Some pid /\ npedge XN = pe /\ ndeleted XN = false /\
          nchildren XN = [c1; c2]) as (W1 & W2 & W3 & W4 & W5)
    by (unfold XN, Y; destruct e1, e2; simpl; auto 10).
  apply (group2_wf t t4 pid nP c1 c2 n1 n2 pe e1 e2 XP XN); auto; try congruence.
  - rewrite Gch, Fch. reflexivity.
  - intros c Hq1 Hq2 Hq3. unfold XP. rewrite nac_edge_neq by auto. auto.
  - unfold XP. apply nac_edge_eq. rewrite Feo; auto; unfold new; lia.
  - unfold XP. rewrite nac_edge_neq; auto.
  - unfold XP. rewrite nac_edge_neq; auto.
  - unfold XN. simpl. rewrite nac_edge_neq by auto. apply nac_edge_eq. reflexivity.
  - unfold XN. simpl. apply nac_edge_eq. rewrite nac_edge_neq by auto. reflexivity.
  - unfold XN. simpl. intros c Hc.
    destruct (Nat.eq_dec c c2) as [->|Hcc2]; auto. rewrite nac_edge_neq in Hc by auto.
    destruct (Nat.eq_dec c c1) as [->|Hcc1]; auto. rewrite nac_edge_neq in Hc by auto.
    simpl in Hc. congruence.
  - unfold t4. repeat apply SortedEdges_replace.
    + apply SortedEdges_app; [|constructor]. unfold T. apply SortedEdges_replace; auto.
    + unfold XP. apply nac_sorted. auto.
    + unfold XN. simpl. apply nac_sorted, nac_sorted. constructor.
    + unfold A. simpl. eauto.
    + unfold B. simpl. eauto.
Qed.

Local Arguments reset_depth_f : simpl never.

Theorem merge_children_wf (t : arena) c1 c2 e1 e2 pe nm :
  WFS t -> WFS (snd (merge_children t c1 c2 e1 e2 pe nm)).
Proof.
  intros Hwfs. pose proof Hwfs as [Hwf Hse]. unfold merge_children.
  destruct (get t c1) as [n1| | |] eqn:Hg1; simpl; auto.
  destruct (get t c2) as [n2| | |] eqn:Hg2; simpl; auto.
  destruct (negb (onat_eqb (nparent n1) (nparent n2))) eqn:Hpar; simpl; auto.
  destruct (Nat.eqb c1 c2) eqn:Hc12; simpl; auto.
  apply Nat.eqb_neq in Hc12. apply Bool.negb_false_iff in Hpar.
  destruct (nparent n1) as [pid|] eqn:Hp1.
  - destruct (nparent n2) as [pid2|] eqn:Hp2; simpl in Hpar; [|discriminate].
    apply Nat.eqb_eq in Hpar. subst pid2.
    destruct (WF_parent_of _ _ _ _ Hwf Hg1 Hp1) as (nP & HgP & Hc1).
    destruct (WF_parent_of _ _ _ _ Hwf Hg2 Hp2) as (nP' & HgP' & Hc2).
    assert (nP' = nP) by congruence. subst nP'.
    destruct (nrc_Some nP c1 Hc1) as (pn1 & l1 & l2 & Hrm1 & Hs1 & _ & Hch1 & _).
    assert (Hc2' : In c2 (nchildren pn1)).
    { rewrite Hch1. rewrite Hs1 in Hc2. apply in_app_or in Hc2 as [?|[?|?]]; try congruence; apply in_or_app; auto. }
    destruct (nrc_Some pn1 c2 Hc2') as (pn2 & m1 & m2 & Hrm2 & _).
    destruct (merge_chain_wf t pid nP c1 c2 n1 n2 e1 e2 pe nm pn1 pn2 Hwfs HgP Hg1 Hg2 Hc1 Hc2 Hc12 Hrm1 Hrm2)
      as (t8 & Hchain & Hwf8).
    rewrite HgP. simpl. rewrite Hrm1, Hrm2.
    assert (HgP2 : get (replace_nth pid pn2 t) pid = Ok pn2).
    { apply get_Ok in HgP as [HnP HdP]. apply get_Ok. split.
      - eapply nth_error_replace_nth_eq'; eauto.
      - destruct (nrc_inv _ _ _ Hrm1) as (? & ? & _ & _ & _ & _ & _ & _ & _ & _ & Q1).
        destruct (nrc_inv _ _ _ Hrm2) as (? & ? & _ & _ & _ & _ & _ & _ & _ & _ & Q2). congruence. }
    rewrite (add_child_Ok _ _ _ _ _ _ HgP2). rewrite replace_nth_length.
    unfold merge_chain in Hchain. cbv iota beta. rewrite Hchain. simpl. auto.
  - destruct (nparent n2) eqn:Hp2; simpl in Hpar; [discriminate|].
    exfalso. apply Hc12. eapply WF_root_of; eauto.
Qed.

(* ---- resolve ------------------------------------------------------------------------------------------------ *)
Lemma mem_nat_In x l : mem_nat x l = true <-> In x l.
Proof.
  unfold mem_nat. rewrite existsb_exists. split.
  - intros (y & Hy & E). apply Nat.eqb_eq in E. subst; auto.
  - intros H; exists x; split; auto. apply Nat.eqb_refl.
Qed.

Section Resolve.
Variable O : LenOps L.

Lemma resolve_node_wf : forall fuel (t : arena) node ch t' rest,
  WFS t -> resolve_node_f O fuel t node ch = Ok (Some (t', rest)) -> WFS t'.
Proof.
  induction fuel as [|f IH]; intros t node ch t' rest Hwfs H; [discriminate|].
  simpl in H.
  apply bind_Ok in H as (n & Hgn & H).
  destruct ch as [|[c1 c2] ch']; [discriminate|].
  destruct (negb (mem_nat c1 (nchildren n) && mem_nat c2 (nchildren n) && negb (Nat.eqb c1 c2))) eqn:Hcond; [discriminate|].
  apply Bool.negb_false_iff in Hcond. apply andb_prop in Hcond as [Hcond Hc12]. apply andb_prop in Hcond as [Hc1 Hc2].
  apply mem_nat_In in Hc1, Hc2. apply Bool.negb_true_iff, Nat.eqb_neq in Hc12.
  rewrite (add_child_Ok _ _ _ _ _ _ Hgn) in H. rewrite bind_ret in H.
  apply bind_Ok in H as (n1 & Hg1 & H).
  apply bind_Ok in H as (t2 & Ht2 & H).
  apply bind_Ok in H as (t3 & Ht3 & H).
  apply bind_Ok in H as (pn & Hgpn & H).
  apply bind_Ok in H as (t4 & Ht4 & H).
  apply bind_Ok in H as (n2 & Hg2 & H).
  apply bind_Ok in H as (t5 & Ht5 & H).
  apply bind_Ok in H as (t6 & Ht6 & H).
  apply bind_Ok in H as (pn2 & Hgpn2 & H).
  apply bind_Ok in H as (t7 & Ht7 & H).
  apply bind_Ok in H as (pp & Hgpp & H).
  apply bind_Ok in H as (t8 & Ht8 & H).
  assert (Hwfs8 : WFS t8).
  { clear H IH. pose proof Hwfs as [Hwf Hse]. pose proof Hgn as Hgn'. apply get_Ok in Hgn' as [Hn Hdn].
    destruct (WF_node_facts t node n Hwf Hn Hdn) as (Hndch & Hchl & He2 & FidP).
    set (new := length t) in *.
    assert (HltP : node < length t) by (eapply nth_error_Some_lt; eauto).
    destruct (Hchl _ Hc1) as [Hl1 Hc1P]. destruct (Hchl _ Hc2) as [Hl2 Hc2P].
    assert (Hlt1 : c1 < length t) by (apply live_lt; auto).
    assert (Hlt2 : c2 < length t) by (apply live_lt; auto).
    assert (Hc1n : c1 <> new) by (unfold new; lia). assert (Hc2n : c2 <> new) by (unfold new; lia).
    assert (HPn : node <> new) by (unfold new; lia).
    set (pe := Some (l0 O)) in *.
    set (Y := leaf_node new None None node pe (ndepth n + 1)) in *.
    set (XP0 := node_add_child n new pe) in *.
    destruct (slots_add_leaf t node XP0 Y HltP) as (HsP & Hsnew & Hsfr & Hslen).
    set (T1 := replace_nth node XP0 (t ++ [Y])) in *. fold new in Hsnew, Hsfr.
    (* n1 *)
    apply get_Ok in Hg1 as [Hn1 Hd1]. rewrite Hsfr in Hn1 by auto.
    set (e1 := npedge n1) in *.
    (* t2 *)
    assert (Hg_new : get T1 new = Ok Y) by (apply get_Ok; auto).
    rewrite (upd_Ok _ _ _ _ Hg_new) in Ht2. injection Ht2 as <-.
    (* t3 *)
    assert (Hg_c1 : get (replace_nth new (node_add_child Y c1 e1) T1) c1 = Ok n1).
    { apply get_Ok. split; auto. slot. rewrite Hsfr by auto. auto. }
    rewrite (upd_Ok _ _ _ _ Hg_c1) in Ht3. injection Ht3 as <-.
    set (A := node_set_parent n1 new e1) in *.
    (* pn *)
    assert (pn = XP0). { apply get_Ok in Hgpn as [Hx _]. revert Hx. slot. congruence. } subst pn.
    destruct (node_remove_child XP0 c1) as [pn'|] eqn:Hrm1; [|discriminate]. injection Ht4 as <-.
    (* n2 *)
    apply get_Ok in Hg2 as [Hn2 Hd2]. revert Hn2. slot. rewrite Hsfr by auto. intros Hn2.
    set (e2 := npedge n2) in *.
    (* t5 *)
    set (t4 := replace_nth node pn' (replace_nth c1 A (replace_nth new (node_add_child Y c1 e1) T1))) in *.
    assert (Hg_new4 : get t4 new = Ok (node_add_child Y c1 e1)).
    { apply get_Ok. split; [unfold t4; slot; auto|]. unfold Y. destruct e1; reflexivity. }
    rewrite (upd_Ok _ _ _ _ Hg_new4) in Ht5. injection Ht5 as <-.
    set (XN := node_add_child (node_add_child Y c1 e1) c2 e2) in *.
    (* t6 *)
    assert (Hg_c2 : get (replace_nth new XN t4) c2 = Ok n2).
    { apply get_Ok. split; auto. unfold t4. slot. rewrite Hsfr by auto. auto. }
    rewrite (upd_Ok _ _ _ _ Hg_c2) in Ht6. injection Ht6 as <-.
    set (B := node_set_parent n2 new e2) in *.
    (* pn2 *)
    assert (pn2 = pn'). { apply get_Ok in Hgpn2 as [Hx _]. revert Hx. unfold t4. slot. congruence. } subst pn2.
    destruct (node_remove_child pn' c2) as [pn''|] eqn:Hrm2; [|discriminate]. injection Ht7 as <-.
    set (t7 := replace_nth node pn'' (replace_nth c2 B (replace_nth new XN t4))) in *.
    assert (S_P : nth_error t7 node = Some pn'') by (unfold t7, t4; slot; auto).
    assert (S_new : nth_error t7 new = Some XN) by (unfold t7, t4; slot; auto).
    assert (S_c1 : nth_error t7 c1 = Some A) by (unfold t7, t4; slot; auto).
    assert (S_c2 : nth_error t7 c2 = Some B) by (unfold t7, t4; slot; auto).
    assert (S_o : forall j, j <> node -> j <> new -> j <> c1 -> j <> c2 -> nth_error t7 j = nth_error t j).
    { intros. unfold t7, t4. slot. rewrite Hsfr by auto. auto. }
    assert (pp = XN). { apply get_Ok in Hgpp as [Hx _]. congruence. } subst pp.
    (* facts on the nodes *)
    destruct (nac_fields n new pe) as (Gid & Gpar & Gpe & Gdep & Gdel & Gch).
    fold XP0 in Gid, Gpar, Gpe, Gdep, Gdel, Gch.
    assert (Hnew_none : edge_get (nedges n) new = None).
    { destruct (edge_get (nedges n) new) eqn:E; auto. exfalso.
      assert (Hin : In new (nchildren n)) by (apply He2; congruence).
      apply Hchl in Hin as [Hl _]. apply live_lt in Hl. unfold new in Hl. lia. }
    assert (Hnd0 : NoDup (nchildren XP0)).
    { rewrite Gch. apply NoDup_app_iff. splits; auto.
      - repeat constructor. simpl; tauto.
      - intros j Hj [<-|[]]. apply Hchl in Hj as [Hl _]. apply live_lt in Hl. unfold new in Hl. lia. }
    assert (Hks0 : ksorted (nedges XP0)) by (apply nac_sorted; eauto).
    destruct (nrc2_facts XP0 c1 c2 pn' pn'' Hnd0 Hks0 Hc12 Hrm1 Hrm2)
      as (F1 & F2 & F3 & F4 & F5 & Fch & Feo & Fe1 & Fe2 & Fks).
    assert (nid XN = new /\ nparent XN = Some node /\ npedge XN = pe /\ ndeleted XN = false /\
            nchildren XN = [c1; c2] /\ ndepth XN = ndepth n + 1) as (W1 & W2 & W3 & W4 & W5 & W6)
      by (unfold XN, Y; destruct e1, e2; simpl; auto 10).
    rewrite W6 in Ht8.
    destruct (group2_wf t t7 node n c1 c2 n1 n2 pe e1 e2 pn'' XN) as (t8' & Hr8 & Hwfs8); auto; try congruence.
    - rewrite Fch, Gch, filter_app. simpl.
      replace (Nat.eqb new c1) with false by (symmetry; apply Nat.eqb_neq; auto).
      replace (Nat.eqb new c2) with false by (symmetry; apply Nat.eqb_neq; auto). reflexivity.
    - intros c Hq1 Hq2 Hq3. rewrite Feo by auto. unfold XP0. apply nac_edge_neq; auto.
    - rewrite Feo by auto. unfold XP0. apply nac_edge_eq; auto.
    - unfold XN. rewrite nac_edge_neq by auto. apply nac_edge_eq. reflexivity.
    - unfold XN. apply nac_edge_eq. rewrite nac_edge_neq by auto. reflexivity.
    - unfold XN. intros c Hc.
      destruct (Nat.eq_dec c c2) as [->|Hcc2]; auto. rewrite nac_edge_neq in Hc by auto.
      destruct (Nat.eq_dec c c1) as [->|Hcc1]; auto. rewrite nac_edge_neq in Hc by auto.
      simpl in Hc. congruence.
    - unfold t7, t4. repeat apply SortedEdges_replace.
      + apply SortedEdges_app; auto. constructor.
      + auto.
      + apply nac_sorted. constructor.
      + unfold A. simpl. eauto.
      + destruct (nrc_inv _ _ _ Hrm1) as (? & ? & _ & _ & _ & -> & _). apply ksorted_remove. auto.
      + unfold XN. apply nac_sorted, nac_sorted. constructor.
      + unfold B. simpl. eauto.
      + auto.
    - fold new in Hr8. congruence. }
  destruct (Nat.leb (length (nchildren n) - 1) 2).
  - injection H as <- <-. auto.
  - eapply IH; eauto.
Qed.

Theorem resolve_wf (t t' : arena) choices : WFS t -> resolve O t choices = Ok (Some t') -> WFS t'.
Proof.
  intros Hwfs H. unfold resolve in H. apply bind_Ok in H as (r & Hfold & H).
  assert (Hinv : match r with Some (t2, _) => WFS t2 | None => True end).
  { refine (foldM_inv (fun st : option (arena * list (nat * nat)) =>
                         match st with Some (t2, _) => WFS t2 | None => True end) _ _ _ _ _ _ Hfold);
      [|exact Hwfs].
    intros [[ta ca]|] id [[tb cb]|] Ha Hstep; auto.
    - eapply resolve_node_wf; eauto.
    - discriminate. }
  destruct r as [[t2 [|]]|]; try discriminate. injection H as <-. auto.
Qed.

End Resolve.

(* ---- Tree::add on an arena without live node (in particular the empty arena) ---------------------------- *)
Lemma add_wf (t : arena) nm cm :
  (forall i, ~ live t i) -> SortedEdges t -> WFS (fst (add t (new_node nm cm))).
Proof.
  intros Hno Hse. simpl. split.
  - right. exists (length t), (RT (length t) []). splits.
    + eapply Rep_node with (n := set_nid (new_node nm cm) (length t)); simpl; auto; try tauto; try congruence.
      apply nth_error_app_last.
    + rewrite ids_RT. simpl. repeat constructor. simpl; tauto.
    + intros i (n & Hn & Hd). rewrite ids_RT. simpl. left.
      destruct (Nat.lt_ge_cases i (length t)) as [Hlt|Hge].
      * rewrite nth_error_app_lt in Hn by auto. exfalso. apply (Hno i). exists n; auto.
      * pose proof (nth_error_Some_lt _ _ _ Hn) as Hl. rewrite app_length in Hl. simpl in Hl. lia.
  - apply SortedEdges_app; auto. constructor.
Qed.

(* ---- histories ------------------------------------------------------------------------------------------------ *)
Section Histories.
Variable O : LenOps L.

Inductive op :=
| OpAddRoot (name comment : option str)
| OpAddChild (name comment : option str) (parent : nat) (e : option L)
| OpRescale (f : L)
| OpResetDepths
| OpPrune (x : nat)
| OpCompress
| OpMergeChildren (c1 c2 : nat) (e1 e2 pe : option L) (nm : option str)
| OpResolve (choices : list (nat * nat))
| OpLadderize.

(* the arena after the operation, whatever it returns.  [OpAddRoot] is Tree::add used to create the root:
   it is only performed when the arena holds no live node (Tree::add on a tree that already has a root
   creates a second root; it is a construction primitive, not an editing operation). *)
Definition step (t : arena) (o : op) : arena :=
  match o with
  | OpAddRoot nm cm =>
      if existsb (fun n : node => negb (ndeleted n)) t then t else fst (add t (new_node nm cm))
  | OpAddChild nm cm p e => match add_child t (new_node nm cm) p e with Ok (t', _) => t' | _ => t end
  | OpRescale f => rescale O t f
  | OpResetDepths => match reset_depths t with Ok t' => t' | _ => t end
  | OpPrune x => match prune t x with Ok t' => t' | _ => t end
  | OpCompress => snd (compress O t)
  | OpMergeChildren c1 c2 e1 e2 pe nm => snd (merge_children t c1 c2 e1 e2 pe nm)
  | OpResolve ch => match resolve O t ch with Ok (Some t') => t' | _ => t end
  | OpLadderize => match ladderize t with Ok t' => t' | _ => t end
  end.

Lemma step_wf (t : arena) o : WFS t -> WFS (step t o).
Proof.
  intros Hwfs. destruct o; simpl.
  - destruct (existsb (fun n : node => negb (ndeleted n)) t) eqn:E; auto.
    apply add_wf; [|apply Hwfs]. intros i (n & Hn & Hd).
    assert (Hex : existsb (fun n : node => negb (ndeleted n)) t = true).
    { apply existsb_exists. exists n. split; [eapply nth_error_In; eauto|]. rewrite Hd. reflexivity. }
    congruence.
  - destruct (add_child t (new_node name comment) parent e) as [[t' id]| | |] eqn:E; auto.
    eapply add_child_wf; eauto.
  - apply rescale_wf; auto.
  - destruct (reset_depths t) eqn:E; auto. eapply reset_depths_wf; eauto.
  - destruct (prune t x) eqn:E; auto. eapply prune_wf; eauto.
  - apply compress_wf; auto.
  - apply merge_children_wf; auto.
  - destruct (resolve O t choices) as [[t'|]| | |] eqn:E; auto. eapply resolve_wf; eauto.
  - destruct (ladderize t) eqn:E; auto. eapply ladderize_wf; eauto.
Qed.

Theorem histories_wf (t0 : arena) ops : WFS t0 -> WFS (fold_left step ops t0).
Proof. revert t0. induction ops; simpl; auto. intros. apply IHops. apply step_wf; auto. Qed.

(* C03: starting from the empty arena, after any sequence of operations the live nodes form one rooted tree *)
Corollary histories_WF ops : WF (fold_left step ops (@nil node)).
Proof. apply WFS_WF. apply histories_wf. apply init_wf. Qed.

End Histories.

End WFOps.

(* ---- why WFS and not WF: plain WF is not inductive ------------------------------------------------------------ *)
Module WF_not_inductive.
Definition n0 : @node nat := mkNode 0 None None [1] None None [(1,7);(1,7)] 0 false.
Definition n1 : @node nat := mkNode 1 None (Some 0) [] (Some 7) None [] 1 false.
Definition t : @arena nat := [n0; n1].
Lemma wf_t : WF t.
Proof.
  right. exists 0, (RT 0 [RT 1 []]). split; [|split].
  - eapply Rep_node with (n:=n0); try reflexivity.
    + constructor; [|constructor]. eapply Rep_node with (n:=n1); try reflexivity.
      * constructor.
      * simpl. intros ? ? [].
      * simpl. intros c H. congruence.
    + simpl. intros c nc [<-|[]] H. inversion H. reflexivity.
    + simpl. intros c. destruct c as [|[|c]]; simpl; auto; congruence.
  - simpl. repeat constructor; simpl; intuition congruence.
  - intros i [n [H _]]. destruct i as [|[|i]]; simpl in *; auto. destruct i; discriminate.
Qed.
(* a duplicated key in a child-edge map survives edge_remove: prune breaks WF *)
Lemma prune_breaks_WF : exists t', prune t 1 = Ok t' /\ ~ WF t'.
Proof.
  eexists. split; [reflexivity|]. intros [Hn|(root & r & HR & _ & Hl)].
  - apply (Hn 0). eexists; split; reflexivity.
  - inversion HR; subst. match goal with H : nth_error _ ?k = Some _ |- _ => destruct k as [|[|i]]; simpl in * end.
    + inversion H; subst. simpl in *. specialize (H6 1). simpl in H6. apply H6. congruence.
    + inversion H; subst. discriminate.
    + destruct i; discriminate.
Qed.
End WF_not_inductive.

Print Assumptions init_wf.
Print Assumptions add_root_wf.
Print Assumptions add_wf.
Print Assumptions add_child_wf.
Print Assumptions rescale_wf.
Print Assumptions reset_depths_wf.
Print Assumptions prune_wf.
Print Assumptions compress_wf.
Print Assumptions merge_children_wf.
Print Assumptions resolve_wf.
Print Assumptions ladderize_wf.
Print Assumptions histories_wf.
Print Assumptions histories_WF.
Print Assumptions WF_not_inductive.prune_breaks_WF.
